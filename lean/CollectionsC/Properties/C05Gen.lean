import CollectionsC.Proofs.Deque
import CollectionsC.Proofs.DequeBits
import CollectionsC.Proofs.DequeRemoveAt
import CollectionsC.Proofs.DequeAddAt
import CollectionsC.Generated.FuncsDeque
/-! # C05 — translation validation of the deque model

`Generated/FuncsDeque.lean` is re-translated from the current text of `src/cc_deque.c` on every build
(`tools/gen_funcs.py`): `struct cc_deque_s` and `struct cc_deque_conf_s` as records with all their fields, the
`#ifdef ARCH_64` block of `upper_pow_two` resolved with the build's macro set, and `cc_deque_conf_init`,
`cc_deque_new_conf`, `cc_deque_new`, `cc_deque_destroy`, `cc_deque_add_first`, `cc_deque_add_last`,
`cc_deque_remove_first`, `cc_deque_remove_last`, `cc_deque_get_at`, `cc_deque_get_first`, `cc_deque_get_last`,
`cc_deque_size`, `cc_deque_capacity`, `cc_deque_add_at`, `cc_deque_remove_at` and the static `upper_pow_two`, `copy_buffer`, `expand_capacity`,
statement by statement.  The bit operations on `size_t` are translated as the `Nat` operations `&&&`, `|||`,
`>>>` (these cannot leave the 64-bit range) and `wshl` (left shift modulo `2^64`); subtraction and addition wrap
(`wsub`, `wadd`), so the index masks are literally `(first - 1) & (capacity - 1)` in 64-bit arithmetic.

This file proves, for each translated function: on **every state that satisfies `Deque.Inv`** (for the
constructors: every configuration and ledger), for every amount of fuel (the `memcpy` branch of `copy_buffer`
runs no loop), the translated function is **fault-free** and returns what the hand-written model function of
`Model/Deque.lean` returns — same status code, same out-value, same resulting state (`ofDeque`), same ledger; the
model's `decMask`/`%` index arithmetic is what the masks compute because the capacity is a power of two.
Block identity as in C01Gen: the theorems about functions that allocate or release say which ids the resulting
object owns and which were released.  `cc_deque_add_at` / `cc_deque_remove_at` (four `memmove` shapes each) agree for **every** index: the front-half
branch of `add_at` is the known finding D3, and the hand-written model transcribes the C text there, so the
agreement covers it as it is.  Not translated: the copies, filters, iterators and the remaining operations — the
differential correspondence of C05 covers them. -/
/- the proofs name the `%` variants of the mask facts too (see `mod_dec`); on the current text those simp arguments are unused -/
set_option linter.unusedSimpArgs false
namespace CC.Properties.C05Gen
open CC

/-- model state ↦ generated record -/
def ofDeque (d : Deque) (sid : Nat := 0) (bid : Nat := 0) : GenF.cc_deque_s :=
  { size := d.size, capacity := d.cap, first := d.first, last := d.last, buffer := d.buf,
    mem_alloc := some d.triple, mem_calloc := some d.triple, mem_free := some d.triple, id_ := sid, buffer_id := bid }

/-- generated record ↦ model state -/
def toDeque (g : GenF.cc_deque_s) : Deque :=
  { size := g.size, cap := g.capacity, first := g.first, last := g.last, buf := g.buffer,
    triple := g.mem_free.getD .conf }

theorem toDeque_ofDeque (d : Deque) (s b : Nat) : toDeque (ofDeque d s b) = d := by
  cases d; simp [toDeque, ofDeque]

/-- the configuration record handed to `cc_deque_new_conf` -/
def confOf (t : Triple) (cap : Nat) : GenF.cc_deque_conf_s :=
  { capacity := cap, mem_alloc := some t, mem_calloc := some t, mem_free := some t }

/-- the numeric status codes the translated text returns (re-checked against `Generated/Constants.lean`) -/
theorem codes : Stat.ok.code = 0 ∧ Stat.errAlloc.code = 1 ∧ Stat.errInvalidCapacity.code = 2 ∧
    Stat.errMaxCapacity.code = 4 ∧ Stat.errValueNotFound.code = 7 ∧ Stat.errOutOfRange.code = 8 := by decide

theorem wmul8 (n : Nat) (h : n ≤ Gen.MAX_POW_TWO) : GenF.wmul n 8 / 8 = n := by
  unfold GenF.wmul
  simp only [Gen.MAX_POW_TWO] at h
  rw [Nat.mod_eq_of_lt (by omega)]
  omega

@[simp] theorem wmul8_mod (n : Nat) : GenF.wmul n 8 % 8 = 0 := by
  unfold GenF.wmul
  rw [Nat.mod_mod_of_dvd _ (by decide : 8 ∣ 2 ^ 64), Nat.mul_mod_left]

theorem wadd_small (a b : Nat) (h : a + b ≤ 2 * Gen.MAX_POW_TWO) : GenF.wadd a b = a + b := by
  unfold GenF.wadd
  simp only [Gen.MAX_POW_TWO] at h
  exact Nat.mod_eq_of_lt (by omega)

theorem wsub_le (a b : Nat) (h : b ≤ a) : GenF.wsub a b = a - b := by
  unfold GenF.wsub; simp [h]

/-! ## `upper_pow_two` -/

/-- the static `upper_pow_two` (the bit-smearing text, 32-bit variant of this build) is the model's `upperPow2`,
for every argument -/
theorem upper_pow_two_agrees (n : Nat) : GenF.cc_deque_s__upper_pow_two n = Deque.upperPow2 n := by
  have hle := Deque.upperPow2_le_max n
  unfold Deque.upperPow2 at hle ⊢
  unfold GenF.cc_deque_s__upper_pow_two
  by_cases c0 : n ≥ Gen.MAX_POW_TWO
  · have c0' : n ≥ 2147483648 := by simpa [Gen.MAX_POW_TWO] using c0
    simp [c0', Gen.MAX_POW_TWO]
  have c0' : ¬ n ≥ 2147483648 := by simpa [Gen.MAX_POW_TWO] using c0
  by_cases c1 : n = 0
  · simp [c1, Gen.MAX_POW_TWO]
  have w : GenF.wsub n 1 = n - 1 := wsub_le n 1 (by omega)
  simp only [c0, c1, if_false] at hle
  simp only [c0, c0', c1, w, decide_false, if_false, Bool.false_eq_true]
  exact wadd_small _ 1 (by simp only [Gen.MAX_POW_TWO] at hle ⊢; omega)

/-! ## constructors, destructor -/

/-- `cc_deque_conf_init` -/
theorem deque_conf_init_agrees (u : GenF.cc_deque_conf_s) :
    GenF.cc_deque_conf_init u = confOf .libc Gen.DEQUE_DEFAULT_CAPACITY := by
  unfold GenF.cc_deque_conf_init confOf
  simp [Gen.DEQUE_DEFAULT_CAPACITY]

/-- `cc_deque_new_conf`, for every triple, capacity and ledger (refused allocations included): status code, the
constructed object (header block `nid`, buffer block `nid + 1`), the ledger, the released header when the buffer
is refused; fault-free -/
theorem deque_new_conf_agrees (t : Triple) (cap : Nat) (m : Mem) (nid : Nat) :
    GenF.cc_deque_new_conf (confOf t cap) m nid =
      ((Deque.new cap t m).1.code,
       (Deque.new cap t m).2.1.map (fun d => ofDeque d nid (nid + 1)),
       (Deque.new cap t m).2.2,
       (if (m.allocT t).1 then (if ((m.allocT t).2.allocT t).1 then nid + 2 else nid + 1) else nid),
       (if (m.allocT t).1 = true ∧ ((m.allocT t).2.allocT t).1 = false then [nid] else []), false) := by
  unfold GenF.cc_deque_new_conf Deque.new confOf
  simp only [upper_pow_two_agrees]
  have hc := Deque.upperPow2_le_max cap
  generalize Deque.upperPow2 cap = c at *
  have hw : GenF.wmul c 8 / 8 = c := wmul8 c hc
  by_cases a1 : (m.allocT t).1 = true
  · by_cases a2 : ((m.allocT t).2.allocT t).1 = true
    · simp [a1, a2, hw, codes, ofDeque, GenF.cc_deque_s.zero]
    · simp [a1, a2, codes]
  · simp [a1, codes]

/-- `cc_deque_new`: the default configuration, the C library triple -/
theorem deque_new_agrees (u : GenF.cc_deque_conf_s) (m : Mem) (nid : Nat) :
    GenF.cc_deque_new u m nid =
      ((Deque.new Gen.DEQUE_DEFAULT_CAPACITY .libc m).1.code,
       (Deque.new Gen.DEQUE_DEFAULT_CAPACITY .libc m).2.1.map (fun d => ofDeque d nid (nid + 1)),
       (Deque.new Gen.DEQUE_DEFAULT_CAPACITY .libc m).2.2,
       (if (m.allocT .libc).1 then (if ((m.allocT .libc).2.allocT .libc).1 then nid + 2 else nid + 1) else nid),
       (if (m.allocT .libc).1 = true ∧ ((m.allocT .libc).2.allocT .libc).1 = false then [nid] else []), false) := by
  unfold GenF.cc_deque_new
  simp only [deque_conf_init_agrees, deque_new_conf_agrees]
  simp

/-- `cc_deque_destroy`: first the buffer, then the struct; exactly the deque's two blocks are released -/
theorem deque_destroy_agrees (d : Deque) (m : Mem) (sid bid : Nat) (hd : sid ≠ bid) :
    GenF.cc_deque_destroy (ofDeque d sid bid) m = (d.destroy m, [sid, bid], false) := by
  unfold GenF.cc_deque_destroy Deque.destroy ofDeque
  simp [GenF.isDead, hd]

/-! ## reads -/

/-- `cc_deque_size`, `cc_deque_capacity` -/
theorem deque_size_agrees (d : Deque) : GenF.cc_deque_size (ofDeque d) = d.size := rfl
theorem deque_capacity_agrees (d : Deque) : GenF.cc_deque_capacity (ofDeque d) = d.cap := rfl

/-- `x & (capacity - 1)` is `x % capacity` on a power-of-two capacity -/
theorem mask_mod (d : Deque) (h : d.Inv) (x : Nat) : x &&& (GenF.wsub d.cap 1) = x % d.cap := by
  have hp := Deque.Inv.cap_pos h
  rw [wsub_le _ _ hp, h.1, Deque.and_capMask_eq_mod, ← h.1]

/-- `(x - 1) & (capacity - 1)` in 64-bit arithmetic is the model's `decMask x capacity` -/
theorem mask_dec (d : Deque) (h : d.Inv) (x : Nat) (hx : x < 2 ^ 64) :
    (GenF.wsub x 1) &&& (GenF.wsub d.cap 1) = decMask x d.cap := by
  have hp := Deque.Inv.cap_pos h
  have hk : d.cap.log2 ≤ 64 := by
    have h2 := h.2.1
    rw [h.1, Deque.max_pow_two_eq] at h2
    have := (Nat.pow_le_pow_iff_right (by decide : 1 < 2)).1 h2
    omega
  have := Deque.decMask_eq_wrap_and x d.cap.log2 hk hx
  rw [← h.1] at this
  rw [← this, wsub_le _ _ hp]
  unfold GenF.wsub
  by_cases c : 1 ≤ x
  · have e : (x + 2 ^ 64 - 1) % 2 ^ 64 = x - 1 := by
      have : x + 2 ^ 64 - 1 = (x - 1) + 2 ^ 64 := by omega
      rw [this, Nat.add_mod_right, Nat.mod_eq_of_lt (by omega)]
    rw [e, if_pos c]
  · have x0 : x = 0 := by omega
    subst x0
    simp

/-- the same with `%` instead of the mask (`(x - 1) % capacity` in 64-bit arithmetic): the agreement theorems below
also survive a rewrite of `& (capacity - 1)` into `% capacity` -/
theorem mod_dec (d : Deque) (h : d.Inv) (x : Nat) (hx : x < 2 ^ 64) :
    (GenF.wsub x 1) % d.cap = decMask x d.cap := by
  rw [← mask_mod d h, mask_dec d h x hx]

/-- `cc_deque_get_at`, for every index -/
theorem deque_get_at_agrees (d : Deque) (i : Nat) (m : Mem) (h : d.Inv) :
    GenF.cc_deque_get_at (ofDeque d) i = ((d.getAt i m).1.code, (d.getAt i m).2.1, false) ∧ (d.getAt i m).2.2 = m := by
  have hp := Deque.Inv.cap_pos h
  have hl := h.2.2.1
  have hf := h.2.2.2.1
  have hs := h.2.2.2.2.2
  have h31 := h.2.1
  unfold GenF.cc_deque_get_at Deque.getAt ofDeque
  by_cases c : i ≥ d.size
  · simp [c, codes]
  · have hw : GenF.wadd d.first i = d.first + i := wadd_small _ _ (by omega)
    have hb : (d.first + i) % d.cap < d.buf.length := by rw [hl]; exact Nat.mod_lt _ hp
    have hp0 : d.cap ≠ 0 := by omega
    simp [c, hw, mask_mod d h, hp0, hb, codes, Deque.rd]

/-- `cc_deque_get_first` -/
theorem deque_get_first_agrees (d : Deque) (m : Mem) (h : d.Inv) :
    GenF.cc_deque_get_first (ofDeque d) = ((d.getFirst m).1.code, (d.getFirst m).2.1, false) ∧ (d.getFirst m).2.2 = m := by
  have hl := h.2.2.1
  have hf := h.2.2.2.1
  unfold GenF.cc_deque_get_first Deque.getFirst ofDeque
  by_cases c : d.size = 0
  · simp [c, codes]
  · have hb : d.first < d.buf.length := by omega
    simp [c, hb, codes, Deque.rd]

/-- `cc_deque_get_last` -/
theorem deque_get_last_agrees (d : Deque) (m : Mem) (h : d.Inv) :
    GenF.cc_deque_get_last (ofDeque d) = ((d.getLast m).1.code, (d.getLast m).2.1, false) ∧ (d.getLast m).2.2 = m := by
  have hp := Deque.Inv.cap_pos h
  have hl := h.2.2.1
  have hll := Deque.Inv.last_lt h
  have h31 := h.2.1
  have hm := mask_dec d h d.last (by simp only [Gen.MAX_POW_TWO] at h31; omega)
  have hb : decMask d.last d.cap < d.buf.length := by rw [hl]; exact Deque.decMask_lt hp
  unfold GenF.cc_deque_get_last Deque.getLast ofDeque
  by_cases c : d.size = 0
  · simp [c, codes]
  · have hp0 : d.cap ≠ 0 := by omega
    have hm2 := mod_dec d h d.last (by simp only [Gen.MAX_POW_TWO] at h31; omega)
    simp [c, hm, hm2, hp0, hb, codes, Deque.rd]

/-! ## removal at the ends -/

/-- `cc_deque_remove_first` -/
theorem deque_remove_first_agrees (d : Deque) (outNN : Bool) (m : Mem) (sid bid : Nat) (h : d.Inv) :
    GenF.cc_deque_remove_first (ofDeque d sid bid) outNN =
      ((d.removeFirst m).1.code, (if outNN then (d.removeFirst m).2.1 else none),
       ofDeque (d.removeFirst m).2.2.1 sid bid, false) ∧ (d.removeFirst m).2.2.2 = m := by
  have hp := Deque.Inv.cap_pos h
  have hl := h.2.2.1
  have hf := h.2.2.2.1
  have h31 := h.2.1
  have hw : GenF.wadd d.first 1 = d.first + 1 := wadd_small _ _ (by omega)
  have hb : d.first < d.buf.length := by omega
  unfold GenF.cc_deque_remove_first Deque.removeFirst ofDeque
  by_cases c : d.size = 0
  · cases outNN <;> simp [c, codes]
  · have hs : GenF.wsub d.size 1 = d.size - 1 := wsub_le _ _ (by omega)
    have hp0 : d.cap ≠ 0 := by omega
    cases outNN <;> simp [c, hw, hs, hb, mask_mod d h, hp0, codes, Deque.rd]

/-- `cc_deque_remove_last` -/
theorem deque_remove_last_agrees (d : Deque) (outNN : Bool) (m : Mem) (sid bid : Nat) (h : d.Inv) :
    GenF.cc_deque_remove_last (ofDeque d sid bid) outNN =
      ((d.removeLast m).1.code, (if outNN then (d.removeLast m).2.1 else none),
       ofDeque (d.removeLast m).2.2.1 sid bid, false) ∧ (d.removeLast m).2.2.2 = m := by
  have hp := Deque.Inv.cap_pos h
  have hl := h.2.2.1
  have hll := Deque.Inv.last_lt h
  have h31 := h.2.1
  have hm := mask_dec d h d.last (by simp only [Gen.MAX_POW_TWO] at h31; omega)
  have hb : decMask d.last d.cap < d.buf.length := by rw [hl]; exact Deque.decMask_lt hp
  unfold GenF.cc_deque_remove_last Deque.removeLast ofDeque
  by_cases c : d.size = 0
  · cases outNN <;> simp [c, codes]
  · have hs : GenF.wsub d.size 1 = d.size - 1 := wsub_le _ _ (by omega)
    have hp0 : d.cap ≠ 0 := by omega
    have hm2 := mod_dec d h d.last (by simp only [Gen.MAX_POW_TWO] at h31; omega)
    cases outNN <;> simp [c, hm, hm2, hp0, hs, hb, codes, Deque.rd]

/-! ## growth -/

@[simp] theorem ofDeque_size (d : Deque) (s b : Nat) : (ofDeque d s b).size = d.size := rfl
@[simp] theorem ofDeque_capacity (d : Deque) (s b : Nat) : (ofDeque d s b).capacity = d.cap := rfl
@[simp] theorem ofDeque_first (d : Deque) (s b : Nat) : (ofDeque d s b).first = d.first := rfl
@[simp] theorem ofDeque_last (d : Deque) (s b : Nat) : (ofDeque d s b).last = d.last := rfl
@[simp] theorem ofDeque_buffer (d : Deque) (s b : Nat) : (ofDeque d s b).buffer = d.buf := rfl
@[simp] theorem ofDeque_alloc (d : Deque) (s b : Nat) : (ofDeque d s b).mem_alloc = some d.triple := rfl
@[simp] theorem ofDeque_calloc (d : Deque) (s b : Nat) : (ofDeque d s b).mem_calloc = some d.triple := rfl
@[simp] theorem ofDeque_free (d : Deque) (s b : Nat) : (ofDeque d s b).mem_free = some d.triple := rfl
@[simp] theorem ofDeque_id (d : Deque) (s b : Nat) : (ofDeque d s b).id_ = s := rfl
@[simp] theorem ofDeque_bid (d : Deque) (s b : Nat) : (ofDeque d s b).buffer_id = b := rfl

/-- where `last` is, from the invariant -/
theorem last_cases (d : Deque) (h : d.Inv) :
    (d.first + d.size < d.cap ∧ d.last = d.first + d.size) ∨
    (d.cap ≤ d.first + d.size ∧ d.last = d.first + d.size - d.cap) := by
  obtain ⟨hp, hmax, hl, hf, hla, hsz⟩ := h
  by_cases c : d.first + d.size < d.cap
  · left; exact ⟨c, by rw [hla, Nat.mod_eq_of_lt c]⟩
  · right; refine ⟨by omega, ?_⟩; rw [hla, Nat.mod_eq_sub_mod (by omega), Nat.mod_eq_of_lt (by omega)]

/-- the static `copy_buffer` without a copy callback (the two `memcpy` shapes), into any destination with room
for the elements: the destination after the copy is the model's; no access outside either block, for any fuel -/
theorem deque_copy_buffer_agrees (d : Deque) (buff : Buf Nat) (m : Mem) (sid bid fuel : Nat) (h : d.Inv)
    (hb : d.size ≤ buff.length) :
    GenF.cc_deque_s__copy_buffer (ofDeque d sid bid) buff none fuel = ((d.copyBuffer buff none m).1, false) ∧
      (d.copyBuffer buff none m).2 = m := by
  have hc := last_cases d h
  obtain ⟨hp, hmax, hl, hf, hla, hsz⟩ := h
  have w1 := wmul8 d.size (by omega)
  have w2 := wmul8 (d.cap - d.first) (by omega)
  have w3 := wmul8 d.last (by omega)
  have we : GenF.wsub d.cap d.first = d.cap - d.first := wsub_le _ _ (by omega)
  unfold GenF.cc_deque_s__copy_buffer Deque.copyBuffer ofDeque
  by_cases c0 : d.size = 0
  · simp [c0]
  by_cases c1 : d.last > d.first
  · have e1 : d.first + d.size ≤ d.buf.length := by omega
    simp [c0, c1, w1, hb, e1, Deque.cpy]
  · have e1 : d.cap - d.first ≤ buff.length := by omega
    have e2 : d.first + (d.cap - d.first) ≤ d.buf.length := by omega
    have e3 : d.cap - d.first + d.last ≤ buff.length := by omega
    have e4 : d.last ≤ d.buf.length := by omega
    simp [c0, c1, we, w2, w3, e1, e2, e3, e4, Deque.cpy]

theorem wshl1 (c : Nat) (h : c ≤ Gen.MAX_POW_TWO) : GenF.wshl c 1 = c <<< 1 := by
  unfold GenF.wshl
  simp only [Gen.MAX_POW_TWO] at h
  rw [Nat.shiftLeft_eq]
  exact Nat.mod_eq_of_lt (by omega)

/-- the static `expand_capacity`: on success the buffer is a fresh block (id `nid`) and the old one (id `bid`) has
been released — after the copy —, otherwise nothing changes; fault-free, for any fuel -/
theorem deque_expand_agrees (d : Deque) (m : Mem) (sid bid nid fuel : Nat) (h : d.Inv) (hs : sid ≠ bid) :
    GenF.cc_deque_s__expand_capacity (ofDeque d sid bid) m nid fuel =
      ((d.expandCapacity m).1.code,
       ofDeque (d.expandCapacity m).2.1 sid (if (d.expandCapacity m).1 = .ok then nid else bid),
       (d.expandCapacity m).2.2,
       (if (d.expandCapacity m).1 = .ok then nid + 1 else nid),
       (if (d.expandCapacity m).1 = .ok then [bid] else []), false) := by
  have hI := h
  obtain ⟨hp, hmax, hl, hf, hla, hsz⟩ := h
  have hsh := wshl1 d.cap hmax
  have hlen : d.size ≤ (Buf.mk (d.cap <<< 1) : Buf Nat).length := by
    rw [Nat.shiftLeft_eq]; simp; omega
  obtain ⟨cb1, cb2⟩ := deque_copy_buffer_agrees d (Buf.mk (d.cap <<< 1)) (m.allocT d.triple).2 sid bid fuel hI hlen
  unfold GenF.cc_deque_s__expand_capacity Deque.expandCapacity
  by_cases c0 : d.cap = Gen.MAX_POW_TWO
  · have c0' : d.cap = 2147483648 := by simpa [Gen.MAX_POW_TWO] using c0
    simp [c0', Gen.MAX_POW_TWO, codes]
  have c0' : ¬ d.cap = 2147483648 := by simpa [Gen.MAX_POW_TWO] using c0
  by_cases al : (m.allocT d.triple).1 = true
  · simp [c0, c0', al, hsh, cb1, cb2, codes, GenF.isDead, hs]
    simp [ofDeque]
  · simp [c0, c0', al, codes]

/-! ## insertion at the ends -/

theorem code_ne_zero (s : Stat) (h : s ≠ .ok) : s.code ≠ 0 := by
  intro hc; apply h; revert hc
  cases s <;> simp [Stat.code, Gen.CC_OK, Gen.CC_ERR_ALLOC,
    Gen.CC_ERR_INVALID_CAPACITY, Gen.CC_ERR_INVALID_RANGE, Gen.CC_ERR_MAX_CAPACITY, Gen.CC_ERR_KEY_NOT_FOUND,
    Gen.CC_ERR_VALUE_NOT_FOUND, Gen.CC_ERR_OUT_OF_RANGE, Gen.CC_ITER_END]

/-- the part of `cc_deque_add_first` behind the capacity test (`cc_deque_add_first_k1`: step `first` back under
the mask, store), for every set of released blocks that does not contain the deque's two blocks -/
theorem add_first_tail (d : Deque) (x : Nat) (m : Mem) (nid sid bid : Nat) (dead : List Nat) (h : d.Inv)
    (hl1 : GenF.isDead dead sid = false) (hl2 : GenF.isDead dead bid = false) :
    GenF.cc_deque_add_first_k1 (ofDeque d sid bid) x m nid dead false =
      ((d.addFirstCore x m).1.code, ofDeque (d.addFirstCore x m).2.1 sid bid, (d.addFirstCore x m).2.2, nid, dead,
       false) := by
  have hp := Deque.Inv.cap_pos h
  have hl := h.2.2.1
  have hf := h.2.2.2.1
  have hsz := h.2.2.2.2.2
  have h31 := h.2.1
  have hm := mask_dec d h d.first (by simp only [Gen.MAX_POW_TWO] at h31; omega)
  have hb : decMask d.first d.cap < d.buf.length := by rw [hl]; exact Deque.decMask_lt hp
  have hw : GenF.wadd d.size 1 = d.size + 1 := wadd_small _ _ (by omega)
  unfold GenF.cc_deque_add_first_k1 Deque.addFirstCore ofDeque
  have hp0 : d.cap ≠ 0 := by omega
  have hm2 := mod_dec d h d.first (by simp only [Gen.MAX_POW_TWO] at h31; omega)
  simp [hm, hm2, hp0, hb, hw, hl1, hl2, codes, Deque.wr]

/-- the part of `cc_deque_add_last` behind the capacity test (`cc_deque_add_last_k1`: store at `last`, step `last`
forward under the mask) -/
theorem add_last_tail (d : Deque) (x : Nat) (m : Mem) (nid sid bid : Nat) (dead : List Nat) (h : d.Inv)
    (hl1 : GenF.isDead dead sid = false) (hl2 : GenF.isDead dead bid = false) :
    GenF.cc_deque_add_last_k1 (ofDeque d sid bid) x m nid dead false =
      ((d.addLastCore x m).1.code, ofDeque (d.addLastCore x m).2.1 sid bid, (d.addLastCore x m).2.2, nid, dead,
       false) := by
  have hp := Deque.Inv.cap_pos h
  have hl := h.2.2.1
  have hll := Deque.Inv.last_lt h
  have hsz := h.2.2.2.2.2
  have h31 := h.2.1
  have hb : d.last < d.buf.length := by omega
  have hw : GenF.wadd d.size 1 = d.size + 1 := wadd_small _ _ (by omega)
  have hw2 : GenF.wadd d.last 1 = d.last + 1 := wadd_small _ _ (by omega)
  unfold GenF.cc_deque_add_last_k1 Deque.addLastCore ofDeque
  have hp0 : d.cap ≠ 0 := by omega
  simp [hb, hw, hw2, mask_mod d h, hp0, hl1, hl2, codes, Deque.wr]

/-- `cc_deque_add_first` (growth included): status code, state, ledger, block ids; fault-free, for any fuel -/
theorem deque_add_first_agrees (d : Deque) (x : Nat) (m : Mem) (sid bid nid fuel : Nat)
    (h : d.Inv) (hsb : sid ≠ bid) (hbn : bid ≠ nid) :
    GenF.cc_deque_add_first (ofDeque d sid bid) x m nid fuel =
      ((d.addFirst x m).1.code,
       ofDeque (d.addFirst x m).2.1 sid (if d.size ≥ d.cap ∧ (d.expandCapacity m).1 = .ok then nid else bid),
       (d.addFirst x m).2.2,
       (if d.size ≥ d.cap ∧ (d.expandCapacity m).1 = .ok then nid + 1 else nid),
       (if d.size ≥ d.cap ∧ (d.expandCapacity m).1 = .ok then [bid] else []), false) := by
  unfold Deque.addFirst GenF.cc_deque_add_first
  by_cases hfull : d.size ≥ d.cap
  · have hd : decide ((ofDeque d sid bid).size ≥ (ofDeque d sid bid).capacity) = true := by
      change decide (d.size ≥ d.cap) = true
      simpa using hfull
    dsimp only
    rw [hd]
    simp only [hfull, if_true, true_and]
    rw [deque_expand_agrees d m sid bid nid fuel h hsb]
    dsimp only
    by_cases hok : (d.expandCapacity m).1 = .ok
    · obtain ⟨e1, _⟩ := Deque.expandCapacity_ok d m h hok
      simp only [hok, if_true, codes, ne_eq, not_true_eq_false, decide_false, if_false, Bool.false_eq_true,
        bne_self_eq_false, Bool.false_or, List.append_nil]
      exact add_first_tail (d.expandCapacity m).2.1 x (d.expandCapacity m).2.2 (nid + 1) sid nid [bid] e1
        (by simp [GenF.isDead, hsb]) (by simp [GenF.isDead]; exact fun e => hbn e.symm)
    · have hne := code_ne_zero _ hok
      simp [hok, hne, codes]
  · have hd : decide ((ofDeque d sid bid).size ≥ (ofDeque d sid bid).capacity) = false := by
      change decide (d.size ≥ d.cap) = false
      simpa using hfull
    dsimp only
    rw [hd]
    simp only [hfull, if_false, false_and, Bool.false_eq_true]
    exact add_first_tail d x m nid sid bid [] h (by simp [GenF.isDead]) (by simp [GenF.isDead])

/-- `cc_deque_add_last` (growth included): status code, state, ledger, block ids; fault-free, for any fuel -/
theorem deque_add_last_agrees (d : Deque) (x : Nat) (m : Mem) (sid bid nid fuel : Nat)
    (h : d.Inv) (hsb : sid ≠ bid) (hbn : bid ≠ nid) :
    GenF.cc_deque_add_last (ofDeque d sid bid) x m nid fuel =
      ((d.addLast x m).1.code,
       ofDeque (d.addLast x m).2.1 sid (if d.cap = d.size ∧ (d.expandCapacity m).1 = .ok then nid else bid),
       (d.addLast x m).2.2,
       (if d.cap = d.size ∧ (d.expandCapacity m).1 = .ok then nid + 1 else nid),
       (if d.cap = d.size ∧ (d.expandCapacity m).1 = .ok then [bid] else []), false) := by
  unfold Deque.addLast GenF.cc_deque_add_last
  by_cases hfull : d.cap = d.size
  · have hd : decide ((ofDeque d sid bid).capacity = (ofDeque d sid bid).size) = true := by
      change decide (d.cap = d.size) = true
      simpa using hfull
    dsimp only
    rw [hd]
    simp only [hfull, if_true, true_and]
    rw [deque_expand_agrees d m sid bid nid fuel h hsb]
    dsimp only
    by_cases hok : (d.expandCapacity m).1 = .ok
    · obtain ⟨e1, _⟩ := Deque.expandCapacity_ok d m h hok
      simp only [hok, if_true, codes, ne_eq, not_true_eq_false, decide_false, if_false, Bool.false_eq_true,
        bne_self_eq_false, Bool.false_or, List.append_nil]
      exact add_last_tail (d.expandCapacity m).2.1 x (d.expandCapacity m).2.2 (nid + 1) sid nid [bid] e1
        (by simp [GenF.isDead, hsb]) (by simp [GenF.isDead]; exact fun e => hbn e.symm)
    · have hne := code_ne_zero _ hok
      simp [hok, hne, codes]
  · have hd : decide ((ofDeque d sid bid).capacity = (ofDeque d sid bid).size) = false := by
      change decide (d.cap = d.size) = false
      simpa using hfull
    dsimp only
    rw [hd]
    simp only [hfull, if_false, false_and, Bool.false_eq_true]
    exact add_last_tail d x m nid sid bid [] h (by simp [GenF.isDead]) (by simp [GenF.isDead])

/-! ## `remove_at` -/

theorem mask_mod1 (d : Deque) (h : d.Inv) (x : Nat) : x &&& (d.cap - 1) = x % d.cap := by
  have hp := Deque.Inv.cap_pos h
  rw [← mask_mod d h, wsub_le _ _ hp]

theorem mask_dec1 (d : Deque) (h : d.Inv) (x : Nat) (hx : x < 2 ^ 64) :
    (GenF.wsub x 1) &&& (d.cap - 1) = decMask x d.cap := by
  have hp := Deque.Inv.cap_pos h
  rw [← mask_dec d h x hx, wsub_le _ _ hp]

set_option maxHeartbeats 1000000 in
/-- `cc_deque_remove_at`, for every index (the four `memmove` shapes, and the two forwarding cases) -/
theorem deque_remove_at_agrees (d : Deque) (i : Nat) (outNN : Bool) (m : Mem) (sid bid : Nat) (h : d.Inv) :
    GenF.cc_deque_remove_at (ofDeque d sid bid) i outNN =
      ((d.removeAt i m).1.code, (if outNN then (d.removeAt i m).2.1 else none),
       ofDeque (d.removeAt i m).2.2.1 sid bid, false) ∧ (d.removeAt i m).2.2.2 = m := by
  refine ⟨?_, (Deque.removeAt_spec d i m h).2.2.2.2.1⟩
  have hI := h
  have hp := Deque.Inv.cap_pos h
  have hll := Deque.Inv.last_lt h
  obtain ⟨hpw, hmax, hl, hf, hla, hsz⟩ := h
  have h31 : d.cap ≤ 2147483648 := by simpa [Gen.MAX_POW_TWO] using hmax
  unfold GenF.cc_deque_remove_at Deque.removeAt
  by_cases c0 : i ≥ d.size
  · simp [c0, codes]
  have hc : GenF.wsub d.cap 1 = d.cap - 1 := wsub_le _ _ hp
  have hwa : GenF.wadd d.first i = d.first + i := wadd_small _ _ (by simp only [Gen.MAX_POW_TWO]; omega)
  have hpl : (d.first + i) % d.cap < d.cap := Nat.mod_lt _ hp
  have c5 := mod_cases (x := d.first + i) (c := d.cap) (by omega)
  have hfm : d.first % d.cap = d.first := Nat.mod_eq_of_lt hf
  have hlm : d.last % d.cap = d.last := Nat.mod_eq_of_lt hll
  by_cases c1 : i = 0
  · obtain ⟨g1, g2⟩ := deque_remove_first_agrees d outNN m sid bid hI
    subst c1
    have hb : d.first < d.buf.length := by omega
    simp [c0, hc, hwa, mask_mod1 d hI, hfm, hb, g1, Deque.rd]
  by_cases c2 : i = d.cap - 1
  · obtain ⟨g1, g2⟩ := deque_remove_last_agrees d outNN m sid bid hI
    have hb : (d.first + i) % d.cap < d.buf.length := by omega
    have c2' : (i = d.cap - 1) = True := eq_true c2
    simp [c0, c1, c2', hc, hwa, mask_mod1 d hI, hb, g1, Deque.rd]
  have c2' : (i = d.cap - 1) = False := eq_false c2
  have hs2 : 2 ≤ d.size := by omega
  have hfh := Deque.frontHalf_of_two_le (index := i) hs2
  have hws : GenF.wsub (d.size / 2) 1 = d.size / 2 - 1 := wsub_le _ _ (by omega)
  have hsz1 : GenF.wsub d.size 1 = d.size - 1 := wsub_le _ _ (by omega)
  have hb : (d.first + i) % d.cap < d.buf.length := by omega
  generalize hpdef : (d.first + i) % d.cap = p at *
  have e1 : GenF.wsub (d.cap - 1) d.first = d.cap - 1 - d.first := wsub_le _ _ (by omega)
  have e2 : GenF.wadd d.first 1 = d.first + 1 := wadd_small _ _ (by simp only [Gen.MAX_POW_TWO]; omega)
  have e3 := wmul8 (d.cap - 1 - d.first) (by simp only [Gen.MAX_POW_TWO]; omega)
  have e4 := wmul8 p (by simp only [Gen.MAX_POW_TWO]; omega)
  have e5 := wmul8 i (by simp only [Gen.MAX_POW_TWO]; omega)
  have e6 : GenF.wsub (d.cap - 1) p = d.cap - 1 - p := wsub_le _ _ (by omega)
  have e7 : GenF.wadd p 1 = p + 1 := wadd_small _ _ (by simp only [Gen.MAX_POW_TWO]; omega)
  have e8 := wmul8 (d.cap - 1 - p) (by simp only [Gen.MAX_POW_TWO]; omega)
  have e9 := wmul8 (d.last - 1) (by simp only [Gen.MAX_POW_TWO]; omega)
  have e10 := wmul8 (d.last - p) (by simp only [Gen.MAX_POW_TWO]; omega)
  have hm1 := mask_dec1 d hI d.last (by omega)
  have hm2 := mod_dec d hI d.last (by omega)
  have hm3 : d.last > 1 → (d.last - 1) % d.cap = decMask d.last d.cap := by
    intro hh; unfold decMask; rw [if_neg (by omega)]
  have b0 : d.cap - 1 < d.buf.length := by omega
  have b1 : d.first + 1 + (d.cap - 1 - d.first) ≤ d.buf.length := by omega
  have b2 : d.first + (d.cap - 1 - d.first) ≤ d.buf.length := by omega
  have b3 : 1 + p ≤ d.buf.length := by omega
  have b4 : p ≤ d.buf.length := by omega
  have b5 : 0 < d.buf.length := by omega
  have b8 : p + (d.cap - 1 - p) ≤ d.buf.length := by omega
  have b9 : p + 1 + (d.cap - 1 - p) ≤ d.buf.length := by omega
  have b10 : d.last - 1 ≤ d.buf.length := by omega
  have b11 : 1 + (d.last - 1) ≤ d.buf.length := by omega
  by_cases cf : i ≤ d.size / 2 - 1
  · have hfh' : Deque.frontHalf i d.size = true := by rw [hfh]; simp; omega
    by_cases cw : p < d.first
    · by_cases k1 : d.first = d.cap - 1
      · have k1' := eq_true k1
        by_cases k2 : p = 0
        · have k2' := eq_true k2
          cases outNN <;> simp [c0, c1, c2', hc, hwa, mask_mod1 d hI, hfm, hlm, hpdef, hws, hsz1, e1, e2, e3, e4, e5, e6, e7, e8, e9, e10, hm1, hm2, hm3, hb, b0, b1, b2, b3, b4, b5, b8, b9, b10, b11, codes, Deque.rd, Deque.wr, Deque.mv, ofDeque, hfh', cf, cw, k1', k2', Deque.rmFrontWrap]
        · have k2' := eq_false k2
          cases outNN <;> simp [c0, c1, c2', hc, hwa, mask_mod1 d hI, hfm, hlm, hpdef, hws, hsz1, e1, e2, e3, e4, e5, e6, e7, e8, e9, e10, hm1, hm2, hm3, hb, b0, b1, b2, b3, b4, b5, b8, b9, b10, b11, codes, Deque.rd, Deque.wr, Deque.mv, ofDeque, hfh', cf, cw, k1', k2', Deque.rmFrontWrap]
      · have k1' := eq_false k1
        by_cases k2 : p = 0
        · have k2' := eq_true k2
          cases outNN <;> simp [c0, c1, c2', hc, hwa, mask_mod1 d hI, hfm, hlm, hpdef, hws, hsz1, e1, e2, e3, e4, e5, e6, e7, e8, e9, e10, hm1, hm2, hm3, hb, b0, b1, b2, b3, b4, b5, b8, b9, b10, b11, codes, Deque.rd, Deque.wr, Deque.mv, ofDeque, hfh', cf, cw, k1', k2', Deque.rmFrontWrap]
        · have k2' := eq_false k2
          cases outNN <;> simp [c0, c1, c2', hc, hwa, mask_mod1 d hI, hfm, hlm, hpdef, hws, hsz1, e1, e2, e3, e4, e5, e6, e7, e8, e9, e10, hm1, hm2, hm3, hb, b0, b1, b2, b3, b4, b5, b8, b9, b10, b11, codes, Deque.rd, Deque.wr, Deque.mv, ofDeque, hfh', cf, cw, k1', k2', Deque.rmFrontWrap]
    · have b6 : d.first + 1 + i ≤ d.buf.length := by omega
      have b7 : d.first + i ≤ d.buf.length := by omega
      cases outNN <;> simp [c0, c1, c2', hc, hwa, mask_mod1 d hI, hfm, hlm, hpdef, hws, hsz1, e1, e2, e3, e4, e5, e6, e7, e8, e9, e10, hm1, hm2, hm3, hb, b0, b1, b2, b3, b4, b5, b8, b9, b10, b11, codes, Deque.rd, Deque.wr, Deque.mv, ofDeque, hfh', cf, cw, b6, b7, Deque.rmFrontContig]
  · have hfh' : Deque.frontHalf i d.size = false := by rw [hfh]; simp; omega
    by_cases cw : p > d.last
    · by_cases k1 : p = d.cap - 1
      · have k1' := eq_true k1
        by_cases k2 : d.last > 1
        · have k2' := eq_true k2
          have hl1 : d.last > 1 → GenF.wsub d.last 1 = d.last - 1 := fun hh => wsub_le _ _ (by omega)
          cases outNN <;> simp [c0, c1, c2', hc, hwa, mask_mod1 d hI, hfm, hlm, hpdef, hws, hsz1, e1, e2, e3, e4, e5, e6, e7, e8, e9, e10, hm1, hm2, hm3, hb, b0, b1, b2, b3, b4, b5, b8, b9, b10, b11, codes, Deque.rd, Deque.wr, Deque.mv, ofDeque, hfh', cf, cw, k1', k2', hl1, Deque.rmBackWrap]
        · have k2' := eq_false k2
          have hl1 : d.last > 1 → GenF.wsub d.last 1 = d.last - 1 := fun hh => wsub_le _ _ (by omega)
          cases outNN <;> simp [c0, c1, c2', hc, hwa, mask_mod1 d hI, hfm, hlm, hpdef, hws, hsz1, e1, e2, e3, e4, e5, e6, e7, e8, e9, e10, hm1, hm2, hm3, hb, b0, b1, b2, b3, b4, b5, b8, b9, b10, b11, codes, Deque.rd, Deque.wr, Deque.mv, ofDeque, hfh', cf, cw, k1', k2', hl1, Deque.rmBackWrap]
      · have k1' := eq_false k1
        by_cases k2 : d.last > 1
        · have k2' := eq_true k2
          have hl1 : d.last > 1 → GenF.wsub d.last 1 = d.last - 1 := fun hh => wsub_le _ _ (by omega)
          cases outNN <;> simp [c0, c1, c2', hc, hwa, mask_mod1 d hI, hfm, hlm, hpdef, hws, hsz1, e1, e2, e3, e4, e5, e6, e7, e8, e9, e10, hm1, hm2, hm3, hb, b0, b1, b2, b3, b4, b5, b8, b9, b10, b11, codes, Deque.rd, Deque.wr, Deque.mv, ofDeque, hfh', cf, cw, k1', k2', hl1, Deque.rmBackWrap]
        · have k2' := eq_false k2
          have hl1 : d.last > 1 → GenF.wsub d.last 1 = d.last - 1 := fun hh => wsub_le _ _ (by omega)
          cases outNN <;> simp [c0, c1, c2', hc, hwa, mask_mod1 d hI, hfm, hlm, hpdef, hws, hsz1, e1, e2, e3, e4, e5, e6, e7, e8, e9, e10, hm1, hm2, hm3, hb, b0, b1, b2, b3, b4, b5, b8, b9, b10, b11, codes, Deque.rd, Deque.wr, Deque.mv, ofDeque, hfh', cf, cw, k1', k2', hl1, Deque.rmBackWrap]
    · have hlp : GenF.wsub d.last p = d.last - p := wsub_le _ _ (by omega)
      have b12 : p + (d.last - p) ≤ d.buf.length := by omega
      have b13 : p + 1 + (d.last - p) ≤ d.buf.length := by omega
      cases outNN <;> simp [c0, c1, c2', hc, hwa, mask_mod1 d hI, hfm, hlm, hpdef, hws, hsz1, e1, e2, e3, e4, e5, e6, e7, e8, e9, e10, hm1, hm2, hm3, hb, b0, b1, b2, b3, b4, b5, b8, b9, b10, b11, codes, Deque.rd, Deque.wr, Deque.mv, ofDeque, hfh', cf, cw, hlp, b12, b13, Deque.rmBackContig]

/-! ## `add_at` -/

set_option maxHeartbeats 2000000 in
/-- the part of `cc_deque_add_at` behind the range test and the growth test (`cc_deque_add_at_k1`), on a deque with
room, for every index (the front-half branch is finding D3 — the model transcribes the C text, so the agreement
holds there too) and every set of released blocks that does not contain the deque's two blocks -/
theorem deque_add_at_tail (d : Deque) (x i : Nat) (m : Mem) (nid sid bid : Nat) (dead : List Nat) (fuel : Nat) (h : d.Inv)
    (hlt : d.size < d.cap) (hi : i < d.size) (hsb : sid ≠ bid) (hbn : bid ≠ nid)
    (hl1 : GenF.isDead dead sid = false) (hl2 : GenF.isDead dead bid = false) :
    GenF.cc_deque_add_at_k1 (ofDeque d sid bid) x i m nid dead fuel false =
      ((d.addAtCore x i m).1.code, ofDeque (d.addAtCore x i m).2.1 sid bid, (d.addAtCore x i m).2.2, nid, dead,
       false) := by
  have hI := h
  have hp := Deque.Inv.cap_pos h
  have hll := Deque.Inv.last_lt h
  obtain ⟨hpw, hmax, hl, hf, hla, hsz⟩ := h
  have h31 : d.cap ≤ 2147483648 := by simpa [Gen.MAX_POW_TWO] using hmax
  unfold GenF.cc_deque_add_at_k1 Deque.addAtCore
  have hc : GenF.wsub d.cap 1 = d.cap - 1 := wsub_le _ _ hp
  have hwa : GenF.wadd d.first i = d.first + i := wadd_small _ _ (by simp only [Gen.MAX_POW_TWO]; omega)
  have hpl : (d.first + i) % d.cap < d.cap := Nat.mod_lt _ hp
  have c5 := mod_cases (x := d.first + i) (c := d.cap) (by omega)
  have c6 := mod_cases (x := d.first + d.size) (c := d.cap) (by omega)
  have hfm : d.first % d.cap = d.first := Nat.mod_eq_of_lt hf
  have hlm : d.last % d.cap = d.last := Nat.mod_eq_of_lt hll
  have hnge : ¬ d.size ≥ d.cap := by omega
  have hne : ¬ d.cap = d.size := by omega
  by_cases c1 : i = 0
  · have g := deque_add_first_agrees d x m sid bid nid fuel hI hsb hbn
    simp only [hnge, false_and, if_false] at g
    have c1' := eq_true c1
    simp [c1', g, hl1]
  by_cases c2 : i = d.cap - 1
  · have g := deque_add_last_agrees d x m sid bid nid fuel hI hsb hbn
    simp only [hne, false_and, if_false] at g
    have c2' : (i = d.cap - 1) = True := eq_true c2
    simp [c1, c2', hc, g, hl1]
  have c2' : (i = d.cap - 1) = False := eq_false c2
  have hs2 : 2 ≤ d.size := by omega
  have hfh := Deque.frontHalf_of_two_le (index := i) hs2
  have hws : GenF.wsub (d.size / 2) 1 = d.size / 2 - 1 := wsub_le _ _ (by omega)
  have hb : (d.first + i) % d.cap < d.buf.length := by omega
  generalize hpdef : (d.first + i) % d.cap = p at *
  have e1 : GenF.wsub (d.cap - 1) d.first = d.cap - 1 - d.first := wsub_le _ _ (by omega)
  have e4 := wmul8 p (by simp only [Gen.MAX_POW_TWO]; omega)
  have e5 := wmul8 i (by simp only [Gen.MAX_POW_TWO]; omega)
  have e6 : GenF.wsub (d.cap - 1) p = d.cap - 1 - p := wsub_le _ _ (by omega)
  have e7 : GenF.wadd p 1 = p + 1 := wadd_small _ _ (by simp only [Gen.MAX_POW_TWO]; omega)
  have e8 := wmul8 (d.cap - 1 - p) (by simp only [Gen.MAX_POW_TWO]; omega)
  have e11 : GenF.wadd (d.cap - 1 - d.first) 1 = d.cap - 1 - d.first + 1 :=
    wadd_small _ _ (by simp only [Gen.MAX_POW_TWO]; omega)
  have e12 := wmul8 (d.cap - 1 - d.first + 1) (by simp only [Gen.MAX_POW_TWO]; omega)
  have e13 := wmul8 0 (by simp only [Gen.MAX_POW_TWO]; omega)
  have e14 := wmul8 d.last (by simp only [Gen.MAX_POW_TWO]; omega)
  have e15 : GenF.wsub d.size i = d.size - i := wsub_le _ _ (by omega)
  have e16 := wmul8 (d.size - i) (by simp only [Gen.MAX_POW_TWO]; omega)
  have e17 : GenF.wadd d.last 1 = d.last + 1 := wadd_small _ _ (by simp only [Gen.MAX_POW_TWO]; omega)
  have e18 : GenF.wadd d.size 1 = d.size + 1 := wadd_small _ _ (by simp only [Gen.MAX_POW_TWO]; omega)
  have hm1 := mask_dec1 d hI d.first (by omega)
  have hm2 := mod_dec d hI d.first (by omega)
  have hm3 : d.first ≠ 0 → (d.first - 1) % d.cap = decMask d.first d.cap := by
    intro hh; unfold decMask; rw [if_neg hh]
  have b0 : d.cap - 1 < d.buf.length := by omega
  have b3 : 1 + p ≤ d.buf.length := by omega
  have b4 : p ≤ d.buf.length := by omega
  have b5 : 0 < d.buf.length := by omega
  have b8 : p + (d.cap - 1 - p) ≤ d.buf.length := by omega
  have b9 : p + 1 + (d.cap - 1 - p) ≤ d.buf.length := by omega
  have b15 : d.first + (d.cap - 1 - d.first + 1) ≤ d.buf.length := by omega
  have b17 : 1 + d.last ≤ d.buf.length := by omega
  have b18 : d.last ≤ d.buf.length := by omega
  by_cases cf : i ≤ d.size / 2 - 1
  · have hfh' : Deque.frontHalf i d.size = true := by rw [hfh]; simp; omega
    by_cases k1 : d.first = 0
    · have k1' := eq_true k1
      by_cases k2 : p = 0
      · have k2' := eq_true k2
        have e19 : d.first ≠ 0 → GenF.wsub d.first 1 = d.first - 1 := fun hh => wsub_le _ _ (by omega)
        have b14 : d.first - 1 + (d.cap - 1 - d.first + 1) ≤ d.buf.length := by omega
        simp [c1, c2', hc, hwa, mask_mod1 d hI, hfm, hlm, hpdef, hws, e1, e4, e5, e6, e7, e8, e11, e12, e13, e14, e15, e16, e17, e18, hm1, hm2, hm3, hb, b0, b3, b4, b5, b8, b9, b15, b17, b18, hl1, hl2, codes, Deque.rd, Deque.wr, Deque.mv, ofDeque, hfh', cf, k1', k2', b14, e19, Deque.adFrontWrap]
      · have k2' := eq_false k2
        have e19 : d.first ≠ 0 → GenF.wsub d.first 1 = d.first - 1 := fun hh => wsub_le _ _ (by omega)
        have b14 : d.first - 1 + (d.cap - 1 - d.first + 1) ≤ d.buf.length := by omega
        simp [c1, c2', hc, hwa, mask_mod1 d hI, hfm, hlm, hpdef, hws, e1, e4, e5, e6, e7, e8, e11, e12, e13, e14, e15, e16, e17, e18, hm1, hm2, hm3, hb, b0, b3, b4, b5, b8, b9, b15, b17, b18, hl1, hl2, codes, Deque.rd, Deque.wr, Deque.mv, ofDeque, hfh', cf, k1', k2', b14, e19, Deque.adFrontWrap]
    · have k1' := eq_false k1
      by_cases cw : p < d.first
      · by_cases k2 : p = 0
        · have k2' := eq_true k2
          have e19 : d.first ≠ 0 → GenF.wsub d.first 1 = d.first - 1 := fun hh => wsub_le _ _ (by omega)
          have b14 : d.first - 1 + (d.cap - 1 - d.first + 1) ≤ d.buf.length := by omega
          simp [c1, c2', hc, hwa, mask_mod1 d hI, hfm, hlm, hpdef, hws, e1, e4, e5, e6, e7, e8, e11, e12, e13, e14, e15, e16, e17, e18, hm1, hm2, hm3, hb, b0, b3, b4, b5, b8, b9, b15, b17, b18, hl1, hl2, codes, Deque.rd, Deque.wr, Deque.mv, ofDeque, hfh', cf, k1', k2', cw, b14, e19, Deque.adFrontWrap]
        · have k2' := eq_false k2
          have e19 : d.first ≠ 0 → GenF.wsub d.first 1 = d.first - 1 := fun hh => wsub_le _ _ (by omega)
          have b14 : d.first - 1 + (d.cap - 1 - d.first + 1) ≤ d.buf.length := by omega
          simp [c1, c2', hc, hwa, mask_mod1 d hI, hfm, hlm, hpdef, hws, e1, e4, e5, e6, e7, e8, e11, e12, e13, e14, e15, e16, e17, e18, hm1, hm2, hm3, hb, b0, b3, b4, b5, b8, b9, b15, b17, b18, hl1, hl2, codes, Deque.rd, Deque.wr, Deque.mv, ofDeque, hfh', cf, k1', k2', cw, b14, e19, Deque.adFrontWrap]
      · have e19 : GenF.wsub d.first 1 = d.first - 1 := wsub_le _ _ (by omega)
        have b16 : d.first - 1 + i ≤ d.buf.length := by omega
        have b7 : d.first + i ≤ d.buf.length := by omega
        simp [c1, c2', hc, hwa, mask_mod1 d hI, hfm, hlm, hpdef, hws, e1, e4, e5, e6, e7, e8, e11, e12, e13, e14, e15, e16, e17, e18, hm1, hm2, hm3, hb, b0, b3, b4, b5, b8, b9, b15, b17, b18, hl1, hl2, codes, Deque.rd, Deque.wr, Deque.mv, ofDeque, hfh', cf, cw, k1', e19, b16, b7, Deque.adFrontContig]
  · have hfh' : Deque.frontHalf i d.size = false := by rw [hfh]; simp; omega
    by_cases cw : p > d.last
    · by_cases k1 : p = d.cap - 1
      · have k1' := eq_true k1
        by_cases k2 : d.last = d.cap - 1
        · have k2' := eq_true k2
          simp [c1, c2', hc, hwa, mask_mod1 d hI, hfm, hlm, hpdef, hws, e1, e4, e5, e6, e7, e8, e11, e12, e13, e14, e15, e16, e17, e18, hm1, hm2, hm3, hb, b0, b3, b4, b5, b8, b9, b15, b17, b18, hl1, hl2, codes, Deque.rd, Deque.wr, Deque.mv, ofDeque, hfh', cf, cw, k1', k2', Deque.adBackWrap]
        · have k2' := eq_false k2
          simp [c1, c2', hc, hwa, mask_mod1 d hI, hfm, hlm, hpdef, hws, e1, e4, e5, e6, e7, e8, e11, e12, e13, e14, e15, e16, e17, e18, hm1, hm2, hm3, hb, b0, b3, b4, b5, b8, b9, b15, b17, b18, hl1, hl2, codes, Deque.rd, Deque.wr, Deque.mv, ofDeque, hfh', cf, cw, k1', k2', Deque.adBackWrap]
      · have k1' := eq_false k1
        by_cases k2 : d.last = d.cap - 1
        · have k2' := eq_true k2
          simp [c1, c2', hc, hwa, mask_mod1 d hI, hfm, hlm, hpdef, hws, e1, e4, e5, e6, e7, e8, e11, e12, e13, e14, e15, e16, e17, e18, hm1, hm2, hm3, hb, b0, b3, b4, b5, b8, b9, b15, b17, b18, hl1, hl2, codes, Deque.rd, Deque.wr, Deque.mv, ofDeque, hfh', cf, cw, k1', k2', Deque.adBackWrap]
        · have k2' := eq_false k2
          simp [c1, c2', hc, hwa, mask_mod1 d hI, hfm, hlm, hpdef, hws, e1, e4, e5, e6, e7, e8, e11, e12, e13, e14, e15, e16, e17, e18, hm1, hm2, hm3, hb, b0, b3, b4, b5, b8, b9, b15, b17, b18, hl1, hl2, codes, Deque.rd, Deque.wr, Deque.mv, ofDeque, hfh', cf, cw, k1', k2', Deque.adBackWrap]
    · have b19 : p + 1 + (d.size - i) ≤ d.buf.length := by omega
      have b20 : p + (d.size - i) ≤ d.buf.length := by omega
      simp [c1, c2', hc, hwa, mask_mod1 d hI, hfm, hlm, hpdef, hws, e1, e4, e5, e6, e7, e8, e11, e12, e13, e14, e15, e16, e17, e18, hm1, hm2, hm3, hb, b0, b3, b4, b5, b8, b9, b15, b17, b18, hl1, hl2, codes, Deque.rd, Deque.wr, Deque.mv, ofDeque, hfh', cf, cw, b19, b20, Deque.adBackContig]

/-- `cc_deque_add_at` (range test and growth included), for every index: status code, state, ledger, block ids;
fault-free, for any fuel -/
theorem deque_add_at_agrees (d : Deque) (x i : Nat) (m : Mem) (sid bid nid fuel : Nat)
    (h : d.Inv) (hsb : sid ≠ bid) (hbn : bid ≠ nid) (hsn : sid ≠ nid) :
    GenF.cc_deque_add_at (ofDeque d sid bid) x i m nid fuel =
      ((d.addAt x i m).1.code,
       ofDeque (d.addAt x i m).2.1 sid (if i < d.size ∧ d.cap = d.size ∧ (d.expandCapacity m).1 = .ok then nid else bid),
       (d.addAt x i m).2.2,
       (if i < d.size ∧ d.cap = d.size ∧ (d.expandCapacity m).1 = .ok then nid + 1 else nid),
       (if i < d.size ∧ d.cap = d.size ∧ (d.expandCapacity m).1 = .ok then [bid] else []), false) := by
  unfold Deque.addAt GenF.cc_deque_add_at
  by_cases hr : i ≥ d.size
  · have hd0 : decide (i ≥ (ofDeque d sid bid).size) = true := by
      change decide (i ≥ d.size) = true
      simpa using hr
    have hr' : ¬ i < d.size := by omega
    dsimp only
    rw [hd0]
    simp [hr, hr', codes]
  have hd0 : decide (i ≥ (ofDeque d sid bid).size) = false := by
    change decide (i ≥ d.size) = false
    simpa using hr
  have hr' : i < d.size := by omega
  dsimp only
  rw [hd0]
  simp only [hr, hr', if_false, true_and, Bool.false_eq_true]
  by_cases hfull : d.cap = d.size
  · have hd : decide ((ofDeque d sid bid).capacity = (ofDeque d sid bid).size) = true := by
      change decide (d.cap = d.size) = true
      simpa using hfull
    rw [hd]
    simp only [hfull, if_true, true_and]
    rw [deque_expand_agrees d m sid bid nid fuel h hsb]
    dsimp only
    by_cases hok : (d.expandCapacity m).1 = .ok
    · obtain ⟨e1, _, e3, e4, _⟩ := Deque.expandCapacity_ok d m h hok
      have hp := Deque.Inv.cap_pos h
      simp only [hok, if_true, codes, ne_eq, not_true_eq_false, decide_false, if_false, Bool.false_eq_true,
        bne_self_eq_false, Bool.false_or, List.append_nil]
      exact deque_add_at_tail (d.expandCapacity m).2.1 x i (d.expandCapacity m).2.2 (nid + 1) sid nid [bid] fuel e1
        (by omega) (by omega) hsn (by omega)
        (by simp [GenF.isDead, hsb]) (by simp [GenF.isDead]; exact fun e => hbn e.symm)
    · have hne := code_ne_zero _ hok
      simp [hok, hne, codes]
  · have hd : decide ((ofDeque d sid bid).capacity = (ofDeque d sid bid).size) = false := by
      change decide (d.cap = d.size) = false
      simpa using hfull
    rw [hd]
    simp only [hfull, if_false, false_and, Bool.false_eq_true]
    have hsz := h.2.2.2.2.2
    exact deque_add_at_tail d x i m nid sid bid [] fuel h (by omega) hr' hsb hbn (by simp [GenF.isDead]) (by simp [GenF.isDead])

/-- non-vacuity: a wrapped three-element deque (`7, 8, 9` from slot 3 of 4) satisfies the invariant; the translated
reads, `add_first` (mask wrap-around) and `add_last` on the full deque (growth: the two `memcpy`s unwrap the
content into a fresh block with id 3, the old block 2 is released) compute the expected values without a fault,
`upper_pow_two` rounds up, and `destroy` of a deque whose two blocks carry the same id reports a fault -/
example :
    let d : Deque := { size := 3, cap := 4, first := 3, last := 2, buf := [8, 9, 0, 7] }
    let e : Deque := { size := 4, cap := 4, first := 3, last := 3, buf := [8, 9, 6, 7] }
    d.Inv ∧ e.Inv ∧
    GenF.cc_deque_get_at (ofDeque d) 1 = (0, some 8, false) ∧ GenF.cc_deque_get_last (ofDeque d) = (0, some 9, false) ∧
    (GenF.cc_deque_add_first (ofDeque d 1 2) 5 {} 3 0).2.1.buffer = [8, 9, 5, 7] ∧
    (GenF.cc_deque_add_first (ofDeque d 1 2) 5 {} 3 0).2.1.first = 2 ∧
    (GenF.cc_deque_add_last (ofDeque e 1 2) 5 {} 3 0).2.1.buffer = [7, 8, 9, 6, 5, 0, 0, 0] ∧
    (GenF.cc_deque_add_last (ofDeque e 1 2) 5 {} 3 0).2.1.buffer_id = 3 ∧
    (GenF.cc_deque_add_last (ofDeque e 1 2) 5 {} 3 0).2.2.2.2 = ([2], false) ∧
    (GenF.cc_deque_remove_last (ofDeque d) true).2.1 = some 9 ∧
    (GenF.cc_deque_remove_at (ofDeque d) 1 true).2.1 = some 8 ∧
    (GenF.cc_deque_remove_at (ofDeque d) 1 true).2.2.1.buffer = [9, 0, 0, 7] ∧
    (GenF.cc_deque_remove_at (ofDeque d) 1 true).2.2.2 = false ∧
    (GenF.cc_deque_add_at (ofDeque d 1 2) 5 2 {} 3 0).2.1.buffer = [8, 5, 9, 7] ∧
    (GenF.cc_deque_add_at (ofDeque d 1 2) 5 2 {} 3 0).2.2.2.2.2 = false ∧
    (GenF.cc_deque_add_at (ofDeque d 1 2) 5 7 {} 3 0).1 = 8 ∧
    GenF.cc_deque_s__upper_pow_two 5 = 8 ∧ GenF.cc_deque_s__upper_pow_two 0 = 1 ∧
    GenF.cc_deque_s__upper_pow_two 4294967296 = 2147483648 ∧
    (GenF.cc_deque_destroy (ofDeque d 1 2) {}).2.2 = false ∧ (GenF.cc_deque_destroy (ofDeque d 1 1) {}).2.2 = true := by
  decide

end CC.Properties.C05Gen
