import CollectionsC.Properties.C01Sized
import CollectionsC.Proofs.ArraySized7
/-! # C08 (sized array part) — a refused allocation is atomic

Statements only.  The allocator's answer to the next request is `m.alloc.1` (`false` = refused), for
every schedule.  `alloc2ok m` says that both requests of a builder/constructor are granted. -/
namespace CC.Properties.C08Sized
open CC CC.Gen CC.ArraySized

/-- **refused_iff**: `add`, `add_at` and `trim_capacity` report `CC_ERR_ALLOC` exactly when they had
to ask the allocator and it refused -/
theorem refused_iff (a : ArraySized) (e : Buf Nat) (i : Nat) (m : Mem) (h : a.Inv) (he : e.length = a.dataLen) :
    ((a.add e m).1 = .errAlloc ↔ (a.size = a.capacity ∧ ¬ a.AtLimit ∧ m.alloc.1 = false)) ∧
    ((a.addAt e i m).1 = .errAlloc ↔ (i ≤ a.size ∧ a.size = a.capacity ∧ ¬ a.AtLimit ∧ m.alloc.1 = false)) ∧
    ((a.trimCapacity m).1 = .errAlloc ↔ (a.size ≠ a.capacity ∧ max a.size 1 ≠ a.capacity ∧ m.alloc.1 = false)) :=
  ⟨add_refused_iff a e m h he, addAt_refused_iff a e i m h he, trim_refused_iff a m⟩

/-- **refused_iff** for the builders and the constructor: `CC_ERR_ALLOC` exactly when the call got
past its argument checks and one of its two requests was refused -/
theorem builders_refused_iff (a : ArraySized) (b e : Nat) (p : List Nat → Bool) (m : Mem)
    (dl cap : Nat) (grow : Nat → Nat) (exGe : Nat → Bool) :
    ((a.copy m).1 = .errAlloc ↔ alloc2ok m = false) ∧
    ((a.subarray b e m).1 = .errAlloc ↔ (b ≤ e ∧ e < a.size ∧ alloc2ok m = false)) ∧
    ((a.filter p m).1 = .errAlloc ↔ (0 < a.size ∧ alloc2ok m = false)) ∧
    ((ArraySized.new dl cap grow exGe m).1 = .errAlloc ↔
      ((ArraySized.new dl cap grow exGe m).1 ≠ .errInvalidCapacity ∧ alloc2ok m = false)) :=
  ⟨copy_refused_iff a m, subarray_refused_iff a b e m, filter_refused_iff a p m, new_refused_iff dl cap grow exGe m⟩

/-- **atomic**, core API: status `CC_ERR_ALLOC` ⇒ the whole physical state is unchanged, no block
gained or lost, no fault, and the allocator had indeed refused -/
theorem atomic (a : ArraySized) (op : Spec.SSeq.Op Elem) (m : Mem) (h : a.Inv) (hw : OpWF a.dataLen op)
    (hst : (a.step op m).1.st = some .errAlloc) :
    (a.step op m).2.1 = a ∧ (a.step op m).2.2.live = m.live ∧ (a.step op m).2.2.fault = m.fault ∧
    m.alloc.1 = false := step_atomic a op m h hw hst

/-- **atomic**, builders and constructor: no object, balanced ledger -/
theorem builders_atomic (a : ArraySized) (b e : Nat) (p : List Nat → Bool) (m : Mem) (h : a.Inv)
    (dl cap : Nat) (grow : Nat → Nat) (exGe : Nat → Bool) :
    ((a.copy m).1 = .errAlloc → (a.copy m).2.1 = none ∧ MemSame m (a.copy m).2.2) ∧
    ((a.subarray b e m).1 = .errAlloc → (a.subarray b e m).2.1 = none ∧ MemSame m (a.subarray b e m).2.2) ∧
    ((a.filter p m).1 = .errAlloc → (a.filter p m).2.2.1 = none ∧ MemSame m (a.filter p m).2.2.2) ∧
    ((ArraySized.new dl cap grow exGe m).1 = .errAlloc →
      (ArraySized.new dl cap grow exGe m).2.1 = none ∧ MemSame m (ArraySized.new dl cap grow exGe m).2.2) := by
  refine ⟨?_, ?_, ?_, new_refused dl cap grow exGe m⟩
  · intro hst
    rcases copy_spec a m h with ⟨s, h1, _⟩ | ⟨_, h2, h3⟩
    · rw [h1] at hst; cases hst
    · exact ⟨h2, h3⟩
  · intro hst
    have hr := (subarray_refused_iff a b e m).1 hst
    rcases subarray_spec a b e m h hr.1 hr.2.1 with ⟨s, h1, _⟩ | ⟨_, h2, h3⟩
    · rw [h1] at hst; cases hst
    · exact ⟨h2, h3⟩
  · intro hst
    have hr := (filter_refused_iff a p m).1 hst
    rcases filter_spec a p m h hr.1 with ⟨s, h1, _⟩ | ⟨_, h2, h3⟩
    · rw [h1] at hst; cases hst
    · exact ⟨h2, h3⟩

/-- **atomic**, iterators: a refused `iter_add` leaves the array and the cursor unchanged (A5); a
refused `zip_iter_add` leaves both contents and the cursor unchanged (A8) -/
theorem iter_atomic (it : Iter) (a : ArraySized) (c : Spec.SSeq.Cursor Elem) (e : Buf Nat) (m : Mem) (h : a.Inv)
    (he : e.length = a.dataLen) (hrel : IterRel it a c) (hst : (a.iterAdd it e m).1 ≠ .ok) :
    (a.iterAdd it e m).2.1 = it ∧ (a.iterAdd it e m).2.2.1 = a ∧ MemSame m (a.iterAdd it e m).2.2.2 := by
  rcases iterAdd_refines it a c e m h he hrel with ⟨a1, _⟩ | ⟨_, a2, a3, a4⟩
  · exact absurd a1 hst
  · exact ⟨a2, a3, a4⟩

theorem zip_atomic (it : Iter) (a1 a2 : ArraySized) (c : Spec.SSeq.ZipCursor Elem) (e1 e2 : Buf Nat) (m : Mem)
    (i1 : a1.Inv) (i2 : a2.Inv) (he1 : e1.length = a1.dataLen) (he2 : e2.length = a2.dataLen)
    (hrel : ZipRel it a1 a2 c) (hst : (zipAdd it a1 a2 e1 e2 m).1 ≠ .ok) :
    (zipAdd it a1 a2 e1 e2 m).1 = .errAlloc ∧
    (zipAdd it a1 a2 e1 e2 m).2.2.1.abs = a1.abs ∧ (zipAdd it a1 a2 e1 e2 m).2.2.2.1.abs = a2.abs ∧
    (zipAdd it a1 a2 e1 e2 m).2.1 = it ∧ MemSame m (zipAdd it a1 a2 e1 e2 m).2.2.2.2 := by
  rcases zipAdd_spec it a1 a2 c e1 e2 m i1 i2 he1 he2 hrel with ⟨h1, _⟩ | ⟨h1, h2, h3, _, _, h6, h7, _⟩
  · exact absurd h1 hst
  · exact ⟨h1, h2, h3, h7, h6⟩

/-- **continue**: `ops₁ ++ [refused op] ++ ops₂` yields the outputs of `ops₁`, the error of the
refused call, and then exactly the outputs and the final state of `ops₂` run directly after `ops₁`
(on any ledger with the same remaining schedule) — the container stays fully usable -/
theorem continue_after_refusal (ops1 ops2 : List (Spec.SSeq.Op Elem)) (op : Spec.SSeq.Op Elem) (a : ArraySized)
    (m m2 : Mem) (h : a.Inv) (hw : ∀ o ∈ ops1 ++ op :: ops2, OpWF a.dataLen o)
    (href : (a.run ops1 m).2.1.refusal op (a.run ops1 m).2.2 ≠ none)
    (hs : m2.sched = ((a.run ops1 m).2.1.step op (a.run ops1 m).2.2).2.2.sched) :
    (a.run (ops1 ++ op :: ops2) m).1 =
      (a.run ops1 m).1 ++ ((a.run ops1 m).2.1.step op (a.run ops1 m).2.2).1 :: ((a.run ops1 m).2.1.run ops2 m2).1 ∧
    (a.run (ops1 ++ op :: ops2) m).2.1 = ((a.run ops1 m).2.1.run ops2 m2).2.1 :=
  run_continue ops1 ops2 op a m m2 h hw href hs

end CC.Properties.C08Sized
