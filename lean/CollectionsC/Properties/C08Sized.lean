import CollectionsC.Properties.C01Sized
import CollectionsC.Proofs.ArraySized8
/-! # C08 (sized array part) — a refused allocation is atomic

Statements only.  The answer of the array's own allocator to the next request is
`(m.allocT a.triple).1` (`false` = refused; only the configured allocator can refuse), for every
schedule.  `alloc2ok m t` says that both requests of a builder/constructor on triple `t` are granted. -/
namespace CC.Properties.C08Sized
open CC CC.Gen CC.ArraySized

/-- **refused_iff**: `add`, `add_at` and `trim_capacity` report `CC_ERR_ALLOC` exactly when they had
to ask the allocator and it refused -/
theorem refused_iff (a : ArraySized) (e : Buf Nat) (i : Nat) (m : Mem) (h : a.Inv) (he : e.length = a.dataLen) :
    ((a.add e m).1 = .errAlloc ↔ (a.size = a.capacity ∧ ¬ a.AtLimit ∧ (m.allocT a.triple).1 = false)) ∧
    ((a.addAt e i m).1 = .errAlloc ↔ (i ≤ a.size ∧ a.size = a.capacity ∧ ¬ a.AtLimit ∧ (m.allocT a.triple).1 = false)) ∧
    ((a.trimCapacity m).1 = .errAlloc ↔ (a.size ≠ a.capacity ∧ max a.size 1 ≠ a.capacity ∧ (m.allocT a.triple).1 = false)) :=
  ⟨add_refused_iff a e m h he, addAt_refused_iff a e i m h he, trim_refused_iff a m⟩

/-- **refused_iff** for the builders and the constructor: `CC_ERR_ALLOC` exactly when the call got
past its argument checks and one of its two requests was refused -/
theorem builders_refused_iff (a : ArraySized) (b e : Nat) (p : List Nat → Bool) (m : Mem)
    (dl cap : Nat) (grow : Nat → Nat) (exGe : Nat → Bool) (t : Triple) :
    ((a.copy m).1 = .errAlloc ↔ alloc2ok m a.triple = false) ∧
    ((a.subarray b e m).1 = .errAlloc ↔ (b ≤ e ∧ e < a.size ∧ alloc2ok m a.triple = false)) ∧
    ((a.filter p m).1 = .errAlloc ↔ (0 < a.size ∧ alloc2ok m a.triple = false)) ∧
    ((ArraySized.new dl cap grow exGe m t).1 = .errAlloc ↔
      ((ArraySized.new dl cap grow exGe m t).1 ≠ .errInvalidCapacity ∧ alloc2ok m t = false)) :=
  ⟨copy_refused_iff a m, subarray_refused_iff a b e m, filter_refused_iff a p m, new_refused_iff dl cap grow exGe m t⟩

/-- **atomic**, core API: status `CC_ERR_ALLOC` ⇒ the whole physical state is unchanged, no block
gained or lost, no fault, and the allocator had indeed refused -/
theorem atomic (a : ArraySized) (op : Spec.SSeq.Op Elem) (m : Mem) (h : a.Inv) (hw : OpWF a.dataLen op)
    (hst : (a.step op m).1.st = some .errAlloc) :
    (a.step op m).2.1 = a ∧ own (a.step op m).2.2 a.triple = own m a.triple ∧ (a.step op m).2.2.fault = m.fault ∧
    (m.allocT a.triple).1 = false := step_atomic a op m h hw hst

/-- **atomic**, builders and constructor: no object, balanced ledger -/
theorem builders_atomic (a : ArraySized) (b e : Nat) (p : List Nat → Bool) (m : Mem) (h : a.Inv)
    (dl cap : Nat) (grow : Nat → Nat) (exGe : Nat → Bool) (t : Triple) :
    ((a.copy m).1 = .errAlloc → (a.copy m).2.1 = none ∧ MemSame a.triple m (a.copy m).2.2) ∧
    ((a.subarray b e m).1 = .errAlloc → (a.subarray b e m).2.1 = none ∧ MemSame a.triple m (a.subarray b e m).2.2) ∧
    ((a.filter p m).1 = .errAlloc → (a.filter p m).2.2.1 = none ∧ MemSame a.triple m (a.filter p m).2.2.2) ∧
    ((ArraySized.new dl cap grow exGe m t).1 = .errAlloc →
      (ArraySized.new dl cap grow exGe m t).2.1 = none ∧ MemSame t m (ArraySized.new dl cap grow exGe m t).2.2) := by
  refine ⟨?_, ?_, ?_, fun hst => ⟨(new_refused dl cap grow exGe m t hst).1, (new_refused dl cap grow exGe m t hst).2.1⟩⟩
  · intro hst
    rcases copy_spec a m h with ⟨s, h1, _⟩ | ⟨_, h2, h3⟩
    · rw [h1] at hst; cases hst
    · exact ⟨h2, h3⟩
  · intro hst
    have hr := (subarray_refused_iff a b e m).1 hst
    rcases subarray_spec a b e m h hr.1 hr.2.1 with ⟨s, h1, _⟩ | ⟨_, h2, h3⟩
    · rw [h1] at hst; cases hst
    · exact ⟨h2, h3⟩
  · intro hst
    have hr := (filter_refused_iff a p m).1 hst
    rcases filter_spec a p m h hr.1 with ⟨s, h1, _⟩ | ⟨_, h2, h3⟩
    · rw [h1] at hst; cases hst
    · exact ⟨h2, h3⟩

/-- **atomic**, iterators: a refused `iter_add` leaves the array and the cursor unchanged (A5); a
refused `zip_iter_add` leaves both contents and the cursor unchanged (A8, A11) -/
theorem iter_atomic (it : Iter) (a : ArraySized) (c : Spec.SSeq.Cursor Elem) (e : Buf Nat) (m : Mem) (h : a.Inv)
    (he : e.length = a.dataLen) (hrel : IterRel it a c) (hst : (a.iterAdd it e m).1 ≠ .ok) :
    (a.iterAdd it e m).2.1 = it ∧ (a.iterAdd it e m).2.2.1 = a ∧ MemSame a.triple m (a.iterAdd it e m).2.2.2 := by
  rcases iterAdd_refines it a c e m h he hrel with ⟨a1, _⟩ | ⟨_, a2, a3, a4⟩
  · exact absurd a1 hst
  · exact ⟨a2, a3, a4⟩

theorem zip_atomic (it : Iter) (a1 a2 : ArraySized) (c : Spec.SSeq.ZipCursor Elem) (e1 e2 : Buf Nat) (m : Mem)
    (i1 : a1.Inv) (i2 : a2.Inv) (he1 : e1.length = a1.dataLen) (he2 : e2.length = a2.dataLen)
    (hrel : ZipRel it a1 a2 c) (hst : (zipAdd it a1 a2 e1 e2 m).1 ≠ .ok) :
    (zipAdd it a1 a2 e1 e2 m).1 = .errAlloc ∧
    (zipAdd it a1 a2 e1 e2 m).2.2.1.abs = a1.abs ∧ (zipAdd it a1 a2 e1 e2 m).2.2.2.1.abs = a2.abs ∧
    (zipAdd it a1 a2 e1 e2 m).2.1 = it ∧ Bal m (zipAdd it a1 a2 e1 e2 m).2.2.2.2 := by
  rcases zipAdd_spec it a1 a2 c e1 e2 m i1 i2 he1 he2 hrel with ⟨h1, _⟩ | ⟨h1, h2, h3, _, _, h6, h7, _⟩
  · exact absurd h1 hst
  · exact ⟨h1, h2, h3, h7, h6⟩

/-- **atomic**, `zip_iter_add` with the same array on both sides (A11): a refusal — in the growth
pre-check or in the growth the second `add_at` needs — is reported (`CC_ERR_ALLOC`, resp.
`CC_ERR_MAX_CAPACITY` at the size limit), the content is exactly what it was (the first element has
been taken out again), the cursor has not moved and the ledger is balanced.  Atomicity is on the
content: the buffer may already have been re-allocated, so the capacity may have grown. -/
theorem zip_same_array_atomic (it : Iter) (a : ArraySized) (e1 e2 : Buf Nat) (m : Mem) (h : a.Inv)
    (he1 : e1.length = a.dataLen) (he2 : e2.length = a.dataLen) (hi : it.index ≤ a.size)
    (hst : (zipAddSame it a e1 e2 m).1 ≠ .ok) :
    ((zipAddSame it a e1 e2 m).1 = .errAlloc ∨ (zipAddSame it a e1 e2 m).1 = .errMaxCapacity) ∧
    (zipAddSame it a e1 e2 m).2.2.1.abs = a.abs ∧ (zipAddSame it a e1 e2 m).2.1 = it ∧
    (zipAddSame it a e1 e2 m).2.2.1.Inv ∧ MemSame a.triple m (zipAddSame it a e1 e2 m).2.2.2 ∧
    a.capacity ≤ (zipAddSame it a e1 e2 m).2.2.1.capacity := by
  rcases zipAddSame_spec it a e1 e2 m h he1 he2 hi with ⟨h1, _⟩ | hh
  · exact absurd h1 hst
  · exact hh

/-- **continue**: `ops₁ ++ [refused op] ++ ops₂` yields the outputs of `ops₁`, the error of the
refused call, and then exactly the outputs and the final state of `ops₂` run directly after `ops₁`
(on any ledger with the same remaining schedule) — the container stays fully usable -/
theorem continue_after_refusal (ops1 ops2 : List (Spec.SSeq.Op Elem)) (op : Spec.SSeq.Op Elem) (a : ArraySized)
    (m m2 : Mem) (h : a.Inv) (hw : ∀ o ∈ ops1 ++ op :: ops2, OpWF a.dataLen o)
    (href : (a.run ops1 m).2.1.refusal op (a.run ops1 m).2.2 ≠ none)
    (hs : m2.sched = ((a.run ops1 m).2.1.step op (a.run ops1 m).2.2).2.2.sched) :
    (a.run (ops1 ++ op :: ops2) m).1 =
      (a.run ops1 m).1 ++ ((a.run ops1 m).2.1.step op (a.run ops1 m).2.2).1 :: ((a.run ops1 m).2.1.run ops2 m2).1 ∧
    (a.run (ops1 ++ op :: ops2) m).2.1 = ((a.run ops1 m).2.1.run ops2 m2).2.1 :=
  run_continue ops1 ops2 op a m m2 h hw href hs

/-- an array on the C library allocator is never refused: no call reports `CC_ERR_ALLOC` -/
theorem libc_never_refused (a : ArraySized) (op : Spec.SSeq.Op Elem) (m : Mem) (h : a.Inv) (hw : OpWF a.dataLen op)
    (ht : a.triple = .libc) : (a.step op m).1.st ≠ some .errAlloc := ArraySized.libc_never_refused a op m h hw ht

/-- conversely, with an allocator that grants every request a history is refused nowhere as long as
the array never stands at its size limit: every refusal in a history is an allocator refusal or the
documented limit -/
theorem history_unrefused (a : ArraySized) (ops : List (Spec.SSeq.Op Elem)) (m : Mem) (h : a.Inv)
    (hw : ∀ op ∈ ops, OpWF a.dataLen op) (hg : Grants a.triple m)
    (hl : ∀ k, k ≤ ops.length → ¬ (a.run (ops.take k) m).2.1.AtLimit) :
    a.refusals ops m = List.replicate ops.length none := run_unrefused ops a m h hw hg hl

/-! Non-vacuity: a full one-slot array, schedule `[true]`: the `add` is refused, the state is
physically unchanged, the next `add` (schedule exhausted: granted) succeeds. -/
example :
    let a : ArraySized := { dataLen := 2, size := 1, capacity := 1, grow := fun c => 2 * c, buf := [7, 0] }
    let m : Mem := { sched := [true], live := 2 }
    a.Inv ∧ (a.add [1, 1] m).1 = .errAlloc ∧ (a.add [1, 1] m).2.1.abs = a.abs ∧
    ((a.add [1, 1] m).2.1.add [1, 1] (a.add [1, 1] m).2.2).1 = .ok := by decide

end CC.Properties.C08Sized
