import CollectionsC.Properties.C05
import CollectionsC.Proofs.DequeGrowth
/-! # C15 (deque part) — copies and filters are exact and independent

Builders of `cc_deque.c`: `copy_shallow`, `copy_deep` (model `Deque.copy none / (some cp)`), `filter`.
All statements for every source layout (empty where allowed, exactly full, wrapped), every copy function,
every predicate, every refusal schedule.  Nothing here involves `add_at`, so nothing is partial. -/
namespace CC.Properties.C15Deque
open CC CC.Spec CC.Properties.C05

/-- **copies are exact**: on success the result holds exactly the source's elements in source order
(deep copy: their images under the copy function), satisfies the invariant and has the source's
capacity **and allocator triple**, and owns exactly two new blocks on that triple (no release happened);
on a refusal there is no result.  The source is not an output of the builder (value semantics of the model:
see `independent_step_model`). -/
theorem copy_exact (d : Deque) (cp : Option (Nat → Nat)) (m : Mem) (hi : d.Inv) :
    ((d.copy cp m).1 = .ok ∧ ∃ c, (d.copy cp m).2.1 = some c ∧ c.Inv ∧ c.cap = d.cap ∧ c.triple = d.triple ∧
      c.abs = (match cp with | none => DequeSpec.copyShallow d.abs | some f => DequeSpec.copyDeep d.abs f) ∧
      Deque.memRel d.triple 2 (d.copy cp m).2.2 m) ∨
    ((d.copy cp m).1 = .errAlloc ∧ (d.copy cp m).2.1 = none) := by
  rcases Deque.copy_spec d cp m hi with ⟨n1, c, n2, n3, n4, n5, n6, n7, _⟩ | ⟨n1, n2, _⟩
  · left
    refine ⟨n1, c, n2, n3, n5, n6, ?_, n7⟩
    cases cp <;> exact n4
  · exact Or.inr ⟨n1, n2⟩

/-- **filters are exact**: exactly the elements satisfying the predicate, in source order; an empty source
is rejected (no result) -/
theorem filter_exact (d : Deque) (p : Nat → Bool) (m : Mem) (hi : d.Inv) :
    ((d.filter p m).1 = (DequeSpec.filter d.abs p).1 ∧
      ((d.filter p m).1 = .ok → ∃ c, (d.filter p m).2.1 = some c ∧ c.Inv ∧ c.cap = d.cap ∧ c.triple = d.triple ∧
        c.abs = d.abs.filter p ∧ Deque.memRel d.triple 2 (d.filter p m).2.2 m) ∧
      ((d.filter p m).1 ≠ .ok → (d.filter p m).2.1 = none)) ∨
    ((d.filter p m).1 = .errAlloc ∧ (d.filter p m).2.1 = none ∧ d.size ≠ 0) := by
  rcases Deque.filter_spec d p m hi with ⟨_, e, s⟩ | ⟨h0, n1, s, c, f1, f2, f3, f4, f5, f6, _⟩ | ⟨h0, n1, n2, _⟩
  · left
    rw [e, s]
    exact ⟨rfl, fun h => absurd h (by simp), fun _ => rfl⟩
  · left
    refine ⟨by rw [n1, s], fun _ => ⟨c, f1, f2, f4, f5, ?_, f6⟩, fun h => absurd n1 h⟩
    have hne : d.abs.isEmpty = false := by
      cases h : d.abs with
      | nil => have := congrArg List.length h; simp at this; omega
      | cons _ _ => rfl
    unfold DequeSpec.filter at f3
    rw [hne] at f3
    simpa using f3
  · exact Or.inr ⟨n1, n2, h0⟩

/-- **when do the builders fail** (pins the failure branches of `copy_exact` / `filter_exact`): a copy reports
`CC_ERR_ALLOC` exactly when one of its two allocator calls (header, buffer — through the source's triple) is
refused, and `CC_OK` otherwise; `filter` reports `CC_ERR_OUT_OF_RANGE` exactly on an empty source,
`CC_ERR_ALLOC` exactly when the source is non-empty and one of the two calls is refused, `CC_OK` otherwise.
A failed builder produces no object and leaves the ledger balanced. -/
theorem builders_fail_iff (d : Deque) (cp : Option (Nat → Nat)) (p : Nat → Bool) (m : Mem) (hi : d.Inv) :
    (((d.copy cp m).1 = .errAlloc ↔
        ((m.allocT d.triple).1 = false ∨ ((m.allocT d.triple).2.allocT d.triple).1 = false)) ∧
      ((d.copy cp m).1 = .ok ∨ (d.copy cp m).1 = .errAlloc) ∧
      ((d.copy cp m).1 ≠ .ok → (d.copy cp m).2.1 = none ∧ Deque.memSame d.triple (d.copy cp m).2.2 m)) ∧
    (((d.filter p m).1 = .errOutOfRange ↔ d.size = 0) ∧
      ((d.filter p m).1 = .errAlloc ↔ d.size ≠ 0 ∧
        ((m.allocT d.triple).1 = false ∨ ((m.allocT d.triple).2.allocT d.triple).1 = false)) ∧
      ((d.filter p m).1 = .ok ∨ (d.filter p m).1 = .errOutOfRange ∨ (d.filter p m).1 = .errAlloc) ∧
      ((d.filter p m).1 ≠ .ok → (d.filter p m).2.1 = none ∧ Deque.memSame d.triple (d.filter p m).2.2 m)) := by
  constructor
  · rcases Deque.copy_spec d cp m hi with ⟨n1, _⟩ | ⟨n1, n2, n3, n4⟩
    · obtain ⟨k1, k2⟩ := Deque.copy_alloc_ok d cp m n1
      refine ⟨⟨fun h => by rw [n1] at h; exact absurd h (by decide), ?_⟩, Or.inl n1, fun h => absurd n1 h⟩
      rintro (h | h)
      · rw [h] at k1; exact absurd k1 (by decide)
      · rw [h] at k2; exact absurd k2 (by decide)
    · exact ⟨⟨fun _ => n4, fun _ => n1⟩, Or.inr n1, fun _ => ⟨n2, n3⟩⟩
  · rcases Deque.filter_spec d p m hi with ⟨h0, e, _⟩ | ⟨h0, n1, _⟩ | ⟨h0, n1, n2, n3, n4⟩
    · rw [e]
      exact ⟨⟨fun _ => h0, fun _ => rfl⟩, ⟨fun h => by simp at h, fun h => absurd h0 h.1⟩, Or.inr (Or.inl rfl),
        fun _ => ⟨rfl, Deque.memSame_refl _ m⟩⟩
    · obtain ⟨k1, k2⟩ := Deque.filter_alloc_ok d p m hi n1
      refine ⟨⟨fun h => by rw [n1] at h; exact absurd h (by decide), fun h => absurd h h0⟩,
        ⟨fun h => by rw [n1] at h; exact absurd h (by decide), ?_⟩, Or.inl n1, fun h => absurd n1 h⟩
      rintro ⟨_, h | h⟩
      · rw [h] at k1; exact absurd k1 (by decide)
      · rw [h] at k2; exact absurd k2 (by decide)
    · exact ⟨⟨fun h => by rw [n1] at h; exact absurd h (by decide), fun h => absurd h h0⟩,
        ⟨fun _ => ⟨h0, n4⟩, fun _ => n1⟩, Or.inr (Or.inr n1), fun _ => ⟨n2, n3⟩⟩

/-- **destroying a derived deque**: the result of a successful copy / filter is destroyed through the triple
it inherited; afterwards both ledger balances are what they were before the builder ran (its two blocks are
released exactly once, nothing of the source's is touched — the source is a separate value of the model and
still satisfies its invariant: `_model` for that last clause) -/
theorem derived_destroy_model (d c : Deque) (cp : Option (Nat → Nat)) (p : Nat → Bool) (m : Mem) (hi : d.Inv) :
    ((d.copy cp m).2.1 = some c → Deque.memSame d.triple (c.destroy (d.copy cp m).2.2) m ∧ c.triple = d.triple) ∧
    ((d.filter p m).2.1 = some c → Deque.memSame d.triple (c.destroy (d.filter p m).2.2) m ∧ c.triple = d.triple) ∧
    d.Inv := by
  refine ⟨fun h => ?_, fun h => ?_, hi⟩
  · rcases Deque.copy_spec d cp m hi with ⟨_, c', n2, _, _, _, n6, n7, _⟩ | ⟨_, n2, _⟩
    · rw [n2] at h; cases h
      have hd := Deque.destroy_ledger c (d.copy cp m).2.2 (by rw [n6]; have := n7.1; omega)
      rw [n6] at hd
      exact ⟨Deque.memD_norm (k := 0) (j := 2) (by simpa using Deque.memD_trans hd n7), n6⟩
    · rw [n2] at h; cases h
  · rcases Deque.filter_spec d p m hi with ⟨_, e, _⟩ | ⟨_, _, _, c', f1, _, _, _, f5, f6, _⟩ | ⟨_, _, n2, _⟩
    · rw [e] at h; cases h
    · rw [f1] at h; cases h
      have hd := Deque.destroy_ledger c (d.filter p m).2.2 (by rw [f5]; have := f6.1; omega)
      rw [f5] at hd
      exact ⟨Deque.memD_norm (k := 0) (j := 2) (by simpa using Deque.memD_trans hd f6), f5⟩
    · rw [n2] at h; cases h

/-- **derived_can_grow**: the result inherits the source's configuration (allocator triple, capacity), so
it is a fully usable deque: an append on it — also on the *exactly full* copy of a full deque — succeeds
and refines `append`, doubling the capacity when it was full (hypothesis: the allocator of the result's
triple does not refuse this call — C-library triple, or exhausted schedule) -/
theorem derived_can_grow (c : Deque) (x : Nat) (m : Mem) (hc : c.Inv) (hs : Deque.neverRefuses c.triple m)
    (hb : c.size < Gen.MAX_POW_TWO) :
    (c.addLast x m).1 = .ok ∧ (c.addLast x m).2.1.abs = c.abs ++ [x] ∧ (c.addLast x m).2.1.Inv ∧
    (c.addLast x m).2.1.cap = (if c.size = c.cap then 2 * c.cap else c.cap) := by
  have hpe : Deque.pushEnd c (false, x) m = c.addLast x m := by simp [Deque.pushEnd]
  obtain ⟨s1, s2, _, s4, _⟩ := Deque.pushEnd_step c (false, x) m hc hs hb
  rw [hpe] at s1 s2 s4
  rcases Deque.addLast_spec c x m hc with ⟨_, _, _, _, a5, _⟩ | ⟨a1, _⟩
  · exact ⟨s1, by simpa using s4, s2, a5⟩
  · have : (c.addLast x m).1 = .ok := s1
    rw [a1] at this; exact absurd this (by decide)

/-- in particular for the copy of an exactly full source -/
theorem full_copy_can_grow (d : Deque) (x : Nat) (m m' : Mem) (hi : d.Inv)
    (hok : (d.copy none m).1 = .ok) (hs : Deque.neverRefuses d.triple m') (hb : d.size < Gen.MAX_POW_TWO) :
    ∃ c, (d.copy none m).2.1 = some c ∧ (c.addLast x m').1 = .ok ∧ (c.addLast x m').2.1.abs = d.abs ++ [x] := by
  rcases Deque.copy_spec d none m hi with ⟨_, c, n2, n3, n4, _, n6, _⟩ | ⟨n1, _⟩
  · have hsz : c.size = d.size := by have := congrArg List.length n4; simpa using this
    obtain ⟨g1, g2, _⟩ := derived_can_grow c x m' n3 (by rw [n6]; exact hs) (by rw [hsz]; exact hb)
    exact ⟨c, n2, g1, by rw [g2, n4]⟩
  · rw [n1] at hok; exact absurd hok (by decide)

/-! ## independence -/

/-- a session with two deques (source and derived); `side = false` addresses the first -/
def stepOn (side : Bool) (p : Deque × Deque) (m : Mem) (op : Op) : Out × (Deque × Deque) × Mem :=
  if side then let r := stepM p.2 m op; (r.1, (p.1, r.2.1), r.2.2)
  else let r := stepM p.1 m op; (r.1, (r.2.1, p.2), r.2.2)

def runOn (p : Deque × Deque) (m : Mem) : List (Bool × Op) → (Deque × Deque) × Mem
  | [] => (p, m)
  | (s, op) :: rest => runOn (stepOn s p m op).2.1 (stepOn s p m op).2.2 rest

/-- **independent (true by the model's value semantics)**: an operation on one of the two never changes the
other's physical state.  The model *cannot* falsify this — buffers are values, never shared —, so the
theorem documents the modelling decision rather than a fact about the C code; that the C objects do not
alias is what the harness observes under ASan (both are fully re-observed after every step, one is
destroyed while the other is used). -/
theorem independent_step_model (side : Bool) (p : Deque × Deque) (m : Mem) (op : Op) :
    (side = false → (stepOn side p m op).2.1.2 = p.2) ∧ (side = true → (stepOn side p m op).2.1.1 = p.1) := by
  cases side <;> simp [stepOn]

/-- … and therefore any history that only addresses one of them leaves the other exactly as it was, and
the addressed one evolves exactly as it would alone (again by value semantics: `_model`) -/
theorem independent_history_model (p : Deque × Deque) (m : Mem) (ops : List Op) :
    (runOn p m (ops.map fun op => (false, op))).1.2 = p.2 ∧
    (runOn p m (ops.map fun op => (false, op))).1.1 = (runM p.1 m ops).2.1 ∧
    (runOn p m (ops.map fun op => (true, op))).1.1 = p.1 ∧
    (runOn p m (ops.map fun op => (true, op))).1.2 = (runM p.2 m ops).2.1 := by
  induction ops generalizing p m with
  | nil => exact ⟨rfl, rfl, rfl, rfl⟩
  | cons op ops ih =>
    simp only [List.map_cons, runOn, runM]
    obtain ⟨a1, a2, _, _⟩ := ih (stepOn false p m op).2.1 (stepOn false p m op).2.2
    obtain ⟨_, _, b3, b4⟩ := ih (stepOn true p m op).2.1 (stepOn true p m op).2.2
    refine ⟨by rw [a1]; simp [stepOn], by rw [a2]; simp [stepOn], by rw [b3]; simp [stepOn], by rw [b4]; simp [stepOn]⟩

/-- non-vacuity: the shallow copy of a wrapped, exactly full deque is a full deque starting at slot 0,
and appending to it succeeds and doubles its capacity -/
example : ((Deque.mk 4 4 3 3 [12, 13, 14, 11] .conf).copy none {}).2.1 = some (Deque.mk 4 4 0 0 [11, 12, 13, 14] .conf) ∧
    ((Deque.mk 4 4 0 0 [11, 12, 13, 14] .conf).addLast 5 {}).2.1.abs = [11, 12, 13, 14, 5] ∧
    ((Deque.mk 4 4 0 0 [11, 12, 13, 14] .conf).addLast 5 {}).2.1.cap = 8 := by decide

end CC.Properties.C15Deque
