import CollectionsC.Proofs.PTreeRemoveWF
import CollectionsC.Proofs.TreeTableWalk
import CollectionsC.Proofs.TreeTableHeight
set_option linter.unusedSimpArgs false
set_option linter.unusedVariables false
namespace CC.Tree
open Colour Dir Spec Spec.OrdMap
variable {cmp : Nat → Nat → Int}

/-- the lookup of the inductive model reads the node the descent stops at -/
theorem find_leafPath (k : Nat) (t : Tree) :
    (find cmp k t).1 = (match subtree t (leafPath cmp k t) with | node _ _ _ v _ => some v | nil => none) ∧
    (find cmp k t).2 = (leafPath cmp k t).length +
      (match subtree t (leafPath cmp k t) with | node _ _ _ _ _ => 1 | nil => 0) := by
  induction t with
  | nil => simp [find, leafPath, subtree]
  | node c l key val r ihl ihr =>
    unfold find leafPath
    split
    · simp only [subtree, List.length_cons]; exact ⟨ihl.1, by rw [ihl.2]; omega⟩
    · split
      · simp only [subtree, List.length_cons]; exact ⟨ihr.1, by rw [ihr.2]; omega⟩
      · simp [subtree]

theorem findPath_leafPath (k : Nat) (t : Tree) :
    findPath cmp k t = (match subtree t (leafPath cmp k t) with | node _ _ _ _ _ => some (leafPath cmp k t) | nil => none) := by
  induction t with
  | nil => simp [findPath, leafPath, subtree]
  | node c l key val r ihl ihr =>
    unfold findPath leafPath
    split
    · rw [ihl]; simp only [subtree]; split <;> simp_all
    · split
      · rw [ihr]; simp only [subtree]; split <;> simp_all
      · simp [subtree]
end CC.Tree

namespace CC.PTree
open CC
open CC.Tree (Path Dir)

theorem ITree.toList_length (T : ITree) : T.erase.toList.length = T.ids.length := by
  induction T with
  | nil => rfl
  | node id c l k v r ihl ihr => simp [ITree.erase, Tree.toList, ihl, ihr]; omega

theorem walkLoop_sentinel (st : PT) (f : Nat) : walkLoop st f 0 = [] := by cases f <;> simp [walkLoop, S]

/-- **the in-order walk of the iterator / `foreach`** from the node at `p`: it yields that node's entry and then
everything behind it in order -/
theorem walkLoop_rep {st : PT} {T : ITree} (h : Represents st T) : ∀ (f : Nat) (p : Path) {x c a k v b},
    T.subtree p = .node x c a k v b → (Tree.ctxAfter T.erase p).length < f →
    walkLoop st f x = (k, v) :: Tree.ctxAfter T.erase p := by
  intro f
  induction f with
  | zero => intro p x c a k v b _ hl; simp at hl
  | succ f ih =>
    intro p x c a k v b hs hl
    obtain ⟨rx, x0⟩ := h.get_at p hs
    have hse : Tree.subtree T.erase p = .node c a.erase k v b.erase := by rw [← ITree.erase_subtree, hs]; rfl
    have hsucc := (walks_agree h p hs).1
    rw [h.toTree] at hsucc
    have hspec := Tree.succPath_spec T.erase p hse
    simp only [walkLoop, S, x0, if_false, rx, hsucc]
    cases hsp : Tree.succPath T.erase p with
    | none =>
      rw [hsp] at hspec
      simp only [hspec, walkLoop_sentinel]
    | some s =>
      rw [hsp] at hspec
      obtain ⟨e, he, _, hctx⟩ := hspec
      simp only
      cases hs' : T.subtree s with
      | nil =>
        have : Tree.subtree T.erase s = .nil := by rw [← ITree.erase_subtree, hs']; rfl
        simp [Tree.entryAt, this] at he
      | node y cy ya yk yv yb =>
        have hse' : Tree.subtree T.erase s = .node cy ya.erase yk yv yb.erase := by
          rw [← ITree.erase_subtree, hs']; rfl
        simp only [Tree.entryAt, hse', Option.some.injEq] at he
        rw [hctx] at hl ⊢
        simp only [List.length_cons] at hl
        rw [ITree.rid_node, ih s hs' (by omega), ← he]

/-- **whole-walk theorem**: `tree_min` then `get_successor_node` until the sentinel enumerates the entries in
order, every key once -/
theorem inorder_rep {st : PT} {T : ITree} (h : Represents st T) : inorder st = T.erase.toList := by
  unfold inorder
  by_cases hT : T = .nil
  · subst hT
    have : st.root = 0 := h.root
    simp [this, treeMin, S, walkLoop_sentinel, ITree.erase, Tree.toList]
  · obtain ⟨y, cy, yk, yv, yr, hs⟩ := ITree.subtree_treeMinPath T hT
    have hmin := (min_max_agree h).1
    rw [h.toTree, hs] at hmin
    have hTe : T.erase ≠ .nil := by
      cases T with
      | nil => exact absurd rfl hT
      | node _ _ _ _ _ _ => simp [ITree.erase]
    obtain ⟨c', k', v', b', h1, h2⟩ := Tree.treeMin_spec T.erase hTe
    have hse : Tree.subtree T.erase (Tree.treeMinPath T.erase) = .node cy .nil yk yv yr.erase := by
      rw [← ITree.erase_subtree, hs]; rfl
    have hsplit := Tree.toList_split T.erase _ hse
    rw [h2] at hsplit
    rw [hmin, ITree.rid_node, hsplit]
    refine walkLoop_rep h _ _ hs ?_
    have : T.erase.toList.length = st.size := by
      rw [h.size]; exact ITree.toList_length T
    rw [hsplit] at this; simp at this; omega
end CC.PTree
namespace CC.PTree
open CC
open CC.Tree (Path Dir)

theorem Heap.contains_del (h : Heap) (i j : Nat) : (h.del i).m.contains j = (decide (j ≠ i) && h.m.contains j) := by
  unfold Heap.del
  rw [Std.HashMap.contains_erase]
  by_cases e : j = i
  · subst e; simp
  · have : (i == j) = false := by simpa using Ne.symm e
    simp [this, e]

/-- **`tree_destroy`** (post-order: left subtree, right subtree, the node): exactly the nodes of the subtree
leave the heap (`contains` false afterwards, whatever it was before), nothing else is touched -/
theorem destroyLoop_rep {h : Heap} {T : ITree} {p : Nat} (hr : Rep h T p) (hnd : T.ids.Nodup)
    (f : Nat) (hf : T.height ≤ f) :
    (∀ j, (destroyLoop h f T.rid).get j = if j ∈ T.ids then {} else h.get j) ∧
    (∀ j, (destroyLoop h f T.rid).m.contains j = (decide (j ∉ T.ids) && h.m.contains j)) := by
  induction T generalizing h p f with
  | nil => cases f <;> simp [destroyLoop, S]
  | node id c l k v r ihl ihr =>
    obtain ⟨h1, h2, h3, h4⟩ := hr
    simp only [ITree.ids_node, List.nodup_cons, List.mem_append, not_or, List.nodup_append] at hnd
    obtain ⟨⟨hil, hir⟩, hndl, hndr, hdisj⟩ := hnd
    cases f with
    | zero => simp [ITree.height] at hf
    | succ f =>
      simp only [ITree.height] at hf
      obtain ⟨l1, l2⟩ := ihl h3 hndl f (by omega)
      have hr1 : Rep (destroyLoop h f l.rid) r id := h4.frame (fun i hi => by
        rw [l1]; simp [show i ∉ l.ids from fun hm => hdisj i hm i hi rfl])
      obtain ⟨r1, r2⟩ := ihr hr1 hndr f (by omega)
      simp only [ITree.rid_node, destroyLoop, S, h1, if_false, h2]
      constructor
      · intro j
        rw [Heap.get_del, r1, l1]
        by_cases e : j = id
        · subst e; simp
        · simp only [e, if_false, ITree.ids_node, List.mem_cons, false_or, List.mem_append]
          by_cases e1 : j ∈ r.ids
          · simp [e1]
          · by_cases e2 : j ∈ l.ids <;> simp [e1, e2]
      · intro j
        rw [Heap.contains_del, r2, l2]
        by_cases e : j = id
        · subst e; simp
        · simp only [ITree.ids_node, List.mem_cons, e, false_or, List.mem_append, not_or]
          by_cases e1 : j ∈ r.ids <;> by_cases e2 : j ∈ l.ids <;> simp [e, e1, e2]

/-- **`cc_treetable_remove_all`**: every node of the tree is freed, the sentinel is kept; the result is the empty
well-formed table -/
theorem removeAll_represents {st : PT} {T : ITree} (h : Represents st T) :
    Represents (removeAll st) .nil ∧
    (∀ i ∈ T.ids, (removeAll st).heap.m.contains i = false) ∧
    (∀ j, j ∉ T.ids → (removeAll st).heap.m.contains j = st.heap.m.contains j ∧
      (removeAll st).heap.get j = st.heap.get j) := by
  have hf : T.height ≤ st.size + 1 := by have := ITree.height_le_ids T; rw [h.size]; omega
  have := destroyLoop_rep h.rep h.nodup (st.size + 1) hf
  rw [← h.root] at this
  obtain ⟨g1, g2⟩ := this
  have h0 : (0 : Nat) ∉ T.ids := fun hm => h.rep.ids_ne 0 hm rfl
  refine ⟨⟨rfl, trivial, List.nodup_nil, ?_, ?_, rfl, fun i hi => by simp at hi, h.fresh_pos⟩, ?_, ?_⟩
  · show ((destroyLoop _ _ _).get 0).color = _
    rw [g1]; simp [h0]; exact h.black
  · have e : (removeAll st).heap.get 0 = st.heap.get 0 := by
      show (destroyLoop _ _ _).get 0 = _
      rw [g1]; simp [h0]
    rw [e]; exact h.sent
  · intro i hi; show (destroyLoop _ _ _).m.contains i = false
    rw [g2]; simp [hi]
  · intro j hj
    exact ⟨by show (destroyLoop _ _ _).m.contains j = _; rw [g2]; simp [hj],
      by show (destroyLoop _ _ _).get j = _; rw [g1]; simp [hj]⟩
end CC.PTree

namespace CC.PTree
open CC
open CC.Tree (Path Dir)
open Spec Spec.OrdMap

theorem min_facts {st : PT} {T : ITree} (h : Represents st T) (hT : T ≠ .nil) :
    ∃ z cz zk zv zr rest, T.subtree (Tree.treeMinPath T.erase) = .node z cz .nil zk zv zr ∧
      treeMin st.heap (st.size + 1) st.root = z ∧ z ≠ 0 ∧ (st.heap.get z).key = zk ∧ (st.heap.get z).value = zv ∧
      T.erase.toList = (zk, zv) :: rest := by
  obtain ⟨z, cz, zk, zv, zr, hs⟩ := ITree.subtree_treeMinPath T hT
  have hmin := (min_max_agree h).1
  rw [h.toTree, hs] at hmin
  have hTe : T.erase ≠ .nil := by
    cases T with
    | nil => exact absurd rfl hT
    | node _ _ _ _ _ _ => simp [ITree.erase]
  obtain ⟨c', k', v', b', h1, h2⟩ := Tree.treeMin_spec T.erase hTe
  have hse : Tree.subtree T.erase (Tree.treeMinPath T.erase) = .node cz .nil zk zv zr.erase := by
    rw [← ITree.erase_subtree, hs]; rfl
  have hsplit := Tree.toList_split T.erase _ hse
  rw [h2] at hsplit
  obtain ⟨rz, z0⟩ := h.get_at _ hs
  exact ⟨z, cz, zk, zv, zr, _, hs, hmin, z0, by rw [rz], by rw [rz], by simpa using hsplit⟩

theorem max_facts {st : PT} {T : ITree} (h : Represents st T) (hT : T ≠ .nil) :
    ∃ z cz zl zk zv pre, T.subtree (Tree.treeMaxPath T.erase) = .node z cz zl zk zv .nil ∧
      treeMax st.heap (st.size + 1) st.root = z ∧ z ≠ 0 ∧ (st.heap.get z).key = zk ∧ (st.heap.get z).value = zv ∧
      T.erase.toList = pre ++ [(zk, zv)] := by
  obtain ⟨z, cz, zl, zk, zv, hs⟩ := ITree.subtree_treeMaxPath T hT
  have hmax := (min_max_agree h).2
  rw [h.toTree, hs] at hmax
  have hTe : T.erase ≠ .nil := by
    cases T with
    | nil => exact absurd rfl hT
    | node _ _ _ _ _ _ => simp [ITree.erase]
  obtain ⟨c', a', k', v', h1, h2⟩ := Tree.treeMax_spec T.erase hTe
  have hse : Tree.subtree T.erase (Tree.treeMaxPath T.erase) = .node cz zl.erase zk zv .nil := by
    rw [← ITree.erase_subtree, hs]; rfl
  have hsplit := Tree.toList_split T.erase _ hse
  rw [h2] at hsplit
  obtain ⟨rz, z0⟩ := h.get_at _ hs
  exact ⟨z, cz, zl, zk, zv, _, hs, hmax, z0, by rw [rz], by rw [rz], hsplit⟩

theorem empty_facts {st : PT} (h : Represents st .nil) :
    st.size = 0 ∧ st.root = 0 ∧ treeMin st.heap (st.size + 1) st.root = 0 ∧ treeMax st.heap (st.size + 1) st.root = 0 := by
  have h1 : st.size = 0 := by simpa using h.size
  have h2 : st.root = 0 := h.root
  exact ⟨h1, h2, by simp [treeMin, h2, S], by simp [treeMax, h2, S]⟩

/-- the lookup of the specification reads the node the descent stops at -/
theorem lookup_leafPath (cmp : Nat → Nat → Int) (hto : TotalOrder cmp) {T : ITree} (hb : Tree.BST cmp T.erase) (k : Nat) :
    lookup T.erase.toList k =
      (match T.subtree (Tree.leafPath cmp k T.erase) with | .node _ _ _ _ v _ => some v | .nil => none) ∧
    contains T.erase.toList k =
      (match T.subtree (Tree.leafPath cmp k T.erase) with | .node _ _ _ _ _ _ => true | .nil => false) := by
  have h1 := (Tree.find_leafPath (cmp := cmp) k T.erase).1
  rw [Tree.find_refines hto k T.erase hb, ← ITree.erase_subtree] at h1
  have h2 : lookup T.erase.toList k =
      (match T.subtree (Tree.leafPath cmp k T.erase) with | .node _ _ _ _ v _ => some v | .nil => none) := by
    rw [h1]; cases T.subtree (Tree.leafPath cmp k T.erase) <;> rfl
  refine ⟨h2, ?_⟩
  rw [contains_iff_lookup, h2]
  cases T.subtree (Tree.leafPath cmp k T.erase) <;> rfl
end CC.PTree

namespace CC.PTree
open CC
open CC.Tree (Path Dir)
open Spec Spec.OrdMap

/-- a node id read off the tree at an entry position -/
theorem entry_node {st : PT} {T : ITree} (h : Represents st T) (s : Path) {e : Nat × Nat}
    (he : Tree.entryAt T.erase s = some e) :
    (T.subtree s).rid ≠ 0 ∧ (st.heap.get (T.subtree s).rid).key = e.1 := by
  cases hs' : T.subtree s with
  | nil =>
    have : Tree.subtree T.erase s = .nil := by rw [← ITree.erase_subtree, hs']; rfl
    simp [Tree.entryAt, this] at he
  | node y cy ya yk yv yb =>
    have hse' : Tree.subtree T.erase s = .node cy ya.erase yk yv yb.erase := by rw [← ITree.erase_subtree, hs']; rfl
    simp only [Tree.entryAt, hse', Option.some.injEq] at he
    obtain ⟨ry, y0⟩ := h.get_at s hs'
    exact ⟨y0, by rw [ITree.rid_node, ry, ← he]⟩

/-- **`get_successor_node` / `get_predecessor_node` of the node holding `k`** against the specification's strict
neighbours -/
theorem neighbour_facts (cmp : Nat → Nat → Int) (hto : TotalOrder cmp) {st : PT} {T : ITree} (h : Represents st T)
    (hb : Tree.BST cmp T.erase) {k : Nat} {x c a v b}
    (hs : T.subtree (Tree.leafPath cmp k T.erase) = .node x c a k v b) :
    (match succ cmp T.erase.toList k with
      | some e => successor st.heap (st.size + 1) x ≠ 0 ∧ (st.heap.get (successor st.heap (st.size + 1) x)).key = e.1
      | none => successor st.heap (st.size + 1) x = 0) ∧
    (match pred cmp T.erase.toList k with
      | some e => predecessor st.heap (st.size + 1) x ≠ 0 ∧ (st.heap.get (predecessor st.heap (st.size + 1) x)).key = e.1
      | none => predecessor st.heap (st.size + 1) x = 0) := by
  have hse : Tree.subtree T.erase (Tree.leafPath cmp k T.erase) = .node c a.erase k v b.erase := by
    rw [← ITree.erase_subtree, hs]; rfl
  have hc : contains T.erase.toList k = true := by rw [(lookup_leafPath cmp hto hb k).2, hs]
  obtain ⟨w1, w2⟩ := walks_agree h _ hs
  rw [h.toTree] at w1 w2
  obtain ⟨n1, n2⟩ := Tree.succEntryAt_eq_nextAfter T.erase (Tree.bst_nodup hto hb) _ hse
  rw [Tree.nextAfter_eq_succ hto hb hc] at n1
  rw [Tree.prevBefore_eq_pred hto hb hc] at n2
  have sp := Tree.succPath_spec T.erase _ hse
  have pp := Tree.predPath_spec T.erase _ hse
  constructor
  · rw [← n1, w1]
    simp only [Tree.succEntryAt]
    cases hsp : Tree.succPath T.erase (Tree.leafPath cmp k T.erase) with
    | none => simp
    | some s =>
      rw [hsp] at sp
      obtain ⟨e, he, _, _⟩ := sp
      simp only [Option.bind_some, he]
      exact entry_node h s he
  · rw [← n2, w2]
    simp only [Tree.predEntryAt]
    cases hsp : Tree.predPath T.erase (Tree.leafPath cmp k T.erase) with
    | none => simp
    | some s =>
      rw [hsp] at pp
      obtain ⟨e, he, _, _⟩ := pp
      simp only [Option.bind_some, he]
      exact entry_node h s he
end CC.PTree

namespace CC.PTree
open CC
open CC.Tree (Path Dir)
open Spec Spec.OrdMap

/-- **one call at the pointer level refines the ordered-map specification**: from a heap that represents a red-black
search tree, every call of the table API returns the status, out-value and callback log the specification demands
for the tree's in-order content (the allocator's refusal `!ok` included), and leaves a heap that represents a
red-black search tree whose content is the specification's new map -/
theorem pstep_refines (cmp : Nat → Nat → Int) (hto : TotalOrder cmp) {st : PT} {T : ITree} (h : Represents st T)
    (hb : Tree.BST cmp T.erase) (hrb : Tree.RB T.erase) (op : Op) (ok : Bool) :
    (step cmp st op ok).1 = (OrdMap.step cmp T.erase.toList op (!ok)).1 ∧
    ∃ T', Represents (step cmp st op ok).2 T' ∧ T'.erase.toList = (OrdMap.step cmp T.erase.toList op (!ok)).2 ∧
      Tree.BST cmp T'.erase ∧ Tree.RB T'.erase := by
  have same : ∃ T', Represents st T' ∧ T'.erase.toList = T.erase.toList ∧ Tree.BST cmp T'.erase ∧ Tree.RB T'.erase :=
    ⟨T, h, rfl, hb, hrb⟩
  have sorted_erase_of : ∀ (T' : ITree) (k : Nat), T'.erase.toList = OrdMap.erase T.erase.toList k →
      Tree.BST cmp T'.erase := by
    intro T' k e; show Sorted cmp _; rw [e]; exact sorted_erase hb k
  cases op with
  | add k v =>
    obtain ⟨_, hc⟩ := lookup_leafPath cmp hto hb k
    simp only [step, OrdMap.step, add_descent_eq cmp h k]
    cases hs : T.subtree (Tree.leafPath cmp k T.erase) with
    | node x c a k0 v0 b =>
      rw [hs] at hc
      have hx0 : x ≠ 0 := (h.get_at _ hs).2
      obtain ⟨_, _, r1, r2, r3, r4⟩ := add_existing_wf cmp hto h hb hrb k v ok hs
      simp only [hc, Bool.not_true, Bool.false_and, S, hx0, ne_eq, not_false_eq_true, if_true]
      exact ⟨by first | rfl | trivial, _, r1, r2, r4, r3⟩
    | nil =>
      rw [hs] at hc
      cases ok with
      | true =>
        obtain ⟨T', r1, _, r3, r4, r5⟩ := add_new_wf cmp hto h hb hrb k v hs
        simp only [hc, S, ne_eq, not_true_eq_false, if_false, Bool.not_false, Bool.not_true, Bool.and_false]
        exact ⟨by first | rfl | trivial, T', r1, r3, r5, r4⟩
      | false =>
        simp only [hc, S, ne_eq, not_true_eq_false, if_false, Bool.not_false, Bool.and_self, if_true]
        rw [add_refused cmp h k v hs]
        exact ⟨by first | rfl | trivial, by first | exact same | exact ⟨T, h, by assumption, hb, hrb⟩⟩
  | get k =>
    obtain ⟨hl, _⟩ := lookup_leafPath cmp hto hb k
    simp only [step, OrdMap.step, opGet, findNode_rep cmp h k, hl]
    cases hs : T.subtree (Tree.leafPath cmp k T.erase) with
    | nil => exact ⟨by first | rfl | trivial, by first | exact same | exact ⟨T, h, by assumption, hb, hrb⟩⟩
    | node x c a k0 v0 b => simp only [(h.get_at _ hs).1]; exact ⟨by first | rfl | trivial, by first | exact same | exact ⟨T, h, by assumption, hb, hrb⟩⟩
  | containsKey k =>
    obtain ⟨_, hc⟩ := lookup_leafPath cmp hto hb k
    simp only [step, OrdMap.step, findNode_rep cmp h k, hc]
    cases hs : T.subtree (Tree.leafPath cmp k T.erase) <;> exact ⟨by first | rfl | trivial, by first | exact same | exact ⟨T, h, by assumption, hb, hrb⟩⟩
  | containsValue v =>
    simp only [step, OrdMap.step, inorder_rep h, countValue]
    exact ⟨by first | rfl | trivial, by first | exact same | exact ⟨T, h, by assumption, hb, hrb⟩⟩
  | remove k =>
    obtain ⟨hl, _⟩ := lookup_leafPath cmp hto hb k
    obtain ⟨_, r2⟩ := PTree.remove_wf cmp hto h hb hrb k
    simp only [step, OrdMap.step, opRemove, findNode_rep cmp h k, hl]
    cases hs : T.subtree (Tree.leafPath cmp k T.erase) with
    | nil => exact ⟨by first | rfl | trivial, by first | exact same | exact ⟨T, h, by assumption, hb, hrb⟩⟩
    | node x c a k0 v0 b =>
      obtain ⟨hk, T', a1, _, a3, a4, a5⟩ := r2 hs
      have e : remove cmp st k = removeNode st x := by unfold remove; rw [findNode_rep cmp h k, hs]
      rw [e] at a1
      simp only [(h.get_at _ hs).1]
      exact ⟨by first | rfl | trivial, T', a1, a3, a5, a4⟩
  | removeFirst =>
    by_cases hT : T = .nil
    · subst hT
      obtain ⟨e1, _⟩ := empty_facts h
      simp only [step, OrdMap.step, e1, if_true, ITree.erase, Tree.toList, opRemoveFirst]
      exact ⟨by first | rfl | trivial, by first | exact same | exact ⟨T, h, by assumption, hb, hrb⟩⟩
    · obtain ⟨z, cz, zk, zv, zr, rest, hs, hmin, z0, hk, hv, hl⟩ := min_facts h hT
      have hsz : st.size ≠ 0 := by
        rw [h.size]; cases T with
        | nil => exact absurd rfl hT
        | node _ _ _ _ _ _ => simp
      obtain ⟨T', a1, _, a3, a4⟩ := removeNode_wf cmp hto h hb hrb _ hs
      simp only [step, OrdMap.step, hsz, if_false, hmin, hv, hl, opRemoveFirst]
      have herase : OrdMap.erase T.erase.toList zk = rest := by
        have hsd : Sorted cmp ([] ++ (zk, zv) :: rest) := by simpa [hl] using (show Sorted cmp T.erase.toList from hb)
        rw [hl]; simpa using erase_eq hto hsd
      exact ⟨by first | rfl | trivial, T', a1, by rw [a3, herase], sorted_erase_of T' zk a3, a4⟩
  | removeLast =>
    by_cases hT : T = .nil
    · subst hT
      obtain ⟨e1, _⟩ := empty_facts h
      simp only [step, OrdMap.step, e1, if_true, ITree.erase, Tree.toList, opRemoveLast]
      exact ⟨by first | rfl | trivial, by first | exact same | exact ⟨T, h, by assumption, hb, hrb⟩⟩
    · obtain ⟨z, cz, zl, zk, zv, pre, hs, hmax, z0, hk, hv, hl⟩ := max_facts h hT
      have hsz : st.size ≠ 0 := by
        rw [h.size]; cases T with
        | nil => exact absurd rfl hT
        | node _ _ _ _ _ _ => simp
      obtain ⟨T', a1, _, a3, a4⟩ := removeNode_wf cmp hto h hb hrb _ hs
      simp only [step, OrdMap.step, hsz, if_false, hmax, hv, hl, opRemoveLast]
      have herase : OrdMap.erase T.erase.toList zk = pre := by
        have hsd : Sorted cmp (pre ++ (zk, zv) :: []) := by simpa [hl] using (show Sorted cmp T.erase.toList from hb)
        rw [hl]; simpa using erase_eq hto hsd
      simp only [List.getLast?_append, List.getLast?_singleton, Option.or_some, List.dropLast_concat]
      exact ⟨by simp, T', a1, by rw [a3, herase]; simp, sorted_erase_of T' zk a3, a4⟩
  | removeAll =>
    simp only [step, OrdMap.step]
    exact ⟨by first | rfl | trivial, .nil, (removeAll_represents h).1, rfl,
      by simp [ITree.erase, Tree.BST, Tree.toList, Sorted], by simp [ITree.erase, Tree.RB, Tree.RBok, Tree.col]⟩
  | firstKey =>
    by_cases hT : T = .nil
    · subst hT
      obtain ⟨_, _, e3, _⟩ := empty_facts h
      simp only [step, OrdMap.step, e3, S, if_true, ITree.erase, Tree.toList, opFirstKey, first, List.head?]
      exact ⟨by first | rfl | trivial, by first | exact same | exact ⟨T, h, by assumption, hb, hrb⟩⟩
    · obtain ⟨z, cz, zk, zv, zr, rest, hs, hmin, z0, hk, hv, hl⟩ := min_facts h hT
      simp only [step, OrdMap.step, hmin, S, z0, if_false, hk, hl, opFirstKey, first, List.head?]
      exact ⟨by first | rfl | trivial, by first | exact same | exact ⟨T, h, by assumption, hb, hrb⟩⟩
  | firstValue =>
    by_cases hT : T = .nil
    · subst hT
      obtain ⟨_, _, e3, _⟩ := empty_facts h
      simp only [step, OrdMap.step, e3, S, if_true, ITree.erase, Tree.toList, opFirstValue, first, List.head?]
      exact ⟨by first | rfl | trivial, by first | exact same | exact ⟨T, h, by assumption, hb, hrb⟩⟩
    · obtain ⟨z, cz, zk, zv, zr, rest, hs, hmin, z0, hk, hv, hl⟩ := min_facts h hT
      simp only [step, OrdMap.step, hmin, S, z0, if_false, hv, hl, opFirstValue, first, List.head?]
      exact ⟨by first | rfl | trivial, by first | exact same | exact ⟨T, h, by assumption, hb, hrb⟩⟩
  | lastKey =>
    by_cases hT : T = .nil
    · subst hT
      obtain ⟨_, _, _, e4⟩ := empty_facts h
      simp only [step, OrdMap.step, e4, S, if_true, ITree.erase, Tree.toList, opLastKey, last, List.getLast?]
      exact ⟨by first | rfl | trivial, by first | exact same | exact ⟨T, h, by assumption, hb, hrb⟩⟩
    · obtain ⟨z, cz, zl, zk, zv, pre, hs, hmax, z0, hk, hv, hl⟩ := max_facts h hT
      simp only [step, OrdMap.step, hmax, S, z0, if_false, hk, hl, opLastKey, last]
      exact ⟨by simp, by first | exact same | exact ⟨T, h, by assumption, hb, hrb⟩⟩
  | lastValue =>
    by_cases hT : T = .nil
    · subst hT
      obtain ⟨_, _, _, e4⟩ := empty_facts h
      simp only [step, OrdMap.step, e4, S, if_true, ITree.erase, Tree.toList, opLastValue, last, List.getLast?]
      exact ⟨by first | rfl | trivial, by first | exact same | exact ⟨T, h, by assumption, hb, hrb⟩⟩
    · obtain ⟨z, cz, zl, zk, zv, pre, hs, hmax, z0, hk, hv, hl⟩ := max_facts h hT
      simp only [step, OrdMap.step, hmax, S, z0, if_false, hv, hl, opLastValue, last]
      exact ⟨by simp, by first | exact same | exact ⟨T, h, by assumption, hb, hrb⟩⟩
  | greaterThan k =>
    obtain ⟨_, hc⟩ := lookup_leafPath cmp hto hb k
    simp only [step, OrdMap.step, opGreaterThan, findNode_rep cmp h k, hc]
    cases hs : T.subtree (Tree.leafPath cmp k T.erase) with
    | nil => exact ⟨by first | rfl | trivial, by first | exact same | exact ⟨T, h, by assumption, hb, hrb⟩⟩
    | node x c a k0 v0 b =>
      have hk : k0 = k := (PTree.remove_wf cmp hto h hb hrb k).2 hs |>.1
      subst hk
      have nf := (neighbour_facts cmp hto h hb hs).1
      simp only [if_true]
      cases hsu : succ cmp T.erase.toList k0 with
      | none => rw [hsu] at nf; simp only [nf, S, if_true]; exact ⟨by first | rfl | trivial, by first | exact same | exact ⟨T, h, by assumption, hb, hrb⟩⟩
      | some e => rw [hsu] at nf; simp only [S, nf.1, if_false, nf.2]; exact ⟨by first | rfl | trivial, by first | exact same | exact ⟨T, h, by assumption, hb, hrb⟩⟩
  | lesserThan k =>
    obtain ⟨_, hc⟩ := lookup_leafPath cmp hto hb k
    simp only [step, OrdMap.step, opLesserThan, findNode_rep cmp h k, hc]
    cases hs : T.subtree (Tree.leafPath cmp k T.erase) with
    | nil => exact ⟨by first | rfl | trivial, by first | exact same | exact ⟨T, h, by assumption, hb, hrb⟩⟩
    | node x c a k0 v0 b =>
      have hk : k0 = k := (PTree.remove_wf cmp hto h hb hrb k).2 hs |>.1
      subst hk
      have nf := (neighbour_facts cmp hto h hb hs).2
      simp only [if_true]
      cases hsu : pred cmp T.erase.toList k0 with
      | none => rw [hsu] at nf; simp only [nf, S, if_true]; exact ⟨by first | rfl | trivial, by first | exact same | exact ⟨T, h, by assumption, hb, hrb⟩⟩
      | some e => rw [hsu] at nf; simp only [S, nf.1, if_false, nf.2]; exact ⟨by first | rfl | trivial, by first | exact same | exact ⟨T, h, by assumption, hb, hrb⟩⟩
  | foreachKey => simp only [step, OrdMap.step, inorder_rep h, keys]; exact ⟨by first | rfl | trivial, by first | exact same | exact ⟨T, h, by assumption, hb, hrb⟩⟩
  | foreachValue => simp only [step, OrdMap.step, inorder_rep h, values]; exact ⟨by first | rfl | trivial, by first | exact same | exact ⟨T, h, by assumption, hb, hrb⟩⟩
  | size =>
    simp only [step, OrdMap.step]
    exact ⟨by rw [h.size, ITree.toList_length], same⟩
end CC.PTree

namespace CC.PTree
open CC
open CC.Tree (Path Dir)
open Spec Spec.OrdMap

/-- **histories at the pointer level refine the ordered-map specification**, under every refusal schedule: the
results of all calls are the specification's, the final heap represents a red-black search tree with the
specification's final content -/
theorem phistory_refines (cmp : Nat → Nat → Int) (hto : TotalOrder cmp) (ops : List (Op × Bool)) :
    ∀ {st : PT} {T : ITree}, Represents st T → Tree.BST cmp T.erase → Tree.RB T.erase →
      (run cmp st ops).1 = (OrdMap.run cmp T.erase.toList ops).1 ∧
      ∃ T', Represents (run cmp st ops).2 T' ∧ T'.erase.toList = (OrdMap.run cmp T.erase.toList ops).2 ∧
        Tree.BST cmp T'.erase ∧ Tree.RB T'.erase := by
  induction ops with
  | nil => intro st T h hb hrb; exact ⟨rfl, T, h, rfl, hb, hrb⟩
  | cons o ops ih =>
    intro st T h hb hrb
    obtain ⟨op, refused⟩ := o
    obtain ⟨s1, T1, r1, r2, r3, r4⟩ := pstep_refines cmp hto h hb hrb op (!refused)
    rw [Bool.not_not] at s1 r2
    obtain ⟨i1, T2, j1, j2, j3, j4⟩ := ih r1 r3 r4
    simp only [run, OrdMap.run]
    rw [r2] at i1 j2
    exact ⟨by rw [s1, i1], T2, j1, j2, j3, j4⟩

/-- from the constructor -/
theorem phistory_refines_new (cmp : Nat → Nat → Int) (hto : TotalOrder cmp) (ops : List (Op × Bool)) :
    (run cmp PTree.new ops).1 = (OrdMap.run cmp [] ops).1 ∧
    ∃ T', Represents (run cmp PTree.new ops).2 T' ∧ T'.erase.toList = (OrdMap.run cmp [] ops).2 ∧
      Tree.BST cmp T'.erase ∧ Tree.RB T'.erase :=
  phistory_refines cmp hto ops new_represents (by simp [ITree.erase, Tree.BST, Tree.toList, Sorted])
    (by simp [ITree.erase, Tree.RB, Tree.RBok, Tree.col])
end CC.PTree

namespace CC.PTree
open CC
open CC.Tree (Path Dir)

/-- the number of comparator calls of the pointer-level descent is the inductive model's count -/
theorem descentCount_rep (cmp : Nat → Nat → Int) (k : Nat) {h : Heap} {T : ITree} {p : Nat} (hr : Rep h T p)
    (f : Nat) (hf : T.height ≤ f) :
    descentCount cmp h k f T.rid = (Tree.find cmp k T.erase).2 := by
  induction T generalizing p f with
  | nil => cases f <;> simp [descentCount, Tree.find, ITree.erase, S]
  | node id c l key val r ihl ihr =>
    obtain ⟨h1, h2, h3, h4⟩ := hr
    cases f with
    | zero => simp [ITree.height] at hf
    | succ f =>
      simp only [ITree.height] at hf
      simp only [ITree.rid_node, descentCount, S, h1, if_false, h2, ITree.erase, Tree.find]
      by_cases hlt : cmp k key < 0
      · simp only [hlt, if_true]; rw [ihl h3 f (by omega)]
      · by_cases hgt : 0 < cmp k key
        · simp only [hlt, hgt, if_true, if_false]; rw [ihr h4 f (by omega)]
        · simp [hlt, hgt]

theorem ITree.size_erase (T : ITree) : T.erase.size = T.ids.length := by
  induction T with
  | nil => rfl
  | node id c l k v r ihl ihr => simp [ITree.erase, Tree.size, ihl, ihr]; omega

/-- the iterator's walk: `iter_next` until the sentinel, collecting the entries handed out -/
def iterWalk (st : PT) : Nat → PIter → List (Nat × Nat)
  | 0, _ => []
  | f + 1, it =>
    if it.next = S then []
    else ((st.heap.get it.next).key, (st.heap.get it.next).value) :: iterWalk st f (iterNext st it)

theorem iterWalk_eq (st : PT) (f : Nat) (it : PIter) : iterWalk st f it = walkLoop st f it.next := by
  induction f generalizing it with
  | zero => rfl
  | succ f ih =>
    simp only [iterWalk, walkLoop]
    split
    · rfl
    · rename_i hn
      rw [ih]; simp [iterNext, hn]

/-- **the iterator enumerates the table in order, every key once**: `iter_init`, then `iter_next` until
`CC_ITER_END` -/
theorem iterWalk_rep {st : PT} {T : ITree} (h : Represents st T) :
    iterWalk st (st.size + 1) (iterInit st) = T.erase.toList := by
  rw [iterWalk_eq]; exact inorder_rep h

/-- **C17 at the pointer level**: on a heap that represents a red-black tree of `n = size` keys the descent of
`get_tree_node_by_key` / `cc_treetable_add` visits — and compares at — at most `2·⌊log₂(n+1)⌋` nodes; `add` makes one
more call to choose the side of the new leaf: at most `2·⌊log₂(n+1)⌋ + 2` comparator calls per public call -/
theorem descent_comparisons (cmp : Nat → Nat → Int) {st : PT} {T : ITree} (h : Represents st T)
    (hrb : Tree.RB T.erase) (k : Nat) :
    descentCount cmp st.heap k (st.size + 1) st.root ≤ 2 * Nat.log2 (st.size + 1) ∧
    descentCount cmp st.heap k (st.size + 1) st.root + 1 ≤ 2 * Nat.log2 (st.size + 1) + 2 := by
  have hf : T.height ≤ st.size + 1 := by have := ITree.height_le_ids T; rw [h.size]; omega
  have e := descentCount_rep cmp k h.rep (st.size + 1) hf
  rw [← h.root] at e
  have b1 := Tree.find_cnt_le_height (cmp := cmp) k T.erase
  have b2 := Tree.height_le_log T.erase hrb
  rw [ITree.size_erase, ← h.size] at b2
  omega
end CC.PTree
