import CollectionsC.Model.Array
/-! Helper lemmas for the dynamic-array model: abstraction, growth, element-level mutators and
lookups.  Statements quantify over every state satisfying `Inv`, every index/value in `Nat` and
every growth function (`grow` is a field of the state and never constrained here). -/
namespace CC.Arr
open CC

/-- closes goals that are `True` or hold by reflexivity after `simp only` normalised them -/
macro "triv" : tactic => `(tactic| first | rfl | trivial)

/-! ### abstraction -/

@[simp] theorem abs_length (a : Arr) : a.abs.length = a.size := by simp [abs]

theorem abs_getElem (a : Arr) (i : Nat) (h : i < a.abs.length) : a.abs[i] = a.buf.get i := by
  simp [abs]

theorem abs_getD (a : Arr) (i : Nat) (h : i < a.size) : a.abs.getD i 0 = a.buf.get i := by
  have h' : i < a.abs.length := by simpa using h
  rw [List.getD_eq_getElem?_getD, List.getElem?_eq_getElem h', Option.getD_some, abs_getElem]

/-- two states with the same size whose live slots agree have the same abstraction -/
theorem abs_congr (a b : Arr) (hs : a.size = b.size) (h : ∀ i, i < a.size → a.buf.get i = b.buf.get i) :
    a.abs = b.abs := by
  apply List.ext_getElem
  · simp [hs]
  · intro i h1 h2
    rw [abs_getElem, abs_getElem]
    exact h i (by simpa using h1)

/-- a list is the abstraction of a state when length and slots agree -/
theorem abs_eq_iff (a : Arr) (xs : List Nat) (hl : xs.length = a.size)
    (h : ∀ i (hi : i < xs.length), xs[i] = a.buf.get i) : a.abs = xs := by
  apply List.ext_getElem
  · simp [hl]
  · intro i h1 h2
    rw [abs_getElem, h i h2]

theorem Inv.size_le_len {a : Arr} (h : a.Inv) : a.size ≤ a.buf.length := Nat.le_trans h.1 h.2.1

/-! ### Mem helpers -/

theorem check_of_true (m : Mem) (b : Bool) (h : b = true) : m.check b = m := by subst h; rfl

/-- the block counter that belongs to a triple -/
def own (t : Triple) (m : Mem) : Nat := match t with | .conf => m.live | .libc => m.liveLibc

/-- 1 for the configured triple, 0 for the C library: what one block adds to `Mem.live` -/
def cc (t : Triple) : Nat := match t with | .conf => 1 | .libc => 0

theorem allocT_cases (m : Mem) (t : Triple) :
    ((m.allocT t).1 = true ∧ (m.allocT t).2.live = m.live + cc t ∧ (m.allocT t).2.fault = m.fault) ∨
    ((m.allocT t).1 = false ∧ (m.allocT t).2.live = m.live ∧ (m.allocT t).2.fault = m.fault) := by
  cases t with
  | conf =>
    simp only [Mem.allocT_conf, cc]
    cases h : m.alloc.1
    · right; have := Mem.alloc_fst_false m h; simp [this]
    · left; have := Mem.alloc_fst_true m h; simp [this]
  | libc => left; simp [Mem.allocT, cc]

/-- a request through the C library is never refused -/
theorem allocT_libc_ok (m : Mem) : (m.allocT .libc).1 = true := rfl

theorem own_allocT_ok (m : Mem) (t : Triple) (h : (m.allocT t).1 = true) : own t (m.allocT t).2 = own t m + 1 := by
  cases t with
  | conf => exact (Mem.alloc_fst_true m h).1
  | libc => rfl

theorem own_allocT_refused (m : Mem) (t : Triple) (h : (m.allocT t).1 = false) : own t (m.allocT t).2 = own t m := by
  cases t with
  | conf => exact (Mem.alloc_fst_false m h).1
  | libc => simp [Mem.allocT] at h

theorem own_pos_of_allocT (m : Mem) (t : Triple) (h : (m.allocT t).1 = true) : 0 < own t (m.allocT t).2 := by
  rw [own_allocT_ok m t h]; omega

theorem own_check (t : Triple) (m : Mem) (b : Bool) : own t (m.check b) = own t m := by
  cases t <;> cases b <;> rfl

theorem freeT_live (m : Mem) (t : Triple) (h : 0 < own t m) :
    (m.freeT t).live = m.live - cc t ∧ (m.freeT t).fault = m.fault ∧ own t (m.freeT t) = own t m - 1 := by
  cases t with
  | conf =>
    simp only [own] at h
    have : ¬ m.live = 0 := by omega
    simp [Mem.free, this, cc, own]
  | libc =>
    simp only [own] at h
    have : ¬ m.liveLibc = 0 := by omega
    simp [Mem.freeT, this, cc, own]

theorem alloc_cases (m : Mem) :
    (m.alloc.1 = true ∧ m.alloc.2.live = m.live + 1 ∧ m.alloc.2.fault = m.fault) ∨
    (m.alloc.1 = false ∧ m.alloc.2.live = m.live ∧ m.alloc.2.fault = m.fault) := allocT_cases m .conf

theorem free_live (m : Mem) (h : 0 < m.live) : m.free.live = m.live - 1 ∧ m.free.fault = m.fault := by
  unfold Mem.free
  have : ¬ m.live = 0 := by omega
  simp [this]

/-! ### growth -/

/-- the repaired progress guarantee (A7): below the limit the requested capacity is strictly
larger, whatever the float product was -/
theorem newCapacity_gt (a : Arr) (h : a.capacity < Gen.CC_MAX_ELEMENTS) : a.capacity < a.newCapacity := by
  unfold newCapacity
  simp only
  split
  · split
    · omega
    · exact h
  · omega

/-- `expand_capacity` refuses to grow: the capacity is `CC_MAX_ELEMENTS`, or the byte size of the
requested buffer would wrap (A10) -/
def AtLimit (a : Arr) : Prop :=
  a.capacity = Gen.CC_MAX_ELEMENTS ∨ Gen.CC_MAX_ELEMENTS / 8 < a.newCapacity

instance (a : Arr) : Decidable a.AtLimit := by unfold AtLimit; infer_instance

theorem max8_lt : Gen.CC_MAX_ELEMENTS / 8 < Gen.CC_MAX_ELEMENTS := by decide

theorem expandCapacity_max (a : Arr) (m : Mem) (h : a.AtLimit) :
    a.expandCapacity m = (.errMaxCapacity, a, m) := by
  unfold expandCapacity
  rcases h with h | h
  · simp [h]
  · have : a.newCapacity > Gen.CC_MAX_ELEMENTS / 8 := h
    simp only [this, if_true]
    split <;> rfl

theorem expandCapacity_refused (a : Arr) (m : Mem) (h : ¬ a.AtLimit)
    (hr : (m.allocT a.triple).1 = false) : a.expandCapacity m = (.errAlloc, a, (m.allocT a.triple).2) := by
  have h1 : ¬ a.capacity = Gen.CC_MAX_ELEMENTS := fun e => h (Or.inl e)
  have h2 : ¬ a.newCapacity > Gen.CC_MAX_ELEMENTS / 8 := fun e => h (Or.inr e)
  simp [expandCapacity, h1, h2, hr]

theorem expandCapacity_success (a : Arr) (m : Mem) (h : ¬ a.AtLimit)
    (hr : (m.allocT a.triple).1 = true) :
    a.expandCapacity m =
      (.ok, { a with buf := (Buf.mk a.newCapacity : Buf Nat).memcpy 0 a.buf 0 a.size, capacity := a.newCapacity },
       ((m.allocT a.triple).2.check (decide (a.size ≤ a.buf.length) && decide (a.size ≤ a.newCapacity))).freeT a.triple) := by
  have h1 : ¬ a.capacity = Gen.CC_MAX_ELEMENTS := fun e => h (Or.inl e)
  have h2 : ¬ a.newCapacity > Gen.CC_MAX_ELEMENTS / 8 := fun e => h (Or.inr e)
  simp [expandCapacity, h1, h2, hr]

theorem expandCapacity_err (a : Arr) (m : Mem) (h : (a.expandCapacity m).1 ≠ .ok) :
    (a.expandCapacity m).2.1 = a ∧
    ((a.expandCapacity m).1 = .errMaxCapacity ∨ (a.expandCapacity m).1 = .errAlloc) ∧
    (a.expandCapacity m).2.2.live = m.live ∧ (a.expandCapacity m).2.2.fault = m.fault := by
  by_cases hmax : a.AtLimit
  · simp [expandCapacity_max a m hmax]
  · rcases allocT_cases m a.triple with ⟨h1, h2, h3⟩ | ⟨h1, h2, h3⟩
    · rw [expandCapacity_success a m hmax h1] at h; simp at h
    · simp [expandCapacity_refused a m hmax h1, h2, h3]

/-- a successful expansion: content and size unchanged, capacity strictly larger (C20) and still
within the byte-size limit (A10), the new block has exactly the new capacity, ledger balanced (one
block acquired, one released) -/
theorem expandCapacity_ok (a : Arr) (m : Mem) (hinv : a.Inv)
    (h : (a.expandCapacity m).1 = .ok) :
    (a.expandCapacity m).2.1.abs = a.abs ∧ (a.expandCapacity m).2.1.size = a.size ∧
    (a.expandCapacity m).2.1.grow = a.grow ∧ (a.expandCapacity m).2.1.capacity = a.newCapacity ∧
    (a.expandCapacity m).2.1.buf.length = a.newCapacity ∧ a.capacity < a.newCapacity ∧
    a.newCapacity ≤ Gen.CC_MAX_ELEMENTS / 8 ∧ (m.allocT a.triple).1 = true ∧
    (a.expandCapacity m).2.2.live = m.live ∧ (a.expandCapacity m).2.2.fault = m.fault := by
  obtain ⟨h1, h2, h3, h4⟩ := hinv
  by_cases hmax : a.AtLimit
  · simp [expandCapacity_max a m hmax] at h
  · rcases allocT_cases m a.triple with ⟨g1, g2, g3⟩ | ⟨g1, g2, g3⟩
    · have hgt := newCapacity_gt a (by have := max8_lt; omega)
      have hle : a.newCapacity ≤ Gen.CC_MAX_ELEMENTS / 8 := Nat.le_of_not_lt (fun e => hmax (Or.inr e))
      have hc : (decide (a.size ≤ a.buf.length) && decide (a.size ≤ a.newCapacity)) = true := by
        simp; omega
      rw [expandCapacity_success a m hmax g1, hc]
      have hf := freeT_live (m.allocT a.triple).2 a.triple (own_pos_of_allocT m a.triple g1)
      refine ⟨?_, rfl, rfl, rfl, by simp, hgt, hle, g1, by simp only [Mem.check_true]; rw [hf.1, g2]; omega,
        by simp only [Mem.check_true]; rw [hf.2.1, g3]⟩
      refine abs_congr _ a rfl ?_
      intro i hi
      simp only at hi ⊢
      rw [Buf.get_memcpy _ _ _ _ _ _ (by simp; omega)]
      simp [hi]
    · simp [expandCapacity_refused a m hmax g1] at h

/-! ### add -/

theorem store_eq (a : Arr) (x : Nat) (m : Mem) (h : a.size < a.buf.length) :
    a.store x m = (.ok, { a with buf := a.buf.put a.size x, size := a.size + 1 }, m) := by
  simp [store, h]

theorem store_abs (a : Arr) (x : Nat) (m : Mem) (h : a.size < a.buf.length) :
    (a.store x m).2.1.abs = a.abs ++ [x] := by
  rw [store_eq a x m h]
  apply abs_eq_iff
  · simp
  · intro i hi
    simp only [List.length_append, abs_length, List.length_singleton] at hi
    rw [List.getElem_append]
    split
    · rename_i hlt
      simp only [abs_length] at hlt
      rw [abs_getElem, Buf.get_put_ne _ _ _ _ (by omega)]
    · rename_i hge
      simp only [abs_length] at hge
      have : i = a.size := by omega
      subst this
      simp [Buf.get_put_eq _ _ _ h]

theorem add_room (a : Arr) (x : Nat) (m : Mem) (h : a.size < a.capacity) : a.add x m = a.store x m := by
  have : ¬ a.size ≥ a.capacity := by omega
  simp [add, this]

theorem add_full (a : Arr) (x : Nat) (m : Mem) (h : a.capacity ≤ a.size) :
    a.add x m = if (a.expandCapacity m).1 != .ok then a.expandCapacity m
                else (a.expandCapacity m).2.1.store x (a.expandCapacity m).2.2 := by
  have : a.size ≥ a.capacity := h
  simp [add, this]

/-- what a successful growing call (`add`, `add_at`, `iter_add`) guarantees about the physical
state besides the content: one more element, the slots fit, the block fits, the capacity is kept
or — only when the array was exactly full — replaced by the strictly larger `newCapacity`
(C20) whose byte size does not wrap (A10), and the configuration is kept -/
def GrowFrame (a a' : Arr) (m : Mem) : Prop :=
  a'.size = a.size + 1 ∧ a'.size ≤ a'.capacity ∧ a'.capacity ≤ a'.buf.length ∧
  (a'.capacity = a.capacity ∨
    (a.size = a.capacity ∧ a'.capacity = a.newCapacity ∧ a.capacity < a.newCapacity ∧ (m.allocT a.triple).1 = true ∧
      a.newCapacity ≤ Gen.CC_MAX_ELEMENTS / 8)) ∧
  a'.grow = a.grow

/-- a growing call can only be blocked on an exactly full array, by a refusing allocator
(`CC_ERR_ALLOC`) or at the capacity limit (`CC_ERR_MAX_CAPACITY`, `AtLimit`) -/
def Blocked (st : Stat) (a : Arr) (m : Mem) : Prop :=
  (st = .errAlloc ∧ (m.allocT a.triple).1 = false ∨ st = .errMaxCapacity ∧ a.AtLimit) ∧
  a.size = a.capacity

/-- the invariant survives every successful growing call, for every growth function -/
theorem GrowFrame.inv {a a' : Arr} {m : Mem} (h : a.Inv) (g : GrowFrame a a' m) : a'.Inv := by
  obtain ⟨h1, h2, h3, h4⟩ := h
  obtain ⟨g1, g2, g3, g4, g5⟩ := g
  refine ⟨g2, g3, ?_, ?_⟩ <;> rcases g4 with g4 | ⟨_, g4, g6, _, g7⟩ <;> omega

theorem GrowFrame.capacity_le {a a' : Arr} {m : Mem} (g : GrowFrame a a' m) : a.capacity ≤ a'.capacity := by
  obtain ⟨g1, g2, g3, g4, g5⟩ := g
  rcases g4 with g4 | ⟨_, g4, g6, _⟩ <;> omega

/-- everything about `cc_array_add` in one statement: either the call appended (`CC_OK`, the
content is the old content followed by `x`, `GrowFrame`), or it was blocked by the allocator / the
capacity limit and the *whole state* is unchanged; the ledger is balanced and nothing faulted -/
theorem add_spec (a : Arr) (x : Nat) (m : Mem) (hinv : a.Inv) :
    (((a.add x m).1 = .ok ∧ (a.add x m).2.1.abs = a.abs ++ [x] ∧ GrowFrame a (a.add x m).2.1 m) ∨
     (Blocked (a.add x m).1 a m ∧ (a.add x m).2.1 = a)) ∧
    (a.add x m).2.2.live = m.live ∧ (a.add x m).2.2.fault = m.fault := by
  have hinv' := hinv
  obtain ⟨h1, h2, h3, h4⟩ := hinv
  by_cases hroom : a.size < a.capacity
  · rw [add_room a x m hroom]
    have hl : a.size < a.buf.length := by omega
    refine ⟨Or.inl ⟨by rw [store_eq a x m hl], store_abs a x m hl, ?_⟩, by rw [store_eq a x m hl], by rw [store_eq a x m hl]⟩
    rw [store_eq a x m hl]
    simp [GrowFrame]
    omega
  · have hfull : a.capacity ≤ a.size := by omega
    rw [add_full a x m hfull]
    by_cases hok : (a.expandCapacity m).1 = .ok
    · obtain ⟨e1, e2, e3, e4, e5, e6, e7, e8, e9, e10⟩ := expandCapacity_ok a m hinv' hok
      have hl : (a.expandCapacity m).2.1.size < (a.expandCapacity m).2.1.buf.length := by omega
      simp only [hok, bne_self_eq_false, Bool.false_eq_true, if_false]
      refine ⟨Or.inl ⟨by rw [store_eq _ x _ hl], by rw [store_abs _ x _ hl, e1], ?_⟩,
        by rw [store_eq _ x _ hl]; exact e9, by rw [store_eq _ x _ hl]; exact e10⟩
      rw [store_eq _ x _ hl]
      simp only [GrowFrame, Buf.length_put]
      refine ⟨by omega, by omega, by omega, Or.inr ⟨by omega, e4, e6, e8, e7⟩, e3⟩
    · obtain ⟨e1, e2, e3, e4⟩ := expandCapacity_err a m hok
      have hne : ((a.expandCapacity m).1 != .ok) = true := by simpa using hok
      simp only [hne, if_true]
      refine ⟨Or.inr ⟨⟨?_, by omega⟩, e1⟩, e3, e4⟩
      by_cases hmax : a.AtLimit
      · right; exact ⟨by rw [expandCapacity_max a m hmax], hmax⟩
      · left
        rcases allocT_cases m a.triple with ⟨g1, _, _⟩ | ⟨g1, _, _⟩
        · rw [expandCapacity_success a m hmax g1] at hok; simp at hok
        · exact ⟨by rw [expandCapacity_refused a m hmax g1], g1⟩

/-! ### add_at -/

theorem insertShift_eq (a : Arr) (x i : Nat) (m : Mem) (h : a.size + 1 ≤ a.buf.length) (hi : i ≤ a.size) :
    a.insertShift x i m =
      (.ok, { a with buf := (a.buf.memmove (i + 1) i (a.size - i)).put i x, size := a.size + 1 }, m) := by
  have h1 : decide (a.size + 1 ≤ a.buf.length) = true := by simpa using h
  have h2 : decide (i < a.buf.length) = true := by simp; omega
  simp [insertShift, h1, h2]

theorem insertShift_abs (a : Arr) (x i : Nat) (m : Mem) (h : a.size + 1 ≤ a.buf.length) (hi : i ≤ a.size) :
    (a.insertShift x i m).2.1.abs = a.abs.insertIdx i x := by
  rw [insertShift_eq a x i m h hi]
  apply abs_eq_iff
  · simp [List.length_insertIdx, hi]
  · intro j hj
    simp only [List.length_insertIdx, abs_length, hi, if_true] at hj
    rw [List.getElem_insertIdx]
    rw [Buf.get_put, Buf.get_memmove _ _ _ _ _ (by omega)]
    simp only [Buf.length_memmove]
    by_cases h1 : j < i
    · have : ¬ (i = j ∧ i < a.buf.length) := by omega
      have h3 : ¬ (i + 1 ≤ j ∧ j < i + 1 + (a.size - i)) := by omega
      simp only [h1, dif_pos, this, if_false, h3, abs_getElem]
    · by_cases h2 : j = i
      · subst h2
        have : (j = j ∧ j < a.buf.length) := ⟨rfl, by omega⟩
        simp [this]
      · have : ¬ (i = j ∧ i < a.buf.length) := by omega
        have h3 : (i + 1 ≤ j ∧ j < i + 1 + (a.size - i)) := by omega
        simp only [h1, dif_neg, h2, this, if_false, h3, abs_getElem, not_false_eq_true]
        congr 1
        omega

theorem addAt_end (a : Arr) (x : Nat) (m : Mem) : a.addAt x a.size m = a.add x m := by simp [addAt]

theorem addAt_range (a : Arr) (x i : Nat) (m : Mem) (h : a.size < i) :
    a.addAt x i m = (.errOutOfRange, a, m) := by
  have h1 : ¬ i = a.size := by omega
  unfold addAt Spec.Seq.wdec
  simp only [h1, if_false]
  by_cases h0 : a.size = 0
  · have : i ≠ 0 := by omega
    simp [h0, this]
  · have : i > a.size - 1 := by omega
    simp [h0, this]

theorem addAt_mid (a : Arr) (x i : Nat) (m : Mem) (h : i < a.size) :
    a.addAt x i m =
      if a.size ≥ a.capacity then
        (if (a.expandCapacity m).1 != .ok then a.expandCapacity m
         else (a.expandCapacity m).2.1.insertShift x i (a.expandCapacity m).2.2)
      else a.insertShift x i m := by
  have h1 : ¬ i = a.size := by omega
  have h0 : ¬ a.size = 0 := by omega
  have h2 : ¬ i > a.size - 1 := by omega
  unfold addAt Spec.Seq.wdec
  simp [h1, h0, h2]

/-- everything about `cc_array_add_at`, for every index: positions `[0,size]` insert (or are
blocked with the state untouched), every other index is rejected with the state untouched -/
theorem addAt_spec (a : Arr) (x i : Nat) (m : Mem) (hinv : a.Inv) :
    ((i ≤ a.size ∧
      (((a.addAt x i m).1 = .ok ∧ (a.addAt x i m).2.1.abs = a.abs.insertIdx i x ∧
          GrowFrame a (a.addAt x i m).2.1 m) ∨
       (Blocked (a.addAt x i m).1 a m ∧ (a.addAt x i m).2.1 = a))) ∨
     (a.size < i ∧ a.addAt x i m = (.errOutOfRange, a, m))) ∧
    (a.addAt x i m).2.2.live = m.live ∧ (a.addAt x i m).2.2.fault = m.fault := by
  have hinv' := hinv
  obtain ⟨h1, h2, h3, h4⟩ := hinv
  by_cases hgt : a.size < i
  · rw [addAt_range a x i m hgt]
    exact ⟨Or.inr ⟨hgt, rfl⟩, rfl, rfl⟩
  · by_cases heq : i = a.size
    · subst heq
      rw [addAt_end]
      have := add_spec a x m hinv'
      have e : a.abs.insertIdx a.size x = a.abs ++ [x] := by
        have := @List.insertIdx_length_self _ a.abs x
        rwa [abs_length] at this
      rw [e]
      exact ⟨Or.inl ⟨Nat.le_refl _, this.1⟩, this.2⟩
    · have hlt : i < a.size := by omega
      rw [addAt_mid a x i m hlt]
      by_cases hroom : a.size < a.capacity
      · have : ¬ a.size ≥ a.capacity := by omega
        simp only [this, if_false]
        have hl : a.size + 1 ≤ a.buf.length := by omega
        refine ⟨Or.inl ⟨by omega, Or.inl ⟨by rw [insertShift_eq a x i m hl (by omega)],
          insertShift_abs a x i m hl (by omega), ?_⟩⟩, by rw [insertShift_eq a x i m hl (by omega)],
          by rw [insertShift_eq a x i m hl (by omega)]⟩
        rw [insertShift_eq a x i m hl (by omega)]
        simp [GrowFrame]
        omega
      · have hfull : a.size ≥ a.capacity := by omega
        simp only [hfull, if_true]
        by_cases hok : (a.expandCapacity m).1 = .ok
        · obtain ⟨e1, e2, e3, e4, e5, e6, e7, e8, e9, e10⟩ := expandCapacity_ok a m hinv' hok
          have hl : (a.expandCapacity m).2.1.size + 1 ≤ (a.expandCapacity m).2.1.buf.length := by omega
          have hi' : i ≤ (a.expandCapacity m).2.1.size := by omega
          simp only [hok, bne_self_eq_false, Bool.false_eq_true, if_false]
          refine ⟨Or.inl ⟨by omega, Or.inl ⟨by rw [insertShift_eq _ x i _ hl hi'],
            by rw [insertShift_abs _ x i _ hl hi', e1], ?_⟩⟩,
            by rw [insertShift_eq _ x i _ hl hi']; exact e9, by rw [insertShift_eq _ x i _ hl hi']; exact e10⟩
          rw [insertShift_eq _ x i _ hl hi']
          simp only [GrowFrame, Buf.length_put, Buf.length_memmove]
          refine ⟨by omega, by omega, by omega, Or.inr ⟨by omega, e4, e6, e8, e7⟩, e3⟩
        · obtain ⟨e1, e2, e3, e4⟩ := expandCapacity_err a m hok
          have hne : ((a.expandCapacity m).1 != .ok) = true := by simpa using hok
          simp only [hne, if_true]
          refine ⟨Or.inl ⟨by omega, Or.inr ⟨⟨?_, by omega⟩, e1⟩⟩, e3, e4⟩
          by_cases hmax : a.AtLimit
          · right; exact ⟨by rw [expandCapacity_max a m hmax], hmax⟩
          · left
            rcases allocT_cases m a.triple with ⟨g1, _, _⟩ | ⟨g1, _, _⟩
            · rw [expandCapacity_success a m hmax g1] at hok; simp at hok
            · exact ⟨by rw [expandCapacity_refused a m hmax g1], g1⟩

/-! ### operations that never allocate -/

/-- frame of the non-growing mutators: capacity, block and configuration untouched -/
def Kept (a a' : Arr) : Prop :=
  a'.capacity = a.capacity ∧ a'.buf.length = a.buf.length ∧ a'.grow = a.grow

theorem Kept.inv {a a' : Arr} (h : a.Inv) (k : Kept a a') (hs : a'.size ≤ a.size) : a'.Inv := by
  obtain ⟨h1, h2, h3, h4⟩ := h
  obtain ⟨k1, k2, k3⟩ := k
  exact ⟨by omega, by omega, by omega, by omega⟩

theorem Kept.refl (a : Arr) : Kept a a := ⟨rfl, rfl, rfl⟩

/-- `cc_array_replace_at` for every index -/
theorem replaceAt_spec (a : Arr) (x i : Nat) (m : Mem) (hinv : a.Inv) :
    (a.replaceAt x i m).1 = (Spec.Seq.replaceAt a.abs x i).1 ∧
    (a.replaceAt x i m).2.1 = (Spec.Seq.replaceAt a.abs x i).2.1 ∧
    (a.replaceAt x i m).2.2.1.abs = (Spec.Seq.replaceAt a.abs x i).2.2 ∧
    (a.replaceAt x i m).2.2.1.size = a.size ∧ Kept a (a.replaceAt x i m).2.2.1 ∧
    (a.replaceAt x i m).2.2.2 = m ∧
    ((a.replaceAt x i m).1 ≠ .ok → (a.replaceAt x i m).2.2.1 = a) ∧
    ((a.replaceAt x i m).1 = .ok ↔ i < a.size) := by
  obtain ⟨h1, h2, h3, h4⟩ := hinv
  unfold replaceAt Spec.Seq.replaceAt
  by_cases hi : i < a.size
  · have h5 : ¬ i ≥ a.size := by omega
    have h6 : decide (i < a.buf.length) = true := by simp; omega
    simp only [h5, if_false, abs_length, hi, if_true, h6, Mem.check_true, abs_getD a i hi]
    refine ⟨by trivial, by trivial, ?_, by trivial, ⟨rfl, by simp, rfl⟩, by trivial, by simp, by simp⟩
    apply abs_eq_iff
    · simp
    · intro j hj
      simp only [List.length_set, abs_length] at hj
      rw [List.getElem_set, Buf.get_put]
      by_cases hij : i = j
      · subst hij; simp; omega
      · simp [hij, abs_getElem]
  · have h5 : i ≥ a.size := by omega
    simp [h5, hi, Kept.refl]

/-- `cc_array_swap_at` for every pair of indices -/
theorem swapAt_spec (a : Arr) (i j : Nat) (m : Mem) (hinv : a.Inv) :
    (a.swapAt i j m).1 = (Spec.Seq.swapAt a.abs i j).1 ∧
    (a.swapAt i j m).2.1.abs = (Spec.Seq.swapAt a.abs i j).2 ∧
    (a.swapAt i j m).2.1.size = a.size ∧ Kept a (a.swapAt i j m).2.1 ∧
    (a.swapAt i j m).2.2 = m ∧
    ((a.swapAt i j m).1 ≠ .ok → (a.swapAt i j m).2.1 = a) ∧
    ((a.swapAt i j m).1 = .ok ↔ i < a.size ∧ j < a.size) := by
  obtain ⟨h1, h2, h3, h4⟩ := hinv
  unfold swapAt Spec.Seq.swapAt
  by_cases hij : i < a.size ∧ j < a.size
  · obtain ⟨hi, hj⟩ := hij
    have h5 : (decide (i ≥ a.size) || decide (j ≥ a.size)) = false := by simp; omega
    have h6 : (decide (i < a.buf.length) && decide (j < a.buf.length)) = true := by simp; omega
    simp only [h5, Bool.false_eq_true, if_false, abs_length, hi, hj, and_self, if_true, h6, Mem.check_true,
      abs_getD a i hi, abs_getD a j hj]
    refine ⟨by trivial, ?_, by trivial, ⟨rfl, by simp, rfl⟩, by trivial, by simp, by simp⟩
    apply abs_eq_iff
    · simp
    · intro t ht
      simp only [List.length_set, abs_length] at ht
      rw [List.getElem_set, List.getElem_set, Buf.get_put, Buf.get_put]
      simp only [Buf.length_put, abs_getElem]
      by_cases h7 : j = t
      · subst h7
        have : j < a.buf.length := by omega
        simp [this]
      · by_cases h8 : i = t
        · subst h8
          have : i < a.buf.length := by omega
          simp [h7, this]
        · simp [h7, h8]
  · have h5 : (decide (i ≥ a.size) || decide (j ≥ a.size)) = true := by simp; omega
    simp [h5, hij, Kept.refl]

end CC.Arr
