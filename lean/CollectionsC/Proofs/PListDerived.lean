import CollectionsC.Proofs.PListBulk
import CollectionsC.Proofs.DListDerived
/-! Pointer-level model of `cc_list.c`, part 7: the derived-list builders (`sublist`, `copy_shallow/deep`, `filter`): a fresh
header and fresh nodes appended by `add`, the source read along `next` and left alone. -/
namespace CC.PList
open CC
open CC.DList (selMap)

theorem errAlloc_bne : (Stat.errAlloc != Stat.ok) = true := by decide

/-- what a finished builder loop leaves behind: `ok` — the result list is represented by its old cells followed by fresh nodes
`nc` carrying the selected elements, the source is untouched; refused — the partial result is gone, the source untouched -/
structure Built (s s' : St) (ls d : Hdr) (d' : Option Hdr) (scs dcs : List Cell) (add : List Nat) (ok : Bool) : Prop where
  src : Repr s'.heap ls scs
  mono : s.fresh ≤ s'.fresh
  frame : ∀ b, b ∉ idsOf dcs → b < s.fresh → s'.heap b = s.heap b
  res : if ok then ∃ nc dd, d' = some dd ∧ Repr s'.heap dd (dcs ++ nc) ∧ dataOf nc = add ∧ dd.triple = d.triple ∧
          (∀ y, y ∈ idsOf nc → s.fresh ≤ y ∧ y < s'.fresh)
        else d' = none

theorem Repr.frame' {h h' : Heap} {l : Hdr} {cs : List Cell} (r : Repr h l cs) (hf : ∀ b, b ∈ idsOf cs → h' b = h b) : Repr h' l cs :=
  ⟨r.nodup, Seg_frame hf r.seg, r.size, r.head, r.tail⟩

/-- **the filling loop of the builders** standing at the first node of `rest` in the source (`pre ++ rest`), with the result
list `d` holding `dcs` so far -/
theorem buildLoop_spec (sel : Nat → Option Nat) : ∀ (k : Nat) (rest pre : List Cell) (s : St) (ls d : Hdr) (dcs : List Cell) (m : Mem),
    Repr2 s.heap ls d (pre ++ rest) dcs → (∀ y, y ∈ idsOf (pre ++ rest) → y < s.fresh) → (∀ y, y ∈ idsOf dcs → y < s.fresh) →
    (buildLoop sel k s (nxt rest none) d m).2.2.2 =
      (DList.Mem.buildChain d.triple (selMap sel (dataOf (rest.take k))).length dcs.length m).2 ∧
    (buildLoop sel k s (nxt rest none) d m).1 =
      (if (DList.Mem.buildChain d.triple (selMap sel (dataOf (rest.take k))).length dcs.length m).1 then .ok else .errAlloc) ∧
    Built s (buildLoop sel k s (nxt rest none) d m).2.1 ls d (buildLoop sel k s (nxt rest none) d m).2.2.1 (pre ++ rest) dcs
      (selMap sel (dataOf (rest.take k))) (DList.Mem.buildChain d.triple (selMap sel (dataOf (rest.take k))).length dcs.length m).1
  | 0, rest, pre, s, ls, d, dcs, m, r, _, _ => by
    simp only [buildLoop, List.take_zero, dataOf_nil, selMap, List.filterMap_nil, List.length_nil, DList.Mem.buildChain, if_true]
    exact ⟨trivial, trivial, r.r1, Nat.le_refl _, fun _ _ _ => rfl, [], d, rfl, by simpa using r.r2, rfl, rfl, by simp⟩
  | k + 1, [], pre, s, ls, d, dcs, m, r, _, _ => by
    simp only [nxt_nil, buildLoop, List.take_nil, dataOf_nil, selMap, List.filterMap_nil, List.length_nil, DList.Mem.buildChain, if_true]
    exact ⟨trivial, trivial, r.r1, Nat.le_refl _, fun _ _ _ => rfl, [], d, rfl, by simpa using r.r2, rfl, rfl, by simp⟩
  | k + 1, a :: rest, pre, s, ls, d, dcs, m, r, hbs, hbd => by
    obtain ⟨_, ha, _⟩ := Seg_split r.r1.seg
    have r' : Repr2 s.heap ls d ((pre ++ [a]) ++ rest) dcs := by simpa using r
    have hbs' : ∀ y, y ∈ idsOf ((pre ++ [a]) ++ rest) → y < s.fresh := by simpa using hbs
    have e0 : pre ++ a :: rest = (pre ++ [a]) ++ rest := by simp
    simp only [nxt_cons, buildLoop, nd_of ha, List.take_succ_cons, dataOf_cons, selMap, List.filterMap_cons]
    have hcase : sel a.2 = none ∨ ∃ y, sel a.2 = some y := by cases sel a.2 <;> simp
    rcases hcase with hsel | ⟨y, hsel⟩
    · simp only [hsel]
      have ih := buildLoop_spec sel k rest (pre ++ [a]) s ls d dcs m r' hbs' hbd
      simp only [selMap] at ih
      rw [e0]; exact ih
    · simp only [hsel, List.length_cons, DList.Mem.buildChain]
      obtain ⟨ar, ag⟩ := addLast_spec s d dcs y m r.r2 hbd
      by_cases hal : (m.allocT d.triple).1 = true
      · obtain ⟨g1, g2, gk⟩ := ag hal
        have hbne : ((addLast s d y m).1 != Stat.ok) = false := by rw [g1]; decide
        simp only [hbne, Bool.false_eq_true, if_false, hal, Bool.not_true]
        -- the source after the `add`
        have hsrc : ∀ b, b ∈ idsOf (pre ++ a :: rest) → (addLast s d y m).2.1.heap b = s.heap b :=
          fun b hb => gk.frame b (fun hm => r.disj b hb hm) (hbs b hb)
        have hanext : (nd (addLast s d y m).2.1.heap a.1).next = nxt rest none := by
          have : (addLast s d y m).2.1.heap a.1 = s.heap a.1 := hsrc a.1 (by simp)
          rw [nd_of (this.trans ha)]
        rw [hanext, g2]
        have r2' : Repr2 (addLast s d y m).2.1.heap ls (addLast s d y m).2.2.1 ((pre ++ [a]) ++ rest) (dcs ++ [(s.fresh, y)]) := by
          refine ⟨by rw [← e0]; exact r.r1.frame' hsrc, gk.repr, fun x hx hx2 => ?_⟩
          rw [← e0] at hx
          simp only [idsOf_append, idsOf_cons, idsOf_nil, List.mem_append, List.mem_singleton] at hx2
          rcases hx2 with hx2 | hx2
          · exact r.disj x hx hx2
          · exact Nat.lt_irrefl _ (hx2 ▸ hbs x hx)
        have ih := buildLoop_spec sel k rest (pre ++ [a]) (addLast s d y m).2.1 ls (addLast s d y m).2.2.1 (dcs ++ [(s.fresh, y)])
          (m.allocT d.triple).2 r2' (fun z hz => Nat.lt_of_lt_of_le (hbs' z hz) gk.mono) gk.bound
        simp only [selMap, gk.triple, List.length_append, List.length_cons, List.length_nil] at ih
        obtain ⟨i1, i2, ib⟩ := ih
        refine ⟨i1, i2, by rw [e0]; exact ib.src, Nat.le_trans gk.mono ib.mono, fun b hb1 hb2 => ?_, ?_⟩
        · rw [ib.frame b (fun hm => by
            simp only [idsOf_append, idsOf_cons, idsOf_nil, List.mem_append, List.mem_singleton] at hm
            rcases hm with hm | hm
            · exact hb1 hm
            · exact Nat.lt_irrefl _ (hm ▸ hb2)) (Nat.lt_of_lt_of_le hb2 gk.mono)]
          exact gk.frame b hb1 hb2
        · have hres := ib.res
          split at hres
          · rename_i hok
            rw [if_pos hok]
            obtain ⟨nc, dd, e1, e2, e3, e4, e5⟩ := hres
            refine ⟨(s.fresh, y) :: nc, dd, e1, by simpa using e2, by simp [e3], e4.trans gk.triple, fun z hz => ?_⟩
            simp only [idsOf_cons, List.mem_cons] at hz
            rcases hz with hz | hz
            · subst hz
              have := gk.bound s.fresh (by simp)
              exact ⟨Nat.le_refl _, Nat.lt_of_lt_of_le this ib.mono⟩
            · exact ⟨Nat.le_trans gk.mono (e5 z hz).1, (e5 z hz).2⟩
          · rename_i hok
            rw [if_neg hok]; exact hres
      · have hal' : (m.allocT d.triple).1 = false := by simpa using hal
        rw [ar hal']
        simp only [errAlloc_bne, if_true, hal', Bool.not_false, Bool.false_eq_true, if_false]
        obtain ⟨_, d2, d3, d4, _⟩ := destroy_spec s d dcs (m.allocT d.triple).2 r.r2 hbd
        refine ⟨d2, trivial, r.r1.frame' (fun b hb => d4 b (fun hm => r.disj b hb hm) (hbs b hb)), by rw [d3]; exact Nat.le_refl _, d4, ?_⟩
        simp

theorem repr_empty (h : Heap) (t : Triple) : Repr h { triple := t } [] := ⟨by simp [idsOf], trivial, rfl, rfl, rfl⟩

/-- the filling loop started on a fresh header (the allocation of the header granted) -/
theorem build_from_new (sel : Nat → Option Nat) (k : Nat) (rest pre : List Cell) (s : St) (l : Hdr) (m : Mem)
    (r : Repr s.heap l (pre ++ rest)) (hb : ∀ y, y ∈ idsOf (pre ++ rest) → y < s.fresh) :
    (buildLoop sel k s (nxt rest none) { triple := l.triple } m).2.2.2 =
      (DList.Mem.buildChain l.triple (selMap sel (dataOf (rest.take k))).length 0 m).2 ∧
    (buildLoop sel k s (nxt rest none) { triple := l.triple } m).1 =
      (if (DList.Mem.buildChain l.triple (selMap sel (dataOf (rest.take k))).length 0 m).1 then .ok else .errAlloc) ∧
    Built s (buildLoop sel k s (nxt rest none) { triple := l.triple } m).2.1 l { triple := l.triple }
      (buildLoop sel k s (nxt rest none) { triple := l.triple } m).2.2.1 (pre ++ rest) []
      (selMap sel (dataOf (rest.take k))) (DList.Mem.buildChain l.triple (selMap sel (dataOf (rest.take k))).length 0 m).1 :=
  buildLoop_spec sel k rest pre s l { triple := l.triple } [] m ⟨r, repr_empty _ _, fun _ _ hx => by simp [idsOf] at hx⟩ hb
    (fun _ hy => by simp [idsOf] at hy)

/-- outcome of a builder at the level of the links, relative to the sequence-level outcome `c`: same status and ledger; the
source is represented as before; a result exists exactly when the sequence-level one does, it is represented by fresh nodes
only (none shared with the source) and carries the sequence-level content on the source's allocator triple -/
structure BuilderOk (s : St) (l : Hdr) (cs : List Cell) (q : Stat × St × Option Hdr × Mem) (c : Stat × Option Chain × Mem) : Prop where
  st : q.1 = c.1
  mem : q.2.2.2 = c.2.2
  src : Repr q.2.1.heap l cs
  mono : s.fresh ≤ q.2.1.fresh
  frame : ∀ b, b < s.fresh → q.2.1.heap b = s.heap b
  none : q.2.2.1 = none ↔ c.2.1 = none
  res : ∀ dd, q.2.2.1 = some dd → ∃ nc, Repr q.2.1.heap dd nc ∧ c.2.1 = some (Chain.ofList l.triple (dataOf nc)) ∧
          dd.triple = l.triple ∧ (∀ y, y ∈ idsOf nc → s.fresh ≤ y ∧ y < q.2.1.fresh)

theorem builderOk_of_loop (sel : Nat → Option Nat) (k : Nat) (rest pre : List Cell) (s : St) (l : Hdr) (m : Mem)
    (r : Repr s.heap l (pre ++ rest)) (hb : ∀ y, y ∈ idsOf (pre ++ rest) → y < s.fresh) (add : List Nat)
    (hadd : selMap sel (dataOf (rest.take k)) = add) (ha : (m.allocT l.triple).1 = true) :
    BuilderOk s l (pre ++ rest) (buildLoop sel k s (nxt rest none) { triple := l.triple } (m.allocT l.triple).2)
      (DList.builderResult l.triple add m) := by
  obtain ⟨b1, b2, bb⟩ := build_from_new sel k rest pre s l (m.allocT l.triple).2 r hb
  rw [hadd] at b1 b2 bb
  unfold DList.builderResult
  simp only [ha, Bool.not_true, Bool.false_eq_true, if_false]
  have hres := bb.res
  by_cases hok : (DList.Mem.buildChain l.triple add.length 0 (m.allocT l.triple).2).1 = true
  · rw [if_pos hok] at hres b2 ⊢
    obtain ⟨nc, dd, e1, e2, e3, e4, e5⟩ := hres
    refine ⟨b2, b1, bb.src, bb.mono, fun b hb' => bb.frame b (by simp [idsOf]) hb', by rw [e1]; simp, fun d' hd => ?_⟩
    rw [e1] at hd; cases hd
    exact ⟨nc, by simpa using e2, by rw [e3], e4, e5⟩
  · rw [if_neg hok] at hres b2 ⊢
    exact ⟨b2, b1, bb.src, bb.mono, fun b hb' => bb.frame b (by simp [idsOf]) hb', by rw [hres]; simp,
      fun d' hd => by rw [hres] at hd; cases hd⟩

theorem builderOk_refused (s : St) (l : Hdr) (cs : List Cell) (m : Mem) (add : List Nat) (r : Repr s.heap l cs)
    (ha : (m.allocT l.triple).1 = false) :
    BuilderOk s l cs (.errAlloc, s, none, (m.allocT l.triple).2) (DList.builderResult l.triple add m) := by
  unfold DList.builderResult
  simp only [ha, Bool.not_false, if_true]
  exact ⟨rfl, rfl, r, Nat.le_refl _, fun _ _ => rfl, by simp, fun _ hd => by cases hd⟩

theorem selMap_some (xs : List Nat) : selMap some xs = xs := by simp [selMap]

/-- **`cc_list_copy_shallow` / `cc_list_copy_deep` on the raw links** -/
theorem copy_spec (cp : Nat → Nat) (s : St) (l : Hdr) (cs : List Cell) (m : Mem) (r : Repr s.heap l cs)
    (hb : ∀ y, y ∈ idsOf cs → y < s.fresh) :
    BuilderOk s l cs (copy cp s l m) (DList.copy cp (Chain.ofList l.triple (dataOf cs)) m) := by
  rw [DList.copy_ofList]
  unfold copy new
  by_cases ha : (m.allocT l.triple).1 = true
  · simp only [ha, Bool.not_true, Bool.false_eq_true, if_false]
    rw [r.size, r.head]
    have := builderOk_of_loop (fun v => some (cp v)) cs.length cs [] s l m (by simpa using r) (by simpa using hb)
      (Spec.LSeq.copyDeep cp (dataOf cs)) (by simp [selMap, Spec.LSeq.copyDeep, List.filterMap_eq_map']) ha
    simpa using this
  · have ha' : (m.allocT l.triple).1 = false := by simpa using ha
    simp only [ha', Bool.not_false, if_true]
    exact builderOk_refused s l cs m _ r ha'

theorem selMap_filter (p : Nat → Bool) (xs : List Nat) : selMap (fun v => if p v then some v else none) xs = xs.filter p := by
  induction xs with
  | nil => rfl
  | cons y ys ih =>
    simp only [selMap, List.filterMap_cons, List.filter_cons] at ih ⊢
    by_cases h : p y <;> simp [h, ih]

/-- **`cc_list_filter` on the raw links** -/
theorem filter_spec (p : Nat → Bool) (s : St) (l : Hdr) (cs : List Cell) (m : Mem) (r : Repr s.heap l cs)
    (hb : ∀ y, y ∈ idsOf cs → y < s.fresh) :
    BuilderOk s l cs (filter p s l m) (DList.filter p (Chain.ofList l.triple (dataOf cs)) m) := by
  rw [DList.filter_ofList]
  unfold filter Spec.LSeq.filter
  by_cases hc : cs = []
  · subst hc
    simp only [r.size, List.length_nil, if_true, dataOf_nil]
    exact ⟨rfl, rfl, r, Nat.le_refl _, fun _ _ => rfl, by simp, fun _ hd => by cases hd⟩
  · have hsz : l.size ≠ 0 := by rw [r.size]; exact fun e => hc (List.eq_nil_of_length_eq_zero e)
    have hd : dataOf cs ≠ [] := fun e => hc (List.eq_nil_of_length_eq_zero (by rw [← dataOf_length, e]; rfl))
    simp only [hsz, if_false, hd]
    unfold new
    by_cases ha : (m.allocT l.triple).1 = true
    · simp only [ha, Bool.not_true, Bool.false_eq_true, if_false]
      rw [r.size, r.head]
      have := builderOk_of_loop (fun v => if p v then some v else none) cs.length cs [] s l m (by simpa using r) (by simpa using hb)
        ((dataOf cs).filter p) (by simp [selMap_filter]) ha
      simpa using this
    · have ha' : (m.allocT l.triple).1 = false := by simpa using ha
      simp only [ha', Bool.not_false, if_true]
      exact builderOk_refused s l cs m _ r ha'

/-- **`cc_list_sublist` on the raw links** -/
theorem sublist_spec (s : St) (l : Hdr) (cs : List Cell) (b e : Nat) (m : Mem) (r : Repr s.heap l cs)
    (hb : ∀ y, y ∈ idsOf cs → y < s.fresh) :
    BuilderOk s l cs (sublist s l b e m) (DList.sublist (Chain.ofList l.triple (dataOf cs)) b e m) := by
  rw [DList.sublist_ofList]
  unfold sublist Spec.LSeq.sublist
  rw [r.size]
  by_cases hr : b > e ∨ e ≥ cs.length
  · have : (decide (b > e) || decide (e ≥ cs.length)) = true := by simpa using hr
    simp only [this, if_true, dataOf_length, hr]
    exact ⟨rfl, rfl, r, Nat.le_refl _, fun _ _ => rfl, by simp, fun _ hd => by cases hd⟩
  · have : (decide (b > e) || decide (e ≥ cs.length)) = false := by simpa using hr
    simp only [this, Bool.false_eq_true, if_false, dataOf_length, hr]
    have hbl : b < cs.length := by omega
    unfold new
    by_cases ha : (m.allocT l.triple).1 = true
    · simp only [ha, Bool.not_true, Bool.false_eq_true, if_false]
      rw [getNodeAt_repr r, if_pos hbl]
      simp only [ok_bne, Bool.false_eq_true, if_false]
      have hcs : cs = cs.take b ++ cs.drop b := (List.take_append_drop b cs).symm
      have hnode : (idsOf cs)[b]? = nxt (cs.drop b) none := by
        rw [nxt_eq_head?, idsOf, idsOf, List.head?_map, List.head?_drop, List.getElem?_map]
      rw [hnode]
      have := builderOk_of_loop some (e - b + 1) (cs.drop b) (cs.take b) s l m (by rw [← hcs]; exact r) (by rw [← hcs]; exact hb)
        (((dataOf cs).drop b).take (e - b + 1)) (by rw [selMap_some, dataOf, dataOf, List.map_take, List.map_drop]) ha
      rw [← hcs] at this
      exact this
    · have ha' : (m.allocT l.triple).1 = false := by simpa using ha
      simp only [ha', Bool.not_false, if_true]
      exact builderOk_refused s l cs m _ r ha'

end CC.PList
