import CollectionsC.Proofs.ArrayStep
import CollectionsC.Proofs.Growth
/-! Counting re-allocations (C20): `Mem.nalloc` counts the successful allocator calls; `add` makes
one exactly when it replaces the buffer.  With a growth function that at least doubles, `n` appends
cause at most `log2 (size) + 1` re-allocations. -/
namespace CC.Arr
open CC

theorem alloc_nalloc (m : Mem) :
    (m.alloc.1 = true → m.alloc.2.nalloc = m.nalloc + 1) ∧ (m.alloc.1 = false → m.alloc.2.nalloc = m.nalloc) := by
  unfold Mem.alloc; split <;> simp

theorem free_nalloc (m : Mem) : m.free.nalloc = m.nalloc := by
  unfold Mem.free; split <;> rfl

theorem check_nalloc (m : Mem) (b : Bool) : (m.check b).nalloc = m.nalloc := by
  cases b <;> rfl

/-- `add` performs one successful allocation exactly when it changes the capacity -/
theorem add_nalloc (a : Arr) (x : Nat) (m : Mem) (hinv : a.Inv) :
    ((a.add x m).2.1.capacity = a.capacity ∧ (a.add x m).2.2.nalloc = m.nalloc) ∨
    ((a.add x m).1 = .ok ∧ a.size = a.capacity ∧ (a.add x m).2.1.capacity = a.newCapacity ∧
      (a.add x m).2.2.nalloc = m.nalloc + 1) := by
  obtain ⟨h1, h2, h3, h4⟩ := hinv
  by_cases hroom : a.size < a.capacity
  · left
    rw [add_room a x m hroom, store_eq a x m (by omega)]
    exact ⟨rfl, rfl⟩
  · rw [add_full a x m (by omega)]
    by_cases hmax : a.AtLimit
    · left; rw [expandCapacity_max a m hmax]; exact ⟨rfl, rfl⟩
    · cases hal : m.alloc.1
      · left
        rw [expandCapacity_refused a m hmax hal]
        exact ⟨rfl, (alloc_nalloc m).2 hal⟩
      · right
        have hgt := newCapacity_gt a (by have := max8_lt; omega)
        rw [expandCapacity_success a m hmax hal]
        simp only [bne_self_eq_false, Bool.false_eq_true, if_false]
        rw [store_eq _ x _ (by simp; omega)]
        refine ⟨rfl, by omega, rfl, ?_⟩
        simp only [free_nalloc, check_nalloc]
        exact (alloc_nalloc m).1 hal

/-- appending a list of elements one by one (statuses ignored) -/
def addAll (a : Arr) (xs : List Nat) (m : Mem) : Arr × Mem :=
  match xs with
  | [] => (a, m)
  | x :: xs => addAll (a.add x m).2.1 xs (a.add x m).2.2

/-- doubling invariant: after `k` re-allocations the capacity is at least `c0 * 2^k`, and the last
re-allocation happened at a size of at least `c0 * 2^(k-1)` -/
theorem addAll_doubling (c0 n0 : Nat) : ∀ (xs : List Nat) (a : Arr) (m : Mem), a.Inv → 0 < m.live →
    (∀ c, 2 * c ≤ a.grow c) →
    n0 ≤ m.nalloc → c0 * 2 ^ (m.nalloc - n0) ≤ a.capacity →
    (1 ≤ m.nalloc - n0 → c0 * 2 ^ (m.nalloc - n0 - 1) < a.size) →
    (a.addAll xs m).1.Inv ∧ n0 ≤ (a.addAll xs m).2.nalloc ∧
    c0 * 2 ^ ((a.addAll xs m).2.nalloc - n0) ≤ (a.addAll xs m).1.capacity ∧
    (1 ≤ (a.addAll xs m).2.nalloc - n0 → c0 * 2 ^ ((a.addAll xs m).2.nalloc - n0 - 1) < (a.addAll xs m).1.size) ∧
    (a.addAll xs m).1.size ≤ a.size + xs.length := by
  intro xs
  induction xs with
  | nil => intro a m hinv _ _ h1 h2 h3; exact ⟨hinv, h1, h2, h3, by simp [addAll]⟩
  | cons x xs ih =>
    intro a m hinv hlive hd h1 h2 h3
    simp only [addAll]
    obtain ⟨sp, sl, sf⟩ := add_spec a x m hinv hlive
    have hinv' : (a.add x m).2.1.Inv := by
      rcases sp with ⟨_, _, hgf⟩ | ⟨_, hsame⟩
      · exact hgf.inv hinv
      · rw [hsame]; exact hinv
    have hgrow : (a.add x m).2.1.grow = a.grow := by
      rcases sp with ⟨_, _, hgf⟩ | ⟨_, hsame⟩
      · exact hgf.2.2.2.2
      · rw [hsame]
    have hsize : (a.add x m).2.1.size ≤ a.size + 1 ∧ a.size ≤ (a.add x m).2.1.size := by
      rcases sp with ⟨_, _, hgf⟩ | ⟨_, hsame⟩
      · have := hgf.1; omega
      · rw [hsame]; omega
    have key : n0 ≤ (a.add x m).2.2.nalloc ∧
        c0 * 2 ^ ((a.add x m).2.2.nalloc - n0) ≤ (a.add x m).2.1.capacity ∧
        (1 ≤ (a.add x m).2.2.nalloc - n0 → c0 * 2 ^ ((a.add x m).2.2.nalloc - n0 - 1) < (a.add x m).2.1.size) := by
      rcases add_nalloc a x m hinv with ⟨k1, k2⟩ | ⟨kok, k1, k2, k3⟩
      · rw [k1, k2]
        exact ⟨h1, h2, fun h => Nat.lt_of_lt_of_le (h3 h) hsize.2⟩
      · have hsz : (a.add x m).2.1.size = a.size + 1 := by
          rcases sp with ⟨_, _, hgf⟩ | ⟨hb, _⟩
          · exact hgf.1
          · rcases hb.1 with ⟨h, _⟩ | ⟨h, _⟩ <;> rw [h] at kok <;> simp at kok
        have hnc : 2 * a.capacity ≤ a.newCapacity := by
          unfold newCapacity
          have := hd a.capacity
          have := hinv.2.2.1
          simp only
          split <;> omega
        rw [k2, k3, hsz]
        have e : m.nalloc + 1 - n0 = (m.nalloc - n0) + 1 := by omega
        refine ⟨by omega, ?_, fun _ => ?_⟩
        · rw [e, Nat.pow_succ, ← Nat.mul_assoc]; omega
        · rw [e, Nat.add_sub_cancel]; omega
    have := ih (a.add x m).2.1 (a.add x m).2.2 hinv' (by omega) (by rw [hgrow]; exact hd)
      key.1 key.2.1 key.2.2
    obtain ⟨t1, t2, t3, t4, t5⟩ := this
    refine ⟨t1, t2, t3, t4, ?_⟩
    simp only [List.length_cons]; omega

/-- **logarithmic number of re-allocations** for a growth function that at least doubles: appending
any `n` elements to an array of capacity `c0 ≥ 1` performs at most `log2 (final size) + 1`
successful allocations (0 when nothing was re-allocated) -/
theorem addAll_realloc_log (a : Arr) (xs : List Nat) (m : Mem) (hinv : a.Inv) (hlive : 0 < m.live)
    (hd : ∀ c, 2 * c ≤ a.grow c) :
    (a.addAll xs m).2.nalloc - m.nalloc ≤ Nat.log2 (a.size + xs.length) + 1 ∧
    (a.addAll xs m).1.size ≤ (a.addAll xs m).1.capacity := by
  have h := addAll_doubling a.capacity m.nalloc xs a m hinv hlive hd (Nat.le_refl _) (by simp)
    (fun h => by omega)
  obtain ⟨t1, t2, t3, t4, t5⟩ := h
  refine ⟨?_, t1.1⟩
  by_cases hk : (a.addAll xs m).2.nalloc - m.nalloc = 0
  · omega
  · have h1 := t4 (by omega)
    have hc : 1 ≤ a.capacity := hinv.2.2.1
    have hpow : 2 ^ ((a.addAll xs m).2.nalloc - m.nalloc - 1) ≤ a.size + xs.length := by
      have : 2 ^ ((a.addAll xs m).2.nalloc - m.nalloc - 1) ≤ a.capacity * 2 ^ ((a.addAll xs m).2.nalloc - m.nalloc - 1) :=
        Nat.le_mul_of_pos_left _ hc
      omega
    have hne : a.size + xs.length ≠ 0 := by
      have : 0 < 2 ^ ((a.addAll xs m).2.nalloc - m.nalloc - 1) := Nat.pow_pos (by decide)
      omega
    have := (Nat.le_log2 hne).2 hpow
    omega

/-- with a growth function that at least doubles, the requested capacity is the float product -/
theorem newCapacity_of_doubling (a : Arr) (hc : 1 ≤ a.capacity) (hd : ∀ c, 2 * c ≤ a.grow c) :
    a.newCapacity = a.grow a.capacity := by
  unfold newCapacity
  have := hd a.capacity
  simp only
  split
  · omega
  · rfl

theorem free_sched' (m : Mem) : m.free.sched = m.sched := by unfold Mem.free; split <;> rfl

/-- **the concrete append process is the abstract capacity process of `Proofs/Growth.lean`**:
under an allocator that never refuses and a doubling growth function that stays below the byte-size
limit, `n` appends leave exactly the size, capacity and number of buffer allocations of
`CC.Growth.appends` -/
theorem addAll_eq_appends : ∀ (xs : List Nat) (a : Arr) (m : Mem), a.Inv → 0 < m.live → m.sched = [] →
    (∀ c, 2 * c ≤ a.grow c) → (∀ c, a.grow c ≤ Gen.CC_MAX_ELEMENTS / 8) →
    (a.addAll xs m).1.size = (Growth.appends a.grow a.size a.capacity xs.length).size ∧
    (a.addAll xs m).1.capacity = (Growth.appends a.grow a.size a.capacity xs.length).cap ∧
    (a.addAll xs m).2.nalloc = m.nalloc + (Growth.appends a.grow a.size a.capacity xs.length).reallocs := by
  intro xs
  induction xs with
  | nil => intro a m _ _ _ _ _; simp [addAll, Growth.appends]
  | cons x xs ih =>
    intro a m hinv hlive hs hd hb
    obtain ⟨h1, h2, h3, h4⟩ := hinv
    simp only [addAll, List.length_cons]
    unfold Growth.appends
    by_cases hroom : a.size < a.capacity
    · simp only [hroom, if_true]
      have hl : a.size < a.buf.length := by omega
      rw [add_room a x m hroom, store_eq a x m hl]
      have := ih { a with buf := a.buf.put a.size x, size := a.size + 1 } m
        ⟨by simp only; omega, by simp only [Buf.length_put]; omega, h3, h4⟩ hlive hs hd hb
      exact this
    · simp only [hroom, if_false]
      have hnl : ¬ a.AtLimit := by
        intro hl
        rcases hl with hl | hl
        · have := max8_lt; omega
        · rw [newCapacity_of_doubling a h3 hd] at hl
          have := hb a.capacity; omega
      have hal := (Mem.alloc_nil m hs)
      have hnc := newCapacity_of_doubling a h3 hd
      have hgt := hd a.capacity
      rw [add_full a x m (by omega), expandCapacity_success a m hnl hal.1]
      simp only [bne_self_eq_false, Bool.false_eq_true, if_false]
      rw [store_eq _ x _ (by simp; omega)]
      have hc : (decide (a.size ≤ a.buf.length) && decide (a.size ≤ a.newCapacity)) = true := by simp; omega
      simp only [hc, Mem.check_true]
      have hlive' : 0 < m.alloc.2.free.live := by
        have e := Mem.alloc_fst_true m hal.1
        have f := free_live m.alloc.2 (by omega)
        omega
      have hs' : m.alloc.2.free.sched = [] := by rw [free_sched']; exact hal.2
      have := ih { a with buf := ((Buf.mk a.newCapacity : Buf Nat).memcpy 0 a.buf 0 a.size).put a.size x,
                          capacity := a.newCapacity, size := a.size + 1 } m.alloc.2.free
        ⟨by simp only; omega, by simp, by simp only; omega, by simp only; rw [hnc]; exact hb _⟩ hlive' hs' hd hb
      simp only at this
      rw [hnc] at this ⊢
      obtain ⟨t1, t2, t3⟩ := this
      refine ⟨t1, t2, ?_⟩
      rw [t3, free_nalloc, (alloc_nalloc m).1 hal.1]
      omega

end CC.Arr
