import CollectionsC.Proofs.ArrayStep
import CollectionsC.Proofs.Growth
/-! Counting re-allocations (C20).  `allocs t m` is the number of successful allocator calls through
the triple `t` (`Mem.nalloc` for the configured triple, `Mem.lalloc` for the C library); `add` makes
one exactly when it replaces the buffer.  With a growth function that at least doubles **on the
capacities actually reached** (below `size + n`), `n` appends cause at most `log2 (size + n) + 1`
re-allocations, under every refusal schedule. -/
namespace CC.Arr
open CC

/-- successful allocator calls through the triple -/
def allocs (t : Triple) (m : Mem) : Nat := match t with | .conf => m.nalloc | .libc => m.lalloc

theorem allocs_allocT_ok (m : Mem) (t : Triple) (h : (m.allocT t).1 = true) :
    allocs t (m.allocT t).2 = allocs t m + 1 := by
  cases t with
  | conf => simp only [Mem.allocT_conf, allocs] at h ⊢; unfold Mem.alloc at h ⊢; split <;> simp_all
  | libc => rfl

theorem allocs_allocT_refused (m : Mem) (t : Triple) (h : (m.allocT t).1 = false) :
    allocs t (m.allocT t).2 = allocs t m := by
  cases t with
  | conf => simp only [Mem.allocT_conf, allocs] at h ⊢; unfold Mem.alloc at h ⊢; split <;> simp_all
  | libc => simp [Mem.allocT] at h

theorem allocs_freeT (m : Mem) (t : Triple) : allocs t (m.freeT t) = allocs t m := by
  cases t with
  | conf => simp only [Mem.freeT_conf, allocs]; unfold Mem.free; split <;> rfl
  | libc => simp only [Mem.freeT, allocs]; split <;> rfl

theorem allocs_check (t : Triple) (m : Mem) (b : Bool) : allocs t (m.check b) = allocs t m := by
  cases t <;> cases b <;> rfl

theorem expandCapacity_triple (a : Arr) (m : Mem) : (a.expandCapacity m).2.1.triple = a.triple := by
  by_cases hmax : a.AtLimit
  · rw [expandCapacity_max a m hmax]
  · cases hal : (m.allocT a.triple).1
    · rw [expandCapacity_refused a m hmax hal]
    · rw [expandCapacity_success a m hmax hal]

theorem add_triple (a : Arr) (x : Nat) (m : Mem) : (a.add x m).2.1.triple = a.triple := by
  have he := expandCapacity_triple a m
  unfold add
  split
  · simp only
    split
    · exact he
    · simp only [store]; exact he
  · rfl

/-- `add` performs one successful allocation exactly when it changes the capacity -/
theorem add_allocs (a : Arr) (x : Nat) (m : Mem) (hinv : a.Inv) :
    ((a.add x m).2.1.capacity = a.capacity ∧ allocs a.triple (a.add x m).2.2 = allocs a.triple m) ∨
    ((a.add x m).1 = .ok ∧ a.size = a.capacity ∧ (a.add x m).2.1.capacity = a.newCapacity ∧
      allocs a.triple (a.add x m).2.2 = allocs a.triple m + 1) := by
  obtain ⟨h1, h2, h3, h4⟩ := hinv
  by_cases hroom : a.size < a.capacity
  · left
    rw [add_room a x m hroom, store_eq a x m (by omega)]
    exact ⟨rfl, rfl⟩
  · rw [add_full a x m (by omega)]
    by_cases hmax : a.AtLimit
    · left; rw [expandCapacity_max a m hmax]; exact ⟨rfl, rfl⟩
    · cases hal : (m.allocT a.triple).1
      · left
        rw [expandCapacity_refused a m hmax hal]
        exact ⟨rfl, allocs_allocT_refused m a.triple hal⟩
      · right
        have hgt := newCapacity_gt a (by have := max8_lt; omega)
        rw [expandCapacity_success a m hmax hal]
        simp only [bne_self_eq_false, Bool.false_eq_true, if_false]
        rw [store_eq _ x _ (by simp; omega)]
        refine ⟨rfl, by omega, rfl, ?_⟩
        simp only [allocs_freeT, allocs_check]
        exact allocs_allocT_ok m a.triple hal

/-- appending a list of elements one by one (statuses ignored) -/
def addAll (a : Arr) (xs : List Nat) (m : Mem) : Arr × Mem :=
  match xs with
  | [] => (a, m)
  | x :: xs => addAll (a.add x m).2.1 xs (a.add x m).2.2

/-- doubling invariant: after `k` re-allocations the capacity is at least `c0 * 2^k`, and the last
re-allocation happened at a size of at least `c0 * 2^(k-1)`.  `hd` is needed only at the capacities
at which a growth step can happen, i.e. below the bound `B` on the final size. -/
theorem addAll_doubling (c0 n0 B : Nat) (t : Triple) : ∀ (xs : List Nat) (a : Arr) (m : Mem), a.Inv → a.triple = t →
    (∀ c, c < B → 2 * c ≤ a.grow c) → a.size + xs.length ≤ B →
    n0 ≤ allocs t m → c0 * 2 ^ (allocs t m - n0) ≤ a.capacity →
    (1 ≤ allocs t m - n0 → c0 * 2 ^ (allocs t m - n0 - 1) < a.size) →
    (a.addAll xs m).1.Inv ∧ n0 ≤ allocs t (a.addAll xs m).2 ∧
    c0 * 2 ^ (allocs t (a.addAll xs m).2 - n0) ≤ (a.addAll xs m).1.capacity ∧
    (1 ≤ allocs t (a.addAll xs m).2 - n0 → c0 * 2 ^ (allocs t (a.addAll xs m).2 - n0 - 1) < (a.addAll xs m).1.size) ∧
    (a.addAll xs m).1.size ≤ a.size + xs.length := by
  intro xs
  induction xs with
  | nil => intro a m hinv _ _ _ h1 h2 h3; exact ⟨hinv, h1, h2, h3, by simp [addAll]⟩
  | cons x xs ih =>
    intro a m hinv ht hd hB h1 h2 h3
    simp only [addAll]
    simp only [List.length_cons] at hB
    obtain ⟨sp, sl, sf⟩ := add_spec a x m hinv
    have hinv' : (a.add x m).2.1.Inv := by
      rcases sp with ⟨_, _, hgf⟩ | ⟨_, hsame⟩
      · exact hgf.inv hinv
      · rw [hsame]; exact hinv
    have hgrow : (a.add x m).2.1.grow = a.grow := by
      rcases sp with ⟨_, _, hgf⟩ | ⟨_, hsame⟩
      · exact hgf.2.2.2.2
      · rw [hsame]
    have hsize : (a.add x m).2.1.size ≤ a.size + 1 ∧ a.size ≤ (a.add x m).2.1.size := by
      rcases sp with ⟨_, _, hgf⟩ | ⟨_, hsame⟩
      · have := hgf.1; omega
      · rw [hsame]; omega
    have key : n0 ≤ allocs t (a.add x m).2.2 ∧
        c0 * 2 ^ (allocs t (a.add x m).2.2 - n0) ≤ (a.add x m).2.1.capacity ∧
        (1 ≤ allocs t (a.add x m).2.2 - n0 → c0 * 2 ^ (allocs t (a.add x m).2.2 - n0 - 1) < (a.add x m).2.1.size) := by
      rcases add_allocs a x m hinv with ⟨k1, k2⟩ | ⟨kok, k1, k2, k3⟩
      · rw [ht] at k2
        rw [k1, k2]
        exact ⟨h1, h2, fun h => Nat.lt_of_lt_of_le (h3 h) hsize.2⟩
      · rw [ht] at k3
        have hsz : (a.add x m).2.1.size = a.size + 1 := by
          rcases sp with ⟨_, _, hgf⟩ | ⟨hb, _⟩
          · exact hgf.1
          · rcases hb.1 with ⟨h, _⟩ | ⟨h, _⟩ <;> rw [h] at kok <;> simp at kok
        have hnc : 2 * a.capacity ≤ a.newCapacity := by
          unfold newCapacity
          have := hd a.capacity (by omega)
          have := hinv.2.2.1
          simp only
          split <;> omega
        rw [k2, k3, hsz]
        have e : allocs t m + 1 - n0 = (allocs t m - n0) + 1 := by omega
        refine ⟨by omega, ?_, fun _ => ?_⟩
        · rw [e, Nat.pow_succ, ← Nat.mul_assoc]; omega
        · rw [e, Nat.add_sub_cancel]; omega
    have := ih (a.add x m).2.1 (a.add x m).2.2 hinv' (by rw [add_triple, ht]) (by rw [hgrow]; exact hd) (by omega)
      key.1 key.2.1 key.2.2
    obtain ⟨t1, t2, t3, t4, t5⟩ := this
    refine ⟨t1, t2, t3, t4, ?_⟩
    simp only [List.length_cons]; omega

/-- **logarithmic number of re-allocations**: if the growth function at least doubles every capacity
below the final size bound (`c < size + n`; the capacities at which a growth step can happen),
appending any `n` elements performs at most `log2 (size + n) + 1` successful buffer allocations —
for every refusal schedule and either allocator triple -/
theorem addAll_realloc_log (a : Arr) (xs : List Nat) (m : Mem) (hinv : a.Inv)
    (hd : ∀ c, c < a.size + xs.length → 2 * c ≤ a.grow c) :
    allocs a.triple (a.addAll xs m).2 - allocs a.triple m ≤ Nat.log2 (a.size + xs.length) + 1 ∧
    (a.addAll xs m).1.size ≤ (a.addAll xs m).1.capacity := by
  have h := addAll_doubling a.capacity (allocs a.triple m) (a.size + xs.length) a.triple xs a m hinv rfl hd
    (Nat.le_refl _) (Nat.le_refl _) (by simp) (fun h => by omega)
  obtain ⟨t1, t2, t3, t4, t5⟩ := h
  refine ⟨?_, t1.1⟩
  by_cases hk : allocs a.triple (a.addAll xs m).2 - allocs a.triple m = 0
  · omega
  · have h1 := t4 (by omega)
    have hc : 1 ≤ a.capacity := hinv.2.2.1
    have hpow : 2 ^ (allocs a.triple (a.addAll xs m).2 - allocs a.triple m - 1) ≤ a.size + xs.length := by
      have : 2 ^ (allocs a.triple (a.addAll xs m).2 - allocs a.triple m - 1) ≤
          a.capacity * 2 ^ (allocs a.triple (a.addAll xs m).2 - allocs a.triple m - 1) :=
        Nat.le_mul_of_pos_left _ hc
      omega
    have hne : a.size + xs.length ≠ 0 := by
      have : 0 < 2 ^ (allocs a.triple (a.addAll xs m).2 - allocs a.triple m - 1) := Nat.pow_pos (by decide)
      omega
    have := (Nat.le_log2 hne).2 hpow
    omega

/-- with a growth function that at least doubles at the current capacity, the requested capacity is
the float product -/
theorem newCapacity_of_doubling (a : Arr) (hc : 1 ≤ a.capacity) (hd : 2 * a.capacity ≤ a.grow a.capacity) :
    a.newCapacity = a.grow a.capacity := by
  unfold newCapacity
  simp only
  split
  · omega
  · rfl

theorem sched_freeT (m : Mem) (t : Triple) : (m.freeT t).sched = m.sched := by
  cases t with
  | conf => simp only [Mem.freeT_conf]; unfold Mem.free; split <;> rfl
  | libc => simp only [Mem.freeT]; split <;> rfl

theorem allocT_never_refuses (m : Mem) (t : Triple) (hs : m.sched = []) :
    (m.allocT t).1 = true ∧ (m.allocT t).2.sched = [] := by
  cases t with
  | conf => exact Mem.alloc_nil m hs
  | libc => exact ⟨rfl, hs⟩

/-- **the concrete append process is the abstract capacity process of `Proofs/Growth.lean`**: under
an allocator that never refuses, with a growth function that — on the capacities below the final
size `size + n` — at least doubles and stays within the byte-size limit, `n` appends leave exactly
the size, capacity and number of buffer allocations of `CC.Growth.appends`.  (The hypotheses are
satisfiable: `fun c => 2 * c` with `2 * (size + n) ≤ CC_MAX_ELEMENTS / 8`, see `C20Array`.) -/
theorem addAll_eq_appends : ∀ (xs : List Nat) (a : Arr) (m : Mem), a.Inv → m.sched = [] →
    (∀ c, c < a.size + xs.length → 2 * c ≤ a.grow c ∧ a.grow c ≤ Gen.CC_MAX_ELEMENTS / 8) →
    (a.addAll xs m).1.size = (Growth.appends a.grow a.size a.capacity xs.length).size ∧
    (a.addAll xs m).1.capacity = (Growth.appends a.grow a.size a.capacity xs.length).cap ∧
    allocs a.triple (a.addAll xs m).2 = allocs a.triple m + (Growth.appends a.grow a.size a.capacity xs.length).reallocs := by
  intro xs
  induction xs with
  | nil => intro a m _ _ _; simp [addAll, Growth.appends]
  | cons x xs ih =>
    intro a m hinv hs hd
    obtain ⟨h1, h2, h3, h4⟩ := hinv
    simp only [addAll, List.length_cons] at hd ⊢
    unfold Growth.appends
    by_cases hroom : a.size < a.capacity
    · simp only [hroom, if_true]
      have hl : a.size < a.buf.length := by omega
      rw [add_room a x m hroom, store_eq a x m hl]
      exact ih { a with buf := a.buf.put a.size x, size := a.size + 1 } m
        ⟨by simp only; omega, by simp only [Buf.length_put]; omega, h3, h4⟩ hs
        (fun c hc => hd c (by simp only at hc; omega))
    · simp only [hroom, if_false]
      have hcap : a.capacity < a.size + (xs.length + 1) := by omega
      obtain ⟨hdc, hbc⟩ := hd a.capacity hcap
      have hnc := newCapacity_of_doubling a h3 hdc
      have hnl : ¬ a.AtLimit := by
        intro hl
        rcases hl with hl | hl
        · have := max8_lt; omega
        · rw [hnc] at hl; omega
      have hal := allocT_never_refuses m a.triple hs
      rw [add_full a x m (by omega), expandCapacity_success a m hnl hal.1]
      simp only [bne_self_eq_false, Bool.false_eq_true, if_false]
      rw [store_eq _ x _ (by simp; omega)]
      have hc : (decide (a.size ≤ a.buf.length) && decide (a.size ≤ a.newCapacity)) = true := by simp; omega
      simp only [hc, Mem.check_true]
      have hs' : ((m.allocT a.triple).2.freeT a.triple).sched = [] := by rw [sched_freeT]; exact hal.2
      have := ih { a with buf := ((Buf.mk a.newCapacity : Buf Nat).memcpy 0 a.buf 0 a.size).put a.size x,
                          capacity := a.newCapacity, size := a.size + 1 } ((m.allocT a.triple).2.freeT a.triple)
        ⟨by simp only; omega, by simp, by simp only; omega, by simp only; rw [hnc]; exact hbc⟩ hs'
        (fun c hc => hd c (by simp only at hc; omega))
      simp only at this
      rw [hnc] at this ⊢
      obtain ⟨t1, t2, t3⟩ := this
      refine ⟨t1, t2, ?_⟩
      rw [t3, allocs_freeT, allocs_allocT_ok m a.triple hal.1]
      omega

end CC.Arr
