import CollectionsC.Proofs.Deque
/-! `cc_deque_remove_at`: the four shifting branches, `memmove` by `memmove`, and the tactics
(`slots`, `memok`) shared with `Proofs/DequeAddAt.lean`. -/
namespace CC.Deque
open CC

/-- `memmove` get-lemma without side condition -/
theorem get_memmove' (b : Buf Nat) (d s n j : Nat) :
    (b.memmove d s n).get j =
      if j < b.length then (if d ≤ j ∧ j < d + n then b.get (j - d + s) else b.get j) else default := by
  split
  · rename_i h; exact Buf.get_memmove b d s n j h
  · rename_i h; exact Buf.get_of_ge _ _ (by simp; omega)

/-- closes goals `buf'.get k = d.buf.get k'` where `buf'` is built from `put`/`memmove` -/
macro "slots" : tactic => `(tactic|
  (simp only [Buf.get_put, get_memmove', Buf.length_put, Buf.length_memmove]
   repeat' split
   all_goals (first | omega | (congr 1; omega) | rfl)))

/-- closes goals `(wr … (mv … (rd … m).2).2).2 = m` by discharging every bounds check -/
macro "memok" : tactic => `(tactic|
  (repeat (first
     | rw [wr_snd _ _ _ _ (by first | omega | (simp; omega))]
     | rw [mv_snd _ _ _ _ _ (by first | omega | (simp; omega)) (by first | omega | (simp; omega))]
     | rw [rd_snd _ _ _ (by first | omega | (simp; omega))])))

/-- the shape of the state after removing from the front half: `first` advances -/
theorem abs_erase_front (d e : Deque) (index : Nat) (hi : d.Inv) (hidx : index < d.size)
    (hs : e.size = d.size - 1) (hc : e.cap = d.cap) (hf : e.first = (d.first + 1) % d.cap)
    (h : ∀ j, j < d.size - 1 → e.buf.get (((d.first + 1) % d.cap + j) % d.cap) =
      if j < index then d.buf.get ((d.first + j) % d.cap) else d.buf.get ((d.first + (j + 1)) % d.cap)) :
    e.abs = d.abs.eraseIdx index := by
  apply List.ext_getElem
  · simp [hs, List.length_eraseIdx, hidx]
  · intro j h1 h2
    have hj : j < d.size - 1 := by simpa [hs] using h1
    rw [abs_getElem, List.getElem_eraseIdx, hf, hc, h j hj]
    split <;> rw [abs_getElem]

/-- the shape of the state after removing from the back half: `first` stays -/
theorem abs_erase_back (d e : Deque) (index : Nat) (hidx : index < d.size)
    (hs : e.size = d.size - 1) (hc : e.cap = d.cap) (hf : e.first = d.first)
    (h : ∀ j, j < d.size - 1 → e.buf.get ((d.first + j) % d.cap) =
      if j < index then d.buf.get ((d.first + j) % d.cap) else d.buf.get ((d.first + (j + 1)) % d.cap)) :
    e.abs = d.abs.eraseIdx index := by
  apply List.ext_getElem
  · simp [hs, List.length_eraseIdx, hidx]
  · intro j h1 h2
    have hj : j < d.size - 1 := by simpa [hs] using h1
    rw [abs_getElem, List.getElem_eraseIdx, hf, hc, h j hj]
    split <;> rw [abs_getElem]

/-! ## the four shifting blocks of `remove_at` -/

theorem rmFrontContig_spec (d : Deque) (index : Nat) (m : Mem) (hi : d.Inv) (hidx : index < d.size)
    (h1 : 1 ≤ index) (hp : ¬ (d.first + index) % d.cap < d.first % d.cap) :
    (d.rmFrontContig index m).2 = m ∧ (d.rmFrontContig index m).1.length = d.buf.length ∧
    ∀ j, j < d.size - 1 → (d.rmFrontContig index m).1.get (((d.first + 1) % d.cap + j) % d.cap) =
      if j < index then d.buf.get ((d.first + j) % d.cap) else d.buf.get ((d.first + (j + 1)) % d.cap) := by
  obtain ⟨hpw, hmax, hl, hf, hla, hsz⟩ := hi
  rw [Nat.mod_eq_of_lt hf] at hp
  have c5 := mod_cases (x := d.first + index) (c := d.cap) (by omega)
  unfold rmFrontContig
  simp only [Nat.mod_eq_of_lt hf, mv_fst]
  refine ⟨mv_snd _ _ _ _ _ (by omega) (by omega), by simp, ?_⟩
  intro j hj
  have c1 := mod_cases (x := d.first + 1) (c := d.cap) (by omega)
  have c2 := mod_cases (x := (d.first + 1) % d.cap + j) (c := d.cap) (by omega)
  have c3 := mod_cases (x := d.first + j) (c := d.cap) (by omega)
  have c4 := mod_cases (x := d.first + (j + 1)) (c := d.cap) (by omega)
  slots

set_option maxHeartbeats 1000000 in -- many (layout × branch) leaves, each closed by omega
theorem rmFrontWrap_spec (d : Deque) (index : Nat) (m : Mem) (hi : d.Inv) (hidx : index < d.size)
    (h1 : 1 ≤ index) (hp : (d.first + index) % d.cap < d.first % d.cap) :
    (d.rmFrontWrap index m).2 = m ∧ (d.rmFrontWrap index m).1.length = d.buf.length ∧
    ∀ j, j < d.size - 1 → (d.rmFrontWrap index m).1.get (((d.first + 1) % d.cap + j) % d.cap) =
      if j < index then d.buf.get ((d.first + j) % d.cap) else d.buf.get ((d.first + (j + 1)) % d.cap) := by
  obtain ⟨hpw, hmax, hl, hf, hla, hsz⟩ := hi
  rw [Nat.mod_eq_of_lt hf] at hp
  have c5 := mod_cases (x := d.first + index) (c := d.cap) (by omega)
  unfold rmFrontWrap
  simp only [Nat.mod_eq_of_lt hf]
  split <;> split <;> simp only [wr_fst, mv_fst, rd_fst]
  all_goals refine ⟨by memok, by simp, ?_⟩
  all_goals
    (intro j hj
     have c1 := mod_cases (x := d.first + 1) (c := d.cap) (by omega)
     have c2 := mod_cases (x := (d.first + 1) % d.cap + j) (c := d.cap) (by omega)
     have c3 := mod_cases (x := d.first + j) (c := d.cap) (by omega)
     have c4 := mod_cases (x := d.first + (j + 1)) (c := d.cap) (by omega)
     rcases c1 with c1 | c1 <;> rcases c2 with c2 | c2 <;> rcases c3 with c3 | c3 <;>
       rcases c4 with c4 | c4 <;> rcases c5 with c5 | c5 <;> first | omega | slots)

theorem rmBackContig_spec (d : Deque) (index : Nat) (m : Mem) (hi : d.Inv) (hidx : index < d.size)
    (h1 : 1 ≤ index) (hp : ¬ (d.first + index) % d.cap > d.last % d.cap) :
    (d.rmBackContig index m).2 = m ∧ (d.rmBackContig index m).1.length = d.buf.length ∧
    ∀ j, j < d.size - 1 → (d.rmBackContig index m).1.get ((d.first + j) % d.cap) =
      if j < index then d.buf.get ((d.first + j) % d.cap) else d.buf.get ((d.first + (j + 1)) % d.cap) := by
  have hlast := Inv.last_lt hi
  obtain ⟨hpw, hmax, hl, hf, hla, hsz⟩ := hi
  rw [Nat.mod_eq_of_lt hlast] at hp
  have c5 := mod_cases (x := d.first + index) (c := d.cap) (by omega)
  have c0 := mod_cases (x := d.first + d.size) (c := d.cap) (by omega)
  unfold rmBackContig
  simp only [Nat.mod_eq_of_lt hlast, mv_fst]
  refine ⟨mv_snd _ _ _ _ _ (by omega) (by omega), by simp, ?_⟩
  intro j hj
  have c3 := mod_cases (x := d.first + j) (c := d.cap) (by omega)
  have c4 := mod_cases (x := d.first + (j + 1)) (c := d.cap) (by omega)
  slots

set_option maxHeartbeats 1000000 in -- many (layout × branch) leaves, each closed by omega
theorem rmBackWrap_spec (d : Deque) (index : Nat) (m : Mem) (hi : d.Inv) (hidx : index < d.size)
    (h1 : 1 ≤ index) (hp : (d.first + index) % d.cap > d.last % d.cap) :
    (d.rmBackWrap index m).2 = m ∧ (d.rmBackWrap index m).1.length = d.buf.length ∧
    ∀ j, j < d.size - 1 → (d.rmBackWrap index m).1.get ((d.first + j) % d.cap) =
      if j < index then d.buf.get ((d.first + j) % d.cap) else d.buf.get ((d.first + (j + 1)) % d.cap) := by
  have hlast := Inv.last_lt hi
  obtain ⟨hpw, hmax, hl, hf, hla, hsz⟩ := hi
  rw [Nat.mod_eq_of_lt hlast] at hp
  have c5 := mod_cases (x := d.first + index) (c := d.cap) (by omega)
  have c0 := mod_cases (x := d.first + d.size) (c := d.cap) (by omega)
  unfold rmBackWrap
  simp only [Nat.mod_eq_of_lt hlast]
  split <;> split <;> simp only [wr_fst, mv_fst, rd_fst]
  all_goals refine ⟨by memok, by simp, ?_⟩
  all_goals
    (intro j hj
     have c3 := mod_cases (x := d.first + j) (c := d.cap) (by omega)
     have c4 := mod_cases (x := d.first + (j + 1)) (c := d.cap) (by omega)
     rcases c0 with c0 | c0 <;> rcases c3 with c3 | c3 <;>
       rcases c4 with c4 | c4 <;> rcases c5 with c5 | c5 <;> first | omega | slots)

/-! ## `remove_at` -/

theorem frontHalf_of_two_le {index size : Nat} (h : 2 ≤ size) :
    frontHalf index size = decide (index + 1 ≤ size / 2) := by
  unfold frontHalf
  rw [if_neg (by omega)]
  by_cases h2 : index + 1 ≤ size / 2
  · simp [h2]; omega
  · simp [h2]; omega

open CC.Spec in
/-- **`cc_deque_remove_at` refines `List.eraseIdx` in every layout and for every index**: same status
and out-value, the abstraction commutes, the invariant is preserved, no access is out of bounds and
nothing is allocated; an out-of-range index leaves the whole state unchanged. -/
theorem removeAt_spec (d : Deque) (index : Nat) (m : Mem) (hi : d.Inv) :
    (d.removeAt index m).1 = (DequeSpec.removeAt d.abs index).1 ∧
    (d.removeAt index m).2.1 = (DequeSpec.removeAt d.abs index).2.1 ∧
    (d.removeAt index m).2.2.1.abs = (DequeSpec.removeAt d.abs index).2.2 ∧
    (d.removeAt index m).2.2.1.Inv ∧ (d.removeAt index m).2.2.2 = m ∧
    (d.removeAt index m).2.2.1.cap = d.cap := by
  have hpos := Inv.cap_pos hi
  have hlast := Inv.last_lt hi
  have hi' := hi
  obtain ⟨hpw, hmax, hl, hf, hla, hsz⟩ := hi
  by_cases h0 : index ≥ d.size
  · unfold removeAt DequeSpec.removeAt
    rw [if_pos h0, dif_neg (by simp; omega)]
    exact ⟨rfl, rfl, rfl, hi', rfl, rfl⟩
  have hidx : index < d.size := by omega
  have hslot : (d.first + index) % d.cap < d.buf.length := Nat.lt_of_lt_of_le (Nat.mod_lt _ hpos) (Nat.le_of_eq hl.symm)
  have hrd : (rd d.buf ((d.first + index) % d.cap) m).2 = m := rd_snd _ _ _ hslot
  unfold removeAt
  rw [if_neg h0]
  simp only [hrd]
  by_cases hz : index = 0
  · rw [if_pos hz]; subst hz; exact removeFirst_spec d m hi'
  rw [if_neg hz]
  by_cases hc : index = d.cap - 1
  · rw [if_pos hc]
    have : index = d.size - 1 := by omega
    rw [this]; exact removeLast_spec d m hi'
  rw [if_neg hc]
  have hlen : index < d.abs.length := by simpa using hidx
  have hspec : DequeSpec.removeAt d.abs index = (.ok, some d.abs[index], d.abs.eraseIdx index) := by
    unfold DequeSpec.removeAt; rw [dif_pos hlen]
  rw [hspec]
  have hout : (rd d.buf ((d.first + index) % d.cap) m).1 = d.abs[index] := by rw [abs_getElem]; rfl
  have c0 := mod_cases (x := d.first + d.size) (c := d.cap) (by omega)
  have c1 := mod_cases (x := d.first + 1) (c := d.cap) (by omega)
  have c2 := mod_cases (x := (d.first + 1) % d.cap + (d.size - 1)) (c := d.cap) (by omega)
  have c3 := mod_cases (x := d.first + (d.size - 1)) (c := d.cap) (by omega)
  have hdm := decMask_of_lt hlast
  split
  · -- front half: `first` advances
    split
    · rename_i hp
      obtain ⟨b1, b2, b3⟩ := rmFrontWrap_spec d index m hi' hidx (by omega) hp
      refine ⟨rfl, by rw [hout], ?_, ⟨hpw, hmax, by simpa [b2] using hl, ?_, ?_, ?_⟩, b1, rfl⟩
      · exact abs_erase_front d _ index hi' hidx rfl rfl rfl b3
      · simp only; omega
      · simp only; omega
      · simp only; omega
    · rename_i hp
      obtain ⟨b1, b2, b3⟩ := rmFrontContig_spec d index m hi' hidx (by omega) hp
      refine ⟨rfl, by rw [hout], ?_, ⟨hpw, hmax, by simpa [b2] using hl, ?_, ?_, ?_⟩, b1, rfl⟩
      · exact abs_erase_front d _ index hi' hidx rfl rfl rfl b3
      · simp only; omega
      · simp only; omega
      · simp only; omega
  · -- back half: `last` retreats
    split
    · rename_i hp
      obtain ⟨b1, b2, b3⟩ := rmBackWrap_spec d index m hi' hidx (by omega) hp
      refine ⟨rfl, by rw [hout], ?_, ⟨hpw, hmax, by simpa [b2] using hl, hf, ?_, ?_⟩, b1, rfl⟩
      · exact abs_erase_back d _ index hidx rfl rfl rfl b3
      · simp only; split at hdm <;> omega
      · simp only; omega
    · rename_i hp
      obtain ⟨b1, b2, b3⟩ := rmBackContig_spec d index m hi' hidx (by omega) hp
      refine ⟨rfl, by rw [hout], ?_, ⟨hpw, hmax, by simpa [b2] using hl, hf, ?_, ?_⟩, b1, rfl⟩
      · exact abs_erase_back d _ index hidx rfl rfl rfl b3
      · simp only; split at hdm <;> omega
      · simp only; omega

theorem removeAt_triple (d : Deque) (i : Nat) (m : Mem) : (d.removeAt i m).2.2.1.triple = d.triple := by
  unfold removeAt
  split; · rfl
  dsimp only
  split; · exact removeFirst_triple d _
  split; · exact removeLast_triple d _
  split <;> rfl

end CC.Deque
