import CollectionsC.Proofs.DequeCross
/-! Allocator independence (C14): every model function of the deque depends on the ledger `m` only through
the schedule of refusals `m.sched` — two ledgers with the same schedule give the same statuses, the same
out-values and the same physical states (and again equal schedules).  This is the model's form of "runs on
a pool exactly like on malloc as long as the pool does not refuse".  No invariant is needed: the buffer
contents computed by `rd/wr/mv/cpy` never look at the ledger. -/
namespace CC.Deque
open CC

theorem alloc_congr {m m' : Mem} (h : m.sched = m'.sched) :
    m.alloc.1 = m'.alloc.1 ∧ m.alloc.2.sched = m'.alloc.2.sched := by
  unfold Mem.alloc; rw [h]
  cases m'.sched with
  | nil => exact ⟨rfl, rfl⟩
  | cons b r => cases b <;> exact ⟨rfl, rfl⟩

theorem allocT_congr (t : Triple) {m m' : Mem} (h : m.sched = m'.sched) :
    (m.allocT t).1 = (m'.allocT t).1 ∧ (m.allocT t).2.sched = (m'.allocT t).2.sched := by
  cases t
  · exact alloc_congr h
  · exact ⟨rfl, h⟩

theorem free_congr (t : Triple) {m m' : Mem} (h : m.sched = m'.sched) : (m.freeT t).sched = (m'.freeT t).sched := by
  rw [freeT_sched, freeT_sched, h]

theorem check_congr {m m' : Mem} (b : Bool) (h : m.sched = m'.sched) : (m.check b).sched = (m'.check b).sched := by
  rw [Mem.check_sched, Mem.check_sched, h]

/-! ## buffer copies -/

theorem copyStep_fold_indep (d : Deque) (f : Nat → Nat) (l : List Nat) (b : Buf Nat) (m m' : Mem)
    (h : m.sched = m'.sched) :
    (l.foldl (copyStep d f) (b, m)).1 = (l.foldl (copyStep d f) (b, m')).1 ∧
    (l.foldl (copyStep d f) (b, m)).2.sched = (l.foldl (copyStep d f) (b, m')).2.sched := by
  induction l generalizing b m m' with
  | nil => exact ⟨rfl, h⟩
  | cons i l ih =>
    simp only [List.foldl_cons]
    have h1 : (copyStep d f (b, m) i).1 = (copyStep d f (b, m') i).1 := rfl
    have h2 : (copyStep d f (b, m) i).2.sched = (copyStep d f (b, m') i).2.sched := by
      simp only [copyStep, wr, rd, Mem.check_sched]; exact h
    have := ih (copyStep d f (b, m) i).1 (copyStep d f (b, m) i).2 (copyStep d f (b, m') i).2 h2
    rw [show copyStep d f (b, m) i = ((copyStep d f (b, m) i).1, (copyStep d f (b, m) i).2) from rfl]
    rw [show copyStep d f (b, m') i = ((copyStep d f (b, m') i).1, (copyStep d f (b, m') i).2) from rfl]
    rw [← h1]; exact this

theorem copyBuffer_indep (d : Deque) (b : Buf Nat) (cp : Option (Nat → Nat)) (m m' : Mem) (h : m.sched = m'.sched) :
    (d.copyBuffer b cp m).1 = (d.copyBuffer b cp m').1 ∧
    (d.copyBuffer b cp m).2.sched = (d.copyBuffer b cp m').2.sched := by
  unfold copyBuffer
  split
  · exact ⟨rfl, h⟩
  · cases cp with
    | none =>
      simp only
      split
      · exact ⟨rfl, by simp only [cpy, Mem.check_sched]; exact h⟩
      · exact ⟨rfl, by simp only [cpy, Mem.check_sched]; exact h⟩
    | some f => exact copyStep_fold_indep d f _ b m m' h

/-! ## growth and the two ends -/

theorem expandCapacity_indep (d : Deque) (m m' : Mem) (h : m.sched = m'.sched) :
    (d.expandCapacity m).1 = (d.expandCapacity m').1 ∧ (d.expandCapacity m).2.1 = (d.expandCapacity m').2.1 ∧
    (d.expandCapacity m).2.2.sched = (d.expandCapacity m').2.2.sched := by
  obtain ⟨a1, a2⟩ := allocT_congr d.triple h
  by_cases hc : d.cap = Gen.MAX_POW_TWO
  · rw [expandCapacity_max d m hc, expandCapacity_max d m' hc]; exact ⟨rfl, rfl, h⟩
  · cases ha : (m.allocT d.triple).1
    · rw [expandCapacity_refused d m hc ha, expandCapacity_refused d m' hc (by rw [← a1]; exact ha)]
      exact ⟨rfl, rfl, a2⟩
    · rw [expandCapacity_grow d m hc ha, expandCapacity_grow d m' hc (by rw [← a1]; exact ha)]
      obtain ⟨c1, c2⟩ := copyBuffer_indep d (Buf.mk (d.cap <<< 1)) none (m.allocT d.triple).2 (m'.allocT d.triple).2 a2
      refine ⟨rfl, by simp only; rw [c1], free_congr _ c2⟩

theorem addLastCore_indep (d : Deque) (x : Nat) (m m' : Mem) (h : m.sched = m'.sched) :
    (d.addLastCore x m).1 = (d.addLastCore x m').1 ∧ (d.addLastCore x m).2.1 = (d.addLastCore x m').2.1 ∧
    (d.addLastCore x m).2.2.sched = (d.addLastCore x m').2.2.sched :=
  ⟨rfl, rfl, by simp only [addLastCore, wr, Mem.check_sched]; exact h⟩

theorem addFirstCore_indep (d : Deque) (x : Nat) (m m' : Mem) (h : m.sched = m'.sched) :
    (d.addFirstCore x m).1 = (d.addFirstCore x m').1 ∧ (d.addFirstCore x m).2.1 = (d.addFirstCore x m').2.1 ∧
    (d.addFirstCore x m).2.2.sched = (d.addFirstCore x m').2.2.sched :=
  ⟨rfl, rfl, by simp only [addFirstCore, wr, Mem.check_sched]; exact h⟩

/-- shape shared by `add_first`, `add_last`, `add_at`: grow when full, then a ledger-blind core -/
theorem grow_then_indep (d : Deque) (full : Prop) [Decidable full] (core : Deque → Mem → Stat × Deque × Mem)
    (hcore : ∀ e n n', n.sched = n'.sched → (core e n).1 = (core e n').1 ∧ (core e n).2.1 = (core e n').2.1 ∧
      (core e n).2.2.sched = (core e n').2.2.sched)
    (m m' : Mem) (h : m.sched = m'.sched) :
    let f := fun (m : Mem) => if full then
        (if (d.expandCapacity m).1 != .ok then (Stat.errAlloc, (d.expandCapacity m).2.1, (d.expandCapacity m).2.2)
         else core (d.expandCapacity m).2.1 (d.expandCapacity m).2.2)
      else core d m
    (f m).1 = (f m').1 ∧ (f m).2.1 = (f m').2.1 ∧ (f m).2.2.sched = (f m').2.2.sched := by
  intro f
  simp only [f]
  split
  · obtain ⟨e1, e2, e3⟩ := expandCapacity_indep d m m' h
    rw [e1, e2]
    split
    · exact ⟨rfl, rfl, e3⟩
    · exact hcore _ _ _ e3
  · exact hcore d m m' h

theorem addLast_indep (d : Deque) (x : Nat) (m m' : Mem) (h : m.sched = m'.sched) :
    (d.addLast x m).1 = (d.addLast x m').1 ∧ (d.addLast x m).2.1 = (d.addLast x m').2.1 ∧
    (d.addLast x m).2.2.sched = (d.addLast x m').2.2.sched :=
  grow_then_indep d (d.cap = d.size) (fun e n => e.addLastCore x n) (fun e n n' hn => addLastCore_indep e x n n' hn) m m' h

theorem addFirst_indep (d : Deque) (x : Nat) (m m' : Mem) (h : m.sched = m'.sched) :
    (d.addFirst x m).1 = (d.addFirst x m').1 ∧ (d.addFirst x m).2.1 = (d.addFirst x m').2.1 ∧
    (d.addFirst x m).2.2.sched = (d.addFirst x m').2.2.sched :=
  grow_then_indep d (d.size ≥ d.cap) (fun e n => e.addFirstCore x n) (fun e n n' hn => addFirstCore_indep e x n n' hn) m m' h

/-! ## the shifting blocks, `add_at`, `remove_at` -/

/-- a block built from `rd/wr/mv` only: same buffer, same schedule -/
macro "blk" h:ident : tactic => `(tactic|
  (dsimp only
   repeat' split
   all_goals exact ⟨rfl, by simp only [wr, mv, rd, Mem.check_sched]; exact $h⟩))

theorem adFrontWrap_indep (d : Deque) (i : Nat) (m m' : Mem) (h : m.sched = m'.sched) :
    (d.adFrontWrap i m).1 = (d.adFrontWrap i m').1 ∧ (d.adFrontWrap i m).2.sched = (d.adFrontWrap i m').2.sched := by
  unfold adFrontWrap; blk h
theorem adFrontContig_indep (d : Deque) (i : Nat) (m m' : Mem) (h : m.sched = m'.sched) :
    (d.adFrontContig i m).1 = (d.adFrontContig i m').1 ∧ (d.adFrontContig i m).2.sched = (d.adFrontContig i m').2.sched := by
  unfold adFrontContig; exact ⟨rfl, by simp only [mv, Mem.check_sched]; exact h⟩
theorem adBackWrap_indep (d : Deque) (i : Nat) (m m' : Mem) (h : m.sched = m'.sched) :
    (d.adBackWrap i m).1 = (d.adBackWrap i m').1 ∧ (d.adBackWrap i m).2.sched = (d.adBackWrap i m').2.sched := by
  unfold adBackWrap; blk h
theorem adBackContig_indep (d : Deque) (i : Nat) (m m' : Mem) (h : m.sched = m'.sched) :
    (d.adBackContig i m).1 = (d.adBackContig i m').1 ∧ (d.adBackContig i m).2.sched = (d.adBackContig i m').2.sched := by
  unfold adBackContig; exact ⟨rfl, by simp only [mv, Mem.check_sched]; exact h⟩
theorem rmFrontWrap_indep (d : Deque) (i : Nat) (m m' : Mem) (h : m.sched = m'.sched) :
    (d.rmFrontWrap i m).1 = (d.rmFrontWrap i m').1 ∧ (d.rmFrontWrap i m).2.sched = (d.rmFrontWrap i m').2.sched := by
  unfold rmFrontWrap; blk h
theorem rmFrontContig_indep (d : Deque) (i : Nat) (m m' : Mem) (h : m.sched = m'.sched) :
    (d.rmFrontContig i m).1 = (d.rmFrontContig i m').1 ∧ (d.rmFrontContig i m).2.sched = (d.rmFrontContig i m').2.sched := by
  unfold rmFrontContig; exact ⟨rfl, by simp only [mv, Mem.check_sched]; exact h⟩
theorem rmBackWrap_indep (d : Deque) (i : Nat) (m m' : Mem) (h : m.sched = m'.sched) :
    (d.rmBackWrap i m).1 = (d.rmBackWrap i m').1 ∧ (d.rmBackWrap i m).2.sched = (d.rmBackWrap i m').2.sched := by
  unfold rmBackWrap; blk h
theorem rmBackContig_indep (d : Deque) (i : Nat) (m m' : Mem) (h : m.sched = m'.sched) :
    (d.rmBackContig i m).1 = (d.rmBackContig i m').1 ∧ (d.rmBackContig i m).2.sched = (d.rmBackContig i m').2.sched := by
  unfold rmBackContig; exact ⟨rfl, by simp only [mv, Mem.check_sched]; exact h⟩

theorem addAtCore_indep (d : Deque) (x i : Nat) (m m' : Mem) (h : m.sched = m'.sched) :
    (d.addAtCore x i m).1 = (d.addAtCore x i m').1 ∧ (d.addAtCore x i m).2.1 = (d.addAtCore x i m').2.1 ∧
    (d.addAtCore x i m).2.2.sched = (d.addAtCore x i m').2.2.sched := by
  unfold addAtCore
  dsimp only
  split
  · exact addFirst_indep d x m m' h
  split
  · exact addLast_indep d x m m' h
  split
  · split
    · obtain ⟨b1, b2⟩ := adFrontWrap_indep d i m m' h
      exact ⟨rfl, by simp only [b1, wr_fst], by simp only [wr, Mem.check_sched]; exact b2⟩
    · obtain ⟨b1, b2⟩ := adFrontContig_indep d i m m' h
      exact ⟨rfl, by simp only [b1, wr_fst], by simp only [wr, Mem.check_sched]; exact b2⟩
  · split
    · obtain ⟨b1, b2⟩ := adBackWrap_indep d i m m' h
      exact ⟨rfl, by simp only [b1, wr_fst], by simp only [wr, Mem.check_sched]; exact b2⟩
    · obtain ⟨b1, b2⟩ := adBackContig_indep d i m m' h
      exact ⟨rfl, by simp only [b1, wr_fst], by simp only [wr, Mem.check_sched]; exact b2⟩

theorem addAt_indep (d : Deque) (x i : Nat) (m m' : Mem) (h : m.sched = m'.sched) :
    (d.addAt x i m).1 = (d.addAt x i m').1 ∧ (d.addAt x i m).2.1 = (d.addAt x i m').2.1 ∧
    (d.addAt x i m).2.2.sched = (d.addAt x i m').2.2.sched := by
  unfold addAt
  split
  · exact ⟨rfl, rfl, h⟩
  · exact grow_then_indep d (d.cap = d.size) (fun e n => e.addAtCore x i n)
      (fun e n n' hn => addAtCore_indep e x i n n' hn) m m' h

theorem replaceAt_indep (d : Deque) (x i : Nat) (m m' : Mem) (h : m.sched = m'.sched) :
    (d.replaceAt x i m).1 = (d.replaceAt x i m').1 ∧ (d.replaceAt x i m).2.1 = (d.replaceAt x i m').2.1 ∧
    (d.replaceAt x i m).2.2.1 = (d.replaceAt x i m').2.2.1 ∧
    (d.replaceAt x i m).2.2.2.sched = (d.replaceAt x i m').2.2.2.sched := by
  unfold replaceAt
  split
  · exact ⟨rfl, rfl, rfl, h⟩
  · exact ⟨rfl, rfl, rfl, by simp only [wr, rd, Mem.check_sched]; exact h⟩

theorem removeFirst_indep (d : Deque) (m m' : Mem) (h : m.sched = m'.sched) :
    (d.removeFirst m).1 = (d.removeFirst m').1 ∧ (d.removeFirst m).2.1 = (d.removeFirst m').2.1 ∧
    (d.removeFirst m).2.2.1 = (d.removeFirst m').2.2.1 ∧
    (d.removeFirst m).2.2.2.sched = (d.removeFirst m').2.2.2.sched := by
  unfold removeFirst
  split
  · exact ⟨rfl, rfl, rfl, h⟩
  · exact ⟨rfl, rfl, rfl, by simp only [rd, Mem.check_sched]; exact h⟩

theorem removeLast_indep (d : Deque) (m m' : Mem) (h : m.sched = m'.sched) :
    (d.removeLast m).1 = (d.removeLast m').1 ∧ (d.removeLast m).2.1 = (d.removeLast m').2.1 ∧
    (d.removeLast m).2.2.1 = (d.removeLast m').2.2.1 ∧
    (d.removeLast m).2.2.2.sched = (d.removeLast m').2.2.2.sched := by
  unfold removeLast
  split
  · exact ⟨rfl, rfl, rfl, h⟩
  · exact ⟨rfl, rfl, rfl, by simp only [rd, Mem.check_sched]; exact h⟩

theorem removeAt_indep (d : Deque) (i : Nat) (m m' : Mem) (h : m.sched = m'.sched) :
    (d.removeAt i m).1 = (d.removeAt i m').1 ∧ (d.removeAt i m).2.1 = (d.removeAt i m').2.1 ∧
    (d.removeAt i m).2.2.1 = (d.removeAt i m').2.2.1 ∧
    (d.removeAt i m).2.2.2.sched = (d.removeAt i m').2.2.2.sched := by
  unfold removeAt
  split
  · exact ⟨rfl, rfl, rfl, h⟩
  dsimp only
  have hr : (rd d.buf ((d.first + i) % d.cap) m).2.sched = (rd d.buf ((d.first + i) % d.cap) m').2.sched := by
    simp only [rd, Mem.check_sched]; exact h
  split
  · exact removeFirst_indep d _ _ hr
  split
  · exact removeLast_indep d _ _ hr
  split
  · split
    · obtain ⟨b1, b2⟩ := rmFrontWrap_indep d i _ _ hr
      exact ⟨rfl, rfl, by rw [b1], b2⟩
    · obtain ⟨b1, b2⟩ := rmFrontContig_indep d i _ _ hr
      exact ⟨rfl, rfl, by rw [b1], b2⟩
  · split
    · obtain ⟨b1, b2⟩ := rmBackWrap_indep d i _ _ hr
      exact ⟨rfl, rfl, by rw [b1], b2⟩
    · obtain ⟨b1, b2⟩ := rmBackContig_indep d i _ _ hr
      exact ⟨rfl, rfl, by rw [b1], b2⟩

theorem indexOf_indep (d : Deque) (x : Nat) (m m' : Mem) (h : m.sched = m'.sched) :
    (d.indexOf x m).1 = (d.indexOf x m').1 ∧ (d.indexOf x m).2.1 = (d.indexOf x m').2.1 ∧
    (d.indexOf x m).2.2.sched = (d.indexOf x m').2.2.sched := by
  unfold indexOf
  dsimp only
  split <;> exact ⟨rfl, rfl, by simp only [Mem.check_sched]; exact h⟩

theorem remove_indep (d : Deque) (x : Nat) (m m' : Mem) (h : m.sched = m'.sched) :
    (d.remove x m).1 = (d.remove x m').1 ∧ (d.remove x m).2.1 = (d.remove x m').2.1 ∧
    (d.remove x m).2.2.1 = (d.remove x m').2.2.1 ∧
    (d.remove x m).2.2.2.sched = (d.remove x m').2.2.2.sched := by
  obtain ⟨i1, i2, i3⟩ := indexOf_indep d x m m' h
  unfold remove
  dsimp only
  rw [i1, i2]
  split
  · exact ⟨rfl, rfl, rfl, i3⟩
  · exact removeAt_indep d _ _ _ i3

/-! ## lookups, `trim`, `reverse`, `filter_mut` -/

theorem getters_indep (d : Deque) (i x : Nat) (eqv : Nat → Nat → Bool) (m m' : Mem) (h : m.sched = m'.sched) :
    ((d.getAt i m).1 = (d.getAt i m').1 ∧ (d.getAt i m).2.1 = (d.getAt i m').2.1 ∧
      (d.getAt i m).2.2.sched = (d.getAt i m').2.2.sched) ∧
    ((d.getFirst m).1 = (d.getFirst m').1 ∧ (d.getFirst m).2.1 = (d.getFirst m').2.1 ∧
      (d.getFirst m).2.2.sched = (d.getFirst m').2.2.sched) ∧
    ((d.getLast m).1 = (d.getLast m').1 ∧ (d.getLast m).2.1 = (d.getLast m').2.1 ∧
      (d.getLast m).2.2.sched = (d.getLast m').2.2.sched) ∧
    ((d.contains x m).1 = (d.contains x m').1 ∧ (d.contains x m).2.sched = (d.contains x m').2.sched) ∧
    ((d.containsValue x eqv m).1 = (d.containsValue x eqv m').1 ∧
      (d.containsValue x eqv m).2.sched = (d.containsValue x eqv m').2.sched) ∧
    ((d.foreach m).1 = (d.foreach m').1 ∧ (d.foreach m).2.sched = (d.foreach m').2.sched) := by
  refine ⟨?_, ?_, ?_, ?_, ?_, ?_⟩
  · unfold getAt; split
    · exact ⟨rfl, rfl, h⟩
    · exact ⟨rfl, rfl, by simp only [rd, Mem.check_sched]; exact h⟩
  · unfold getFirst; split
    · exact ⟨rfl, rfl, h⟩
    · exact ⟨rfl, rfl, by simp only [rd, Mem.check_sched]; exact h⟩
  · unfold getLast; split
    · exact ⟨rfl, rfl, h⟩
    · exact ⟨rfl, rfl, by simp only [rd, Mem.check_sched]; exact h⟩
  · exact ⟨rfl, by simp only [contains, Mem.check_sched]; exact h⟩
  · exact ⟨rfl, by simp only [containsValue, Mem.check_sched]; exact h⟩
  · exact ⟨rfl, by simp only [foreach, Mem.check_sched]; exact h⟩

theorem trimCapacity_indep (d : Deque) (m m' : Mem) (h : m.sched = m'.sched) :
    (d.trimCapacity m).1 = (d.trimCapacity m').1 ∧ (d.trimCapacity m).2.1 = (d.trimCapacity m').2.1 ∧
    (d.trimCapacity m).2.2.sched = (d.trimCapacity m').2.2.sched := by
  obtain ⟨a1, a2⟩ := allocT_congr d.triple h
  unfold trimCapacity
  split
  · exact ⟨rfl, rfl, h⟩
  dsimp only
  split
  · exact ⟨rfl, rfl, h⟩
  rw [a1]
  split
  · exact ⟨rfl, rfl, a2⟩
  · obtain ⟨c1, c2⟩ := copyBuffer_indep d (Buf.mk (upperPow2 d.size)) none (m.allocT d.triple).2 (m'.allocT d.triple).2 a2
    exact ⟨rfl, by simp only [c1], free_congr _ c2⟩

theorem revStep_fold_indep (d : Deque) (l : List Nat) (b : Buf Nat) (m m' : Mem) (h : m.sched = m'.sched) :
    (l.foldl (revStep d) (b, m)).1 = (l.foldl (revStep d) (b, m')).1 ∧
    (l.foldl (revStep d) (b, m)).2.sched = (l.foldl (revStep d) (b, m')).2.sched := by
  induction l generalizing b m m' with
  | nil => exact ⟨rfl, h⟩
  | cons i l ih =>
    simp only [List.foldl_cons]
    have h1 : (revStep d (b, m) i).1 = (revStep d (b, m') i).1 := rfl
    have h2 : (revStep d (b, m) i).2.sched = (revStep d (b, m') i).2.sched := by
      simp only [revStep, wr, rd, Mem.check_sched]; exact h
    have := ih (revStep d (b, m) i).1 (revStep d (b, m) i).2 (revStep d (b, m') i).2 h2
    rw [show revStep d (b, m) i = ((revStep d (b, m) i).1, (revStep d (b, m) i).2) from rfl]
    rw [show revStep d (b, m') i = ((revStep d (b, m') i).1, (revStep d (b, m') i).2) from rfl]
    rw [← h1]; exact this

theorem reverse_indep (d : Deque) (m m' : Mem) (h : m.sched = m'.sched) :
    (d.reverse m).1 = (d.reverse m').1 ∧ (d.reverse m).2.sched = (d.reverse m').2.sched := by
  obtain ⟨r1, r2⟩ := revStep_fold_indep d (List.range (d.size / 2)) d.buf m m' h
  unfold reverse
  exact ⟨by simp only [r1], r2⟩

theorem filterMutLoop_indep (pred : Nat → Bool) (fuel : Nat) (d : Deque) (i : Nat) (m m' : Mem)
    (h : m.sched = m'.sched) :
    (filterMutLoop pred fuel d i m).1 = (filterMutLoop pred fuel d i m').1 ∧
    (filterMutLoop pred fuel d i m).2.sched = (filterMutLoop pred fuel d i m').2.sched := by
  induction fuel generalizing d i m m' with
  | zero => exact ⟨rfl, h⟩
  | succ fuel ih =>
    unfold filterMutLoop
    split
    · dsimp only
      have hr : (rd d.buf ((d.first + i) % d.cap) m).2.sched = (rd d.buf ((d.first + i) % d.cap) m').2.sched := by
        simp only [rd, Mem.check_sched]; exact h
      by_cases hp : (!pred (rd d.buf ((d.first + i) % d.cap) m).1) = true
      · have hp' : (!pred (rd d.buf ((d.first + i) % d.cap) m').1) = true := hp
        rw [if_pos hp, if_pos hp']
        obtain ⟨_, _, q3, q4⟩ := removeAt_indep d i _ _ hr
        rw [q3]
        exact ih _ _ _ _ q4
      · have hp' : ¬ (!pred (rd d.buf ((d.first + i) % d.cap) m').1) = true := hp
        rw [if_neg hp, if_neg hp']
        exact ih _ _ _ _ hr
    · exact ⟨rfl, h⟩

theorem filterMut_indep (d : Deque) (pred : Nat → Bool) (m m' : Mem) (h : m.sched = m'.sched) :
    (d.filterMut pred m).1 = (d.filterMut pred m').1 ∧ (d.filterMut pred m).2.1 = (d.filterMut pred m').2.1 ∧
    (d.filterMut pred m).2.2.sched = (d.filterMut pred m').2.2.sched := by
  unfold filterMut
  split
  · exact ⟨rfl, rfl, h⟩
  · obtain ⟨q1, q2⟩ := filterMutLoop_indep pred d.size d 0 m m' h
    exact ⟨rfl, q1, q2⟩

/-! ## constructor and builders -/

theorem new_indep (confCap : Nat) (t : Triple) (m m' : Mem) (h : m.sched = m'.sched) :
    (Deque.new confCap t m).1 = (Deque.new confCap t m').1 ∧ (Deque.new confCap t m).2.1 = (Deque.new confCap t m').2.1 ∧
    (Deque.new confCap t m).2.2.sched = (Deque.new confCap t m').2.2.sched := by
  obtain ⟨a1, a2⟩ := allocT_congr t h
  obtain ⟨b1, b2⟩ := allocT_congr t a2
  unfold Deque.new
  dsimp only
  rw [a1, b1]
  split
  · exact ⟨rfl, rfl, a2⟩
  · split
    · exact ⟨rfl, rfl, free_congr _ b2⟩
    · exact ⟨rfl, rfl, b2⟩

theorem copy_indep (d : Deque) (cp : Option (Nat → Nat)) (m m' : Mem) (h : m.sched = m'.sched) :
    (d.copy cp m).1 = (d.copy cp m').1 ∧ (d.copy cp m).2.1 = (d.copy cp m').2.1 ∧
    (d.copy cp m).2.2.sched = (d.copy cp m').2.2.sched := by
  obtain ⟨a1, a2⟩ := allocT_congr d.triple h
  obtain ⟨b1, b2⟩ := allocT_congr d.triple a2
  unfold copy
  dsimp only
  rw [a1, b1]
  split
  · exact ⟨rfl, rfl, a2⟩
  · split
    · exact ⟨rfl, rfl, free_congr _ b2⟩
    · obtain ⟨c1, c2⟩ := copyBuffer_indep d (Buf.mk d.cap) cp _ _ b2
      exact ⟨rfl, by simp only [c1], c2⟩

theorem filterLoop_indep (d : Deque) (pred : Nat → Bool) (is : List Nat) (f : Deque) (m m' : Mem)
    (h : m.sched = m'.sched) :
    (filterLoop d pred is f m).1 = (filterLoop d pred is f m').1 ∧
    (filterLoop d pred is f m).2.1 = (filterLoop d pred is f m').2.1 ∧
    (filterLoop d pred is f m).2.2.sched = (filterLoop d pred is f m').2.2.sched := by
  induction is generalizing f m m' with
  | nil => exact ⟨rfl, rfl, h⟩
  | cons i is ih =>
    unfold filterLoop
    dsimp only
    have hr : (rd d.buf (d.slot i) m).2.sched = (rd d.buf (d.slot i) m').2.sched := by
      simp only [rd, Mem.check_sched]; exact h
    by_cases hp : pred (rd d.buf (d.slot i) m).1 = true
    · have hp' : pred (rd d.buf (d.slot i) m').1 = true := hp
      rw [if_pos hp, if_pos hp']
      obtain ⟨q1, q2, q3⟩ := addLast_indep f (rd d.buf (d.slot i) m).1 _ _ hr
      have e : (rd d.buf (d.slot i) m').1 = (rd d.buf (d.slot i) m).1 := rfl
      rw [e, q1, q2]
      by_cases hs : ((f.addLast (rd d.buf (d.slot i) m).1 (rd d.buf (d.slot i) m').2).1 != Stat.ok) = true
      · rw [if_pos hs, if_pos hs]
        exact ⟨rfl, rfl, q3⟩
      · rw [if_neg hs, if_neg hs]
        exact ih _ _ _ q3
    · have hp' : ¬ pred (rd d.buf (d.slot i) m').1 = true := hp
      rw [if_neg hp, if_neg hp']
      exact ih _ _ _ hr

theorem filter_indep (d : Deque) (pred : Nat → Bool) (m m' : Mem) (h : m.sched = m'.sched) :
    (d.filter pred m).1 = (d.filter pred m').1 ∧ (d.filter pred m).2.1 = (d.filter pred m').2.1 ∧
    (d.filter pred m).2.2.sched = (d.filter pred m').2.2.sched := by
  obtain ⟨n1, n2, n3⟩ := new_indep d.cap d.triple m m' h
  unfold filter
  split
  · exact ⟨rfl, rfl, h⟩
  dsimp only
  rw [n1, n2]
  split
  · exact ⟨rfl, rfl, n3⟩
  · rename_i f0 _
    obtain ⟨q1, q2, q3⟩ := filterLoop_indep d pred (List.range d.size) f0 _ _ n3
    rw [q1, q2]
    split
    · exact ⟨rfl, rfl, by unfold destroy; exact free_congr _ (free_congr _ q3)⟩
    · exact ⟨rfl, rfl, q3⟩

/-! ## iterators -/

theorem iterNext_indep (it : Iter) (d : Deque) (m m' : Mem) (h : m.sched = m'.sched) :
    (iterNext it d m).1 = (iterNext it d m').1 ∧ (iterNext it d m).2.1 = (iterNext it d m').2.1 ∧
    (iterNext it d m).2.2.1 = (iterNext it d m').2.2.1 ∧
    (iterNext it d m).2.2.2.sched = (iterNext it d m').2.2.2.sched := by
  unfold iterNext
  split
  · exact ⟨rfl, rfl, rfl, h⟩
  · exact ⟨rfl, rfl, rfl, by simp only [rd, Mem.check_sched]; exact h⟩

theorem iterRemove_indep (it : Iter) (d : Deque) (m m' : Mem) (h : m.sched = m'.sched) :
    (iterRemove it d m).1 = (iterRemove it d m').1 ∧ (iterRemove it d m).2.1 = (iterRemove it d m').2.1 ∧
    (iterRemove it d m).2.2.1 = (iterRemove it d m').2.2.1 ∧
    (iterRemove it d m).2.2.2.1 = (iterRemove it d m').2.2.2.1 ∧
    (iterRemove it d m).2.2.2.2.sched = (iterRemove it d m').2.2.2.2.sched := by
  obtain ⟨r1, r2, r3, r4⟩ := removeAt_indep d (decIdx it.index) m m' h
  unfold iterRemove
  split
  · exact ⟨rfl, rfl, rfl, rfl, h⟩
  · dsimp only
    rw [r1, r2, r3]
    split <;> exact ⟨rfl, rfl, rfl, rfl, r4⟩

theorem iterAdd_indep (it : Iter) (d : Deque) (x : Nat) (m m' : Mem) (h : m.sched = m'.sched) :
    (iterAdd it d x m).1 = (iterAdd it d x m').1 ∧ (iterAdd it d x m).2.1 = (iterAdd it d x m').2.1 ∧
    (iterAdd it d x m).2.2.1 = (iterAdd it d x m').2.2.1 ∧
    (iterAdd it d x m).2.2.2.sched = (iterAdd it d x m').2.2.2.sched := by
  unfold iterAdd
  dsimp only
  split
  · obtain ⟨r1, r2, r3⟩ := addLast_indep d x m m' h
    rw [r1, r2]
    split <;> exact ⟨rfl, rfl, rfl, r3⟩
  · obtain ⟨r1, r2, r3⟩ := addAt_indep d x it.index m m' h
    rw [r1, r2]
    split <;> exact ⟨rfl, rfl, rfl, r3⟩

theorem iterReplace_indep (it : Iter) (d : Deque) (x : Nat) (m m' : Mem) (h : m.sched = m'.sched) :
    (iterReplace it d x m).1 = (iterReplace it d x m').1 ∧ (iterReplace it d x m).2.1 = (iterReplace it d x m').2.1 ∧
    (iterReplace it d x m).2.2.1 = (iterReplace it d x m').2.2.1 ∧
    (iterReplace it d x m).2.2.2.sched = (iterReplace it d x m').2.2.2.sched :=
  replaceAt_indep d x (decIdx it.index) m m' h

/-! ## zip iterator -/

theorem zipNext_indep (it : Iter) (d1 d2 : Deque) (m m' : Mem) (h : m.sched = m'.sched) :
    (zipNext it d1 d2 m).1 = (zipNext it d1 d2 m').1 ∧ (zipNext it d1 d2 m).2.1 = (zipNext it d1 d2 m').2.1 ∧
    (zipNext it d1 d2 m).2.2.1 = (zipNext it d1 d2 m').2.2.1 ∧
    (zipNext it d1 d2 m).2.2.2.sched = (zipNext it d1 d2 m').2.2.2.sched := by
  unfold zipNext
  split
  · exact ⟨rfl, rfl, rfl, h⟩
  split
  · exact ⟨rfl, rfl, rfl, h⟩
  · exact ⟨rfl, rfl, rfl, by simp only [rd, Mem.check_sched]; exact h⟩

theorem zipRemove_indep (it : Iter) (d1 d2 : Deque) (m m' : Mem) (h : m.sched = m'.sched) :
    (zipRemove it d1 d2 m).1 = (zipRemove it d1 d2 m').1 ∧ (zipRemove it d1 d2 m).2.1 = (zipRemove it d1 d2 m').2.1 ∧
    (zipRemove it d1 d2 m).2.2.1 = (zipRemove it d1 d2 m').2.2.1 ∧
    (zipRemove it d1 d2 m).2.2.2.1 = (zipRemove it d1 d2 m').2.2.2.1 ∧
    (zipRemove it d1 d2 m).2.2.2.2.1 = (zipRemove it d1 d2 m').2.2.2.2.1 ∧
    (zipRemove it d1 d2 m).2.2.2.2.2.sched = (zipRemove it d1 d2 m').2.2.2.2.2.sched := by
  unfold zipRemove
  split
  · exact ⟨rfl, rfl, rfl, rfl, rfl, h⟩
  split
  · exact ⟨rfl, rfl, rfl, rfl, rfl, h⟩
  · dsimp only
    obtain ⟨_, r2, r3, r4⟩ := removeAt_indep d1 (decIdx it.index) m m' h
    obtain ⟨_, s2, s3, s4⟩ := removeAt_indep d2 (decIdx it.index) _ _ r4
    exact ⟨rfl, by rw [r2, s2], rfl, r3, s3, s4⟩

theorem zipReplace_indep (it : Iter) (d1 d2 : Deque) (x y : Nat) (m m' : Mem) (h : m.sched = m'.sched) :
    (zipReplace it d1 d2 x y m).1 = (zipReplace it d1 d2 x y m').1 ∧
    (zipReplace it d1 d2 x y m).2.1 = (zipReplace it d1 d2 x y m').2.1 ∧
    (zipReplace it d1 d2 x y m).2.2.1 = (zipReplace it d1 d2 x y m').2.2.1 ∧
    (zipReplace it d1 d2 x y m).2.2.2.1 = (zipReplace it d1 d2 x y m').2.2.2.1 ∧
    (zipReplace it d1 d2 x y m).2.2.2.2.sched = (zipReplace it d1 d2 x y m').2.2.2.2.sched := by
  unfold zipReplace
  split
  · exact ⟨rfl, rfl, rfl, rfl, h⟩
  · dsimp only
    obtain ⟨_, r2, r3, r4⟩ := replaceAt_indep d1 x (decIdx it.index) m m' h
    obtain ⟨_, s2, s3, s4⟩ := replaceAt_indep d2 y (decIdx it.index) _ _ r4
    exact ⟨rfl, by rw [r2, s2], r3, s3, s4⟩

theorem growIfFull_indep (d : Deque) (m m' : Mem) (h : m.sched = m'.sched) :
    (growIfFull d m).1 = (growIfFull d m').1 ∧ (growIfFull d m).2.1 = (growIfFull d m').2.1 ∧
    (growIfFull d m).2.2.sched = (growIfFull d m').2.2.sched := by
  unfold growIfFull
  split
  · exact expandCapacity_indep d m m' h
  · exact ⟨rfl, rfl, h⟩

/-- the two insertions (and the undo) of `zip_iter_add`, for arbitrary deques and ledgers -/
theorem zipAdd_tail_indep (it : Iter) (e1 e2 : Deque) (x y : Nat) (n n' : Mem) (h : n.sched = n'.sched) :
    let f := fun (n : Mem) =>
      (if ((e1.addAt x it.index n).1 != Stat.ok) = true then
        ((e1.addAt x it.index n).1, it, (e1.addAt x it.index n).2.1, e2, (e1.addAt x it.index n).2.2)
      else if ((e2.addAt y it.index (e1.addAt x it.index n).2.2).1 != Stat.ok) = true then
        ((e2.addAt y it.index (e1.addAt x it.index n).2.2).1, it,
          ((e1.addAt x it.index n).2.1.removeAt it.index (e2.addAt y it.index (e1.addAt x it.index n).2.2).2.2).2.2.1,
          (e2.addAt y it.index (e1.addAt x it.index n).2.2).2.1,
          ((e1.addAt x it.index n).2.1.removeAt it.index (e2.addAt y it.index (e1.addAt x it.index n).2.2).2.2).2.2.2)
      else
        (Stat.ok, ({ it with index := it.index + 1 } : Iter), (e1.addAt x it.index n).2.1,
          (e2.addAt y it.index (e1.addAt x it.index n).2.2).2.1, (e2.addAt y it.index (e1.addAt x it.index n).2.2).2.2))
    (f n).1 = (f n').1 ∧ (f n).2.1 = (f n').2.1 ∧ (f n).2.2.1 = (f n').2.2.1 ∧ (f n).2.2.2.1 = (f n').2.2.2.1 ∧
    (f n).2.2.2.2.sched = (f n').2.2.2.2.sched := by
  intro f
  have hA := addAt_indep e1 x it.index n n' h
  simp only [f]
  generalize e1.addAt x it.index n = A at hA ⊢
  generalize e1.addAt x it.index n' = A' at hA ⊢
  obtain ⟨s1, da, ma⟩ := A
  obtain ⟨s1', da', ma'⟩ := A'
  obtain ⟨p1, p2, p3⟩ := hA
  simp only at p1 p2 p3
  subst p1 p2
  have hB := addAt_indep e2 y it.index ma ma' p3
  simp only
  generalize e2.addAt y it.index ma = B at hB ⊢
  generalize e2.addAt y it.index ma' = B' at hB ⊢
  obtain ⟨s2, db, mb⟩ := B
  obtain ⟨s2', db', mb'⟩ := B'
  obtain ⟨q1, q2, q3⟩ := hB
  simp only at q1 q2 q3
  subst q1 q2
  simp only
  obtain ⟨_, _, r3, r4⟩ := removeAt_indep da it.index mb mb' q3
  split
  · exact ⟨rfl, rfl, rfl, rfl, p3⟩
  · split
    · exact ⟨rfl, rfl, r3, rfl, r4⟩
    · exact ⟨rfl, rfl, rfl, rfl, q3⟩

theorem zipAdd_indep (it : Iter) (d1 d2 : Deque) (x y : Nat) (m m' : Mem) (h : m.sched = m'.sched) :
    (zipAdd it d1 d2 x y m).1 = (zipAdd it d1 d2 x y m').1 ∧ (zipAdd it d1 d2 x y m).2.1 = (zipAdd it d1 d2 x y m').2.1 ∧
    (zipAdd it d1 d2 x y m).2.2.1 = (zipAdd it d1 d2 x y m').2.2.1 ∧
    (zipAdd it d1 d2 x y m).2.2.2.1 = (zipAdd it d1 d2 x y m').2.2.2.1 ∧
    (zipAdd it d1 d2 x y m).2.2.2.2.sched = (zipAdd it d1 d2 x y m').2.2.2.2.sched := by
  unfold zipAdd
  split
  · exact ⟨rfl, rfl, rfl, rfl, h⟩
  dsimp only
  have fold1 : ∀ n, (if d1.cap = d1.size then d1.expandCapacity n else (Stat.ok, d1, n)) = growIfFull d1 n :=
    fun _ => rfl
  have fold2 : ∀ n, (if d2.cap = d2.size then d2.expandCapacity n else (Stat.ok, d2, n)) = growIfFull d2 n :=
    fun _ => rfl
  simp only [fold1, fold2]
  obtain ⟨a1, a2, a3⟩ := growIfFull_indep d1 m m' h
  obtain ⟨b1, b2, b3⟩ := growIfFull_indep d2 _ _ a3
  rw [a1, a2]
  split
  · exact ⟨rfl, rfl, rfl, rfl, a3⟩
  rw [b1, b2]
  split
  · exact ⟨rfl, rfl, rfl, rfl, b3⟩
  · exact zipAdd_tail_indep it (growIfFull d1 m').2.1 (growIfFull d2 (growIfFull d1 m').2.2).2.1 x y _ _ b3

end CC.Deque
