import CollectionsC.Proofs.PListOps
import CollectionsC.Spec.LSeq
/-! Pointer-level model of `cc_list.c`, part 11: the read-only observers `get_first/get_last/get_at` on the raw links, and the
NULL-terminated form of the two traversals. -/
namespace CC.PList
open CC
open CC.Spec

theorem getAt_repr {h : Heap} {l : Hdr} {cs : List Cell} (r : Repr h l cs) (i : Nat) :
    getAt h l i = LSeq.getAt (dataOf cs) i := by
  unfold getAt LSeq.getAt
  rw [getNodeAt_repr r, dataOf_length]
  by_cases hi : i < cs.length
  · obtain ⟨pre, a, post, e, _, g, d⟩ := split_at cs i hi
    simp only [hi, if_true, ok_bne, Bool.false_eq_true, if_false, g, Option.map_some, d]
    subst e
    rw [nd_of (Seg_split r.seg).2.1]
  · simp [hi, oor_bne]

theorem getFirst_repr {h : Heap} {l : Hdr} {cs : List Cell} (r : Repr h l cs) : getFirst h l = LSeq.getFirst (dataOf cs) := by
  unfold getFirst
  rw [r.size, r.head]
  cases cs with
  | nil => rfl
  | cons a rest =>
    have := r.seg; rw [Seg_cons] at this
    simp [LSeq.getFirst, nd_of this.1]

theorem getLast_repr {h : Heap} {l : Hdr} {cs : List Cell} (r : Repr h l cs) : getLast h l = LSeq.getLast (dataOf cs) := by
  unfold getLast LSeq.getLast
  rw [r.size, r.tail]
  rcases eq_nil_or_snoc cs with e | ⟨ys, b, e⟩
  · subst e; rfl
  · subst e
    have hs : Seg h none (ys ++ b :: []) none := r.seg
    simp [nd_of (Seg_split hs).2.1, dataOf]

/-- the traversals of a represented list are NULL-terminated after exactly `size` steps: following `next` from `head` (as
`cc_list_iter_next` does) and `prev` from `tail` (`cc_list_diter_next`) `size` times ends at NULL — so the `size`-bounded
`fwd`/`bwd` of `mirror` are the complete NULL-terminated traversals of the C iterators -/
theorem walks_end {h : Heap} {l : Hdr} {cs : List Cell} (r : Repr h l cs) :
    walkNext h l.size l.head = none ∧ walkPrev h l.size l.tail = none := by
  rw [r.size, r.head, r.tail]
  constructor
  · rw [walkNext_seg cs.length r.seg (Nat.le_refl _)]; simp [idsOf]
  · rw [walkPrev_eq]
    have hf := Seg_flip r.seg
    have := walkNext_seg cs.reverse.length hf (Nat.le_refl _)
    rw [List.length_reverse, nxt_reverse] at this
    rw [this]; simp [idsOf]

end CC.PList
