import CollectionsC.Proofs.DListBulk
import CollectionsC.Model.SList
/-! Characterisation of every `cc_slist.c` model function on canonical states `ofList xs`, in the
style of `Proofs/DList.lean`: status/out-value of the ideal list, final state `ofList (spec content)`,
ledger = original ledger plus the stated `alloc`/`free` events (no `check` fails). -/
namespace CC.SList
open CC Chain
open CC.Spec

theorem new_eq (m : Mem) :
    new m = if m.alloc.1 then (.ok, some (ofList []), m.alloc.2) else (.errAlloc, none, m.alloc.2) := by
  unfold new; cases h : m.alloc.1 <;> simp [h, ofList_nil]

theorem getNodeAt_ofList (xs : List Nat) (i : Nat) :
    getNodeAt (ofList xs) i =
      if i < xs.length then (.ok, some i, if i = 0 then none else some (i - 1)) else (.errOutOfRange, none, none) := by
  unfold getNodeAt
  by_cases h : i < xs.length
  · have h0 : xs.length ≠ 0 := by omega
    have hh : (ofList xs).head = some 0 := by simp [ofList, h0]
    simp only [ofList_size, ofList_nodes, h, if_true, ge_iff_le, Nat.not_le.2 h, if_false, hh]
    rw [walkNext_some _ _ _ (by omega)]
    by_cases hi : i = 0
    · simp [hi]
    · rw [if_neg hi, if_neg hi, walkNext_some _ _ _ (by omega)]; simp
  · simp [h, Nat.le_of_not_lt h]

/-- unlinking the `i`-th node, `prev` being its predecessor -/
theorem unlinkn_ofList (xs : List Nat) (i : Nat) (m : Mem) (h : i < xs.length) :
    unlinkn (ofList xs) (some i) (if i = 0 then none else some (i - 1)) m =
      (xs.getD i 0, ofList (xs.eraseIdx i), m.free) := by
  have h0 : xs.length ≠ 0 := by omega
  have h5 : i - 1 < xs.length := by omega
  unfold unlinkn
  by_cases h1 : i = 0
  · subst h1
    by_cases h2 : 0 + 1 < xs.length <;>
      simp only [h2, if_true, if_false, ofList, Chain.del, Ptr.shiftDel, h0, List.length_eraseIdx, h, reduceCtorEq,
        Ptr.valid, decide_true, Mem.check_true, Chain.data, Ptr.next, Ptr.pos, Option.getD_some, bne_self_eq_false,
        Bool.false_eq_true] <;>
      ptr_arith2
  · have hne : ((some (i - 1) : Ptr) != none) = true := rfl
    by_cases h2 : i + 1 < xs.length <;>
      simp only [h1, h2, hne, h5, if_true, if_false, ofList, Chain.del, Ptr.shiftDel, h0, List.length_eraseIdx, h, reduceCtorEq,
        Ptr.valid, decide_true, Mem.check_true, Chain.data, Ptr.next, Ptr.pos, Option.getD_some] <;>
      ptr_arith2

theorem addFirst_ofList (xs : List Nat) (x : Nat) (m : Mem) :
    addFirst (ofList xs) x m =
      if m.alloc.1 then (.ok, ofList (LSeq.addFirst xs x), m.alloc.2) else (.errAlloc, ofList xs, m.alloc.2) := by
  unfold addFirst LSeq.addFirst
  cases h : m.alloc.1 <;> simp [h]
  cases xs with
  | nil => simp [ofList]
  | cons y ys => simp [ofList, Chain.ins, Ptr.pos, Ptr.shiftIns]

theorem addLast_ofList (xs : List Nat) (x : Nat) (m : Mem) :
    addLast (ofList xs) x m =
      if m.alloc.1 then (.ok, ofList (LSeq.addLast xs x), m.alloc.2) else (.errAlloc, ofList xs, m.alloc.2) := by
  unfold addLast LSeq.addLast
  cases h : m.alloc.1 <;> simp [h]
  cases xs with
  | nil => simp [ofList]
  | cons y ys => simp [ofList, Chain.ins, Ptr.valid, Ptr.pos, Ptr.shiftIns]

theorem addAt_ofList (xs : List Nat) (x i : Nat) (m : Mem) :
    addAt (ofList xs) x i m =
      if (LSeq.addAt xs x i).1 = .ok then
        (if m.alloc.1 then (.ok, ofList (LSeq.addAt xs x i).2, m.alloc.2) else (.errAlloc, ofList xs, m.alloc.2))
      else ((LSeq.addAt xs x i).1, ofList xs, m) := by
  unfold addAt LSeq.addAt
  rw [getNodeAt_ofList]
  by_cases h : i < xs.length
  · simp only [h, if_true]
    cases ha : m.alloc.1
    · simp
    · have h0 : xs.length ≠ 0 := by omega
      have h4 : i ≤ xs.length - 1 := by omega
      by_cases hi : i = 0
      · subst hi
        simp [Ptr.pos, ofList, Chain.ins, Ptr.shiftIns, h0]
        omega
      · have h5 : i - 1 < xs.length := by omega
        have h6 : i - 1 + 1 = i := by omega
        simp [hi, Ptr.valid, h5, Ptr.pos, ofList, Chain.ins, Ptr.shiftIns, h0, List.length_insertIdx, Nat.le_of_lt h, h6, h4]
        omega
  · simp [h]
