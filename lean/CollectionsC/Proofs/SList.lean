import CollectionsC.Proofs.DListBulk
import CollectionsC.Model.SList
/-! Characterisation of every `cc_slist.c` model function on canonical states `ofList t xs`, in the
style of `Proofs/DList.lean`: status/out-value of the ideal list, final state `ofList t (spec content)`,
ledger = original ledger plus the stated `alloc`/`free` events (no `check` fails). -/
namespace CC.SList
open CC Chain
open CC.Spec

theorem new_eq (m : Mem) :
    new t m = if (m.allocT t).1 then (.ok, some (ofList t []), (m.allocT t).2) else (.errAlloc, none, (m.allocT t).2) := by
  unfold new; by_cases h : (m.allocT t).1 = true <;> simp [h, ofList_nil]

theorem getNodeAt_ofList (xs : List Nat) (i : Nat) :
    getNodeAt (ofList t xs) i =
      if i < xs.length then (.ok, some i, if i = 0 then none else some (i - 1)) else (.errOutOfRange, none, none) := by
  unfold getNodeAt
  by_cases h : i < xs.length
  · have h0 : xs.length ≠ 0 := by omega
    have hh : (ofList t xs).head = some 0 := by simp [ofList, h0]
    simp only [ofList_size, ofList_nodes, h, if_true, ge_iff_le, Nat.not_le.2 h, if_false, hh]
    rw [walkNext_some _ _ _ (by omega)]
    by_cases hi : i = 0
    · simp [hi]
    · rw [if_neg hi, if_neg hi, walkNext_some _ _ _ (by omega)]; simp
  · simp [h, Nat.le_of_not_lt h]

/-- unlinking the `i`-th node, `prev` being its predecessor -/
theorem unlinkn_ofList (xs : List Nat) (i : Nat) (m : Mem) (h : i < xs.length) :
    unlinkn (ofList t xs) (some i) (if i = 0 then none else some (i - 1)) m =
      (xs.getD i 0, ofList t (xs.eraseIdx i), (m.freeT t)) := by
  have h0 : xs.length ≠ 0 := by omega
  have h5 : i - 1 < xs.length := by omega
  unfold unlinkn
  by_cases h1 : i = 0
  · subst h1
    simp only [if_true, ofList_nodes, Ptr.valid, h, decide_true, Mem.check_true, data_some, Ptr.pos, Option.getD_some,
      bne_self_eq_false, Bool.false_eq_true, if_false, Ptr.next]
    by_cases h2 : 0 + 1 < xs.length <;>
      simp only [h2, if_true, if_false, ofList, Chain.del, Ptr.shiftDel, h0, List.length_eraseIdx, h, reduceCtorEq] <;>
      ptr_arith
  · have hne : ((some (i - 1) : Ptr) != none) = true := rfl
    simp only [h1, if_false, hne, if_true, ofList_nodes, Ptr.valid, h, h5, decide_true, Mem.check_true, data_some, Ptr.pos,
      Option.getD_some, Ptr.next]
    by_cases h2 : i + 1 < xs.length <;>
      simp only [h2, if_true, if_false, ofList, Chain.del, Ptr.shiftDel, h0, List.length_eraseIdx, h, reduceCtorEq] <;>
      ptr_arith

theorem addFirst_ofList (xs : List Nat) (x : Nat) (m : Mem) :
    addFirst (ofList t xs) x m =
      if (m.allocT t).1 then (.ok, ofList t (LSeq.addFirst xs x), (m.allocT t).2) else (.errAlloc, ofList t xs, (m.allocT t).2) := by
  unfold addFirst LSeq.addFirst
  simp only [ofList_triple]
  by_cases h : (m.allocT t).1 = true <;> simp [h]
  cases xs with
  | nil => simp [ofList]
  | cons y ys => simp [ofList, Chain.ins, Ptr.pos, Ptr.shiftIns]

theorem addLast_ofList (xs : List Nat) (x : Nat) (m : Mem) :
    addLast (ofList t xs) x m =
      if (m.allocT t).1 then (.ok, ofList t (LSeq.addLast xs x), (m.allocT t).2) else (.errAlloc, ofList t xs, (m.allocT t).2) := by
  unfold addLast LSeq.addLast
  simp only [ofList_triple]
  by_cases h : (m.allocT t).1 = true <;> simp [h]
  cases xs with
  | nil => simp [ofList]
  | cons y ys => simp [ofList, Chain.ins, Ptr.valid, Ptr.pos, Ptr.shiftIns]

theorem addAt_ofList (xs : List Nat) (x i : Nat) (m : Mem) :
    addAt (ofList t xs) x i m =
      if (LSeq.addAt xs x i).1 = .ok then
        (if (m.allocT t).1 then (.ok, ofList t (LSeq.addAt xs x i).2, (m.allocT t).2) else (.errAlloc, ofList t xs, (m.allocT t).2))
      else ((LSeq.addAt xs x i).1, ofList t xs, m) := by
  unfold addAt LSeq.addAt
  rw [getNodeAt_ofList]
  by_cases h : i < xs.length
  · simp only [h, if_true]
    simp only [ofList_triple]
    by_cases ha : (m.allocT t).1 = true
    case neg => simp [ha]
    case pos =>
      have h0 : xs.length ≠ 0 := by omega
      have h4 : i ≤ xs.length - 1 := by omega
      by_cases hi : i = 0
      · subst hi
        simp [ha, Ptr.pos, ofList, Chain.ins, Ptr.shiftIns, h0]
        omega
      · have h5 : i - 1 < xs.length := by omega
        have h6 : i - 1 + 1 = i := by omega
        simp [ha, hi, Ptr.valid, h5, Ptr.pos, ofList, Chain.ins, Ptr.shiftIns, h0, List.length_insertIdx, Nat.le_of_lt h, h6, h4]
        omega
  · simp [h]

theorem getNode_ofList_mem (xs : List Nat) (x : Nat) (h : x ∈ xs) :
    ∃ i, getNode (ofList t xs) x = (.ok, some i, if i = 0 then none else some (i - 1)) ∧ i < xs.length ∧
      xs.getD i 0 = x ∧ xs.eraseIdx i = xs.erase x := by
  obtain ⟨i, h1, h2, h3, h4⟩ := DList.findIdx?_eq_of_mem xs x h
  refine ⟨i, ?_, h2, h3, h4⟩
  have h0 : xs.length ≠ 0 := by omega
  unfold getNode
  rw [DList.find_head_ofList, h1]
  have hh : (ofList t xs).head = some 0 := by simp [ofList, h0]
  simp only [reduceCtorEq, if_false, hh, Option.some.injEq, Ptr.prev]
  by_cases hi : i = 0 <;> simp [hi]

theorem getNode_ofList_not_mem (xs : List Nat) (x : Nat) (h : x ∉ xs) :
    getNode (ofList t xs) x = (.errValueNotFound, none, none) := by
  unfold getNode
  rw [DList.find_head_ofList, DList.findIdx?_none_of_not_mem xs x h]; simp

theorem remove_ofList (xs : List Nat) (x : Nat) (m : Mem) :
    remove (ofList t xs) x m =
      ((LSeq.remove xs x).1, (LSeq.remove xs x).2.1, ofList t (LSeq.remove xs x).2.2,
       if (LSeq.remove xs x).1 = .ok then (m.freeT t) else m) := by
  unfold remove LSeq.remove
  by_cases h : x ∈ xs
  · obtain ⟨i, h1, h2, h3, h4⟩ := getNode_ofList_mem xs x h
    rw [h1]
    simp only [bne_self_eq_false, Bool.false_eq_true, if_false, h, if_true]
    rw [unlinkn_ofList _ _ _ h2, h3, h4]
  · rw [getNode_ofList_not_mem xs x h]; simp [h]

theorem removeAt_ofList (xs : List Nat) (i : Nat) (m : Mem) :
    removeAt (ofList t xs) i m =
      ((LSeq.removeAt xs i).1, (LSeq.removeAt xs i).2.1, ofList t (LSeq.removeAt xs i).2.2,
       if (LSeq.removeAt xs i).1 = .ok then (m.freeT t) else m) := by
  unfold removeAt LSeq.removeAt
  rw [getNodeAt_ofList]
  by_cases h : i < xs.length
  · simp only [h, if_true, bne_self_eq_false, Bool.false_eq_true, if_false]
    rw [unlinkn_ofList _ _ _ h]
  · simp [h]

theorem removeFirst_ofList (xs : List Nat) (m : Mem) :
    removeFirst (ofList t xs) m =
      ((LSeq.removeFirst xs).1, (LSeq.removeFirst xs).2.1, ofList t (LSeq.removeFirst xs).2.2,
       if (LSeq.removeFirst xs).1 = .ok then (m.freeT t) else m) := by
  unfold removeFirst
  cases xs with
  | nil => simp [LSeq.removeFirst]
  | cons y ys =>
    simp only [ofList_size, List.length_cons, Nat.add_one_ne_zero, if_false, ofList_head_cons]
    have := unlinkn_ofList (t := t) (y :: ys) 0 m (by simp)
    simp only [if_true] at this
    rw [this]; simp [LSeq.removeFirst]

theorem removeLast_ofList (xs : List Nat) (m : Mem) :
    removeLast (ofList t xs) m =
      ((LSeq.removeLast xs).1, (LSeq.removeLast xs).2.1, ofList t (LSeq.removeLast xs).2.2,
       if (LSeq.removeLast xs).1 = .ok then (m.freeT t) else m) := by
  unfold removeLast
  cases xs with
  | nil => simp [LSeq.removeLast]
  | cons y ys =>
    simp only [ofList_size, List.length_cons, Nat.add_one_ne_zero, if_false, getNodeAt_ofList, Nat.add_sub_cancel,
      Nat.lt_add_one, if_true, bne_self_eq_false, Bool.false_eq_true]
    rw [unlinkn_ofList _ _ _ (by simp)]
    have h1 : (y :: ys)[ys.length]?.getD 0 = (y :: ys).getLast?.getD 0 := by
      rw [List.getLast?_eq_getElem?]; simp
    have h2 : (y :: ys).eraseIdx ys.length = (y :: ys).dropLast := List.eraseIdx_eq_dropLast (by simp)
    simp only [LSeq.removeLast, List.getD_eq_getElem?_getD, List.getLastD_eq_getLast?, h1, h2]
    simp

theorem unlinkAllLoop_ofList (hd tl : Ptr) : ∀ (xs : List Nat) (k : Nat) (cb : List Nat) (m : Mem), xs.length ≤ k →
    ∃ l', unlinkAllLoop k { triple := t, nodes := xs, size := xs.length, head := hd, tail := tl }
            (if xs.length = 0 then none else some 0) cb m = (l', cb ++ xs, Mem.freeN t xs.length m) ∧
          l'.nodes = [] ∧ l'.size = 0 ∧ l'.triple = t
  | [], k, cb, m, _ => by cases k <;> simp [unlinkAllLoop, Mem.freeN]
  | y :: ys, 0, cb, m, h => by simp at h
  | y :: ys, k + 1, cb, m, h => by
    simp only [List.length_cons, Nat.add_one_ne_zero, if_false, unlinkAllLoop, Ptr.valid, Nat.zero_lt_succ, decide_true,
      Mem.check_true, Chain.data, Ptr.pos, Option.getD_some, Chain.del, List.eraseIdx_zero, List.tail_cons,
      Nat.add_sub_cancel]
    have hn : (Ptr.next (ys.length + 1) (some 0)).shiftDel 0 = if ys.length = 0 then none else some 0 := by
      cases ys <;> simp [Ptr.next, Ptr.shiftDel]
    rw [hn]
    obtain ⟨l', e, h1, h2, h3⟩ := unlinkAllLoop_ofList (t := t) (hd.shiftDel 0) (tl.shiftDel 0) ys k (cb ++ [y]) (m.freeT t) (by simpa using h)
    refine ⟨l', ?_, h1, h2, h3⟩
    have hd0 : (y :: ys).getD 0 0 = y := rfl
    rw [hd0, e]; simp [Mem.freeN]

theorem removeAll_ofList (xs : List Nat) (m : Mem) :
    removeAll (ofList t xs) m =
      ((LSeq.removeAll xs).1, (LSeq.removeAll xs).2.1, ofList t (LSeq.removeAll xs).2.2, Mem.freeN t xs.length m) := by
  unfold removeAll unlinknAll LSeq.removeAll
  cases xs with
  | nil => simp [Mem.freeN]
  | cons y ys =>
    simp only [ofList_size, List.length_cons, Nat.add_one_ne_zero, if_false, ofList_nodes]
    obtain ⟨l', e, h1, h2, h3⟩ := unlinkAllLoop_ofList (t := t) (ofList t (y :: ys)).head (ofList t (y :: ys)).tail (y :: ys)
      (ys.length + 1) [] m (by simp)
    have e' : unlinkAllLoop (ys.length + 1) (ofList t (y :: ys)) (ofList t (y :: ys)).head [] m =
        (l', [] ++ (y :: ys), Mem.freeN t (y :: ys).length m) := by
      rw [← e]; simp [ofList]
    rw [e']
    cases l'
    simp_all [ofList]

theorem destroy_ofList (xs : List Nat) (m : Mem) :
    destroy (ofList t xs) m = Mem.freeN t (xs.length + 1) m := by
  unfold destroy
  rw [removeAll_ofList, Mem.freeN_succ]; rfl

theorem destroyCb_ofList (xs : List Nat) (m : Mem) :
    destroyCb (ofList t xs) m = (xs, Mem.freeN t (xs.length + 1) m) := by
  unfold destroyCb
  rw [removeAll_ofList, Mem.freeN_succ]
  cases xs <;> simp [LSeq.removeAll] <;> rfl

theorem replaceAt_ofList (xs : List Nat) (x i : Nat) (m : Mem) :
    replaceAt (ofList t xs) x i m =
      ((LSeq.replaceAt xs x i).1, (LSeq.replaceAt xs x i).2.1, ofList t (LSeq.replaceAt xs x i).2.2, m) := by
  unfold replaceAt LSeq.replaceAt
  rw [getNodeAt_ofList]
  by_cases h : i < xs.length
  · have h0 : xs.length ≠ 0 := by omega
    simp [h, Ptr.valid, data_some, Chain.setData, Ptr.pos, ofList, h0]
  · simp [h]

theorem getFirst_ofList (xs : List Nat) (m : Mem) :
    getFirst (ofList t xs) m = ((LSeq.getFirst xs).1, (LSeq.getFirst xs).2, m) := by
  unfold getFirst
  cases xs <;> simp [LSeq.getFirst, ofList, Ptr.valid, data_some]

theorem getLast_ofList (xs : List Nat) (m : Mem) :
    getLast (ofList t xs) m = ((LSeq.getLast xs).1, (LSeq.getLast xs).2, m) := by
  unfold getLast
  cases xs with
  | nil => simp [LSeq.getLast]
  | cons y ys =>
    have h1 : (y :: ys)[ys.length]?.getD 0 = (y :: ys).getLast?.getD 0 := by
      rw [List.getLast?_eq_getElem?]; simp
    simp only [LSeq.getLast, ofList, Ptr.valid, Chain.data, Ptr.pos, List.getD_eq_getElem?_getD, List.getLastD_eq_getLast?]
    rw [← h1]; simp

theorem getAt_ofList (xs : List Nat) (i : Nat) (m : Mem) :
    getAt (ofList t xs) i m = ((LSeq.getAt xs i).1, (LSeq.getAt xs i).2, m) := by
  unfold getAt LSeq.getAt
  rw [getNodeAt_ofList]
  by_cases h : i < xs.length <;> simp [h, Ptr.valid, data_some]

theorem contains_ofList (xs : List Nat) (x : Nat) (m : Mem) : contains (ofList t xs) x m = (LSeq.contains xs x, m) := by
  simp only [contains, LSeq.contains, ofList_nodes]
  rw [ofList_head_ptrAt, countLoop_ofList xs _ m xs.length 0 0 (by omega)]
  simp [List.count]
theorem containsValue_ofList (cmp : Nat → Nat → Int) (xs : List Nat) (x : Nat) (m : Mem) :
    containsValue cmp (ofList t xs) x m = (LSeq.containsValue cmp xs x, m) := by
  simp only [containsValue, LSeq.containsValue, ofList_nodes]
  rw [ofList_head_ptrAt, countLoop_ofList xs _ m xs.length 0 0 (by omega)]
  simp
theorem indexOf_ofList (xs : List Nat) (x : Nat) (m : Mem) :
    indexOf (ofList t xs) x m = ((LSeq.indexOf LSeq.cmpNum xs x).1, (LSeq.indexOf LSeq.cmpNum xs x).2, m) := by
  have hf : (fun y => LSeq.cmpNum y x == 0) = (fun y => y == x) := by
    funext y; unfold LSeq.cmpNum
    by_cases h1 : y < x <;> by_cases h2 : x < y <;> simp [h1, h2] <;> omega
  simp only [indexOf, LSeq.indexOf, ofList_nodes, hf]
  rw [ofList_head_ptrAt, indexLoop_ofList xs _ m xs.length 0 0 (by omega)]
  simp only [List.drop_zero]
  cases xs.findIdx? fun y => y == x <;> simp
theorem foreach_ofList (xs : List Nat) (m : Mem) : foreach (ofList t xs) m = (xs, m) := by
  simp only [foreach, ofList_nodes]
  rw [ofList_head_ptrAt, foreachLoop_ofList xs m xs.length 0 (by omega)]
  simp

theorem reverseLoop_spec : ∀ (k : Nat) (prev fl : List Nat), fl.length ≤ k →
    reverseLoop k prev fl = (fl.reverse ++ prev, [])
  | 0, prev, fl, h => by
    have : fl = [] := by simpa using h
    subst this; rfl
  | k + 1, prev, [], _ => rfl
  | k + 1, prev, x :: fl, h => by
    simp only [reverseLoop]
    rw [reverseLoop_spec k (x :: prev) fl (by simpa using h)]
    simp

/-- the pointer-turning loop of `cc_slist_reverse` produces the reversed chain with `head`/`tail` right -/
theorem reverse_ofList (xs : List Nat) : reverse (ofList t xs) = ofList t xs.reverse := by
  unfold reverse
  by_cases h : xs.length < 2
  · have : xs.reverse = xs := by
      match xs, h with
      | [], _ => rfl
      | [a], _ => rfl
    rw [this]
    rcases (show xs.length = 0 ∨ xs.length = 1 by omega) with h' | h' <;> simp [h']
  · have h0 : xs.length ≠ 0 := by omega
    have hx : xs ≠ [] := by intro e; subst e; simp at h0
    rw [if_neg (by
      simp only [ofList_size, Bool.or_eq_true]
      intro hc; rcases hc with hc | hc <;> (have := of_decide_eq_true hc; omega))]
    have hw : (ofList t xs).walk (ofList t xs).head = xs := by simp [ofList, Chain.walk, h0]
    rw [hw, ofList_nodes, reverseLoop_spec _ _ _ (Nat.le_refl _)]
    simp [ofList, h0, hx]

end CC.SList
