import CollectionsC.Base.Word
import CollectionsC.Spec.DequeSpec
import CollectionsC.Model.Deque
import CollectionsC.Proofs.DequeMem
/-! Helper lemmas and per-operation theorems for the deque model: both ends, replace/get, removal of
all elements, growth (`expandCapacity`) and `copyBuffer`.  `add_at`/`remove_at` are in
`Proofs/DequeAt.lean`, the remaining operations in `Proofs/DequeMore.lean`. -/
namespace CC.Deque
open CC

/-! ## slot access helpers -/
@[simp] theorem rd_fst (b : Buf Nat) (i : Nat) (m : Mem) : (rd b i m).1 = b.get i := rfl
@[simp] theorem wr_fst (b : Buf Nat) (i x : Nat) (m : Mem) : (wr b i x m).1 = b.put i x := rfl
@[simp] theorem mv_fst (b : Buf Nat) (d s n : Nat) (m : Mem) : (mv b d s n m).1 = b.memmove d s n := rfl
@[simp] theorem cpy_fst (db : Buf Nat) (d : Nat) (sb : Buf Nat) (s n : Nat) (m : Mem) :
    (cpy db d sb s n m).1 = db.memcpy d sb s n := rfl
theorem rd_snd (b : Buf Nat) (i : Nat) (m : Mem) (h : i < b.length) : (rd b i m).2 = m := by
  simp [rd, h]
theorem wr_snd (b : Buf Nat) (i x : Nat) (m : Mem) (h : i < b.length) : (wr b i x m).2 = m := by
  simp [wr, h]
theorem mv_snd (b : Buf Nat) (d s n : Nat) (m : Mem) (h1 : d + n ≤ b.length) (h2 : s + n ≤ b.length) :
    (mv b d s n m).2 = m := by
  simp [mv, h1, h2]
theorem cpy_snd (db : Buf Nat) (d : Nat) (sb : Buf Nat) (s n : Nat) (m : Mem)
    (h1 : d + n ≤ db.length) (h2 : s + n ≤ sb.length) : (cpy db d sb s n m).2 = m := by
  simp [cpy, h1, h2]

/-! ## abstraction -/
@[simp] theorem abs_length (d : Deque) : d.abs.length = d.size := by simp [abs]

theorem abs_getElem (d : Deque) (i : Nat) (h : i < d.abs.length) :
    d.abs[i] = d.buf.get ((d.first + i) % d.cap) := by simp [abs]

theorem abs_getElem? (d : Deque) (i : Nat) (h : i < d.size) :
    d.abs[i]? = some (d.buf.get ((d.first + i) % d.cap)) := by
  rw [List.getElem?_eq_getElem (by simpa using h), abs_getElem]

/-- two states with the same live slots have the same abstraction -/
theorem abs_congr (d e : Deque) (hs : e.size = d.size)
    (h : ∀ i, i < d.size → e.buf.get ((e.first + i) % e.cap) = d.buf.get ((d.first + i) % d.cap)) :
    e.abs = d.abs := by
  apply List.ext_getElem
  · simp [hs]
  · intro i h1 h2
    rw [abs_getElem, abs_getElem]
    exact h i (by simpa using h2)

/-! ## invariant -/
theorem Inv.cap_pos {d : Deque} (h : d.Inv) : 0 < d.cap := by
  rw [h.1]; exact Nat.two_pow_pos _

theorem Inv.pow2 {d : Deque} (h : d.Inv) : ∃ k, d.cap = 2 ^ k := ⟨_, h.1⟩

theorem Inv.last_lt {d : Deque} (h : d.Inv) : d.last < d.cap := by
  rw [h.2.2.2.2.1]; exact Nat.mod_lt _ h.cap_pos

/-- the capacity part of the invariant for a power of two -/
theorem pow2_log2 (k : Nat) : 2 ^ k = 2 ^ (2 ^ k).log2 := by rw [Nat.log2_two_pow]

theorem decMask_of_lt {x c : Nat} (h : x < c) : decMask x c = if x = 0 then c - 1 else x - 1 := by
  unfold decMask
  split
  · rfl
  · rw [Nat.mod_eq_of_lt (by omega)]

theorem decMask_lt {x c : Nat} (hc : 0 < c) : decMask x c < c := by
  unfold decMask
  split
  · omega
  · exact Nat.mod_lt _ hc

/-! ## add at the two ends (no growth) -/

theorem addLastCore_spec (d : Deque) (x : Nat) (m : Mem) (h : d.Inv) (hs : d.size < d.cap) :
    (d.addLastCore x m).1 = .ok ∧ (d.addLastCore x m).2.1.Inv ∧
    (d.addLastCore x m).2.1.abs = d.abs ++ [x] ∧ (d.addLastCore x m).2.2 = m ∧
    (d.addLastCore x m).2.1.cap = d.cap := by
  obtain ⟨hp, hmax, hl, hf, hla, hsz⟩ := h
  have c0 := mod_cases (x := d.first + d.size) (c := d.cap) (by omega)
  have c1 := mod_cases (x := d.last + 1) (c := d.cap) (by omega)
  have c2 := mod_cases (x := d.first + (d.size + 1)) (c := d.cap) (by omega)
  refine ⟨rfl, ⟨hp, hmax, by simpa [addLastCore] using hl, hf, ?_, ?_⟩, ?_, ?_, rfl⟩
  · simp only [addLastCore]; omega
  · simp only [addLastCore]; omega
  · apply List.ext_getElem
    · simp [addLastCore]
    · intro i h1 h2
      rw [abs_getElem]
      simp only [addLastCore, wr_fst]
      have hi : i < d.size + 1 := by simpa [addLastCore] using h1
      have c3 := mod_cases (x := d.first + i) (c := d.cap) (by omega)
      rw [List.getElem_append]
      split
      · rename_i hlt
        simp only [abs_length] at hlt
        rw [abs_getElem, Buf.get_put_ne _ _ _ _ (by omega)]
      · rename_i hge
        simp only [abs_length] at hge
        have : (d.first + i) % d.cap = d.last := by omega
        simp only [List.getElem_singleton]
        rw [this, Buf.get_put_eq _ _ _ (by omega)]
  · simp only [addLastCore]; exact wr_snd _ _ _ _ (by omega)

theorem addFirstCore_spec (d : Deque) (x : Nat) (m : Mem) (h : d.Inv) (hs : d.size < d.cap) :
    (d.addFirstCore x m).1 = .ok ∧ (d.addFirstCore x m).2.1.Inv ∧
    (d.addFirstCore x m).2.1.abs = x :: d.abs ∧ (d.addFirstCore x m).2.2 = m ∧
    (d.addFirstCore x m).2.1.cap = d.cap := by
  obtain ⟨hp, hmax, hl, hf, hla, hsz⟩ := h
  have hdm := decMask_of_lt hf
  have c0 := mod_cases (x := d.first + d.size) (c := d.cap) (by omega)
  have c2 := mod_cases (x := decMask d.first d.cap + (d.size + 1)) (c := d.cap) (by split at hdm <;> omega)
  refine ⟨rfl, ⟨hp, hmax, by simpa [addFirstCore] using hl, ?_, ?_, ?_⟩, ?_, ?_, rfl⟩
  · simp only [addFirstCore]; split at hdm <;> omega
  · simp only [addFirstCore]; split at hdm <;> omega
  · simp only [addFirstCore]; omega
  · apply List.ext_getElem
    · simp [addFirstCore]
    · intro i h1 h2
      rw [abs_getElem]
      simp only [addFirstCore, wr_fst]
      have hi : i < d.size + 1 := by simpa [addFirstCore] using h1
      have c3 := mod_cases (x := decMask d.first d.cap + i) (c := d.cap) (by split at hdm <;> omega)
      cases i with
      | zero =>
        simp only [Nat.add_zero, List.getElem_cons_zero]
        have : decMask d.first d.cap % d.cap = decMask d.first d.cap := by
          simp only [Nat.add_zero] at c3; split at hdm <;> omega
        rw [this, Buf.get_put_eq _ _ _ (by split at hdm <;> omega)]
      | succ j =>
        simp only [List.getElem_cons_succ]
        rw [abs_getElem]
        have c4 := mod_cases (x := d.first + j) (c := d.cap) (by omega)
        rw [Buf.get_put_ne _ _ _ _ (by split at hdm <;> omega)]
        congr 1; split at hdm <;> omega
  · simp only [addFirstCore]; exact wr_snd _ _ _ _ (by split at hdm <;> omega)

/-! ## `copy_buffer` -/

/-- the memcpy branch: the first `size` slots of the result are the elements in order, the other
slots of the destination are untouched, no access is out of bounds -/
theorem copyBuffer_none (d : Deque) (buff : Buf Nat) (m : Mem) (h : d.Inv) (hb : d.size ≤ buff.length) :
    (d.copyBuffer buff none m).1.length = buff.length ∧ (d.copyBuffer buff none m).2 = m ∧
    (∀ i, i < d.size → (d.copyBuffer buff none m).1.get i = d.buf.get ((d.first + i) % d.cap)) ∧
    (∀ i, d.size ≤ i → (d.copyBuffer buff none m).1.get i = buff.get i) := by
  obtain ⟨hp, hmax, hl, hf, hla, hsz⟩ := h
  have c0 := mod_cases (x := d.first + d.size) (c := d.cap) (by omega)
  unfold copyBuffer
  split
  · rename_i h0; exact ⟨rfl, rfl, by omega, fun _ _ => rfl⟩
  · rename_i h0
    simp only
    split
    · rename_i hgt
      refine ⟨by simp, cpy_snd _ _ _ _ _ _ (by omega) (by omega), ?_, ?_⟩
      · intro i hi
        have c1 := mod_cases (x := d.first + i) (c := d.cap) (by omega)
        rw [cpy_fst, Buf.get_memcpy _ _ _ _ _ _ (by omega), if_pos (by omega)]
        congr 1; omega
      · intro i hi
        by_cases hil : i < buff.length
        · rw [cpy_fst, Buf.get_memcpy _ _ _ _ _ _ hil, if_neg (by omega)]
        · rw [Buf.get_of_ge _ _ (by simp; omega), Buf.get_of_ge _ _ (by omega)]
    · rename_i hgt
      refine ⟨by simp, ?_, ?_, ?_⟩
      · rw [cpy_snd _ _ _ _ _ _ (by simp; omega) (by omega), cpy_snd _ _ _ _ _ _ (by omega) (by omega)]
      · intro i hi
        have c1 := mod_cases (x := d.first + i) (c := d.cap) (by omega)
        rw [cpy_fst, cpy_fst, Buf.get_memcpy _ _ _ _ _ _ (by simp; omega)]
        split
        · congr 1; omega
        · rw [Buf.get_memcpy _ _ _ _ _ _ (by omega), if_pos (by omega)]
          congr 1; omega
      · intro i hi
        by_cases hil : i < buff.length
        · rw [cpy_fst, cpy_fst, Buf.get_memcpy _ _ _ _ _ _ (by simp; omega), if_neg (by omega),
            Buf.get_memcpy _ _ _ _ _ _ hil, if_neg (by omega)]
        · rw [Buf.get_of_ge _ _ (by simp; omega), Buf.get_of_ge _ _ (by omega)]

/-- the element-wise loop of the deep copy -/
theorem copyLoop (d : Deque) (f : Nat → Nat) (buff : Buf Nat) (m : Mem) (n : Nat)
    (hn : n ≤ buff.length) (hs : ∀ i, i < n → d.slot i < d.buf.length) :
    ((List.range n).foldl (copyStep d f) (buff, m)).1.length = buff.length ∧
    ((List.range n).foldl (copyStep d f) (buff, m)).2 = m ∧
    ∀ j, ((List.range n).foldl (copyStep d f) (buff, m)).1.get j
      = if j < n then f (d.buf.get (d.slot j)) else buff.get j := by
  induction n with
  | zero => simp
  | succ n ih =>
    obtain ⟨ih1, ih2, ih3⟩ := ih (by omega) (fun i hi => hs i (by omega))
    rw [List.range_succ, List.foldl_append]
    simp only [List.foldl_cons, List.foldl_nil]
    refine ⟨by simp [copyStep, ih1], ?_, ?_⟩
    · simp only [copyStep]; rw [wr_snd _ _ _ _ (by omega), rd_snd _ _ _ (hs n (by omega)), ih2]
    · intro j
      simp only [copyStep]
      rw [wr_fst, Buf.get_put, rd_fst]
      by_cases hj : n = j
      · subst hj; simp [ih1]; omega
      · simp only [hj, false_and, if_false, ih3]
        by_cases h2 : j < n
        · simp [h2]; omega
        · simp [h2]; omega

theorem copyBuffer_some (d : Deque) (f : Nat → Nat) (buff : Buf Nat) (m : Mem) (h : d.Inv)
    (hb : d.size ≤ buff.length) :
    (d.copyBuffer buff (some f) m).1.length = buff.length ∧ (d.copyBuffer buff (some f) m).2 = m ∧
    (∀ i, i < d.size → (d.copyBuffer buff (some f) m).1.get i = f (d.buf.get ((d.first + i) % d.cap))) := by
  obtain ⟨hp, hmax, hl, hf, hla, hsz⟩ := h
  have hpos : 0 < d.cap := Inv.cap_pos ⟨hp, hmax, hl, hf, hla, hsz⟩
  unfold copyBuffer
  split
  · exact ⟨rfl, rfl, by omega⟩
  · simp only
    have hslots : ∀ i, i < d.size → d.slot i < d.buf.length := fun i _ =>
      Nat.lt_of_lt_of_le (Nat.mod_lt _ hpos) (Nat.le_of_eq hl.symm)
    obtain ⟨l1, l2, l3⟩ := copyLoop d f buff m d.size hb hslots
    refine ⟨l1, l2, ?_⟩
    intro i hi
    rw [l3 i, if_pos hi]

/-! ## allocator bookkeeping: see `Proofs/DequeMem.lean` (`memSame t`, `memRel t k`, `allocT_ok`, …) -/

theorem max_pow_two_eq : Gen.MAX_POW_TWO = 2 ^ 31 := by decide

/-! ## growth -/

theorem expandCapacity_max (d : Deque) (m : Mem) (hc : d.cap = Gen.MAX_POW_TWO) :
    d.expandCapacity m = (.errMaxCapacity, d, m) := by simp [expandCapacity, hc]

theorem expandCapacity_refused (d : Deque) (m : Mem) (hc : d.cap ≠ Gen.MAX_POW_TWO) (ha : (m.allocT d.triple).1 = false) :
    d.expandCapacity m = (.errAlloc, d, (m.allocT d.triple).2) := by simp [expandCapacity, hc, ha]

theorem expandCapacity_grow (d : Deque) (m : Mem) (hc : d.cap ≠ Gen.MAX_POW_TWO) (ha : (m.allocT d.triple).1 = true) :
    d.expandCapacity m = (.ok,
      { size := d.size, cap := d.cap <<< 1, first := 0, last := d.size,
        buf := (d.copyBuffer (Buf.mk (d.cap <<< 1)) none (m.allocT d.triple).2).1, triple := d.triple },
      (d.copyBuffer (Buf.mk (d.cap <<< 1)) none (m.allocT d.triple).2).2.freeT d.triple) := by
  simp [expandCapacity, hc, ha]

theorem expandCapacity_fail (d : Deque) (m : Mem) (h : (d.expandCapacity m).1 ≠ .ok) :
    (d.expandCapacity m).2.1 = d ∧ memSame d.triple (d.expandCapacity m).2.2 m ∧
    ((d.expandCapacity m).1 = .errAlloc ∨ (d.expandCapacity m).1 = .errMaxCapacity) ∧
    ((d.expandCapacity m).1 = .errAlloc → (m.allocT d.triple).1 = false) := by
  by_cases hc : d.cap = Gen.MAX_POW_TWO
  · rw [expandCapacity_max d m hc]; exact ⟨rfl, memSame_refl _ m, Or.inr rfl, by simp⟩
  · cases ha : (m.allocT d.triple).1
    · rw [expandCapacity_refused d m hc ha]
      exact ⟨rfl, (allocT_refused _ m ha).1, Or.inl rfl, fun _ => rfl⟩
    · rw [expandCapacity_grow d m hc ha] at h; simp at h

theorem expandCapacity_ok (d : Deque) (m : Mem) (hi : d.Inv) (h : (d.expandCapacity m).1 = .ok) :
    (d.expandCapacity m).2.1.Inv ∧ (d.expandCapacity m).2.1.abs = d.abs ∧
    (d.expandCapacity m).2.1.size = d.size ∧ (d.expandCapacity m).2.1.cap = 2 * d.cap ∧
    memSame d.triple (d.expandCapacity m).2.2 m ∧ (m.allocT d.triple).1 = true ∧ d.cap ≠ Gen.MAX_POW_TWO := by
  have hi' := hi
  obtain ⟨hp, hmax, hl, hf, hla, hsz⟩ := hi
  have hpos := Inv.cap_pos hi'
  by_cases hc : d.cap = Gen.MAX_POW_TWO
  · rw [expandCapacity_max d m hc] at h; simp at h
  cases ha : (m.allocT d.triple).1
  · rw [expandCapacity_refused d m hc ha] at h; simp at h
  rw [expandCapacity_grow d m hc ha]
  have hcap2 : d.cap <<< 1 = 2 * d.cap := by simp [Nat.shiftLeft_eq]; omega
  have hb : d.size ≤ (Buf.mk (d.cap <<< 1) : Buf Nat).length := by simp [hcap2]; omega
  obtain ⟨b1, b2, b3, _⟩ := copyBuffer_none d (Buf.mk (d.cap <<< 1)) (m.allocT d.triple).2 hi' hb
  refine ⟨⟨?_, ?_, ?_, ?_, ?_, ?_⟩, ?_, rfl, hcap2, ?_, rfl, hc⟩
  · simp only [hcap2]
    rw [hp, ← Nat.pow_succ']; exact pow2_log2 _
  · simp only [hcap2]
    rw [max_pow_two_eq] at hmax hc ⊢
    rw [hp] at hmax hc ⊢
    have hk : d.cap.log2 < 31 := by
      rcases Nat.lt_or_ge d.cap.log2 31 with hk | hk
      · exact hk
      · have := Nat.pow_le_pow_right (n := 2) (by decide) hk
        exact absurd (Nat.le_antisymm hmax this) hc
    rw [← Nat.pow_succ']
    exact Nat.pow_le_pow_right (by decide) hk
  · simp only [b1]; simp
  · simp only [hcap2]; omega
  · simp only [hcap2, Nat.zero_add]; rw [Nat.mod_eq_of_lt (by omega)]
  · simp only [hcap2]; omega
  · apply abs_congr
    · rfl
    · intro i hi
      simp only [Nat.zero_add, hcap2]
      rw [Nat.mod_eq_of_lt (by omega)]
      exact b3 i hi
  · simp only [b2]; exact alloc_free_same _ m ha

/-! ## `add_last`, `add_first` -/

/-- `cc_deque_add_last`: either OK (element appended, capacity kept or doubled when the deque was full),
or `CC_ERR_ALLOC` with the whole state unchanged (the deque was full and growing was refused or the
capacity limit was reached) -/
theorem addLast_spec (d : Deque) (x : Nat) (m : Mem) (hi : d.Inv) :
    ((d.addLast x m).1 = .ok ∧ (d.addLast x m).2.1.Inv ∧ (d.addLast x m).2.1.abs = d.abs ++ [x] ∧
      memSame d.triple (d.addLast x m).2.2 m ∧
      (d.addLast x m).2.1.cap = (if d.size = d.cap then 2 * d.cap else d.cap) ∧
      (d.size = d.cap → (m.allocT d.triple).1 = true ∧ d.cap ≠ Gen.MAX_POW_TWO)) ∨
    ((d.addLast x m).1 = .errAlloc ∧ (d.addLast x m).2.1 = d ∧ memSame d.triple (d.addLast x m).2.2 m ∧
      d.size = d.cap ∧ ((m.allocT d.triple).1 = false ∨ d.cap = Gen.MAX_POW_TWO)) := by
  unfold addLast
  by_cases hfull : d.cap = d.size
  · rw [if_pos hfull]
    by_cases he : (d.expandCapacity m).1 = .ok
    · obtain ⟨e1, e2, e3, e4, e5, e6, e7⟩ := expandCapacity_ok d m hi he
      have hne : ((d.expandCapacity m).1 != Stat.ok) = false := by simp [he]
      simp only [hne, Bool.false_eq_true, if_false]
      obtain ⟨a1, a2, a3, a4, a5⟩ := addLastCore_spec (d.expandCapacity m).2.1 x (d.expandCapacity m).2.2 e1
        (by rw [e3, e4]; have := Inv.cap_pos hi; omega)
      left
      refine ⟨a1, a2, by rw [a3, e2], by rw [a4]; exact e5, by rw [a5, e4, if_pos hfull.symm], fun _ => ⟨e6, e7⟩⟩
    · obtain ⟨f1, f2, f3, f4⟩ := expandCapacity_fail d m he
      have hne : ((d.expandCapacity m).1 != Stat.ok) = true := by simp [he]
      simp only [hne, if_true]
      right
      refine ⟨trivial, f1, f2, hfull.symm, ?_⟩
      rcases f3 with f3 | f3
      · exact Or.inl (f4 f3)
      · right
        by_cases hc : d.cap = Gen.MAX_POW_TWO
        · exact hc
        · cases ha : (m.allocT d.triple).1
          · rw [expandCapacity_refused d m hc ha] at f3; simp at f3
          · rw [expandCapacity_grow d m hc ha] at f3; simp at f3
  · rw [if_neg hfull]
    have hlt : d.size < d.cap := by have := hi.2.2.2.2.2; omega
    obtain ⟨a1, a2, a3, a4, a5⟩ := addLastCore_spec d x m hi hlt
    left
    refine ⟨a1, a2, a3, by rw [a4]; exact memSame_refl _ m, by rw [a5, if_neg (by omega)], fun h => by omega⟩

/-- `cc_deque_add_first`, same shape as `addLast_spec` -/
theorem addFirst_spec (d : Deque) (x : Nat) (m : Mem) (hi : d.Inv) :
    ((d.addFirst x m).1 = .ok ∧ (d.addFirst x m).2.1.Inv ∧ (d.addFirst x m).2.1.abs = x :: d.abs ∧
      memSame d.triple (d.addFirst x m).2.2 m ∧
      (d.addFirst x m).2.1.cap = (if d.size = d.cap then 2 * d.cap else d.cap) ∧
      (d.size = d.cap → (m.allocT d.triple).1 = true ∧ d.cap ≠ Gen.MAX_POW_TWO)) ∨
    ((d.addFirst x m).1 = .errAlloc ∧ (d.addFirst x m).2.1 = d ∧ memSame d.triple (d.addFirst x m).2.2 m ∧
      d.size = d.cap ∧ ((m.allocT d.triple).1 = false ∨ d.cap = Gen.MAX_POW_TWO)) := by
  unfold addFirst
  have hsz := hi.2.2.2.2.2
  by_cases hfull : d.size ≥ d.cap
  · rw [if_pos hfull]
    have hfull' : d.size = d.cap := by omega
    by_cases he : (d.expandCapacity m).1 = .ok
    · obtain ⟨e1, e2, e3, e4, e5, e6, e7⟩ := expandCapacity_ok d m hi he
      have hne : ((d.expandCapacity m).1 != Stat.ok) = false := by simp [he]
      simp only [hne, Bool.false_eq_true, if_false]
      obtain ⟨a1, a2, a3, a4, a5⟩ := addFirstCore_spec (d.expandCapacity m).2.1 x (d.expandCapacity m).2.2 e1
        (by rw [e3, e4]; have := Inv.cap_pos hi; omega)
      left
      refine ⟨a1, a2, by rw [a3, e2], by rw [a4]; exact e5, by rw [a5, e4, if_pos hfull'], fun _ => ⟨e6, e7⟩⟩
    · obtain ⟨f1, f2, f3, f4⟩ := expandCapacity_fail d m he
      have hne : ((d.expandCapacity m).1 != Stat.ok) = true := by simp [he]
      simp only [hne, if_true]
      right
      refine ⟨trivial, f1, f2, hfull', ?_⟩
      rcases f3 with f3 | f3
      · exact Or.inl (f4 f3)
      · right
        by_cases hc : d.cap = Gen.MAX_POW_TWO
        · exact hc
        · cases ha : (m.allocT d.triple).1
          · rw [expandCapacity_refused d m hc ha] at f3; simp at f3
          · rw [expandCapacity_grow d m hc ha] at f3; simp at f3
  · rw [if_neg hfull]
    have hlt : d.size < d.cap := by omega
    obtain ⟨a1, a2, a3, a4, a5⟩ := addFirstCore_spec d x m hi hlt
    left
    refine ⟨a1, a2, a3, by rw [a4]; exact memSame_refl _ m, by rw [a5, if_neg (by omega)], fun h => by omega⟩

/-! ## removal at the two ends, replace, get -/
open CC.Spec in
theorem removeFirst_spec (d : Deque) (m : Mem) (hi : d.Inv) :
    (d.removeFirst m).1 = (DequeSpec.removeAt d.abs 0).1 ∧
    (d.removeFirst m).2.1 = (DequeSpec.removeAt d.abs 0).2.1 ∧
    (d.removeFirst m).2.2.1.abs = (DequeSpec.removeAt d.abs 0).2.2 ∧
    (d.removeFirst m).2.2.1.Inv ∧ (d.removeFirst m).2.2.2 = m ∧ (d.removeFirst m).2.2.1.cap = d.cap := by
  obtain ⟨hp, hmax, hl, hf, hla, hsz⟩ := hi
  unfold removeFirst DequeSpec.removeAt
  by_cases h0 : d.size = 0
  · simp [h0]; exact ⟨hp, hmax, hl, hf, hla, hsz⟩
  · have hlen : 0 < d.abs.length := by simp; omega
    rw [if_neg h0, dif_pos hlen]
    have c0 := mod_cases (x := d.first + d.size) (c := d.cap) (by omega)
    have c1 := mod_cases (x := d.first + 1) (c := d.cap) (by omega)
    have c2 := mod_cases (x := (d.first + 1) % d.cap + (d.size - 1)) (c := d.cap) (by omega)
    refine ⟨rfl, ?_, ?_, ⟨hp, hmax, hl, ?_, ?_, ?_⟩, ?_, rfl⟩
    · simp only [rd_fst]; rw [abs_getElem]; simp [Nat.mod_eq_of_lt hf]
    · apply List.ext_getElem
      · simp
      · intro j h1 h2
        have hj : j < d.size - 1 := by simpa using h1
        rw [abs_getElem, List.getElem_eraseIdx, dif_neg (by omega), abs_getElem]
        simp only
        have c3 := mod_cases (x := (d.first + 1) % d.cap + j) (c := d.cap) (by omega)
        have c4 := mod_cases (x := d.first + (j + 1)) (c := d.cap) (by omega)
        congr 1; omega
    · simp only; omega
    · simp only; omega
    · simp only; omega
    · simp only; exact rd_snd _ _ _ (by omega)

open CC.Spec in
theorem removeLast_spec (d : Deque) (m : Mem) (hi : d.Inv) :
    (d.removeLast m).1 = (DequeSpec.removeAt d.abs (d.size - 1)).1 ∧
    (d.removeLast m).2.1 = (DequeSpec.removeAt d.abs (d.size - 1)).2.1 ∧
    (d.removeLast m).2.2.1.abs = (DequeSpec.removeAt d.abs (d.size - 1)).2.2 ∧
    (d.removeLast m).2.2.1.Inv ∧ (d.removeLast m).2.2.2 = m ∧ (d.removeLast m).2.2.1.cap = d.cap := by
  have hlast := Inv.last_lt hi
  obtain ⟨hp, hmax, hl, hf, hla, hsz⟩ := hi
  unfold removeLast DequeSpec.removeAt
  by_cases h0 : d.size = 0
  · simp [h0]; exact ⟨hp, hmax, hl, hf, hla, hsz⟩
  · have hlen : d.size - 1 < d.abs.length := by simp; omega
    rw [if_neg h0, dif_pos hlen]
    have hdm := decMask_of_lt hlast
    have c0 := mod_cases (x := d.first + d.size) (c := d.cap) (by omega)
    have c1 := mod_cases (x := d.first + (d.size - 1)) (c := d.cap) (by omega)
    have hslot : decMask d.last d.cap = (d.first + (d.size - 1)) % d.cap := by split at hdm <;> omega
    refine ⟨rfl, ?_, ?_, ⟨hp, hmax, hl, hf, ?_, ?_⟩, ?_, rfl⟩
    · simp only [rd_fst]; rw [abs_getElem, hslot]
    · apply List.ext_getElem
      · simp [List.length_eraseIdx]; omega
      · intro j h1 h2
        have hj : j < d.size - 1 := by simpa using h1
        rw [abs_getElem, List.getElem_eraseIdx, dif_pos (by omega), abs_getElem]
    · simp only; omega
    · simp only; omega
    · simp only; exact rd_snd _ _ _ (by omega)

/-- the ideal list's `removeFirst`/`removeLast` are `removeAt` at the two end positions -/
theorem spec_removeFirst_eq (l : List Nat) : Spec.DequeSpec.removeFirst l = Spec.DequeSpec.removeAt l 0 := by
  cases l <;> simp [Spec.DequeSpec.removeFirst, Spec.DequeSpec.removeAt]

theorem spec_removeLast_eq (l : List Nat) :
    Spec.DequeSpec.removeLast l = Spec.DequeSpec.removeAt l (l.length - 1) := by
  unfold Spec.DequeSpec.removeLast Spec.DequeSpec.removeAt
  by_cases h : l = []
  · subst h; simp
  · have hpos : 0 < l.length := List.length_pos_iff.mpr h
    rw [dif_pos (by omega)]
    rw [List.getLast?_eq_some_getLast h, List.getLast_eq_getElem]
    simp [List.eraseIdx_length_sub_one]

open CC.Spec in
theorem replaceAt_spec (d : Deque) (x index : Nat) (m : Mem) (hi : d.Inv) :
    (d.replaceAt x index m).1 = (DequeSpec.replaceAt d.abs x index).1 ∧
    (d.replaceAt x index m).2.1 = (DequeSpec.replaceAt d.abs x index).2.1 ∧
    (d.replaceAt x index m).2.2.1.abs = (DequeSpec.replaceAt d.abs x index).2.2 ∧
    (d.replaceAt x index m).2.2.1.Inv ∧ (d.replaceAt x index m).2.2.2 = m ∧
    (d.replaceAt x index m).2.2.1.cap = d.cap := by
  have hpos := Inv.cap_pos hi
  obtain ⟨hp, hmax, hl, hf, hla, hsz⟩ := hi
  unfold replaceAt DequeSpec.replaceAt
  by_cases h0 : index ≥ d.size
  · rw [if_pos h0, dif_neg (by simp; omega)]; exact ⟨rfl, rfl, rfl, ⟨hp, hmax, hl, hf, hla, hsz⟩, rfl, rfl⟩
  · have hlen : index < d.abs.length := by simp; omega
    rw [if_neg h0, dif_pos hlen]
    have hsl : (d.first + index) % d.cap < d.buf.length := Nat.lt_of_lt_of_le (Nat.mod_lt _ hpos) (Nat.le_of_eq hl.symm)
    refine ⟨rfl, ?_, ?_, ⟨hp, hmax, by simpa using hl, hf, hla, hsz⟩, ?_, rfl⟩
    · simp only [rd_fst]; rw [abs_getElem]
    · apply List.ext_getElem
      · simp
      · intro j h1 h2
        have hj : j < d.size := by simpa using h1
        rw [abs_getElem, List.getElem_set, abs_getElem]
        simp only [wr_fst]
        have c1 := mod_cases (x := d.first + index) (c := d.cap) (by omega)
        have c2 := mod_cases (x := d.first + j) (c := d.cap) (by omega)
        by_cases hij : index = j
        · subst hij; rw [Buf.get_put_eq _ _ _ hsl]; simp
        · rw [Buf.get_put_ne _ _ _ _ (by omega), if_neg hij]
    · simp only; rw [wr_snd _ _ _ _ hsl, rd_snd _ _ _ hsl]

open CC.Spec in
theorem getAt_spec (d : Deque) (index : Nat) (m : Mem) (hi : d.Inv) :
    (d.getAt index m).1 = (DequeSpec.getAt d.abs index).1 ∧
    (d.getAt index m).2.1 = (DequeSpec.getAt d.abs index).2 ∧ (d.getAt index m).2.2 = m := by
  have hpos := Inv.cap_pos hi
  obtain ⟨hp, hmax, hl, hf, hla, hsz⟩ := hi
  unfold getAt DequeSpec.getAt
  by_cases h0 : index ≥ d.size
  · rw [if_pos h0, List.getElem?_eq_none (by simp; omega)]; exact ⟨rfl, rfl, rfl⟩
  · rw [if_neg h0, abs_getElem? d index (by omega)]
    exact ⟨rfl, rfl, rd_snd _ _ _ (Nat.lt_of_lt_of_le (Nat.mod_lt _ hpos) (Nat.le_of_eq hl.symm))⟩

open CC.Spec in
theorem getFirst_spec (d : Deque) (m : Mem) (hi : d.Inv) :
    (d.getFirst m).1 = (DequeSpec.getFirst d.abs).1 ∧
    (d.getFirst m).2.1 = (DequeSpec.getFirst d.abs).2 ∧ (d.getFirst m).2.2 = m := by
  obtain ⟨hp, hmax, hl, hf, hla, hsz⟩ := hi
  unfold getFirst DequeSpec.getFirst DequeSpec.getAt
  by_cases h0 : d.size = 0
  · rw [if_pos h0, List.getElem?_eq_none (by simp; omega)]; exact ⟨rfl, rfl, rfl⟩
  · rw [if_neg h0, abs_getElem? d 0 (by omega)]
    rw [Nat.add_zero, Nat.mod_eq_of_lt hf]
    exact ⟨rfl, rfl, rd_snd _ _ _ (by omega)⟩

open CC.Spec in
theorem getLast_spec (d : Deque) (m : Mem) (hi : d.Inv) :
    (d.getLast m).1 = (DequeSpec.getLast d.abs).1 ∧
    (d.getLast m).2.1 = (DequeSpec.getLast d.abs).2 ∧ (d.getLast m).2.2 = m := by
  have hlast := Inv.last_lt hi
  obtain ⟨hp, hmax, hl, hf, hla, hsz⟩ := hi
  unfold getLast DequeSpec.getLast
  by_cases h0 : d.size = 0
  · have : d.abs = [] := List.eq_nil_of_length_eq_zero (by simp [h0])
    rw [if_pos h0, this]; exact ⟨rfl, rfl, rfl⟩
  · have hdm := decMask_of_lt hlast
    have c0 := mod_cases (x := d.first + d.size) (c := d.cap) (by omega)
    have c1 := mod_cases (x := d.first + (d.size - 1)) (c := d.cap) (by omega)
    have hslot : decMask d.last d.cap = (d.first + (d.size - 1)) % d.cap := by split at hdm <;> omega
    rw [if_neg h0, List.getLast?_eq_getElem?, abs_length, abs_getElem? d (d.size - 1) (by omega), hslot]
    exact ⟨rfl, rfl, rd_snd _ _ _ (by omega)⟩

theorem removeAll_spec (d : Deque) (hi : d.Inv) : d.removeAll.Inv ∧ d.removeAll.abs = [] ∧ d.removeAll.cap = d.cap := by
  have hpos := Inv.cap_pos hi
  obtain ⟨hp, hmax, hl, hf, hla, hsz⟩ := hi
  refine ⟨⟨hp, hmax, hl, hpos, ?_, Nat.zero_le _⟩, by simp [removeAll, abs], rfl⟩
  simp [removeAll]

/-! ## the allocator triple of a deque never changes -/

theorem expandCapacity_triple (d : Deque) (m : Mem) : (d.expandCapacity m).2.1.triple = d.triple := by
  unfold expandCapacity; split; · rfl
  dsimp only; split <;> rfl

theorem addLast_triple (d : Deque) (x : Nat) (m : Mem) : (d.addLast x m).2.1.triple = d.triple := by
  unfold addLast
  split
  · dsimp only; split
    · exact expandCapacity_triple d m
    · exact expandCapacity_triple d m
  · rfl

theorem addFirst_triple (d : Deque) (x : Nat) (m : Mem) : (d.addFirst x m).2.1.triple = d.triple := by
  unfold addFirst
  split
  · dsimp only; split
    · exact expandCapacity_triple d m
    · exact expandCapacity_triple d m
  · rfl

theorem removeFirst_triple (d : Deque) (m : Mem) : (d.removeFirst m).2.2.1.triple = d.triple := by
  unfold removeFirst; split <;> rfl

theorem removeLast_triple (d : Deque) (m : Mem) : (d.removeLast m).2.2.1.triple = d.triple := by
  unfold removeLast; split <;> rfl

theorem replaceAt_triple (d : Deque) (x i : Nat) (m : Mem) : (d.replaceAt x i m).2.2.1.triple = d.triple := by
  unfold replaceAt; split <;> rfl

end CC.Deque
