import CollectionsC.Proofs.PSListOps
import CollectionsC.Proofs.PListSort
/-! Pointer-level model of `cc_slist.c`, part 5: `cc_slist_sort` (data written back into the existing nodes). -/
namespace CC.PSList
open CC
open CC.PList (Heap St Hdr PNode Cell nd setNext setData optSetNext upd idsOf dataOf nxt lastOr writeBack withData)
open CC.PList

/-- the write-back loop over a singly linked segment: the nodes keep their links, node `j` receives `vals[i + j]` -/
theorem writeBack_sseg (vals : List Nat) : ∀ (cs : List Cell) (i : Nat) (h : Heap) (n : Option Nat),
    SSeg h cs n → (idsOf cs).Nodup → i + cs.length ≤ vals.length →
    SSeg (writeBack vals cs.length i (nxt cs n) h) (withData cs (vals.drop i)) n ∧
    (∀ b, b ∉ idsOf cs → (writeBack vals cs.length i (nxt cs n) h) b = h b)
  | [], i, h, n, _, _, _ => by simp [writeBack, withData]
  | a :: rest, i, h, n, hs, hn, hl => by
    rw [SSeg_cons] at hs
    have hnr : a.1 ∉ idsOf rest ∧ (idsOf rest).Nodup := by simpa [idsOf_cons, List.nodup_cons] using hn
    have hi : i < vals.length := by simp at hl; omega
    have h1 := setData_eq hs.1 (vals.getD i 0)
    simp only [List.length_cons, nxt_cons, writeBack, nd_of h1]
    have hs1 : SSeg (setData h a.1 (vals.getD i 0)) rest n := SSeg_upd_notin _ _ hnr.1 hs.2
    obtain ⟨i1, i2⟩ := writeBack_sseg vals rest (i + 1) _ n hs1 hnr.2 (by simp at hl ⊢; omega)
    rw [drop_eq_getD_cons vals i hi]
    have hlen : rest.length ≤ (vals.drop (i + 1)).length := by simp at hl ⊢; omega
    refine ⟨?_, fun b hb => ?_⟩
    · simp only [withData, List.zipWith_cons_cons]
      rw [SSeg_cons]
      refine ⟨?_, i1⟩
      rw [i2 a.1 hnr.1, h1]
      show some _ = some _
      congr 2
      exact (nxt_withData rest _ n hlen).symm
    · have hb' : b ∉ idsOf rest ∧ b ≠ a.1 := by
        simp only [idsOf_cons, List.mem_cons, not_or] at hb; exact ⟨hb.2, hb.1⟩
      rw [i2 b hb'.1, setData, upd_ne _ _ _ _ hb'.2]

/-- **`cc_slist_sort` on the raw links**: the nodes and their links are those of before (same ids in the same order), node
`j` carries element `j` of the sorted array; a one-element list returns at once; ledger: one block taken and released -/
theorem sort_spec (sortFn : List Nat → List Nat) (hlen : ∀ xs, (sortFn xs).length = xs.length) (s : St) (l : Hdr)
    (cs : List Cell) (m : Mem) (r : SRepr s.heap l cs) :
    (cs.length = 1 → sort sortFn s l m = (.ok, s, l, m)) ∧
    (cs.length ≠ 1 → (m.allocT l.triple).1 = false → sort sortFn s l m = (.errAlloc, s, l, (m.allocT l.triple).2)) ∧
    (cs.length ≠ 1 → (m.allocT l.triple).1 = true →
      (sort sortFn s l m).1 = .ok ∧ (sort sortFn s l m).2.2.1 = l ∧ (sort sortFn s l m).2.2.2 = (m.allocT l.triple).2.freeT l.triple ∧
      (sort sortFn s l m).2.1.fresh = s.fresh ∧
      SRepr (sort sortFn s l m).2.1.heap l (withData cs (sortFn (dataOf cs))) ∧
      idsOf (withData cs (sortFn (dataOf cs))) = idsOf cs ∧ dataOf (withData cs (sortFn (dataOf cs))) = sortFn (dataOf cs) ∧
      (∀ b, b ∉ idsOf cs → (sort sortFn s l m).2.1.heap b = s.heap b)) := by
  unfold sort
  rw [r.size]
  refine ⟨fun e => by simp [e], fun hne ha => by simp [hne, ha], fun hne ha => ?_⟩
  have harr : PList.dataNext s.heap cs.length l.head = dataOf cs := by rw [r.head]; exact dataNext_sseg r.seg
  simp only [hne, if_false, ha, Bool.not_true, Bool.false_eq_true, harr]
  have hl : 0 + cs.length ≤ (sortFn (dataOf cs)).length := by rw [hlen, dataOf_length]; omega
  obtain ⟨w1, w2⟩ := writeBack_sseg (sortFn (dataOf cs)) cs 0 s.heap none r.seg r.nodup hl
  rw [List.drop_zero] at w1
  have hids := idsOf_withData cs (sortFn (dataOf cs)) (by rw [hlen, dataOf_length]; exact Nat.le_refl _)
  have hdat : dataOf (withData cs (sortFn (dataOf cs))) = sortFn (dataOf cs) := by
    rw [dataOf_withData, List.take_of_length_le (by rw [hlen, dataOf_length]; exact Nat.le_refl _)]
  rw [r.head]
  refine ⟨by first | trivial | rfl, by first | trivial | rfl, by first | trivial | rfl, by first | trivial | rfl,
    ⟨by rw [hids]; exact r.nodup, w1, ?_, ?_, ?_⟩, hids, hdat, w2⟩
  · rw [r.size]; simp [withData, hlen]
  · rw [r.head, nxt_withData cs _ none (by rw [hlen, dataOf_length]; exact Nat.le_refl _)]
  · rw [r.tail, lastOr_eq_getLast?, lastOr_eq_getLast?, hids]

end CC.PSList
