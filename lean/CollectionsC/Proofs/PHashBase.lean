import CollectionsC.Model.PHash
import CollectionsC.Proofs.HashTableBase
/-! Pointer-level hash table: heap access, chains (`IsSeg`, `IsChain`, `Chains`), the walks of
`Model/PHash.lean` on a well-formed chain, and their bucket-list readings. -/
namespace CC.PHash
open CC CC.HT

/-! ### heap access -/
@[simp] theorem get_upd (h : Heap) (id : Nat) (f : PEntry → PEntry) (j : Nat) :
    (upd h id f).get j = if j = id then (h.get j).map f else h.get j := rfl
@[simp] theorem get_insert (h : Heap) (id : Nat) (e : PEntry) (j : Nat) :
    (insert h id e).get j = if j = id then some e else h.get j := rfl
@[simp] theorem get_erase (h : Heap) (id j : Nat) :
    (erase h id).get j = if j = id then none else h.get j := rfl

theorem isSome_upd (h : Heap) (id : Nat) (f : PEntry → PEntry) (j : Nat) :
    ((upd h id f).get j).isSome = (h.get j).isSome := by
  rw [get_upd]; split <;> simp

theorem nd_upd_ne (h : Heap) (id : Nat) (f : PEntry → PEntry) (j : Nat) (hne : j ≠ id) :
    nd (upd h id f) j = nd h j := by
  unfold nd; rw [get_upd, if_neg hne]

theorem nd_upd_self (h : Heap) (id : Nat) (f : PEntry → PEntry) (hl : (h.get id).isSome = true) :
    nd (upd h id f) id = f (nd h id) := by
  unfold nd; rw [get_upd, if_pos rfl]
  cases hg : h.get id with
  | none => rw [hg] at hl; simp at hl
  | some e => simp

theorem isSome_setNext (h : Heap) (id : Nat) (v : Option Nat) (j : Nat) :
    ((setNext h id v).get j).isSome = (h.get j).isSome := isSome_upd h id _ j
theorem isSome_setValue (h : Heap) (id v j : Nat) :
    ((setValue h id v).get j).isSome = (h.get j).isSome := isSome_upd h id _ j

theorem nd_setNext_ne (h : Heap) (id : Nat) (v : Option Nat) (j : Nat) (hne : j ≠ id) :
    nd (setNext h id v) j = nd h j := nd_upd_ne h id _ j hne
theorem nd_setNext_self (h : Heap) (id : Nat) (v : Option Nat) (hl : (h.get id).isSome = true) :
    nd (setNext h id v) id = { nd h id with next := v } := nd_upd_self h id _ hl
theorem nd_setValue_ne (h : Heap) (id v j : Nat) (hne : j ≠ id) :
    nd (setValue h id v) j = nd h j := nd_upd_ne h id _ j hne
theorem nd_setValue_self (h : Heap) (id v : Nat) (hl : (h.get id).isSome = true) :
    nd (setValue h id v) id = { nd h id with value := v } := nd_upd_self h id _ hl

/-- `entry->next = …` leaves key, value and hash of every entry alone -/
theorem toEntry_setNext (h : Heap) (id : Nat) (v : Option Nat) (j : Nat) :
    toEntry (nd (setNext h id v) j) = toEntry (nd h j) := by
  by_cases hj : j = id
  · subst hj
    cases hg : h.get j with
    | none => unfold nd setNext; rw [get_upd, if_pos rfl, hg]; rfl
    | some e => rw [nd_setNext_self h j v (by rw [hg]; rfl)]; rfl
  · rw [nd_setNext_ne h id v j hj]

theorem key_setNext (h : Heap) (id : Nat) (v : Option Nat) (j : Nat) :
    (nd (setNext h id v) j).key = (nd h j).key := congrArg Entry.key (toEntry_setNext h id v j)
theorem hash_setNext (h : Heap) (id : Nat) (v : Option Nat) (j : Nat) :
    (nd (setNext h id v) j).hash = (nd h j).hash := congrArg Entry.hash (toEntry_setNext h id v j)

/-- `replace->value = val` leaves every link alone -/
theorem next_setValue (h : Heap) (id v j : Nat) : (nd (setValue h id v) j).next = (nd h j).next := by
  by_cases hj : j = id
  · subst hj
    cases hg : h.get j with
    | none => unfold nd setValue; rw [get_upd, if_pos rfl, hg]; rfl
    | some e => rw [nd_setValue_self h j v (by rw [hg]; rfl)]
  · rw [nd_setValue_ne h id v j hj]

theorem nd_insert_self (h : Heap) (id : Nat) (e : PEntry) : nd (insert h id e) id = e := by
  unfold nd; rw [get_insert, if_pos rfl]; rfl
theorem nd_insert_ne (h : Heap) (id : Nat) (e : PEntry) (j : Nat) (hne : j ≠ id) :
    nd (insert h id e) j = nd h j := by
  unfold nd; rw [get_insert, if_neg hne]
theorem nd_erase_ne (h : Heap) (id j : Nat) (hne : j ≠ id) : nd (erase h id) j = nd h j := by
  unfold nd; rw [get_erase, if_neg hne]

/-! ### pigeonhole: `fresh` is enough fuel -/
theorem nodup_bound_length : ∀ (n : Nat) (l : List Nat), l.Nodup → (∀ x ∈ l, x < n) → l.length ≤ n := by
  intro n
  induction n with
  | zero =>
    intro l _ hb
    cases l with
    | nil => simp
    | cons a l => exact absurd (hb a (by simp)) (by omega)
  | succ n ih =>
    intro l hn hb
    have h1 := ih (l.erase n) (hn.erase n) (by
      intro x hx
      have h2 := (List.Nodup.mem_erase_iff hn).mp hx
      have h3 := hb x h2.2
      omega)
    rw [List.length_erase] at h1
    split at h1 <;> omega

/-! ### chains -/

/-- the `next` links lead from `p` through exactly the (live) entries `ids` and then to `q` -/
def IsSeg (h : Heap) : Option Nat → List Nat → Option Nat → Prop
  | p, [], q => p = q
  | p, id :: rest, q => p = some id ∧ (h.get id).isSome = true ∧ IsSeg h (nd h id).next rest q

/-- a NULL-terminated chain -/
def IsChain (h : Heap) (p : Option Nat) (ids : List Nat) : Prop := IsSeg h p ids none

theorem IsSeg.congr {h h' : Heap} {p q : Option Nat} {ids : List Nat} (hs : IsSeg h p ids q)
    (hagree : ∀ id ∈ ids, (h'.get id).isSome = (h.get id).isSome ∧ (nd h' id).next = (nd h id).next) :
    IsSeg h' p ids q := by
  induction ids generalizing p with
  | nil => exact hs
  | cons id rest ih =>
    obtain ⟨h1, h2, h3⟩ := hs
    have ha := hagree id (by simp)
    refine ⟨h1, by rw [ha.1]; exact h2, ?_⟩
    rw [ha.2]
    exact ih h3 (fun x hx => hagree x (by simp [hx]))

theorem IsChain.congr {h h' : Heap} {p : Option Nat} {ids : List Nat} (hs : IsChain h p ids)
    (hagree : ∀ id ∈ ids, (h'.get id).isSome = (h.get id).isSome ∧ (nd h' id).next = (nd h id).next) :
    IsChain h' p ids := IsSeg.congr hs hagree

theorem isSeg_append (h : Heap) (p q : Option Nat) (a b : List Nat) :
    IsSeg h p (a ++ b) q ↔ ∃ r, IsSeg h p a r ∧ IsSeg h r b q := by
  induction a generalizing p with
  | nil =>
    constructor
    · intro hs; exact ⟨p, rfl, hs⟩
    · rintro ⟨r, h1, h2⟩
      have : p = r := h1
      subst this; exact h2
  | cons id rest ih =>
    constructor
    · intro hs
      obtain ⟨h1, h2, h3⟩ := hs
      obtain ⟨r, h4, h5⟩ := (ih _).mp h3
      exact ⟨r, ⟨h1, h2, h4⟩, h5⟩
    · rintro ⟨r, ⟨h1, h2, h4⟩, h5⟩
      exact ⟨h1, h2, (ih _).mpr ⟨r, h4, h5⟩⟩

theorem IsSeg.live {h : Heap} {p q : Option Nat} {ids : List Nat} (hs : IsSeg h p ids q) :
    ∀ id ∈ ids, (h.get id).isSome = true := by
  induction ids generalizing p with
  | nil => intro id hid; cases hid
  | cons a rest ih =>
    obtain ⟨_, h2, h3⟩ := hs
    intro id hid
    rcases List.mem_cons.mp hid with rfl | hm
    · exact h2
    · exact ih h3 id hm

theorem IsChain.head {h : Heap} {p : Option Nat} {ids : List Nat} (hs : IsChain h p ids) : p = ids.head? := by
  cases ids with
  | nil => exact hs
  | cons a rest => exact hs.1

theorem isChain_nil (h : Heap) : IsChain h none [] := rfl

/-- the link of an entry inside a chain is the head of what follows it -/
theorem IsChain.next_eq {h : Heap} {p : Option Nat} {pre post : List Nat} {id : Nat}
    (hs : IsChain h p (pre ++ id :: post)) : (nd h id).next = post.head? ∧ IsChain h (nd h id).next post := by
  obtain ⟨r, _, h2⟩ := (isSeg_append h p none pre (id :: post)).mp hs
  obtain ⟨_, _, h5⟩ := h2
  exact ⟨IsChain.head h5, h5⟩

/-! ### the walks on a chain -/

theorem chainIds_eq {h : Heap} {p : Option Nat} {ids : List Nat} (hs : IsChain h p ids) (fuel : Nat)
    (hf : ids.length ≤ fuel) : chainIds h fuel p = (ids, true) := by
  induction ids generalizing p fuel with
  | nil =>
    have : p = none := hs
    subst this
    cases fuel <;> rfl
  | cons id rest ih =>
    obtain ⟨h1, _, h3⟩ := hs
    subst h1
    cases fuel with
    | zero => simp at hf
    | succ k =>
      have := ih h3 k (by simpa using hf)
      simp only [chainIds, this]

/-- the bucket-list reading of a chain -/
def ents (h : Heap) (ids : List Nat) : List Entry := ids.map fun id => toEntry (nd h id)

@[simp] theorem ents_nil (h : Heap) : ents h [] = [] := rfl
@[simp] theorem ents_cons (h : Heap) (id : Nat) (ids : List Nat) :
    ents h (id :: ids) = toEntry (nd h id) :: ents h ids := rfl
theorem ents_append (h : Heap) (a b : List Nat) : ents h (a ++ b) = ents h a ++ ents h b := by
  simp [ents]
@[simp] theorem ents_length (h : Heap) (ids : List Nat) : (ents h ids).length = ids.length := by simp [ents]

theorem ents_congr {h h' : Heap} {ids : List Nat} (hagree : ∀ id ∈ ids, toEntry (nd h' id) = toEntry (nd h id)) :
    ents h' ids = ents h ids := List.map_congr_left hagree

theorem findKey_eq {h : Heap} {p : Option Nat} {ids : List Nat} (hs : IsChain h p ids) (key : Option Nat)
    (fuel : Nat) (hf : ids.length ≤ fuel) :
    findKey h key fuel p = ids.find? (fun id => (nd h id).key == key) := by
  induction ids generalizing p fuel with
  | nil =>
    have : p = none := hs
    subst this
    cases fuel <;> rfl
  | cons id rest ih =>
    obtain ⟨h1, _, h3⟩ := hs
    subst h1
    cases fuel with
    | zero => simp at hf
    | succ k =>
      have := ih h3 k (by simpa using hf)
      simp only [findKey, List.find?_cons]
      by_cases hk : (nd h id).key = key
      · simp [hk]
      · rw [if_neg hk, this]
        have : ((nd h id).key == key) = false := by simpa using hk
        rw [this]

theorem chainFind_ents (h : Heap) (ids : List Nat) (key : Option Nat) :
    chainFind (ents h ids) key = (ids.find? (fun id => (nd h id).key == key)).map (fun id => toEntry (nd h id)) := by
  unfold chainFind ents
  rw [List.find?_map]
  rfl

/-- `replace->value = val` read as `chainReplace` -/
theorem chainReplace_ents (h : Heap) (ids : List Nat) (key : Option Nat) (v : Nat) (hn : ids.Nodup)
    (hl : ∀ id ∈ ids, (h.get id).isSome = true) :
    chainReplace (ents h ids) key v =
      (ids.find? (fun id => (nd h id).key == key)).map (fun id => ents (setValue h id v) ids) := by
  induction ids with
  | nil => rfl
  | cons id rest ih =>
    have hn' := List.nodup_cons.mp hn
    simp only [ents_cons, chainReplace, List.find?_cons]
    by_cases hk : (nd h id).key = key
    · have h1 : (toEntry (nd h id)).key = key := hk
      rw [if_pos h1]
      have h2 : ((nd h id).key == key) = true := by simpa using hk
      rw [h2]
      simp only [Option.map_some]
      rw [nd_setValue_self h id v (hl id (by simp))]
      congr 1
      congr 1
      exact (ents_congr (fun x hx => by
        rw [nd_setValue_ne h id v x (by rintro rfl; exact hn'.1 hx)])).symm
    · have h1 : ¬ (toEntry (nd h id)).key = key := hk
      rw [if_neg h1]
      have h2 : ((nd h id).key == key) = false := by simpa using hk
      rw [h2, ih hn'.2 (fun x hx => hl x (by simp [hx]))]
      cases hf : rest.find? (fun id => (nd h id).key == key) with
      | none => rfl
      | some id' =>
        have hm : id' ∈ rest := List.mem_of_find?_eq_some hf
        simp only [Option.map_some]
        rw [nd_setValue_ne h id' v id (by rintro rfl; exact hn'.1 hm)]

/-- the scan of `cc_hashtable_remove` on a chain: where the match is, and what `prev` is then -/
theorem findWithPrev_some {h : Heap} {p : Option Nat} {ids : List Nat} (hs : IsChain h p ids) (key : Option Nat)
    (fuel : Nat) (hf : ids.length ≤ fuel) (prev : Option Nat) (id : Nat) (pv : Option Nat)
    (hr : findWithPrev h key fuel p prev = some (id, pv)) :
    ∃ pre post, ids = pre ++ id :: post ∧ (∀ x ∈ pre, (nd h x).key ≠ key) ∧ (nd h id).key = key ∧
      ((pre = [] ∧ pv = prev) ∨ ∃ pre' x, pre = pre' ++ [x] ∧ pv = some x) := by
  induction ids generalizing p fuel prev with
  | nil =>
    have : p = none := hs
    subst this
    cases fuel <;> simp [findWithPrev] at hr
  | cons a rest ih =>
    obtain ⟨h1, _, h3⟩ := hs
    subst h1
    cases fuel with
    | zero => simp at hf
    | succ k =>
      simp only [findWithPrev] at hr
      by_cases hk : (nd h a).key = key
      · rw [if_pos hk] at hr
        simp only [Option.some.injEq, Prod.mk.injEq] at hr
        obtain ⟨rfl, rfl⟩ := hr
        exact ⟨[], rest, rfl, by simp, hk, Or.inl ⟨rfl, rfl⟩⟩
      · rw [if_neg hk] at hr
        obtain ⟨pre, post, e1, e2, e3, e4⟩ := ih h3 k (by simpa using hf) (some a) hr
        refine ⟨a :: pre, post, by rw [e1]; rfl, ?_, e3, Or.inr ?_⟩
        · intro x hx
          rcases List.mem_cons.mp hx with rfl | hm
          · exact hk
          · exact e2 x hm
        · rcases e4 with ⟨rfl, rfl⟩ | ⟨pre', x, rfl, rfl⟩
          · exact ⟨[], a, rfl, rfl⟩
          · exact ⟨a :: pre', x, rfl, rfl⟩

theorem findWithPrev_none {h : Heap} {p : Option Nat} {ids : List Nat} (hs : IsChain h p ids) (key : Option Nat)
    (fuel : Nat) (hf : ids.length ≤ fuel) (prev : Option Nat)
    (hr : findWithPrev h key fuel p prev = none) : ∀ x ∈ ids, (nd h x).key ≠ key := by
  induction ids generalizing p fuel prev with
  | nil => intro x hx; cases hx
  | cons a rest ih =>
    obtain ⟨h1, _, h3⟩ := hs
    subst h1
    cases fuel with
    | zero => simp at hf
    | succ k =>
      simp only [findWithPrev] at hr
      by_cases hk : (nd h a).key = key
      · rw [if_pos hk] at hr; cases hr
      · rw [if_neg hk] at hr
        intro x hx
        rcases List.mem_cons.mp hx with rfl | hm
        · exact hk
        · exact ih h3 k (by simpa using hf) (some a) hr x hm

theorem chainRemove_ents_split (h : Heap) (pre post : List Nat) (id : Nat) (key : Option Nat)
    (hpre : ∀ x ∈ pre, (nd h x).key ≠ key) (hid : (nd h id).key = key) :
    chainRemove (ents h (pre ++ id :: post)) key = some ((nd h id).value, ents h (pre ++ post)) := by
  induction pre with
  | nil =>
    have h1 : (toEntry (nd h id)).key = key := hid
    simp only [List.nil_append, ents_cons, chainRemove, if_pos h1]
    rfl
  | cons a pre ih =>
    have h1 : ¬ (toEntry (nd h a)).key = key := hpre a (by simp)
    simp only [List.cons_append, ents_cons, chainRemove, if_neg h1]
    rw [ih (fun x hx => hpre x (by simp [hx]))]
    rfl

theorem chainRemove_ents_none (h : Heap) (ids : List Nat) (key : Option Nat)
    (hne : ∀ x ∈ ids, (nd h x).key ≠ key) : chainRemove (ents h ids) key = none := by
  rw [chainRemove_eq_none]
  intro e he
  obtain ⟨x, hx, rfl⟩ := List.mem_map.mp he
  exact hne x hx

/-! ### all chains of a bucket array -/

/-- bucket `i` heads the chain `idss[i]`, for every slot -/
def Chains (h : Heap) : List (Option Nat) → List (List Nat) → Prop
  | [], [] => True
  | p :: ps, ids :: idss => IsChain h p ids ∧ Chains h ps idss
  | [], _ :: _ => False
  | _ :: _, [] => False

theorem Chains.length {h : Heap} {ps : List (Option Nat)} {idss : List (List Nat)} (hc : Chains h ps idss) :
    idss.length = ps.length := by
  induction ps generalizing idss with
  | nil => cases idss with
    | nil => rfl
    | cons _ _ => exact hc.elim
  | cons p ps ih => cases idss with
    | nil => exact hc.elim
    | cons ids idss => simp [ih hc.2]

theorem Chains.get {h : Heap} {ps : List (Option Nat)} {idss : List (List Nat)} (hc : Chains h ps idss) (i : Nat) :
    IsChain h (ps.getD i none) (idss.getD i []) := by
  induction ps generalizing idss i with
  | nil => cases idss with
    | nil => exact isChain_nil h
    | cons _ _ => exact hc.elim
  | cons p ps ih => cases idss with
    | nil => exact hc.elim
    | cons ids idss =>
      cases i with
      | zero => exact hc.1
      | succ i => simpa using ih hc.2 i

theorem Chains.set {h : Heap} {ps : List (Option Nat)} {idss : List (List Nat)} (hc : Chains h ps idss) (i : Nat)
    (p : Option Nat) (ids : List Nat) (hi : IsChain h p ids) : Chains h (ps.set i p) (idss.set i ids) := by
  induction ps generalizing idss i with
  | nil => cases idss with
    | nil => exact hc
    | cons _ _ => exact hc.elim
  | cons p0 ps ih => cases idss with
    | nil => exact hc.elim
    | cons ids0 idss =>
      cases i with
      | zero => exact ⟨hi, hc.2⟩
      | succ i => exact ⟨hc.1, ih hc.2 i⟩

theorem Chains.congr {h h' : Heap} {ps : List (Option Nat)} {idss : List (List Nat)} (hc : Chains h ps idss)
    (hagree : ∀ id ∈ idss.flatten, (h'.get id).isSome = (h.get id).isSome ∧ (nd h' id).next = (nd h id).next) :
    Chains h' ps idss := by
  induction ps generalizing idss with
  | nil => cases idss with
    | nil => exact hc
    | cons _ _ => exact hc.elim
  | cons p ps ih => cases idss with
    | nil => exact hc.elim
    | cons ids idss =>
      refine ⟨IsChain.congr hc.1 (fun id hid => hagree id (by simp [hid])), ih hc.2 (fun id hid => hagree id ?_)⟩
      rw [List.flatten_cons]; exact List.mem_append_right _ hid

theorem Chains.replicate (h : Heap) (n : Nat) : Chains h (List.replicate n none) (List.replicate n []) := by
  induction n with
  | zero => trivial
  | succ n ih => exact ⟨isChain_nil h, ih⟩

theorem Chains.append {h : Heap} {ps qs : List (Option Nat)} {idss jdss : List (List Nat)}
    (h1 : Chains h ps idss) (h2 : Chains h qs jdss) : Chains h (ps ++ qs) (idss ++ jdss) := by
  induction ps generalizing idss with
  | nil => cases idss with
    | nil => exact h2
    | cons _ _ => exact h1.elim
  | cons p ps ih => cases idss with
    | nil => exact h1.elim
    | cons ids idss => exact ⟨h1.1, ih h1.2⟩

/-- reading every bucket with enough fuel gives the ghost id lists -/
theorem Chains.map_chainIds {h : Heap} {ps : List (Option Nat)} {idss : List (List Nat)} (hc : Chains h ps idss)
    (fuel : Nat) (hf : ∀ ids ∈ idss, ids.length ≤ fuel) :
    ps.map (fun p => (chainIds h fuel p).1) = idss ∧ ps.all (fun p => (chainIds h fuel p).2) = true := by
  induction ps generalizing idss with
  | nil => cases idss with
    | nil => exact ⟨rfl, rfl⟩
    | cons _ _ => exact hc.elim
  | cons p ps ih => cases idss with
    | nil => exact hc.elim
    | cons ids idss =>
      have h1 := chainIds_eq hc.1 fuel (hf ids (by simp))
      have h2 := ih hc.2 (fun x hx => hf x (by simp [hx]))
      constructor
      · simp only [List.map_cons, h1, h2.1]
      · simp only [List.all_cons, h1, h2.2, Bool.and_self]

/-- chains of a table with pairwise distinct ids do not share entries -/
theorem disjoint_of_nodup_flatten {idss : List (List Nat)} (hn : idss.flatten.Nodup) (i j : Nat) (hij : i ≠ j)
    (x : Nat) (hi : x ∈ idss.getD i []) (hj : x ∈ idss.getD j []) : False := by
  induction idss generalizing i j with
  | nil => simp at hi
  | cons ids idss ih =>
    rw [List.flatten_cons, List.nodup_append] at hn
    cases i with
    | zero =>
      cases j with
      | zero => exact hij rfl
      | succ j =>
        have hj' : x ∈ idss.getD j [] := by simpa using hj
        exact hn.2.2 x (by simpa using hi) x (mem_flatten_of_getD idss x j hj') rfl
    | succ i =>
      have hi' : x ∈ idss.getD i [] := by simpa using hi
      cases j with
      | zero => exact hn.2.2 x (by simpa using hj) x (mem_flatten_of_getD idss x i hi') rfl
      | succ j =>
        have hj' : x ∈ idss.getD j [] := by simpa using hj
        exact ih hn.2.1 i j (by omega) hi' hj'

theorem nodup_getD_of_nodup_flatten {idss : List (List Nat)} (hn : idss.flatten.Nodup) (i : Nat) :
    (idss.getD i []).Nodup := by
  by_cases hi : i < idss.length
  · rw [flat_split idss i hi, List.nodup_append] at hn
    rw [getD_eq_getElem idss i hi]
    exact (List.nodup_append.mp hn.2.1).1
  · rw [List.getD_eq_getElem?_getD, List.getElem?_eq_none (by omega)]; simp

/-! ### lists of lists -/
theorem perm_cons_set' {α : Type} (d : List (List α)) (i : Nat) (e : α) (hi : i < d.length) :
    (d.set i (e :: d.getD i [])).flatten.Perm (e :: d.flatten) := by
  rw [flat_set _ _ _ hi, getD_eq_getElem _ _ hi]
  conv => rhs; rw [flat_split d i hi]
  simp only [List.cons_append]
  exact List.perm_middle

/-- taking one element out of list `i` -/
theorem perm_set_remove {α : Type} (d : List (List α)) (i : Nat) (pre post : List α) (e : α) (hi : i < d.length)
    (hd : d.getD i [] = pre ++ e :: post) : d.flatten.Perm (e :: (d.set i (pre ++ post)).flatten) := by
  rw [flat_set _ _ _ hi, flat_split d i hi, ← getD_eq_getElem _ _ hi, hd]
  simp only [List.append_assoc, List.cons_append]
  rw [← List.append_assoc, ← List.append_assoc (List.take i d).flatten pre]
  exact List.perm_middle

theorem getD_map_nil {α β : Type} (f : List α → List β) (hf : f [] = []) (l : List (List α)) (i : Nat) :
    (l.map f).getD i [] = f (l.getD i []) := by
  simp only [List.getD_eq_getElem?_getD, List.getElem?_map]
  cases l[i]? with
  | none => exact hf.symm
  | some x => rfl

/-- two readings of the chains that differ in chain `i` only -/
theorem map_set_congr {α β : Type} (f g : List α → List β) (l : List (List α)) (i : Nat)
    (hfg : ∀ j, j ≠ i → g (l.getD j []) = f (l.getD j [])) :
    l.map g = (l.map f).set i (g (l.getD i [])) := by
  apply List.ext_getElem
  · simp
  · intro j h1 h2
    simp only [List.getElem_map, List.getElem_set]
    have hj : j < l.length := by simpa using h1
    by_cases hij : i = j
    · subst hij; rw [if_pos rfl, getD_eq_getElem l i hj]
    · rw [if_neg hij]
      have := hfg j (fun h => hij h.symm)
      rwa [getD_eq_getElem l j hj] at this

theorem getD_set' {α : Type} (bs : List (List α)) (i j : Nat) (ch : List α) (h : i < bs.length) :
    (bs.set i ch).getD j [] = if i = j then ch else bs.getD j [] := getD_set bs i j ch h

/-- replacing slot `i` of the bucket array and of the ghost lists, on a heap that agrees with the old one
on the entries of all other chains -/
theorem Chains.set_congr {h h' : Heap} {ps : List (Option Nat)} {idss : List (List Nat)} (hc : Chains h ps idss)
    (i : Nat) (hi : i < ps.length) (p : Option Nat) (ids : List Nat) (hnew : IsChain h' p ids)
    (hagree : ∀ j, j ≠ i → ∀ x ∈ idss.getD j [],
      (h'.get x).isSome = (h.get x).isSome ∧ (nd h' x).next = (nd h x).next) :
    Chains h' (ps.set i p) (idss.set i ids) := by
  induction ps generalizing idss i with
  | nil => simp at hi
  | cons p0 ps ih => cases idss with
    | nil => exact hc.elim
    | cons ids0 idss =>
      cases i with
      | zero =>
        refine ⟨hnew, Chains.congr hc.2 ?_⟩
        intro x hx
        obtain ⟨j, _, hj⟩ := mem_flatten_getD idss x hx
        exact hagree (j + 1) (by omega) x (by simpa using hj)
      | succ i =>
        refine ⟨IsChain.congr hc.1 (fun x hx => hagree 0 (by omega) x (by simpa using hx)), ?_⟩
        exact ih hc.2 i (by simpa using hi) (fun j hj x hx => hagree (j + 1) (by omega) x (by simpa using hx))

end CC.PHash
