import CollectionsC.Proofs.DequeIter
import CollectionsC.Model.Queue
import CollectionsC.Spec.QueueSpec
/-! Helper lemmas for the queue adapter (`Model/Queue.lean`): constructor, destructor. -/
namespace CC.Queue
open CC CC.Deque

/-- `cc_queue_new_conf` (triple `t`; `cc_queue_new` uses the C library triple): either a queue over an
empty deque — header and inner deque carry the same triple, three more blocks owned on it (queue header,
deque header, buffer) — or `CC_ERR_ALLOC`, no object and a balanced ledger, whichever of the three requests
is refused -/
theorem new_spec (confCap : Nat) (t : Triple) (m : Mem) :
    ((Queue.new confCap t m).1 = .ok ∧ ∃ q, (Queue.new confCap t m).2.1 = some q ∧ q.Inv ∧ q.abs = [] ∧
      q.d.cap = upperPow2 confCap ∧ q.triple = t ∧ memRel t 3 (Queue.new confCap t m).2.2 m) ∨
    ((Queue.new confCap t m).1 = .errAlloc ∧ (Queue.new confCap t m).2.1 = none ∧
      memSame t (Queue.new confCap t m).2.2 m) := by
  cases h1 : (m.allocT t).1
  · right
    have : Queue.new confCap t m = (.errAlloc, none, (m.allocT t).2) := by simp [Queue.new, h1]
    rw [this]
    exact ⟨rfl, rfl, (allocT_refused t m h1).1⟩
  · have e1 := allocT_ok t m h1
    rcases Deque.new_spec confCap t (m.allocT t).2 with ⟨n1, d0, n2, n3, n4, n5, n6, n7, _⟩ | ⟨n1, n2, n3, _⟩
    · left
      have hq : Queue.new confCap t m = (.ok, some ⟨d0, t⟩, (Deque.new confCap t (m.allocT t).2).2.2) := by
        simp [Queue.new, h1, n2]
      rw [hq]
      refine ⟨rfl, _, rfl, ⟨n3, n6⟩, n4, n5, rfl, ?_⟩
      have := memRel_trans n7 e1
      simpa using this
    · right
      have hq : Queue.new confCap t m =
          ((Deque.new confCap t (m.allocT t).2).1, none, (Deque.new confCap t (m.allocT t).2).2.2.freeT t) := by
        simp [Queue.new, h1, n2]
      rw [hq]
      have h13 : memRel t 1 (Deque.new confCap t (m.allocT t).2).2.2 m := memRel_same n3 e1
      have f := freeT_ok t (Deque.new confCap t (m.allocT t).2).2.2 (by have := h13.1; omega)
      exact ⟨n1, rfl, memD_norm (k := 0) (j := 1) (by simpa using memD_trans f h13)⟩

/-- `cc_queue_destroy` releases the three blocks, each through the triple that allocated it -/
theorem destroy_ledger (q : Queue) (m : Mem) (hi : q.Inv) (h : 3 ≤ liveOf q.triple m) :
    memD q.triple 0 3 (q.destroy m) m := by
  unfold Queue.destroy
  have htr := hi.2
  have d1 := Deque.destroy_ledger q.d m (by rw [htr]; omega)
  rw [htr] at d1
  have f := freeT_ok q.triple (q.d.destroy m) (by have := d1.1; omega)
  simpa using memD_trans f d1

end CC.Queue
