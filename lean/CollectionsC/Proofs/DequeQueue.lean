import CollectionsC.Proofs.DequeIter
import CollectionsC.Model.Queue
import CollectionsC.Spec.QueueSpec
/-! Helper lemmas for the queue adapter (`Model/Queue.lean`): constructor, destructor, and the three
forwarding operations expressed on the queue's iteration view. -/
namespace CC.Queue
open CC CC.Deque

/-- `cc_queue_new_conf`: either a queue over an empty deque (three blocks owned: queue header, deque
header, buffer) or `CC_ERR_ALLOC`, no object and a balanced ledger — whichever of the three requests is
refused -/
theorem new_spec (confCap : Nat) (m : Mem) :
    ((Queue.new confCap m).1 = .ok ∧ ∃ q, (Queue.new confCap m).2.1 = some q ∧ q.Inv ∧ q.abs = [] ∧
      q.d.cap = upperPow2 confCap ∧ (Queue.new confCap m).2.2.live = m.live + 3 ∧
      (Queue.new confCap m).2.2.fault = m.fault ∧ (m.sched = [] → (Queue.new confCap m).2.2.sched = [])) ∨
    ((Queue.new confCap m).1 = .errAlloc ∧ (Queue.new confCap m).2.1 = none ∧
      memSame (Queue.new confCap m).2.2 m) := by
  cases h1 : m.alloc.1
  · right
    have : Queue.new confCap m = (.errAlloc, none, m.alloc.2) := by simp [Queue.new, h1]
    rw [this]
    exact ⟨rfl, rfl, alloc_refused_same m h1⟩
  · have e1 := Mem.alloc_fst_true m h1
    rcases Deque.new_spec confCap m.alloc.2 with ⟨n1, d0, n2, n3, n4, n5, n6, n7, n8, n9⟩ | ⟨n1, n2, n3, _⟩
    · left
      have hq : Queue.new confCap m = (.ok, some ⟨d0⟩, (Deque.new confCap m.alloc.2).2.2) := by
        simp [Queue.new, h1, n2]
      rw [hq]
      refine ⟨rfl, _, rfl, n3, n4, n5, by simp only; omega, by simp only; rw [n7, e1.2.1], ?_⟩
      intro hs
      have : (Deque.new confCap m.alloc.2).2.2 = m.alloc.2.alloc.2.alloc.2 := by simp [Deque.new, n8, n9]
      simp only
      rw [this]
      exact (alloc2_grow m.alloc.2 n8 n9).2.2 (alloc_sched_nil m hs).2
    · right
      have hq : Queue.new confCap m = ((Deque.new confCap m.alloc.2).1, none, (Deque.new confCap m.alloc.2).2.2.free) := by
        simp [Queue.new, h1, n2]
      rw [hq]
      obtain ⟨f1, f2, f3, f4⟩ := free_of_pos (Deque.new confCap m.alloc.2).2.2 (by rw [n3.1]; omega)
      refine ⟨n1, rfl, ⟨by simp only; rw [f1, n3.1]; omega, by simp only; rw [f2, n3.2.1, e1.2.1],
        by simp only; rw [f3, n3.2.2.1, e1.2.2], ?_⟩⟩
      intro hs
      simp only
      rw [f4]
      exact n3.2.2.2 (alloc_sched_nil m hs).2

/-- `cc_queue_destroy` releases the three blocks -/
theorem destroy_ledger (q : Queue) (m : Mem) (h : 3 ≤ m.live) :
    (q.destroy m).live = m.live - 3 ∧ (q.destroy m).fault = m.fault := by
  unfold Queue.destroy
  obtain ⟨d1, d2⟩ := Deque.destroy_ledger q.d m (by omega)
  obtain ⟨f1, f2, _, _⟩ := free_of_pos (q.d.destroy m) (by omega)
  exact ⟨by omega, by rw [f2, d2]⟩

end CC.Queue
