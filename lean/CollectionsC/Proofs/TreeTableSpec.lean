import CollectionsC.Proofs.TreeTableIter
/-! The ideal ordered map in its own vocabulary: what lookup, add-or-replace, erase, first/last,
successor/predecessor and in-order enumeration mean, independently of any tree (C03). -/
namespace CC.Spec.OrdMap
open CC CC.Spec
variable {cmp : Nat → Nat → Int}

theorem lookup_cons (e : Nat × Nat) (l : OrdMap) (k : Nat) :
    lookup (e :: l) k = if e.1 = k then some e.2 else lookup l k := by
  by_cases h : e.1 = k <;> simp [lookup, h]

/-- add-or-replace changes the answer for the added key only -/
theorem lookup_insert (h : TotalOrder cmp) {m : OrdMap} (hs : Sorted cmp m) (k v k' : Nat) :
    lookup (insert cmp m k v) k' = if k' = k then some v else lookup m k' := by
  induction m with
  | nil =>
    show lookup [(k, v)] k' = _
    rw [lookup_cons]
    by_cases x : k' = k
    · rw [if_pos x, if_pos x.symm]
    · rw [if_neg x, if_neg (Ne.symm x)]
  | cons e rest ih =>
    obtain ⟨hr, hlt⟩ := sorted_cons.1 hs
    have hs' : Sorted cmp ([] ++ (e.1, e.2) :: rest) := hs
    have ee : e :: rest = [] ++ (e.1, e.2) :: rest := rfl
    by_cases h1 : cmp k e.1 < 0
    · rw [ee, insert_lt h hs' h1 v]
      show lookup ((k, v) :: e :: rest) k' = if k' = k then some v else lookup (e :: rest) k'
      rw [lookup_cons]
      by_cases x : k' = k
      · rw [if_pos x, if_pos x.symm]
      · rw [if_neg x, if_neg (Ne.symm x)]
    · by_cases h2 : cmp e.1 k < 0
      · rw [ee, insert_gt h hs' h2 v]
        show lookup (e :: insert cmp rest k v) k' = if k' = k then some v else lookup (e :: rest) k'
        rw [lookup_cons, lookup_cons, ih hr]
        by_cases x : e.1 = k'
        · have : k' ≠ k := x ▸ h.ne_of_lt h2
          rw [if_pos x, if_pos x, if_neg this]
        · rw [if_neg x, if_neg x]
      · have hk : k = e.1 := h.eq_of_not h1 (by rw [h.gt_iff]; exact h2)
        subst hk
        rw [ee, insert_eq h hs' v]
        show lookup ((e.1, v) :: rest) k' = if k' = e.1 then some v else lookup (e :: rest) k'
        rw [lookup_cons, lookup_cons]
        by_cases x : k' = e.1
        · rw [if_pos x, if_pos x.symm]
        · rw [if_neg x, if_neg (Ne.symm x), if_neg (Ne.symm x)]

/-- erasing changes the answer for the erased key only -/
theorem lookup_erase (m : OrdMap) (k k' : Nat) :
    lookup (erase m k) k' = if k' = k then none else lookup m k' := by
  induction m with
  | nil => simp [erase, lookup]
  | cons e rest ih =>
    rw [erase_cons]
    by_cases x : e.1 = k
    · simp only [x, if_true, ih, lookup_cons]
      by_cases y : k = k' <;> simp [y, Eq.comm]
    · simp only [x, if_false, lookup_cons, ih]
      by_cases y : e.1 = k'
      · have : k' ≠ k := y ▸ x
        simp [y, this]
      · simp [y]

/-- in-order enumeration is strictly ascending -/
theorem keys_ascending {m : OrdMap} (hs : Sorted cmp m) : (keys m).Pairwise (fun a b => cmp a b < 0) := by
  unfold keys; rw [List.pairwise_map]; exact hs

theorem first_min {m : OrdMap} (hs : Sorted cmp m) {e : Nat × Nat} (he : first m = some e) :
    e ∈ m ∧ ∀ e' ∈ m, e' = e ∨ cmp e.1 e'.1 < 0 := by
  obtain ⟨ys, hy⟩ := List.head?_eq_some_iff.1 he
  subst hy
  obtain ⟨_, hlt⟩ := sorted_cons.1 hs
  refine ⟨by simp, fun e' he' => ?_⟩
  rcases List.mem_cons.1 he' with rfl | h'
  · exact Or.inl rfl
  · exact Or.inr (hlt e' h')

theorem last_max {m : OrdMap} (hs : Sorted cmp m) {e : Nat × Nat} (he : last m = some e) :
    e ∈ m ∧ ∀ e' ∈ m, e' = e ∨ cmp e'.1 e.1 < 0 := by
  obtain ⟨ys, hy⟩ := List.getLast?_eq_some_iff.1 he
  subst hy
  have := (List.pairwise_append.1 hs).2.2
  refine ⟨by simp, fun e' he' => ?_⟩
  rcases List.mem_append.1 he' with h' | h'
  · exact Or.inr (this e' h' e (by simp))
  · simp at h'; exact Or.inl h'

/-- `succ` is the least entry strictly above `k` -/
theorem succ_least {m : OrdMap} (hs : Sorted cmp m) {k : Nat} {e : Nat × Nat} (he : succ cmp m k = some e) :
    e ∈ m ∧ cmp k e.1 < 0 ∧ ∀ e' ∈ m, cmp k e'.1 < 0 → e' = e ∨ cmp e.1 e'.1 < 0 := by
  have := first_min (sorted_above hs k) he
  have hm : e ∈ above cmp m k := this.1
  simp only [above, List.mem_filter, decide_eq_true_eq] at hm
  refine ⟨hm.1, hm.2, fun e' he' hk => this.2 e' ?_⟩
  simp only [above, List.mem_filter, decide_eq_true_eq]; exact ⟨he', hk⟩

theorem succ_none {m : OrdMap} {k : Nat} : succ cmp m k = none ↔ ∀ e ∈ m, ¬ cmp k e.1 < 0 := by
  simp [succ, above]

/-- `pred` is the greatest entry strictly below `k` -/
theorem pred_greatest {m : OrdMap} (hs : Sorted cmp m) {k : Nat} {e : Nat × Nat} (he : pred cmp m k = some e) :
    e ∈ m ∧ cmp e.1 k < 0 ∧ ∀ e' ∈ m, cmp e'.1 k < 0 → e' = e ∨ cmp e'.1 e.1 < 0 := by
  have := last_max (sorted_below hs k) he
  have hm : e ∈ below cmp m k := this.1
  simp only [below, List.mem_filter, decide_eq_true_eq] at hm
  refine ⟨hm.1, hm.2, fun e' he' hk => this.2 e' ?_⟩
  simp only [below, List.mem_filter, decide_eq_true_eq]; exact ⟨he', hk⟩

theorem pred_none {m : OrdMap} {k : Nat} : pred cmp m k = none ↔ ∀ e ∈ m, ¬ cmp e.1 k < 0 := by
  simp [pred, below]

/-- every step of the ideal map keeps the entries in strictly ascending key order -/
theorem step_sorted (h : TotalOrder cmp) {m : OrdMap} (hs : Sorted cmp m) (op : Op) (r : Bool) :
    Sorted cmp (step cmp m op r).2 := by
  cases op <;> simp only [step] <;> try exact hs
  · split
    · exact hs
    · exact sorted_insert h hs _ _
  · simp only [opRemove]; split
    · exact sorted_erase hs _
    · exact hs
  · simp only [opRemoveFirst]; split
    · exact hs
    · exact (sorted_cons.1 hs).1
  · simp only [opRemoveLast]; split
    · exact hs
    · exact sorted_dropLast hs
  · exact List.Pairwise.nil

/-- C08: a refused call leaves the ideal map as it was, so a history continues as if the call had
not been made -/
theorem step_refused_inert (m : OrdMap) (op : Op) (r : Bool)
    (h : (step cmp m op r).1.st = some .errAlloc) : (step cmp m op r).2 = m := by
  cases op <;> simp only [step] at h ⊢
  · split
    · rfl
    · rename_i hc; simp [hc] at h
  all_goals first
    | rfl
    | (simp only [opRemove] at h ⊢; split <;> simp_all)
    | (simp only [opRemoveFirst] at h ⊢; split <;> simp_all)
    | (simp only [opRemoveLast] at h ⊢; split <;> simp_all)
    | simp at h

theorem run_append (m : OrdMap) (a b : List (Op × Bool)) :
    (run cmp m (a ++ b)).2 = (run cmp (run cmp m a).2 b).2 := by
  induction a generalizing m with
  | nil => rfl
  | cons x a ih => obtain ⟨op, r⟩ := x; simp only [List.cons_append, run]; exact ih _

end CC.Spec.OrdMap

/-! ### what an ideal iteration hands out -/
namespace CC.Spec.OrdMap
open CC CC.Spec
variable {cmp : Nat → Nat → Int}

/-- state of an ideal iteration over the original map `m0`: the current map only lost entries, every
key still to be visited is present, the key yielded last is not among them -/
structure CursorOk (m0 : OrdMap) (c : Cursor) (f : OrdMap) : Prop where
  sub   : f.Sublist m0
  todo  : ∀ k ∈ c.todo, contains f k = true
  nodup : c.todo.Nodup
  last  : ∀ k, c.last = some k → k ∉ c.todo

theorem lookup_mem {f : OrdMap} {k v : Nat} (h : lookup f k = some v) : (k, v) ∈ f := by
  simp only [lookup, Option.map_eq_some_iff] at h
  obtain ⟨x, hx, hv⟩ := h
  have hm := List.mem_of_find?_eq_some hx
  have hk : x.1 = k := by simpa using List.find?_some hx
  rw [← hk, ← hv]; exact hm

theorem contains_erase_ne {f : OrdMap} {k k' : Nat} (hne : k' ≠ k) (h : contains f k' = true) :
    contains (erase f k) k' = true := by
  simp only [contains, erase, List.any_eq_true, List.mem_filter] at h ⊢
  obtain ⟨x, hx, hxk⟩ := h
  refine ⟨x, ⟨hx, ?_⟩, hxk⟩
  have : x.1 = k' := by simpa using hxk
  simp [this, hne]

theorem cursorOk_init (ho : TotalOrder cmp) {m : OrdMap} (hs : Sorted cmp m) : CursorOk m (Cursor.init m) m := by
  refine ⟨List.Sublist.refl m, ?_, ?_, fun k hk => by simp [Cursor.init] at hk⟩
  · intro k hk; simpa [contains, keys, Cursor.init] using hk
  · have : (keys m).Pairwise (fun a b => cmp a b < 0) := keys_ascending hs
    exact this.imp (fun h => ho.ne_of_lt h)

/-- one step keeps `CursorOk`, and a successful `next` hands out an entry of the original map with
its real value (the default of `getD` is never used) -/
theorem cursorOk_step {m0 : OrdMap} {c : Cursor} {f : OrdMap} (h : CursorOk m0 c f) (op : IterOp) :
    CursorOk m0 (c.step f op).2.1 (c.step f op).2.2 ∧
    (op = .next → ∀ k, (c.step f op).1.val = some k → ∃ v, (k, v) ∈ m0 ∧ (c.step f op).1.log = [v]) := by
  cases op with
  | next =>
    simp only [Cursor.step, Cursor.next]
    cases hc : c.todo with
    | nil => exact ⟨by simpa [hc] using h, fun _ k hk => by simp at hk⟩
    | cons k rest =>
      have hk := h.todo k (by rw [hc]; simp)
      have hnd := h.nodup; rw [hc] at hnd
      obtain ⟨v, hv⟩ : ∃ v, lookup f k = some v := by
        have := contains_iff_lookup f k; rw [hk] at this
        cases hl : lookup f k with
        | none => rw [hl] at this; simp at this
        | some v => exact ⟨v, rfl⟩
      refine ⟨⟨h.sub, fun k' hk' => h.todo k' (by rw [hc]; simp [hk']), (List.nodup_cons.1 hnd).2, ?_⟩, ?_⟩
      · intro k' hk'; simp only [Option.some.injEq] at hk'; subst hk'; exact (List.nodup_cons.1 hnd).1
      · intro _ k' hk'
        simp only [Option.map_some, Option.some.injEq] at hk'; subst hk'
        exact ⟨v, h.sub.subset (lookup_mem hv), by simp [hv]⟩
  | remove =>
    refine ⟨?_, fun x => by simp at x⟩
    simp only [Cursor.step, Cursor.remove]
    cases hl : c.last with
    | none => exact h
    | some k =>
      refine ⟨(List.filter_sublist).trans h.sub, ?_, h.nodup, fun k' hk' => by simp at hk'⟩
      intro k' hk'
      exact contains_erase_ne (fun e => h.last k hl (e ▸ hk')) (h.todo k' hk')

/-- **every entry an ideal iteration hands out is an entry of the original map, with its real value**,
whatever the program removes in between -/
theorem cursor_run_yields {m0 : OrdMap} {c : Cursor} {f : OrdMap} (h : CursorOk m0 c f) (prog : List IterOp) :
    ∀ p ∈ prog.zip (c.run f prog).1, p.1 = .next → ∀ k, p.2.val = some k →
      ∃ v, (k, v) ∈ m0 ∧ p.2.log = [v] := by
  induction prog generalizing c f with
  | nil => intro p hp; simp [Cursor.run] at hp
  | cons op rest ih =>
    obtain ⟨h1, h2⟩ := cursorOk_step h op
    intro p hp
    simp only [Cursor.run, List.zip_cons_cons, List.mem_cons] at hp
    rcases hp with rfl | hp
    · exact fun hn => h2 hn
    · exact ih h1 p hp

end CC.Spec.OrdMap
