import CollectionsC.Proofs.PTreeDeleteStepR
import CollectionsC.Proofs.PTreeInsertLoop
import CollectionsC.Proofs.TreeTableShort
import CollectionsC.Proofs.PTreeRemove
set_option linter.unusedSimpArgs false
set_option linter.unusedVariables false
namespace CC.Tree
theorem subtree_root' (t : Tree) : subtree t [] = t := by cases t <;> rfl
end CC.Tree

namespace CC.PTree
open CC
open CC.Tree (Path Dir)

/-- what `rebalance_after_delete`'s loop achieves: a well-formed heap for a tree `T'` with the nodes and the in-order
content of `T`; the returned `x` is the node at a position `q'` such that blackening it makes the red-black rules
hold everywhere; the root is black unless `x` is the root -/
def DelPost (T : ITree) (r : PT × Nat) : Prop :=
  ∃ T' q', Represents r.1 T' ∧ T'.erase.toList = T.erase.toList ∧ T'.ids.Perm T.ids ∧
    r.2 = (T'.subtree q').rid ∧
    Tree.RBok (Tree.replaceAt T'.erase q' (Tree.subtree T'.erase q').blacken) ∧
    (q' = [] ∨ T'.col = .black)

theorem DelPost.trans {T1 T : ITree} {r : PT × Nat} (h : DelPost T1 r) (hl : T1.erase.toList = T.erase.toList)
    (hp : T1.ids.Perm T.ids) : DelPost T r := by
  obtain ⟨T', q', a, b, c, d, e, f⟩ := h
  exact ⟨T', q', a, b.trans hl, c.trans hp, d, e, f⟩

/-- the loop stops at a node that is not black -/
theorem rebalDeleteLoop_stop (f : Nat) (st : PT) (x : Nat) (h : x = st.root ∨ (st.heap.get x).color ≠ .black) :
    rebalDeleteLoop f st x = (st, x) := by
  cases f with
  | zero => rfl
  | succ f => simp only [rebalDeleteLoop, h, if_true]

/-- the rest of an iteration after case 1, `x` a left child -/
def delTailL (f : Nat) (st : PT) (x w : Nat) : PT × Nat :=
  if (st.heap.get (st.heap.get w).left).color = .black ∧ (st.heap.get (st.heap.get w).right).color = .black then
    rebalDeleteLoop f { st with heap := setColor st.heap w .red } ((setColor st.heap w .red).get x).parent
  else
    let r3 := delCase3L st x w
    let st4 := delCase4L r3.1 x r3.2
    (st4, st4.root)

theorem rebalDeleteLoop_left' (f : Nat) (st : PT) (x : Nat) (h1 : x ≠ st.root) (h2 : (st.heap.get x).color = .black)
    (h3 : x = (st.heap.get (st.heap.get x).parent).left) :
    rebalDeleteLoop (f + 1) st x = delTailL f (delCase1L st x).1 x (delCase1L st x).2 :=
  rebalDeleteLoop_left f st x h1 h2 h3

/-- the hypotheses under which the loop is entered or continued -/
structure DelPre (st : PT) (T : ITree) (q : Path) (n : Nat) (x : Nat) : Prop where
  rep : Represents st T
  short : Tree.Short T.erase q n
  hx : x = (T.subtree q).rid
  par : q ≠ [] → (st.heap.get x).parent = parentAt T 0 q
  root : q = [] ∨ T.col = .black

/-- at the root, or at a red node, the loop returns at once and the postcondition holds -/
theorem DelPre.stop {st : PT} {T : ITree} {q : Path} {n x : Nat} (h : DelPre st T q n x) (f : Nat)
    (hc : q = [] ∨ (T.subtree q).col = .red) : DelPost T (rebalDeleteLoop f st x) := by
  have hstop : x = st.root ∨ (st.heap.get x).color ≠ .black := by
    rcases hc with e | e
    · left; rw [h.hx, e, h.rep.root]; simp
    · right
      have := h.rep.rep.sub q
      cases hs : T.subtree q with
      | nil => rw [hs] at e; simp at e
      | node xi c a k v b =>
        rw [hs] at this e
        rw [h.hx, hs]; simp only [ITree.rid_node, this.2.1]
        simp only [ITree.col_node] at e; rw [e]; simp
  rw [rebalDeleteLoop_stop f st x hstop]
  refine ⟨T, q, h.rep, rfl, List.Perm.refl _, h.hx, ?_, h.root⟩
  have := (Tree.Short_finish T.erase q n h.short (by
    rcases hc with e | e
    · exact Or.inl e
    · right; rw [← ITree.erase_subtree, ITree.erase_col]; exact e)).1
  exact this

/-- facts about replacing the subtree at `g` once more -/
theorem At.swap {st : PT} {T : ITree} {g : Path} {P : ITree} (hA : At st T g P) (hP : P ≠ .nil) (P' : ITree)
    (hl : P'.erase.toList = P.erase.toList) (hp : P'.ids.Perm P.ids) :
    (T.replace g P').erase.toList = (T.replace g P).erase.toList ∧ (T.replace g P').ids.Perm (T.replace g P).ids ∧
    (g ≠ [] → (T.replace g P').col = (T.replace g P).col) ∧
    (T.replace g P').erase = Tree.replaceAt (T.replace g P).erase g P'.erase ∧
    Tree.subtree (T.replace g P).erase g = P.erase := by
  have hsub : (T.replace g P).subtree g = P := ITree.subtree_replace T g P hA.ne
  have hne : (T.replace g P).subtree g ≠ .nil := by rw [hsub]; exact hP
  have := ITree.replace_facts (T.replace g P) g P' hne (by rw [hsub]; exact hl) (by rw [hsub]; exact hp)
  rw [ITree.replace_replace] at this
  refine ⟨this.1, this.2.1, this.2.2, ?_, by rw [← ITree.erase_subtree, hsub]⟩
  rw [← ITree.erase_replace, ITree.replace_replace]

/-- **the rest of an iteration with a black sibling** (`x` a left child): case 2 moves the deficit to the parent
(the loop continues there, or stops at once when the parent is red), cases 3/4 repair the tree -/
theorem delTailL_post (f : Nat)
    (ih : ∀ (st : PT) (T : ITree) (q : Path) (n x : Nat), DelPre st T q n x → q.length ≤ f →
      DelPost T (rebalDeleteLoop f st x))
    {st : PT} {T : ITree} {g : Path} {xp : Nat} {cp : Colour} {X : ITree} {kp vp w : Nat} {wl : ITree} {kw vw : Nat}
    {wr : ITree} (hA : At st T g (.node xp cp X kp vp (.node w .black wl kw vw wr))) {n : Nat}
    (hS : Tree.Short (T.replace g (.node xp cp X kp vp (.node w .black wl kw vw wr))).erase (g ++ [.L]) n)
    {x : Nat} (hx : x = X.rid) (hxp : (st.heap.get x).parent = xp) (hXc : X.col = .black)
    (hroot : g = [] ∨ (T.replace g (.node xp cp X kp vp (.node w .black wl kw vw wr))).col = .black)
    (hcont : cp = .red ∨ g.length ≤ f) :
    DelPost (T.replace g (.node xp cp X kp vp (.node w .black wl kw vw wr))) (delTailL f st x w) := by
  have hPne : (ITree.node xp cp X kp vp (.node w .black wl kw vw wr)) ≠ .nil := by simp
  obtain ⟨m, s1, c2, c3⟩ := Tree.Short_ctx g [.L] (by simp) hS
  have hsubE := (hA.swap hPne _ rfl (List.Perm.refl _)).2.2.2.2
  rw [hsubE] at s1 c2 c3
  have s1' : Tree.Short (.node cp X.erase kp vp (.node .black wl.erase kw vw wr.erase)) [.L] m := s1
  have hXc' : X.erase.col = .black := by rw [ITree.erase_col]; exact hXc
  obtain ⟨rw_, w0⟩ := hA.get [.R] rfl
  rcases Tree.col_cases wr.erase with hwr | hwr
  · rcases Tree.col_cases wl.erase with hwl | hwl
    · -- case 2
      have hwl' : wl.col = .black := by rw [← ITree.erase_col]; exact hwl
      have hwr' : wr.col = .black := by rw [← ITree.erase_col]; exact hwr
      obtain ⟨htest, hA2, hpar2⟩ := delete_step_L_case2 hA hwl' hwr' hxp
      unfold delTailL
      rw [if_pos htest, hpar2]
      obtain ⟨e1, e2, e3, e4, _⟩ := hA.swap hPne (.node xp cp X kp vp (.node w .red wl kw vw wr))
        (by simp [ITree.erase, Tree.toList]) (List.Perm.refl _)
      have hS2 : Tree.Short (T.replace g (.node xp cp X kp vp (.node w .red wl kw vw wr))).erase g n := by
        have := c2 _ [] (Tree.Short_case2_L s1' hXc' hwl hwr) (fun h => absurd rfl h)
        rw [e4]; simp only [List.append_nil] at this; exact this
      have hsub2 : (T.replace g (.node xp cp X kp vp (.node w .red wl kw vw wr))).subtree g =
          .node xp cp X kp vp (.node w .red wl kw vw wr) := ITree.subtree_replace T g _ hA.ne
      have pre : DelPre { st with heap := setColor st.heap w .red }
          (T.replace g (.node xp cp X kp vp (.node w .red wl kw vw wr))) g n xp := by
        refine ⟨hA2.rep, hS2, by rw [hsub2]; rfl, fun hg => ?_, ?_⟩
        · have := (hA2.get [] rfl).1
          rw [this]; simp [ITree.parentAt_replace]
        · rcases hroot with e | e
          · exact Or.inl e
          · by_cases hg : g = []
            · exact Or.inl hg
            · exact Or.inr (by rw [e3 hg]; exact e)
      have post : DelPost (T.replace g (.node xp cp X kp vp (.node w .red wl kw vw wr)))
          (rebalDeleteLoop f { st with heap := setColor st.heap w .red } xp) := by
        rcases hcont with hc | hc
        · exact pre.stop f (Or.inr (by rw [hsub2]; exact hc))
        · exact ih _ _ _ _ _ pre hc
      exact post.trans e1 e2
    · -- case 3, then case 4
      cases hwlE : wl with
      | nil => rw [hwlE] at hwl; simp [ITree.erase] at hwl
      | node l cl la kl vl lb =>
        subst hwlE
        have hcl : cl = Colour.red := by simpa [ITree.erase] using hwl
        subst hcl
        have hwr' : wr.col = .black := by rw [← ITree.erase_col]; exact hwr
        obtain ⟨st3, e3, hA3, hpar3⟩ := delete_step_L_case3 hA hwr' hx hxp
        obtain ⟨st4, e4, hA4⟩ := delete_step_L_case4 hA3 hpar3
        have hnt : ¬ ((st.heap.get (st.heap.get w).left).color = .black ∧
            (st.heap.get (st.heap.get w).right).color = .black) := by
          rw [rw_]; simp only [ITree.rid_node]
          have := (hA.get [.R, .L] rfl).1
          rw [this]; simp
        unfold delTailL
        rw [if_neg hnt]
        simp only [e3, e4]
        obtain ⟨f1, f2, f3, f4, _⟩ := hA.swap hPne
          (.node l cp (.node xp .black X kp vp la) kl vl (.node w .black lb kw vw wr))
          (by simp [ITree.erase, Tree.toList]) (by
            rw [List.perm_iff_count]; intro a
            simp only [ITree.ids_node, List.count_cons, List.count_append, List.cons_append]; omega)
        have s3 := Tree.Short_case3_L (X := X.erase) (la := la.erase) (lb := lb.erase) (wr := wr.erase) s1' hwr
        obtain ⟨k1, k2⟩ := Tree.Short_case4_L s3 hXc'
        obtain ⟨r1, r2, r3⟩ := c3 (ITree.node l cp (.node xp .black X kp vp la) kl vl (.node w .black lb kw vw wr)).erase
          k1 k2 (Or.inr rfl)
        rw [← f4] at r1 r3
        refine ⟨_, [], hA4.rep, f1, f2, by rw [ITree.subtree_root]; exact hA4.rep.root, ?_, Or.inl rfl⟩
        simp only [Tree.replaceAt]
        rw [Tree.subtree_root']; exact r1.blacken
  · -- case 4
    cases hwrE : wr with
    | nil => rw [hwrE] at hwr; simp [ITree.erase] at hwr
    | node r cr ra kr vr rb =>
      subst hwrE
      have hcr : cr = Colour.red := by simpa [ITree.erase] using hwr
      subst hcr
      have e3 : delCase3L st x w = (st, w) := delete_step_L_case3_skip hA rfl x
      obtain ⟨st4, e4, hA4⟩ := delete_step_L_case4 hA hxp
      have hnt : ¬ ((st.heap.get (st.heap.get w).left).color = .black ∧
          (st.heap.get (st.heap.get w).right).color = .black) := by
        rw [rw_]; simp only [ITree.rid_node]
        have := (hA.get [.R, .R] rfl).1
        rw [this]; simp
      unfold delTailL
      rw [if_neg hnt]
      simp only [e3, e4]
      obtain ⟨f1, f2, f3, f4, _⟩ := hA.swap hPne
        (.node w cp (.node xp .black X kp vp wl) kw vw (.node r .black ra kr vr rb))
        (by simp [ITree.erase, Tree.toList]) (by
          rw [List.perm_iff_count]; intro a
          simp only [ITree.ids_node, List.count_cons, List.count_append, List.cons_append]; omega)
      obtain ⟨k1, k2⟩ := Tree.Short_case4_L (X := X.erase) (wl := wl.erase) (ra := ra.erase) (rb := rb.erase) s1' hXc'
      obtain ⟨r1, r2, r3⟩ := c3 (ITree.node w cp (.node xp .black X kp vp wl) kw vw (.node r .black ra kr vr rb)).erase
        k1 k2 (Or.inr rfl)
      rw [← f4] at r1 r3
      refine ⟨_, [], hA4.rep, f1, f2, by rw [ITree.subtree_root]; exact hA4.rep.root, ?_, Or.inl rfl⟩
      simp only [Tree.replaceAt]
      rw [Tree.subtree_root']; exact r1.blacken

/-- **one iteration, `x` a black left child** -/
theorem iter_L (f : Nat)
    (ih : ∀ (st : PT) (T : ITree) (q : Path) (n x : Nat), DelPre st T q n x → q.length ≤ f →
      DelPost T (rebalDeleteLoop f st x))
    {st : PT} {T : ITree} {g : Path} {n x : Nat} (pre : DelPre st T (g ++ [.L]) n x)
    (hXc : (T.subtree (g ++ [.L])).col = .black) (hlen : g.length ≤ f) :
    DelPost T (rebalDeleteLoop (f + 1) st x) := by
  obtain ⟨m, s1, c2, c3⟩ := Tree.Short_ctx g [.L] (by simp) pre.short
  -- the parent
  cases hg : T.subtree g with
  | nil => rw [← ITree.erase_subtree, hg] at s1; simp [ITree.erase, Tree.Short] at s1
  | node xp cp A kp vp B =>
  have hXA : T.subtree (g ++ [.L]) = A := by rw [ITree.subtree_append, hg]; simp
  rw [hXA] at hXc
  have hne : T.subtree g ≠ .nil := by rw [hg]; simp
  have hTP : T.replace g (.node xp cp A kp vp B) = T := by rw [← hg, ITree.replace_subtree_self]
  have hAt : At st T g (.node xp cp A kp vp B) := by rw [← hg]; exact At.of_represents pre.rep g hne
  have s1' : Tree.Short (.node cp A.erase kp vp B.erase) [.L] m := by
    rw [← ITree.erase_subtree, hg] at s1; exact s1
  -- the sibling
  obtain ⟨cw, wl', kw, vw, wr', hW⟩ := Tree.Short_sibling_L s1'
  cases hB : B with
  | nil => rw [hB] at hW; simp [ITree.erase] at hW
  | node w cw wl kw vw wr =>
  subst hB
  obtain ⟨rp, p0⟩ := hAt.get [] rfl
  have hx : x = A.rid := by rw [pre.hx, hXA]
  have hxp : (st.heap.get x).parent = xp := by
    rw [pre.par (by simp)]; simp [parentAt, hg]
  have h1 : x ≠ st.root := by
    intro e
    have hT : T ≠ .nil := by intro e'; rw [e'] at hg; simp at hg
    cases hTT : T with
    | nil => exact hT hTT
    | node r c l k v rr =>
      have := (pre.rep.get_at [] (by rw [hTT]; exact ITree.subtree_root _)).1
      rw [pre.rep.root, hTT] at e
      simp only [ITree.rid_node] at e
      rw [e, this] at hxp
      simp [parentAt] at hxp
      exact p0 hxp.symm
  have h2 : (st.heap.get x).color = .black := by
    have := hAt.col_read [.L]
    simp only [ITree.subtree_L, ITree.subtree_root] at this
    rw [hx, this]; exact hXc
  have h3 : x = (st.heap.get (st.heap.get x).parent).left := by rw [hxp, rp]; exact hx
  rw [rebalDeleteLoop_left' f st x h1 h2 h3]
  have hPne : (ITree.node xp cp A kp vp (.node w cw wl kw vw wr)) ≠ .nil := by simp
  have hroot' : g = [] ∨ T.col = .black := by
    rcases pre.root with e | e
    · simp at e
    · exact Or.inr e
  cases cw with
  | black =>
    rw [delete_step_L_case1_skip hAt hxp]
    have := delTailL_post f ih hAt (by rw [hTP]; exact pre.short) hx hxp hXc (by rw [hTP]; exact hroot') (Or.inr hlen)
    rw [hTP] at this; exact this
  | red =>
    obtain ⟨st1, e1, hA1, hpar1⟩ := delete_step_L_case1 hAt hx hxp
    rw [e1]
    obtain ⟨hcp, k1, k2⟩ := Tree.Short_case1_L (X := A.erase) (wl := wl.erase) (wr := wr.erase) s1'
    subst hcp
    obtain ⟨f1, f2, f3, f4, f5⟩ := hAt.swap hPne (.node w .black (.node xp .red A kp vp wl) kw vw wr)
      (by simp [ITree.erase, Tree.toList]) (by
        rw [List.perm_iff_count]; intro a
        simp only [ITree.ids_node, List.count_cons, List.count_append, List.cons_append]; omega)
    rw [hTP] at f1 f2 f3 f4
    -- the new sibling is a black node
    cases hwl : wl with
    | nil =>
      rw [hwl] at k1
      simp [ITree.erase, Tree.Short, Tree.bh] at k1
    | node w1 c1 wll k1' v1' wlr =>
    subst hwl
    have hc1 : c1 = Colour.black := by simpa [ITree.erase] using k2
    subst hc1
    have hS1 : Tree.Short (T.replace g (.node w .black (.node xp .red A kp vp (.node w1 .black wll k1' v1' wlr)) kw vw wr)).erase
        (g ++ [.L] ++ [.L]) n := by
      have := c2 _ [.L, .L] k1 (fun _ => Or.inl rfl)
      have e : g ++ [Dir.L] ++ [Dir.L] = g ++ [Dir.L, Dir.L] := by simp
      rw [f4, e]; exact this
    have hsub1 : (T.replace g (.node w .black (.node xp .red A kp vp (.node w1 .black wll k1' v1' wlr)) kw vw wr)).subtree
        (g ++ [.L]) = .node xp .red A kp vp (.node w1 .black wll k1' v1' wlr) := by
      rw [ITree.subtree_replace_under T g [.L] _ hne]; rfl
    have hA1' : At st1 (T.replace g (.node w .black (.node xp .red A kp vp (.node w1 .black wll k1' v1' wlr)) kw vw wr))
        (g ++ [.L]) (.node xp .red A kp vp (.node w1 .black wll k1' v1' wlr)) := by
      have := At.of_represents hA1.rep (g ++ [.L]) (by rw [hsub1]; simp)
      rw [hsub1] at this; exact this
    have hself : (T.replace g (.node w .black (.node xp .red A kp vp (.node w1 .black wll k1' v1' wlr)) kw vw wr)).replace
        (g ++ [.L]) (.node xp .red A kp vp (.node w1 .black wll k1' v1' wlr)) =
        T.replace g (.node w .black (.node xp .red A kp vp (.node w1 .black wll k1' v1' wlr)) kw vw wr) := by
      have := ITree.replace_subtree_self (T.replace g (.node w .black (.node xp .red A kp vp (.node w1 .black wll k1' v1' wlr)) kw vw wr)) (g ++ [.L])
      rw [hsub1] at this; exact this
    have := delTailL_post f ih hA1' (by rw [hself]; exact hS1) hx hpar1 hXc (by
      rw [hself]
      by_cases hg0 : g = []
      · right; subst hg0; simp
      · right; rw [f3 hg0]; exact hroot'.resolve_left hg0) (Or.inl rfl)
    rw [hself] at this
    exact this.trans f1 f2
end CC.PTree
