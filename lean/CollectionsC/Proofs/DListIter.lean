import CollectionsC.Proofs.DListDerived
/-! `cc_list.c` model, part 5: iterators.  The model cursor is related to the ideal cursor of
`Spec.LSeq` by `ItRel` (ascending), `DitRel` (descending), `ZipRel` (zip); every iterator
operation preserves the relation and returns what the ideal cursor returns. -/
namespace CC.DList
open CC Chain
open CC.Spec

structure ItRel (xs : List Nat) (c : LSeq.Cursor) (it : Iter) : Prop where
  idx : it.index = c.pos
  nxt : it.next = ptrAt xs.length c.pos
  lst : it.last = c.cur
  le : c.pos ≤ xs.length
  cur : ∀ k, c.cur = some k → k < c.pos

theorem iterInit_rel (xs : List Nat) : ItRel xs LSeq.itNew (iterInit (ofList t xs)) :=
  ⟨rfl, ofList_head_ptrAt (t := t) xs, rfl, Nat.zero_le _, by intro k h; cases h⟩

theorem iterNext_ofList (xs : List Nat) (c : LSeq.Cursor) (it : Iter) (m : Mem) (h : ItRel xs c it) :
    ∃ it', iterNext (ofList t xs) it m = ((LSeq.itNext xs c).1, (LSeq.itNext xs c).2.1, it', m) ∧
      ItRel xs (LSeq.itNext xs c).2.2 it' := by
  unfold iterNext LSeq.itNext
  by_cases hp : c.pos < xs.length
  · refine ⟨{ index := it.index + 1, last := it.next, next := it.next.next xs.length }, ?_, ?_⟩
    · rw [h.nxt, ptrAt_lt _ _ hp]
      simp only [reduceCtorEq, if_false, ofList_nodes, Ptr.valid, hp, decide_true, Mem.check_true, data_some, if_true]
    · simp only [hp, if_true]
      exact ⟨by simp [h.idx], by rw [h.nxt, next_ptrAt _ _ hp],
        by rw [h.nxt, ptrAt_lt _ _ hp], by simp only []; omega, by intro k hk; simp only [Option.some.injEq] at hk; simp only []; omega⟩
  · refine ⟨it, ?_, ?_⟩
    · rw [h.nxt]; simp [ptrAt, hp]
    · simp only [hp, if_false]; exact h

theorem iterIndex_rel (xs : List Nat) (c : LSeq.Cursor) (it : Iter) (h : ItRel xs c it) :
    iterIndex it = LSeq.itIndex c := by simp [iterIndex, LSeq.itIndex, wdec, h.idx]

theorem iterReplace_ofList (xs : List Nat) (c : LSeq.Cursor) (it : Iter) (x : Nat) (m : Mem) (h : ItRel xs c it) :
    iterReplace (ofList t xs) it x m =
      ((LSeq.itReplace xs c x).1, (LSeq.itReplace xs c x).2.1, ofList t (LSeq.itReplace xs c x).2.2, m) ∧
    ItRel (LSeq.itReplace xs c x).2.2 c it := by
  unfold iterReplace LSeq.itReplace
  rw [h.lst]
  cases hc : c.cur with
  | none => simp; exact h
  | some k =>
    have hk : k < xs.length := by have := h.cur k hc; have := h.le; omega
    have h0 : xs.length ≠ 0 := by omega
    refine ⟨?_, ?_⟩
    · simp [Ptr.valid, hk, data_some, Chain.setData, Ptr.pos, ofList, h0]
    · simp only []
      exact ⟨h.idx, by simp [h.nxt], h.lst, by simp [h.le], h.cur⟩

theorem iterRemove_ofList (xs : List Nat) (c : LSeq.Cursor) (it : Iter) (m : Mem) (h : ItRel xs c it) :
    ∃ it', iterRemove (ofList t xs) it m =
      ((LSeq.itRemove xs c).1, (LSeq.itRemove xs c).2.1, ofList t (LSeq.itRemove xs c).2.2.1, it',
       if (LSeq.itRemove xs c).1 = .ok then (m.freeT t) else m) ∧
    ItRel (LSeq.itRemove xs c).2.2.1 (LSeq.itRemove xs c).2.2.2 it' := by
  unfold iterRemove LSeq.itRemove
  rw [h.lst]
  cases hc : c.cur with
  | none => exact ⟨it, by simp, by simpa using h⟩
  | some k =>
    have hkp := h.cur k hc
    have hk : k < xs.length := by have := h.le; omega
    refine ⟨{ index := wdec it.index, last := none, next := it.next.shiftDel k }, ?_, ?_⟩
    · simp only [reduceCtorEq, if_false, unlinkn_ofList _ _ _ hk, if_true, Ptr.pos, Option.getD_some]
    · simp only []
      refine ⟨?_, ?_, rfl, ?_, by intro k' hk'; cases hk'⟩
      · simp only [wdec, h.idx]; rw [if_neg (by omega)]
      · rw [h.nxt]
        simp only [ptrAt, List.length_eraseIdx, hk, if_true, Ptr.pos, Option.getD_some]
        by_cases hp : c.pos < xs.length
        · rw [if_pos hp, if_pos (by omega)]; simp [Ptr.shiftDel, hkp]
        · rw [if_neg hp, if_neg (by omega)]; rfl
      · simp only [List.length_eraseIdx, hk, if_true]; have := h.le; omega

theorem shiftIns_ptrAt' (n k p : Nat) (hk : k < p) (hp : p ≤ n) :
    (ptrAt n p).shiftIns (k + 1) 1 = ptrAt (n + 1) (p + 1) := by
  simp only [ptrAt]
  by_cases h : p < n
  · rw [if_pos h, if_pos (by omega)]; simp only [Ptr.shiftIns]; rw [if_pos (by omega)]
  · rw [if_neg h, if_neg (by omega)]; rfl

theorem iterAdd_ofList (xs : List Nat) (c : LSeq.Cursor) (it : Iter) (x k : Nat) (m : Mem) (h : ItRel xs c it)
    (hc : c.cur = some k) :
    ∃ it', iterAdd (ofList t xs) it x m =
      (if (m.allocT t).1 then (.ok, ofList t (LSeq.itAdd false xs c x).1, it', (m.allocT t).2) else (.errAlloc, ofList t xs, it, (m.allocT t).2)) ∧
    ItRel (LSeq.itAdd false xs c x).1 (LSeq.itAdd false xs c x).2 it' := by
  unfold iterAdd LSeq.itAdd
  have hkp := h.cur k hc
  have hk : k < xs.length := by have := h.le; omega
  have h0 : xs.length ≠ 0 := by omega
  rw [h.lst, hc]
  refine ⟨{ index := it.index + 1, last := Ptr.shiftIns (k + 1) 1 (some k), next := it.next.shiftIns (k + 1) 1 }, ?_, ?_⟩
  · (try simp only [ofList_triple])
    by_cases ha : (m.allocT t).1 = true
    · simp only [ha, Bool.not_true, Bool.false_eq_true, if_false, if_true, ofList_nodes, Ptr.valid, hk, decide_true,
        Mem.check_true, Ptr.pos, Option.getD_some, ofList_size, h.idx, Ptr.next]
      by_cases hlast : k + 1 < xs.length
      all_goals
        simp only [hlast, if_true, if_false, reduceCtorEq]
        congr 1; congr 1
        simp only [Chain.ins, ofList, h0, if_false, Ptr.shiftIns, List.length_insertIdx]
        ptr_arith
    · simp [ha]
  · simp only [Bool.false_eq_true, if_false]
    have hle : k + 1 ≤ xs.length := by omega
    refine ⟨by simp only [h.idx], ?_, ?_, ?_, ?_⟩
    · rw [h.nxt, shiftIns_ptrAt' _ _ _ hkp h.le]; simp [List.length_insertIdx, hle]
    · simp [Ptr.shiftIns]
    · simp only [List.length_insertIdx, hle, if_true]; have := h.le; omega
    · intro k' hk'
      simp only [Option.some.injEq] at hk'
      subst hk'; exact Nat.lt_succ_of_lt hkp

/-! ### descending iterator -/
structure DitRel (xs : List Nat) (c : LSeq.Cursor) (it : Iter) : Prop where
  idx : it.index = c.pos
  nxt : it.next = if c.pos = 0 then none else some (c.pos - 1)
  lst : it.last = c.cur
  le : c.pos ≤ xs.length
  cur : ∀ k, c.cur = some k → c.pos = k ∧ k < xs.length

theorem diterInit_rel (xs : List Nat) : DitRel xs (LSeq.ditNew xs) (diterInit (ofList t xs)) :=
  ⟨rfl, by simp [diterInit, ofList, LSeq.ditNew], rfl, Nat.le_refl _, by intro k h; cases h⟩

theorem diterNext_ofList (xs : List Nat) (c : LSeq.Cursor) (it : Iter) (m : Mem) (h : DitRel xs c it) :
    ∃ it', diterNext (ofList t xs) it m = ((LSeq.ditNext xs c).1, (LSeq.ditNext xs c).2.1, it', m) ∧
      DitRel xs (LSeq.ditNext xs c).2.2 it' := by
  unfold diterNext LSeq.ditNext
  have hle := h.le
  by_cases hp : c.pos = 0
  · refine ⟨it, ?_, ?_⟩
    · rw [h.nxt]; simp [hp]
    · simp only [hp, Nat.lt_irrefl, false_and, if_false]; exact h
  · have hc : 0 < c.pos ∧ c.pos ≤ xs.length := ⟨by omega, hle⟩
    have hv : c.pos - 1 < xs.length := by omega
    refine ⟨{ index := wdec it.index, last := it.next, next := it.next.prev }, ?_, ?_⟩
    · rw [h.nxt]
      simp only [hp, if_false, reduceCtorEq, ofList_nodes, Ptr.valid, hv, decide_true, Mem.check_true, data_some, hc,
        and_self, if_true]
    · simp only [hc, and_self, if_true]
      refine ⟨?_, ?_, by rw [h.nxt, if_neg hp], by simp only []; omega, ?_⟩
      · simp only [wdec, h.idx]; rw [if_neg hp]
      · rw [h.nxt, if_neg hp]; simp only [Ptr.prev]
      · intro k hk; simp only [Option.some.injEq] at hk; simp only []; omega

theorem diterIndex_rel (xs : List Nat) (c : LSeq.Cursor) (it : Iter) (h : DitRel xs c it) :
    diterIndex it = LSeq.ditIndex c := h.idx

theorem diterReplace_ofList (xs : List Nat) (c : LSeq.Cursor) (it : Iter) (x : Nat) (m : Mem) (h : DitRel xs c it) :
    iterReplace (ofList t xs) it x m =
      ((LSeq.itReplace xs c x).1, (LSeq.itReplace xs c x).2.1, ofList t (LSeq.itReplace xs c x).2.2, m) ∧
    DitRel (LSeq.itReplace xs c x).2.2 c it := by
  unfold iterReplace LSeq.itReplace
  rw [h.lst]
  cases hc : c.cur with
  | none => simp; exact h
  | some k =>
    have hk : k < xs.length := (h.cur k hc).2
    have h0 : xs.length ≠ 0 := by omega
    refine ⟨?_, ?_⟩
    · simp [Ptr.valid, hk, data_some, Chain.setData, Ptr.pos, ofList, h0]
    · simp only []
      exact ⟨h.idx, h.nxt, h.lst, by simp [h.le], by intro k' hk'; simpa using h.cur k' hk'⟩

theorem diterRemove_ofList (xs : List Nat) (c : LSeq.Cursor) (it : Iter) (m : Mem) (h : DitRel xs c it) :
    ∃ it', diterRemove (ofList t xs) it m =
      ((LSeq.ditRemove xs c).1, (LSeq.ditRemove xs c).2.1, ofList t (LSeq.ditRemove xs c).2.2.1, it',
       if (LSeq.ditRemove xs c).1 = .ok then (m.freeT t) else m) ∧
    DitRel (LSeq.ditRemove xs c).2.2.1 (LSeq.ditRemove xs c).2.2.2 it' := by
  unfold diterRemove LSeq.ditRemove
  rw [h.lst]
  cases hc : c.cur with
  | none => exact ⟨it, by simp, by simpa using h⟩
  | some k =>
    obtain ⟨hkp, hk⟩ := h.cur k hc
    refine ⟨{ it with last := none, next := it.next.shiftDel k }, ?_, ?_⟩
    · simp only [reduceCtorEq, if_false, unlinkn_ofList _ _ _ hk, if_true, Ptr.pos, Option.getD_some]
    · simp only []
      refine ⟨h.idx, ?_, rfl, ?_, by intro k' hk'; cases hk'⟩
      · rw [h.nxt]
        by_cases hp : c.pos = 0
        · rw [if_pos hp]; rfl
        · rw [if_neg hp]; simp only [Ptr.shiftDel]; rw [if_neg (by omega)]
      · simp only [List.length_eraseIdx, hk, if_true]; omega

theorem diterAdd_ofList (xs : List Nat) (c : LSeq.Cursor) (it : Iter) (x k : Nat) (m : Mem) (h : DitRel xs c it)
    (hc : c.cur = some k) :
    ∃ it', diterAdd (ofList t xs) it x m =
      (if (m.allocT t).1 then (.ok, ofList t (LSeq.ditAdd xs c x).1, it', (m.allocT t).2) else (.errAlloc, ofList t xs, it, (m.allocT t).2)) ∧
    DitRel (LSeq.ditAdd xs c x).1 (LSeq.ditAdd xs c x).2 it' := by
  unfold diterAdd LSeq.ditAdd
  have hpos : c.pos = k := (h.cur k hc).1
  have hk : k < xs.length := (h.cur k hc).2
  have h0 : xs.length ≠ 0 := by omega
  rw [h.lst, hc]
  refine ⟨{ it with last := some k, next := it.next.shiftIns k 1 }, ?_, ?_⟩
  · (try simp only [ofList_triple])
    by_cases ha : (m.allocT t).1 = true
    · simp only [ha, Bool.not_true, Bool.false_eq_true, if_false, if_true, ofList_nodes, Ptr.valid, hk, decide_true,
        Mem.check_true, Ptr.pos, Option.getD_some, h.idx, hpos]
      congr 1; congr 1
      simp only [Chain.ins, ofList, h0, if_false, Ptr.shiftIns, List.length_insertIdx]
      ptr_arith
    · simp [ha]
  · simp only []
    have hle : k ≤ xs.length := by omega
    refine ⟨h.idx, ?_, rfl, ?_, ?_⟩
    · rw [h.nxt]
      by_cases hp : c.pos = 0
      · rw [if_pos hp]; rfl
      · rw [if_neg hp]; simp only [Ptr.shiftIns]; rw [if_neg (by omega)]
    · simp only [List.length_insertIdx, hle, if_true]; have := h.le; omega
    · intro k' hk'
      simp only [Option.some.injEq] at hk'
      simp only [List.length_insertIdx, hle, if_true]; omega

/-! ### zip iterator -/
structure ZipRel (xs ys : List Nat) (c : LSeq.Cursor) (z : ZipIter) : Prop where
  idx : z.index = c.pos
  nxt1 : z.next1 = ptrAt xs.length c.pos
  nxt2 : z.next2 = ptrAt ys.length c.pos
  lst1 : z.last1 = c.cur
  lst2 : z.last2 = c.cur
  le1 : c.pos ≤ xs.length
  le2 : c.pos ≤ ys.length
  cur : ∀ k, c.cur = some k → k < c.pos

theorem zipInit_rel (xs ys : List Nat) : ZipRel xs ys LSeq.itNew (zipInit (ofList t xs) (ofList t2 ys)) :=
  ⟨rfl, ofList_head_ptrAt (t := t) xs, ofList_head_ptrAt (t := t2) ys, rfl, rfl, Nat.zero_le _, Nat.zero_le _, by intro k h; cases h⟩

theorem zipNext_ofList (xs ys : List Nat) (c : LSeq.Cursor) (z : ZipIter) (m : Mem) (h : ZipRel xs ys c z) :
    ∃ z', zipNext (ofList t xs) (ofList t2 ys) z m = ((LSeq.zitNext xs ys c).1, (LSeq.zitNext xs ys c).2.1, z', m) ∧
      ZipRel xs ys (LSeq.zitNext xs ys c).2.2 z' := by
  unfold zipNext LSeq.zitNext
  by_cases hp : c.pos < xs.length ∧ c.pos < ys.length
  · obtain ⟨hp1, hp2⟩ := hp
    refine ⟨{ index := z.index + 1, last1 := z.next1, last2 := z.next2,
              next1 := z.next1.next xs.length, next2 := z.next2.next ys.length }, ?_, ?_⟩
    · rw [h.nxt1, h.nxt2, ptrAt_lt _ _ hp1, ptrAt_lt _ _ hp2]
      simp [Ptr.valid, hp1, hp2, data_some]
    · simp only [hp1, hp2, and_self, if_true]
      exact ⟨by simp only [h.idx], by rw [h.nxt1, next_ptrAt _ _ hp1], by rw [h.nxt2, next_ptrAt _ _ hp2],
        by rw [h.nxt1, ptrAt_lt _ _ hp1], by rw [h.nxt2, ptrAt_lt _ _ hp2], by simp only []; omega, by simp only []; omega,
        by intro k hk; simp only [Option.some.injEq] at hk; simp only []; omega⟩
  · refine ⟨z, ?_, ?_⟩
    · rw [h.nxt1, h.nxt2]
      have : (ptrAt xs.length c.pos = none) ∨ (ptrAt ys.length c.pos = none) := by
        simp only [ptrAt]
        by_cases h1 : c.pos < xs.length
        · right; rw [if_neg (by omega)]
        · left; rw [if_neg h1]
      have hb : (decide (ptrAt xs.length c.pos = none) || decide (ptrAt ys.length c.pos = none)) = true := by
        rcases this with e | e <;> simp [e]
      simp only [hb, if_true, hp, if_false]
    · simp only [hp, if_false]; exact h

theorem zipIndex_rel (xs ys : List Nat) (c : LSeq.Cursor) (z : ZipIter) (h : ZipRel xs ys c z) :
    zipIndex z = LSeq.itIndex c := by simp [zipIndex, LSeq.itIndex, wdec, h.idx]

theorem zipReplace_ofList (xs ys : List Nat) (c : LSeq.Cursor) (z : ZipIter) (x1 x2 : Nat) (m : Mem)
    (h : ZipRel xs ys c z) :
    zipReplace (ofList t xs) (ofList t2 ys) z x1 x2 m =
      ((LSeq.zitReplace xs ys c x1 x2).1, (LSeq.zitReplace xs ys c x1 x2).2.1,
       ofList t (LSeq.zitReplace xs ys c x1 x2).2.2.1, ofList t2 (LSeq.zitReplace xs ys c x1 x2).2.2.2, m) ∧
    ZipRel (LSeq.zitReplace xs ys c x1 x2).2.2.1 (LSeq.zitReplace xs ys c x1 x2).2.2.2 c z := by
  unfold zipReplace LSeq.zitReplace
  rw [h.lst1, h.lst2]
  cases hc : c.cur with
  | none => simp; exact h
  | some k =>
    have hk1 : k < xs.length := by have := h.cur k hc; have := h.le1; omega
    have hk2 : k < ys.length := by have := h.cur k hc; have := h.le2; omega
    have h01 : xs.length ≠ 0 := by omega
    have h02 : ys.length ≠ 0 := by omega
    refine ⟨?_, ?_⟩
    · simp [Ptr.valid, hk1, hk2, data_some, Chain.setData, Ptr.pos, ofList, h01, h02]
    · simp only []
      exact ⟨h.idx, by simp [h.nxt1], by simp [h.nxt2], h.lst1, h.lst2, by simp [h.le1], by simp [h.le2], h.cur⟩

theorem shiftDel_ptrAt (n k p : Nat) (hk : k < n) (hkp : k < p) (hp : p ≤ n) :
    (ptrAt n p).shiftDel k = ptrAt (n - 1) (p - 1) := by
  simp only [ptrAt]
  by_cases h : p < n
  · rw [if_pos h, if_pos (by omega)]; simp [Ptr.shiftDel, hkp]
  · rw [if_neg h, if_neg (by omega)]; rfl

theorem shiftIns_ptrAt (n k : Nat) (hk : k + 1 ≤ n) :
    (ptrAt n (k + 1)).shiftIns (k + 1) 1 = ptrAt (n + 1) (k + 1 + 1) := by
  simp only [ptrAt]
  by_cases h : k + 1 < n
  · rw [if_pos h, if_pos (by omega)]; simp [Ptr.shiftIns]
  · rw [if_neg h, if_neg (by omega)]; rfl

theorem zipRemove_ofList (xs ys : List Nat) (c : LSeq.Cursor) (z : ZipIter) (m : Mem) (h : ZipRel xs ys c z) :
    ∃ z', zipRemove (ofList t xs) (ofList t2 ys) z m =
      ((LSeq.zitRemove xs ys c).1, (LSeq.zitRemove xs ys c).2.1, ofList t (LSeq.zitRemove xs ys c).2.2.1,
       ofList t2 (LSeq.zitRemove xs ys c).2.2.2.1, z',
       if (LSeq.zitRemove xs ys c).1 = .ok then ((m.freeT t).freeT t2) else m) ∧
    ZipRel (LSeq.zitRemove xs ys c).2.2.1 (LSeq.zitRemove xs ys c).2.2.2.1 (LSeq.zitRemove xs ys c).2.2.2.2 z' := by
  unfold zipRemove LSeq.zitRemove
  rw [h.lst1, h.lst2]
  cases hc : c.cur with
  | none => exact ⟨z, by simp, by simpa using h⟩
  | some k =>
    have hkp := h.cur k hc
    have hk1 : k < xs.length := by have := h.le1; omega
    have hk2 : k < ys.length := by have := h.le2; omega
    refine ⟨{ index := wdec z.index, last1 := none, last2 := none,
              next1 := z.next1.shiftDel k, next2 := z.next2.shiftDel k }, ?_, ?_⟩
    · simp [unlinkn_ofList _ _ _ hk1, unlinkn_ofList _ _ _ hk2, Ptr.pos]
    · simp only []
      refine ⟨?_, ?_, ?_, rfl, rfl, ?_, ?_, by intro k' hk'; cases hk'⟩
      · simp only [wdec, h.idx]; rw [if_neg (by omega)]
      · rw [h.nxt1, shiftDel_ptrAt _ _ _ hk1 hkp h.le1]; simp [List.length_eraseIdx, hk1]
      · rw [h.nxt2, shiftDel_ptrAt _ _ _ hk2 hkp h.le2]; simp [List.length_eraseIdx, hk2]
      · simp only [List.length_eraseIdx, hk1, if_true]; have := h.le1; omega
      · simp only [List.length_eraseIdx, hk2, if_true]; have := h.le2; omega

theorem zipAdd_ofList (xs ys : List Nat) (c : LSeq.Cursor) (z : ZipIter) (x1 x2 k : Nat) (m : Mem)
    (h : ZipRel xs ys c z) (hc : c.cur = some k) :
    ∃ z', zipAdd (ofList t xs) (ofList t2 ys) z x1 x2 m =
      (if (m.allocT t).1 then
         (if ((m.allocT t).2.allocT t2).1 then
            (.ok, ofList t (LSeq.zitAdd false xs ys c x1 x2).1, ofList t2 (LSeq.zitAdd false xs ys c x1 x2).2.1, z', ((m.allocT t).2.allocT t2).2)
          else (.errAlloc, ofList t xs, ofList t2 ys, z, (((m.allocT t).2.allocT t2).2.freeT t)))
       else (.errAlloc, ofList t xs, ofList t2 ys, z, (m.allocT t).2)) ∧
    ZipRel (LSeq.zitAdd false xs ys c x1 x2).1 (LSeq.zitAdd false xs ys c x1 x2).2.1 (LSeq.zitAdd false xs ys c x1 x2).2.2 z' := by
  unfold zipAdd LSeq.zitAdd
  have hkp := h.cur k hc
  have hk1 : k < xs.length := by have := h.le1; omega
  have hk2 : k < ys.length := by have := h.le2; omega
  have h01 : xs.length ≠ 0 := by omega
  have h02 : ys.length ≠ 0 := by omega
  rw [h.lst1, h.lst2, hc]
  refine ⟨{ index := z.index + 1, last1 := Ptr.shiftIns (k + 1) 1 (some k), last2 := Ptr.shiftIns (k + 1) 1 (some k),
            next1 := z.next1.shiftIns (k + 1) 1, next2 := z.next2.shiftIns (k + 1) 1 }, ?_, ?_⟩
  · (try simp only [ofList_triple])
    by_cases ha : (m.allocT t).1 = true
    · by_cases hb : ((m.allocT t).2.allocT t2).1 = true
      · simp only [ha, hb, Bool.not_true, Bool.false_eq_true, if_false, if_true, ofList_nodes, Ptr.valid, hk1, hk2,
          decide_true, Bool.and_self, Mem.check_true, Ptr.pos, Option.getD_some, ofList_size, h.idx, Ptr.next]
        congr 1; congr 1
        · by_cases hlast : k + 1 < xs.length
          all_goals
            simp only [hlast, if_true, if_false, reduceCtorEq]
            simp only [Chain.ins, ofList, h01, if_false, Ptr.shiftIns, List.length_insertIdx]
            ptr_arith
        · congr 1
          by_cases hlast : k + 1 < ys.length
          all_goals
            simp only [hlast, if_true, if_false, reduceCtorEq]
            simp only [Chain.ins, ofList, h02, if_false, Ptr.shiftIns, List.length_insertIdx]
            ptr_arith
      · simp [ha, hb]
    · simp [ha]
  · simp only [Bool.false_eq_true, if_false]
    have hle1 : k + 1 ≤ xs.length := by omega
    have hle2 : k + 1 ≤ ys.length := by omega
    refine ⟨by simp only [h.idx], ?_, ?_, by simp [Ptr.shiftIns], by simp [Ptr.shiftIns], ?_, ?_, ?_⟩
    · rw [h.nxt1, shiftIns_ptrAt' _ _ _ hkp h.le1]; simp [List.length_insertIdx, hle1]
    · rw [h.nxt2, shiftIns_ptrAt' _ _ _ hkp h.le2]; simp [List.length_insertIdx, hle2]
    · simp only [List.length_insertIdx, hle1, if_true]; have := h.le1; omega
    · simp only [List.length_insertIdx, hle2, if_true]; have := h.le2; omega
    · intro k' hk'
      simp only [Option.some.injEq] at hk'
      subst hk'; exact Nat.lt_succ_of_lt hkp
end CC.DList
