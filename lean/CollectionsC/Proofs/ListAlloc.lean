import CollectionsC.Proofs.ListHistory
/-! Allocator independence: every model operation consults the ledger only through the outcomes of
its allocator calls, i.e. through `Mem.sched`.  Two ledgers with the same schedule give the same
statuses, out-values and states (and leave equal schedules behind). -/
namespace CC
open CC Chain
open CC.Spec
open CC.Spec.LSeq (Op Out Params)

/-- outcome of the next allocator call as a function of the schedule -/
def Sched.ok : List Bool → Bool
  | true :: _ => false
  | _ => true
def Sched.rest : List Bool → List Bool
  | _ :: r => r
  | [] => []
/-- `k` node allocations in a row (stopping at the first refusal) -/
def Sched.chainOk : Nat → List Bool → Bool
  | 0, _ => true
  | k + 1, s => if Sched.ok s then Sched.chainOk k (Sched.rest s) else false
def Sched.chainRest : Nat → List Bool → List Bool
  | 0, s => s
  | k + 1, s => if Sched.ok s then Sched.chainRest k (Sched.rest s) else Sched.rest s

theorem Mem.free_libc (m : Mem) : m.free.libc = m.libc := by unfold Mem.free; split <;> rfl
theorem Mem.alloc_libc (m : Mem) : m.alloc.2.libc = m.libc := by unfold Mem.alloc; split <;> rfl

theorem Mem.alloc_fst (m : Mem) : m.alloc.1 = Sched.ok m.sched := by
  unfold Mem.alloc; split <;> simp_all [Sched.ok]
theorem Mem.alloc_sched (m : Mem) : m.alloc.2.sched = Sched.rest m.sched := by
  unfold Mem.alloc; split <;> simp_all [Sched.rest]

theorem Mem.allocChain_fst : ∀ (k got : Nat) (m : Mem), (Mem.allocChain k got m).1 = Sched.chainOk k m.sched
  | 0, _, _ => rfl
  | k + 1, got, m => by
    simp only [Mem.allocChain, Sched.chainOk, ← Mem.alloc_fst]
    by_cases h : m.alloc.1 = true
    · simp [h, Mem.allocChain_fst k (got + 1) m.alloc.2, Mem.alloc_sched]
    · simp [h]
theorem Mem.allocChain_sched : ∀ (k got : Nat) (m : Mem), (Mem.allocChain k got m).2.sched = Sched.chainRest k m.sched
  | 0, _, _ => rfl
  | k + 1, got, m => by
    simp only [Mem.allocChain, Sched.chainRest, ← Mem.alloc_fst]
    by_cases h : m.alloc.1 = true
    · simp [h, Mem.allocChain_sched k (got + 1) m.alloc.2, Mem.alloc_sched]
    · simp [h, Mem.freeN_sched, Mem.alloc_sched]

theorem DList.Mem.buildChain_fst : ∀ (k got : Nat) (m : Mem), (DList.Mem.buildChain k got m).1 = Sched.chainOk k m.sched
  | 0, _, _ => rfl
  | k + 1, got, m => by
    simp only [DList.Mem.buildChain, Sched.chainOk, ← Mem.alloc_fst]
    by_cases h : m.alloc.1 = true
    · simp [h, DList.Mem.buildChain_fst k (got + 1) m.alloc.2, Mem.alloc_sched]
    · simp [h]
theorem DList.Mem.buildChain_sched : ∀ (k got : Nat) (m : Mem), (DList.Mem.buildChain k got m).2.sched = Sched.chainRest k m.sched
  | 0, _, _ => rfl
  | k + 1, got, m => by
    simp only [DList.Mem.buildChain, Sched.chainRest, ← Mem.alloc_fst]
    by_cases h : m.alloc.1 = true
    · simp [h, DList.Mem.buildChain_sched k (got + 1) m.alloc.2, Mem.alloc_sched]
    · simp [h, Mem.freeN_sched, Mem.alloc_sched]

theorem DList.Mem.buildChain_nrefused : ∀ (k got : Nat) (m : Mem),
    (DList.Mem.buildChain k got m).2.nrefused = m.nrefused + (if (DList.Mem.buildChain k got m).1 then 0 else 1)
  | 0, _, m => by simp [DList.Mem.buildChain]
  | k + 1, got, m => by
    have h := Mem.alloc_nrefused m
    by_cases ha : m.alloc.1 = true
    · have ih := DList.Mem.buildChain_nrefused k (got + 1) m.alloc.2
      simp only [DList.Mem.buildChain, ha, Bool.not_true, Bool.false_eq_true, if_false]
      rw [ih, h]; simp [ha]
    · simp only [Bool.not_eq_true] at ha
      simp only [DList.Mem.buildChain, ha, Bool.not_false, if_true, Bool.false_eq_true, if_false, Mem.freeN_nrefused] at h ⊢
      exact h

namespace DList
/-- a builder reports `CC_ERR_ALLOC` exactly when one of its allocator calls was refused -/
theorem builderResult_refused_iff (add : List Nat) (m : Mem) :
    (builderResult add m).1 = .errAlloc ↔ m.nrefused < (builderResult add m).2.2.nrefused := by
  unfold builderResult
  have h := Mem.alloc_nrefused m
  by_cases ha : m.alloc.1 = true
  · have hb := Mem.buildChain_nrefused add.length 0 m.alloc.2
    simp only [ha, if_true, Nat.add_zero] at h
    simp only [ha, Bool.not_true, Bool.false_eq_true, if_false]
    by_cases hc : (Mem.buildChain add.length 0 m.alloc.2).1 = true
    · simp only [hc, if_true, Nat.add_zero] at hb ⊢
      rw [hb, h]; simp
    · simp only [Bool.not_eq_true] at hc
      simp only [hc, Bool.false_eq_true, if_false] at hb ⊢
      rw [hb, h]; simp
  · simp only [Bool.not_eq_true] at ha
    simp only [ha, Bool.false_eq_true, if_false] at h
    simp only [ha, Bool.not_false, if_true]
    rw [h]; simp

theorem step_indep (P : Params) (a b : List Nat) (op : Op) (m1 m2 : Mem) (h : m1.sched = m2.sched) :
    (step P (ofList a, ofList b) op m1).1 = (step P (ofList a, ofList b) op m2).1 ∧
    (step P (ofList a, ofList b) op m1).2.1 = (step P (ofList a, ofList b) op m2).2.1 ∧
    (step P (ofList a, ofList b) op m1).2.2.sched = (step P (ofList a, ofList b) op m2).2.2.sched := by
  cases op <;>
    simp only [step, addFirst_ofList, addLast_ofList, addAt_ofList, addAll_ofList, addAllAt_ofList, splice_ofList,
      spliceAt_ofList, remove_ofList, removeAt_ofList, removeFirst_ofList, removeLast_ofList, removeAll_ofList,
      replaceAt_ofList, reverse_ofList, filterMut_ofList, getFirst_ofList, getLast_ofList, getAt_ofList, toArray_ofList,
      Mem.alloc_fst, Mem.allocChain_fst, h] <;>
    (repeat' split) <;>
    simp_all [Mem.alloc_sched, Mem.allocChain_sched, Mem.free_sched, Mem.freeN_sched]

theorem builderResult_indep (add : List Nat) (m1 m2 : Mem) (h : m1.sched = m2.sched) :
    (builderResult add m1).1 = (builderResult add m2).1 ∧ (builderResult add m1).2.1 = (builderResult add m2).2.1 ∧
    (builderResult add m1).2.2.sched = (builderResult add m2).2.2.sched := by
  simp only [builderResult, Mem.alloc_fst, Mem.buildChain_fst, Mem.alloc_sched, h]
  (repeat' split) <;> simp_all [Mem.alloc_sched, Mem.buildChain_sched]
end DList

namespace SList
theorem step_indep (P : Params) (a b : List Nat) (op : Op) (m1 m2 : Mem) (h : m1.sched = m2.sched) :
    (step P (ofList a, ofList b) op m1).1 = (step P (ofList a, ofList b) op m2).1 ∧
    (step P (ofList a, ofList b) op m1).2.1 = (step P (ofList a, ofList b) op m2).2.1 ∧
    (step P (ofList a, ofList b) op m1).2.2.sched = (step P (ofList a, ofList b) op m2).2.2.sched := by
  cases op <;>
    simp only [step, addFirst_ofList, addLast_ofList, addAt_ofList, addAll_ofList, addAllAt_ofList, splice_ofList,
      spliceAt_ofList, remove_ofList, removeAt_ofList, removeFirst_ofList, removeLast_ofList, removeAll_ofList,
      replaceAt_ofList, reverse_ofList, filterMut_ofList, getFirst_ofList, getLast_ofList, getAt_ofList, toArray_ofList,
      Mem.alloc_fst, Mem.allocChain_fst, h] <;>
    (repeat' split) <;>
    simp_all [Mem.alloc_sched, Mem.allocChain_sched, Mem.free_sched, Mem.freeN_sched]
end SList

namespace ListHistory
variable {dbl : Bool} {P : Params} {f : StepFn}

/-- ledger balance of a whole history -/
theorem run_ledger (hf : ∀ s op m, PairOk s m → StepRefines dbl P s op m (f s op m)) :
    ∀ (ops : List Op) (s : Chain × Chain) (m : Mem), PairOk s m →
      (runWith f s ops m).2.2.live + (s.1.abs.length + s.2.abs.length) =
        m.live + ((runWith f s ops m).2.1.1.abs.length + (runWith f s ops m).2.1.2.abs.length)
  | [], _, _, _ => rfl
  | op :: ops, s, m, h => by
    obtain ⟨h1, _, _, _, _, h6, _⟩ := hf s op m h
    have ih := run_ledger hf ops (f s op m).2.1 (f s op m).2.2 h1
    simp only [runWith]
    omega

/-- allocator independence of a whole history -/
theorem run_indep (hf : ∀ s op m, PairOk s m → StepRefines dbl P s op m (f s op m))
    (hi : ∀ a b op m1 m2, m1.sched = m2.sched →
      (f (ofList a, ofList b) op m1).1 = (f (ofList a, ofList b) op m2).1 ∧
      (f (ofList a, ofList b) op m1).2.1 = (f (ofList a, ofList b) op m2).2.1 ∧
      (f (ofList a, ofList b) op m1).2.2.sched = (f (ofList a, ofList b) op m2).2.2.sched) :
    ∀ (ops : List Op) (s : Chain × Chain) (m1 m2 : Mem), PairOk s m1 → PairOk s m2 → m1.sched = m2.sched →
      (runWith f s ops m1).1 = (runWith f s ops m2).1 ∧ (runWith f s ops m1).2.1 = (runWith f s ops m2).2.1 ∧
      (runWith f s ops m1).2.2.sched = (runWith f s ops m2).2.2.sched
  | [], _, _, _, _, _, h => ⟨rfl, rfl, h⟩
  | op :: ops, s, m1, m2, h1, h2, h => by
    have hs : s = (ofList s.1.abs, ofList s.2.abs) := by rw [← h1.1.eq, ← h1.2.1.eq]
    have e := hi s.1.abs s.2.abs op m1 m2 h
    rw [← hs] at e
    have p1 := (hf s op m1 h1).1
    have p2 := (hf s op m2 h2).1
    rw [← e.2.1] at p2
    have ih := run_indep hf hi ops (f s op m1).2.1 (f s op m1).2.2 (f s op m2).2.2 p1 p2 e.2.2
    simp only [runWith]
    rw [← e.2.1, e.1]
    exact ⟨by rw [ih.1], ih.2.1, ih.2.2⟩
end ListHistory

end CC
