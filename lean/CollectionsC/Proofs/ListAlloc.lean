import CollectionsC.Proofs.ListHistory
/-! Allocator independence: every model operation consults the ledger only through the outcomes of
its allocator calls, i.e. through `Mem.sched` (and a list on the C library allocator does not
consult it at all).  Two ledgers with the same schedule give the same statuses, out-values and
states (and leave equal schedules behind). -/
namespace CC
open CC Chain
open CC.Spec
open CC.Spec.LSeq (Op Out Params)

/-- outcome of the next allocator call through the triple `t` as a function of the schedule -/
def Sched.ok : Triple → List Bool → Bool
  | .conf, true :: _ => false
  | _, _ => true
def Sched.rest : Triple → List Bool → List Bool
  | .conf, _ :: r => r
  | _, s => s
/-- `k` node allocations in a row (stopping at the first refusal) -/
def Sched.chainOk (t : Triple) : Nat → List Bool → Bool
  | 0, _ => true
  | k + 1, s => if Sched.ok t s then Sched.chainOk t k (Sched.rest t s) else false
def Sched.chainRest (t : Triple) : Nat → List Bool → List Bool
  | 0, s => s
  | k + 1, s => if Sched.ok t s then Sched.chainRest t k (Sched.rest t s) else Sched.rest t s

theorem Mem.allocT_fst (m : Mem) (t : Triple) : (m.allocT t).1 = Sched.ok t m.sched := by
  cases t
  · obtain ⟨sched, _, _, _, _, _, _, _, _, _⟩ := m
    cases sched with
    | nil => rfl
    | cons b r => cases b <;> rfl
  · cases m.sched <;> rfl
theorem Mem.allocT_sched (m : Mem) (t : Triple) : (m.allocT t).2.sched = Sched.rest t m.sched := by
  cases t
  · obtain ⟨sched, _, _, _, _, _, _, _, _, _⟩ := m
    cases sched with
    | nil => rfl
    | cons b r => cases b <;> rfl
  · cases h : m.sched <;> simp [Mem.allocT, Sched.rest, h]

theorem Mem.allocChain_fst (t : Triple) : ∀ (k got : Nat) (m : Mem), (Mem.allocChain t k got m).1 = Sched.chainOk t k m.sched
  | 0, _, _ => rfl
  | k + 1, got, m => by
    simp only [Mem.allocChain, Sched.chainOk, ← Mem.allocT_fst]
    by_cases h : (m.allocT t).1 = true
    · simp [h, Mem.allocChain_fst t k (got + 1) (m.allocT t).2, Mem.allocT_sched]
    · simp [h]
theorem Mem.allocChain_sched (t : Triple) : ∀ (k got : Nat) (m : Mem), (Mem.allocChain t k got m).2.sched = Sched.chainRest t k m.sched
  | 0, _, _ => rfl
  | k + 1, got, m => by
    simp only [Mem.allocChain, Sched.chainRest, ← Mem.allocT_fst]
    by_cases h : (m.allocT t).1 = true
    · simp [h, Mem.allocChain_sched t k (got + 1) (m.allocT t).2, Mem.allocT_sched]
    · simp [h, Mem.freeN_sched, Mem.allocT_sched]

theorem DList.Mem.buildChain_fst (t : Triple) : ∀ (k got : Nat) (m : Mem), (DList.Mem.buildChain t k got m).1 = Sched.chainOk t k m.sched
  | 0, _, _ => rfl
  | k + 1, got, m => by
    simp only [DList.Mem.buildChain, Sched.chainOk, ← Mem.allocT_fst]
    by_cases h : (m.allocT t).1 = true
    · simp [h, DList.Mem.buildChain_fst t k (got + 1) (m.allocT t).2, Mem.allocT_sched]
    · simp [h]
theorem DList.Mem.buildChain_sched (t : Triple) : ∀ (k got : Nat) (m : Mem), (DList.Mem.buildChain t k got m).2.sched = Sched.chainRest t k m.sched
  | 0, _, _ => rfl
  | k + 1, got, m => by
    simp only [DList.Mem.buildChain, Sched.chainRest, ← Mem.allocT_fst]
    by_cases h : (m.allocT t).1 = true
    · simp [h, DList.Mem.buildChain_sched t k (got + 1) (m.allocT t).2, Mem.allocT_sched]
    · simp [h, Mem.freeN_sched, Mem.allocT_sched]

theorem DList.Mem.buildChain_nrefused (t : Triple) : ∀ (k got : Nat) (m : Mem),
    (DList.Mem.buildChain t k got m).2.nrefused = m.nrefused + (if (DList.Mem.buildChain t k got m).1 then 0 else 1)
  | 0, _, m => by simp [DList.Mem.buildChain]
  | k + 1, got, m => by
    have h := Mem.allocT_nrefused m t
    by_cases ha : (m.allocT t).1 = true
    · have ih := DList.Mem.buildChain_nrefused t k (got + 1) (m.allocT t).2
      simp only [DList.Mem.buildChain, ha, Bool.not_true, Bool.false_eq_true, if_false]
      rw [ih, h]; simp [ha]
    · simp only [Bool.not_eq_true] at ha
      simp only [DList.Mem.buildChain, ha, Bool.not_false, if_true, Bool.false_eq_true, if_false, Mem.freeN_nrefused] at h ⊢
      exact h

namespace DList
/-- a builder reports `CC_ERR_ALLOC` exactly when one of its allocator calls was refused -/
theorem builderResult_refused_iff (t : Triple) (add : List Nat) (m : Mem) :
    (builderResult t add m).1 = .errAlloc ↔ m.nrefused < (builderResult t add m).2.2.nrefused := by
  unfold builderResult
  have h := Mem.allocT_nrefused m t
  by_cases ha : (m.allocT t).1 = true
  · have hb := Mem.buildChain_nrefused t add.length 0 (m.allocT t).2
    simp only [ha, if_true, Nat.add_zero] at h
    simp only [ha, Bool.not_true, Bool.false_eq_true, if_false]
    by_cases hc : (Mem.buildChain t add.length 0 (m.allocT t).2).1 = true
    · simp only [hc, if_true, Nat.add_zero] at hb ⊢
      rw [hb, h]; simp
    · simp only [Bool.not_eq_true] at hc
      simp only [hc, Bool.false_eq_true, if_false] at hb ⊢
      rw [hb, h]; simp
  · simp only [Bool.not_eq_true] at ha
    simp only [ha, Bool.false_eq_true, if_false] at h
    simp only [ha, Bool.not_false, if_true]
    rw [h]; simp

theorem step_indep (P : Params) (t1 t2 : Triple) (a b : List Nat) (op : Op) (m1 m2 : Mem) (h : m1.sched = m2.sched) :
    (step P (ofList t1 a, ofList t2 b) op m1).1 = (step P (ofList t1 a, ofList t2 b) op m2).1 ∧
    (step P (ofList t1 a, ofList t2 b) op m1).2.1 = (step P (ofList t1 a, ofList t2 b) op m2).2.1 ∧
    (step P (ofList t1 a, ofList t2 b) op m1).2.2.sched = (step P (ofList t1 a, ofList t2 b) op m2).2.2.sched := by
  cases op <;>
    simp only [step, addFirst_ofList, addLast_ofList, addAt_ofList, addAll_ofList, addAllAt_ofList, splice_ofList,
      spliceAt_ofList, remove_ofList, removeAt_ofList, removeFirst_ofList, removeLast_ofList, removeAll_ofList,
      replaceAt_ofList, reverse_ofList, filterMut_ofList, getFirst_ofList, getLast_ofList, getAt_ofList, toArray_ofList,
      contains_ofList, containsValue_ofList, indexOf_ofList, foreach_ofList, Mem.allocT_fst, Mem.allocChain_fst, ofList_triple, h] <;>
    (repeat' split) <;>
    simp_all [Mem.allocT_sched, Mem.allocChain_sched, Mem.freeT_sched, Mem.freeN_sched]

/-- a step that reports an error status other than `CC_ERR_ALLOC` hands the ledger back untouched -/
theorem step_error_mem (P : Params) (t1 t2 : Triple) (a b : List Nat) (op : Op) (m : Mem) (e : Stat)
    (hst : (step P (ofList t1 a, ofList t2 b) op m).1.st = some e) (he : e ≠ .ok) (hea : e ≠ .errAlloc) :
    (step P (ofList t1 a, ofList t2 b) op m).2.2 = m := by
  cases op <;>
    simp only [step, addFirst_ofList, addLast_ofList, addAt_ofList, addAll_ofList, addAllAt_ofList, splice_ofList,
      spliceAt_ofList, remove_ofList, removeAt_ofList, removeFirst_ofList, removeLast_ofList, removeAll_ofList,
      replaceAt_ofList, reverse_ofList, filterMut_ofList, getFirst_ofList, getLast_ofList, getAt_ofList, toArray_ofList,
      contains_ofList, containsValue_ofList, indexOf_ofList, foreach_ofList, ofList_triple] at hst ⊢ <;>
    (repeat' split) <;> simp_all [Mem.freeN]
  · by_cases ha : a = [] <;> simp_all [LSeq.removeAll, Mem.freeN]
  · by_cases ha : a = [] <;> simp_all [LSeq.filterMut, Mem.freeN]

theorem builderResult_indep (t : Triple) (add : List Nat) (m1 m2 : Mem) (h : m1.sched = m2.sched) :
    (builderResult t add m1).1 = (builderResult t add m2).1 ∧ (builderResult t add m1).2.1 = (builderResult t add m2).2.1 ∧
    (builderResult t add m1).2.2.sched = (builderResult t add m2).2.2.sched := by
  simp only [builderResult, Mem.allocT_fst, Mem.buildChain_fst, Mem.allocT_sched, h]
  (repeat' split) <;> simp_all [Mem.allocT_sched, Mem.buildChain_sched]
end DList

namespace SList
theorem step_indep (P : Params) (t1 t2 : Triple) (a b : List Nat) (op : Op) (m1 m2 : Mem) (h : m1.sched = m2.sched) :
    (step P (ofList t1 a, ofList t2 b) op m1).1 = (step P (ofList t1 a, ofList t2 b) op m2).1 ∧
    (step P (ofList t1 a, ofList t2 b) op m1).2.1 = (step P (ofList t1 a, ofList t2 b) op m2).2.1 ∧
    (step P (ofList t1 a, ofList t2 b) op m1).2.2.sched = (step P (ofList t1 a, ofList t2 b) op m2).2.2.sched := by
  cases op <;>
    simp only [step, addFirst_ofList, addLast_ofList, addAt_ofList, addAll_ofList, addAllAt_ofList, splice_ofList,
      spliceAt_ofList, remove_ofList, removeAt_ofList, removeFirst_ofList, removeLast_ofList, removeAll_ofList,
      replaceAt_ofList, reverse_ofList, filterMut_ofList, getFirst_ofList, getLast_ofList, getAt_ofList, toArray_ofList,
      contains_ofList, containsValue_ofList, indexOf_ofList, foreach_ofList, Mem.allocT_fst, Mem.allocChain_fst, ofList_triple, h] <;>
    (repeat' split) <;>
    simp_all [Mem.allocT_sched, Mem.allocChain_sched, Mem.freeT_sched, Mem.freeN_sched]

/-- a step that reports an error status other than `CC_ERR_ALLOC` hands the ledger back untouched -/
theorem step_error_mem (P : Params) (t1 t2 : Triple) (a b : List Nat) (op : Op) (m : Mem) (e : Stat)
    (hst : (step P (ofList t1 a, ofList t2 b) op m).1.st = some e) (he : e ≠ .ok) (hea : e ≠ .errAlloc) :
    (step P (ofList t1 a, ofList t2 b) op m).2.2 = m := by
  cases op <;>
    simp only [step, addFirst_ofList, addLast_ofList, addAt_ofList, addAll_ofList, addAllAt_ofList, splice_ofList,
      spliceAt_ofList, remove_ofList, removeAt_ofList, removeFirst_ofList, removeLast_ofList, removeAll_ofList,
      replaceAt_ofList, reverse_ofList, filterMut_ofList, getFirst_ofList, getLast_ofList, getAt_ofList, toArray_ofList,
      contains_ofList, containsValue_ofList, indexOf_ofList, foreach_ofList, ofList_triple] at hst ⊢ <;>
    (repeat' split) <;> simp_all [Mem.freeN]
  · by_cases ha : a = [] <;> simp_all [LSeq.removeAll, Mem.freeN]
  · by_cases ha : a = [] <;> simp_all [LSeq.filterMut, Mem.freeN]
end SList

namespace ListHistory
variable {dbl : Bool} {P : Params} {f : StepFn}

/-- allocator independence of a whole history -/
theorem run_indep (hf : ∀ s op m, PairOk s m → SpliceOk s.1.triple s.2.triple op → StepRefines dbl P s op m (f s op m))
    (hi : ∀ t1 t2 a b op m1 m2, m1.sched = m2.sched →
      (f (ofList t1 a, ofList t2 b) op m1).1 = (f (ofList t1 a, ofList t2 b) op m2).1 ∧
      (f (ofList t1 a, ofList t2 b) op m1).2.1 = (f (ofList t1 a, ofList t2 b) op m2).2.1 ∧
      (f (ofList t1 a, ofList t2 b) op m1).2.2.sched = (f (ofList t1 a, ofList t2 b) op m2).2.2.sched) :
    ∀ (ops : List Op) (s : Chain × Chain) (m1 m2 : Mem), PairOk s m1 → PairOk s m2 → Compat s ops → m1.sched = m2.sched →
      (runWith f s ops m1).1 = (runWith f s ops m2).1 ∧ (runWith f s ops m1).2.1 = (runWith f s ops m2).2.1 ∧
      (runWith f s ops m1).2.2.sched = (runWith f s ops m2).2.2.sched
  | [], _, _, _, _, _, _, h => ⟨rfl, rfl, h⟩
  | op :: ops, s, m1, m2, h1, h2, hc, h => by
    have hs : s = (ofList s.1.triple s.1.abs, ofList s.2.triple s.2.abs) := by rw [← h1.1.eq, ← h1.2.1.eq]
    have e := hi s.1.triple s.2.triple s.1.abs s.2.abs op m1 m2 h
    rw [← hs] at e
    have r1 := hf s op m1 h1 hc.spliceOk
    have p1 := r1.1
    have p2 := (hf s op m2 h2 hc.spliceOk).1
    rw [← e.2.1] at p2
    have ih := run_indep hf hi ops (f s op m1).2.1 (f s op m1).2.2 (f s op m2).2.2 p1 p2 (hc.tail r1.2.1.1) e.2.2
    simp only [runWith]
    rw [← e.2.1, e.1]
    exact ⟨by rw [ih.1], ih.2.1, ih.2.2⟩
end ListHistory

end CC
