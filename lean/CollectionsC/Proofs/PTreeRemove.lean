import CollectionsC.Proofs.PTreeColor
import CollectionsC.Proofs.TreeTableBST
import CollectionsC.Proofs.PTreeTransplant
import CollectionsC.Proofs.PTreeWalk
set_option linter.unusedSimpArgs false
set_option linter.unusedVariables false
namespace CC.Tree
open Colour Dir Spec Spec.OrdMap
variable {cmp : Nat → Nat → Int}

theorem mem_toList_of_subtree (t : Tree) (q : Path) {c l k v r} (hs : subtree t q = node c l k v r) :
    (k, v) ∈ t.toList := by
  induction q generalizing t with
  | nil =>
    have e : subtree t [] = t := by cases t <;> rfl
    rw [e] at hs; subst hs; simp [toList]
  | cons d q ih =>
    cases t with
    | nil => simp [subtree] at hs
    | node c' l' k' v' r' =>
      cases d with
      | L => have := ih l' (by simpa [subtree] using hs); simp [toList, this]
      | R => have := ih r' (by simpa [subtree] using hs); simp [toList, this]

/-- **splicing a node out**: in a search tree, putting at the position of the node with key `k` any tree
whose in-order content is that of the node's two subtrees erases `k` from the content -/
theorem toList_replaceAt_erase (h : TotalOrder cmp) (t : Tree) (q : Path) (hb : BST cmp t) {c l k v r}
    (hs : subtree t q = node c l k v r) (s' : Tree) (hl : s'.toList = l.toList ++ r.toList) :
    (replaceAt t q s').toList = erase t.toList k := by
  induction q generalizing t with
  | nil =>
    have e : subtree t [] = t := by cases t <;> rfl
    rw [e] at hs; subst hs
    have hs : Sorted cmp (l.toList ++ (k, v) :: r.toList) := hb
    simp only [replaceAt, toList]
    rw [hl, erase_eq h hs]
  | cons d q ih =>
    cases t with
    | nil => simp [subtree] at hs
    | node c' l' k' v' r' =>
      have hsd : Sorted cmp (l'.toList ++ (k', v') :: r'.toList) := hb
      obtain ⟨_, _, h3, h4, _⟩ := sorted_append_cons.1 hsd
      cases d with
      | L =>
        have hm := mem_toList_of_subtree l' q (by simpa [subtree] using hs)
        have hk : cmp k k' < 0 := h3 _ hm
        simp only [replaceAt, toList]
        rw [ih l' hb.left (by simpa [subtree] using hs), erase_lt h hsd hk]
      | R =>
        have hm := mem_toList_of_subtree r' q (by simpa [subtree] using hs)
        have hk : cmp k' k < 0 := h4 _ hm
        simp only [replaceAt, toList]
        rw [ih r' hb.right (by simpa [subtree] using hs), erase_gt h hsd hk]
end CC.Tree

namespace CC.PTree
open CC
open CC.Tree (Path Dir)

/-- the part of `remove_node(table, z)` before the fix-up: the splice; returns the state, the node `x`
that moved up (possibly the sentinel) and the colour that left the tree -/
def removeSplice (st : PT) (z : Nat) : PT × Nat × Colour :=
  let h := st.heap
  if (h.get z).left = S then
    (transplant st z (h.get z).right, (h.get z).right, (h.get z).color)
  else if (h.get z).right = S then
    (transplant st z (h.get z).left, (h.get z).left, (h.get z).color)
  else
    let y := treeMin h (st.size + 1) (h.get z).right
    let yc := (h.get y).color
    let x := (h.get y).right
    let st :=
      if (h.get y).parent = z then { st with heap := setParent h x y }
      else
        let st := transplant st y (h.get y).right
        let h := setRight st.heap y (st.heap.get z).right
        let h := setParent h (h.get y).right y
        { st with heap := h }
    let st := transplant st z y
    let h := setLeft st.heap y (st.heap.get z).left
    let h := setParent h (h.get y).left y
    let h := setColor h y (h.get z).color
    ({ st with heap := h }, x, yc)

/-- `remove_node` is the splice, the fix-up when a black node left, `mem_free(z)` and `size--` -/
theorem removeNode_eq (st : PT) (z : Nat) :
    removeNode st z =
      (let r := removeSplice st z
       let st' := if r.2.2 = .black then rebalanceAfterDelete r.1 r.2.1 else r.1
       { st' with heap := st'.heap.del z, size := st'.size - 1 }) := rfl

/-- the heap holds the tree (`Represents` without the `size` / allocation-serial bookkeeping, which
`remove_node` settles only at its end) -/
structure Holds (st : PT) (t : ITree) : Prop where
  root  : st.root = t.rid
  rep   : Rep st.heap t 0
  nodup : t.ids.Nodup
  black : (st.heap.get 0).color = .black
  sent  : (st.heap.get 0).key = 0 ∧ (st.heap.get 0).value = 0 ∧ (st.heap.get 0).left = 0 ∧ (st.heap.get 0).right = 0

theorem Represents.holds {st : PT} {t : ITree} (h : Represents st t) : Holds st t :=
  ⟨h.root, h.rep, h.nodup, h.black, h.sent⟩

namespace ITree
theorem parentAt_replace (t : ITree) (p0 : Nat) (q : Path) (s : ITree) :
    parentAt (t.replace q s) p0 q = parentAt t p0 q := by
  induction q generalizing t p0 with
  | nil => simp [parentAt]
  | cons d q ih =>
    cases t with
    | nil => simp [replace]
    | node id c l k v r =>
      cases q with
      | nil => cases d <;> simp [replace, parentAt]
      | cons e q' =>
        cases d with
        | L => simp only [replace]; rw [parentAt_L, parentAt_L]; exact ih l id
        | R => simp only [replace]; rw [parentAt_R, parentAt_R]; exact ih r id

theorem rid_eq_zero {h : Heap} {t : ITree} {p : Nat} (hr : Rep h t p) : t.rid = 0 ↔ t = nil := by
  cases t with
  | nil => simp
  | node id c l k v r => simp [hr.1]
end ITree

namespace ITree
theorem ids_replace_perm2 (t : ITree) (q : Path) (s : ITree) (hne : t.subtree q ≠ nil) :
    ((t.replace q s).ids ++ (t.subtree q).ids).Perm (t.ids ++ s.ids) := by
  induction q generalizing t with
  | nil => simp; exact List.perm_append_comm
  | cons d q ih =>
    cases t with
    | nil => simp at hne
    | node id c l k v r =>
      cases d with
      | L =>
        have := ih l (by simpa using hne)
        simp only [replace, ids_node, subtree_L]
        rw [List.perm_iff_count] at this ⊢
        intro a; have := this a
        simp only [List.count_cons, List.count_append] at this ⊢; omega
      | R =>
        have := ih r (by simpa using hne)
        simp only [replace, ids_node, subtree_R]
        rw [List.perm_iff_count] at this ⊢
        intro a; have := this a
        simp only [List.count_cons, List.count_append] at this ⊢; omega
end ITree

theorem Holds.get_at {st : PT} {t : ITree} (h : Holds st t) (q : Path) {x c a k v b}
    (hs : t.subtree q = .node x c a k v b) :
    st.heap.get x = { key := k, value := v, color := c, left := a.rid, right := b.rid, parent := parentAt t 0 q } ∧
    x ≠ 0 ∧ Rep st.heap a x ∧ Rep st.heap b x := by
  have := h.rep.sub q
  rw [hs] at this
  exact ⟨this.2.1, this.1, this.2.2.1, this.2.2.2⟩

/-- **`remove_node`, a node with at most one child** (`z->left == sentinel`, or else `z->right == sentinel`):
the other child's subtree `s` (possibly empty) takes `z`'s place by `transplant`.  The heap holds the tree
with `s` at `z`'s position; `x = s`'s root — **also when it is the sentinel** — has the node above `z` as
parent; `z`'s own record is untouched (it is freed later); the nodes are the old ones without `z`; the
in-order content is the old one with `z`'s key erased -/
theorem splice_one_child (cmp : Nat → Nat → Int) (hto : Spec.TotalOrder cmp) {st : PT} {T : ITree} (h : Holds st T)
    (hb : Tree.BST cmp T.erase) (q : Path) {z cz zl zk zv zr}
    (hs : T.subtree q = .node z cz zl zk zv zr) (s : ITree)
    (hcase : (zl = .nil ∧ s = zr) ∨ (zl ≠ .nil ∧ zr = .nil ∧ s = zl)) :
    removeSplice st z = (transplant st z s.rid, s.rid, cz) ∧
    Holds (transplant st z s.rid) (T.replace q s) ∧
    ((transplant st z s.rid).heap.get s.rid).parent = parentAt T 0 q ∧
    (transplant st z s.rid).heap.get z = st.heap.get z ∧
    (z :: (T.replace q s).ids).Perm T.ids ∧
    (T.replace q s).erase.toList = Spec.OrdMap.erase T.erase.toList zk ∧
    (transplant st z s.rid).size = st.size ∧ (transplant st z s.rid).fresh = st.fresh := by
  obtain ⟨hz, hz0, hzl, hzr⟩ := h.get_at q hs
  have hne : T.subtree q ≠ .nil := by rw [hs]; simp
  have hndS := ITree.ids_subtree_nodup T q h.nodup
  rw [hs] at hndS
  simp only [ITree.ids_node, List.nodup_cons, List.mem_append, not_or] at hndS
  obtain ⟨_, hndS'⟩ := hndS
  obtain ⟨hndl, hndr, _⟩ := List.nodup_append.1 hndS'
  have hsrep : Rep st.heap s z := by
    rcases hcase with ⟨_, e⟩ | ⟨_, _, e⟩ <;> subst e <;> assumption
  have hsnd : s.ids.Nodup := by
    rcases hcase with ⟨_, e⟩ | ⟨_, _, e⟩ <;> subst e <;> assumption
  have hin : ∀ i ∈ s.ids, i ∈ zl.ids ∨ i ∈ zr.ids := by
    rcases hcase with ⟨_, e⟩ | ⟨_, _, e⟩ <;> subst e <;> intro i hi <;> simp [hi]
  obtain ⟨t1, t2, t3, t4, t5, t6⟩ := transplant_rep h.rep h.root h.nodup q hs s z hsrep hsnd hin
  have hperm : (z :: (T.replace q s).ids).Perm T.ids := by
    have := ITree.ids_replace_perm2 T q s hne
    rw [hs] at this
    rw [List.perm_iff_count] at this ⊢
    intro a; have := this a
    rcases hcase with ⟨e1, e⟩ | ⟨_, e1, e⟩ <;> subst e <;> subst e1 <;>
      simp only [ITree.ids_node, ITree.ids_nil, List.count_cons, List.count_append, List.count_nil,
        List.nil_append, List.append_nil] at this ⊢ <;> omega
  refine ⟨?_, ⟨t2, t1, ?_, ?_, ?_⟩, ?_, t4, hperm, ?_, t5, t6⟩
  · unfold removeSplice
    rcases hcase with ⟨e1, e⟩ | ⟨e0, e1, e⟩
    · subst e; subst e1; simp [hz, S]
    · subst e; subst e1
      have : s.rid ≠ 0 := fun e => e0 ((ITree.rid_eq_zero hzl).1 e)
      simp [hz, S, this]
  · exact (List.nodup_cons.1 ((List.Perm.nodup_iff hperm).2 h.nodup)).2
  · rw [t3]; split <;> simp [h.black]
  · rw [t3]; split <;> simp [h.sent]
  · by_cases hs0 : s = .nil
    · subst hs0; simp only [ITree.rid_nil] at t3 ⊢; rw [t3]; simp
    · have := t1.sub q
      rw [ITree.subtree_replace T q s hne, ITree.parentAt_replace] at this
      cases s with
      | nil => exact absurd rfl hs0
      | node x c a k v b => have e := this.2.1; simp only [ITree.rid_node] at e ⊢; rw [e]
  · rw [ITree.erase_replace]
    have hse : Tree.subtree T.erase q = .node cz zl.erase zk zv zr.erase := by
      rw [← ITree.erase_subtree, hs]; rfl
    refine Tree.toList_replaceAt_erase hto T.erase q hb hse s.erase ?_
    rcases hcase with ⟨e1, e⟩ | ⟨_, e1, e⟩ <;> subst e <;> subst e1 <;> simp [ITree.erase, Tree.toList]

/-- the heap after the splice when the successor `y` is `z`'s right child -/
theorem splice_gets_child (st : PT) (z y x pn lz : Nat) (cz : Colour)
    (hzp : (st.heap.get z).parent = pn) (hzl : (st.heap.get z).left = lz) (hzr : (st.heap.get z).right = y)
    (hzc : (st.heap.get z).color = cz)
    (hmin : treeMin st.heap (st.size + 1) y = y) (hyp : (st.heap.get y).parent = z) (hyr : (st.heap.get y).right = x)
    (hlz0 : lz ≠ 0) (hy0 : y ≠ 0) (hyz : y ≠ z) (hlzz : lz ≠ z) (hlzy : lz ≠ y) (hxz : x ≠ z) (hxy : x ≠ y)
    (hxlz : x ≠ lz) (hpz : pn ≠ z) (hpy : pn ≠ y) (hplz : pn ≠ lz) (hpx : pn = 0 ∨ pn ≠ x) :
    (removeSplice st z).2 = (x, (st.heap.get y).color) ∧
    (removeSplice st z).1.heap.get y =
      { st.heap.get y with color := cz, left := lz, parent := pn } ∧
    (removeSplice st z).1.heap.get lz = { st.heap.get lz with parent := y } ∧
    (removeSplice st z).1.heap.get x = { st.heap.get x with parent := y } ∧
    (pn ≠ 0 → (removeSplice st z).1.heap.get pn =
      (if z = (st.heap.get pn).left then { st.heap.get pn with left := y } else { st.heap.get pn with right := y })) ∧
    (∀ i, i ≠ y → i ≠ lz → i ≠ x → (pn ≠ 0 → i ≠ pn) → (removeSplice st z).1.heap.get i = st.heap.get i) ∧
    (removeSplice st z).1.root = (if pn = 0 then y else st.root) ∧
    (removeSplice st z).1.size = st.size ∧ (removeSplice st z).1.fresh = st.fresh := by
  unfold removeSplice
  simp only [hzl, hzr, S, hlz0, hy0, if_false, hmin, hyp, if_true, hyr]
  have hup : (({ st with heap := setParent st.heap x y } : PT).heap.get z).parent = pn := by
    simp [setParent, Heap.get_set, Ne.symm hxz, hzp]
  obtain ⟨g1, g2, g3, g4, g5, g6⟩ := transplant_gets { st with heap := setParent st.heap x y } z y pn hup
    (by rcases hpx with h | h; exact Or.inl h; exact Or.inr (Ne.symm hpy))
  have s1 : ∀ i, (setParent st.heap x y).get i =
      if i = x then { st.heap.get x with parent := y } else st.heap.get i := by
    intro i; simp [setParent, Heap.get_set]
  dsimp only at g1 g2 g3 g4 g5 g6
  simp only [s1] at g1 g2 g3
  generalize transplant { heap := setParent st.heap x y, root := st.root, size := st.size, fresh := st.fresh } z y = st2
    at g1 g2 g3 g4 g5 g6 ⊢
  have ez : st2.heap.get z = st.heap.get z := by
    rw [g3 z (Ne.symm hyz) (fun _ => Ne.symm hpz)]; simp [Ne.symm hxz]
  have elz : st2.heap.get lz = st.heap.get lz := by
    rw [g3 lz hlzy (fun _ => Ne.symm hplz)]; simp [Ne.symm hxlz]
  have ex : st2.heap.get x = { st.heap.get x with parent := y } := by
    rw [g3 x hxy (fun h0 => by rcases hpx with h | h; exact absurd h h0; exact Ne.symm h)]; simp
  simp only [Ne.symm hxy, if_false] at g1
  have hpnx : pn ≠ 0 → pn ≠ x := fun h0 => by rcases hpx with h | h; exact absurd h h0; exact h
  refine ⟨trivial, ?_, ?_, ?_, ?_, ?_, g4, g5, g6⟩
  · simp [setColor, setParent, setLeft, Heap.get_set, ez, hzl, hzc, hyr, hlzz, Ne.symm hlzz, hlzy, Ne.symm hlzy, Ne.symm hyz, hyz, g1]
  · simp [setColor, setParent, setLeft, Heap.get_set, ez, hzl, hzc, hyr, hlzz, Ne.symm hlzz, hlzy, Ne.symm hlzy, Ne.symm hyz, hyz, g1, elz]
  · simp [setColor, setParent, setLeft, Heap.get_set, ez, hzl, hzc, hyr, hlzz, Ne.symm hlzz, hlzy, Ne.symm hlzy, Ne.symm hyz, hyz, g1, ex,
      hxy, hxlz]
  · intro h0
    simp [setColor, setParent, setLeft, Heap.get_set, ez, hzl, hzc, hyr, hlzz, Ne.symm hlzz, hlzy, Ne.symm hlzy, Ne.symm hyz, hyz, g1,
      hpy, hplz, g2 h0, hpnx h0]
  · intro i h1 h2 h3 h4
    simp [setColor, setParent, setLeft, Heap.get_set, ez, hzl, hzc, hyr, hlzz, Ne.symm hlzz, hlzy, Ne.symm hlzy, Ne.symm hyz, hyz, g1,
      h1, h2, g3 i h1 h4, h3]

/-- moving a represented subtree below another parent: only the `parent` field of its root changes -/
theorem Rep.reroot {h h' : Heap} {t : ITree} {p p' : Nat} (hr : Rep h t p) (hnd : t.ids.Nodup)
    (hroot : t = .nil ∨ h'.get t.rid = { h.get t.rid with parent := p' })
    (hf : ∀ i ∈ t.ids, i ≠ t.rid → h'.get i = h.get i) : Rep h' t p' := by
  cases t with
  | nil => trivial
  | node id c l k v r =>
    obtain ⟨h1, h2, h3, h4⟩ := hr
    simp only [ITree.ids_node, List.nodup_cons, List.mem_append, not_or] at hnd
    rcases hroot with hn | hp
    · cases hn
    · simp only [ITree.rid_node] at hp hf
      refine ⟨h1, by rw [hp, h2], h3.frame (fun i hi => hf i (by simp [hi]) ?_), h4.frame (fun i hi => hf i (by simp [hi]) ?_)⟩
      · intro e; exact hnd.1.1 (e ▸ hi)
      · intro e; exact hnd.1.2 (e ▸ hi)

/-- the node above a position is `0` exactly at the root position; otherwise it is a node outside the
subtree whose child pointer on the path's last side is the subtree's root -/
theorem Rep.parent_facts {h : Heap} {t : ITree} (hr : Rep h t 0) (hnd : t.ids.Nodup) (q : Path) {x cx a kx vx b}
    (hs : t.subtree q = .node x cx a kx vx b) :
    (q = [] ∧ parentAt t 0 q = 0) ∨
    (∃ q0 d, q = q0 ++ [d] ∧ parentAt t 0 q ≠ 0 ∧ parentAt t 0 q ∈ t.ids ∧ parentAt t 0 q ∉ (t.subtree q).ids ∧
      ((h.get (parentAt t 0 q)).left = x ↔ d = .L) ∧ ((h.get (parentAt t 0 q)).right = x ↔ d = .R)) := by
  rcases path_cases q with hq | ⟨q0, d, hq⟩
  · left; subst hq; exact ⟨rfl, by simp [parentAt]⟩
  · right; subst hq
    obtain ⟨p1, p2, p3, p4⟩ := hr.parent_child hnd q0 d hs
    refine ⟨q0, d, rfl, p1, ?_, p2, p3, p4⟩
    have hpa : parentAt t 0 (q0 ++ [d]) = (t.subtree q0).rid := by simp [parentAt]
    rw [hpa] at p1 ⊢
    rcases ITree.rid_subtree_mem t q0 with h0 | hm
    · exact absurd h0 p1
    · exact hm

theorem ITree.rid_mem {h : Heap} {t : ITree} {p : Nat} (hr : Rep h t p) (hne : t ≠ .nil) : t.rid ∈ t.ids ∧ t.rid ≠ 0 := by
  cases t with
  | nil => exact absurd rfl hne
  | node id c l k v r => exact ⟨by simp, hr.1⟩

/-- **`remove_node`, two children, the successor `y` is `z`'s right child** (`y->parent == z`): `y` takes
`z`'s place and colour, keeps its right subtree, adopts `z`'s left subtree; `x = y->right` — also when it is
the sentinel — has `y` as parent -/
theorem splice_succ_child (cmp : Nat → Nat → Int) (hto : Spec.TotalOrder cmp) {st : PT} {T : ITree}
    (h : Holds st T) (hb : Tree.BST cmp T.erase) (q : Path) {z cz zl zk zv y cy yk yv yr}
    (hs : T.subtree q = .node z cz zl zk zv (.node y cy .nil yk yv yr)) (hzl : zl ≠ .nil) :
    (removeSplice st z).2 = (yr.rid, cy) ∧
    Holds (removeSplice st z).1 (T.replace q (.node y cz zl yk yv yr)) ∧
    ((removeSplice st z).1.heap.get yr.rid).parent = y ∧
    (removeSplice st z).1.heap.get z = st.heap.get z ∧
    (z :: (T.replace q (.node y cz zl yk yv yr)).ids).Perm T.ids ∧
    (T.replace q (.node y cz zl yk yv yr)).erase.toList = Spec.OrdMap.erase T.erase.toList zk ∧
    (removeSplice st z).1.size = st.size ∧ (removeSplice st z).1.fresh = st.fresh := by
  obtain ⟨hz, hz0, hzlr, hzrr⟩ := h.get_at q hs
  obtain ⟨hy0, hyrec, _, hyrr⟩ := hzrr
  have hne : T.subtree q ≠ .nil := by rw [hs]; simp
  have hndS := ITree.ids_subtree_nodup T q h.nodup
  rw [hs] at hndS
  simp only [ITree.ids_node, ITree.ids_nil, List.nil_append, List.nodup_cons, List.mem_append, List.mem_cons,
    not_or, List.nodup_append] at hndS
  obtain ⟨⟨hz_zl, hzy, hz_yr⟩, hnd_zl, ⟨hy_yr, hnd_yr⟩, hdisj⟩ := hndS
  obtain ⟨hlzm, hlz0⟩ := ITree.rid_mem hzlr hzl
  have hlzy : zl.rid ≠ y := fun e => hdisj _ hlzm _ (Or.inl rfl) e
  have hlzz : zl.rid ≠ z := fun e => hz_zl (e ▸ hlzm)
  have hx : yr.rid = 0 ∨ yr.rid ∈ yr.ids := by
    cases yr with
    | nil => left; rfl
    | node _ _ _ _ _ _ => right; simp
  have hxz : yr.rid ≠ z := by rcases hx with e | e; rw [e]; exact Ne.symm hz0; exact fun e' => hz_yr (e' ▸ e)
  have hxy : yr.rid ≠ y := by rcases hx with e | e; rw [e]; exact Ne.symm hy0; exact fun e' => hy_yr (e' ▸ e)
  have hxlz : yr.rid ≠ zl.rid := by
    rcases hx with e | e; rw [e]; exact Ne.symm hlz0; exact fun e' => hdisj _ hlzm _ (Or.inr e) e'.symm
  have hmin : treeMin st.heap (st.size + 1) y = y := by
    simp [treeMin, treeMinLoop, S, hy0, hyrec]
  -- the node above
  have hpf := h.rep.parent_facts h.nodup q hs
  have hsub_ids : (T.subtree q).ids = z :: (zl.ids ++ y :: yr.ids) := by rw [hs]; simp
  have hpn : parentAt T 0 q ≠ z ∧ parentAt T 0 q ≠ y ∧ parentAt T 0 q ≠ zl.rid ∧
      (parentAt T 0 q = 0 ∨ parentAt T 0 q ≠ yr.rid) := by
    rcases hpf with ⟨_, e⟩ | ⟨q0, d, _, p0, _, pni, _, _⟩
    · rw [e]; exact ⟨Ne.symm hz0, Ne.symm hy0, Ne.symm hlz0, Or.inl rfl⟩
    · rw [hsub_ids] at pni
      simp only [List.mem_cons, List.mem_append, not_or] at pni
      refine ⟨pni.1, pni.2.2.1, fun e => pni.2.1 (e ▸ hlzm), ?_⟩
      rcases hx with e | e
      · right; rw [e]; exact p0
      · right; exact fun e' => pni.2.2.2 (e' ▸ e)
  obtain ⟨g0, gy, glz, gx, gpn, gother, groot, gsz, gfr⟩ := splice_gets_child st z y yr.rid (parentAt T 0 q) zl.rid cz
    (by rw [hz]) (by rw [hz]) (by rw [hz]; rfl) (by rw [hz]) hmin (by rw [hyrec]) (by rw [hyrec])
    hlz0 hy0 (Ne.symm hzy) hlzz hlzy hxz hxy hxlz hpn.1 hpn.2.1 hpn.2.2.1 hpn.2.2.2
  generalize removeSplice st z = R at g0 gy glz gx gpn gother groot gsz gfr ⊢
  have hperm : (z :: (T.replace q (.node y cz zl yk yv yr)).ids).Perm T.ids := by
    have := ITree.ids_replace_perm2 T q (.node y cz zl yk yv yr) hne
    rw [hs] at this
    rw [List.perm_iff_count] at this ⊢
    intro a; have := this a
    simp only [ITree.ids_node, ITree.ids_nil, List.count_cons, List.count_append, List.count_nil,
      List.nil_append, List.append_nil] at this ⊢
    omega
  have hrep : Rep R.1.heap (T.replace q (.node y cz zl yk yv yr)) 0 := by
    refine h.rep.replace h.nodup q _ ?_ ?_ ?_
    · intro i hi hni hip
      rw [hsub_ids] at hni
      simp only [List.mem_cons, List.mem_append, not_or] at hni
      refine gother i hni.2.2.1 (fun e => hni.2.1 (e ▸ hlzm)) ?_ (fun _ => hip)
      rcases hx with e | e
      · rw [e]; exact h.rep.ids_ne i hi
      · exact fun e' => hni.2.2.2 (e' ▸ e)
    · refine ⟨hy0, by rw [gy, hyrec], ?_, ?_⟩
      · refine hzlr.reroot hnd_zl (Or.inr glz) (fun i hi hir => gother i ?_ hir ?_ ?_)
        · exact fun e => hdisj _ hi _ (Or.inl rfl) e
        · rcases hx with e | e
          · rw [e]; exact hzlr.ids_ne i hi
          · exact fun e' => hdisj _ hi _ (Or.inr e) e'
        · intro p0 e
          rcases hpf with ⟨_, e0⟩ | ⟨q0, d, _, _, _, pni, _, _⟩
          · exact p0 e0
          · rw [hsub_ids] at pni; simp only [List.mem_cons, List.mem_append, not_or] at pni
            exact pni.2.1 (e ▸ hi)
      · refine hyrr.reroot hnd_yr ?_ (fun i hi hir => gother i ?_ ?_ hir ?_)
        · by_cases e : yr = .nil
          · exact Or.inl e
          · right; rw [gx]
        · exact fun e => hy_yr (e ▸ hi)
        · exact fun e => hdisj _ hlzm _ (Or.inr hi) e.symm
        · intro p0 e
          rcases hpf with ⟨_, e0⟩ | ⟨q0, d, _, _, _, pni, _, _⟩
          · exact p0 e0
          · rw [hsub_ids] at pni; simp only [List.mem_cons, List.mem_append, not_or] at pni
            exact pni.2.2.2 (e ▸ hi)
    · intro q0 d hq
      rcases hpf with ⟨e, _⟩ | ⟨q0', d', hq', p0, _, _, pl, pr⟩
      · rw [e] at hq; simp at hq
      · have := List.append_inj' (hq.symm.trans hq') rfl
        simp only [List.cons.injEq, and_true] at this
        obtain ⟨_, hd⟩ := this
        subst hd
        rw [gpn p0]
        cases d with
        | L => have := pl.2 rfl; simp [withChild, this]
        | R =>
          have : ¬ z = (st.heap.get (parentAt T 0 q)).left := fun e => by
            have := pl.1 e.symm; cases this
          simp [withChild, this]
  refine ⟨by rw [g0, hyrec], ⟨?_, hrep, ?_, ?_, ?_⟩, ?_, ?_, hperm, ?_, gsz, gfr⟩
  · rw [groot]
    rcases hpf with ⟨e, e0⟩ | ⟨q0, d, hq, p0, _, _, _, _⟩
    · subst e; simp [e0]
    · simp only [p0, if_false]; rw [h.root, hq]
      cases q0 with
      | nil => exact (ITree.rid_replace_cons T d [] _).symm
      | cons d' q' => exact (ITree.rid_replace_cons T d' (q' ++ [d]) _).symm
  · exact (List.nodup_cons.1 ((List.Perm.nodup_iff hperm).2 h.nodup)).2
  · rcases hx with e | e
    · rw [e] at gx; rw [gx]; simp [h.black]
    · have hxT : yr.rid ∈ T.ids := ITree.ids_subtree_subset T q _ (by rw [hsub_ids]; simp [e])
      have hx0 := h.rep.ids_ne _ hxT
      rw [gother 0 (Ne.symm hy0) (Ne.symm hlz0) (Ne.symm hx0) (fun p0 e => p0 e.symm)]
      exact h.black
  · rcases hx with e | e
    · rw [e] at gx; rw [gx]; simp [h.sent]
    · have hxT : yr.rid ∈ T.ids := ITree.ids_subtree_subset T q _ (by rw [hsub_ids]; simp [e])
      have hx0 := h.rep.ids_ne _ hxT
      rw [gother 0 (Ne.symm hy0) (Ne.symm hlz0) (Ne.symm hx0) (fun p0 e => p0 e.symm)]
      exact h.sent
  · rw [gx]
  · refine gother z hzy (Ne.symm hlzz) (Ne.symm hxz) (fun _ => Ne.symm hpn.1)
  · rw [ITree.erase_replace]
    have hse : Tree.subtree T.erase q = .node cz zl.erase zk zv (.node cy .nil yk yv yr.erase) := by
      rw [← ITree.erase_subtree, hs]; rfl
    refine Tree.toList_replaceAt_erase hto T.erase q hb hse _ ?_
    simp [ITree.erase, Tree.toList]

/-- the heap after the splice when the successor `y` lies deeper in `z`'s right subtree -/
theorem splice_gets_deep (st : PT) (z y x pn lz rz yp : Nat) (cz : Colour)
    (hzp : (st.heap.get z).parent = pn) (hzl : (st.heap.get z).left = lz) (hzr : (st.heap.get z).right = rz)
    (hzc : (st.heap.get z).color = cz)
    (hmin : treeMin st.heap (st.size + 1) rz = y) (hyp : (st.heap.get y).parent = yp) (hyr : (st.heap.get y).right = x)
    (hypl : (st.heap.get yp).left = y)
    (hlz0 : lz ≠ 0) (hrz0 : rz ≠ 0) (hy0 : y ≠ 0) (hyp0 : yp ≠ 0)
    (hyz : y ≠ z) (hlzz : lz ≠ z) (hrzz : rz ≠ z) (hypz : yp ≠ z)
    (hlzy : lz ≠ y) (hrzy : rz ≠ y) (hypy : yp ≠ y) (hlzrz : lz ≠ rz) (hlzyp : lz ≠ yp)
    (hxz : x ≠ z) (hxy : x ≠ y) (hxlz : x ≠ lz) (hxrz : x ≠ rz) (hxyp : x ≠ yp)
    (hpz : pn ≠ z) (hpy : pn ≠ y) (hplz : pn ≠ lz) (hprz : pn ≠ rz) (hpyp : pn ≠ yp) (hpx : pn = 0 ∨ pn ≠ x) :
    (removeSplice st z).2 = (x, (st.heap.get y).color) ∧
    (removeSplice st z).1.heap.get y =
      { st.heap.get y with color := cz, left := lz, right := rz, parent := pn } ∧
    (removeSplice st z).1.heap.get lz = { st.heap.get lz with parent := y } ∧
    (removeSplice st z).1.heap.get rz =
      { (if rz = yp then { st.heap.get rz with left := x } else st.heap.get rz) with parent := y } ∧
    (yp ≠ rz → (removeSplice st z).1.heap.get yp = { st.heap.get yp with left := x }) ∧
    (removeSplice st z).1.heap.get x = { st.heap.get x with parent := yp } ∧
    (pn ≠ 0 → (removeSplice st z).1.heap.get pn =
      (if z = (st.heap.get pn).left then { st.heap.get pn with left := y } else { st.heap.get pn with right := y })) ∧
    (∀ i, i ≠ y → i ≠ lz → i ≠ rz → i ≠ yp → i ≠ x → (pn ≠ 0 → i ≠ pn) →
      (removeSplice st z).1.heap.get i = st.heap.get i) ∧
    (removeSplice st z).1.root = (if pn = 0 then y else st.root) ∧
    (removeSplice st z).1.size = st.size ∧ (removeSplice st z).1.fresh = st.fresh := by
  unfold removeSplice
  simp only [hzl, hzr, S, hlz0, hrz0, if_false, hmin, hyp, hypz, hyr]
  -- first transplant: `x` replaces `y` below `yp`
  obtain ⟨a1, a2, a3, a4, a5, a6⟩ := transplant_gets st y x yp hyp (Or.inr hxyp)
  have a2' := a2 hyp0
  simp only [hypl, if_true] at a2'
  simp only [hyp0, if_false] at a4
  generalize transplant st y x = st1 at a1 a2 a2' a3 a4 a5 a6 ⊢
  have e1z : st1.heap.get z = st.heap.get z := a3 z (Ne.symm hxz) (fun _ => Ne.symm hypz)
  have e1y : st1.heap.get y = st.heap.get y := a3 y (Ne.symm hxy) (fun _ => Ne.symm hypy)
  -- the heap before the second transplant
  have s3 : ∀ i, (setParent (setRight st1.heap y (st1.heap.get z).right)
        ((setRight st1.heap y (st1.heap.get z).right).get y).right y).get i =
      if i = rz then { (if rz = y then { st1.heap.get y with right := rz } else st1.heap.get rz) with parent := y }
      else if i = y then { st1.heap.get y with right := rz } else st1.heap.get i := by
    intro i
    simp only [setParent, setRight, Heap.get_set, e1z, hzr, if_true]
  have hup : (({ st1 with heap := setParent (setRight st1.heap y (st1.heap.get z).right) ((setRight st1.heap y (st1.heap.get z).right).get y).right y } : PT).heap.get z).parent = pn := by
    dsimp only; rw [s3]; simp [Ne.symm hrzz, Ne.symm hyz, e1z, hzp]
  obtain ⟨g1, g2, g3, g4, g5, g6⟩ := transplant_gets _ z y pn hup
    (by rcases hpx with h | h; exact Or.inl h; exact Or.inr (Ne.symm hpy))
  dsimp only at g1 g2 g3 g4 g5 g6
  simp only [s3] at g1 g2 g3
  generalize transplant { heap := setParent (setRight st1.heap y (st1.heap.get z).right) ((setRight st1.heap y (st1.heap.get z).right).get y).right y, root := st1.root, size := st1.size, fresh := st1.fresh } z y = st2 at g1 g2 g3 g4 g5 g6 ⊢
  have hpn_ne : pn ≠ 0 → pn ≠ x := fun h0 => by rcases hpx with h | h; exact absurd h h0; exact h
  have ez : st2.heap.get z = st.heap.get z := by
    rw [g3 z (Ne.symm hyz) (fun _ => Ne.symm hpz)]; simp [Ne.symm hrzz, Ne.symm hyz, e1z]
  have elz : st2.heap.get lz = st.heap.get lz := by
    rw [g3 lz hlzy (fun _ => Ne.symm hplz)]; simp [hlzrz, hlzy]
    exact a3 lz (Ne.symm hxlz) (fun _ => hlzyp)
  simp only [Ne.symm hrzy, hrzy, if_false, if_true, e1y] at g1
  refine ⟨trivial, ?_, ?_, ?_, ?_, ?_, ?_, ?_, by rw [g4, a4], by rw [g5, a5], by rw [g6, a6]⟩
  · simp [setColor, setParent, setLeft, Heap.get_set, ez, hzl, hzc, hlzz, Ne.symm hlzz, hlzy, Ne.symm hlzy,
      Ne.symm hyz, hyz, g1]
  · simp [setColor, setParent, setLeft, Heap.get_set, ez, hzl, hzc, hlzz, Ne.symm hlzz, hlzy, Ne.symm hlzy,
      Ne.symm hyz, hyz, g1, elz]
  · have : st2.heap.get rz =
        { (if rz = yp then { st.heap.get rz with left := x } else st.heap.get rz) with parent := y } := by
      rw [g3 rz hrzy (fun _ => Ne.symm hprz)]
      simp only [if_true, hrzy, if_false]
      by_cases e : rz = yp
      · subst e; simp [a2']
      · simp [e, a3 rz (Ne.symm hxrz) (fun _ => e)]
    simp [setColor, setParent, setLeft, Heap.get_set, ez, hzl, hzc, hlzz, Ne.symm hlzz, hlzy, Ne.symm hlzy,
      Ne.symm hyz, hyz, g1, this, hrzy, Ne.symm hlzrz]
  · intro hne
    have : st2.heap.get yp = { st.heap.get yp with left := x } := by
      rw [g3 yp hypy (fun _ => Ne.symm hpyp)]
      simp [hne, hypy, a2']
    simp [setColor, setParent, setLeft, Heap.get_set, ez, hzl, hzc, hlzz, Ne.symm hlzz, hlzy, Ne.symm hlzy,
      Ne.symm hyz, hyz, g1, this, hypy, Ne.symm hlzyp]
  · have : st2.heap.get x = { st.heap.get x with parent := yp } := by
      rw [g3 x hxy (fun h0 => Ne.symm (hpn_ne h0))]
      simp [hxrz, hxy, a1]
    simp [setColor, setParent, setLeft, Heap.get_set, ez, hzl, hzc, hlzz, Ne.symm hlzz, hlzy, Ne.symm hlzy,
      Ne.symm hyz, hyz, g1, this, hxy, hxlz]
  · intro h0
    have e1p : st1.heap.get pn = st.heap.get pn := a3 pn (hpn_ne h0) (fun _ => hpyp)
    simp [setColor, setParent, setLeft, Heap.get_set, ez, hzl, hzc, hlzz, Ne.symm hlzz, hlzy, Ne.symm hlzy,
      Ne.symm hyz, hyz, g1, hpy, hplz, g2 h0, hprz, e1p]
  · intro i h1 h2 h3 h4 h5 h6
    simp [setColor, setParent, setLeft, Heap.get_set, ez, hzl, hzc, hlzz, Ne.symm hlzz, hlzy, Ne.symm hlzy,
      Ne.symm hyz, hyz, g1, h1, h2, g3 i h1 h6, h3, a3 i h5 (fun _ => h4)]
end CC.PTree

namespace CC.Tree
theorem treeMinPath_last (t : Tree) (q0 : Path) (d : Dir) (h : treeMinPath t = q0 ++ [d]) : d = .L := by
  induction t generalizing q0 with
  | nil => simp [treeMinPath] at h
  | node c l k v r ihl _ =>
    cases l with
    | nil => simp [treeMinPath] at h
    | node c' l' k' v' r' =>
      simp only [treeMinPath] at h
      cases q0 with
      | nil => simp at h; exact h.1.symm
      | cons e q' =>
        simp only [List.cons_append, List.cons.injEq] at h
        exact ihl q' h.2

/-- cutting the minimum out: the in-order list starts with the minimum's entry, the rest is the tree with
the minimum's right subtree in its place -/
theorem toList_cut_min (t : Tree) {c k v r} (hs : subtree t (treeMinPath t) = node c nil k v r) :
    t.toList = (k, v) :: (replaceAt t (treeMinPath t) r).toList := by
  induction t with
  | nil => simp [treeMinPath, subtree] at hs
  | node c' l k' v' r' ihl _ =>
    cases l with
    | nil =>
      simp only [treeMinPath, subtree] at hs
      cases hs
      simp [treeMinPath, replaceAt, toList]
    | node c2 l2 k2 v2 r2 =>
      simp only [treeMinPath, subtree] at hs
      have := ihl hs
      simp only [treeMinPath, replaceAt]
      simp only [toList] at this ⊢
      rw [this]; simp
end CC.Tree

namespace CC.PTree
open CC
open CC.Tree (Path Dir)

/-- **`remove_node`, two children, the successor `y` lies deeper in `z`'s right subtree** (`y->parent != z`):
`y`'s right subtree `yr` takes `y`'s place (first `transplant`), `y` adopts `z`'s right subtree, takes `z`'s
place (second `transplant`) and colour and adopts `z`'s left subtree; `x = y->right` — also when it is the
sentinel — has `y`'s former parent as parent -/
theorem splice_succ_deep (cmp : Nat → Nat → Int) (hto : Spec.TotalOrder cmp) {st : PT} {T : ITree}
    (h : Holds st T) (hb : Tree.BST cmp T.erase) (q : Path) {z cz zl zk zv rz crz rl rk rv rr}
    (hs : T.subtree q = .node z cz zl zk zv (.node rz crz rl rk rv rr)) (hzl : zl ≠ .nil)
    (mp : Path) (hmp : mp = Tree.treeMinPath rl.erase) {y cy yk yv yr}
    (hy : rl.subtree mp = .node y cy .nil yk yv yr)
    (hfuel : (ITree.node rz crz rl rk rv rr).height ≤ st.size + 2) :
    (removeSplice st z).2 = (yr.rid, cy) ∧
    Holds (removeSplice st z).1 (T.replace q (.node y cz zl yk yv (.node rz crz (rl.replace mp yr) rk rv rr))) ∧
    ((removeSplice st z).1.heap.get yr.rid).parent = parentAt rl rz mp ∧
    (removeSplice st z).1.heap.get z = st.heap.get z ∧
    (z :: (T.replace q (.node y cz zl yk yv (.node rz crz (rl.replace mp yr) rk rv rr))).ids).Perm T.ids ∧
    (T.replace q (.node y cz zl yk yv (.node rz crz (rl.replace mp yr) rk rv rr))).erase.toList =
      Spec.OrdMap.erase T.erase.toList zk ∧
    (removeSplice st z).1.size = st.size ∧ (removeSplice st z).1.fresh = st.fresh := by
  obtain ⟨hz, hz0, hzlr, hzrr⟩ := h.get_at q hs
  obtain ⟨hrz0, hrzrec, hrlr, hrrr⟩ := hzrr
  have hne : T.subtree q ≠ .nil := by rw [hs]; simp
  have hrlne : rl ≠ .nil := by intro e; rw [e] at hy; simp at hy
  -- `y` inside `rl`
  have hysub := hrlr.sub mp
  rw [hy] at hysub
  obtain ⟨hy0, hyrec, _, hyrr⟩ := hysub
  generalize hyp : parentAt rl rz mp = yp at hyrec
  -- distinctness
  have hndS := ITree.ids_subtree_nodup T q h.nodup
  rw [hs] at hndS
  simp only [ITree.ids_node, List.nodup_cons, List.mem_append, List.mem_cons, not_or, List.nodup_append] at hndS
  obtain ⟨⟨hz_zl, hzrz, hz_rl, hz_rr⟩, hnd_zl, ⟨⟨hrz_rl, hrz_rr⟩, hnd_rl, hnd_rr, hd_rl_rr⟩, hd_zl⟩ := hndS
  obtain ⟨hlzm, hlz0⟩ := ITree.rid_mem hzlr hzl
  have hndY := ITree.ids_subtree_nodup rl mp hnd_rl
  rw [hy] at hndY
  simp only [ITree.ids_node, ITree.ids_nil, List.nil_append, List.nodup_cons] at hndY
  obtain ⟨hy_yr, hnd_yr⟩ := hndY
  have hyin : y ∈ rl.ids := ITree.ids_subtree_subset rl mp y (by rw [hy]; simp)
  have hyrin : ∀ i ∈ yr.ids, i ∈ rl.ids := fun i hi => ITree.ids_subtree_subset rl mp i (by rw [hy]; simp [hi])
  have hx : yr.rid = 0 ∨ yr.rid ∈ yr.ids := by
    cases yr with
    | nil => left; rfl
    | node _ _ _ _ _ _ => right; simp
  -- the node above `y`
  have hypf : (mp = [] ∧ yp = rz) ∨ (∃ q0, mp = q0 ++ [.L] ∧ yp ∈ rl.ids ∧ yp ≠ y ∧ yp ∉ yr.ids ∧
      (st.heap.get yp).left = y) := by
    rcases path_cases mp with e | ⟨q0, d, e⟩
    · left; subst e; exact ⟨rfl, by simpa [parentAt] using hyp.symm⟩
    · right
      have hd : d = .L := Tree.treeMinPath_last rl.erase q0 d (by rw [← hmp, e])
      subst hd
      have hy' := hy
      rw [e] at hy'
      obtain ⟨p1, p2, p3, _⟩ := hrlr.parent_child hnd_rl q0 .L hy'
      rw [← e, hyp] at p1 p2 p3
      rw [hy] at p2
      simp only [ITree.ids_node, ITree.ids_nil, List.nil_append, List.mem_cons, not_or] at p2
      refine ⟨q0, e, ?_, p2.1, p2.2, p3.2 rfl⟩
      have hpa : parentAt rl rz mp = (rl.subtree q0).rid := by rw [e]; simp [parentAt]
      rw [hyp] at hpa
      rcases ITree.rid_subtree_mem rl q0 with h0 | hm
      · rw [← hpa] at h0; exact absurd h0 p1
      · rw [hpa]; exact hm
  have hyp_cases : yp = rz ∨ yp ∈ rl.ids := by
    rcases hypf with ⟨_, e⟩ | ⟨_, _, e, _⟩
    · exact Or.inl e
    · exact Or.inr e
  have hyp0 : yp ≠ 0 := by
    rcases hyp_cases with e | e
    · rw [e]; exact hrz0
    · exact hrlr.ids_ne _ e
  have hyp_nyr : yp ∉ yr.ids := by
    rcases hypf with ⟨_, e⟩ | ⟨_, _, _, _, e, _⟩
    · rw [e]; exact fun hm => hrz_rl (hyrin _ hm)
    · exact e
  have hypy : yp ≠ y := by
    rcases hypf with ⟨_, e⟩ | ⟨_, _, _, e, _, _⟩
    · rw [e]; exact fun e' => hrz_rl (e' ▸ hyin)
    · exact e
  have hypl : (st.heap.get yp).left = y := by
    rcases hypf with ⟨e1, e⟩ | ⟨_, _, _, _, _, e⟩
    · subst e1; simp only [ITree.subtree_root] at hy; rw [e, hrzrec, hy]; rfl
    · exact e
  have hxz : yr.rid ≠ z := by
    rcases hx with e | e; rw [e]; exact Ne.symm hz0; exact fun e' => hz_rl (e' ▸ hyrin _ e)
  have hxy : yr.rid ≠ y := by rcases hx with e | e; rw [e]; exact Ne.symm hy0; exact fun e' => hy_yr (e' ▸ e)
  have hxlz : yr.rid ≠ zl.rid := by
    rcases hx with e | e; rw [e]; exact Ne.symm hlz0
    exact fun e' => hd_zl _ hlzm _ (Or.inr (Or.inl (hyrin _ e))) e'.symm
  have hxrz : yr.rid ≠ rz := by
    rcases hx with e | e; rw [e]; exact Ne.symm hrz0; exact fun e' => hrz_rl (e' ▸ hyrin _ e)
  have hxyp : yr.rid ≠ yp := by
    rcases hx with e | e; rw [e]; exact Ne.symm hyp0; exact fun e' => hyp_nyr (e' ▸ e)
  have hypz : yp ≠ z := by
    rcases hyp_cases with e | e; rw [e]; exact Ne.symm hzrz; exact fun e' => hz_rl (e' ▸ e)
  have hlzyp : zl.rid ≠ yp := by
    rcases hyp_cases with e | e
    · rw [e]; exact hd_zl _ hlzm _ (Or.inl rfl)
    · exact hd_zl _ hlzm _ (Or.inr (Or.inl e))
  have hmin : treeMin st.heap (st.size + 1) rz = y := by
    have hzr' : Rep st.heap (.node rz crz rl rk rv rr) z := ⟨hrz0, hrzrec, hrlr, hrrr⟩
    have := treeMinLoop_rep hzr' (by simp) (st.size + 1) hfuel
    have hpath : Tree.treeMinPath (ITree.node rz crz rl rk rv rr).erase = .L :: mp := by
      cases rl with
      | nil => exact absurd rfl hrlne
      | node _ _ _ _ _ _ => rw [hmp]; simp [ITree.erase, Tree.treeMinPath]
    rw [hpath] at this
    simp only [ITree.rid_node, ITree.subtree_L, hy] at this
    simp [treeMin, S, hrz0, this]
  -- the node above `z`
  have hpf := h.rep.parent_facts h.nodup q hs
  have hsub_ids : (T.subtree q).ids = z :: (zl.ids ++ rz :: (rl.ids ++ rr.ids)) := by rw [hs]; simp
  have hpn : parentAt T 0 q = 0 ∨ (parentAt T 0 q ≠ 0 ∧ parentAt T 0 q ≠ z ∧ parentAt T 0 q ∉ zl.ids ∧
      parentAt T 0 q ≠ rz ∧ parentAt T 0 q ∉ rl.ids ∧ parentAt T 0 q ∉ rr.ids) := by
    rcases hpf with ⟨_, e⟩ | ⟨q0, d, _, p0, _, pni, _, _⟩
    · exact Or.inl e
    · rw [hsub_ids] at pni
      simp only [List.mem_cons, List.mem_append, not_or] at pni
      exact Or.inr ⟨p0, pni.1, pni.2.1, pni.2.2.1, pni.2.2.2.1, pni.2.2.2.2⟩
  have hpn_notin : ∀ i, (i = z ∨ i ∈ zl.ids ∨ i = rz ∨ i ∈ rl.ids ∨ i ∈ rr.ids) → parentAt T 0 q ≠ i := by
    intro i hi e
    have hi0 : i ≠ 0 := by
      rcases hi with e | e | e | e | e
      · rw [e]; exact hz0
      · exact hzlr.ids_ne _ e
      · rw [e]; exact hrz0
      · exact hrlr.ids_ne _ e
      · exact hrrr.ids_ne _ e
    rcases hpn with e0 | ⟨_, p1, p2, p3, p4, p5⟩
    · exact hi0 (e ▸ e0)
    · subst e
      rcases hi with e | e | e | e | e
      · exact p1 e
      · exact p2 e
      · exact p3 e
      · exact p4 e
      · exact p5 e
  obtain ⟨g0, gy, glz, grz, gyp, gx, gpn, gother, groot, gsz, gfr⟩ :=
    splice_gets_deep st z y yr.rid (parentAt T 0 q) zl.rid rz yp cz
      (by rw [hz]) (by rw [hz]) (by rw [hz]; rfl) (by rw [hz]) hmin (by rw [hyrec]) (by rw [hyrec]) hypl
      hlz0 hrz0 hy0 hyp0 (fun e => hz_rl (e ▸ hyin)) (fun e => hz_zl (e ▸ hlzm)) (Ne.symm hzrz) hypz
      (hd_zl _ hlzm _ (Or.inr (Or.inl hyin))) (fun e => hrz_rl (e ▸ hyin)) hypy (hd_zl _ hlzm _ (Or.inl rfl)) hlzyp
      hxz hxy hxlz hxrz hxyp
      (hpn_notin z (Or.inl rfl)) (hpn_notin y (Or.inr (Or.inr (Or.inr (Or.inl hyin)))))
      (hpn_notin _ (Or.inr (Or.inl hlzm))) (hpn_notin rz (Or.inr (Or.inr (Or.inl rfl))))
      (by rcases hyp_cases with e | e
          · rw [e]; exact hpn_notin rz (Or.inr (Or.inr (Or.inl rfl)))
          · exact hpn_notin yp (Or.inr (Or.inr (Or.inr (Or.inl e)))))
      (by rcases hx with e | e
          · rcases hpn with e0 | ⟨p0, _⟩
            · exact Or.inl e0
            · right; rw [e]; exact p0
          · exact Or.inr (hpn_notin _ (Or.inr (Or.inr (Or.inr (Or.inl (hyrin _ e)))))))
  generalize removeSplice st z = R at g0 gy glz grz gyp gx gpn gother groot gsz gfr ⊢
  have hperm : (z :: (T.replace q (.node y cz zl yk yv (.node rz crz (rl.replace mp yr) rk rv rr))).ids).Perm T.ids := by
    have h1 := ITree.ids_replace_perm2 T q (.node y cz zl yk yv (.node rz crz (rl.replace mp yr) rk rv rr)) hne
    have h2 := ITree.ids_replace_perm2 rl mp yr (by rw [hy]; simp)
    rw [hs] at h1; rw [hy] at h2
    rw [List.perm_iff_count] at h1 h2 ⊢
    intro a; have h1 := h1 a; have h2 := h2 a
    simp only [ITree.ids_node, ITree.ids_nil, List.count_cons, List.count_append, List.count_nil,
      List.nil_append, List.append_nil] at h1 h2 ⊢
    omega
  -- outside `z`'s subtree and the node above, nothing changed
  have hout_rr : ∀ i ∈ rr.ids, R.1.heap.get i = st.heap.get i := by
    intro i hi
    refine gother i (fun e => hd_rl_rr _ hyin _ hi e.symm) (fun e => hd_zl _ hlzm _ (Or.inr (Or.inr hi)) e.symm)
      (fun e => hrz_rr (e ▸ hi)) ?_ ?_ (fun _ => Ne.symm (hpn_notin i (Or.inr (Or.inr (Or.inr (Or.inr hi))))))
    · rcases hyp_cases with e | e
      · rw [e]; exact fun e' => hrz_rr (e' ▸ hi)
      · exact fun e' => hd_rl_rr _ e _ hi e'.symm
    · rcases hx with e | e
      · rw [e]; exact hrrr.ids_ne _ hi
      · exact fun e' => hd_rl_rr _ (hyrin _ e) _ hi e'.symm
  have hout_zl : ∀ i ∈ zl.ids, i ≠ zl.rid → R.1.heap.get i = st.heap.get i := by
    intro i hi hir
    refine gother i (hd_zl _ hi _ (Or.inr (Or.inl hyin))) hir (hd_zl _ hi _ (Or.inl rfl)) ?_ ?_
      (fun _ => Ne.symm (hpn_notin i (Or.inr (Or.inl hi))))
    · rcases hyp_cases with e | e
      · rw [e]; exact hd_zl _ hi _ (Or.inl rfl)
      · exact hd_zl _ hi _ (Or.inr (Or.inl e))
    · rcases hx with e | e
      · rw [e]; exact hzlr.ids_ne _ hi
      · exact hd_zl _ hi _ (Or.inr (Or.inl (hyrin _ e)))
  have hout_rl : ∀ i ∈ rl.ids, i ≠ y → i ≠ yr.rid → i ≠ yp → R.1.heap.get i = st.heap.get i := by
    intro i hi h1 h2 h3
    exact gother i h1 (fun e => hd_zl _ hlzm _ (Or.inr (Or.inl hi)) e.symm) (fun e => hrz_rl (e ▸ hi)) h3 h2
      (fun _ => Ne.symm (hpn_notin i (Or.inr (Or.inr (Or.inr (Or.inl hi))))))
  have hyr_rep : Rep R.1.heap yr yp := by
    refine hyrr.reroot hnd_yr ?_ (fun i hi hir => hout_rl i (hyrin i hi) (fun e => hy_yr (e ▸ hi)) hir ?_)
    · by_cases e : yr = .nil
      · exact Or.inl e
      · right; rw [gx]
    · exact fun e => hyp_nyr (e ▸ hi)
  -- the left subtree of `rz` with `yr` in `y`'s place
  have hrl_rep : Rep R.1.heap (rl.replace mp yr) rz := by
    refine hrlr.replace hnd_rl mp yr ?_ (by rw [hyp]; exact hyr_rep) ?_
    · intro i hi hni hip
      rw [hy] at hni
      simp only [ITree.ids_node, ITree.ids_nil, List.nil_append, List.mem_cons, not_or] at hni
      rw [hyp] at hip
      refine hout_rl i hi hni.1 ?_ hip
      rcases hx with e | e
      · rw [e]; exact hrlr.ids_ne _ hi
      · exact fun e' => hni.2 (e' ▸ e)
    · intro q0 d hq
      rcases hypf with ⟨e, _⟩ | ⟨q0', hq', hypin, _, _, _⟩
      · rw [e] at hq; simp at hq
      · have := List.append_inj' (hq.symm.trans hq') rfl
        simp only [List.cons.injEq, and_true] at this
        obtain ⟨_, hd⟩ := this
        subst hd
        rw [hyp, gyp (fun e => hrz_rl (e ▸ hypin))]
        rfl
  have hrl'rid : (rl.replace mp yr).rid = if rz = yp then yr.rid else rl.rid := by
    rcases hypf with ⟨e1, e2⟩ | ⟨q0, e1, hypin, _, _, _⟩
    · subst e1; simp [e2]
    · have : rz ≠ yp := fun e => hrz_rl (e ▸ hypin)
      simp only [this, if_false]
      rw [e1]
      cases q0 with
      | nil => exact ITree.rid_replace_cons rl .L [] _
      | cons d' q' => exact ITree.rid_replace_cons rl d' (q' ++ [.L]) _
  have hrep : Rep R.1.heap (T.replace q (.node y cz zl yk yv (.node rz crz (rl.replace mp yr) rk rv rr))) 0 := by
    refine h.rep.replace h.nodup q _ ?_ ?_ ?_
    · intro i hi hni hip
      rw [hsub_ids] at hni
      simp only [List.mem_cons, List.mem_append, not_or] at hni
      refine gother i (fun e => hni.2.2.2.1 (e ▸ hyin)) (fun e => hni.2.1 (e ▸ hlzm)) hni.2.2.1 ?_ ?_ (fun _ => hip)
      · rcases hyp_cases with e | e
        · rw [e]; exact hni.2.2.1
        · exact fun e' => hni.2.2.2.1 (e' ▸ e)
      · rcases hx with e | e
        · rw [e]; exact h.rep.ids_ne i hi
        · exact fun e' => hni.2.2.2.1 (e' ▸ hyrin _ e)
    · refine ⟨hy0, by rw [gy, hyrec]; rfl, ?_, ⟨hrz0, ?_, hrl_rep, hrrr.frame hout_rr⟩⟩
      · exact hzlr.reroot hnd_zl (Or.inr glz) hout_zl
      · rw [grz, hrl'rid]
        by_cases e : rz = yp
        · simp only [e, if_true]; rw [← e, hrzrec]
        · simp only [e, if_false]; rw [hrzrec]
    · intro q0 d hq
      rcases hpf with ⟨e, _⟩ | ⟨q0', d', hq', p0, _, _, pl, pr⟩
      · rw [e] at hq; simp at hq
      · have := List.append_inj' (hq.symm.trans hq') rfl
        simp only [List.cons.injEq, and_true] at this
        obtain ⟨_, hd⟩ := this
        subst hd
        rw [gpn p0]
        cases d with
        | L => have := pl.2 rfl; simp [withChild, this]
        | R =>
          have : ¬ z = (st.heap.get (parentAt T 0 q)).left := fun e => by
            have := pl.1 e.symm; cases this
          simp [withChild, this]
  have hx0T : yr.rid = 0 ∨ yr.rid ≠ 0 := by rcases hx with e | e; exact Or.inl e; exact Or.inr (hyrr.ids_ne _ e)
  refine ⟨by rw [g0, hyrec], ⟨?_, hrep, ?_, ?_, ?_⟩, ?_, ?_, hperm, ?_, gsz, gfr⟩
  · rw [groot]
    rcases hpf with ⟨e, e0⟩ | ⟨q0, d, hq, p0, _, _, _, _⟩
    · subst e; simp [e0]
    · simp only [p0, if_false]; rw [h.root, hq]
      cases q0 with
      | nil => exact (ITree.rid_replace_cons T d [] _).symm
      | cons d' q' => exact (ITree.rid_replace_cons T d' (q' ++ [d]) _).symm
  · exact (List.nodup_cons.1 ((List.Perm.nodup_iff hperm).2 h.nodup)).2
  · rcases hx0T with e | e
    · rw [e] at gx; rw [gx]; simp [h.black]
    · rw [gother 0 (Ne.symm hy0) (Ne.symm hlz0) (Ne.symm hrz0) (Ne.symm hyp0) (Ne.symm e) (fun p0 e => p0 e.symm)]
      exact h.black
  · rcases hx0T with e | e
    · rw [e] at gx; rw [gx]; simp [h.sent]
    · rw [gother 0 (Ne.symm hy0) (Ne.symm hlz0) (Ne.symm hrz0) (Ne.symm hyp0) (Ne.symm e) (fun p0 e => p0 e.symm)]
      exact h.sent
  · rw [gx]
  · exact gother z (fun e => hz_rl (e ▸ hyin)) (fun e => hz_zl (e ▸ hlzm)) hzrz (Ne.symm hypz) (Ne.symm hxz)
      (fun _ => Ne.symm (hpn_notin z (Or.inl rfl)))
  · rw [ITree.erase_replace]
    have hse : Tree.subtree T.erase q = .node cz zl.erase zk zv (.node crz rl.erase rk rv rr.erase) := by
      rw [← ITree.erase_subtree, hs]; rfl
    refine Tree.toList_replaceAt_erase hto T.erase q hb hse _ ?_
    have hsy : Tree.subtree rl.erase mp = .node cy .nil yk yv yr.erase := by
      rw [← ITree.erase_subtree, hy]; rfl
    rw [hmp] at hsy
    have := Tree.toList_cut_min rl.erase hsy
    simp only [ITree.erase, Tree.toList, ITree.erase_replace]
    rw [this, ← hmp]; simp

theorem Heap.get_del (h : Heap) (i j : Nat) : (h.del i).get j = if j = i then {} else h.get j := by
  unfold Heap.get Heap.del
  rw [Std.HashMap.getD_erase]
  by_cases e : j = i
  · subst e; simp
  · have : (i == j) = false := by simpa using Ne.symm e
    simp [this, e]

theorem ITree.subtree_treeMinPath (t : ITree) (hne : t ≠ .nil) :
    ∃ y cy yk yv yr, t.subtree (Tree.treeMinPath t.erase) = .node y cy .nil yk yv yr := by
  induction t with
  | nil => exact absurd rfl hne
  | node id c l k v r ihl _ =>
    cases l with
    | nil => exact ⟨id, c, k, v, r, by simp [ITree.erase, Tree.treeMinPath]⟩
    | node li lc ll lk lv lr =>
      obtain ⟨y, cy, yk, yv, yr, e⟩ := ihl (by simp)
      exact ⟨y, cy, yk, yv, yr, by simpa [ITree.erase, Tree.treeMinPath] using e⟩

/-- **`mem_free(z); size--` after a splice that needs no fix-up**: from a state that holds `T'` (all nodes of
the old tree but `z`), freeing `z` and decrementing `size` gives a state that `Represents T'` -/
theorem free_represents {st st' : PT} {T T' : ITree} {z : Nat} (h : Represents st T) (h' : Holds st' T')
    (hperm : (z :: T'.ids).Perm T.ids) (hsz : st'.size = st.size) (hfr : st'.fresh = st.fresh) :
    Represents { st' with heap := st'.heap.del z, size := st'.size - 1 } T' := by
  have hz : z ∉ T'.ids := (List.nodup_cons.1 ((List.Perm.nodup_iff hperm).2 h.nodup)).1
  have hz0 : z ≠ 0 := h.rep.ids_ne z (hperm.subset (by simp))
  refine ⟨h'.root, h'.rep.frame (fun i hi => ?_), h'.nodup, ?_, ?_, ?_, ?_, ?_⟩
  · simp [Heap.get_del, show i ≠ z from fun e => hz (e ▸ hi)]
  · simp [Heap.get_del, Ne.symm hz0]; exact h'.black
  · simp [Heap.get_del, Ne.symm hz0]; exact h'.sent
  · show st'.size - 1 = _
    have := hperm.length_eq
    simp only [List.length_cons] at this
    rw [hsz, h.size]; omega
  · intro i hi
    show i < st'.fresh
    rw [hfr]; exact h.fresh i (hperm.subset (by simp [hi]))
  · show 0 < st'.fresh
    rw [hfr]; exact h.fresh_pos

/-- **the splice, all cases together**: for every node `z` of a represented search tree the state before
the fix-up holds a tree made of the other nodes whose in-order content is the old one without `z`'s key;
`z`'s record is untouched; `size` and the allocation serial are not yet changed -/
theorem removeSplice_holds (cmp : Nat → Nat → Int) (hto : Spec.TotalOrder cmp) {st : PT} {T : ITree}
    (h : Represents st T) (hb : Tree.BST cmp T.erase) (q : Path) {z cz zl zk zv zr}
    (hs : T.subtree q = .node z cz zl zk zv zr) :
    ∃ T', Holds (removeSplice st z).1 T' ∧ (z :: T'.ids).Perm T.ids ∧
      T'.erase.toList = Spec.OrdMap.erase T.erase.toList zk ∧
      (removeSplice st z).1.heap.get z = st.heap.get z ∧
      (removeSplice st z).1.size = st.size ∧ (removeSplice st z).1.fresh = st.fresh := by
  by_cases hzl : zl = .nil
  · subst hzl
    obtain ⟨a, b, _, d, e, f, g1, g2⟩ := splice_one_child cmp hto h.holds hb q hs zr (Or.inl ⟨rfl, rfl⟩)
    rw [a]; exact ⟨_, b, e, f, d, g1, g2⟩
  · by_cases hzr : zr = .nil
    · subst hzr
      obtain ⟨a, b, _, d, e, f, g1, g2⟩ := splice_one_child cmp hto h.holds hb q hs zl (Or.inr ⟨hzl, rfl, rfl⟩)
      rw [a]; exact ⟨_, b, e, f, d, g1, g2⟩
    · cases zr with
      | nil => exact absurd rfl hzr
      | node rz crz rl rk rv rr =>
        cases hrl : rl with
        | nil =>
          subst hrl
          obtain ⟨_, b, _, d, e, f, g1, g2⟩ := splice_succ_child cmp hto h.holds hb q hs hzl
          exact ⟨_, b, e, f, d, g1, g2⟩
        | node li lc ll lk lv lr =>
          have hne : rl ≠ .nil := by rw [hrl]; simp
          obtain ⟨y, cy, yk, yv, yr, hy⟩ := ITree.subtree_treeMinPath rl hne
          have hfuel : (ITree.node rz crz rl rk rv rr).height ≤ st.size + 2 := by
            have h1 := ITree.height_subtree_le T (q ++ [.R])
            rw [ITree.subtree_append, hs] at h1
            simp only [ITree.subtree_R, ITree.subtree_root] at h1
            have h2 := ITree.height_le_ids T
            rw [h.size]; omega
          obtain ⟨_, b, _, d, e, f, g1, g2⟩ := splice_succ_deep cmp hto h.holds hb q hs hzl _ rfl hy hfuel
          exact ⟨_, b, e, f, d, g1, g2⟩

/-- **`remove_node` when a red node leaves the tree (no fix-up)**, end to end: the result represents a tree
made of all the old nodes but `z` — in the two-children case the successor *node* is re-linked, not copied —
with `z`'s key erased from the in-order content; `size` is decremented, `z` is freed -/
theorem removeNode_no_fixup (cmp : Nat → Nat → Int) (hto : Spec.TotalOrder cmp) {st : PT} {T : ITree}
    (h : Represents st T) (hb : Tree.BST cmp T.erase) (q : Path) {z cz zl zk zv zr}
    (hs : T.subtree q = .node z cz zl zk zv zr) (hred : (removeSplice st z).2.2 = .red) :
    ∃ T', Represents (removeNode st z) T' ∧ (z :: T'.ids).Perm T.ids ∧
      T'.erase.toList = Spec.OrdMap.erase T.erase.toList zk := by
  obtain ⟨T', a, b, c, _, e, f⟩ := removeSplice_holds cmp hto h hb q hs
  refine ⟨T', ?_, b, c⟩
  rw [removeNode_eq]
  simp only [hred, reduceCtorEq, if_false]
  exact free_represents h a b e f
end CC.PTree
