import CollectionsC.Proofs.DequeD3
/-! Finding D3, characterised (second part): the content after an `add_at` inside the front-half range. -/
namespace CC.Deque
open CC

/-- **what `add_at` does inside finding D3's range** (room available): status `CC_OK`, and the content is
the late insertion resp. the overwrite-and-duplicate described in the header — for every layout -/
theorem addAtCore_front_half_behaviour (d : Deque) (x index : Nat) (m : Mem) (hi : d.Inv) (hroom : d.size < d.cap)
    (hD3 : 1 ≤ index ∧ index + 1 ≤ d.size / 2) :
    (d.addAtCore x index m).1 = .ok ∧
    (((d.first + index) % d.cap < d.first % d.cap ∨ d.first % d.cap = 0) →
      (d.addAtCore x index m).2.1.abs = d.abs.insertIdx (index + 1) x) ∧
    (¬ ((d.first + index) % d.cap < d.first % d.cap ∨ d.first % d.cap = 0) →
      (d.addAtCore x index m).2.1.abs = (d.abs.set index x).insertIdx index (d.buf.get ((d.first + (index - 1)) % d.cap))) := by
  have hidx : index + 1 < d.size := by omega
  have hfh : frontHalf index d.size = true := by
    unfold frontHalf; rw [if_neg (by omega)]; simp; omega
  have hsz := hi.2.2.2.2.2
  refine ⟨(addAtCore_inv d x index m hi (by omega) hroom).1, fun hp => ?_, fun hp => ?_⟩
  · have hb := adFrontWrap_d3 d x index m hi hidx hD3.1 hroom hp
    have : d.addAtCore x index m = (.ok, Deque.mk (d.size + 1) d.cap (decMask d.first d.cap) d.last
        ((d.adFrontWrap index m).1.put ((d.first + index) % d.cap) x) d.triple,
        (wr (d.adFrontWrap index m).1 ((d.first + index) % d.cap) x (d.adFrontWrap index m).2).2) := by
      unfold addAtCore
      rw [if_neg (by omega), if_neg (by omega)]
      simp only [hfh, if_true, if_pos hp, wr_fst]
    rw [this]
    simp only
    rw [abs_front_shape d (Deque.mk (d.size + 1) d.cap (decMask d.first d.cap) d.last
      ((d.adFrontWrap index m).1.put ((d.first + index) % d.cap) x) d.triple) _ hi rfl rfl rfl hb]
    apply List.ext_getElem
    · simp [List.length_insertIdx]; omega
    · intro j h1 h2
      have hj : j < d.size + 1 := by simpa using h1
      simp only [List.getElem_map, List.getElem_range]
      by_cases hle : j ≤ index
      · rw [if_pos hle, List.getElem_insertIdx_of_lt (by omega), abs_getElem]
      · rw [if_neg hle]
        by_cases heq : j = index + 1
        · subst heq; rw [if_pos rfl, List.getElem_insertIdx_self]
        · rw [if_neg heq, List.getElem_insertIdx_of_gt (by omega), abs_getElem]
  · have hb := adFrontContig_d3 d x index m hi hidx hD3.1 hroom hp
    have : d.addAtCore x index m = (.ok, Deque.mk (d.size + 1) d.cap (decMask d.first d.cap) d.last
        ((d.adFrontContig index m).1.put ((d.first + index) % d.cap) x) d.triple,
        (wr (d.adFrontContig index m).1 ((d.first + index) % d.cap) x (d.adFrontContig index m).2).2) := by
      unfold addAtCore
      rw [if_neg (by omega), if_neg (by omega)]
      simp only [hfh, if_true, if_neg hp, wr_fst]
    rw [this]
    simp only
    rw [abs_front_shape d (Deque.mk (d.size + 1) d.cap (decMask d.first d.cap) d.last
      ((d.adFrontContig index m).1.put ((d.first + index) % d.cap) x) d.triple) _ hi rfl rfl rfl hb]
    apply List.ext_getElem
    · simp [List.length_insertIdx]; omega
    · intro j h1 h2
      have hj : j < d.size + 1 := by simpa using h1
      simp only [List.getElem_map, List.getElem_range]
      by_cases hlt : j < index
      · rw [if_pos hlt, List.getElem_insertIdx_of_lt hlt, List.getElem_set, if_neg (by omega), abs_getElem]
      · rw [if_neg hlt]
        by_cases heq : j = index
        · subst heq; rw [if_pos rfl, List.getElem_insertIdx_self]
        · rw [if_neg heq, List.getElem_insertIdx_of_gt (by omega), List.getElem_set]
          by_cases h3 : j = index + 1
          · rw [if_pos h3, if_pos (by omega)]
          · rw [if_neg h3, if_neg (by omega), abs_getElem]

/-- **`cc_deque_add_at` inside finding D3's range, every layout, growth included**: either the deque was
full and growing was refused (`CC_ERR_ALLOC`, unchanged), or the call returns `CC_OK` and
* when the deque had to grow (after growth `first = 0`), or its ring wraps before `index`, or it starts at
  slot 0: the new element is inserted one position late, `insertIdx (index + 1)`;
* otherwise (contiguous, `first ≠ 0`): the element at `index` is overwritten by the new one and the
  element at `index - 1` is duplicated. -/
theorem addAt_front_half_behaviour (d : Deque) (x index : Nat) (m : Mem) (hi : d.Inv)
    (hD3 : 1 ≤ index ∧ index + 1 ≤ d.size / 2) :
    ((d.addAt x index m).1 = .errAlloc ∧ (d.addAt x index m).2.1 = d) ∨
    ((d.addAt x index m).1 = .ok ∧
      ((d.size = d.cap ∨ (d.first + index) % d.cap < d.first ∨ d.first = 0) →
        (d.addAt x index m).2.1.abs = d.abs.insertIdx (index + 1) x) ∧
      (¬ (d.size = d.cap ∨ (d.first + index) % d.cap < d.first ∨ d.first = 0) →
        (d.addAt x index m).2.1.abs = (d.abs.set index x).insertIdx index (d.abs.getD (index - 1) 0))) := by
  have hsz := hi.2.2.2.2.2
  have hf := hi.2.2.2.1
  have hpos := Inv.cap_pos hi
  have hidx : index < d.size := by omega
  have hget : d.abs.getD (index - 1) 0 = d.buf.get ((d.first + (index - 1)) % d.cap) := by
    rw [List.getD_eq_getElem?_getD, abs_getElem? d (index - 1) (by omega)]; rfl
  unfold addAt
  rw [if_neg (by omega)]
  by_cases hfull : d.cap = d.size
  · rw [if_pos hfull]
    by_cases he : (d.expandCapacity m).1 = .ok
    · right
      obtain ⟨e1, e2, e3, e4, _⟩ := expandCapacity_ok d m hi he
      have hne : ((d.expandCapacity m).1 != Stat.ok) = false := by simp [he]
      simp only [hne, Bool.false_eq_true, if_false]
      have hfirst0 : (d.expandCapacity m).2.1.first = 0 := by
        by_cases hc : d.cap = Gen.MAX_POW_TWO
        · rw [expandCapacity_max d m hc] at he; simp at he
        · cases ha : (m.allocT d.triple).1
          · rw [expandCapacity_refused d m hc ha] at he; simp at he
          · rw [expandCapacity_grow d m hc ha]
      obtain ⟨b1, b2, _⟩ := addAtCore_front_half_behaviour (d.expandCapacity m).2.1 x index (d.expandCapacity m).2.2 e1
        (by rw [e3, e4]; omega) (by rw [e3]; exact hD3)
      refine ⟨b1, fun _ => ?_, fun h => absurd (Or.inl hfull.symm) h⟩
      rw [b2 (Or.inr (by rw [hfirst0]; simp)), e2]
    · left
      obtain ⟨f1, _⟩ := expandCapacity_fail d m he
      have hne : ((d.expandCapacity m).1 != Stat.ok) = true := by simp [he]
      simp only [hne, if_true]
      exact ⟨trivial, f1⟩
  · right
    rw [if_neg hfull]
    obtain ⟨b1, b2, b3⟩ := addAtCore_front_half_behaviour d x index m hi (by omega) hD3
    rw [Nat.mod_eq_of_lt hf] at b2 b3
    refine ⟨b1, fun h => ?_, fun h => ?_⟩
    · rcases h with h | h
      · omega
      · exact b2 h
    · rw [hget]
      exact b3 (fun hh => h (Or.inr hh))

end CC.Deque
