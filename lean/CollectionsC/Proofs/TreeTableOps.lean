import CollectionsC.Proofs.TreeTableHeight
import CollectionsC.Proofs.TreeTableWalk
/-! Operation level: every function of `cc_treetable` on a state satisfying the invariant returns the
status and out-value of the ideal ordered map, keeps the invariant, commutes with the abstraction,
does not fault, keeps the ledger balanced, leaves the state untouched when it rejects the call, and
stays within the comparator budget of C17. -/
namespace CC.TreeTable
open CC.Spec CC.Spec.OrdMap CC.Tree
variable {cmp : Nat → Nat → Int}

local macro "triv" : tactic => `(tactic| first | trivial | rfl)

/-! ### ledger helpers (for the allocator triple the table was built with) -/
theorem allocT_true (m : Mem) (tr : Triple) (h : (m.allocT tr).1 = true) :
    liveOf (m.allocT tr).2 tr = liveOf m tr + 1 ∧ (m.allocT tr).2.fault = m.fault := by
  cases tr with
  | conf => have := Mem.alloc_fst_true m h; exact ⟨this.1, this.2.1⟩
  | libc => exact ⟨rfl, rfl⟩

theorem allocT_false (m : Mem) (tr : Triple) (h : (m.allocT tr).1 = false) :
    liveOf (m.allocT tr).2 tr = liveOf m tr ∧ (m.allocT tr).2.fault = m.fault := by
  cases tr with
  | conf => have := Mem.alloc_fst_false m h; exact ⟨this.1, this.2.1⟩
  | libc => simp [Mem.allocT] at h

theorem freeT_spec (m : Mem) (tr : Triple) (h : 0 < liveOf m tr) :
    liveOf (m.freeT tr) tr = liveOf m tr - 1 ∧ (m.freeT tr).fault = m.fault := by
  cases tr with
  | conf =>
    have h0 : m.live ≠ 0 := by simp only [liveOf] at h; omega
    simp [Mem.free, h0, liveOf]
  | libc =>
    have h0 : m.liveLibc ≠ 0 := by simp only [liveOf] at h; omega
    simp [Mem.freeT, h0, liveOf]

theorem freeN_spec (n : Nat) (m : Mem) (tr : Triple) (h : n ≤ liveOf m tr) :
    liveOf (freeN m tr n) tr = liveOf m tr - n ∧ (freeN m tr n).fault = m.fault := by
  induction n generalizing m with
  | zero => simp [freeN]
  | succ n ih =>
    have hf := freeT_spec m tr (by omega)
    have := ih (m.freeT tr) (by omega)
    simp only [freeN]
    rw [this.1, this.2, hf.1, hf.2]
    exact ⟨by omega, rfl⟩

/-! ### facts packed in the invariant -/
theorem Inv.size_eq {t : TreeTable} (h : t.Inv cmp) : t.size = t.abs.length := by
  rw [h.2.2, size_eq_length]; rfl
theorem Inv.sorted {t : TreeTable} (h : t.Inv cmp) : Sorted cmp t.abs := h.1

theorem lookup_eq {t : TreeTable} (h : t.Inv cmp) (k : Nat) : t.lookup cmp k = Tree.find cmp k t.root := by
  unfold lookup
  split
  · rename_i h0
    have : t.root.size = 0 := by rw [← h.2.2]; exact h0
    cases hr : t.root with
    | nil => rfl
    | node c l k v r => rw [hr] at this; simp [Tree.size] at this
  · rfl

theorem lookup_refines (ho : TotalOrder cmp) {t : TreeTable} (h : t.Inv cmp) (k : Nat) :
    (t.lookup cmp k).1 = OrdMap.lookup t.abs k := by
  rw [lookup_eq h, find_refines ho k t.root h.1]; rfl

/-- a successful lookup found a node -/
theorem findPath_of_lookup {t : TreeTable} (h : t.Inv cmp) (k : Nat) {v n : Nat}
    (hl : t.lookup cmp k = (some v, n)) : (Tree.findPath cmp k t.root).isSome := by
  have := Tree.find_eq_findPath (cmp := cmp) k t.root
  rw [← lookup_eq h, hl] at this
  cases hf : Tree.findPath cmp k t.root with
  | none => rw [hf] at this; simp at this
  | some p => rfl

/-- the enumeration loops of `foreach_*` and `contains_value` walk the in-order list -/
theorem foreachKey_spec (t : TreeTable) : t.foreachKey = keys t.abs := by
  unfold foreachKey keys abs; rw [Tree.walk_eq_toList]
theorem foreachValue_spec (t : TreeTable) : t.foreachValue = values t.abs := by
  unfold foreachValue values abs; rw [Tree.walk_eq_toList]
theorem containsValue_spec (t : TreeTable) (v : Nat) : t.containsValue v = countValue t.abs v := by
  unfold containsValue countValue abs; rw [Tree.walk_eq_toList]

/-- **C17, comparisons of a lookup** -/
theorem lookup_cmps {t : TreeTable} (h : t.Inv cmp) (k : Nat) :
    (t.lookup cmp k).2 ≤ 2 * Nat.log2 (t.size + 1) := by
  rw [lookup_eq h, h.2.2]
  exact Nat.le_trans (find_cnt_le_height k t.root) (height_le_log t.root h.2.1)

/-! ### `cc_treetable_add` -/
theorem add_spec (ho : TotalOrder cmp) {t : TreeTable} (h : t.Inv cmp) (k v : Nat) (m : Mem) :
    (t.add cmp k v m).1 = (if (!contains t.abs k && !(m.allocT t.triple).1) then Stat.errAlloc else .ok) ∧
    (t.add cmp k v m).2.1.abs = (if (!contains t.abs k && !(m.allocT t.triple).1) then t.abs else insert cmp t.abs k v) ∧
    (t.add cmp k v m).2.1.Inv cmp ∧
    ((!contains t.abs k && !(m.allocT t.triple).1) = true → (t.add cmp k v m).2.1 = t) ∧
    (t.add cmp k v m).2.2.1.fault = m.fault ∧
    liveOf (t.add cmp k v m).2.2.1 t.triple + t.size = liveOf m t.triple + (t.add cmp k v m).2.1.size ∧
    (t.add cmp k v m).2.2.2 ≤ 2 * Nat.log2 (t.size + 1) + 1 ∧
    (t.add cmp k v m).2.1.triple = t.triple := by
  obtain ⟨hb, hrb, hsz⟩ := h
  have hn := ins_new ho k v t.root hb
  have hl := toList_ins ho k v t.root hb
  have hs := sorted_insert ho (l := t.root.toList) hb k v
  have hlen := length_insert ho (l := t.root.toList) hb k v
  have hcnt : (ins cmp k v t.root).2.2 ≤ 2 * Nat.log2 (t.size + 1) := by
    rw [hsz]; exact Nat.le_trans (ins_cnt_le_height k v t.root) (height_le_log t.root hrb)
  unfold add abs
  cases hc : contains t.root.toList k
  · -- new key
    rw [hc] at hn hlen
    simp only [Bool.not_false] at hn
    cases ha : (m.allocT t.triple).1
    · have := allocT_false m t.triple ha
      simp only [hn, ha, Bool.not_false, Bool.not_true, Bool.and_self, Bool.false_eq_true, ↓reduceIte]
      refine ⟨?_, ?_, ?_, ?_, ?_, ?_, ?_, ?_⟩
      · trivial
      · trivial
      · exact ⟨hb, hrb, hsz⟩
      · intro; trivial
      · exact this.2
      · rw [this.1]
      · omega
      · trivial
    · have := allocT_true m t.triple ha
      simp only [hn, ha, Bool.not_false, Bool.not_true, Bool.and_false, Bool.false_eq_true, ↓reduceIte]
      refine ⟨?_, ?_, ?_, ?_, ?_, ?_, ?_, ?_⟩
      · trivial
      · rw [toList_blacken, hl]
      · refine ⟨?_, RB_insert k v t.root hrb, ?_⟩
        · show Sorted cmp _; rw [toList_blacken, hl]; exact hs
        · show t.size + 1 = _
          rw [size_eq_length, toList_blacken, hl, hlen, hsz, size_eq_length]; simp
      · exact False.elim
      · exact this.2
      · rw [this.1]; omega
      · split <;> omega
      · trivial
  · -- existing key: the value is replaced
    rw [hc] at hn hlen
    simp only [Bool.not_true] at hn
    simp only [hn, Bool.not_false, Bool.not_true, Bool.false_and, Bool.false_eq_true, ↓reduceIte]
    refine ⟨?_, ?_, ?_, ?_, ?_, ?_, ?_, ?_⟩
    · trivial
    · exact hl
    · refine ⟨?_, RB_replace k v t.root hrb hn, ?_⟩
      · show Sorted cmp _; rw [hl]; exact hs
      · show t.size = _
        rw [size_eq_length, hl, hlen, hsz, size_eq_length]; simp
    · exact False.elim
    · trivial
    · trivial
    · omega
    · trivial

/-! ### `cc_treetable_remove` -/
theorem removeNode_spec (ho : TotalOrder cmp) {t : TreeTable} (h : t.Inv cmp) (k : Nat) (m : Mem)
    (hk : contains t.abs k = true) (hm : 0 < liveOf m t.triple) :
    (t.removeNode cmp k m).1.abs = erase t.abs k ∧ (t.removeNode cmp k m).1.Inv cmp ∧
    (t.removeNode cmp k m).2.fault = m.fault ∧
    liveOf (t.removeNode cmp k m).2 t.triple + t.size = liveOf m t.triple + (t.removeNode cmp k m).1.size ∧
    (t.removeNode cmp k m).1.triple = t.triple := by
  obtain ⟨hb, hrb, hsz⟩ := h
  have hd := toList_del ho k t.root hb
  have hlen := length_erase ho (l := t.root.toList) hb k
  have hf := freeT_spec m t.triple hm
  unfold abs at hk
  rw [hk] at hlen
  simp only [if_true] at hlen
  have hsz' : t.size = t.root.toList.length := by rw [hsz, size_eq_length]
  unfold removeNode abs
  refine ⟨by rw [toList_blacken, hd], ⟨?_, RB_delete k t.root hrb, ?_⟩, hf.2, ?_⟩
  · show Sorted cmp _; rw [toList_blacken, hd]; exact sorted_erase hb k
  · show t.size - 1 = _
    rw [size_eq_length, toList_blacken, hd]; omega
  · refine ⟨?_, rfl⟩
    show liveOf (m.freeT t.triple) t.triple + t.size = liveOf m t.triple + (t.size - 1)
    rw [hf.1]; omega

theorem remove_spec (ho : TotalOrder cmp) {t : TreeTable} (h : t.Inv cmp) (k : Nat) (m : Mem)
    (hm : 0 < liveOf m t.triple) :
    (t.remove cmp k m).1 = (opRemove t.abs k).1 ∧ (t.remove cmp k m).2.1 = (opRemove t.abs k).2.1 ∧
    (t.remove cmp k m).2.2.1.abs = (opRemove t.abs k).2.2 ∧ (t.remove cmp k m).2.2.1.Inv cmp ∧
    ((t.remove cmp k m).1 ≠ .ok → (t.remove cmp k m).2.2.1 = t ∧ (t.remove cmp k m).2.2.2.1 = m) ∧
    (t.remove cmp k m).2.2.2.1.fault = m.fault ∧
    liveOf (t.remove cmp k m).2.2.2.1 t.triple + t.size = liveOf m t.triple + (t.remove cmp k m).2.2.1.size ∧
    (t.remove cmp k m).2.2.2.2 ≤ 2 * Nat.log2 (t.size + 1) ∧ (t.remove cmp k m).2.2.1.triple = t.triple := by
  have hl := lookup_refines ho h k
  have hc := lookup_cmps h k
  unfold remove opRemove
  split
  · rename_i n heq
    rw [heq] at hl hc
    simp only at hl hc
    rw [← hl]
    exact ⟨rfl, rfl, rfl, h, fun _ => ⟨rfl, rfl⟩, rfl, rfl, hc, rfl⟩
  · rename_i v n heq
    rw [heq] at hl hc
    simp only at hl hc
    rw [← hl]
    have hk : contains t.abs k = true := by rw [contains_iff_lookup, ← hl]; rfl
    obtain ⟨a, b, c, d, e⟩ := removeNode_spec ho h k m hk hm
    exact ⟨rfl, rfl, a, b, fun x => absurd rfl x, c, d, hc, e⟩

/-! ### lookups -/
theorem get_spec (ho : TotalOrder cmp) {t : TreeTable} (h : t.Inv cmp) (k : Nat) :
    (t.get cmp k).1 = (opGet t.abs k).1 ∧ (t.get cmp k).2.1 = (opGet t.abs k).2 ∧
    (t.get cmp k).2.2 ≤ 2 * Nat.log2 (t.size + 1) := by
  have hl := lookup_refines ho h k
  have hc := lookup_cmps h k
  unfold get opGet
  split <;> rename_i heq <;> rw [heq] at hl hc <;> simp only at hl hc <;> rw [← hl] <;> exact ⟨rfl, rfl, hc⟩

theorem containsKey_spec (ho : TotalOrder cmp) {t : TreeTable} (h : t.Inv cmp) (k : Nat) :
    (t.containsKey cmp k).1 = contains t.abs k ∧ (t.containsKey cmp k).2 ≤ 2 * Nat.log2 (t.size + 1) := by
  unfold containsKey
  exact ⟨by rw [contains_iff_lookup, lookup_refines ho h k], lookup_cmps h k⟩

theorem greaterThan_spec (ho : TotalOrder cmp) {t : TreeTable} (h : t.Inv cmp) (k : Nat) :
    (t.greaterThan cmp k).1 = (opGreaterThan cmp t.abs k).1 ∧
    (t.greaterThan cmp k).2.1 = (opGreaterThan cmp t.abs k).2 ∧
    (t.greaterThan cmp k).2.2 ≤ 2 * Nat.log2 (t.size + 1) := by
  have hl := lookup_refines ho h k
  have hc := lookup_cmps h k
  have hci := contains_iff_lookup t.abs k
  unfold greaterThan opGreaterThan
  split <;> rename_i heq <;> rw [heq] at hl hc <;> simp only at hl hc <;> rw [← hl] at hci
  · simp only [hci, Option.isSome_none, Bool.false_eq_true, if_false]; exact ⟨trivial, trivial, hc⟩
  · simp only [Option.isSome_some] at hci
    rw [(Tree.succOfKey_eq ho h.1 k (findPath_of_lookup h k heq)).1, nextAfter_eq_succ ho h.1 hci]
    simp only [hci, if_true]
    unfold abs
    cases succ cmp t.root.toList k <;> exact ⟨rfl, rfl, hc⟩

theorem lesserThan_spec (ho : TotalOrder cmp) {t : TreeTable} (h : t.Inv cmp) (k : Nat) :
    (t.lesserThan cmp k).1 = (opLesserThan cmp t.abs k).1 ∧
    (t.lesserThan cmp k).2.1 = (opLesserThan cmp t.abs k).2 ∧
    (t.lesserThan cmp k).2.2 ≤ 2 * Nat.log2 (t.size + 1) := by
  have hl := lookup_refines ho h k
  have hc := lookup_cmps h k
  have hci := contains_iff_lookup t.abs k
  unfold lesserThan opLesserThan
  split <;> rename_i heq <;> rw [heq] at hl hc <;> simp only at hl hc <;> rw [← hl] at hci
  · simp only [hci, Option.isSome_none, Bool.false_eq_true, if_false]; exact ⟨trivial, trivial, hc⟩
  · simp only [Option.isSome_some] at hci
    rw [(Tree.succOfKey_eq ho h.1 k (findPath_of_lookup h k heq)).2, prevBefore_eq_pred ho h.1 hci]
    simp only [hci, if_true]
    unfold abs
    cases pred cmp t.root.toList k <;> exact ⟨rfl, rfl, hc⟩

theorem firstKey_spec (t : TreeTable) : t.firstKey = opFirstKey t.abs := by
  unfold firstKey opFirstKey first abs; rw [minEntry_eq]; cases t.root.toList.head? <;> rfl
theorem firstValue_spec (t : TreeTable) : t.firstValue = opFirstValue t.abs := by
  unfold firstValue opFirstValue first abs; rw [minEntry_eq]; cases t.root.toList.head? <;> rfl
theorem lastKey_spec (t : TreeTable) : t.lastKey = opLastKey t.abs := by
  unfold lastKey opLastKey last abs; rw [maxEntry_eq]; cases t.root.toList.getLast? <;> rfl
theorem lastValue_spec (t : TreeTable) : t.lastValue = opLastValue t.abs := by
  unfold lastValue opLastValue last abs; rw [maxEntry_eq]; cases t.root.toList.getLast? <;> rfl

/-! ### `remove_first`, `remove_last`, `remove_all` -/
theorem removeFirst_spec {t : TreeTable} (h : t.Inv cmp) (m : Mem) (hm : 0 < liveOf m t.triple) :
    (t.removeFirst m).1 = (opRemoveFirst t.abs).1 ∧ (t.removeFirst m).2.1 = (opRemoveFirst t.abs).2.1 ∧
    (t.removeFirst m).2.2.1.abs = (opRemoveFirst t.abs).2.2 ∧ (t.removeFirst m).2.2.1.Inv cmp ∧
    ((t.removeFirst m).1 ≠ .ok → (t.removeFirst m).2.2.1 = t ∧ (t.removeFirst m).2.2.2 = m) ∧
    (t.removeFirst m).2.2.2.fault = m.fault ∧
    liveOf (t.removeFirst m).2.2.2 t.triple + t.size = liveOf m t.triple + (t.removeFirst m).2.2.1.size ∧
    (t.removeFirst m).2.2.1.triple = t.triple := by
  have hsz := h.size_eq
  obtain ⟨hb, hrb, hsz0⟩ := h
  have hmin := minEntry_eq t.root
  have hd := toList_delMin t.root
  have hf := freeT_spec m t.triple hm
  unfold abs at hsz
  unfold removeFirst opRemoveFirst abs
  cases hl : t.root.toList with
  | nil =>
    rw [hl] at hsz
    simp only [List.length_nil] at hsz
    simp only [hsz, if_true]
    exact ⟨by triv, by triv, hl, ⟨hb, hrb, hsz0⟩, fun _ => ⟨by triv, by triv⟩, by triv, by triv, by triv⟩
  | cons e rest =>
    rw [hl] at hsz hmin hd
    simp only [List.length_cons] at hsz
    have : t.size ≠ 0 := by omega
    simp only [this, if_false, hmin, List.head?_cons]
    refine ⟨by triv, by triv, by rw [toList_blacken, hd]; rfl, ⟨?_, RB_delMin t.root hrb, ?_⟩, fun x => absurd rfl x, hf.2, ?_⟩
    · show Sorted cmp _; rw [toList_blacken, hd]; have := sorted_tail hb; rw [hl] at this; exact this
    · show t.size - 1 = _; rw [size_eq_length, toList_blacken, hd]; simp; omega
    · refine ⟨?_, by triv⟩
      show liveOf (m.freeT t.triple) t.triple + t.size = liveOf m t.triple + (t.size - 1); rw [hf.1]; omega

theorem removeLast_spec {t : TreeTable} (h : t.Inv cmp) (m : Mem) (hm : 0 < liveOf m t.triple) :
    (t.removeLast m).1 = (opRemoveLast t.abs).1 ∧ (t.removeLast m).2.1 = (opRemoveLast t.abs).2.1 ∧
    (t.removeLast m).2.2.1.abs = (opRemoveLast t.abs).2.2 ∧ (t.removeLast m).2.2.1.Inv cmp ∧
    ((t.removeLast m).1 ≠ .ok → (t.removeLast m).2.2.1 = t ∧ (t.removeLast m).2.2.2 = m) ∧
    (t.removeLast m).2.2.2.fault = m.fault ∧
    liveOf (t.removeLast m).2.2.2 t.triple + t.size = liveOf m t.triple + (t.removeLast m).2.2.1.size ∧
    (t.removeLast m).2.2.1.triple = t.triple := by
  have hsz := h.size_eq
  obtain ⟨hb, hrb, hsz0⟩ := h
  have hmax := maxEntry_eq t.root
  have hd := toList_delMax t.root
  have hf := freeT_spec m t.triple hm
  unfold abs at hsz
  unfold removeLast opRemoveLast abs
  cases hl : t.root.toList.getLast? with
  | none =>
    have hnil : t.root.toList = [] := List.getLast?_eq_none_iff.1 hl
    rw [hnil] at hsz
    simp only [List.length_nil] at hsz
    simp only [hsz, if_true]
    exact ⟨by triv, by triv, by triv, ⟨hb, hrb, hsz0⟩, fun _ => ⟨by triv, by triv⟩, by triv, by triv, by triv⟩
  | some e =>
    have hne : t.root.toList ≠ [] := by intro hn; rw [hn] at hl; simp at hl
    have hpos : 0 < t.root.toList.length := List.length_pos_iff.2 hne
    have : t.size ≠ 0 := by omega
    rw [hl] at hmax
    simp only [this, if_false, hmax]
    refine ⟨by triv, by triv, by rw [toList_blacken, hd], ⟨?_, RB_delMax t.root hrb, ?_⟩, fun x => absurd rfl x, hf.2, ?_⟩
    · show Sorted cmp _; rw [toList_blacken, hd]; exact sorted_dropLast hb
    · show t.size - 1 = _; rw [size_eq_length, toList_blacken, hd, List.length_dropLast]; omega
    · refine ⟨?_, by triv⟩
      show liveOf (m.freeT t.triple) t.triple + t.size = liveOf m t.triple + (t.size - 1); rw [hf.1]; omega

theorem removeAll_spec {t : TreeTable} (h : t.Inv cmp) (m : Mem) (hm : t.size ≤ liveOf m t.triple) :
    (t.removeAll m).1.abs = [] ∧ (t.removeAll m).1.Inv cmp ∧ (t.removeAll m).2.fault = m.fault ∧
    liveOf (t.removeAll m).2 t.triple + t.size = liveOf m t.triple + (t.removeAll m).1.size := by
  have := freeN_spec t.root.size m t.triple (by rw [← h.2.2]; exact hm)
  unfold removeAll
  refine ⟨rfl, ⟨List.Pairwise.nil, ⟨trivial, rfl⟩, rfl⟩, this.2, ?_⟩
  show liveOf (freeN m t.triple t.root.size) t.triple + t.size = liveOf m t.triple + 0
  rw [this.1, ← h.2.2]; omega

/-! ### the per-call bundle -/
/-- ledger consistency: the ledger of the table's allocator triple holds at least the blocks the
table owns (one per entry, the sentinel, the header).  Established by the constructor
(`C03.new_inv`), preserved by every call (`StepOK.owns`). -/
def Owns (t : TreeTable) (m : Mem) : Prop := t.size + 2 ≤ liveOf m t.triple

/-- what one call guarantees (see `step_ok`) -/
structure StepOK (cmp : Nat → Nat → Int) (t : TreeTable) (op : Op) (m : Mem) : Prop where
  /-- same status, out-value and callback sequence as the ideal ordered map, which is told whether the
  allocator refuses this call's request -/
  out    : (t.step cmp op m).1 = (OrdMap.step cmp t.abs op (!(m.allocT t.triple).1)).1
  /-- the abstraction commutes -/
  abs    : (t.step cmp op m).2.1.abs = (OrdMap.step cmp t.abs op (!(m.allocT t.triple).1)).2
  /-- BST order, red-black rules and the size field are preserved -/
  inv    : (t.step cmp op m).2.1.Inv cmp
  /-- the table keeps its allocator triple -/
  triple : (t.step cmp op m).2.1.triple = t.triple
  /-- C16: a call that reports an error leaves the whole table untouched; unless the error is a
  refused allocation it leaves the ledger untouched as well -/
  inert  : ∀ st, (t.step cmp op m).1.st = some st → st ≠ .ok →
             (t.step cmp op m).2.1 = t ∧ (st ≠ .errAlloc → (t.step cmp op m).2.2.1 = m)
  /-- no freed-too-often block, no access through a dangling link -/
  nofault : (t.step cmp op m).2.2.1.fault = m.fault
  /-- C06/C08: the live blocks of the table's triple move exactly with the number of entries (also
  when the allocator refuses) -/
  ledger : liveOf (t.step cmp op m).2.2.1 t.triple + t.size = liveOf m t.triple + (t.step cmp op m).2.1.size
  /-- ledger consistency is preserved -/
  owns   : Owns (t.step cmp op m).2.1 (t.step cmp op m).2.2.1
  /-- C17: comparator calls of this call, `n` = number of keys before the call -/
  cmps   : (t.step cmp op m).2.2.2 ≤ 2 * Nat.log2 (t.size + 1) + 2

theorem step_ok (ho : TotalOrder cmp) {t : TreeTable} (h : t.Inv cmp) (op : Op) (m : Mem)
    (hm : Owns t m) : StepOK cmp t op m := by
  unfold Owns at hm
  -- everything except `owns`, which follows from `triple` and `ledger`
  suffices H : (t.step cmp op m).1 = (OrdMap.step cmp t.abs op (!(m.allocT t.triple).1)).1 ∧
      (t.step cmp op m).2.1.abs = (OrdMap.step cmp t.abs op (!(m.allocT t.triple).1)).2 ∧
      (t.step cmp op m).2.1.Inv cmp ∧ (t.step cmp op m).2.1.triple = t.triple ∧
      (∀ st, (t.step cmp op m).1.st = some st → st ≠ .ok →
         (t.step cmp op m).2.1 = t ∧ (st ≠ .errAlloc → (t.step cmp op m).2.2.1 = m)) ∧
      (t.step cmp op m).2.2.1.fault = m.fault ∧
      liveOf (t.step cmp op m).2.2.1 t.triple + t.size = liveOf m t.triple + (t.step cmp op m).2.1.size ∧
      (t.step cmp op m).2.2.2 ≤ 2 * Nat.log2 (t.size + 1) + 2 by
    obtain ⟨a, b, c, d, e, f, g, i⟩ := H
    exact ⟨a, b, c, d, e, f, g, by unfold Owns; rw [d]; omega, i⟩
  cases op with
  | add k v =>
    obtain ⟨a, b, c, d, e, f, g, i⟩ := add_spec ho h k v m
    have hr : (!contains t.abs k && !(m.allocT t.triple).1) = true ∨ (!contains t.abs k && !(m.allocT t.triple).1) = false := by
      cases (!contains t.abs k && !(m.allocT t.triple).1) <;> simp
    refine ⟨?_, ?_, c, i, ?_, e, f, by simp only [step]; omega⟩
    · simp only [step, OrdMap.step, a]; rcases hr with hr | hr <;> simp [hr]
    · simp only [step, OrdMap.step, b]; rcases hr with hr | hr <;> simp [hr]
    · intro st hst hne
      simp only [step, Option.some.injEq] at hst
      rcases hr with hr | hr
      · refine ⟨d hr, ?_⟩
        rw [a, hr] at hst; simp at hst; intro x; exact absurd hst.symm x
      · rw [a, hr] at hst; simp at hst; exact absurd hst.symm hne
  | get k =>
    obtain ⟨a, b, c⟩ := get_spec ho h k
    exact ⟨(by simp only [step, OrdMap.step, a, b]), rfl, h, rfl, fun _ _ _ => ⟨rfl, fun _ => rfl⟩, rfl, rfl, (by simp only [step]; omega)⟩
  | containsKey k =>
    obtain ⟨a, c⟩ := containsKey_spec ho h k
    exact ⟨(by simp only [step, OrdMap.step, a]), rfl, h, rfl, fun _ _ _ => ⟨rfl, fun _ => rfl⟩, rfl, rfl, (by simp only [step]; omega)⟩
  | containsValue v => exact ⟨by simp only [step, OrdMap.step, containsValue_spec], rfl, h, rfl, fun _ _ _ => ⟨rfl, fun _ => rfl⟩, rfl, rfl, (by simp only [step]; omega)⟩
  | remove k =>
    obtain ⟨a, b, c, d, e, f, g, i, j⟩ := remove_spec ho h k m (by omega)
    refine ⟨?_, c, d, j, ?_, f, g, by simp only [step]; omega⟩
    · simp only [step, OrdMap.step, a, b]
    · intro st hst hne
      simp only [step, Option.some.injEq] at hst
      have := e (by rw [hst]; exact hne)
      exact ⟨this.1, fun _ => this.2⟩
  | removeFirst =>
    obtain ⟨a, b, c, d, e, f, g, j⟩ := removeFirst_spec h m (by omega)
    refine ⟨?_, c, d, j, ?_, f, g, by simp only [step]; omega⟩
    · simp only [step, OrdMap.step, a, b]
    · intro st hst hne
      simp only [step, Option.some.injEq] at hst
      have := e (by rw [hst]; exact hne)
      exact ⟨this.1, fun _ => this.2⟩
  | removeLast =>
    obtain ⟨a, b, c, d, e, f, g, j⟩ := removeLast_spec h m (by omega)
    refine ⟨?_, c, d, j, ?_, f, g, by simp only [step]; omega⟩
    · simp only [step, OrdMap.step, a, b]
    · intro st hst hne
      simp only [step, Option.some.injEq] at hst
      have := e (by rw [hst]; exact hne)
      exact ⟨this.1, fun _ => this.2⟩
  | removeAll =>
    obtain ⟨a, b, c, d⟩ := removeAll_spec h m (by omega)
    exact ⟨rfl, a, b, rfl, fun st hst => by simp [step] at hst, c, d, by simp only [step]; omega⟩
  | firstKey => exact ⟨(by simp only [step, OrdMap.step, firstKey_spec]), rfl, h, rfl, fun _ _ _ => ⟨rfl, fun _ => rfl⟩, rfl, rfl, (by simp only [step]; omega)⟩
  | lastKey => exact ⟨(by simp only [step, OrdMap.step, lastKey_spec]), rfl, h, rfl, fun _ _ _ => ⟨rfl, fun _ => rfl⟩, rfl, rfl, (by simp only [step]; omega)⟩
  | firstValue => exact ⟨(by simp only [step, OrdMap.step, firstValue_spec]), rfl, h, rfl, fun _ _ _ => ⟨rfl, fun _ => rfl⟩, rfl, rfl, (by simp only [step]; omega)⟩
  | lastValue => exact ⟨(by simp only [step, OrdMap.step, lastValue_spec]), rfl, h, rfl, fun _ _ _ => ⟨rfl, fun _ => rfl⟩, rfl, rfl, (by simp only [step]; omega)⟩
  | greaterThan k =>
    obtain ⟨a, b, c⟩ := greaterThan_spec ho h k
    exact ⟨(by simp only [step, OrdMap.step, a, b]), rfl, h, rfl, fun _ _ _ => ⟨rfl, fun _ => rfl⟩, rfl, rfl, (by simp only [step]; omega)⟩
  | lesserThan k =>
    obtain ⟨a, b, c⟩ := lesserThan_spec ho h k
    exact ⟨(by simp only [step, OrdMap.step, a, b]), rfl, h, rfl, fun _ _ _ => ⟨rfl, fun _ => rfl⟩, rfl, rfl, (by simp only [step]; omega)⟩
  | foreachKey => exact ⟨by simp only [step, OrdMap.step, foreachKey_spec], rfl, h, rfl, fun _ _ _ => ⟨rfl, fun _ => rfl⟩, rfl, rfl, (by simp only [step]; omega)⟩
  | foreachValue => exact ⟨by simp only [step, OrdMap.step, foreachValue_spec], rfl, h, rfl, fun _ _ _ => ⟨rfl, fun _ => rfl⟩, rfl, rfl, (by simp only [step]; omega)⟩
  | size => exact ⟨(by simp only [step, OrdMap.step, h.size_eq]), rfl, h, rfl, fun _ _ _ => ⟨rfl, fun _ => rfl⟩, rfl, rfl, (by simp only [step]; omega)⟩
end CC.TreeTable
