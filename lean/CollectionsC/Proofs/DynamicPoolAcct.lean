import CollectionsC.Proofs.DynamicPool
/-! The accounting-only twin `DynamicPool.Acct` (used by the driver for `phys=quiet` sessions with pages
of many megabytes) commutes with the projection `DynamicPool.acct`: every operation returns the same
pointer, the same ledger and the same C fields as the full model. -/
namespace CC.DynamicPool
open Spec (PPage PBlk padOf)

theorem acct_sizes_length (s : DynamicPool) : s.acct.sizes.length = s.pages.length := by simp [acct]

theorem bump_acct (s : DynamicPool) (n pad : Nat) :
    (s.bump n pad).1 = (s.acct.bump n pad).1 ∧ (s.bump n pad).2.acct = (s.acct.bump n pad).2 := by
  constructor
  · simp [bump, Acct.bump, acct]
  · simp only [bump, Acct.bump, acct, List.length_map]
    cases s.pages <;> simp [pushBlk]

theorem malloc_acct (grow : Nat → Nat) (fresh : Nat) (s : DynamicPool) (n : Nat) (m : Mem) :
    (malloc grow fresh s n m).1 = (Acct.malloc grow s.acct n m).1 ∧
    (malloc grow fresh s n m).2.1.acct = (Acct.malloc grow s.acct n m).2.1 ∧
    (malloc grow fresh s n m).2.2 = (Acct.malloc grow s.acct n m).2.2 := by
  have hb := bump_acct s n (padOf s.isPacked s.ab n)
  have hb2 := bump_acct (s.expand (grow s.topPageSize) fresh) n (padOf s.isPacked s.ab n)
  unfold malloc Acct.malloc
  rw [padding_eq]
  simp only [show s.acct.topPageSize = s.topPageSize from rfl, show s.acct.isPacked = s.isPacked from rfl,
    show s.acct.ab = s.ab from rfl, show s.acct.free = s.free from rfl, show s.acct.isFixed = s.isFixed from rfl,
    show s.acct.triple = s.triple from rfl]
  by_cases h1 : n ≥ s.topPageSize
  · simp [h1]
  · simp only [h1, if_false]
    by_cases h2 : n + padOf s.isPacked s.ab n > s.topPageSize - s.free
    · simp only [h2, if_true]
      by_cases h3 : (s.isFixed || decide (n + padOf s.isPacked s.ab n > grow s.topPageSize)) = true
      · simp [h3]
      · simp only [h3]
        by_cases h4 : grow s.topPageSize > sizeMod - 1 - pageInfoSize
        · simp [h4]
        · simp only [h4, if_false]
          cases ha : (m.allocT s.triple).1
          · simp
          · simp only [Bool.not_true, Bool.false_eq_true, if_false]
            have e : (s.expand (grow s.topPageSize) fresh).acct =
                ({ s.acct with sizes := grow s.topPageSize :: s.acct.sizes, high := 0, free := 0,
                               topPageSize := grow s.topPageSize } : Acct) := by
              simp [expand, acct]
            rw [e] at hb2
            exact ⟨hb2.1, hb2.2, trivial⟩
    · simp only [h2, if_false]
      exact ⟨hb.1, hb.2, trivial⟩

theorem topSize_acct (s : DynamicPool) (h : s.Inv) : s.acct.topSize = s.topBytesLen := by
  obtain ⟨p, ps, hp, _, _, hpw, _⟩ := inv_top s h
  simp [Acct.topSize, acct, topBytesLen, hp, hpw.2.2.1]

theorem calloc_acct (grow : Nat → Nat) (fresh : Nat) (s : DynamicPool) (c k : Nat) (m : Mem) (h : s.Inv) :
    (calloc grow fresh s c k m).1 = (Acct.calloc grow s.acct c k m).1 ∧
    (calloc grow fresh s c k m).2.1.acct = (Acct.calloc grow s.acct c k m).2.1 ∧
    (calloc grow fresh s c k m).2.2 = (Acct.calloc grow s.acct c k m).2.2 := by
  have hm := malloc_acct grow fresh s (c * k % sizeMod) m
  have hi := malloc_inv grow fresh s (c * k % sizeMod) m h
  have ht := topSize_acct _ hi
  unfold calloc Acct.calloc; dsimp only
  split
  · exact ⟨rfl, rfl, rfl⟩
  · rw [← hm.1, ← hm.2.1, ← hm.2.2, ht]
    cases (malloc grow fresh s (c * k % sizeMod) m).1 with
    | none => exact ⟨rfl, rfl, rfl⟩
    | some a =>
      refine ⟨rfl, ?_, rfl⟩
      simp only [acct, fillTop]
      cases (malloc grow fresh s (c * k % sizeMod) m).2.1.pages <;> simp

theorem release_acct (s : DynamicPool) (p : Option (Nat × Nat)) : (s.release p).acct = s.acct.release p := by
  unfold release Acct.release
  simp only [acct_sizes_length, show s.acct.high = s.high from rfl]
  split
  · simp only [acct]
    congr 1
    split
    · cases s.pages <;> simp
    · rfl
  · rfl

theorem resetLoop_acct (t : Triple) (ps : List PPage) (m : Mem) :
    (resetLoop t ps m).1.map (·.size) = (Acct.resetLoop t (ps.map (·.size)) m).1 ∧
    (resetLoop t ps m).2 = (Acct.resetLoop t (ps.map (·.size)) m).2 := by
  induction ps generalizing m with
  | nil => simp [resetLoop, Acct.resetLoop]
  | cons p rest ih =>
    cases rest with
    | nil => simp [resetLoop, Acct.resetLoop]
    | cons q r => simpa [resetLoop, Acct.resetLoop] using ih (m.freeT t)

theorem reset_acct (s : DynamicPool) (m : Mem) :
    (s.reset m).1.acct = (s.acct.reset m).1 ∧ (s.reset m).2 = (s.acct.reset m).2 := by
  have := resetLoop_acct s.triple s.pages m
  unfold reset Acct.reset; dsimp only
  simp only [show s.acct.sizes = s.pages.map (·.size) from rfl, show s.acct.triple = s.triple from rfl, ← this.1, ← this.2]
  cases (resetLoop s.triple s.pages m).1 with
  | none => exact ⟨rfl, rfl⟩
  | some q => exact ⟨by simp [acct], rfl⟩

theorem freePages_acct (t : Triple) (ps : List PPage) (m : Mem) :
    freePages t ps m = Acct.freePages t (ps.map (·.size)) m := by
  induction ps generalizing m with
  | nil => rfl
  | cons p rest ih => simp only [freePages, Acct.freePages, List.map_cons]; exact ih _

theorem destroy_acct (s : DynamicPool) (m : Mem) : s.destroy m = s.acct.destroy m := by
  unfold destroy Acct.destroy; dsimp only
  rw [freePages_acct]
  have : (s.pages != []) = (s.acct.sizes != []) := by simp only [acct]; cases s.pages <;> rfl
  rw [this]; rfl

theorem write_acct (s : DynamicPool) (off n v : Nat) (m : Mem) (h : s.Inv) :
    (s.write off n v m).1.acct = s.acct ∧ (s.write off n v m).2 = s.acct.write off n m := by
  refine ⟨?_, by simp only [write, Acct.write, topSize_acct s h]⟩
  simp only [write, acct, fillTop]
  cases s.pages <;> simp

theorem used_free_acct (s : DynamicPool) : s.usedBytes = s.acct.usedBytes ∧ s.freeBytes = s.acct.freeBytes := by
  refine ⟨?_, rfl⟩
  simp only [usedBytes, Acct.usedBytes, acct]
  congr 1
  have : ∀ ps : List PPage, Spec.pagesSize ps = (ps.map (·.size)).foldr (· + ·) 0 := by
    intro ps; induction ps with
    | nil => rfl
    | cons p ps ih => simp [Spec.pagesSize, ih]
  rw [this, List.map_tail]

theorem new_acct (size : Nat) (fixed packed : Bool) (ab fresh : Nat) (t : Triple) (m : Mem) :
    (new size fixed packed ab fresh t m).1 = (Acct.new size fixed packed ab t m).1 ∧
    (new size fixed packed ab fresh t m).2.1.map acct = (Acct.new size fixed packed ab t m).2.1 ∧
    (new size fixed packed ab fresh t m).2.2 = (Acct.new size fixed packed ab t m).2.2 := by
  unfold new Acct.new; dsimp only
  split
  · exact ⟨rfl, rfl, rfl⟩
  · split
    · exact ⟨rfl, rfl, rfl⟩
    · split
      · exact ⟨rfl, rfl, rfl⟩
      · exact ⟨rfl, by simp [acct], rfl⟩

end CC.DynamicPool
