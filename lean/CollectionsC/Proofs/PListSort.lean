import CollectionsC.Proofs.PListBulk
import CollectionsC.Proofs.MergeSortCode
/-! Pointer-level model of `cc_list.c`, part 6: `cc_list_sort_in_place` (`split`/`merge`), which relinks nodes that are part
of the chain through `link_behind`, and `cc_list_sort` (data written back into the existing nodes). -/
namespace CC.PList
open CC

/-- **"link the gap"** for a node that is part of the chain: its neighbours are linked to each other, the node itself and
everything outside the chain are untouched -/
theorem linkGap_spec {h : Heap} {pre post : List Cell} {y : Cell} (hs : Seg h none (pre ++ y :: post) none)
    (hn : (idsOf (pre ++ y :: post)).Nodup) :
    Seg (linkGap h y.1) none (pre ++ post) none ∧ (linkGap h y.1) y.1 = h y.1 ∧
    (∀ b, b ∉ idsOf (pre ++ y :: post) → (linkGap h y.1) b = h b) := by
  obtain ⟨n1, n2, na1, na2, nd12, _⟩ := nodup_append_cons hn
  obtain ⟨s1, hy, s2⟩ := Seg_split hs
  unfold linkGap
  cases post with
  | nil =>
    simp only [nd_of hy, nxt_nil, List.append_nil]
    rcases eq_nil_or_snoc pre with e | ⟨ys, b, e⟩
    · subst e; simp only [lastOr_nil]; exact ⟨trivial, trivial, fun _ _ => trivial⟩
    · subst e
      simp only [lastOr_concat]
      have hby : b.1 ≠ y.1 := fun e => na1 (by simp [← e])
      refine ⟨Seg_setNext_of_last none (lastOr_concat ys b none) s1 n1, upd_ne _ _ _ _ (Ne.symm hby), fun c hc => ?_⟩
      exact upd_ne _ _ _ _ (fun e => hc (by simp [e]))
  | cons c R =>
    have hcy : c.1 ≠ y.1 := fun e => na2 (by simp [← e])
    have hyc : h y.1 = (setPrev h c.1 (lastOr pre none)) y.1 := (upd_ne _ _ _ _ (Ne.symm hcy)).symm
    simp only [nd_of hy, nxt_cons]
    rw [nd_of (hyc ▸ hy)]
    have hcn : c.1 ∉ idsOf R := by
      have := n2; simp only [idsOf_cons, List.nodup_cons] at this; exact this.1
    have hcp : c.1 ∉ idsOf pre := fun hm => nd12 c.1 hm (by simp)
    have e2 : Seg (setPrev h c.1 (lastOr pre none)) (lastOr pre none) (c :: R) none :=
      Seg_setPrev_first (lastOr pre none) s2 hcn
    rcases eq_nil_or_snoc pre with e | ⟨ys, b, e⟩
    · subst e
      simp only [lastOr_nil, List.nil_append] at e2 ⊢
      exact ⟨e2, upd_ne _ _ _ _ (Ne.symm hcy), fun d hd => upd_ne _ _ _ _ (fun e => hd (by simp [e]))⟩
    · subst e
      simp only [lastOr_concat] at e2 ⊢
      have hby : b.1 ≠ y.1 := fun e => na1 (by simp [← e])
      have hbq : b.1 ∉ idsOf (c :: R) := nd12 b.1 (by simp)
      refine ⟨?_, ?_, fun d hd => ?_⟩
      · rw [Seg_append]
        simp only [lastOr_concat, nxt_cons]
        exact ⟨Seg_setNext_of_last (some c.1) (lastOr_concat ys b none) (Seg_upd_notin _ _ hcp s1) n1,
               Seg_upd_notin _ _ hbq e2⟩
      · rw [setNext, upd_ne _ _ _ _ (Ne.symm hby), setPrev, upd_ne _ _ _ _ (Ne.symm hcy)]
      · rw [setNext, upd_ne _ _ _ _ (fun e => hd (by simp [e])), setPrev, upd_ne _ _ _ _ (fun e => hd (by simp [e]))]

/-- **`link_behind(base, ins)`** for a node `ins` that is part of the chain and stands behind `base` (the call in `merge`): it
is unlinked and relinked directly in front of `base`; every other node keeps its place, nothing outside the chain is touched -/
theorem linkBehind_move {h : Heap} {A L R : List Cell} {a y : Cell}
    (hs : Seg h none (A ++ (a :: L) ++ y :: R) none) (hn : (idsOf (A ++ (a :: L) ++ y :: R)).Nodup) :
    Seg (linkBehind h a.1 y.1) none (A ++ y :: a :: L ++ R) none ∧
    (∀ b, b ∉ idsOf (A ++ (a :: L) ++ y :: R) → (linkBehind h a.1 y.1) b = h b) := by
  obtain ⟨g1, g2, g3⟩ := linkGap_spec hs hn
  obtain ⟨_, _, ny1, ny2, _, n12⟩ := nodup_append_cons hn
  obtain ⟨_, hy, _⟩ := Seg_split hs
  have g1' : Seg (linkGap h y.1) none (A ++ a :: (L ++ R)) none := by simpa using g1
  have n12' : (idsOf (A ++ a :: (L ++ R))).Nodup := by simpa using n12
  have hnew : y.1 ∉ idsOf (A ++ a :: (L ++ R)) := by
    intro hm
    simp only [idsOf_append, idsOf_cons, List.mem_append, List.mem_cons] at hm ny1 ny2
    rcases hm with hm | hm | hm | hm
    · exact ny1 (Or.inl hm)
    · exact ny1 (Or.inr (Or.inl hm))
    · exact ny1 (Or.inr (Or.inr hm))
    · exact ny2 hm
  obtain ⟨c1, c2⟩ := linkBehindCore_spec y.1 y.2 _ _ g1' n12' hnew (g2.trans hy)
  unfold linkBehind
  refine ⟨by simpa using c1, fun b hb => ?_⟩
  have hb1 : b ∉ idsOf (A ++ a :: (L ++ R)) := by
    intro hm; apply hb
    simp only [idsOf_append, idsOf_cons, List.mem_append, List.mem_cons] at hm ⊢
    rcases hm with hm | hm | hm | hm
    · exact Or.inl (Or.inl hm)
    · exact Or.inl (Or.inr (Or.inl hm))
    · exact Or.inl (Or.inr (Or.inr hm))
    · exact Or.inr (Or.inr hm)
  have hby : b ≠ y.1 := fun e => hb (by simp [e])
  rw [c2 b hb1 hby]
  exact g3 b hb

/-! ### `merge` -/

/-- the order `merge` consults, on cells (node id, data) -/
def leC (cmp : Nat → Nat → Int) (a b : Cell) : Bool := decide (cmp a.2 b.2 ≤ 0)

theorem dataAt_some (h : Heap) (id : Nat) : dataAt h (some id) = (nd h id).data := rfl

/-- walking `next` from the first node of a segment to its last one -/
theorem walkNext_last {h : Heap} : ∀ {xs : List Cell} {b : Cell} {p n : Option Nat}, Seg h p (xs ++ [b]) n →
    walkNext h xs.length (nxt (xs ++ [b]) n) = some b.1
  | [], b, p, n, _ => rfl
  | a :: rest, b, p, n, hs => by
    rw [List.cons_append, Seg_cons] at hs
    simp only [List.cons_append, nxt_cons, List.length_cons, walkNext, nextOf, Option.bind_some, nd_of hs.1]
    exact walkNext_last hs.2

theorem walkNext_lastOr {h : Heap} {xs : List Cell} {p n : Option Nat} (hs : Seg h p xs n) (hne : xs ≠ []) :
    walkNext h (xs.length - 1) (nxt xs n) = lastOr xs none := by
  rcases eq_nil_or_snoc xs with e | ⟨ys, b, e⟩
  · exact absurd e hne
  · subst e
    simp only [List.length_append, List.length_cons, List.length_nil, Nat.add_sub_cancel, lastOr_concat]
    exact walkNext_last hs

theorem nxt_of_ne' {xs : List Cell} (h : xs ≠ []) (n m : Option Nat) : nxt xs n = nxt xs m := by
  cases xs with
  | nil => exact absurd rfl h
  | cons c r => rfl

theorem merge_nil_left (le : Cell → Cell → Bool) (R : List Cell) : List.merge [] R le = R := by simp [List.merge]

theorem move_perm (P A : List Cell) (a : Cell) (L : List Cell) (y : Cell) (R Q : List Cell) :
    (P ++ ((A ++ [y]) ++ ((a :: L) ++ (R ++ Q)))).Perm (P ++ (A ++ (a :: L ++ (y :: R ++ Q)))) := by
  refine List.Perm.append_left P ?_
  simp only [List.append_assoc, List.singleton_append, List.cons_append]
  refine List.Perm.append_left A ?_
  exact (List.perm_middle (l₁ := a :: L) (a := y) (l₂ := R ++ Q)).symm

variable {cmp : Nat → Nat → Int}

/-- **the loop of `merge` on the raw links**: standing with `A` already merged, `Lr`/`Rr` the rests of the two runs, inside the
whole chain `P ++ … ++ Q`, it ends with the two runs merged in place (stable: the left node goes first while
`cmp left right ≤ 0`), `*left` the first and `*right` the last node of the merged section; nodes keep their identity,
nothing outside the chain is written -/
theorem mergeLoop_spec (hc : Spec.LSeq.CmpPreorder cmp) (lSize rSize : Nat) (hle : lSize ≤ rSize) (hl0 : 0 < lSize) :
    ∀ (fuel : Nat) (P A Lr Rr Q : List Cell) (h : Heap) (left right : Option Nat) (lc rc : Nat) (ok : Bool),
      Seg h none (P ++ (A ++ (Lr ++ (Rr ++ Q)))) none → (idsOf (P ++ (A ++ (Lr ++ (Rr ++ Q))))).Nodup → Rr ≠ [] →
      lc + Lr.length = lSize → rc + Rr.length = rSize → A.length = lc + rc →
      left = nxt (A ++ (Lr ++ Rr)) none → (A = [] → right = nxt Rr none) → Lr.length + Rr.length ≤ fuel →
      Seg (mergeLoop cmp lSize rSize fuel A.length lc rc (nxt (Lr ++ Rr) none) (nxt Rr none) h left right ok).1 none
        (P ++ ((A ++ List.merge Lr Rr (leC cmp)) ++ Q)) none ∧
      (mergeLoop cmp lSize rSize fuel A.length lc rc (nxt (Lr ++ Rr) none) (nxt Rr none) h left right ok).2.1 =
        nxt (A ++ List.merge Lr Rr (leC cmp)) none ∧
      (mergeLoop cmp lSize rSize fuel A.length lc rc (nxt (Lr ++ Rr) none) (nxt Rr none) h left right ok).2.2.1 =
        lastOr (A ++ List.merge Lr Rr (leC cmp)) none ∧
      (∀ b, b ∉ idsOf (P ++ (A ++ (Lr ++ (Rr ++ Q)))) →
        (mergeLoop cmp lSize rSize fuel A.length lc rc (nxt (Lr ++ Rr) none) (nxt Rr none) h left right ok).1 b = h b) ∧
      (mergeLoop cmp lSize rSize fuel A.length lc rc (nxt (Lr ++ Rr) none) (nxt Rr none) h left right ok).2.2.2 = ok
  | 0, P, A, Lr, Rr, Q, h, left, right, lc, rc, ok, _, _, hR, _, _, _, _, _, hf => by
    cases Rr with
    | nil => exact absurd rfl hR
    | cons y R => simp at hf
  | fuel + 1, P, A, Lr, Rr, Q, h, left, right, lc, rc, ok, hs, hn, hR, hlc, hrc, hi, hleft, hright, hf => by
    obtain ⟨y, R, rfl⟩ : ∃ y R, Rr = y :: R := by
      cases Rr with
      | nil => exact absurd rfl hR
      | cons y R => exact ⟨y, R, rfl⟩
    -- the node of `y`
    have hsy : Seg h none ((P ++ (A ++ Lr)) ++ y :: (R ++ Q)) none := by simpa using hs
    obtain ⟨_, hy, _⟩ := Seg_split hsy
    have hyl : (h y.1).isSome = true := by rw [hy]; rfl
    cases Lr with
    | nil =>
      -- the left run is used up: `l_part == r_part`
      have hApos : A.length ≠ 0 := by simp at hlc; omega
      have hrefl : cmp y.2 y.2 ≤ 0 := by
        rcases hc.total y.2 y.2 with t | t <;> exact t
      have hlc' : lc = lSize := by simpa using hlc
      simp only [List.nil_append, nxt_cons, mergeLoop, dataAt_some, nd_of hy, hrefl, if_true, hApos, false_and, if_false, hlc',
        merge_nil_left, live_some, hyl, Bool.and_true]
      have hseg : Seg h (lastOr (P ++ A) none) (y :: R) (nxt Q none) := by
        have : Seg h none ((P ++ A) ++ ((y :: R) ++ Q)) none := by simpa using hs
        exact (Seg_append.1 (Seg_append.1 this).2).1
      have hw := walkNext_lastOr hseg (by simp)
      have hk : rSize - 1 - rc = (y :: R).length - 1 := by simp at hrc ⊢; omega
      refine ⟨by simpa using hs, ?_, ?_, fun _ _ => by first | trivial | rfl, by first | trivial | rfl⟩
      · rw [hleft]; simp
      · rw [hk]; simp only [nxt_cons] at hw; rw [hw, lastOr_append]
        exact (lastOr_of_ne (show y :: R ≠ [] by simp) _).symm
    | cons a L =>
      have hsa : Seg h none ((P ++ A) ++ a :: (L ++ (y :: R ++ Q))) none := by simpa using hs
      obtain ⟨_, ha, _⟩ := Seg_split hsa
      have hal : (h a.1).isSome = true := by rw [ha]; rfl
      have hnx : nxt (L ++ y :: (R ++ Q)) none = nxt (L ++ y :: R) none := by
        cases L <;> rfl
      simp only [List.cons_append, nxt_cons, mergeLoop, dataAt_some, nd_of ha, nd_of hy, nextOf, Option.bind_some,
        Option.getD_some, live_some, hal, hyl, Bool.and_true]
      by_cases hcmp : cmp a.2 y.2 ≤ 0
      · -- the left node is in place
        have hm : List.merge (a :: L) (y :: R) (leC cmp) = a :: List.merge L (y :: R) (leC cmp) := by
          simp [List.merge, leC, hcmp]
        simp only [hcmp, if_true, hm]
        by_cases h2 : A.length = 0 ∧ rSize + lSize = 2
        · have hA : A = [] := List.eq_nil_of_length_eq_zero h2.1
          subst hA
          have hL : L = [] := List.eq_nil_of_length_eq_zero (by simp at hlc hrc hi; omega)
          have hR' : R = [] := List.eq_nil_of_length_eq_zero (by simp at hlc hrc hi; omega)
          subst hL; subst hR'
          simp only [h2, and_self, if_true]
          refine ⟨by simpa [List.merge] using hs, by rw [hleft]; rfl, ?_, fun _ _ => by first | trivial | rfl, by first | trivial | rfl⟩
          rw [hright rfl]; simp [List.merge]
        · have hne : lc ≠ lSize := by simp at hlc; omega
          simp only [h2, if_false, hne]
          have hs' : Seg h none (P ++ ((A ++ [a]) ++ (L ++ (y :: R ++ Q)))) none := by simpa using hs
          have hn' : (idsOf (P ++ ((A ++ [a]) ++ (L ++ (y :: R ++ Q))))).Nodup := by simpa using hn
          have ih := mergeLoop_spec hc lSize rSize hle hl0 fuel P (A ++ [a]) L (y :: R) Q h left right (lc + 1) rc ok hs' hn'
            (by simp) (by simp at hlc ⊢; omega) hrc (by simp; omega) (by rw [hleft]; simp) (by simp) (by simp at hf ⊢; omega)
          simp only [List.length_append, List.length_cons, List.length_nil, nxt_cons] at ih
          rw [hnx]
          have e1 : A ++ [a] ++ List.merge L (y :: R) (leC cmp) = A ++ a :: List.merge L (y :: R) (leC cmp) := by simp
          rw [e1] at ih
          refine ⟨ih.1, ih.2.1, ih.2.2.1, fun b hb => ih.2.2.2.1 b (by simpa using hb), ih.2.2.2.2⟩
      · -- the right node is relinked in front of the left cursor
        have hm : List.merge (a :: L) (y :: R) (leC cmp) = y :: List.merge (a :: L) R (leC cmp) := by
          simp [List.merge, leC, hcmp]
        simp only [hcmp, if_false, hm]
        have hsm : Seg h none ((P ++ A) ++ (a :: L) ++ y :: (R ++ Q)) none := by simpa using hs
        have hnm : (idsOf ((P ++ A) ++ (a :: L) ++ y :: (R ++ Q))).Nodup := by simpa using hn
        obtain ⟨mv, mf⟩ := linkBehind_move hsm hnm
        have hframe : ∀ b, b ∉ idsOf (P ++ (A ++ (a :: L ++ (y :: R ++ Q)))) → (linkBehind h a.1 y.1) b = h b :=
          fun b hb => mf b (by simpa using hb)
        by_cases h2 : A.length = 0 ∧ rSize + lSize = 2
        · have hA : A = [] := List.eq_nil_of_length_eq_zero h2.1
          subst hA
          have hL : L = [] := List.eq_nil_of_length_eq_zero (by simp at hlc hrc hi; omega)
          have hR' : R = [] := List.eq_nil_of_length_eq_zero (by simp at hlc hrc hi; omega)
          subst hL; subst hR'
          simp only [h2, and_self, if_true]
          exact ⟨by simpa [List.merge] using mv, rfl, by simp [List.merge], hframe, by first | trivial | rfl⟩
        · simp only [h2, if_false]
          by_cases h3 : rc + 1 = rSize
          · have hR' : R = [] := List.eq_nil_of_length_eq_zero (by simp at hrc; omega)
            subst hR'
            have hAne : A ≠ [] := by
              intro e; subst e
              apply h2; simp at hi hlc hrc ⊢; omega
            have hm2 : List.merge (a :: L) [] (leC cmp) = a :: L := by simp [List.merge]
            simp only [h3, if_true, hm2]
            have hseg : Seg (linkBehind h a.1 y.1) (some y.1) (a :: L) (nxt Q none) := by
              have : Seg (linkBehind h a.1 y.1) none ((P ++ A ++ [y]) ++ ((a :: L) ++ Q)) none := by simpa using mv
              have := (Seg_append.1 (Seg_append.1 this).2).1
              rw [lastOr_concat] at this
              exact this
            have hw := walkNext_lastOr hseg (by simp)
            have hk : lSize - 1 - lc = (a :: L).length - 1 := by simp at hlc ⊢; omega
            refine ⟨by simpa using mv, ?_, ?_, hframe, by first | trivial | rfl⟩
            · rw [hleft]
              cases A with
              | nil => exact absurd rfl hAne
              | cons c r => rfl
            · rw [hk]; simp only [nxt_cons] at hw; rw [hw]
              have e : A ++ y :: a :: L = (A ++ [y]) ++ (a :: L) := by simp
              rw [e, lastOr_append]
              exact (lastOr_of_ne (show a :: L ≠ [] by simp) _).symm
          · have hRne : R ≠ [] := by
              intro e; subst e; simp at hrc; omega
            simp only [h3, if_false]
            have hnxR : nxt (R ++ Q) none = nxt R none := by
              cases R with
              | nil => exact absurd rfl hRne
              | cons c r => rfl
            rw [hnxR]
            have hs' : Seg (linkBehind h a.1 y.1) none (P ++ ((A ++ [y]) ++ ((a :: L) ++ (R ++ Q)))) none := by simpa using mv
            have hn' : (idsOf (P ++ ((A ++ [y]) ++ ((a :: L) ++ (R ++ Q))))).Nodup := by
              exact (((move_perm P A a L y R Q).map (fun c : Cell => c.1)).nodup_iff).2 hn
            have ih := mergeLoop_spec hc lSize rSize hle hl0 fuel P (A ++ [y]) (a :: L) R Q (linkBehind h a.1 y.1)
              (if A.length = 0 then some y.1 else left) right lc (rc + 1) ok hs' hn' hRne hlc (by simp at hrc ⊢; omega) (by simp; omega)
              (by
                by_cases hA0 : A.length = 0
                · have hA : A = [] := List.eq_nil_of_length_eq_zero hA0
                  subst hA; simp
                · simp only [hA0, if_false, hleft]
                  cases A with
                  | nil => exact absurd rfl hA0
                  | cons c r => rfl)
              (by simp) (by simp at hf ⊢; omega)
            simp only [List.length_append, List.length_cons, List.length_nil, List.cons_append, nxt_cons] at ih
            have e1 : A ++ [y] ++ List.merge (a :: L) R (leC cmp) = A ++ y :: List.merge (a :: L) R (leC cmp) := by simp
            rw [e1] at ih
            refine ⟨ih.1, ih.2.1, ih.2.2.1, fun b hb => ?_, ih.2.2.2.2⟩
            rw [ih.2.2.2.1 b (fun hm => hb ((((move_perm P A a L y R Q).map (fun c : Cell => c.1)).mem_iff).1 hm))]
            exact hframe b hb

/-! ### `split` -/

/-- the merge sort of `split`/`merge` on cells: which node ends up where -/
def msortC (cmp : Nat → Nat → Int) : Nat → List Cell → List Cell
  | 0, xs => xs
  | fuel + 1, xs =>
    if xs.length < 2 then xs else
    List.merge (msortC cmp fuel (xs.take (xs.length / 2))) (msortC cmp fuel (xs.drop (xs.length / 2))) (leC cmp)

theorem msortC_perm : ∀ (fuel : Nat) (xs : List Cell), (msortC cmp fuel xs).Perm xs
  | 0, xs => by simp [msortC]
  | fuel + 1, xs => by
    simp only [msortC]
    split
    · exact List.Perm.refl _
    · refine (List.merge_perm_append _).trans ?_
      refine ((msortC_perm fuel _).append (msortC_perm fuel _)).trans ?_
      rw [List.take_append_drop]

theorem msortC_length (fuel : Nat) (xs : List Cell) : (msortC cmp fuel xs).length = xs.length :=
  (msortC_perm fuel xs).length_eq

theorem msortC_short (fuel : Nat) (xs : List Cell) (h : xs.length < 2) : msortC cmp fuel xs = xs := by
  cases fuel <;> simp [msortC, h]

theorem dataOf_merge (cmp : Nat → Nat → Int) : ∀ (xs ys : List Cell),
    dataOf (List.merge xs ys (leC cmp)) = List.merge (dataOf xs) (dataOf ys) (fun a b => decide (cmp a b ≤ 0))
  | [], ys => by simp [List.merge]
  | x :: xs, [] => by simp [List.merge]
  | x :: xs, y :: ys => by
    by_cases hxy : cmp x.2 y.2 ≤ 0
    · have e1 : List.merge (x :: xs) (y :: ys) (leC cmp) = x :: List.merge xs (y :: ys) (leC cmp) := by
        simp [List.merge, leC, hxy]
      rw [e1, dataOf_cons, dataOf_merge cmp xs (y :: ys)]
      simp [List.merge, hxy]
    · have e1 : List.merge (x :: xs) (y :: ys) (leC cmp) = y :: List.merge (x :: xs) ys (leC cmp) := by
        simp [List.merge, leC, hxy]
      rw [e1, dataOf_cons, dataOf_merge cmp (x :: xs) ys]
      simp [List.merge, hxy]

theorem dataOf_take' (cs : List Cell) (i : Nat) : dataOf (cs.take i) = (dataOf cs).take i := by simp [dataOf, List.map_take]
theorem dataOf_drop' (cs : List Cell) (i : Nat) : dataOf (cs.drop i) = (dataOf cs).drop i := by simp [dataOf, List.map_drop]

/-- the data of the nodes in their new order is the list the sequence-level merge sort computes -/
theorem dataOf_msortC : ∀ (fuel : Nat) (xs : List Cell), dataOf (msortC cmp fuel xs) = DList.msort cmp fuel (dataOf xs)
  | 0, xs => rfl
  | fuel + 1, xs => by
    simp only [msortC, DList.msort, dataOf_length]
    split
    · rfl
    · rw [dataOf_merge, dataOf_msortC fuel, dataOf_msortC fuel, dataOf_take', dataOf_drop']

theorem walkNext_append {h : Heap} : ∀ {xs ys : List Cell} {p n : Option Nat}, Seg h p (xs ++ ys) n →
    walkNext h xs.length (nxt (xs ++ ys) n) = nxt ys n
  | [], ys, p, n, _ => rfl
  | a :: rest, ys, p, n, hs => by
    rw [List.cons_append, Seg_cons] at hs
    simp only [List.cons_append, nxt_cons, List.length_cons, walkNext, nextOf, Option.bind_some, nd_of hs.1]
    exact walkNext_append hs.2

theorem ids_perm_mem {xs ys : List Cell} (hp : xs.Perm ys) (b : Nat) : b ∈ idsOf xs ↔ b ∈ idsOf ys :=
  (hp.map (fun c : Cell => c.1)).mem_iff
theorem ids_perm_nodup {xs ys : List Cell} (hp : xs.Perm ys) : (idsOf xs).Nodup ↔ (idsOf ys).Nodup :=
  (hp.map (fun c : Cell => c.1)).nodup_iff

/-- **`split(list, b, size, cmp)` on the raw links**: the `size` nodes of the run `seg` (inside the whole chain
`P ++ seg ++ Q`) are relinked in the order of the merge sort; the first node of the sorted run is returned and — when
something was merged — assigned to `list->head`, the last one to `list->tail`; nothing outside the chain is written -/
theorem split_spec (hc : Spec.LSeq.CmpPreorder cmp) : ∀ (fuel : Nat) (h : Heap) (l : Hdr) (P seg Q : List Cell) (size : Nat) (ok : Bool),
    Seg h none (P ++ (seg ++ Q)) none → (idsOf (P ++ (seg ++ Q))).Nodup → seg.length = size → 1 ≤ size → size ≤ fuel →
    Seg (split cmp fuel h l (nxt seg none) size ok).1 none (P ++ (msortC cmp fuel seg ++ Q)) none ∧
    (split cmp fuel h l (nxt seg none) size ok).2.2.1 = nxt (msortC cmp fuel seg) none ∧
    (split cmp fuel h l (nxt seg none) size ok).2.1.size = l.size ∧ (split cmp fuel h l (nxt seg none) size ok).2.1.triple = l.triple ∧
    (2 ≤ size → (split cmp fuel h l (nxt seg none) size ok).2.1.head = nxt (msortC cmp fuel seg) none ∧
      (split cmp fuel h l (nxt seg none) size ok).2.1.tail = lastOr (msortC cmp fuel seg) none) ∧
    (size < 2 → (split cmp fuel h l (nxt seg none) size ok).2.1 = l) ∧
    (∀ b, b ∉ idsOf (P ++ (seg ++ Q)) → (split cmp fuel h l (nxt seg none) size ok).1 b = h b) ∧
    (split cmp fuel h l (nxt seg none) size ok).2.2.2 = ok
  | 0, h, l, P, seg, Q, size, ok, _, _, _, h1, hf => by omega
  | fuel + 1, h, l, P, seg, Q, size, ok, hs, hn, hsz, h1, hf => by
    by_cases h2 : size < 2
    · simp only [split, h2, if_true]
      rw [msortC_short _ _ (by omega)]
      refine ⟨hs, ?_, ?_, ?_, fun _ => by omega, ?_, ?_, ?_⟩ <;>
        first | trivial | rfl | (intro _; first | trivial | rfl) | (intro _ _; first | trivial | rfl)
    · have hl1 : 1 ≤ size / 2 := by omega
      have hr1 : 1 ≤ size / 2 + size % 2 := by omega
      have hsum : size / 2 + (size / 2 + size % 2) = size := by omega
      -- the two runs
      have hseg : seg = seg.take (size / 2) ++ seg.drop (size / 2) := (List.take_append_drop _ _).symm
      have hL0 : (seg.take (size / 2)).length = size / 2 := by rw [List.length_take]; omega
      have hR0 : (seg.drop (size / 2)).length = size / 2 + size % 2 := by rw [List.length_drop]; omega
      have hL0ne : seg.take (size / 2) ≠ [] := fun e => by rw [e] at hL0; simp at hL0; omega
      have hR0ne : seg.drop (size / 2) ≠ [] := fun e => by rw [e] at hR0; simp at hR0; omega
      have hb : nxt seg none = nxt (seg.take (size / 2)) none := by
        conv => lhs; rw [hseg]
        rw [nxt_append]; exact nxt_of_ne hL0ne _
      -- `center`
      have hcenter : walkNext h (size / 2) (nxt seg none) = nxt (seg.drop (size / 2)) none := by
        have hsg : Seg h (lastOr P none) (seg.take (size / 2) ++ seg.drop (size / 2)) (nxt Q none) := by
          rw [← hseg]; exact (Seg_append.1 (Seg_append.1 hs).2).1
        have := walkNext_append hsg
        rw [hL0, ← hseg] at this
        rw [nxt_of_ne (by rw [← hsz] at h2; intro e; rw [e] at h2; simp at h2) (nxt Q none)] at this
        rw [this]; exact nxt_of_ne hR0ne _
      simp only [split, h2, if_false, hcenter]
      rw [hb]
      -- left run
      have hs1 : Seg h none (P ++ (seg.take (size / 2) ++ (seg.drop (size / 2) ++ Q))) none := by
        rw [← List.append_assoc (seg.take _), ← hseg]; exact hs
      have hn1 : (idsOf (P ++ (seg.take (size / 2) ++ (seg.drop (size / 2) ++ Q)))).Nodup := by
        rw [← List.append_assoc (seg.take _), ← hseg]; exact hn
      obtain ⟨a1, a2, a3, a4, _, _, a7, a8⟩ := split_spec hc fuel h l P (seg.take (size / 2)) (seg.drop (size / 2) ++ Q) (size / 2) ok
        hs1 hn1 hL0 hl1 (by omega)
      -- right run
      have hp1 : (P ++ (msortC cmp fuel (seg.take (size / 2)) ++ (seg.drop (size / 2) ++ Q))).Perm (P ++ (seg ++ Q)) := by
        refine List.Perm.append_left P ?_
        rw [← List.append_assoc]
        refine List.Perm.append_right Q ?_
        conv => rhs; rw [hseg]
        exact (msortC_perm fuel _).append_right _
      have hs2 : Seg (split cmp fuel h l (nxt (seg.take (size / 2)) none) (size / 2) ok).1 none
          ((P ++ msortC cmp fuel (seg.take (size / 2))) ++ (seg.drop (size / 2) ++ Q)) none := by simpa using a1
      have hn2 : (idsOf ((P ++ msortC cmp fuel (seg.take (size / 2))) ++ (seg.drop (size / 2) ++ Q))).Nodup := by
        rw [List.append_assoc]; exact (ids_perm_nodup hp1).2 hn
      obtain ⟨b1, b2, b3, b4, _, _, b7, b8⟩ := split_spec hc fuel (split cmp fuel h l (nxt (seg.take (size / 2)) none) (size / 2) ok).1
        (split cmp fuel h l (nxt (seg.take (size / 2)) none) (size / 2) ok).2.1 (P ++ msortC cmp fuel (seg.take (size / 2)))
        (seg.drop (size / 2)) Q (size / 2 + size % 2) (split cmp fuel h l (nxt (seg.take (size / 2)) none) (size / 2) ok).2.2.2 hs2 hn2 hR0 hr1 (by omega)
      -- merge
      have hp2 : (P ++ (msortC cmp fuel (seg.take (size / 2)) ++ (msortC cmp fuel (seg.drop (size / 2)) ++ Q))).Perm (P ++ (seg ++ Q)) := by
        refine List.Perm.trans ?_ hp1
        refine List.Perm.append_left P (List.Perm.append_left _ ?_)
        exact (msortC_perm fuel _).append_right _
      have hsL : (msortC cmp fuel (seg.take (size / 2))).length = size / 2 := by rw [msortC_length, hL0]
      have hsR : (msortC cmp fuel (seg.drop (size / 2))).length = size / 2 + size % 2 := by rw [msortC_length, hR0]
      have hsLne : msortC cmp fuel (seg.take (size / 2)) ≠ [] := fun e => by rw [e] at hsL; simp at hsL; omega
      have hsRne : msortC cmp fuel (seg.drop (size / 2)) ≠ [] := fun e => by rw [e] at hsR; simp at hsR; omega
      have hs3 : Seg (split cmp fuel (split cmp fuel h l (nxt (seg.take (size / 2)) none) (size / 2) ok).1
            (split cmp fuel h l (nxt (seg.take (size / 2)) none) (size / 2) ok).2.1 (nxt (seg.drop (size / 2)) none) (size / 2 + size % 2)
            (split cmp fuel h l (nxt (seg.take (size / 2)) none) (size / 2) ok).2.2.2).1 none
          (P ++ ([] ++ (msortC cmp fuel (seg.take (size / 2)) ++ (msortC cmp fuel (seg.drop (size / 2)) ++ Q)))) none := by
        simpa using b1
      have hn3 : (idsOf (P ++ ([] ++ (msortC cmp fuel (seg.take (size / 2)) ++ (msortC cmp fuel (seg.drop (size / 2)) ++ Q))))).Nodup := by
        rw [List.nil_append]; exact (ids_perm_nodup hp2).2 hn
      have hlp : nxt (msortC cmp fuel (seg.take (size / 2)) ++ msortC cmp fuel (seg.drop (size / 2))) none =
          nxt (msortC cmp fuel (seg.take (size / 2))) none := by rw [nxt_append]; exact nxt_of_ne hsLne _
      obtain ⟨c1, c2, c3, c4, c5⟩ := mergeLoop_spec hc (size / 2) (size / 2 + size % 2) (by omega) hl1
        (size / 2 + size % 2 + size / 2) P [] (msortC cmp fuel (seg.take (size / 2))) (msortC cmp fuel (seg.drop (size / 2))) Q _
        (nxt (msortC cmp fuel (seg.take (size / 2))) none) (nxt (msortC cmp fuel (seg.drop (size / 2))) none) 0 0 _
        hs3 hn3 hsRne (by omega) (by omega) rfl (by rw [List.nil_append, hlp]) (fun _ => rfl) (by omega)
      rw [hlp] at c1 c2 c3 c4 c5
      simp only [List.length_nil, List.nil_append] at c1 c2 c3 c4 c5
      rw [a2, b2]
      have hms : msortC cmp (fuel + 1) seg =
          List.merge (msortC cmp fuel (seg.take (size / 2))) (msortC cmp fuel (seg.drop (size / 2))) (leC cmp) := by
        simp only [msortC, hsz, h2, if_false]
      rw [hms]
      refine ⟨c1, c2, by rw [b3, a3], by rw [b4, a4], fun _ => ⟨c2, c3⟩, fun hlt => by first | exact absurd hlt h2 | exact hlt.elim,
        fun b hb' => ?_, by rw [c5, b8, a8]⟩
      rw [c4 b (fun hm => hb' ((ids_perm_mem hp2 b).1 (by simpa using hm)))]
      rw [b7 b (fun hm => hb' ((ids_perm_mem hp1 b).1 (by simpa using hm)))]
      exact a7 b (fun hm => hb' (by rw [← List.append_assoc (seg.take _), ← hseg] at hm; exact hm))

/-- **`cc_list_sort_in_place` on the raw links**: the same nodes, relinked in the order of the merge sort; the list is
represented (hence well-formed: `next` and `prev` agree, `head`/`tail` are the ends) again -/
theorem sortInPlace_spec (hc : Spec.LSeq.CmpPreorder cmp) (s : St) (l : Hdr) (cs : List Cell) (m : Mem) (r : Repr s.heap l cs) :
    Repr (sortInPlace cmp s l m).1.heap (sortInPlace cmp s l m).2.1 (msortC cmp cs.length cs) ∧
    (sortInPlace cmp s l m).2.1.triple = l.triple ∧ (sortInPlace cmp s l m).1.fresh = s.fresh ∧
    (∀ b, b ∉ idsOf cs → (sortInPlace cmp s l m).1.heap b = s.heap b) ∧
    (sortInPlace cmp s l m).2.2 = m := by
  unfold sortInPlace
  rw [r.size, r.head]
  by_cases h2 : cs.length < 2
  · have e : split cmp cs.length s.heap l (nxt cs none) cs.length true = (s.heap, l, nxt cs none, true) := by
      cases hl : cs.length with
      | zero => rfl
      | succ k => simp only [split]; rw [if_pos (by omega)]
    rw [e, msortC_short _ _ h2]
    exact ⟨r, rfl, rfl, fun _ _ => rfl, rfl⟩
  · have hs0 : Seg s.heap none ([] ++ (cs ++ [])) none := by simpa using r.seg
    have hn0 : (idsOf ([] ++ (cs ++ []))).Nodup := by simpa using r.nodup
    obtain ⟨a1, _, a3, a4, a5, _, a7, a8⟩ := split_spec hc cs.length s.heap l [] cs [] cs.length true hs0 hn0 rfl (by omega) (Nat.le_refl _)
    obtain ⟨hh, ht⟩ := a5 (by omega)
    refine ⟨⟨(ids_perm_nodup (msortC_perm _ _)).2 r.nodup, by simpa using a1, by rw [a3, r.size, msortC_length], hh, ht⟩, a4, rfl,
      fun b hb => a7 b (by simpa using hb), by show m.check _ = m; rw [a8]; rfl⟩

/-- the content along `next` after the in-place sort is what the sequence-level models compute -/
theorem sortInPlace_fwd (hc : Spec.LSeq.CmpPreorder cmp) (s : St) (l : Hdr) (cs : List Cell) (r : Repr s.heap l cs) (m : Mem) :
    fwd (sortInPlace cmp s l m).1.heap (sortInPlace cmp s l m).2.1 =
      (DList.sortInPlaceC cmp (Chain.ofList l.triple (dataOf cs)) m).1.abs := by
  rw [(sortInPlace_spec hc s l cs m r).1.fwd, DList.sortInPlaceC_eq hc _ (Chain.ofList_inv _) m, DList.sortInPlace_ofList,
    Chain.ofList_abs, dataOf_msortC, dataOf_length]

/-! ### `cc_list_sort`: write-back into the existing nodes -/

/-- the same nodes carrying the data `ws` -/
def withData (cs : List Cell) (ws : List Nat) : List Cell := List.zipWith (fun c w => (c.1, w)) cs ws

theorem idsOf_withData : ∀ (cs : List Cell) (ws : List Nat), cs.length ≤ ws.length → idsOf (withData cs ws) = idsOf cs
  | [], _, _ => by simp [withData]
  | c :: cs, [], h => by simp at h
  | c :: cs, w :: ws, h => by
    simp only [withData, List.zipWith_cons_cons, idsOf_cons]
    exact congrArg _ (idsOf_withData cs ws (by simpa using h))

theorem dataOf_withData : ∀ (cs : List Cell) (ws : List Nat), dataOf (withData cs ws) = ws.take cs.length
  | [], _ => by simp [withData]
  | c :: cs, [] => by simp [withData]
  | c :: cs, w :: ws => by
    simp only [withData, List.zipWith_cons_cons, dataOf_cons, List.length_cons, List.take_succ_cons]
    exact congrArg _ (dataOf_withData cs ws)

theorem nxt_withData (cs : List Cell) (ws : List Nat) (n : Option Nat) (h : cs.length ≤ ws.length) :
    nxt (withData cs ws) n = nxt cs n := by
  cases cs with
  | nil => simp [withData]
  | cons c cs =>
    cases ws with
    | nil => simp at h
    | cons w ws => rfl

theorem drop_eq_getD_cons (vals : List Nat) (i : Nat) (h : i < vals.length) : vals.drop i = vals.getD i 0 :: vals.drop (i + 1) := by
  rw [List.drop_eq_getElem_cons h]; simp [List.getD, h]

theorem setData_eq {h : Heap} {id : Nat} {x : PNode} (e : h id = some x) (v : Nat) :
    (setData h id v) id = some { x with data := v } := by
  rw [setData, upd_eq, e]; rfl

/-- the write-back loop over a segment: the nodes keep their links, node `j` of the segment receives `vals[i + j]` -/
theorem writeBack_seg (vals : List Nat) : ∀ (cs : List Cell) (i : Nat) (h : Heap) (p n : Option Nat),
    Seg h p cs n → (idsOf cs).Nodup → i + cs.length ≤ vals.length →
    Seg (writeBack vals cs.length i (nxt cs n) h) p (withData cs (vals.drop i)) n ∧
    (∀ b, b ∉ idsOf cs → (writeBack vals cs.length i (nxt cs n) h) b = h b)
  | [], i, h, p, n, _, _, _ => by simp [writeBack, withData]
  | a :: rest, i, h, p, n, hs, hn, hl => by
    rw [Seg_cons] at hs
    have hnr : a.1 ∉ idsOf rest ∧ (idsOf rest).Nodup := by simpa [idsOf_cons, List.nodup_cons] using hn
    have hi : i < vals.length := by simp at hl; omega
    have h1 := setData_eq hs.1 (vals.getD i 0)
    simp only [List.length_cons, nxt_cons, writeBack, nd_of h1]
    have hs1 : Seg (setData h a.1 (vals.getD i 0)) (some a.1) rest n := Seg_upd_notin _ _ hnr.1 hs.2
    obtain ⟨i1, i2⟩ := writeBack_seg vals rest (i + 1) _ (some a.1) n hs1 hnr.2 (by simp at hl ⊢; omega)
    rw [drop_eq_getD_cons vals i hi]
    have hlen : rest.length ≤ (vals.drop (i + 1)).length := by simp at hl ⊢; omega
    refine ⟨?_, fun b hb => ?_⟩
    · simp only [withData, List.zipWith_cons_cons]
      rw [Seg_cons]
      refine ⟨?_, i1⟩
      rw [i2 a.1 hnr.1, h1]
      show some _ = some _
      congr 2
      exact (nxt_withData rest _ n hlen).symm
    · have hb' : b ∉ idsOf rest ∧ b ≠ a.1 := by
        simp only [idsOf_cons, List.mem_cons, not_or] at hb; exact ⟨hb.2, hb.1⟩
      rw [i2 b hb'.1, setData, upd_ne _ _ _ _ hb'.2]

/-- **`cc_list_sort` on the raw links**: the nodes and their links are those of before (same ids in the same order), node `j`
carries element `j` of the sorted array; ledger: one block taken and released -/
theorem sort_spec (sortFn : List Nat → List Nat) (hlen : ∀ xs, (sortFn xs).length = xs.length) (s : St) (l : Hdr)
    (cs : List Cell) (m : Mem) (r : Repr s.heap l cs) :
    (cs = [] → sort sortFn s l m = (.errInvalidRange, s, l, m)) ∧
    (cs ≠ [] → (m.allocT l.triple).1 = false → sort sortFn s l m = (.errAlloc, s, l, (m.allocT l.triple).2)) ∧
    (cs ≠ [] → (m.allocT l.triple).1 = true →
      (sort sortFn s l m).1 = .ok ∧ (sort sortFn s l m).2.2.1 = l ∧ (sort sortFn s l m).2.2.2 = (m.allocT l.triple).2.freeT l.triple ∧
      (sort sortFn s l m).2.1.fresh = s.fresh ∧
      Repr (sort sortFn s l m).2.1.heap l (withData cs (sortFn (dataOf cs))) ∧
      idsOf (withData cs (sortFn (dataOf cs))) = idsOf cs ∧ dataOf (withData cs (sortFn (dataOf cs))) = sortFn (dataOf cs) ∧
      (∀ b, b ∉ idsOf cs → (sort sortFn s l m).2.1.heap b = s.heap b)) := by
  unfold sort
  refine ⟨fun e => by subst e; simp [r.size], fun hne ha => ?_, fun hne ha => ?_⟩
  · have hsz : l.size ≠ 0 := by rw [r.size]; exact fun e => hne (List.eq_nil_of_length_eq_zero e)
    simp [hsz, ha]
  · have hsz : l.size ≠ 0 := by rw [r.size]; exact fun e => hne (List.eq_nil_of_length_eq_zero e)
    have harr : dataNext s.heap l.size l.head = dataOf cs := by rw [r.size, r.head]; exact dataNext_seg r.seg
    simp only [hsz, if_false, ha, Bool.not_true, Bool.false_eq_true, harr]
    have hl : 0 + cs.length ≤ (sortFn (dataOf cs)).length := by rw [hlen, dataOf_length]; omega
    obtain ⟨w1, w2⟩ := writeBack_seg (sortFn (dataOf cs)) cs 0 s.heap none none r.seg r.nodup hl
    rw [List.drop_zero] at w1
    have hids := idsOf_withData cs (sortFn (dataOf cs)) (by rw [hlen, dataOf_length]; exact Nat.le_refl _)
    have hdat : dataOf (withData cs (sortFn (dataOf cs))) = sortFn (dataOf cs) := by
      rw [dataOf_withData, List.take_of_length_le (by rw [hlen, dataOf_length]; exact Nat.le_refl _)]
    rw [r.size, r.head]
    refine ⟨by first | trivial | rfl, by first | trivial | rfl, by first | trivial | rfl, by first | trivial | rfl,
      ⟨by rw [hids]; exact r.nodup, w1, ?_, ?_, ?_⟩, hids, hdat, w2⟩
    · rw [r.size]; simp [withData, hlen]
    · rw [r.head, nxt_withData cs _ none (by rw [hlen, dataOf_length]; exact Nat.le_refl _)]
    · rw [r.tail, lastOr_eq_getLast?, lastOr_eq_getLast?, hids]

end CC.PList
