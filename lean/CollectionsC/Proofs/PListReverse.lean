import CollectionsC.Proofs.PListBulk
/-! Pointer-level model of `cc_list.c`, part 4: `swap`, `swap_adjacent` and the loop of `cc_list_reverse`. -/
namespace CC.PList
open CC

/-- the two heaps agree on the nodes `ids` -/
def Same (ids : List Nat) (h h' : Heap) : Prop := ∀ b, b ∈ ids → h' b = h b
theorem Same.rfl' (ids : List Nat) (h : Heap) : Same ids h h := fun _ _ => rfl
theorem Same.trans {ids : List Nat} {h1 h2 h3 : Heap} (a : Same ids h1 h2) (b : Same ids h2 h3) : Same ids h1 h3 :=
  fun x hx => (b x hx).trans (a x hx)
theorem same_setNext {ids : List Nat} (h : Heap) (id : Nat) (v : Option Nat) (hn : id ∉ ids) : Same ids h (setNext h id v) :=
  fun b hb => upd_ne _ _ _ _ (fun e => hn (e ▸ hb))
theorem same_setPrev {ids : List Nat} (h : Heap) (id : Nat) (v : Option Nat) (hn : id ∉ ids) : Same ids h (setPrev h id v) :=
  fun b hb => upd_ne _ _ _ _ (fun e => hn (e ▸ hb))
theorem same_optSetNext {ids : List Nat} (h : Heap) (o : Option Nat) (v : Option Nat) (hn : ∀ x, o = some x → x ∉ ids) :
    Same ids h (optSetNext h o v) := by
  cases o with
  | none => exact Same.rfl' _ _
  | some x => exact same_setNext h x v (hn x rfl)
theorem same_optSetPrev {ids : List Nat} (h : Heap) (o : Option Nat) (v : Option Nat) (hn : ∀ x, o = some x → x ∉ ids) :
    Same ids h (optSetPrev h o v) := by
  cases o with
  | none => exact Same.rfl' _ _
  | some x => exact same_setPrev h x v (hn x rfl)
theorem Same.setNext {ids : List Nat} {h g : Heap} {id : Nat} {v : Option Nat} (a : Same ids h g) (hn : id ∉ ids) :
    Same ids h (setNext g id v) := a.trans (same_setNext g id v hn)
theorem Same.setPrev {ids : List Nat} {h g : Heap} {id : Nat} {v : Option Nat} (a : Same ids h g) (hn : id ∉ ids) :
    Same ids h (setPrev g id v) := a.trans (same_setPrev g id v hn)
theorem Same.optSetNext {ids : List Nat} {h g : Heap} {o v : Option Nat} (a : Same ids h g) (hn : ∀ x, o = some x → x ∉ ids) :
    Same ids h (optSetNext g o v) := a.trans (same_optSetNext g o v hn)
theorem Same.optSetPrev {ids : List Nat} {h g : Heap} {o v : Option Nat} (a : Same ids h g) (hn : ∀ x, o = some x → x ∉ ids) :
    Same ids h (optSetPrev g o v) := a.trans (same_optSetPrev g o v hn)
theorem Seg_same {h h' : Heap} {cs : List Cell} {p n : Option Nat} (hs : Seg h p cs n) (e : Same (idsOf cs) h h') : Seg h' p cs n :=
  Seg_frame e hs

theorem Seg_optSetNext_last {h : Heap} {xs : List Cell} {p n : Option Nat} (v : Option Nat) (hs : Seg h p xs n)
    (hn : (idsOf xs).Nodup) : Seg (optSetNext h (lastOr xs none) v) p xs (if xs = [] then n else v) := by
  rcases eq_nil_or_snoc xs with e | ⟨ys, b, e⟩
  · subst e; trivial
  · subst e
    have : ys ++ [b] ≠ [] := by simp
    simp only [this, if_false, lastOr_concat, optSetNext]
    exact Seg_setNext_of_last v (by simp) hs hn
theorem Seg_optSetPrev_first {h : Heap} {xs : List Cell} {p n : Option Nat} (v : Option Nat) (hs : Seg h p xs n)
    (hn : (idsOf xs).Nodup) : Seg (optSetPrev h (nxt xs none) v) (if xs = [] then p else v) xs n := by
  cases xs with
  | nil => trivial
  | cons c r =>
    simp only [reduceCtorEq, if_false, nxt_cons, optSetPrev]
    exact Seg_setPrev_of_first v rfl hs hn

theorem Seg_nil_any (h : Heap) (p n : Option Nat) : Seg h p [] n := trivial

/-- a segment that starts at an arbitrary `prev`: the same segment with another value recorded there, when the segment is empty -/
theorem Seg_ends {h : Heap} {cs : List Cell} {p p' n n' : Option Nat} (hs : Seg h p cs n) (hp : cs = [] ∨ p = p') (hn : cs = [] ∨ n = n') :
    Seg h p' cs n' := by
  cases cs with
  | nil => trivial
  | cons c r =>
    rcases hp with e | e
    · cases e
    · rcases hn with e2 | e2
      · cases e2
      · subst e; subst e2; exact hs


theorem optSetNext_ne (h : Heap) (o v : Option Nat) (b : Nat) (hne : ∀ x, o = some x → b ≠ x) : (optSetNext h o v) b = h b := by
  cases o with
  | none => rfl
  | some x => exact upd_ne _ _ _ _ (hne x rfl)
theorem optSetPrev_ne (h : Heap) (o v : Option Nat) (b : Nat) (hne : ∀ x, o = some x → b ≠ x) : (optSetPrev h o v) b = h b := by
  cases o with
  | none => rfl
  | some x => exact upd_ne _ _ _ _ (hne x rfl)

@[simp] theorem optSetNext_some (h : Heap) (x : Nat) (v : Option Nat) : optSetNext h (some x) v = setNext h x v := rfl
@[simp] theorem optSetPrev_some (h : Heap) (x : Nat) (v : Option Nat) : optSetPrev h (some x) v = setPrev h x v := rfl

/-- distinctness facts of a chain `X ++ l :: (M ++ r :: Y)` -/
structure Dist (X M Y : List Nat) (l r : Nat) : Prop where
  nX : X.Nodup
  nM : M.Nodup
  nY : Y.Nodup
  lr : l ≠ r
  lX : l ∉ X
  lM : l ∉ M
  lY : l ∉ Y
  rX : r ∉ X
  rM : r ∉ M
  rY : r ∉ Y
  XM : ∀ x, x ∈ X → x ∉ M
  XY : ∀ x, x ∈ X → x ∉ Y
  MY : ∀ x, x ∈ M → x ∉ Y

theorem dist_of_nodup {X M Y : List Nat} {l r : Nat} (h : (X ++ l :: (M ++ r :: Y)).Nodup) : Dist X M Y l r := by
  rw [List.nodup_append] at h
  obtain ⟨nX, h2, hx⟩ := h
  rw [List.nodup_cons] at h2
  obtain ⟨hl, h3⟩ := h2
  rw [List.nodup_append] at h3
  obtain ⟨nM, h4, hm⟩ := h3
  rw [List.nodup_cons] at h4
  obtain ⟨hr, nY⟩ := h4
  simp only [List.mem_append, List.mem_cons, not_or] at hl
  refine ⟨nX, nM, nY, hl.2.1, fun hm' => hx _ hm' _ List.mem_cons_self rfl, hl.1, hl.2.2,
    fun hm' => hx _ hm' r (by simp) rfl, fun hm' => hm _ hm' r List.mem_cons_self rfl, hr,
    fun x hx' hm' => hx x hx' x (by simp [hm']) rfl, fun x hx' hy => hx x hx' x (by simp [hy]) rfl,
    fun x hx' hy => hm x hx' x (List.mem_cons_of_mem _ hy) rfl⟩

/-- **`swap(n1, n2)`** of two nodes that are not neighbours -/
theorem swap_far {h : Heap} {X M Y : List Cell} {lc rc : Cell} (hM : M ≠ [])
    (hs : Seg h none (X ++ lc :: (M ++ rc :: Y)) none) (hn : (idsOf (X ++ lc :: (M ++ rc :: Y))).Nodup) :
    Seg (swap h lc.1 rc.1) none (X ++ rc :: (M ++ lc :: Y)) none ∧
    (∀ b, b ∉ idsOf (X ++ lc :: (M ++ rc :: Y)) → (swap h lc.1 rc.1) b = h b) := by
  have D : Dist (idsOf X) (idsOf M) (idsOf Y) lc.1 rc.1 := dist_of_nodup (by simpa [idsOf] using hn)
  obtain ⟨sX, hl, sRest⟩ := Seg_split hs
  obtain ⟨sM, hr, sY⟩ := Seg_split sRest
  obtain ⟨m1, hm1, hm1', m1M⟩ := nxt_some_of_ne hM (nxt (rc :: Y) none)
  obtain ⟨m2, hm2, hm2', m2M⟩ := lastOr_some_of_ne hM (some lc.1)
  rw [nxt_append, hm1] at hl
  rw [hm2] at hr
  have xlX : ∀ x, lastOr X none = some x → x ∈ idsOf X := fun x hx => lastOr_mem hx
  have yY : ∀ x, nxt Y none = some x → x ∈ idsOf Y := fun x hx => nxt_mem hx
  have c1 : ¬ ((nd h lc.1).next = some rc.1 ∨ (nd h rc.1).next = some lc.1) := by
    rw [nd_of hl, nd_of hr]
    intro hc
    rcases hc with hc | hc
    · exact D.rM (by rw [← Option.some.inj hc]; exact m1M)
    · exact D.lY (yY _ hc)
  unfold swap
  rw [if_neg c1]
  simp only [nd_of hl, nd_of hr, optSetPrev_some, optSetNext_some]
  -- abbreviations for the intermediate heaps are not needed: every piece is transported through the eight writes
  refine ⟨?_, ?_⟩
  · rw [Seg_append, Seg_cons, Seg_append, Seg_cons]
    refine ⟨?_, ?_, ?_, ?_, ?_⟩
    · -- the prefix
      have a1 := Seg_optSetNext_last (some rc.1) sX D.nX
      have a1' : Seg (optSetNext h (lastOr X none) (some rc.1)) none X (some rc.1) :=
        Seg_ends a1 (Or.inr rfl) (by by_cases e : X = [] <;> simp [e])
      refine Seg_same a1' ?_
      refine Same.setNext ?_ D.lX
      refine Same.optSetPrev ?_ (fun x hx hm => D.XY _ hm (yY x hx))
      refine Same.setPrev ?_ D.lX
      refine Same.setNext ?_ (fun hm => D.XM _ hm m2M)
      refine Same.setNext ?_ D.rX
      refine Same.setPrev ?_ (fun hm => D.XM _ hm m1M)
      exact Same.setPrev (Same.rfl' _ _) D.rX
    · -- the node `n2` in the place of `n1`
      rw [nxt_append, nxt_of_ne hM, hm1']
      rw [setNext, upd_ne _ _ _ _ (Ne.symm D.lr), optSetPrev_ne _ _ _ _ (fun x hx e => D.rY (by rw [e]; exact yY x hx)),
        setPrev, upd_ne _ _ _ _ (Ne.symm D.lr), setNext, upd_ne _ _ _ _ (fun e => D.rM (by rw [e]; exact m2M)), setNext, upd_eq,
        setPrev, upd_ne _ _ _ _ (fun e => D.rM (by rw [e]; exact m1M)), setPrev, upd_eq,
        optSetNext_ne _ _ _ _ (fun x hx e => D.rX (by rw [e]; exact xlX x hx)), hr]
      rfl
    · -- the nodes in between
      have b0 : Seg (setPrev (optSetNext h (lastOr X none) (some rc.1)) rc.1 (lastOr X none)) (some lc.1) M (some rc.1) :=
        Seg_same sM (Same.setPrev (Same.optSetNext (Same.rfl' _ _) (fun x hx hm => D.XM _ (xlX x hx) hm)) D.rM)
      have b1 := Seg_setPrev_of_first (some rc.1) hm1' b0 D.nM
      have b2 : Seg (setNext (setPrev (setPrev (optSetNext h (lastOr X none) (some rc.1)) rc.1 (lastOr X none)) m1 (some rc.1)) rc.1 (some m1))
          (some rc.1) M (some rc.1) := Seg_same b1 (Same.setNext (Same.rfl' _ _) D.rM)
      have b3 := Seg_setNext_of_last (some lc.1) hm2' b2 D.nM
      refine Seg_same b3 ?_
      refine Same.setNext ?_ D.lM
      refine Same.optSetPrev ?_ (fun x hx hm => D.MY _ hm (yY x hx))
      exact Same.setPrev (Same.rfl' _ _) D.lM
    · -- the node `n1` in the place of `n2`
      rw [lastOr_of_ne hM, hm2']
      rw [setNext, upd_eq, optSetPrev_ne _ _ _ _ (fun x hx e => D.lY (by rw [e]; exact yY x hx)), setPrev, upd_eq,
        setNext, upd_ne _ _ _ _ (fun e => D.lM (by rw [e]; exact m2M)), setNext, upd_ne _ _ _ _ D.lr,
        setPrev, upd_ne _ _ _ _ (fun e => D.lM (by rw [e]; exact m1M)), setPrev, upd_ne _ _ _ _ D.lr,
        optSetNext_ne _ _ _ _ (fun x hx e => D.lX (by rw [e]; exact xlX x hx)), hl]
      rfl
    · -- the suffix
      have c0 : Seg (setPrev (setNext (setNext (setPrev (setPrev (optSetNext h (lastOr X none) (some rc.1)) rc.1 (lastOr X none)) m1 (some rc.1))
          rc.1 (some m1)) m2 (some lc.1)) lc.1 (some m2)) (some rc.1) Y none := by
        refine Seg_same sY ?_
        refine Same.setPrev ?_ D.lY
        refine Same.setNext ?_ (D.MY _ m2M)
        refine Same.setNext ?_ D.rY
        refine Same.setPrev ?_ (D.MY _ m1M)
        refine Same.setPrev ?_ D.rY
        exact Same.optSetNext (Same.rfl' _ _) (fun x hx hm => D.XY _ (xlX x hx) hm)
      have c1' := Seg_optSetPrev_first (some lc.1) c0 D.nY
      have c2 := Seg_ends (p' := some lc.1) (n' := none) c1' (by by_cases e : Y = [] <;> simp [e]) (Or.inr rfl)
      exact Seg_same c2 (Same.setNext (Same.rfl' _ _) D.lY)
  · intro b hb
    simp only [idsOf_append, idsOf_cons, List.mem_append, List.mem_cons, not_or] at hb
    obtain ⟨bX, bl, bM, br, bY⟩ := hb
    rw [setNext, upd_ne _ _ _ _ bl, optSetPrev_ne _ _ _ _ (fun x hx e => bY (by rw [e]; exact yY x hx)),
      setPrev, upd_ne _ _ _ _ bl, setNext, upd_ne _ _ _ _ (fun e => bM (by rw [e]; exact m2M)), setNext, upd_ne _ _ _ _ br,
      setPrev, upd_ne _ _ _ _ (fun e => bM (by rw [e]; exact m1M)), setPrev, upd_ne _ _ _ _ br,
      optSetNext_ne _ _ _ _ (fun x hx e => bX (by rw [e]; exact xlX x hx))]


/-- **`swap(n1, n2)`** of two neighbours (`swap_adjacent`, first branch) -/
theorem swap_adj {h : Heap} {X Y : List Cell} {lc rc : Cell}
    (hs : Seg h none (X ++ lc :: rc :: Y) none) (hn : (idsOf (X ++ lc :: rc :: Y)).Nodup) :
    Seg (swap h lc.1 rc.1) none (X ++ rc :: lc :: Y) none ∧
    (∀ b, b ∉ idsOf (X ++ lc :: rc :: Y) → (swap h lc.1 rc.1) b = h b) := by
  have D : Dist (idsOf X) (idsOf ([] : List Cell)) (idsOf Y) lc.1 rc.1 := dist_of_nodup (by simpa [idsOf] using hn)
  obtain ⟨sX, hl, sRest⟩ := Seg_split hs
  rw [Seg_cons] at sRest
  obtain ⟨hr, sY⟩ := sRest
  simp only [nxt_cons] at hl
  have xlX : ∀ x, lastOr X none = some x → x ∈ idsOf X := fun x hx => lastOr_mem hx
  have yY : ∀ x, nxt Y none = some x → x ∈ idsOf Y := fun x hx => nxt_mem hx
  have c1 : (nd h lc.1).next = some rc.1 ∨ (nd h rc.1).next = some lc.1 := Or.inl (by rw [nd_of hl])
  have c2 : (nd h lc.1).next = some rc.1 := by rw [nd_of hl]
  unfold swap
  rw [if_pos c1]
  unfold swapAdjacent
  rw [if_pos c2]
  simp only [nd_of hr]
  have g1 : (optSetPrev h (nxt Y none) (some lc.1)) rc.1 = some ⟨rc.2, nxt Y none, some lc.1⟩ := by
    rw [optSetPrev_ne _ _ _ _ (fun x hx e => D.rY (by rw [e]; exact yY x hx)), hr]
  simp only [nd_of g1]
  have g2 : (setNext (optSetPrev h (nxt Y none) (some lc.1)) lc.1 (nxt Y none)) lc.1 = some ⟨lc.2, nxt Y none, lastOr X none⟩ := by
    rw [setNext, upd_eq, optSetPrev_ne _ _ _ _ (fun x hx e => D.lY (by rw [e]; exact yY x hx)), hl]; rfl
  simp only [nd_of g2]
  have g3 : (optSetNext (setNext (optSetPrev h (nxt Y none) (some lc.1)) lc.1 (nxt Y none)) (lastOr X none) (some rc.1)) lc.1 =
      some ⟨lc.2, nxt Y none, lastOr X none⟩ := by
    rw [optSetNext_ne _ _ _ _ (fun x hx e => D.lX (by rw [e]; exact xlX x hx))]
    exact g2
  simp only [nd_of g3]
  refine ⟨?_, ?_⟩
  · rw [Seg_append, Seg_cons, Seg_cons]
    refine ⟨?_, ?_, ?_, ?_⟩
    · have a0 : Seg (setNext (optSetPrev h (nxt Y none) (some lc.1)) lc.1 (nxt Y none)) none X (some lc.1) :=
        Seg_same sX (Same.setNext (Same.optSetPrev (Same.rfl' _ _) (fun x hx hm => D.XY _ hm (yY x hx))) D.lX)
      have a1 := Seg_optSetNext_last (some rc.1) a0 D.nX
      have a1' := Seg_ends (p' := none) (n' := some rc.1) a1 (Or.inr rfl) (by by_cases e : X = [] <;> simp [e])
      refine Seg_same a1' ?_
      refine Same.setNext ?_ D.rX
      refine Same.setPrev ?_ D.lX
      exact Same.setPrev (Same.rfl' _ _) D.rX
    · rw [setNext, upd_eq, setPrev, upd_ne _ _ _ _ (Ne.symm D.lr), setPrev, upd_eq,
        optSetNext_ne _ _ _ _ (fun x hx e => D.rX (by rw [e]; exact xlX x hx)),
        setNext, upd_ne _ _ _ _ (Ne.symm D.lr), optSetPrev_ne _ _ _ _ (fun x hx e => D.rY (by rw [e]; exact yY x hx)), hr]
      rfl
    · rw [setNext, upd_ne _ _ _ _ D.lr, setPrev, upd_eq, setPrev, upd_ne _ _ _ _ D.lr,
        optSetNext_ne _ _ _ _ (fun x hx e => D.lX (by rw [e]; exact xlX x hx)),
        setNext, upd_eq, optSetPrev_ne _ _ _ _ (fun x hx e => D.lY (by rw [e]; exact yY x hx)), hl]
      rfl
    · have c0 := Seg_optSetPrev_first (some lc.1) sY D.nY
      have c0' := Seg_ends (p' := some lc.1) (n' := none) c0 (by by_cases e : Y = [] <;> simp [e]) (Or.inr rfl)
      refine Seg_same c0' ?_
      refine Same.setNext ?_ D.rY
      refine Same.setPrev ?_ D.lY
      refine Same.setPrev ?_ D.rY
      refine Same.optSetNext ?_ (fun x hx hm => D.XY _ (xlX x hx) hm)
      exact Same.setNext (Same.rfl' _ _) D.lY
  · intro b hb
    simp only [idsOf_append, idsOf_cons, List.mem_append, List.mem_cons, not_or] at hb
    obtain ⟨bX, bl, br, bY⟩ := hb
    rw [setNext, upd_ne _ _ _ _ br, setPrev, upd_ne _ _ _ _ bl, setPrev, upd_ne _ _ _ _ br,
      optSetNext_ne _ _ _ _ (fun x hx e => bX (by rw [e]; exact xlX x hx)),
      setNext, upd_ne _ _ _ _ bl, optSetPrev_ne _ _ _ _ (fun x hx e => bY (by rw [e]; exact yY x hx))]


/-- `swap` of the first and the last node of the middle part `lc :: M ++ [rc]` of a chain -/
theorem swap_ends {h : Heap} {X M Y : List Cell} {lc rc : Cell}
    (hs : Seg h none (X ++ lc :: (M ++ rc :: Y)) none) (hn : (idsOf (X ++ lc :: (M ++ rc :: Y))).Nodup) :
    Seg (swap h lc.1 rc.1) none (X ++ rc :: (M ++ lc :: Y)) none ∧
    (∀ b, b ∉ idsOf (X ++ lc :: (M ++ rc :: Y)) → (swap h lc.1 rc.1) b = h b) := by
  by_cases hM : M = []
  · subst hM; exact swap_adj hs hn
  · exact swap_far hM hs hn

theorem ends_of_length (M : List Cell) (h : 2 ≤ M.length) : ∃ lc M' rc, M = lc :: (M' ++ [rc]) := by
  cases M with
  | nil => simp at h
  | cons lc rest =>
    rcases eq_nil_or_snoc rest with e | ⟨ys, rc, e⟩
    · subst e; simp at h
    · exact ⟨lc, ys, rc, by rw [e]⟩

theorem reverseLoop_zero (h : Heap) (p q : Option Nat) : reverseLoop 0 h p q = h := by
  unfold reverseLoop; rfl

/-- **the loop of `cc_list_reverse`**: `k` swaps of the outermost pairs reverse a middle part of `2k` or `2k + 1` nodes -/
theorem reverseLoop_spec : ∀ (k : Nat) (h : Heap) (A M B : List Cell),
    Seg h none (A ++ M ++ B) none → (idsOf (A ++ M ++ B)).Nodup → (M.length = 2 * k ∨ M.length = 2 * k + 1) →
    Seg (reverseLoop k h (nxt M none) (lastOr M none)) none (A ++ M.reverse ++ B) none ∧
    (∀ b, b ∉ idsOf (A ++ M ++ B) → (reverseLoop k h (nxt M none) (lastOr M none)) b = h b)
  | 0, h, A, M, B, hs, _, hl => by
    rw [reverseLoop_zero]
    have : M.reverse = M := by
      match M, hl with
      | [], _ => rfl
      | [a], _ => rfl
      | a :: b :: r, hl => simp at hl
    rw [this]; exact ⟨hs, fun _ _ => rfl⟩
  | k + 1, h, A, M, B, hs, hn, hl => by
    obtain ⟨lc, M', rc, e⟩ := ends_of_length M (by omega)
    subst e
    have hlen : M'.length = 2 * k ∨ M'.length = 2 * k + 1 := by
      simp only [List.length_cons, List.length_append, List.length_nil] at hl; omega
    have hs' : Seg h none (A ++ lc :: (M' ++ rc :: B)) none := by
      have : A ++ lc :: (M' ++ [rc]) ++ B = A ++ lc :: (M' ++ rc :: B) := by simp
      rw [this] at hs; exact hs
    have hn' : (idsOf (A ++ lc :: (M' ++ rc :: B))).Nodup := by
      have : A ++ lc :: (M' ++ [rc]) ++ B = A ++ lc :: (M' ++ rc :: B) := by simp
      rw [this] at hn; exact hn
    obtain ⟨sw, fr⟩ := swap_ends hs' hn'
    obtain ⟨_, hlc, sRest⟩ := Seg_split hs'
    obtain ⟨_, hrc, _⟩ := Seg_split sRest
    have hp : nxt (lc :: (M' ++ [rc])) none = some lc.1 := rfl
    have hq : lastOr (lc :: (M' ++ [rc])) none = some rc.1 := by simp [lastOr_append]
    have hcur : reverseLoop k (swap h lc.1 rc.1) (nxt (M' ++ rc :: B) none) (lastOr M' (some lc.1)) =
        reverseLoop k (swap h lc.1 rc.1) (nxt M' none) (lastOr M' none) := by
      cases k with
      | zero => rw [reverseLoop_zero, reverseLoop_zero]
      | succ k =>
        have hne : M' ≠ [] := by intro e; subst e; simp at hlen
        rw [nxt_append, nxt_of_ne hne, lastOr_of_ne hne]
    have hstep : reverseLoop (k + 1) h (some lc.1) (some rc.1) =
        reverseLoop k (swap h lc.1 rc.1) (nxt M' none) (lastOr M' none) := by
      show reverseLoop k (swap h lc.1 rc.1) (nd h lc.1).next (nd h rc.1).prev = _
      rw [nd_of hlc, nd_of hrc]; exact hcur
    rw [hp, hq, hstep]
    have sw' : Seg (swap h lc.1 rc.1) none ((A ++ [rc]) ++ M' ++ (lc :: B)) none := by
      have : (A ++ [rc]) ++ M' ++ (lc :: B) = A ++ rc :: (M' ++ lc :: B) := by simp
      rw [this]; exact sw
    have hnd' : (idsOf ((A ++ [rc]) ++ M' ++ (lc :: B))).Nodup := by
      have hperm : (idsOf ((A ++ [rc]) ++ M' ++ (lc :: B))).Perm (idsOf (A ++ lc :: (M' ++ rc :: B))) := by
        simp only [idsOf_append, idsOf_cons, idsOf_nil, List.append_assoc, List.singleton_append]
        refine List.Perm.append_left _ ?_
        have : (rc.1 :: (idsOf M' ++ lc.1 :: idsOf B)).Perm (rc.1 :: lc.1 :: (idsOf M' ++ idsOf B)) :=
          List.Perm.cons _ (List.perm_middle)
        refine this.trans ?_
        refine (List.Perm.swap lc.1 rc.1 _).trans ?_
        refine List.Perm.cons _ ?_
        exact (List.perm_middle).symm
      exact hperm.nodup_iff.2 hn'
    obtain ⟨i1, i2⟩ := reverseLoop_spec k (swap h lc.1 rc.1) (A ++ [rc]) M' (lc :: B) sw' hnd' hlen
    refine ⟨?_, ?_⟩
    · have : A ++ (lc :: (M' ++ [rc])).reverse ++ B = (A ++ [rc]) ++ M'.reverse ++ (lc :: B) := by simp
      rw [this]; exact i1
    · intro b hb
      have hb' : b ∉ idsOf ((A ++ [rc]) ++ M' ++ (lc :: B)) := by
        simp only [idsOf_append, idsOf_cons, idsOf_nil, List.mem_append, List.mem_cons, List.not_mem_nil, or_false, not_or] at hb ⊢
        exact ⟨⟨⟨hb.1.1, hb.1.2.2.2⟩, hb.1.2.2.1⟩, hb.1.2.1, hb.2⟩
      rw [i2 b hb']
      refine fr b ?_
      simp only [idsOf_append, idsOf_cons, idsOf_nil, List.mem_append, List.mem_cons, List.not_mem_nil, or_false, not_or] at hb ⊢
      exact ⟨hb.1.1, hb.1.2.1, hb.1.2.2.1, hb.1.2.2.2, hb.2⟩

/-- **`cc_list_reverse`** -/
theorem reverse_spec (s : St) (l : Hdr) (cs : List Cell) (r : Repr s.heap l cs) :
    Repr (reverse s l).1.heap (reverse s l).2 cs.reverse ∧ (reverse s l).2.triple = l.triple ∧ (reverse s l).1.fresh = s.fresh ∧
    (∀ b, b ∉ idsOf cs → (reverse s l).1.heap b = s.heap b) := by
  unfold reverse
  by_cases hsm : l.size = 0 ∨ l.size = 1
  · rw [if_pos hsm]
    have : cs.reverse = cs := by
      rw [r.size] at hsm
      match cs, hsm with
      | [], _ => rfl
      | [a], _ => rfl
      | a :: b :: t, hsm => simp at hsm
    rw [this]; exact ⟨r, rfl, rfl, fun _ _ => rfl⟩
  · rw [if_neg hsm]
    have hk : cs.length = 2 * (l.size / 2) ∨ cs.length = 2 * (l.size / 2) + 1 := by rw [r.size]; omega
    have := reverseLoop_spec (l.size / 2) s.heap [] cs [] (by simpa using r.seg) (by simpa using r.nodup) hk
    rw [r.head, r.tail]
    simp only [List.nil_append, List.append_nil] at this
    refine ⟨⟨?_, this.1, ?_, ?_, ?_⟩, rfl, rfl, this.2⟩
    · have := r.nodup; simp only [idsOf, List.map_reverse] at this ⊢; exact (List.reverse_perm _).nodup_iff.2 this
    · simp [r.size]
    · simp only []; rw [nxt_reverse]
    · simp only []; rw [lastOr_reverse]

/-- every cursor the loop of `cc_list_reverse` dereferences is a live node -/
theorem reverseLoopOk_spec : ∀ (k : Nat) (h : Heap) (A M B : List Cell),
    Seg h none (A ++ M ++ B) none → (idsOf (A ++ M ++ B)).Nodup → (M.length = 2 * k ∨ M.length = 2 * k + 1) →
    reverseLoopOk k h (nxt M none) (lastOr M none) = true
  | 0, _, _, _, _, _, _, _ => rfl
  | k + 1, h, A, M, B, hs, hn, hl => by
    obtain ⟨lc, M', rc, e⟩ := ends_of_length M (by omega)
    subst e
    have hlen : M'.length = 2 * k ∨ M'.length = 2 * k + 1 := by
      simp only [List.length_cons, List.length_append, List.length_nil] at hl; omega
    have hs' : Seg h none (A ++ lc :: (M' ++ rc :: B)) none := by
      have : A ++ lc :: (M' ++ [rc]) ++ B = A ++ lc :: (M' ++ rc :: B) := by simp
      rw [this] at hs; exact hs
    have hn' : (idsOf (A ++ lc :: (M' ++ rc :: B))).Nodup := by
      have : A ++ lc :: (M' ++ [rc]) ++ B = A ++ lc :: (M' ++ rc :: B) := by simp
      rw [this] at hn; exact hn
    obtain ⟨sw, _⟩ := swap_ends hs' hn'
    obtain ⟨_, hlc, sRest⟩ := Seg_split hs'
    obtain ⟨_, hrc, _⟩ := Seg_split sRest
    have hp : nxt (lc :: (M' ++ [rc])) none = some lc.1 := rfl
    have hq : lastOr (lc :: (M' ++ [rc])) none = some rc.1 := by simp [lastOr_append]
    have hcur : reverseLoopOk k (swap h lc.1 rc.1) (nxt (M' ++ rc :: B) none) (lastOr M' (some lc.1)) =
        reverseLoopOk k (swap h lc.1 rc.1) (nxt M' none) (lastOr M' none) := by
      cases k with
      | zero => rfl
      | succ k =>
        have hne : M' ≠ [] := by intro e; subst e; simp at hlen
        rw [nxt_append, nxt_of_ne hne, lastOr_of_ne hne]
    rw [hp, hq]
    show (live h (some lc.1) && live h (some rc.1) &&
      reverseLoopOk k (swap h lc.1 rc.1) (nd h lc.1).next (nd h rc.1).prev) = true
    rw [nd_of hlc, nd_of hrc, hcur]
    have sw' : Seg (swap h lc.1 rc.1) none ((A ++ [rc]) ++ M' ++ (lc :: B)) none := by
      have : (A ++ [rc]) ++ M' ++ (lc :: B) = A ++ rc :: (M' ++ lc :: B) := by simp
      rw [this]; exact sw
    have hnd' : (idsOf ((A ++ [rc]) ++ M' ++ (lc :: B))).Nodup := by
      have hperm : (idsOf ((A ++ [rc]) ++ M' ++ (lc :: B))).Perm (idsOf (A ++ lc :: (M' ++ rc :: B))) := by
        simp only [idsOf_append, idsOf_cons, idsOf_nil, List.append_assoc, List.singleton_append]
        refine List.Perm.append_left _ ?_
        have : (rc.1 :: (idsOf M' ++ lc.1 :: idsOf B)).Perm (rc.1 :: lc.1 :: (idsOf M' ++ idsOf B)) :=
          List.Perm.cons _ (List.perm_middle)
        refine this.trans ?_
        refine (List.Perm.swap lc.1 rc.1 _).trans ?_
        refine List.Perm.cons _ ?_
        exact (List.perm_middle).symm
      exact hperm.nodup_iff.2 hn'
    rw [reverseLoopOk_spec k (swap h lc.1 rc.1) (A ++ [rc]) M' (lc :: B) sw' hnd' hlen]
    simp only [live_some, hlc, hrc, Option.isSome_some, Bool.and_self]

/-- **`cc_list_reverse` raises no fault** on a represented list (no NULL or released cursor is dereferenced) and is `reverse` -/
theorem reverseC_spec (s : St) (l : Hdr) (cs : List Cell) (m : Mem) (r : Repr s.heap l cs) :
    reverseC s l m = ((reverse s l).1, (reverse s l).2, m) := by
  unfold reverseC
  by_cases hsm : l.size = 0 ∨ l.size = 1
  · simp [hsm]
  · have hk : cs.length = 2 * (l.size / 2) ∨ cs.length = 2 * (l.size / 2) + 1 := by rw [r.size]; omega
    have := reverseLoopOk_spec (l.size / 2) s.heap [] cs [] (by simpa using r.seg) (by simpa using r.nodup) hk
    rw [← r.head, ← r.tail] at this
    simp [this]

end CC.PList
