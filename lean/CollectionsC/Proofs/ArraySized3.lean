import CollectionsC.Proofs.ArraySized2
/-! Sized array, part 3: one call of the core API refines one step of the ideal sequence. -/
namespace CC.ArraySized
open CC CC.Gen

/-- the conclusion of `step_refines` for a call that cannot be refused -/
theorem step_pack (a a' : ArraySized) (op : Spec.SSeq.Op Elem) (m m' : Mem) (o : Spec.SSeq.Out Elem)
    (hs1 : (a.step op m).1 = o) (hs2 : (a.step op m).2.1 = a') (hs3 : (a.step op m).2.2 = m')
    (hst : o.st ≠ some .errAlloc ∧ o.st ≠ some .errMaxCapacity)
    (hspec : (Spec.SSeq.step a.abs op none) = (o, a'.abs))
    (hinv : a'.Inv) (hg : a'.cfg = a.cfg) (hdl : a'.dataLen = a.dataLen) (hm : MemSame a.triple m m') :
    (a.step op m).1 = (Spec.SSeq.step a.abs op (a.refusal op m)).1 ∧
    (a.step op m).2.1.abs = (Spec.SSeq.step a.abs op (a.refusal op m)).2 ∧
    (a.step op m).2.1.Inv ∧ (a.step op m).2.1.cfg = a.cfg ∧ (a.step op m).2.1.dataLen = a.dataLen ∧
    MemSame a.triple m (a.step op m).2.2 ∧
    (a.refusal op m ≠ none → (a.step op m).2.1 = a) ∧
    (a.refusal op m = some .errAlloc → (m.allocT a.triple).1 = false) ∧
    (a.refusal op m = some .errMaxCapacity → a.AtLimit ∧ a.size = a.capacity) := by
  have hstep : a.step op m = (o, a', m') := Prod.ext hs1 (Prod.ext hs2 hs3)
  have hr : a.refusal op m = none := by
    unfold refusal
    rw [hstep]
    dsimp only
    split
    · rename_i h; exact absurd h hst.1
    · rename_i h; exact absurd h hst.2
    · rfl
  rw [hr, hstep, hspec]
  exact ⟨rfl, rfl, hinv, hg, hdl, hm, (fun hh => absurd rfl hh), nofun, nofun⟩

theorem step_refines (a : ArraySized) (op : Spec.SSeq.Op Elem) (m : Mem) (h : a.Inv)
    (hw : OpWF a.dataLen op) :
    (a.step op m).1 = (Spec.SSeq.step a.abs op (a.refusal op m)).1 ∧
    (a.step op m).2.1.abs = (Spec.SSeq.step a.abs op (a.refusal op m)).2 ∧
    (a.step op m).2.1.Inv ∧ (a.step op m).2.1.cfg = a.cfg ∧ (a.step op m).2.1.dataLen = a.dataLen ∧
    MemSame a.triple m (a.step op m).2.2 ∧
    (a.refusal op m ≠ none → (a.step op m).2.1 = a) ∧
    (a.refusal op m = some .errAlloc → (m.allocT a.triple).1 = false) ∧
    (a.refusal op m = some .errMaxCapacity → a.AtLimit ∧ a.size = a.capacity) := by
  cases op with
  | add x =>
    rcases add_spec a x m h hw with ⟨h1, h2, h3, h4, h5, h6, h7, _⟩ | ⟨h1, h2, h3, h4, h5, h6, _⟩
    · have hr : a.refusal (.add x) m = none := by simp [refusal, step, h1]
      rw [hr]
      simp only [step, Spec.SSeq.step, Spec.SSeq.add, h1, h3]
      exact ⟨trivial, trivial, h2, h5, h4, h7, (fun hh => absurd rfl hh), nofun, nofun⟩
    · rcases h1 with h1 | h1
      · have hr : a.refusal (.add x) m = some .errAlloc := by simp [refusal, step, h1]
        rw [hr]
        simp only [step, Spec.SSeq.step, h1, h2]
        exact ⟨trivial, trivial, h, trivial, trivial, h3, fun _ => trivial, fun _ => h5 h1, nofun⟩
      · have hr : a.refusal (.add x) m = some .errMaxCapacity := by simp [refusal, step, h1]
        rw [hr]
        simp only [step, Spec.SSeq.step, h1, h2]
        exact ⟨trivial, trivial, h, trivial, trivial, h3, fun _ => trivial, nofun, fun _ => ⟨h6 h1, h4⟩⟩
  | addAt x i =>
    by_cases hi : i ≤ a.size
    · rcases addAt_spec a x i m h hw hi with ⟨h1, h2, h3, h4, h5, h6, h7, _⟩ | ⟨h1, h2, h3, h4, h5, h6, _⟩
      · have hr : a.refusal (.addAt x i) m = none := by simp [refusal, step, h1]
        rw [hr]
        simp only [step, Spec.SSeq.step, Spec.SSeq.addAt, abs_length, hi, if_true, h1, h3]
        exact ⟨trivial, trivial, h2, h5, h4, h7, (fun hh => absurd rfl hh), nofun, nofun⟩
      · rcases h1 with h1 | h1
        · have hr : a.refusal (.addAt x i) m = some .errAlloc := by simp [refusal, step, h1]
          rw [hr]
          simp only [step, Spec.SSeq.step, Spec.SSeq.addAt, abs_length, hi, if_true, h1, h2]
          exact ⟨trivial, trivial, h, trivial, trivial, h3, fun _ => trivial, fun _ => h5 h1, nofun⟩
        · have hr : a.refusal (.addAt x i) m = some .errMaxCapacity := by simp [refusal, step, h1]
          rw [hr]
          simp only [step, Spec.SSeq.step, Spec.SSeq.addAt, abs_length, hi, if_true, h1, h2]
          exact ⟨trivial, trivial, h, trivial, trivial, h3, fun _ => trivial, nofun, fun _ => ⟨h6 h1, h4⟩⟩
    · apply step_pack a a _ m m { st := some .errOutOfRange }
      · simp only [step, addAt_inert a x i m (by omega)]
      · simp only [step, addAt_inert a x i m (by omega)]
      · simp only [step, addAt_inert a x i m (by omega)]
      · exact ⟨by simp, by simp⟩
      · simp only [Spec.SSeq.step, Spec.SSeq.addAt, abs_length, hi, if_false]
      · exact h
      · rfl
      · rfl
      · exact MemSame.refl _ m
  | replaceAt x i =>
    by_cases hi : i < a.size
    · have hs := replaceAt_spec a x i m h hw hi
      apply step_pack a { a with buf := a.buf.memcpy (a.dataLen * i) x 0 a.dataLen } _ m m { st := some .ok, val := a.abs[i]? }
      · simp only [step, hs.1]
      · simp only [step, hs.1]
      · simp only [step, hs.1]
      · exact ⟨by simp, by simp⟩
      · simp only [Spec.SSeq.step, Spec.SSeq.replaceAt, abs_length, hi, if_true]
        rw [← hs.2.2, hs.1]
      · have := hs.2.1; rw [hs.1] at this; exact this
      · exact rfl
      · rfl
      · exact MemSame.refl _ m
    · apply step_pack a a _ m m { st := some .errOutOfRange }
      · simp only [step, replaceAt_inert a x i m (by omega)]
      · simp only [step, replaceAt_inert a x i m (by omega)]
      · simp only [step, replaceAt_inert a x i m (by omega)]
      · exact ⟨by simp, by simp⟩
      · simp only [Spec.SSeq.step, Spec.SSeq.replaceAt, abs_length, hi, if_false]
      · exact h
      · rfl
      · rfl
      · exact MemSame.refl _ m
  | swapAt i j =>
    by_cases hi : i < a.size ∧ j < a.size
    · obtain ⟨s1, s2, s3, s4, s5, s6, s7, s8⟩ := swapAt_spec a i j m h hi.1 hi.2
      apply step_pack a (a.swapAt i j m).2.1 _ m m { st := some .ok }
      · simp only [step, s1]
      · rfl
      · exact s2
      · exact ⟨by simp, by simp⟩
      · simp only [Spec.SSeq.step, Spec.SSeq.swapAt, abs_getElem?, hi.1, hi.2, if_true]
        rw [s4]
      · exact s3
      · exact s6
      · exact s5
      · exact MemSame.refl _ m
    · apply step_pack a a _ m m { st := some .errOutOfRange }
      · simp only [step, swapAt_inert a i j m (by omega)]
      · simp only [step, swapAt_inert a i j m (by omega)]
      · simp only [step, swapAt_inert a i j m (by omega)]
      · exact ⟨by simp, by simp⟩
      · simp only [Spec.SSeq.step, Spec.SSeq.swapAt, abs_getElem?]
        by_cases h1 : i < a.size
        · have h2 : ¬ j < a.size := fun hh => hi ⟨h1, hh⟩
          simp [h1, h2]
        · simp [h1]
      · exact h
      · rfl
      · rfl
      · exact MemSame.refl _ m
  | remove x =>
    obtain ⟨s1, s2, s3, s4, s5, s6, s7, s8⟩ := remove_spec a x m h hw
    apply step_pack a (a.remove x m).2.1 _ m m { st := some (a.remove x m).1 }
    · rfl
    · rfl
    · exact s2
    · rw [s1]
      unfold Spec.SSeq.remove
      cases Spec.SSeq.indexOf a.abs x <;> exact ⟨by simp, by simp⟩
    · simp only [Spec.SSeq.step]; rw [s1, s4]
    · exact s3
    · exact s7
    · exact s6
    · exact MemSame.refl _ m
  | removeAt i =>
    by_cases hi : i < a.size
    · obtain ⟨s1, s2, s3, s4, s5, s6, s7, s8, s9⟩ := removeAt_spec a i m h hi
      apply step_pack a (a.removeAt i m).2.2.1 _ m m { st := some .ok, val := a.abs[i]? }
      · simp only [step, s1, s2]
      · rfl
      · exact s3
      · exact ⟨by simp, by simp⟩
      · simp only [Spec.SSeq.step, Spec.SSeq.removeAt, abs_length, hi, if_true]; rw [s5]
      · exact s4
      · exact s7
      · exact s6
      · exact MemSame.refl _ m
    · apply step_pack a a _ m m { st := some .errOutOfRange }
      · simp only [step, removeAt_inert a i m (by omega)]
      · simp only [step, removeAt_inert a i m (by omega)]
      · simp only [step, removeAt_inert a i m (by omega)]
      · exact ⟨by simp, by simp⟩
      · simp only [Spec.SSeq.step, Spec.SSeq.removeAt, abs_length, hi, if_false]
      · exact h
      · rfl
      · rfl
      · exact MemSame.refl _ m
  | removeLast =>
    by_cases h0 : 0 < a.size
    · obtain ⟨s1, s2, s3, s4, s5, s6, s7, s8⟩ := removeLast_spec a m h h0
      have hne : a.abs ≠ [] := by
        intro hc; have := abs_length a; rw [hc] at this; simp at this; omega
      apply step_pack a (a.removeLast m).2.2.1 _ m m { st := some .ok, val := a.abs.getLast? }
      · simp only [step, s1, s2]
      · rfl
      · exact s3
      · exact ⟨by simp, by simp⟩
      · simp only [Spec.SSeq.step, Spec.SSeq.removeLast, hne, if_false]; rw [s5]
      · exact s4
      · exact s7
      · exact s6
      · exact MemSame.refl _ m
    · have he : a.abs = [] := by simp [abs, show a.size = 0 by omega]
      apply step_pack a a _ m m { st := some .errOutOfRange }
      · simp only [step, removeLast_inert a m h (by omega)]
      · simp only [step, removeLast_inert a m h (by omega)]
      · simp only [step, removeLast_inert a m h (by omega)]
      · exact ⟨by simp, by simp⟩
      · simp only [Spec.SSeq.step, Spec.SSeq.removeLast, he, if_true]
      · exact h
      · rfl
      · rfl
      · exact MemSame.refl _ m
  | removeAll =>
    have hs := removeAll_spec a h
    apply step_pack a a.removeAll _ m m {}
    · rfl
    · rfl
    · rfl
    · exact ⟨by simp, by simp⟩
    · simp only [Spec.SSeq.step]; rw [hs.2]
    · exact hs.1
    · exact rfl
    · rfl
    · exact MemSame.refl _ m
  | reverse =>
    obtain ⟨s1, s2, s3, s4, s5, s6, s7⟩ := reverse_spec a m h
    apply step_pack a (a.reverse m).1 _ m m {}
    · rfl
    · rfl
    · exact s1
    · exact ⟨by simp, by simp⟩
    · simp only [Spec.SSeq.step]; rw [s3]
    · exact s2
    · exact s5
    · exact s4
    · exact MemSame.refl _ m
  | filterMut p =>
    by_cases h0 : 0 < a.size
    · obtain ⟨s1, s2, s3, s4, s5, s6, s7, s8⟩ := filterMut_spec a p m h h0
      have hne : a.abs ≠ [] := by
        intro hc; have := abs_length a; rw [hc] at this; simp at this; omega
      apply step_pack a (a.filterMut p m).2.2.1 _ m m { st := some .ok, cb := a.abs.reverse.map (·, none) }
      · simp only [step, s1, s2]
      · rfl
      · exact s3
      · exact ⟨by simp, by simp⟩
      · simp only [Spec.SSeq.step, Spec.SSeq.filterMut, hne, if_false]; rw [s5]
      · exact s4
      · exact s7
      · exact s6
      · exact MemSame.refl _ m
    · have he : a.abs = [] := by simp [abs, show a.size = 0 by omega]
      apply step_pack a a _ m m { st := some .errOutOfRange }
      · simp only [step, filterMut_inert a p m (by omega)]; rfl
      · simp only [step, filterMut_inert a p m (by omega)]
      · simp only [step, filterMut_inert a p m (by omega)]
      · exact ⟨by simp, by simp⟩
      · simp only [Spec.SSeq.step, Spec.SSeq.filterMut, he, if_true]; rfl
      · exact h
      · rfl
      · rfl
      · exact MemSame.refl _ m
  | trim =>
    rcases trimCapacity_spec a m h with ⟨h1, h2, h3, h4, h5, h6, h7, h8⟩ | ⟨h1, h2, h3, h4⟩
    · have hr : a.refusal .trim m = none := by simp [refusal, step, h1]
      rw [hr]
      simp only [step, Spec.SSeq.step, h1, h3]
      exact ⟨trivial, trivial, h2, h7, h6, h8, (fun hh => absurd rfl hh), nofun, nofun⟩
    · have hr : a.refusal .trim m = some .errAlloc := by simp [refusal, step, h1]
      rw [hr]
      simp only [step, Spec.SSeq.step, h1, h2]
      exact ⟨trivial, trivial, h, trivial, trivial, h3, fun _ => trivial, fun _ => h4, nofun⟩
  | getAt i =>
    apply step_pack a a _ m m { st := some (Spec.SSeq.getAt a.abs i).1, val := (Spec.SSeq.getAt a.abs i).2 }
    · simp only [step, getAt_spec a i m h, Spec.SSeq.getAt, abs_length]
      split <;> rfl
    · rfl
    · simp only [step, getAt_spec a i m h]; split <;> rfl
    · unfold Spec.SSeq.getAt; split <;> exact ⟨by simp, by simp⟩
    · rfl
    · exact h
    · rfl
    · rfl
    · exact MemSame.refl _ m
  | getLast =>
    apply step_pack a a _ m m { st := some (Spec.SSeq.getLast a.abs).1, val := (Spec.SSeq.getLast a.abs).2 }
    · simp only [step, getLast_spec a m h, Spec.SSeq.getLast]
      split <;> rfl
    · rfl
    · simp only [step, getLast_spec a m h]; split <;> rfl
    · unfold Spec.SSeq.getLast; split <;> exact ⟨by simp, by simp⟩
    · rfl
    · exact h
    · rfl
    · rfl
    · exact MemSame.refl _ m
  | peek i =>
    apply step_pack a a _ m m { st := some (Spec.SSeq.getAt a.abs i).1, val := (Spec.SSeq.getAt a.abs i).2 }
    · simp only [step, peek_spec, getAt_spec a i m h, Spec.SSeq.getAt, abs_length]
      split <;> rfl
    · rfl
    · simp only [step, peek_spec, getAt_spec a i m h]; split <;> rfl
    · unfold Spec.SSeq.getAt; split <;> exact ⟨by simp, by simp⟩
    · rfl
    · exact h
    · rfl
    · rfl
    · exact MemSame.refl _ m
  | indexOf x =>
    apply step_pack a a _ m m { st := some (Spec.SSeq.indexOfSt a.abs x).1, num := (Spec.SSeq.indexOfSt a.abs x).2 }
    · simp only [step, indexOf_spec a x m h hw]
    · rfl
    · simp only [step, indexOf_spec a x m h hw]
    · unfold Spec.SSeq.indexOfSt; split <;> exact ⟨by simp, by simp⟩
    · rfl
    · exact h
    · rfl
    · rfl
    · exact MemSame.refl _ m
  | contains x =>
    apply step_pack a a _ m m { num := some (Spec.SSeq.contains a.abs x) }
    · simp only [step, contains_spec a x m h hw]
    · rfl
    · simp only [step, contains_spec a x m h hw]
    · exact ⟨by simp, by simp⟩
    · rfl
    · exact h
    · rfl
    · rfl
    · exact MemSame.refl _ m
  | map f =>
    obtain ⟨s1, s2, s3, s4, s5, s6, s7⟩ := map_spec a f m h hw
    apply step_pack a (a.map f m).2.1 _ m m { cb := a.abs.map (·, none) }
    · simp only [step, s1]
    · rfl
    · exact s2
    · exact ⟨by simp, by simp⟩
    · simp only [Spec.SSeq.step]; rw [s4]
    · exact s3
    · exact s6
    · exact s5
    · exact MemSame.refl _ m
  | reduce fn r0 =>
    apply step_pack a a _ m m { val := some (Spec.SSeq.reduce fn a.abs r0).2, cb := (Spec.SSeq.reduce fn a.abs r0).1 }
    · simp only [step, reduce_spec a fn r0 m h]
    · rfl
    · simp only [step, reduce_spec a fn r0 m h]
    · exact ⟨by simp, by simp⟩
    · rfl
    · exact h
    · rfl
    · rfl
    · exact MemSame.refl _ m
  | sort sortFn =>
    obtain ⟨s1, s2, s3, s4, s5, s6, s7, _⟩ := sort_spec a sortFn m h (hw a.abs)
    apply step_pack a (a.sort sortFn m).1 _ m m {}
    · rfl
    · rfl
    · exact s7
    · exact ⟨by simp, by simp⟩
    · simp only [Spec.SSeq.step]; rw [s2]
    · exact s1
    · exact s4
    · exact s3
    · exact MemSame.refl _ m

/-! ### histories -/
theorem run_refines (ops : List (Spec.SSeq.Op Elem)) :
    ∀ (a : ArraySized) (m : Mem), a.Inv → (∀ op ∈ ops, OpWF a.dataLen op) →
      (a.run ops m).1 = (Spec.SSeq.run a.abs ops (a.refusals ops m)).1 ∧
      (a.run ops m).2.1.abs = (Spec.SSeq.run a.abs ops (a.refusals ops m)).2 ∧
      (a.run ops m).2.1.Inv ∧ (a.run ops m).2.1.cfg = a.cfg ∧ (a.run ops m).2.1.dataLen = a.dataLen ∧
      MemSame a.triple m (a.run ops m).2.2 := by
  induction ops with
  | nil => intro a m h _; exact ⟨rfl, rfl, h, rfl, rfl, MemSame.refl _ m⟩
  | cons op ops ih =>
    intro a m h hw
    obtain ⟨s1, s2, s3, s4, s5, s6, _, _, _⟩ := step_refines a op m h (hw op (List.mem_cons_self ..))
    have ih' := ih (a.step op m).2.1 (a.step op m).2.2 s3
      (by intro o ho; rw [s5]; exact hw o (List.mem_cons_of_mem _ ho))
    have ht : (a.step op m).2.1.triple = a.triple := congrArg Prod.snd s4
    rw [ht] at ih'
    simp only [run, refusals, Spec.SSeq.run, List.headD_cons, List.tail_cons]
    rw [← s2, ← s1]
    exact ⟨by rw [ih'.1], ih'.2.1, ih'.2.2.1, ih'.2.2.2.1.trans s4, by rw [ih'.2.2.2.2.1, s5], MemSame.trans s6 ih'.2.2.2.2.2⟩

/-! ### constructor and destructor -/
/-- outcome of the two allocations of a constructor or builder on triple `t`: both granted (two more
live blocks of that triple), or one refused (only possible on the configured triple; ledger as before) -/
theorem two_allocs (m : Mem) (t : Triple) :
    ((m.allocT t).1 = true ∧ ((m.allocT t).2.allocT t).1 = true ∧
      own ((m.allocT t).2.allocT t).2 t = own m t + 2 ∧ ((m.allocT t).2.allocT t).2.fault = m.fault ∧
      Other t m ((m.allocT t).2.allocT t).2) ∨
    ((m.allocT t).1 = true ∧ ((m.allocT t).2.allocT t).1 = false ∧ t = .conf ∧
      MemSame t m (((m.allocT t).2.allocT t).2.freeT t)) ∨
    ((m.allocT t).1 = false ∧ t = .conf ∧ MemSame t m (m.allocT t).2) := by
  rcases Bool.eq_false_or_eq_true (m.allocT t).1 with h1 | h1
  · have e1 := allocT_true m t h1
    rcases Bool.eq_false_or_eq_true ((m.allocT t).2.allocT t).1 with h2 | h2
    · left
      have e2 := allocT_true (m.allocT t).2 t h2
      exact ⟨h1, h2, by rw [e2.1, e1.1], by rw [e2.2.1, e1.2.1], Other.trans e1.2.2 e2.2.2⟩
    · right; left
      have e2 := allocT_false (m.allocT t).2 t h2
      have f := freeT_pos ((m.allocT t).2.allocT t).2 t (by rw [e2.2.1, e1.1]; omega)
      exact ⟨h1, h2, e2.1, by rw [f.1, e2.2.1, e1.1]; omega, by rw [f.2.1, e2.2.2.1, e1.2.1],
        Other.trans e1.2.2 (Other.trans e2.2.2.2 f.2.2)⟩
  · right; right
    have e := allocT_false m t h1
    exact ⟨h1, e.1, e.2⟩

/-- `new_conf`: capacity 0, a capacity so large that `ex >= CC_MAX_ELEMENTS / capacity`, element
size 0 and a capacity whose buffer would exceed `CC_MAX_ELEMENTS` bytes are all rejected before
anything is allocated -/
theorem new_invalid (dl cap : Nat) (grow : Nat → Nat) (exGe : Nat → Bool) (m : Mem) (t : Triple)
    (hc : cap = 0 ∨ exGe (CC_MAX_ELEMENTS / cap) = true ∨ dl = 0 ∨ CC_MAX_ELEMENTS / dl < cap) :
    ArraySized.new dl cap grow exGe m t = (.errInvalidCapacity, none, m) := by
  unfold ArraySized.new
  by_cases h1 : (decide (cap = 0) || exGe (CC_MAX_ELEMENTS / cap)) = true
  · rw [if_pos h1]
  · rw [if_neg h1]
    have : (decide (dl = 0) || decide (cap > CC_MAX_ELEMENTS / dl)) = true := by
      rcases hc with hc | hc | hc | hc
      · simp [hc] at h1
      · simp [hc] at h1
      · simp [hc]
      · simp; omega
    rw [if_pos this]

/-- the guards of the constructor, read off a call that got past them -/
theorem new_guards (dl cap : Nat) (grow : Nat → Nat) (exGe : Nat → Bool) (m : Mem) (t : Triple)
    (h : (ArraySized.new dl cap grow exGe m t).1 ≠ .errInvalidCapacity) :
    0 < cap ∧ 0 < dl ∧ cap * dl ≤ CC_MAX_ELEMENTS ∧ cap ≤ CC_MAX_ELEMENTS ∧
    ¬ ((decide (cap = 0) || exGe (CC_MAX_ELEMENTS / cap)) = true) ∧
    ¬ ((decide (dl = 0) || decide (cap > CC_MAX_ELEMENTS / dl)) = true) := by
  have h1 : ¬ (cap = 0 ∨ exGe (CC_MAX_ELEMENTS / cap) = true ∨ dl = 0 ∨ CC_MAX_ELEMENTS / dl < cap) := by
    intro hc; rw [new_invalid dl cap grow exGe m t hc] at h; exact h rfl
  have hcap : 0 < cap := by apply Nat.pos_of_ne_zero; intro hh; exact h1 (Or.inl hh)
  have hdl : 0 < dl := by apply Nat.pos_of_ne_zero; intro hh; exact h1 (Or.inr (Or.inr (Or.inl hh)))
  have hle : cap ≤ CC_MAX_ELEMENTS / dl := by
    apply Nat.le_of_not_lt; intro hh; exact h1 (Or.inr (Or.inr (Or.inr hh)))
  have hmul : cap * dl ≤ CC_MAX_ELEMENTS := (Nat.le_div_iff_mul_le hdl).1 hle
  refine ⟨hcap, hdl, hmul, Nat.le_trans (Nat.le_mul_of_pos_right cap hdl) hmul, ?_, ?_⟩
  · intro hh
    simp only [Bool.or_eq_true, decide_eq_true_eq] at hh
    rcases hh with hh | hh
    · exact h1 (Or.inl hh)
    · exact h1 (Or.inr (Or.inl hh))
  · intro hh
    simp only [Bool.or_eq_true, decide_eq_true_eq] at hh
    rcases hh with hh | hh
    · exact h1 (Or.inr (Or.inr (Or.inl hh)))
    · exact h1 (Or.inr (Or.inr (Or.inr hh)))

/-- the constructor past its guards, as a function of the two allocator answers -/
theorem new_eq (dl cap : Nat) (grow : Nat → Nat) (exGe : Nat → Bool) (m : Mem) (t : Triple)
    (h : (ArraySized.new dl cap grow exGe m t).1 ≠ .errInvalidCapacity) :
    ArraySized.new dl cap grow exGe m t =
      (if !(m.allocT t).1 then (.errAlloc, none, (m.allocT t).2) else
       if !((m.allocT t).2.allocT t).1 then (.errAlloc, none, ((m.allocT t).2.allocT t).2.freeT t) else
       (.ok, some { dataLen := dl, size := 0, capacity := cap, grow := grow, buf := fresh (cap * dl), triple := t },
        ((m.allocT t).2.allocT t).2)) := by
  obtain ⟨_, _, _, _, g1, g2⟩ := new_guards dl cap grow exGe m t h
  unfold ArraySized.new
  rw [if_neg g1, if_neg g2]

/-- a successful construction yields an empty array satisfying the invariant, carrying the triple
it was constructed with and owning two blocks of that triple; the element size is ≥ 1 and the
buffer size in bytes `capacity * data_length` is at most `CC_MAX_ELEMENTS < 2^64` -/
theorem new_ok (dl cap : Nat) (grow : Nat → Nat) (exGe : Nat → Bool) (m m' : Mem) (t : Triple) (a : ArraySized)
    (hnew : ArraySized.new dl cap grow exGe m t = (.ok, some a, m')) :
    a.Inv ∧ a.abs = [] ∧ a.dataLen = dl ∧ a.capacity = cap ∧ a.grow = grow ∧
    own m' t = own m t + 2 ∧ m'.fault = m.fault ∧ a.capacity * a.dataLen ≤ CC_MAX_ELEMENTS ∧
    a.capacity * a.dataLen < 2 ^ 64 ∧ Other t m m' ∧ a.triple = t := by
  have hne : (ArraySized.new dl cap grow exGe m t).1 ≠ .errInvalidCapacity := by rw [hnew]; simp
  obtain ⟨hcap, hdl, hmul, hcm, _, _⟩ := new_guards dl cap grow exGe m t hne
  rw [new_eq dl cap grow exGe m t hne] at hnew
  rcases two_allocs m t with ⟨h1, h2, h3, h4, h5⟩ | ⟨h1, h2, _⟩ | ⟨h1, _⟩
  · rw [h1, h2] at hnew
    simp only [Bool.not_true, Bool.false_eq_true, if_false, Prod.mk.injEq, Option.some.injEq, true_and] at hnew
    obtain ⟨ha, hm⟩ := hnew
    subst ha hm
    have hM : CC_MAX_ELEMENTS < 2 ^ 64 := by decide
    exact ⟨⟨hdl, hcap, Nat.zero_le _, by simp [fresh], hmul⟩, by simp [abs], rfl, rfl, rfl,
      h3, h4, hmul, Nat.lt_of_le_of_lt hmul hM, h5, rfl⟩
  · rw [h1, h2] at hnew; simp at hnew
  · rw [h1] at hnew; simp at hnew

/-- a refused construction yields no object and leaves the ledger as it was; only the configured
allocator can refuse -/
theorem new_refused (dl cap : Nat) (grow : Nat → Nat) (exGe : Nat → Bool) (m : Mem) (t : Triple)
    (h : (ArraySized.new dl cap grow exGe m t).1 = .errAlloc) :
    (ArraySized.new dl cap grow exGe m t).2.1 = none ∧ MemSame t m (ArraySized.new dl cap grow exGe m t).2.2 ∧
    t = .conf := by
  have hne : (ArraySized.new dl cap grow exGe m t).1 ≠ .errInvalidCapacity := by rw [h]; simp
  rw [new_eq dl cap grow exGe m t hne] at h ⊢
  rcases two_allocs m t with ⟨h1, h2, _⟩ | ⟨h1, h2, h3, h4⟩ | ⟨h1, h3, h4⟩
  · rw [h1, h2] at h; simp at h
  · rw [h1, h2]; exact ⟨rfl, h4, h3⟩
  · rw [h1]; exact ⟨rfl, h4, h3⟩

/-- `destroy` releases the two blocks of an array through its own triple -/
theorem destroy_ledger (a : ArraySized) (m : Mem) (h : 2 ≤ own m a.triple) :
    own (a.destroy m) a.triple = own m a.triple - 2 ∧ (a.destroy m).fault = m.fault ∧
    Other a.triple m (a.destroy m) := by
  unfold destroy
  have f1 := freeT_pos m a.triple (by omega)
  have f2 := freeT_pos (m.freeT a.triple) a.triple (by omega)
  exact ⟨by rw [f2.1, f1.1]; omega, by rw [f2.2.1, f1.2.1], Other.trans f1.2.2 f2.2.2⟩

end CC.ArraySized
