import CollectionsC.Proofs.PListHistory
import CollectionsC.Proofs.PListSort
import CollectionsC.Proofs.PListZip
/-! Pointer-level model of `cc_list.c`, part 10: histories over the operations of `POp` **and** the operations that have no
counterpart in `Spec.LSeq.Op`: `sort_in_place`, `sort`, and the zip iterator's `add`/`remove` on the nodes at position `i` of the
two lists.  For these extended histories the pair invariant (both lists represented — well-formed —, disjoint, all nodes older
than the serial counter) is preserved; the content of the extra operations is given by their one-call theorems. -/
namespace CC.PList
open CC
open CC.Spec
open CC.Spec.LSeq (Op Out Params)

inductive XOp where
  | base (op : POp)
  | sortInPlace
  | sort
  | zipAdd (i x1 x2 : Nat)
  | zipRemove (i : Nat)

/-- node id at position `i` (along `next` from `head`) -/
def idAt (h : Heap) (l : Hdr) (i : Nat) : Option Nat := (idsNext h l.size l.head)[i]?

def xstep (P : Params) (sortFn : List Nat → List Nat) (p : PS) (op : XOp) (m : Mem) : PS × Mem :=
  match op with
  | .base o => let r := pstep P p o m; (r.2.1, r.2.2)
  | .sortInPlace => let r := sortInPlace P.cmp p.st p.l1 m; ({ p with st := r.1, l1 := r.2.1 }, r.2.2)
  | .sort => let r := sort sortFn p.st p.l1 m; ({ p with st := r.2.1, l1 := r.2.2.1 }, r.2.2.2)
  | .zipAdd i x1 x2 =>
    match idAt p.st.heap p.l1 i, idAt p.st.heap p.l2 i with
    | some n1, some n2 =>
      let r := zipAddAt p.st p.l1 p.l2 n1 n2 x1 x2 m
      ({ st := r.2.1, l1 := r.2.2.1, l2 := r.2.2.2.1 }, r.2.2.2.2)
    | _, _ => (p, m)
  | .zipRemove i =>
    match idAt p.st.heap p.l1 i, idAt p.st.heap p.l2 i with
    | some n1, some n2 =>
      let u1 := unlinkn p.st p.l1 n1 m
      let u2 := unlinkn u1.2.1 p.l2 n2 u1.2.2.2
      ({ st := u2.2.1, l1 := u1.2.2.1, l2 := u2.2.2.1 }, u2.2.2.2)
    | _, _ => (p, m)

def xrun (P : Params) (sortFn : List Nat → List Nat) (p : PS) (ops : List XOp) (m : Mem) : PS × Mem :=
  match ops with
  | [] => (p, m)
  | op :: ops => let r := xstep P sortFn p op m; xrun P sortFn r.1 ops r.2

theorem idAt_repr {h : Heap} {l : Hdr} {cs : List Cell} (r : Repr h l cs) (i : Nat) : idAt h l i = (idsOf cs)[i]? := by
  unfold idAt; rw [r.size, r.head, idsNext_seg cs.length r.seg (Nat.le_refl _)]

theorem mem_drop_mid' {pre' rest : List Cell} {c : Cell} {b : Nat} (hb : b ∈ idsOf (pre' ++ rest)) : b ∈ idsOf (pre' ++ c :: rest) := by
  simp only [idsOf_append, idsOf_cons, List.mem_append, List.mem_cons] at hb ⊢
  rcases hb with h | h
  · exact Or.inl h
  · exact Or.inr (Or.inr h)

/-- **one step of an extended history keeps the pair invariant** -/
theorem xstep_inv (P : Params) (hc : LSeq.CmpPreorder P.cmp) (sortFn : List Nat → List Nat) (hlen : ∀ xs, (sortFn xs).length = xs.length)
    (p : PS) (c1 c2 : List Cell) (op : XOp) (m : Mem) (I : Inv2 p c1 c2) :
    ∃ c1' c2', Inv2 (xstep P sortFn p op m).1 c1' c2' := by
  cases op with
  | base o =>
    obtain ⟨d1, d2, I', _⟩ := pstep_refines P p c1 c2 o m I
    exact ⟨d1, d2, I'⟩
  | sortInPlace =>
    obtain ⟨r1, _, f1, fr, _⟩ := sortInPlace_spec hc p.st p.l1 c1 m I.rep.r1
    have hp := msortC_perm (cmp := P.cmp) c1.length c1
    refine ⟨msortC P.cmp c1.length c1, c2, ⟨⟨r1, ?_, fun x hx hx2 => I.rep.disj x ((ids_perm_mem hp x).1 hx) hx2⟩, ?_, ?_⟩⟩
    · exact ⟨I.rep.r2.nodup, Seg_frame (fun b hb => fr b (fun hm => I.rep.disj b hm hb)) I.rep.r2.seg, I.rep.r2.size, I.rep.r2.head, I.rep.r2.tail⟩
    · intro x hx; simp only [xstep]; rw [f1]; exact I.b1 x ((ids_perm_mem hp x).1 hx)
    · intro x hx; simp only [xstep]; rw [f1]; exact I.b2 x hx
  | sort =>
    obtain ⟨se, sr, sg⟩ := sort_spec sortFn hlen p.st p.l1 c1 m I.rep.r1
    by_cases hne : c1 = []
    · simp only [xstep]; rw [se hne]; exact ⟨c1, c2, I⟩
    · by_cases ha : (m.allocT p.l1.triple).1 = true
      · obtain ⟨_, g2, _, g4, g5, g6, _, g8⟩ := sg hne ha
        simp only [xstep]
        rw [g2]
        refine ⟨withData c1 (sortFn (dataOf c1)), c2, ⟨⟨g5, ?_, fun x hx hx2 => I.rep.disj x (g6 ▸ hx) hx2⟩, ?_, ?_⟩⟩
        · exact ⟨I.rep.r2.nodup, Seg_frame (fun b hb => g8 b (fun hm => I.rep.disj b hm hb)) I.rep.r2.seg, I.rep.r2.size, I.rep.r2.head, I.rep.r2.tail⟩
        · intro x hx; simp only []; rw [g4]; exact I.b1 x (g6 ▸ hx)
        · intro x hx; simp only []; rw [g4]; exact I.b2 x hx
      · have ha' : (m.allocT p.l1.triple).1 = false := by simpa using ha
        simp only [xstep]; rw [sr hne ha']; exact ⟨c1, c2, I⟩
  | zipAdd i x1 x2 =>
    simp only [xstep, idAt_repr I.rep.r1, idAt_repr I.rep.r2]
    by_cases h1 : i < c1.length
    · by_cases h2 : i < c2.length
      · obtain ⟨p1, a1, q1, e1, _, g1, _⟩ := split_at c1 i h1
        obtain ⟨p2, a2, q2, e2, _, g2, _⟩ := split_at c2 i h2
        simp only [g1, g2]
        subst e1; subst e2
        obtain ⟨z1, z2, z3⟩ := zipAddAt_spec p.st p.l1 p.l2 p1 q1 p2 q2 a1 a2 x1 x2 m I.rep I.b1 I.b2
        by_cases a : (m.allocT p.l1.triple).1 = true
        · by_cases b : ((m.allocT p.l1.triple).2.allocT p.l2.triple).1 = true
          · obtain ⟨_, _, r2, _, _, hf, _⟩ := z3 a b
            refine ⟨_, _, ⟨r2, fun x hx => ?_, fun x hx => ?_⟩⟩
            · simp only []; rw [hf]
              rcases mem_ins hx with h | h
              · have := I.b1 x h; omega
              · omega
            · simp only []; rw [hf]
              rcases mem_ins hx with h | h
              · have := I.b2 x h; omega
              · omega
          · have b' : ((m.allocT p.l1.triple).2.allocT p.l2.triple).1 = false := by simpa using b
            rw [z2 a b']; exact ⟨_, _, I⟩
        · have a' : (m.allocT p.l1.triple).1 = false := by simpa using a
          rw [z1 a']; exact ⟨_, _, I⟩
      · have : (idsOf c2)[i]? = none := by simp [idsOf]; omega
        simp only [this]
        cases (idsOf c1)[i]? <;> exact ⟨c1, c2, I⟩
    · have : (idsOf c1)[i]? = none := by simp [idsOf]; omega
      simp only [this]
      exact ⟨c1, c2, I⟩
  | zipRemove i =>
    simp only [xstep, idAt_repr I.rep.r1, idAt_repr I.rep.r2]
    by_cases h1 : i < c1.length
    · by_cases h2 : i < c2.length
      · obtain ⟨p1, a1, q1, e1, _, g1, _⟩ := split_at c1 i h1
        obtain ⟨p2, a2, q2, e2, _, g2, _⟩ := split_at c2 i h2
        simp only [g1, g2]
        subst e1; subst e2
        obtain ⟨_, _, _, r2⟩ := zipRemove_spec p.st p.l1 p.l2 p1 q1 p2 q2 a1 a2 m I.rep I.b1 I.b2
        exact ⟨_, _, ⟨r2, fun x hx => I.b1 x (mem_drop_mid' hx), fun x hx => I.b2 x (mem_drop_mid' hx)⟩⟩
      · have : (idsOf c2)[i]? = none := by simp [idsOf]; omega
        simp only [this]
        cases (idsOf c1)[i]? <;> exact ⟨c1, c2, I⟩
    · have : (idsOf c1)[i]? = none := by simp [idsOf]; omega
      simp only [this]
      exact ⟨c1, c2, I⟩

/-- **extended histories keep the pair invariant** -/
theorem xrun_inv (P : Params) (hc : LSeq.CmpPreorder P.cmp) (sortFn : List Nat → List Nat) (hlen : ∀ xs, (sortFn xs).length = xs.length) :
    ∀ (ops : List XOp) (p : PS) (c1 c2 : List Cell) (m : Mem), Inv2 p c1 c2 → ∃ c1' c2', Inv2 (xrun P sortFn p ops m).1 c1' c2'
  | [], p, c1, c2, _, I => ⟨c1, c2, I⟩
  | op :: ops, p, c1, c2, m, I => by
    obtain ⟨d1, d2, I'⟩ := xstep_inv P hc sortFn hlen p c1 c2 op m I
    exact xrun_inv P hc sortFn hlen ops _ d1 d2 _ I'

end CC.PList
