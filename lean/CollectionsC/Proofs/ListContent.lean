import CollectionsC.Proofs.ListAlloc
/-! Histories **without** the `Compat` restriction.  `splice`/`splice_at` between lists on different allocator triples
break the *ledger* statements of `StepRefines` (the destination later releases blocks through a triple that never handed
them out — a known finding), but statuses, out-values, contents and the representation invariant do not depend on the
ledger counters at all: a step consults the ledger only through the outcomes of its allocator calls (`step_indep`).  So the
content part of the refinement holds for **every** history, every pair of triples, from any ledger: for the operations other
than `splice*` it is transported from `StepRefines` on a ledger with enough live blocks; for `splice*` it is read off
the closed forms. -/
namespace CC.ListHistory
open CC Chain
open CC.Spec
open CC.Spec.LSeq (Op Out Params)

/-- the ledger-free part of `StepRefines` -/
def StepContent (dbl : Bool) (P : Params) (s : Chain × Chain) (op : Op) (r : Out × (Chain × Chain) × Mem) : Prop :=
  r.2.1.1.Inv ∧ r.2.1.2.Inv ∧
  (r.1.st = some .errAlloc → r.1 = { st := some .errAlloc } ∧ r.2.1 = s) ∧
  (r.1.st ≠ some .errAlloc → (r.1, (r.2.1.1.abs, r.2.1.2.abs)) = LSeq.step dbl P (s.1.abs, s.2.abs) op)

/-- the same schedule, `n` more live blocks on either allocator -/
def pump (m : Mem) (n : Nat) : Mem := { m with live := m.live + n, liveLibc := m.liveLibc + n }

theorem pairOk_pump {s : Chain × Chain} (m : Mem) (h1 : s.1.Inv) (h2 : s.2.Inv) :
    PairOk s (pump m (s.1.abs.length + s.2.abs.length)) := by
  refine ⟨h1, h2, fun t => ?_⟩
  simp only [owned, ownedBy]
  cases t <;> simp only [Mem.liveT, pump] <;> (split <;> split <;> omega)

variable {dbl : Bool} {P : Params} {f : StepFn}

theorem stepContent_of_refines
    (hf : ∀ s op m, PairOk s m → SpliceOk s.1.triple s.2.triple op → StepRefines dbl P s op m (f s op m))
    (hind : ∀ s op m1 m2, s.1.Inv → s.2.Inv → m1.sched = m2.sched →
      (f s op m1).1 = (f s op m2).1 ∧ (f s op m1).2.1 = (f s op m2).2.1)
    (hsp : ∀ s op m, s.1.Inv → s.2.Inv → isSplice op = true → StepContent dbl P s op (f s op m))
    (s : Chain × Chain) (op : Op) (m : Mem) (h1 : s.1.Inv) (h2 : s.2.Inv) : StepContent dbl P s op (f s op m) := by
  by_cases hs : isSplice op = true
  · exact hsp s op m h1 h2 hs
  · have hok : SpliceOk s.1.triple s.2.triple op := by
      intro h
      rcases h with e | ⟨i, e⟩ <;> (subst e; simp [isSplice] at hs)
    obtain ⟨p1, _, p2, p3, _⟩ := hf s op _ (pairOk_pump m h1 h2) hok
    obtain ⟨e1, e2⟩ := hind s op m (pump m (s.1.abs.length + s.2.abs.length)) h1 h2 rfl
    unfold StepContent
    rw [e1, e2]
    exact ⟨p1.1, p1.2.1, fun he => ⟨(p2 he).1, (p2 he).2.1⟩, p3⟩

/-- **histories, content part, no restriction on `splice`**: outputs and final contents are those of the ideal lists on
which exactly the refused operations did not happen; both lists satisfy the invariant at the end -/
theorem run_content (hc : ∀ s op m, s.1.Inv → s.2.Inv → StepContent dbl P s op (f s op m)) :
    ∀ (ops : List Op) (s : Chain × Chain) (m : Mem), s.1.Inv → s.2.Inv →
      (runWith f s ops m).1 = (LSeq.runSkipping dbl P (s.1.abs, s.2.abs) ops ((runWith f s ops m).1.map (·.st))).1 ∧
      ((runWith f s ops m).2.1.1.abs, (runWith f s ops m).2.1.2.abs) =
        (LSeq.runSkipping dbl P (s.1.abs, s.2.abs) ops ((runWith f s ops m).1.map (·.st))).2 ∧
      (runWith f s ops m).2.1.1.Inv ∧ (runWith f s ops m).2.1.2.Inv
  | [], _, _, h1, h2 => ⟨rfl, rfl, h1, h2⟩
  | op :: ops, s, m, h1, h2 => by
    obtain ⟨i1, i2, c2, c3⟩ := hc s op m h1 h2
    have ih := run_content hc ops (f s op m).2.1 (f s op m).2.2 i1 i2
    simp only [runWith, List.map_cons, LSeq.runSkipping]
    by_cases he : (f s op m).1.st = some .errAlloc
    · obtain ⟨e1, e2⟩ := c2 he
      rw [if_pos he]
      have ea : ((f s op m).2.1.1.abs, (f s op m).2.1.2.abs) = (s.1.abs, s.2.abs) := by rw [e2]
      rw [ea] at ih
      refine ⟨?_, ih.2.1, ih.2.2.1, ih.2.2.2⟩
      simp only []; rw [← ih.1, ← e1]
    · have e := c3 he
      rw [if_neg he]
      have e1 : (LSeq.step dbl P (s.1.abs, s.2.abs) op).1 = (f s op m).1 := by rw [← e]
      have e2 : (LSeq.step dbl P (s.1.abs, s.2.abs) op).2 = ((f s op m).2.1.1.abs, (f s op m).2.1.2.abs) := by rw [← e]
      simp only [e1, e2]
      exact ⟨by rw [← ih.1], ih.2.1, ih.2.2.1, ih.2.2.2⟩

/-! ### the two list models -/
theorem dlist_splice_content (P : Params) (s : Chain × Chain) (op : Op) (m : Mem) (h1 : s.1.Inv) (h2 : s.2.Inv)
    (hs : isSplice op = true) : StepContent true P s op (DList.step P s op m) := by
  have e : s = (ofList s.1.triple s.1.abs, ofList s.2.triple s.2.abs) := by rw [← h1.eq, ← h2.eq]
  generalize s.1.abs = a, s.2.abs = b, s.1.triple = t1, s.2.triple = t2 at e
  subst e
  cases op <;> simp [isSplice] at hs
  · simp only [StepContent, DList.step, DList.splice_ofList, LSeq.step, LSeq.splice, ofList_abs]
    refine ⟨ofList_inv _, ofList_inv _, by simp, fun _ => ?_⟩
    by_cases hb : b = [] <;> simp [hb]
  · simp only [StepContent, DList.step, DList.spliceAt_ofList, LSeq.step, ofList_abs]
    exact ⟨ofList_inv _, ofList_inv _, by simp [LSeq.spliceAt]; (repeat' split) <;> simp, fun _ => trivial⟩

theorem slist_splice_content (P : Params) (s : Chain × Chain) (op : Op) (m : Mem) (h1 : s.1.Inv) (h2 : s.2.Inv)
    (hs : isSplice op = true) : StepContent false P s op (SList.step P s op m) := by
  have e : s = (ofList s.1.triple s.1.abs, ofList s.2.triple s.2.abs) := by rw [← h1.eq, ← h2.eq]
  generalize s.1.abs = a, s.2.abs = b, s.1.triple = t1, s.2.triple = t2 at e
  subst e
  cases op <;> simp [isSplice] at hs
  · simp only [StepContent, SList.step, SList.splice_ofList, LSeq.step, LSeq.splice, ofList_abs]
    refine ⟨ofList_inv _, ofList_inv _, by simp, fun _ => ?_⟩
    by_cases hb : b = [] <;> simp [hb]
  · simp only [StepContent, SList.step, SList.spliceAt_ofList, LSeq.step, ofList_abs]
    exact ⟨ofList_inv _, ofList_inv _, by simp [LSeq.spliceAt]; (repeat' split) <;> simp, fun _ => trivial⟩

end CC.ListHistory
