import CollectionsC.Model.PTSTHistory
import CollectionsC.Proofs.PTSTIter
/-! Pointer-level TST histories: when does `cc_tsttable_add` succeed under a refusal schedule (inductive model), and
the pointer level's own count of the allocator requests (`addNeeds`) is the inductive one. -/
set_option linter.unusedSimpArgs false
set_option linter.unusedVariables false
namespace CC.TST
local macro "triv" : tactic => `(tactic| first | rfl | trivial | simp)

/-- allocator requests of a successful `add` below a node, for the remaining key `ks` (mirrors `Node.ins`) -/
def needsI (cmp : Cmp) : Node → Key → Nat
  | .nil, ks => chainLen ks + 1
  | .node _ d _ _ _, [] => if d.isSome then 0 else 1
  | .node c d l m r, x :: xs =>
    match cmp x c with
    | .lt => needsI cmp l (x :: xs)
    | .gt => needsI cmp r (x :: xs)
    | .eq => match xs with
      | [] => if d.isSome then 0 else 1
      | y :: ys => needsI cmp m (y :: ys)

theorem alloc_conf_ok (m : Mem) : (m.allocT .conf).1 = (m.sched.take 1).all (!·) ∧
    (m.allocT .conf).2.sched = m.sched.drop 1 := by
  simp only [Mem.allocT_conf]
  unfold Mem.alloc
  cases hs : m.sched with
  | nil => simp
  | cons b rest => cases b <;> simp

theorem free_conf_sched (m : Mem) : (m.freeT .conf).sched = m.sched := by
  simp only [Mem.freeT_conf]; unfold Mem.free; split <;> rfl

theorem alloc_cases (m : Mem) :
    (m.sched = [] ∧ m.alloc.1 = true ∧ m.alloc.2.sched = []) ∨
    (∃ rest, m.sched = true :: rest ∧ m.alloc.1 = false) ∨
    (∃ rest, m.sched = false :: rest ∧ m.alloc.1 = true ∧ m.alloc.2.sched = rest) := by
  unfold Mem.alloc
  cases hs : m.sched with
  | nil => left; simp
  | cons b rest => cases b <;> simp

theorem allocChain_conf_ok : ∀ (n made : Nat) (m : Mem),
    (allocChain .conf n made m).1 = (m.sched.take n).all (!·) ∧
    ((allocChain .conf n made m).1 = true → (allocChain .conf n made m).2.sched = m.sched.drop n) := by
  intro n
  induction n with
  | zero => intro made m; simp [allocChain]
  | succ n ih =>
    intro made m
    simp only [allocChain, Mem.allocT_conf]
    obtain ⟨i1, i2⟩ := ih (made + 1) m.alloc.2
    rcases alloc_cases m with ⟨hs, h1, h2⟩ | ⟨rest, hs, h1⟩ | ⟨rest, hs, h1, h2⟩
    · rw [h2] at i1 i2
      simp only [h1, hs, Bool.not_true, Bool.false_eq_true, if_false]
      refine ⟨by rw [i1]; simp, fun h => by rw [i2 h]; simp⟩
    · simp [h1, hs]
    · rw [h2] at i1 i2
      simp only [h1, hs, Bool.not_true, Bool.false_eq_true, if_false]
      refine ⟨by rw [i1]; simp, fun h => by rw [i2 h]; simp⟩

theorem all_take_succ (l : List Bool) (n : Nat) :
    (l.take (n + 1)).all (!·) = ((l.take n).all (!·) && ((l.drop n).take 1).all (!·)) := by
  rw [List.take_add, List.all_append]

theorem setData_conf_ok (key : Key) (v c : Nat) (d : Option Entry) (l m r : Node) (mem : Mem) :
    ((setData .conf key v c d l m r mem).st = .ok) ↔ (mem.sched.take (if d.isSome then 0 else 1)).all (!·) = true := by
  cases d with
  | some e => simp [setData]
  | none =>
    obtain ⟨a1, _⟩ := alloc_conf_ok mem
    simp only [setData, Option.isSome_none, Bool.false_eq_true, if_false]
    rw [← a1]
    cases (mem.allocT .conf).1 <;> simp

/-- **when `add` succeeds** (configured allocator): iff none of its first `needsI` requests is refused -/
theorem ins_conf_ok_iff (cmp : Cmp) (key : Key) (v : Nat) : ∀ (t : Node) (ks : Key) (mem : Mem),
    (t.ins .conf cmp key v ks mem).st = .ok ↔ (mem.sched.take (needsI cmp t ks)).all (!·) = true := by
  intro t
  induction t with
  | nil =>
    intro ks mem
    obtain ⟨a1, a2⟩ := allocChain_conf_ok (chainLen ks) 0 mem
    simp only [Node.ins, needsI]
    rw [all_take_succ]
    rcases Bool.eq_false_or_eq_true (allocChain .conf (chainLen ks) 0 mem).1 with ha | ha
    · obtain ⟨b1, _⟩ := alloc_conf_ok (allocChain .conf (chainLen ks) 0 mem).2
      rw [a2 ha] at b1
      rw [← a1, ha, ← b1]
      simp only [Bool.not_true, Bool.false_eq_true, if_false, Bool.true_and]
      cases ((allocChain .conf (chainLen ks) 0 mem).2.allocT .conf).1 <;> simp
    · rw [← a1, ha]; simp
  | node c d l m r ihl ihm ihr =>
    intro ks mem
    cases ks with
    | nil => simp only [Node.ins, needsI]; exact setData_conf_ok key v c d l m r mem
    | cons x xs =>
      simp only [Node.ins, needsI]
      cases cmp x c <;> simp only []
      · exact ihl _ _
      · cases xs with
        | nil => exact setData_conf_ok key v c d l m r mem
        | cons y ys => exact ihm _ _
      · exact ihr _ _

/-- **when `cc_tsttable_add` succeeds**, for either allocator triple -/
theorem Table.add_ok_iff (cmp : Cmp) (t : Table) (key : Key) (v : Nat) (mem : Mem) :
    (t.add cmp key v mem).1 = .ok ↔ PTST.granted t.triple (needsI cmp t.root key) mem.sched = true := by
  cases htr : t.triple with
  | libc =>
    have h1 : PTST.granted .libc (needsI cmp t.root key) mem.sched = true := rfl
    rw [h1]; exact ⟨fun _ => rfl, fun _ => Table.add_libc_ok t key v mem htr⟩
  | conf =>
    have := ins_conf_ok_iff cmp key v t.root key mem
    simp only [Table.add, htr, PTST.granted]
    rw [this]; simp

end CC.TST

namespace CC.PTST
open CC CC.TST
local macro "triv" : tactic => `(tactic| first | rfl | trivial | simp)

/-- the count of requests along the descent -/
theorem needsI_descI (cmp : Cmp) (key : Key) : ∀ (s : INode) (r : Last), r.matched ≤ key.length →
    needsI cmp s.erase (key.drop r.matched) =
      (match (descI cmp key s r).2 with
       | .nil => chainLen (key.drop (descI cmp key s r).1.matched) + 1
       | .node _ _ d _ _ _ => if d.isSome then 0 else 1) := by
  intro s
  induction s with
  | nil =>
    intro r _
    have e : descI cmp key .nil r = (r, .nil) := rfl
    rw [e]; simp [needsI]
  | node id c d l m r' ihl ihm ihr =>
    intro r hle
    simp only [descI]
    by_cases hm : r.matched < key.length
    · simp only [hm, not_true_eq_false, if_false]
      have hdrop : key.drop r.matched = key.getD r.matched 0 :: key.drop (r.matched + 1) := by
        rw [List.drop_eq_getElem_cons hm]; simp [List.getD_eq_getElem?_getD, List.getElem?_eq_getElem hm]
      rw [hdrop]
      simp only [INode.erase_node, needsI]
      cases hc : cmp (key.getD r.matched 0) c <;> simp only []
      · rw [← hdrop]; exact ihl { r with parent := id, slot := .left id } hle
      · by_cases he : r.matched + 1 = key.length
        · have : key.drop (r.matched + 1) = [] := by rw [he]; simp
          simp [he, this]
        · simp only [he, if_false]
          have hne : key.drop (r.matched + 1) ≠ [] := by
            intro h; have := List.drop_eq_nil_iff.mp h; omega
          cases hk : key.drop (r.matched + 1) with
          | nil => exact absurd hk hne
          | cons y ys =>
            simp only []
            rw [← hk]
            exact ihm { parent := id, slot := .mid id, matched := r.matched + 1 } (by simp; omega)
      · rw [← hdrop]; exact ihr { r with parent := id, slot := .right id } hle
    · have he : r.matched = key.length := by omega
      simp only [hm, not_false_eq_true, if_true]
      rw [he]
      simp [needsI]

/-- the pointer level counts the allocator requests of `add` like the inductive model -/
theorem addNeeds_eq (cmp : Cmp) {st : PT} {t : INode} (h : Represents st t) (key : Key) :
    addNeeds cmp st key = needsI cmp t.erase key := by
  obtain ⟨g1, g2⟩ := getLast_rep cmp h key
  obtain ⟨p', hrep⟩ := descI_rep cmp key t 0 {} h.rep
  have hn := needsI_descI cmp key t {} (by simp)
  simp only [List.drop_zero] at hn
  rw [hn]
  unfold addNeeds
  simp only [g1, g2]
  cases hT : (descI cmp key t {}).2 with
  | nil => simp
  | node id c d l m r =>
    rw [hT] at hrep
    simp only [INode.rid_node, ne_eq, hrep.1, not_false_eq_true, if_true, hrep.2.1]

end CC.PTST
