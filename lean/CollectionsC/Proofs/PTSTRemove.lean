import CollectionsC.Proofs.PTSTAdd
/-! Pointer-level TST: `remove_eow_node` — the upward pruning loop over `parent` — against the annotated
trie and the recursive `remAt` of the inductive model. -/
set_option linter.unusedSimpArgs false
set_option linter.unusedVariables false
namespace CC.PTST
open CC CC.TST

/-! ### pruning on the annotated trie -/

/-- the pruning loop started at the (entry-less) node at path `q`, as a recursion from the root:
new subtree, "this slot was emptied", ids freed (bottom-up) -/
def pruneI : INode → Path → INode × Bool × List Nat
  | .nil, _ => (.nil, false, [])
  | .node id c d l m r, [] =>
    if l = .nil ∧ m = .nil ∧ r = .nil ∧ d = none then (.nil, true, [id]) else (.node id c d l m r, false, [])
  | .node id c d l m r, .L :: q =>
    let x := pruneI l q
    if x.2.1 = true ∧ x.1 = .nil ∧ m = .nil ∧ r = .nil ∧ d = none then (.nil, true, x.2.2 ++ [id])
    else (.node id c d x.1 m r, false, x.2.2)
  | .node id c d l m r, .M :: q =>
    let x := pruneI m q
    if x.2.1 = true ∧ l = .nil ∧ x.1 = .nil ∧ r = .nil ∧ d = none then (.nil, true, x.2.2 ++ [id])
    else (.node id c d l x.1 r, false, x.2.2)
  | .node id c d l m r, .R :: q =>
    let x := pruneI r q
    if x.2.1 = true ∧ l = .nil ∧ m = .nil ∧ x.1 = .nil ∧ d = none then (.nil, true, x.2.2 ++ [id])
    else (.node id c d l m x.1, false, x.2.2)

theorem INode.erase_isNil (t : INode) : t.erase.isNil = true ↔ t = .nil := by cases t <;> simp [Node.isNil]

theorem pruneI_pruned_nil (s : INode) (q : Path) (h : (pruneI s q).2.1 = true) : (pruneI s q).1 = .nil := by
  cases s with
  | nil => simp [pruneI] at h
  | node id c d l m r =>
    cases q with
    | nil => simp only [pruneI] at h ⊢; split <;> simp_all
    | cons dir q => cases dir <;> simp only [pruneI] at h ⊢ <;> split <;> simp_all

/-- **`pruneI` after clearing the entry is the inductive `remAt`** (tree and "slot emptied" flag) -/
theorem erase_pruneI (tr : Triple) : ∀ (t : INode) (p : Path) (mem : Mem) (e : Entry), t.ids.Nodup →
    (t.sub p).data? = some e →
    (pruneI (t.setDataI (t.sub p).rid none) p).1.erase = (t.erase.remAt tr p mem).node ∧
    (pruneI (t.setDataI (t.sub p).rid none) p).2.1 = (t.erase.remAt tr p mem).pruned := by
  intro t
  induction t with
  | nil => intro p mem e _ h; cases p <;> simp [INode.sub, INode.data?] at h
  | node id c d l m r ihl ihm ihr =>
    intro p mem e hnd hd
    simp only [INode.ids_node, List.nodup_cons, List.mem_append, not_or, List.nodup_append] at hnd
    obtain ⟨⟨⟨hil, him⟩, hir⟩, ⟨⟨ndl, ndm, dlm⟩, ndr, dlr⟩⟩ := hnd
    cases p with
    | nil =>
      simp only [INode.sub, INode.data?] at hd; subst hd
      simp only [INode.sub, INode.rid_node, INode.setDataI, if_true, pruneI, INode.erase_node, Node.remAt, true_and]
      by_cases hc : l = .nil ∧ m = .nil ∧ r = .nil
      · obtain ⟨h1, h2, h3⟩ := hc; subst h1 h2 h3
        simp [Node.isNil]
      · have : ¬ (l.erase.isNil && m.erase.isNil && r.erase.isNil) = true := by
          simp only [Bool.and_eq_true, INode.erase_isNil]; intro h; exact hc ⟨h.1.1, h.1.2, h.2⟩
        simp [hc, this]
    | cons dir p =>
      -- the target lies in one child; the node itself and the other children are not touched
      have hsub : ∀ (ch : INode), (ch.sub p).data? = some e → (ch.sub p).rid ∈ ch.ids := by
        intro ch hch
        have hne : ch.sub p ≠ .nil := by intro e; rw [e] at hch; simp [INode.data?] at hch
        have : ∀ (s : INode) (q : Path), s.sub q ≠ .nil → (s.sub q).rid ∈ s.ids := by
          intro s q
          induction q generalizing s with
          | nil => intro hs; cases s with
            | nil => exact absurd rfl hs
            | node _ _ _ _ _ _ => simp [INode.sub]
          | cons dd q ih =>
            intro hs
            cases s with
            | nil => simp [INode.sub] at hs
            | node id c d l m r =>
              cases dd <;> simp only [INode.sub] at hs ⊢ <;> have := ih _ hs <;> simp [this]
        exact this ch p hne
      cases dir
      · simp only [INode.sub] at hd ⊢
        have hx := hsub l hd
        have hne : id ≠ (l.sub p).rid := fun e => hil (e ▸ hx)
        have hm' : (l.sub p).rid ∉ m.ids := fun hh => dlm _ hx _ hh rfl
        have hr' : (l.sub p).rid ∉ r.ids := fun hh => dlr _ (Or.inl hx) _ hh rfl
        simp only [INode.setDataI, hne, if_false, INode.setDataI_not_mem m _ _ hm', INode.setDataI_not_mem r _ _ hr',
          pruneI, INode.erase_node, Node.remAt]
        obtain ⟨i1, i2⟩ := ihl p mem e ndl hd
        unfold rebuild
        rw [← i2, ← i1]
        simp only [Bool.and_eq_true, INode.erase_isNil, Option.isNone_iff_eq_none]
        by_cases hc : (pruneI (l.setDataI (l.sub p).rid none) p).2.1 = true ∧
            (pruneI (l.setDataI (l.sub p).rid none) p).1 = .nil ∧ m = .nil ∧ r = .nil ∧ d = none
        · have hc' : ((((pruneI (l.setDataI (l.sub p).rid none) p).2.1 = true ∧
              (pruneI (l.setDataI (l.sub p).rid none) p).1 = .nil) ∧ m = .nil) ∧ r = .nil) ∧ d = none :=
            ⟨⟨⟨⟨hc.1, hc.2.1⟩, hc.2.2.1⟩, hc.2.2.2.1⟩, hc.2.2.2.2⟩
          simp [hc, hc']
        · have hc' : ¬ (((((pruneI (l.setDataI (l.sub p).rid none) p).2.1 = true ∧
              (pruneI (l.setDataI (l.sub p).rid none) p).1 = .nil) ∧ m = .nil) ∧ r = .nil) ∧ d = none) :=
            fun g => hc ⟨g.1.1.1.1, g.1.1.1.2, g.1.1.2, g.1.2, g.2⟩
          simp [hc, hc']
      · simp only [INode.sub] at hd ⊢
        have hx := hsub m hd
        have hne : id ≠ (m.sub p).rid := fun e => him (e ▸ hx)
        have hl' : (m.sub p).rid ∉ l.ids := fun hh => dlm _ hh _ hx rfl
        have hr' : (m.sub p).rid ∉ r.ids := fun hh => dlr _ (Or.inr hx) _ hh rfl
        simp only [INode.setDataI, hne, if_false, INode.setDataI_not_mem l _ _ hl', INode.setDataI_not_mem r _ _ hr',
          pruneI, INode.erase_node, Node.remAt]
        obtain ⟨i1, i2⟩ := ihm p mem e ndm hd
        unfold rebuild
        rw [← i2, ← i1]
        simp only [Bool.and_eq_true, INode.erase_isNil, Option.isNone_iff_eq_none]
        by_cases hc : (pruneI (m.setDataI (m.sub p).rid none) p).2.1 = true ∧ l = .nil ∧
            (pruneI (m.setDataI (m.sub p).rid none) p).1 = .nil ∧ r = .nil ∧ d = none
        · have hc' : ((((pruneI (m.setDataI (m.sub p).rid none) p).2.1 = true ∧ l = .nil) ∧
              (pruneI (m.setDataI (m.sub p).rid none) p).1 = .nil) ∧ r = .nil) ∧ d = none :=
            ⟨⟨⟨⟨hc.1, hc.2.1⟩, hc.2.2.1⟩, hc.2.2.2.1⟩, hc.2.2.2.2⟩
          simp [hc, hc']
        · have hc' : ¬ (((((pruneI (m.setDataI (m.sub p).rid none) p).2.1 = true ∧ l = .nil) ∧
              (pruneI (m.setDataI (m.sub p).rid none) p).1 = .nil) ∧ r = .nil) ∧ d = none) :=
            fun g => hc ⟨g.1.1.1.1, g.1.1.1.2, g.1.1.2, g.1.2, g.2⟩
          simp [hc, hc']
      · simp only [INode.sub] at hd ⊢
        have hx := hsub r hd
        have hne : id ≠ (r.sub p).rid := fun e => hir (e ▸ hx)
        have hl' : (r.sub p).rid ∉ l.ids := fun hh => dlr _ (Or.inl hh) _ hx rfl
        have hm' : (r.sub p).rid ∉ m.ids := fun hh => dlr _ (Or.inr hh) _ hx rfl
        simp only [INode.setDataI, hne, if_false, INode.setDataI_not_mem l _ _ hl', INode.setDataI_not_mem m _ _ hm',
          pruneI, INode.erase_node, Node.remAt]
        obtain ⟨i1, i2⟩ := ihr p mem e ndr hd
        unfold rebuild
        rw [← i2, ← i1]
        simp only [Bool.and_eq_true, INode.erase_isNil, Option.isNone_iff_eq_none]
        by_cases hc : (pruneI (r.setDataI (r.sub p).rid none) p).2.1 = true ∧ l = .nil ∧ m = .nil ∧
            (pruneI (r.setDataI (r.sub p).rid none) p).1 = .nil ∧ d = none
        · have hc' : ((((pruneI (r.setDataI (r.sub p).rid none) p).2.1 = true ∧ l = .nil) ∧ m = .nil) ∧
              (pruneI (r.setDataI (r.sub p).rid none) p).1 = .nil) ∧ d = none :=
            ⟨⟨⟨⟨hc.1, hc.2.1⟩, hc.2.2.1⟩, hc.2.2.2.1⟩, hc.2.2.2.2⟩
          simp [hc, hc']
        · have hc' : ¬ (((((pruneI (r.setDataI (r.sub p).rid none) p).2.1 = true ∧ l = .nil) ∧ m = .nil) ∧
              (pruneI (r.setDataI (r.sub p).rid none) p).1 = .nil) ∧ d = none) :=
            fun g => hc ⟨g.1.1.1.1, g.1.1.1.2, g.1.1.2, g.1.2, g.2⟩
          simp [hc, hc']

theorem pruneI_rid (s : INode) (q : Path) (h : (pruneI s q).2.1 = false) : (pruneI s q).1.rid = s.rid := by
  cases s with
  | nil => rfl
  | node id c d l m r =>
    cases q with
    | nil => simp only [pruneI] at h ⊢; split <;> simp_all
    | cons dir q => cases dir <;> simp only [pruneI] at h ⊢ <;> split <;> simp_all

/-- when the whole subtree is pruned, the freed ids are exactly its ids -/
theorem pruneI_freed_all (s : INode) (q : Path) (h : (pruneI s q).2.1 = true) :
    ∀ j, j ∈ (pruneI s q).2.2 ↔ j ∈ s.ids := by
  induction s generalizing q with
  | nil => simp [pruneI] at h
  | node id c d l m r ihl ihm ihr =>
    cases q with
    | nil =>
      simp only [pruneI] at h ⊢
      by_cases hc : l = .nil ∧ m = .nil ∧ r = .nil ∧ d = none
      · rw [if_pos hc]; obtain ⟨h1, h2, h3, _⟩ := hc; subst h1 h2 h3; intro j; simp
      · rw [if_neg hc] at h; simp at h
    | cons dir q =>
      cases dir <;> simp only [pruneI] at h ⊢
      · by_cases hc : (pruneI l q).2.1 = true ∧ (pruneI l q).1 = .nil ∧ m = .nil ∧ r = .nil ∧ d = none
        · rw [if_pos hc]; obtain ⟨h1, _, h3, h4, _⟩ := hc; subst h3 h4
          intro j; have := ihl q h1 j; simp only [List.mem_append, List.mem_singleton, INode.ids_node, INode.ids_nil,
            List.append_nil, List.mem_cons]; grind
        · rw [if_neg hc] at h; simp at h
      · by_cases hc : (pruneI m q).2.1 = true ∧ l = .nil ∧ (pruneI m q).1 = .nil ∧ r = .nil ∧ d = none
        · rw [if_pos hc]; obtain ⟨h1, h3, _, h4, _⟩ := hc; subst h3 h4
          intro j; have := ihm q h1 j; simp only [List.mem_append, List.mem_singleton, INode.ids_node, INode.ids_nil,
            List.append_nil, List.nil_append, List.mem_cons]; grind
        · rw [if_neg hc] at h; simp at h
      · by_cases hc : (pruneI r q).2.1 = true ∧ l = .nil ∧ m = .nil ∧ (pruneI r q).1 = .nil ∧ d = none
        · rw [if_pos hc]; obtain ⟨h1, h3, h4, _, _⟩ := hc; subst h3 h4
          intro j; have := ihr q h1 j; simp only [List.mem_append, List.mem_singleton, INode.ids_node, INode.ids_nil,
            List.append_nil, List.nil_append, List.mem_cons]; grind
        · rw [if_neg hc] at h; simp at h

/-- the ids freed are ids of the subtree -/
theorem pruneI_freed_sub (s : INode) (q : Path) : ∀ j ∈ (pruneI s q).2.2, j ∈ s.ids := by
  induction s generalizing q with
  | nil => simp [pruneI]
  | node id c d l m r ihl ihm ihr =>
    cases q with
    | nil => simp only [pruneI]; split <;> simp
    | cons dir q =>
      cases dir <;> simp only [pruneI] <;> split <;> intro j hj <;>
        simp only [List.mem_append, List.mem_singleton] at hj
      · rcases hj with hj | hj
        · simp [ihl q j hj]
        · simp [hj]
      · simp [ihl q j hj]
      · rcases hj with hj | hj
        · simp [ihm q j hj]
        · simp [hj]
      · simp [ihm q j hj]
      · rcases hj with hj | hj
        · simp [ihr q j hj]
        · simp [hj]
      · simp [ihr q j hj]

/-! ### one turn of the pruning loop -/

/-- `parent->left/right/mid = NULL` for the field that points to `id` (in the order of the C text) -/
def clearChild (n : PNode) (id : Nat) : PNode :=
  if n.left = id then { n with left := 0 }
  else if n.right = id then { n with right := 0 }
  else if n.mid = id then { n with mid := 0 }
  else n

/-- the state after a childless, entry-less node was detached from its parent and freed -/
def detachFree (st : PT) (node parent : Nat) : PT :=
  if parent ≠ 0 then
    let h := st.heap
    let h :=
      if (h.get parent).left = node then setLeft h parent 0
      else if (h.get parent).right = node then setRight h parent 0
      else if (h.get parent).mid = node then setMid h parent 0
      else h
    { st with heap := h.del node, freed := st.freed ++ [node] }
  else { st with heap := st.heap.del node, freed := st.freed ++ [node], root := 0 }

theorem pruneLoop_prune (f : Nat) (st : PT) (node parent : Nat) (hn : node ≠ 0)
    (hc : (st.heap.get node).left = 0 ∧ (st.heap.get node).mid = 0 ∧ (st.heap.get node).right = 0 ∧
      (st.heap.get node).data.isNone = true) :
    pruneLoop (f + 1) st node parent =
      if parent ≠ 0 then pruneLoop f (detachFree st node parent) parent
        ((detachFree st node parent).heap.get parent).parent
      else detachFree st node parent := by
  simp only [pruneLoop, hn, if_false, hc, and_self, if_true, detachFree]
  by_cases hp : parent = 0
  · simp [hp]
  · simp [hp]

theorem pruneLoop_stop (f : Nat) (st : PT) (node parent : Nat) (hn : node ≠ 0)
    (hc : ¬ ((st.heap.get node).left = 0 ∧ (st.heap.get node).mid = 0 ∧ (st.heap.get node).right = 0 ∧
      (st.heap.get node).data.isNone = true)) :
    pruneLoop (f + 1) st node parent = st := by
  simp only [pruneLoop, hn, if_false, hc]

theorem detachFree_get (st : PT) (node parent : Nat) (hp : parent ≠ 0) (hne : parent ≠ node) (j : Nat) :
    (detachFree st node parent).heap.get j =
      if j = node then {} else if j = parent then clearChild (st.heap.get parent) node else st.heap.get j := by
  simp only [detachFree, hp, ne_eq, not_false_eq_true, if_true, Heap.get_del, clearChild]
  by_cases h1 : j = node
  · simp [h1]
  · simp only [h1, if_false]
    by_cases h2 : j = parent
    · subst h2
      split
      · simp [get_setLeft]
      · split
        · simp [get_setRight]
        · split
          · simp [get_setMid]
          · simp
    · simp only [h2, if_false]
      split
      · simp [get_setLeft, h2]
      · split
        · simp [get_setRight, h2]
        · split
          · simp [get_setMid, h2]
          · rfl

theorem detachFree_has (st : PT) (node parent : Nat) (hph : parent ≠ 0 → st.heap.has parent = true) (j : Nat) :
    (detachFree st node parent).heap.has j = true ↔ (st.heap.has j = true ∧ j ≠ node) := by
  simp only [detachFree]
  by_cases hp : parent = 0
  · simp only [hp, ne_eq, not_true_eq_false, if_false, Heap.has_del]
    simp [and_comm]
  · have hh := hph hp
    simp only [hp, ne_eq, not_false_eq_true, if_true, Heap.has_del]
    have key : ∀ H : Heap, (∀ i, H.has i = true ↔ st.heap.has i = true) →
        ((!(j == node) && H.has j) = true ↔ (st.heap.has j = true ∧ j ≠ node)) := by
      intro H hH
      simp only [Bool.and_eq_true, Bool.not_eq_true', beq_eq_false_iff_ne, hH]
      exact and_comm
    have hset : ∀ (n : PNode), ∀ i, (st.heap.set parent n).has i = true ↔ st.heap.has i = true := by
      intro n i
      rw [Heap.has_set]
      simp only [Bool.or_eq_true, beq_iff_eq]
      constructor
      · rintro (h1 | h1)
        · rw [h1]; exact hh
        · exact h1
      · intro h1; exact Or.inr h1
    split
    · exact key _ (hset _)
    · split
      · exact key _ (hset _)
      · split
        · exact key _ (hset _)
        · exact key _ (fun _ => Iff.rfl)

/-! ### the pruning loop against `pruneI` -/

/-- the loop stopped inside the subtree `s` (now `s'`) -/
structure StopsIn (st st1 : PT) (s s' : INode) (p : Nat) (fr : List Nat) : Prop where
  root  : st1.root = st.root
  size  : st1.size = st.size
  fresh : st1.fresh = st.fresh
  freed : st1.freed = st.freed ++ fr
  rep   : Rep st1.heap s' p
  frame : ∀ j, j ∉ s.ids → st1.heap.get j = st.heap.get j
  has   : ∀ j, st1.heap.has j = true ↔ (st.heap.has j = true ∧ j ∉ fr)

/-- the whole subtree `s` was pruned: the state in which the loop turns to the parent `p` -/
structure PrunedAll (st st1 : PT) (s : INode) (p : Nat) (fr : List Nat) : Prop where
  root   : st1.root = if p = 0 then 0 else st.root
  size   : st1.size = st.size
  fresh  : st1.fresh = st.fresh
  freed  : st1.freed = st.freed ++ fr
  frame  : ∀ j, j ∉ s.ids → j ≠ p → st1.heap.get j = st.heap.get j
  parent : p ≠ 0 → st1.heap.get p = clearChild (st.heap.get p) s.rid
  has    : ∀ j, st1.heap.has j = true ↔ (st.heap.has j = true ∧ j ∉ s.ids)

theorem INode.rid_eq_zero {h : Heap} {t : INode} {p : Nat} (hr : Rep h t p) : t.rid = 0 ↔ t = .nil := by
  cases t with
  | nil => simp
  | node id c d l m r => simp only [INode.rid_node, reduceCtorEq, iff_false]; exact hr.1

/-- the child in direction `d'` after the child in direction `dir` was pruned away -/
def sel (dir d' : Dir) (x : INode) : INode := if dir = d' then .nil else x

/-- what the ancestor `id` does after its child in direction `dir` was pruned away (`st1`): it is pruned too,
or the loop stops there -/
theorem prune_at_parent (st st1 : PT) (f : Nat) (id c : Nat) (d : Option Entry) (l m r ch : INode) (p : Nat)
    (fr : List Nat) (dir : Dir)
    (hrep : Rep st.heap (.node id c d l m r) p) (hnd : (INode.node id c d l m r).ids.Nodup)
    (hp : p ∉ (INode.node id c d l m r).ids) (hhas : ∀ j ∈ (INode.node id c d l m r).ids, st.heap.has j = true)
    (hph : p ≠ 0 → st.heap.has p = true)
    (hch : ch = (INode.node id c d l m r).child dir) (hchn : ch ≠ .nil)
    (hpa : PrunedAll st st1 ch id fr) (hfr : ∀ j, j ∈ fr ↔ j ∈ ch.ids) :
    (sel dir .L l = .nil ∧ sel dir .M m = .nil ∧ sel dir .R r = .nil ∧ d = none →
      ∃ st2, pruneLoop (f + 1) st1 id (st1.heap.get id).parent =
          (if p ≠ 0 then pruneLoop f st2 p (st2.heap.get p).parent else st2) ∧
        PrunedAll st st2 (.node id c d l m r) p (fr ++ [id])) ∧
    (¬ (sel dir .L l = .nil ∧ sel dir .M m = .nil ∧ sel dir .R r = .nil ∧ d = none) →
      pruneLoop (f + 1) st1 id (st1.heap.get id).parent = st1 ∧
      StopsIn st st1 (.node id c d l m r) (.node id c d (sel dir .L l) (sel dir .M m) (sel dir .R r)) p fr) := by
  obtain ⟨h1, h2, h3, h4, h5⟩ := hrep
  have hnd0 := hnd
  simp only [INode.ids_node, List.nodup_cons, List.mem_append, not_or, List.nodup_append] at hnd
  obtain ⟨⟨⟨hil, him⟩, hir⟩, ⟨⟨ndl, ndm, dlm⟩, ndr, dlr⟩⟩ := hnd
  simp only [INode.ids_node, List.mem_cons, List.mem_append, not_or] at hp
  have hidp : id ≠ p := fun e => hp.1 e.symm
  -- the child's root is a real node, different from the roots of its siblings
  have hchid : ch.rid ∈ ch.ids := by
    cases ch with
    | nil => exact absurd rfl hchn
    | node i _ _ _ _ _ => simp
  have hrid : ∀ s : INode, (∀ j ∈ s.ids, j ∉ ch.ids) → s.rid ≠ ch.rid := by
    intro s hs e
    rcases INode.rid_mem s with h | h
    · have := hchid; rw [← e, h] at this
      have hz : ∀ j ∈ ch.ids, j ≠ 0 := by
        cases dir <;> simp only [INode.child] at hch <;> rw [hch]
        · exact h3.ids_ne
        · exact h4.ids_ne
        · exact h5.ids_ne
      exact hz 0 this rfl
    · exact hs _ h (e ▸ hchid)
  -- the record of `id` after the child was detached
  have hrec : st1.heap.get id =
      PNode.mk c d p (sel dir Dir.L l).rid (sel dir Dir.M m).rid (sel dir Dir.R r).rid := by
    rw [hpa.parent h1, h2]
    cases dir <;> simp only [INode.child] at hch <;> subst hch
    · simp [clearChild, sel]
    · have e1 : l.rid ≠ ch.rid := hrid l (fun j hj hjm => dlm j hj j hjm rfl)
      have e2 : r.rid ≠ ch.rid := hrid r (fun j hj hjm => dlr j (Or.inr hjm) j hj rfl)
      simp [clearChild, e1, e2, sel]
    · have e1 : l.rid ≠ ch.rid := hrid l (fun j hj hjr => dlr j (Or.inl hj) j hjr rfl)
      simp [clearChild, e1, sel]
  have hrl : ∀ (s : INode) (pp : Nat), Rep st.heap s pp → (s.rid = 0 ↔ s = .nil) := fun s pp hs => INode.rid_eq_zero hs
  have hcond : ((st1.heap.get id).left = 0 ∧ (st1.heap.get id).mid = 0 ∧ (st1.heap.get id).right = 0 ∧
      (st1.heap.get id).data.isNone = true) ↔
      (sel dir .L l = .nil ∧ sel dir .M m = .nil ∧ sel dir .R r = .nil ∧ d = none) := by
    rw [hrec]
    simp only [Option.isNone_iff_eq_none]
    cases dir <;> simp [sel, hrl l id h3, hrl m id h4, hrl r id h5]
  have hidch : id ∉ ch.ids := by
    cases dir <;> simp only [INode.child] at hch <;> subst hch <;> assumption
  have hpch : p ∉ ch.ids := by
    cases dir <;> simp only [INode.child] at hch <;> subst hch
    · exact hp.2.1.1
    · exact hp.2.1.2
    · exact hp.2.2
  have hpar : (st1.heap.get id).parent = p := by rw [hrec]
  refine ⟨fun hc => ?_, fun hc => ?_⟩
  · -- `id` is childless and entry-less now: it is detached from `p` and freed
    rw [hpar, pruneLoop_prune f st1 id p h1 (hcond.mpr hc)]
    refine ⟨detachFree st1 id p, rfl, ?_⟩
    have hids : ∀ j, j ∈ (INode.node id c d l m r).ids ↔ (j = id ∨ j ∈ ch.ids) := by
      intro j
      obtain ⟨c1, c2, c3, _⟩ := hc
      cases dir <;> simp only [INode.child] at hch <;> subst hch <;> simp_all [sel]
    have hst1p : p ≠ 0 → st1.heap.has p = true := by
      intro hp0; rw [hpa.has]; exact ⟨hph hp0, hpch⟩
    refine ⟨?_, ?_, ?_, ?_, ?_, ?_, ?_⟩
    · simp only [detachFree]; split
      · rename_i hp0; simp [hp0, hpa.root, h1]
      · rename_i hp0; simp at hp0; simp [hp0]
    · simp only [detachFree]; split <;> exact hpa.size
    · simp only [detachFree]; split <;> exact hpa.fresh
    · simp only [detachFree]; split <;> simp [hpa.freed, List.append_assoc]
    · intro j hj hjp
      have hj' : j ≠ id ∧ j ∉ ch.ids := by
        have := (not_congr (hids j)).mp hj; exact ⟨fun e => this (Or.inl e), fun e => this (Or.inr e)⟩
      by_cases hp0 : p = 0
      · simp only [detachFree, hp0, ne_eq, not_true_eq_false, if_false, Heap.get_del, hj'.1]
        exact hpa.frame j hj'.2 hj'.1
      · rw [detachFree_get st1 id p hp0 (Ne.symm hidp)]
        simp only [hj'.1, hjp, if_false]
        exact hpa.frame j hj'.2 hj'.1
    · intro hp0
      rw [detachFree_get st1 id p hp0 (Ne.symm hidp)]
      simp only [Ne.symm hidp, if_false, if_true, INode.rid_node]
      rw [hpa.frame p hpch (Ne.symm hidp)]
    · intro j
      rw [detachFree_has st1 id p hst1p, hpa.has, hids]
      constructor
      · rintro ⟨⟨a, b⟩, c'⟩; exact ⟨a, fun e => e.elim c' b⟩
      · rintro ⟨a, b⟩; exact ⟨⟨a, fun e => b (Or.inr e)⟩, fun e => b (Or.inl e)⟩
  · -- `id` keeps a child or its entry: the loop stops
    rw [hpar, pruneLoop_stop f st1 id p h1 (fun h => hc (hcond.mp h))]
    refine ⟨rfl, ?_⟩
    have hfrm : ∀ s : INode, (∀ j ∈ s.ids, j ∉ ch.ids) → id ∉ s.ids → ∀ j ∈ s.ids, st1.heap.get j = st.heap.get j :=
      fun s hs hids j hj => hpa.frame j (hs j hj) (fun e => hids (e ▸ hj))
    refine ⟨by rw [hpa.root]; simp [h1], hpa.size, hpa.fresh, hpa.freed, ?_, ?_, ?_⟩
    · refine ⟨h1, hrec, ?_, ?_, ?_⟩
      · cases dir <;> simp only [INode.child] at hch <;> subst hch <;> simp only [sel, reduceCtorEq, if_false, if_true]
        · trivial
        · exact h3.frame (hfrm l (fun j hj hjm => dlm j hj j hjm rfl) hil)
        · exact h3.frame (hfrm l (fun j hj hjr => dlr j (Or.inl hj) j hjr rfl) hil)
      · cases dir <;> simp only [INode.child] at hch <;> subst hch <;> simp only [sel, reduceCtorEq, if_false, if_true]
        · exact h4.frame (hfrm m (fun j hj hjl => dlm j hjl j hj rfl) him)
        · trivial
        · exact h4.frame (hfrm m (fun j hj hjr => dlr j (Or.inr hj) j hjr rfl) him)
      · cases dir <;> simp only [INode.child] at hch <;> subst hch <;> simp only [sel, reduceCtorEq, if_false, if_true]
        · exact h5.frame (hfrm r (fun j hj hjl => dlr j (Or.inl hjl) j hj rfl) hir)
        · exact h5.frame (hfrm r (fun j hj hjm => dlr j (Or.inr hjm) j hj rfl) hir)
        · trivial
    · intro j hj
      simp only [INode.ids_node, List.mem_cons, List.mem_append, not_or] at hj
      have : j ∉ ch.ids := by
        cases dir <;> simp only [INode.child] at hch <;> subst hch
        · exact hj.2.1.1
        · exact hj.2.1.2
        · exact hj.2.2
      exact hpa.frame j this hj.1
    · intro j; rw [hpa.has, hfr]

/-- replace the child in direction `dir` -/
def withChildI (dir : Dir) (x l m r : INode) : INode × INode × INode :=
  match dir with
  | .L => (x, m, r)
  | .M => (l, x, r)
  | .R => (l, m, x)

theorem pruneI_cons (id c : Nat) (d : Option Entry) (l m r : INode) (dir : Dir) (q : Path) :
    pruneI (.node id c d l m r) (dir :: q) =
      (if (pruneI ((INode.node id c d l m r).child dir) q).2.1 = true ∧
          (pruneI ((INode.node id c d l m r).child dir) q).1 = .nil ∧
          (sel dir .L l = .nil ∧ sel dir .M m = .nil ∧ sel dir .R r = .nil ∧ d = none) then
        (.nil, true, (pruneI ((INode.node id c d l m r).child dir) q).2.2 ++ [id])
      else
        (.node id c d (withChildI dir (pruneI ((INode.node id c d l m r).child dir) q).1 l m r).1
          (withChildI dir (pruneI ((INode.node id c d l m r).child dir) q).1 l m r).2.1
          (withChildI dir (pruneI ((INode.node id c d l m r).child dir) q).1 l m r).2.2, false,
          (pruneI ((INode.node id c d l m r).child dir) q).2.2)) := by
  cases dir <;> simp only [pruneI, INode.child, sel, withChildI, reduceCtorEq, if_false, if_true, true_and]
  · have : ((pruneI m q).2.1 = true ∧ l = .nil ∧ (pruneI m q).1 = .nil ∧ r = .nil ∧ d = none) ↔
        ((pruneI m q).2.1 = true ∧ (pruneI m q).1 = .nil ∧ l = .nil ∧ r = .nil ∧ d = none) :=
      ⟨fun ⟨a, b, c', e, f⟩ => ⟨a, c', b, e, f⟩, fun ⟨a, c', b, e, f⟩ => ⟨a, b, c', e, f⟩⟩
    simp only [this]
  · have : ((pruneI r q).2.1 = true ∧ l = .nil ∧ m = .nil ∧ (pruneI r q).1 = .nil ∧ d = none) ↔
        ((pruneI r q).2.1 = true ∧ (pruneI r q).1 = .nil ∧ l = .nil ∧ m = .nil ∧ d = none) :=
      ⟨fun ⟨a, b, c', e, f⟩ => ⟨a, e, b, c', f⟩, fun ⟨a, e, b, c', f⟩ => ⟨a, b, c', e, f⟩⟩
    simp only [this]

theorem INode.sub_cons (id c : Nat) (d : Option Entry) (l m r : INode) (dir : Dir) (q : Path) :
    (INode.node id c d l m r).sub (dir :: q) = ((INode.node id c d l m r).child dir).sub q := by
  cases dir <;> rfl

theorem INode.sub_nil_path (q : Path) : INode.nil.sub q = .nil := by cases q <;> rfl

/-- what the pruning loop does below the represented subtree `s` -/
def PruneSpec (s : INode) (q : Path) (p : Nat) (st : PT) (f : Nat) : Prop :=
  ((pruneI s q).2.1 = false →
    ∃ st1, pruneLoop (f + (q.length + 1)) st (s.sub q).rid (st.heap.get (s.sub q).rid).parent = st1 ∧
      StopsIn st st1 s (pruneI s q).1 p (pruneI s q).2.2) ∧
  ((pruneI s q).2.1 = true →
    ∃ st1, pruneLoop (f + (q.length + 1)) st (s.sub q).rid (st.heap.get (s.sub q).rid).parent =
        (if p ≠ 0 then pruneLoop f st1 p (st1.heap.get p).parent else st1) ∧
      PrunedAll st st1 s p (pruneI s q).2.2)

/-- **the upward pruning loop computes `pruneI`**: started at the entry-less node at path `q` of the
represented subtree `s`, it either stops inside `s`, leaving `pruneI s q` in the heap, or prunes all of
`s` and goes on with the parent `p` -/
theorem prune_sub : ∀ (s : INode) (q : Path) (p : Nat) (st : PT) (f : Nat),
    Rep st.heap s p → s.ids.Nodup → p ∉ s.ids → (∀ j ∈ s.ids, st.heap.has j = true) →
    (p ≠ 0 → st.heap.has p = true) → s.sub q ≠ .nil → (s.sub q).data? = none → PruneSpec s q p st f := by
  intro s
  induction s with
  | nil => intro q p st f _ _ _ _ _ hne _; exact absurd (INode.sub_nil_path q) hne
  | node id c d l m r ihl ihm ihr =>
    intro q p st f hrep hnd hp hhas hph hne hdn
    have hrep0 := hrep
    obtain ⟨h1, h2, h3, h4, h5⟩ := hrep
    have hnd0 := hnd
    simp only [INode.ids_node, List.nodup_cons, List.mem_append, not_or, List.nodup_append] at hnd
    obtain ⟨⟨⟨hil, him⟩, hir⟩, ⟨⟨ndl, ndm, dlm⟩, ndr, dlr⟩⟩ := hnd
    have hp0 := hp
    simp only [INode.ids_node, List.mem_cons, List.mem_append, not_or] at hp
    have hidp : id ≠ p := fun e => hp.1 e.symm
    have hrl : ∀ (s : INode), Rep st.heap s id → (s.rid = 0 ↔ s = .nil) := fun s hs => INode.rid_eq_zero hs
    unfold PruneSpec
    cases q with
    | nil =>
      simp only [INode.sub, INode.data?] at hdn; subst hdn
      simp only [INode.sub, INode.rid_node, List.length_nil, Nat.zero_add, pruneI, h2]
      have hcond : ((st.heap.get id).left = 0 ∧ (st.heap.get id).mid = 0 ∧ (st.heap.get id).right = 0 ∧
          (st.heap.get id).data.isNone = true) ↔ (l = .nil ∧ m = .nil ∧ r = .nil ∧ True) := by
        rw [h2]; simp [hrl l h3, hrl m h4, hrl r h5]
      by_cases hc : l = .nil ∧ m = .nil ∧ r = .nil ∧ True
      · rw [if_pos hc]
        refine ⟨fun h => by simp at h, fun _ => ?_⟩
        rw [pruneLoop_prune f st id p h1 (hcond.mpr hc)]
        refine ⟨detachFree st id p, rfl, ?_⟩
        obtain ⟨c1, c2, c3, _⟩ := hc; subst c1 c2 c3
        refine ⟨?_, ?_, ?_, ?_, ?_, ?_, ?_⟩
        · simp only [detachFree]; split
          · rename_i hp0; simp [hp0]
          · rename_i hp0; simp at hp0; simp [hp0]
        · simp only [detachFree]; split <;> rfl
        · simp only [detachFree]; split <;> rfl
        · simp only [detachFree]; split <;> rfl
        · intro j hj hjp
          have hji : j ≠ id := by simpa using hj
          by_cases hp0 : p = 0
          · simp [detachFree, hp0, Heap.get_del, hji]
          · rw [detachFree_get st id p hp0 (Ne.symm hidp)]; simp [hji, hjp]
        · intro hp0
          rw [detachFree_get st id p hp0 (Ne.symm hidp)]; simp [Ne.symm hidp]
        · intro j
          rw [detachFree_has st id p hph]; simp
      · rw [if_neg hc]
        refine ⟨fun _ => ?_, fun h => by simp at h⟩
        rw [pruneLoop_stop f st id p h1 (fun h => hc (hcond.mp h))]
        exact ⟨st, rfl, rfl, rfl, rfl, by simp, hrep0, fun _ _ => rfl, fun j => by simp⟩
    | cons dir q =>
      rw [INode.sub_cons] at hne hdn ⊢
      rw [pruneI_cons]
      -- the child that contains the target
      have hchrep : Rep st.heap ((INode.node id c d l m r).child dir) id := by cases dir <;> assumption
      have hchnd : ((INode.node id c d l m r).child dir).ids.Nodup := by cases dir <;> assumption
      have hidch : id ∉ ((INode.node id c d l m r).child dir).ids := by cases dir <;> assumption
      have hchsub : ∀ j ∈ ((INode.node id c d l m r).child dir).ids, j ∈ (INode.node id c d l m r).ids := by
        intro j hj; cases dir <;> simp only [INode.child] at hj <;> simp [hj]
      have hchne : (INode.node id c d l m r).child dir ≠ .nil := by
        intro e; rw [e, INode.sub_nil_path] at hne; exact hne rfl
      have ih : ∀ f', PruneSpec ((INode.node id c d l m r).child dir) q id st f' := by
        intro f'
        cases dir
        · exact ihl q id st f' hchrep hchnd hidch (fun j hj => hhas j (hchsub j hj)) (fun _ => hhas id (by simp)) hne hdn
        · exact ihm q id st f' hchrep hchnd hidch (fun j hj => hhas j (hchsub j hj)) (fun _ => hhas id (by simp)) hne hdn
        · exact ihr q id st f' hchrep hchnd hidch (fun j hj => hhas j (hchsub j hj)) (fun _ => hhas id (by simp)) hne hdn
      have hfuel : f + ((dir :: q).length + 1) = (f + 1) + (q.length + 1) := by simp; omega
      rw [hfuel]
      obtain ⟨ihA, ihB⟩ := ih (f + 1)
      cases hpr : (pruneI ((INode.node id c d l m r).child dir) q).2.1 with
      | false =>
        obtain ⟨st1, e1, s1⟩ := ihA hpr
        simp only [hpr, Bool.false_eq_true, false_and, if_false]
        refine ⟨fun _ => ⟨st1, e1, ?_⟩, fun h => by simp at h⟩
        have hridch := pruneI_rid _ q hpr
        have hfrsub := pruneI_freed_sub ((INode.node id c d l m r).child dir) q
        refine ⟨s1.root, s1.size, s1.fresh, s1.freed, ?_, ?_, s1.has⟩
        · -- the record of `id` is untouched and still points to the (same) root of the child
          have hrec : st1.heap.get id = st.heap.get id := s1.frame id hidch
          have hfrm : ∀ s' : INode, (∀ j ∈ s'.ids, j ∉ ((INode.node id c d l m r).child dir).ids) →
              ∀ j ∈ s'.ids, st1.heap.get j = st.heap.get j := fun s' hs j hj => s1.frame j (hs j hj)
          cases dir <;> simp only [INode.child, withChildI] at s1 hridch ⊢
          · exact ⟨h1, by rw [hrec, h2, hridch], s1.rep,
              h4.frame (hfrm m (fun j hj hjl => dlm j hjl j hj rfl)),
              h5.frame (hfrm r (fun j hj hjl => dlr j (Or.inl hjl) j hj rfl))⟩
          · exact ⟨h1, by rw [hrec, h2, hridch], h3.frame (hfrm l (fun j hj hjm => dlm j hj j hjm rfl)), s1.rep,
              h5.frame (hfrm r (fun j hj hjm => dlr j (Or.inr hjm) j hj rfl))⟩
          · exact ⟨h1, by rw [hrec, h2, hridch], h3.frame (hfrm l (fun j hj hjr => dlr j (Or.inl hj) j hjr rfl)),
              h4.frame (hfrm m (fun j hj hjr => dlr j (Or.inr hj) j hjr rfl)), s1.rep⟩
        · intro j hj
          exact s1.frame j (fun hjc => hj (hchsub j hjc))
      | true =>
        obtain ⟨st1, e1, s1⟩ := ihB hpr
        have hnil := pruneI_pruned_nil _ q hpr
        have hfr := pruneI_freed_all _ q hpr
        rw [e1]
        simp only [h1, ne_eq, not_false_eq_true, if_true, hnil, true_and]
        obtain ⟨pa, pb⟩ := prune_at_parent st st1 f id c d l m r ((INode.node id c d l m r).child dir) p
          (pruneI ((INode.node id c d l m r).child dir) q).2.2 dir hrep0 hnd0 hp0 hhas hph rfl hchne s1 hfr
        by_cases hc : sel dir .L l = .nil ∧ sel dir .M m = .nil ∧ sel dir .R r = .nil ∧ d = none
        · rw [if_pos hc]
          refine ⟨fun h => by simp at h, fun _ => ?_⟩
          exact pa hc
        · rw [if_neg hc]
          refine ⟨fun _ => ?_, fun h => by simp at h⟩
          obtain ⟨e2, s2⟩ := pb hc
          refine ⟨st1, e2, ?_⟩
          have : (INode.node id c d (withChildI dir .nil l m r).1 (withChildI dir .nil l m r).2.1
              (withChildI dir .nil l m r).2.2) = .node id c d (sel dir .L l) (sel dir .M m) (sel dir .R r) := by
            cases dir <;> simp [withChildI, sel]
          rw [this]; exact s2

/-! ### `remove_eow_node` on a represented trie -/

theorem INode.rid_sub_mem : ∀ (s : INode) (q : Path), s.sub q ≠ .nil → (s.sub q).rid ∈ s.ids := by
  intro s q
  induction q generalizing s with
  | nil =>
    intro hs
    cases s with
    | nil => exact absurd rfl hs
    | node _ _ _ _ _ _ => simp [INode.sub]
  | cons dd q ih =>
    intro hs
    cases s with
    | nil => simp [INode.sub] at hs
    | node id c d l m r =>
      cases dd <;> simp only [INode.sub] at hs ⊢ <;> have := ih _ hs <;> simp [this]

theorem INode.sub_length_lt : ∀ (s : INode) (q : Path), s.sub q ≠ .nil → q.length < s.height := by
  intro s q
  induction q generalizing s with
  | nil =>
    intro hs
    cases s with
    | nil => exact absurd rfl hs
    | node _ _ _ _ _ _ => simp only [INode.height, List.length_nil]; omega
  | cons dd q ih =>
    intro hs
    cases s with
    | nil => simp [INode.sub] at hs
    | node id c d l m r =>
      cases dd <;> simp only [INode.sub] at hs <;> have := ih _ hs <;>
        simp only [INode.height, List.length_cons] <;> omega

/-- clearing the entry of the node at path `p` -/
theorem INode.sub_setDataI_target : ∀ (t : INode) (p : Path) (x c : Nat) (d e : Option Entry) (l m r : INode),
    t.ids.Nodup → t.sub p = .node x c d l m r → (t.setDataI x e).sub p = .node x c e l m r := by
  intro t p
  induction p generalizing t with
  | nil =>
    intro x c d e l m r _ h
    cases t with
    | nil => cases h
    | node id c' d' l' m' r' =>
      simp only [INode.sub] at h
      cases h
      simp [INode.setDataI, INode.sub]
  | cons dir p ih =>
    intro x c d e l m r hnd h
    cases t with
    | nil => simp [INode.sub] at h
    | node id c' d' l' m' r' =>
      simp only [INode.ids_node, List.nodup_cons, List.mem_append, not_or, List.nodup_append] at hnd
      obtain ⟨⟨⟨hil, him⟩, hir⟩, ⟨⟨ndl, ndm, dlm⟩, ndr, dlr⟩⟩ := hnd
      have hx : ∀ ch : INode, ch.sub p = .node x c d l m r → x ∈ ch.ids := by
        intro ch hch
        have := INode.rid_sub_mem ch p (by rw [hch]; simp)
        rwa [hch] at this
      cases dir <;> simp only [INode.sub] at h
      · have hxl := hx l' h
        have : id ≠ x := fun e => hil (e ▸ hxl)
        simp only [INode.setDataI, this, if_false, INode.sub]
        exact ih l' x c d e l m r ndl h
      · have hxm := hx m' h
        have : id ≠ x := fun e => him (e ▸ hxm)
        simp only [INode.setDataI, this, if_false, INode.sub]
        exact ih m' x c d e l m r ndm h
      · have hxr := hx r' h
        have : id ≠ x := fun e => hir (e ▸ hxr)
        simp only [INode.setDataI, this, if_false, INode.sub]
        exact ih r' x c d e l m r ndr h

theorem length_pruneI (s : INode) (q : Path) : (pruneI s q).1.ids.length ≤ s.ids.length := by
  induction s generalizing q with
  | nil => simp [pruneI]
  | node id c d l m r ihl ihm ihr =>
    cases q with
    | nil => simp only [pruneI]; split <;> simp
    | cons dir q =>
      cases dir <;> simp only [pruneI] <;> split <;>
        simp only [INode.ids_nil, INode.ids_node, List.length_nil, List.length_cons, List.length_append]
      · omega
      · have := ihl q; omega
      · omega
      · have := ihm q; omega
      · omega
      · have := ihr q; omega

theorem mem_pruneI (s : INode) (q : Path) (hnd : s.ids.Nodup) :
    ∀ j, j ∈ (pruneI s q).1.ids ↔ (j ∈ s.ids ∧ j ∉ (pruneI s q).2.2) := by
  induction s generalizing q with
  | nil => simp [pruneI]
  | node id c d l m r ihl ihm ihr =>
    simp only [INode.ids_node, List.nodup_cons, List.mem_append, not_or, List.nodup_append] at hnd
    obtain ⟨⟨⟨hil, him⟩, hir⟩, ⟨⟨ndl, ndm, dlm⟩, ndr, dlr⟩⟩ := hnd
    cases q with
    | nil =>
      simp only [pruneI]
      by_cases hc : l = .nil ∧ m = .nil ∧ r = .nil ∧ d = none
      · rw [if_pos hc]; obtain ⟨h1, h2, h3, _⟩ := hc; subst h1 h2 h3; intro j; simp
      · rw [if_neg hc]; intro j; simp
    | cons dir q =>
      cases dir <;> simp only [pruneI]
      · have i1 := ihl q ndl
        have i2 := pruneI_freed_sub l q
        by_cases hc : (pruneI l q).2.1 = true ∧ (pruneI l q).1 = .nil ∧ m = .nil ∧ r = .nil ∧ d = none
        · rw [if_pos hc]; obtain ⟨h1, _, h3, h4, _⟩ := hc; subst h3 h4
          have i3 := pruneI_freed_all l q h1
          intro j; simp only [INode.ids_nil, List.not_mem_nil, false_iff, INode.ids_node, List.append_nil,
            List.mem_cons, List.mem_append, List.mem_singleton]; grind
        · rw [if_neg hc]; intro j
          simp only [INode.ids_node, List.mem_cons, List.mem_append, i1]; grind
      · have i1 := ihm q ndm
        have i2 := pruneI_freed_sub m q
        by_cases hc : (pruneI m q).2.1 = true ∧ l = .nil ∧ (pruneI m q).1 = .nil ∧ r = .nil ∧ d = none
        · rw [if_pos hc]; obtain ⟨h1, h3, _, h4, _⟩ := hc; subst h3 h4
          have i3 := pruneI_freed_all m q h1
          intro j; simp only [INode.ids_nil, List.not_mem_nil, false_iff, INode.ids_node, List.append_nil,
            List.nil_append, List.mem_cons, List.mem_append, List.mem_singleton]; grind
        · rw [if_neg hc]; intro j
          simp only [INode.ids_node, List.mem_cons, List.mem_append, i1]; grind
      · have i1 := ihr q ndr
        have i2 := pruneI_freed_sub r q
        by_cases hc : (pruneI r q).2.1 = true ∧ l = .nil ∧ m = .nil ∧ (pruneI r q).1 = .nil ∧ d = none
        · rw [if_pos hc]; obtain ⟨h1, h3, h4, _, _⟩ := hc; subst h3 h4
          have i3 := pruneI_freed_all r q h1
          intro j; simp only [INode.ids_nil, List.not_mem_nil, false_iff, INode.ids_node, List.append_nil,
            List.nil_append, List.mem_cons, List.mem_append, List.mem_singleton]; grind
        · rw [if_neg hc]; intro j
          simp only [INode.ids_node, List.mem_cons, List.mem_append, i1]; grind

theorem nodup_pruneI (s : INode) (q : Path) (hnd : s.ids.Nodup) : (pruneI s q).1.ids.Nodup := by
  induction s generalizing q with
  | nil => simp [pruneI]
  | node id c d l m r ihl ihm ihr =>
    have hnd0 := hnd
    simp only [INode.ids_node, List.nodup_cons, List.mem_append, not_or, List.nodup_append] at hnd
    obtain ⟨⟨⟨hil, him⟩, hir⟩, ⟨⟨ndl, ndm, dlm⟩, ndr, dlr⟩⟩ := hnd
    cases q with
    | nil =>
      simp only [pruneI]
      split
      · simp
      · exact hnd0
    | cons dir q =>
      cases dir <;> simp only [pruneI] <;> split <;> try simp
      · have i1 := mem_pruneI l q ndl
        have := ihl q ndl
        simp only [INode.ids_node, List.nodup_cons, List.mem_append, not_or, List.nodup_append]; grind
      · have i1 := mem_pruneI m q ndm
        have := ihm q ndm
        simp only [INode.ids_node, List.nodup_cons, List.mem_append, not_or, List.nodup_append]; grind
      · have i1 := mem_pruneI r q ndr
        have := ihr q ndr
        simp only [INode.ids_node, List.nodup_cons, List.mem_append, not_or, List.nodup_append]; grind

theorem Rep.sub_rep {h : Heap} : ∀ (t : INode) (p0 : Nat) (p : Path), Rep h t p0 → ∃ p', Rep h (t.sub p) p' := by
  intro t p0 p
  induction p generalizing t p0 with
  | nil => intro hr; exact ⟨p0, by cases t <;> exact hr⟩
  | cons d p ih =>
    intro hr
    cases t with
    | nil => exact ⟨0, trivial⟩
    | node id c dd l m r =>
      obtain ⟨_, _, h3, h4, h5⟩ := hr
      cases d
      · exact ih l id h3
      · exact ih m id h4
      · exact ih r id h5

/-- **`remove_eow_node` on a represented trie**: the entry of the node at path `p` is cleared and the pruning
loop leaves exactly `pruneI` in the heap; the freed nodes are those `pruneI` lists; `size`, the serial counter
and the other nodes are untouched -/
theorem removeEow_represents {st : PT} {t : INode} (h : Represents st t) (p : Path) (x c : Nat) (e : Entry)
    (l m r : INode) (hsub : t.sub p = .node x c (some e) l m r) :
    Represents (removeEow st x) (pruneI (t.setDataI x none) p).1 ∧
    (removeEow st x).freed = st.freed ++ (pruneI (t.setDataI x none) p).2.2 ∧
    (removeEow st x).size = st.size ∧ (removeEow st x).fresh = st.fresh := by
  obtain ⟨p', hx⟩ := Rep.sub_rep t 0 p h.rep
  rw [hsub] at hx
  obtain ⟨x1, x2, _⟩ := hx
  have hdata : (st.heap.get x).data.isNone = false := by rw [x2]; rfl
  have hxt : x ∈ t.ids := by
    have := INode.rid_sub_mem t p (by rw [hsub]; simp); rwa [hsub] at this
  have hsub1 := INode.sub_setDataI_target t p x c (some e) none l m r h.nodup hsub
  have hrep1 := h.rep.setData h.nodup x none
  have hids1 : (t.setDataI x none).ids = t.ids := INode.setDataI_ids t x none
  have hplen : p.length + 1 ≤ st.fresh := by
    have := INode.sub_length_lt t p (by rw [hsub]; simp)
    have := INode.height_le_ids t
    have := h.count
    omega
  have hps := prune_sub (t.setDataI x none) p 0 { st with heap := setData st.heap x none } (st.fresh - p.length)
    hrep1 (by rw [hids1]; exact h.nodup) (by rw [hids1]; exact fun h0 => h.rep.ids_ne 0 h0 rfl)
    (by
      intro j hj; rw [hids1] at hj
      simp only [setData, Heap.has_set, Bool.or_eq_true, beq_iff_eq]
      exact Or.inr ((h.dom j).mpr hj))
    (fun h0 => absurd rfl h0) (by rw [hsub1]; simp) (by rw [hsub1]; rfl)
  have hfuel : st.fresh - p.length + (p.length + 1) = st.fresh + 1 := by omega
  unfold PruneSpec at hps
  rw [hfuel, hsub1] at hps
  simp only [INode.rid_node] at hps
  have hrem : removeEow st x = pruneLoop (st.fresh + 1) { st with heap := setData st.heap x none } x
      ((setData st.heap x none).get x).parent := by
    simp only [removeEow, hdata, Bool.false_eq_true, if_false]
  rw [hrem]
  have hdom1 : ∀ j, (setData st.heap x none).has j = true ↔ j ∈ t.ids := by
    intro j
    simp only [setData, Heap.has_set, Bool.or_eq_true, beq_iff_eq]
    rw [h.dom]
    constructor
    · rintro (h1 | h1)
      · rw [h1]; exact hxt
      · exact h1
    · intro h1; exact Or.inr h1
  have hmem := mem_pruneI (t.setDataI x none) p (by rw [hids1]; exact h.nodup)
  have hlen := length_pruneI (t.setDataI x none) p
  have hnd' := nodup_pruneI (t.setDataI x none) p (by rw [hids1]; exact h.nodup)
  rw [hids1] at hmem hlen
  cases hpr : (pruneI (t.setDataI x none) p).2.1 with
  | false =>
    obtain ⟨st1, e1, s1⟩ := hps.1 hpr
    rw [e1]
    refine ⟨⟨?_, s1.rep, hnd', ?_, ?_, ?_⟩, s1.freed, s1.size, s1.fresh⟩
    · rw [s1.root, pruneI_rid _ p hpr, INode.setDataI_rid]; exact h.root
    · intro i hi; rw [s1.fresh]; exact h.fresh i ((hmem i).mp hi).1
    · rw [s1.fresh]; have := h.count; show _ < st.fresh; omega
    · intro i; rw [s1.has, hmem]; simp only [hdom1]
  | true =>
    obtain ⟨st1, e1, s1⟩ := hps.2 hpr
    simp only [ne_eq, not_true_eq_false, if_false] at e1
    rw [e1]
    have hnil := pruneI_pruned_nil _ p hpr
    have hall := pruneI_freed_all _ p hpr
    rw [hids1] at hall
    refine ⟨⟨?_, by rw [hnil]; trivial, hnd', ?_, ?_, ?_⟩, s1.freed, s1.size, s1.fresh⟩
    · rw [s1.root, hnil]; rfl
    · intro i hi; rw [hnil] at hi; simp at hi
    · rw [hnil, s1.fresh]; have := h.count; show _ < st.fresh; simp; omega
    · intro i; rw [s1.has, hnil, hids1]; simp only [hdom1]; simp

/-! ### `cc_tsttable_remove` -/

/-- the descent and the inductive `findPath` -/
theorem descI_findPath (cmp : Cmp) (key : Key) : ∀ (s : INode) (r : Last), r.matched ≤ key.length →
    ∃ q, (descI cmp key s r).2 = s.sub q ∧
      s.erase.findPath cmp (key.drop r.matched) =
        (if (descI cmp key s r).2 ≠ .nil ∧ (descI cmp key s r).1.matched = key.length then some q else none) := by
  intro s
  induction s with
  | nil => intro r _; exact ⟨[], rfl, by simp [descI, Node.findPath]⟩
  | node id c d l m r' ihl ihm ihr =>
    intro r hle
    simp only [descI]
    by_cases hm : r.matched < key.length
    · simp only [hm, not_true_eq_false, if_false]
      rw [drop_cons_getD key r.matched hm]
      simp only [INode.erase_node, Node.findPath]
      cases hc : cmp (key.getD r.matched 0) c <;> simp only []
      · obtain ⟨q, h1, h2⟩ := ihl { r with parent := id, slot := .left id } hle
        refine ⟨.L :: q, h1, ?_⟩
        rw [← drop_cons_getD key r.matched hm, h2]
        split <;> simp
      · by_cases he : r.matched + 1 = key.length
        · have : key.drop (r.matched + 1) = [] := by rw [he]; simp
          refine ⟨[], by simp [he, INode.sub], ?_⟩
          simp [he, this]
        · have hne : key.drop (r.matched + 1) ≠ [] := by
            intro h; have := List.drop_eq_nil_iff.mp h; omega
          simp only [he, if_false]
          obtain ⟨q, h1, h2⟩ := ihm { parent := id, slot := .mid id, matched := r.matched + 1 } (by simp; omega)
          refine ⟨.M :: q, h1, ?_⟩
          cases hk : key.drop (r.matched + 1) with
          | nil => exact absurd hk hne
          | cons y ys =>
            simp only []
            rw [← hk, h2]
            split <;> simp
      · obtain ⟨q, h1, h2⟩ := ihr { r with parent := id, slot := .right id } hle
        refine ⟨.R :: q, h1, ?_⟩
        rw [← drop_cons_getD key r.matched hm, h2]
        split <;> simp
    · have he : r.matched = key.length := by omega
      simp only [hm, not_false_eq_true, if_true]
      refine ⟨[], rfl, ?_⟩
      rw [he]; simp [Node.findPath]

/-- `cc_tsttable_get`'s node on a represented trie: the node `findPath` addresses, if it carries an entry -/
theorem findNode_represents (cmp : Cmp) {st : PT} {t : INode} (h : Represents st t) (key : Key) :
    (∃ p x c e l m r, t.erase.findPath cmp key = some p ∧ t.sub p = .node x c (some e) l m r ∧
      findNode cmp st key = x ∧ x ≠ 0) ∨
    (findNode cmp st key = 0 ∧
      (t.erase.findPath cmp key = none ∨ ∃ p, t.erase.findPath cmp key = some p ∧ (t.erase.sub p).data? = none)) := by
  obtain ⟨g1, g2⟩ := getLast_rep cmp h key
  obtain ⟨q, d1, d2⟩ := descI_findPath cmp key t {} (by simp)
  simp only [List.drop_zero] at d2
  obtain ⟨p', hrep⟩ := descI_rep cmp key t 0 {} h.rep
  unfold findNode
  simp only [g1, g2]
  cases hT : (descI cmp key t {}).2 with
  | nil =>
    right
    rw [hT] at d2
    simp only [INode.rid_nil, ne_eq, not_true_eq_false, false_and, if_false, true_and]
    left; simpa using d2
  | node x c d l m r =>
    rw [hT] at hrep d2 d1
    obtain ⟨x1, x2, _⟩ := hrep
    simp only [INode.rid_node, ne_eq, x1, not_false_eq_true, true_and, x2, reduceCtorEq] at d2 ⊢
    by_cases hm : (descI cmp key t {}).1.matched = key.length
    · simp only [hm, and_true, if_true] at d2 ⊢
      cases d with
      | none =>
        right
        refine ⟨by simp, Or.inr ⟨q, d2, ?_⟩⟩
        rw [← INode.erase_sub, ← d1]; rfl
      | some e =>
        left
        exact ⟨q, x, c, e, l, m, r, d2, d1.symm, by simp, x1⟩
    · right
      simp only [hm, and_false, if_false] at d2 ⊢
      exact ⟨trivial, Or.inl d2⟩

/-- **`remove` preserves the representation and commutes with the inductive removal**: for a key that is
found, the new heap holds `pruneI` of the trie with the entry cleared, whose underlying trie is the
inductive `remAt` at the path `findPath` gives; the nodes freed are exactly those `pruneI` lists -/
theorem remove_represents (cmp : Cmp) (tr : Triple) {st : PT} {t : INode} (h : Represents st t) (key : Key) (mem : Mem) :
    (∃ p x e, t.erase.findPath cmp key = some p ∧ (t.erase.sub p).data? = some e ∧ (t.sub p).rid = x ∧
      Represents (remove cmp st key) (pruneI (t.setDataI x none) p).1 ∧
      (pruneI (t.setDataI x none) p).1.erase = (t.erase.remAt tr p mem).node ∧
      (remove cmp st key).freed = (pruneI (t.setDataI x none) p).2.2 ∧
      (remove cmp st key).size = (if st.size > 0 then st.size - 1 else 0) ∧
      (remove cmp st key).fresh = st.fresh) ∨
    ((t.erase.findPath cmp key = none ∨ ∃ p, t.erase.findPath cmp key = some p ∧ (t.erase.sub p).data? = none) ∧
      remove cmp st key = { st with freed := [] }) := by
  have h' : Represents { st with freed := [] } t := ⟨h.root, h.rep, h.nodup, h.fresh, h.count, h.dom⟩
  rcases findNode_represents cmp h' key with ⟨p, x, c, e, l, m, r, f1, f2, f3, f4⟩ | ⟨f1, f2⟩
  · left
    obtain ⟨r1, r2, r3, r4⟩ := removeEow_represents h' p x c e l m r f2
    have hd : (t.sub p).data? = some e := by rw [f2]; rfl
    have hx : (t.sub p).rid = x := by rw [f2]; rfl
    obtain ⟨e1, _⟩ := erase_pruneI tr t p mem e h.nodup hd
    rw [hx] at e1
    refine ⟨p, x, e, f1, by rw [← INode.erase_sub, INode.erase_data]; exact hd, hx, ?_, e1, ?_, ?_, ?_⟩
    · simp only [remove, f3, f4, if_false]
      exact ⟨r1.root, r1.rep, r1.nodup, r1.fresh, r1.count, r1.dom⟩
    · simp only [remove, f3, f4, if_false]; rw [r2]; rfl
    · simp only [remove, f3, f4, if_false]; rw [r3]
    · simp only [remove, f3, f4, if_false]; exact r4
  · right
    exact ⟨f2, by simp only [remove, f1, if_true]⟩

/-! ### what is freed was dead -/

/-- a subtree without any entry in which every node has at most one child: a dead branch -/
def Bare : INode → Prop
  | .nil => True
  | .node _ _ d l m r =>
    d = none ∧ ((l = .nil ∧ m = .nil) ∨ (l = .nil ∧ r = .nil) ∨ (m = .nil ∧ r = .nil)) ∧ Bare l ∧ Bare m ∧ Bare r

theorem pruneI_pruned_bare (s : INode) (q : Path) (h : (pruneI s q).2.1 = true) : Bare s := by
  induction s generalizing q with
  | nil => trivial
  | node id c d l m r ihl ihm ihr =>
    cases q with
    | nil =>
      simp only [pruneI] at h
      by_cases hc : l = .nil ∧ m = .nil ∧ r = .nil ∧ d = none
      · obtain ⟨h1, h2, h3, h4⟩ := hc; subst h1 h2 h3 h4; exact ⟨rfl, Or.inl ⟨rfl, rfl⟩, trivial, trivial, trivial⟩
      · rw [if_neg hc] at h; simp at h
    | cons dir q =>
      cases dir <;> simp only [pruneI] at h
      · by_cases hc : (pruneI l q).2.1 = true ∧ (pruneI l q).1 = .nil ∧ m = .nil ∧ r = .nil ∧ d = none
        · obtain ⟨h1, _, h3, h4, h5⟩ := hc; subst h3 h4 h5
          exact ⟨rfl, Or.inr (Or.inr ⟨rfl, rfl⟩), ihl q h1, trivial, trivial⟩
        · rw [if_neg hc] at h; simp at h
      · by_cases hc : (pruneI m q).2.1 = true ∧ l = .nil ∧ (pruneI m q).1 = .nil ∧ r = .nil ∧ d = none
        · obtain ⟨h1, h3, _, h4, h5⟩ := hc; subst h3 h4 h5
          exact ⟨rfl, Or.inr (Or.inl ⟨rfl, rfl⟩), trivial, ihm q h1, trivial⟩
        · rw [if_neg hc] at h; simp at h
      · by_cases hc : (pruneI r q).2.1 = true ∧ l = .nil ∧ m = .nil ∧ (pruneI r q).1 = .nil ∧ d = none
        · obtain ⟨h1, h3, h4, _, h5⟩ := hc; subst h3 h4 h5
          exact ⟨rfl, Or.inl ⟨rfl, rfl⟩, trivial, trivial, ihr q h1⟩
        · rw [if_neg hc] at h; simp at h

/-- **every freed node was childless and entry-less when it was freed**: the freed ids are the ids of one
dead branch of the trie (after the entry of the removed key was cleared) — an entry-less subtree in which
every node has at most one child, freed bottom-up -/
theorem pruneI_freed_dead (s : INode) (q : Path) :
    ∃ u, (u = .nil ∨ ∃ q0, u = s.sub q0) ∧ Bare u ∧ ∀ j, j ∈ (pruneI s q).2.2 ↔ j ∈ u.ids := by
  induction s generalizing q with
  | nil => exact ⟨.nil, Or.inl rfl, trivial, by simp [pruneI]⟩
  | node id c d l m r ihl ihm ihr =>
    cases hpr : (pruneI (.node id c d l m r) q).2.1 with
    | true =>
      exact ⟨.node id c d l m r, Or.inr ⟨[], rfl⟩, pruneI_pruned_bare _ q hpr, pruneI_freed_all _ q hpr⟩
    | false =>
      cases q with
      | nil =>
        refine ⟨.nil, Or.inl rfl, trivial, ?_⟩
        simp only [pruneI] at hpr ⊢
        split at hpr
        · simp at hpr
        · rename_i hc; simp [hc]
      | cons dir q =>
        have key : ∀ (ch : INode) (q0f : Path → Path), (∀ q0, ch.sub q0 = (INode.node id c d l m r).sub (q0f q0)) →
            (∃ u, (u = .nil ∨ ∃ q0, u = ch.sub q0) ∧ Bare u ∧ ∀ j, j ∈ (pruneI ch q).2.2 ↔ j ∈ u.ids) →
            (pruneI (.node id c d l m r) (dir :: q)).2.2 = (pruneI ch q).2.2 →
            ∃ u, (u = .nil ∨ ∃ q0, u = (INode.node id c d l m r).sub q0) ∧ Bare u ∧
              ∀ j, j ∈ (pruneI (.node id c d l m r) (dir :: q)).2.2 ↔ j ∈ u.ids := by
          intro ch q0f hq0 ⟨u, hu, hb, hm⟩ he
          refine ⟨u, ?_, hb, by rw [he]; exact hm⟩
          rcases hu with hu | ⟨q0, hu⟩
          · exact Or.inl hu
          · exact Or.inr ⟨q0f q0, by rw [hu, hq0]⟩
        cases dir
        · apply key l (fun q0 => .L :: q0) (fun _ => rfl) (ihl q)
          simp only [pruneI] at hpr ⊢; split at hpr
          · simp at hpr
          · rename_i hc; simp [hc]
        · apply key m (fun q0 => .M :: q0) (fun _ => rfl) (ihm q)
          simp only [pruneI] at hpr ⊢; split at hpr
          · simp at hpr
          · rename_i hc; simp [hc]
        · apply key r (fun q0 => .R :: q0) (fun _ => rfl) (ihr q)
          simp only [pruneI] at hpr ⊢; split at hpr
          · simp at hpr
          · rename_i hc; simp [hc]

/-- pruning removes entry-less nodes only -/
theorem marked_pruneI (s : INode) (q : Path) : (pruneI s q).1.erase.marked = s.erase.marked := by
  induction s generalizing q with
  | nil => rfl
  | node id c d l m r ihl ihm ihr =>
    cases q with
    | nil =>
      simp only [pruneI]
      by_cases hc : l = .nil ∧ m = .nil ∧ r = .nil ∧ d = none
      · rw [if_pos hc]; obtain ⟨h1, h2, h3, h4⟩ := hc; subst h1 h2 h3 h4; simp [Node.marked]
      · rw [if_neg hc]
    | cons dir q =>
      cases dir <;> simp only [pruneI]
      · by_cases hc : (pruneI l q).2.1 = true ∧ (pruneI l q).1 = .nil ∧ m = .nil ∧ r = .nil ∧ d = none
        · rw [if_pos hc]; obtain ⟨_, h2, h3, h4, h5⟩ := hc; subst h3 h4 h5
          have := ihl q; rw [h2] at this; simp [Node.marked] at this ⊢; omega
        · rw [if_neg hc]; simp only [INode.erase_node, Node.marked, ihl q]
      · by_cases hc : (pruneI m q).2.1 = true ∧ l = .nil ∧ (pruneI m q).1 = .nil ∧ r = .nil ∧ d = none
        · rw [if_pos hc]; obtain ⟨_, h3, h2, h4, h5⟩ := hc; subst h3 h4 h5
          have := ihm q; rw [h2] at this; simp [Node.marked] at this ⊢; omega
        · rw [if_neg hc]; simp only [INode.erase_node, Node.marked, ihm q]
      · by_cases hc : (pruneI r q).2.1 = true ∧ l = .nil ∧ m = .nil ∧ (pruneI r q).1 = .nil ∧ d = none
        · rw [if_pos hc]; obtain ⟨_, h3, h4, h2, h5⟩ := hc; subst h3 h4 h5
          have := ihr q; rw [h2] at this; simp [Node.marked] at this ⊢; omega
        · rw [if_neg hc]; simp only [INode.erase_node, Node.marked, ihr q]

/-- clearing the entry of a marked node takes one entry away -/
theorem marked_setDataI_target : ∀ (t : INode) (p : Path) (x c : Nat) (e : Entry) (l m r : INode),
    t.ids.Nodup → t.sub p = .node x c (some e) l m r →
    (t.setDataI x none).erase.marked + 1 = t.erase.marked := by
  intro t p
  induction p generalizing t with
  | nil =>
    intro x c e l m r _ h
    cases t with
    | nil => cases h
    | node id c' d' l' m' r' =>
      simp only [INode.sub] at h; cases h
      simp [INode.setDataI, Node.marked]; omega
  | cons dir p ih =>
    intro x c e l m r hnd h
    cases t with
    | nil => simp [INode.sub] at h
    | node id c' d' l' m' r' =>
      simp only [INode.ids_node, List.nodup_cons, List.mem_append, not_or, List.nodup_append] at hnd
      obtain ⟨⟨⟨hil, him⟩, hir⟩, ⟨⟨ndl, ndm, dlm⟩, ndr, dlr⟩⟩ := hnd
      have hx : ∀ ch : INode, ch.sub p = .node x c (some e) l m r → x ∈ ch.ids := by
        intro ch hch
        have := INode.rid_sub_mem ch p (by rw [hch]; simp)
        rwa [hch] at this
      cases dir <;> simp only [INode.sub] at h
      · have hxl := hx l' h
        have h0 : id ≠ x := fun e => hil (e ▸ hxl)
        have h1 : x ∉ m'.ids := fun hh => dlm _ hxl _ hh rfl
        have h2 : x ∉ r'.ids := fun hh => dlr _ (Or.inl hxl) _ hh rfl
        simp only [INode.setDataI, h0, if_false, INode.setDataI_not_mem m' _ _ h1, INode.setDataI_not_mem r' _ _ h2,
          INode.erase_node, Node.marked]
        have := ih l' x c e l m r ndl h; omega
      · have hxm := hx m' h
        have h0 : id ≠ x := fun e => him (e ▸ hxm)
        have h1 : x ∉ l'.ids := fun hh => dlm _ hh _ hxm rfl
        have h2 : x ∉ r'.ids := fun hh => dlr _ (Or.inr hxm) _ hh rfl
        simp only [INode.setDataI, h0, if_false, INode.setDataI_not_mem l' _ _ h1, INode.setDataI_not_mem r' _ _ h2,
          INode.erase_node, Node.marked]
        have := ih m' x c e l m r ndm h; omega
      · have hxr := hx r' h
        have h0 : id ≠ x := fun e => hir (e ▸ hxr)
        have h1 : x ∉ l'.ids := fun hh => dlr _ (Or.inl hh) _ hxr rfl
        have h2 : x ∉ m'.ids := fun hh => dlr _ (Or.inr hh) _ hxr rfl
        simp only [INode.setDataI, h0, if_false, INode.setDataI_not_mem l' _ _ h1, INode.setDataI_not_mem m' _ _ h2,
          INode.erase_node, Node.marked]
        have := ih r' x c e l m r ndr h; omega

end CC.PTST
