import CollectionsC.Proofs.PTreeColor
set_option linter.unusedSimpArgs false
set_option linter.unusedVariables false
namespace CC.PTree
open CC
open CC.Tree (Path Dir)

namespace ITree
theorem replace_replace_under (t : ITree) (g q2 : Path) (G1 s : ITree) (h : t.subtree g ≠ nil) :
    (t.replace g G1).replace (g ++ q2) s = t.replace g (G1.replace q2 s) := by
  rw [replace_append, subtree_replace t g G1 h, replace_replace]
theorem subtree_replace_under (t : ITree) (g q2 : Path) (G1 : ITree) (h : t.subtree g ≠ nil) :
    (t.replace g G1).subtree (g ++ q2) = G1.subtree q2 := by
  rw [subtree_append, subtree_replace t g G1 h]
end ITree

/-- the heap represents the tree `T` with the subtree at `g` replaced by `G`: all the surgery of one
iteration of a fix-up loop happens inside `G` -/
structure At (st : PT) (T : ITree) (g : Path) (G : ITree) : Prop where
  rep : Represents st (T.replace g G)
  ne  : T.subtree g ≠ .nil

theorem At.sub {st : PT} {T : ITree} {g : Path} {G : ITree} (h : At st T g G) (q2 : Path) : (T.replace g G).subtree (g ++ q2) = G.subtree q2 :=
  ITree.subtree_replace_under T g q2 G h.ne

/-- the record of a node inside `G` -/
theorem At.get {st : PT} {T : ITree} {g : Path} {G : ITree} (h : At st T g G) (q2 : Path) {x c a k v b} (hs : G.subtree q2 = .node x c a k v b) :
    st.heap.get x = PNode.mk k v c a.rid b.rid (if q2 = [] then parentAt T 0 g else (G.subtree q2.dropLast).rid) ∧
    x ≠ 0 := by
  have hs' : (T.replace g G).subtree (g ++ q2) = .node x c a k v b := by rw [h.sub, hs]
  obtain ⟨r, x0⟩ := h.rep.get_at (g ++ q2) hs'
  refine ⟨?_, x0⟩
  rw [r]
  congr 1
  by_cases hq : q2 = []
  · subst hq
    simp only [List.append_nil, if_true, parentAt]
    by_cases hg : g = []
    · simp [hg]
    · simp only [hg, if_false]
      obtain ⟨g0, d, rfl⟩ : ∃ g0 d, g = g0 ++ [d] := by
        rcases path_cases g with h' | h'
        · exact absurd h' hg
        · exact h'
      simp only [List.dropLast_concat]
      rw [ITree.replace_append, ITree.subtree_replace]
      · have hne := h.ne
        rw [ITree.subtree_append] at hne
        cases hq0 : T.subtree g0 with
        | nil => rw [hq0] at hne; simp at hne
        | node i c' l k' v' r => cases d <;> rfl
      · intro e
        have hne := h.ne
        rw [ITree.subtree_append, e] at hne; simp at hne
  · simp only [hq, if_false, parentAt]
    have : g ++ q2 ≠ [] := by simp [hq]
    simp only [this, if_false]
    have hd : (g ++ q2).dropLast = g ++ q2.dropLast := by
      rw [List.dropLast_append_of_ne_nil hq]
    rw [hd, h.sub]

theorem At.setColor {st : PT} {T : ITree} {g : Path} {G : ITree} (h : At st T g G) (q2 : Path) {x c a k v b}
    (hs : G.subtree q2 = .node x c a k v b) (c' : Colour) :
    At { st with heap := PTree.setColor st.heap x c' } T g (G.replace q2 (.node x c' a k v b)) := by
  have hs' : (T.replace g G).subtree (g ++ q2) = .node x c a k v b := by rw [h.sub, hs]
  have := setColor_represents h.rep (g ++ q2) hs' c'
  rw [ITree.replace_replace_under T g q2 G _ h.ne] at this
  exact ⟨this, h.ne⟩

theorem At.rotL {st : PT} {T : ITree} {g : Path} {G : ITree} (h : At st T g G) (q2 : Path) {x cx a kx vx y cy b ky vy c}
    (hs : G.subtree q2 = .node x cx a kx vx (.node y cy b ky vy c)) :
    At (rotateLeft st x) T g (G.replace q2 (.node y cy (.node x cx a kx vx b) ky vy c)) := by
  have hs' : (T.replace g G).subtree (g ++ q2) = .node x cx a kx vx (.node y cy b ky vy c) := by rw [h.sub, hs]
  have := (rotateLeft_represents h.rep (g ++ q2) hs').1
  rw [ITree.replace_replace_under T g q2 G _ h.ne] at this
  exact ⟨this, h.ne⟩

theorem At.rotR {st : PT} {T : ITree} {g : Path} {G : ITree} (h : At st T g G) (q2 : Path) {x cx a kx vx y cy b ky vy c}
    (hs : G.subtree q2 = .node x cx (.node y cy a ky vy b) kx vx c) :
    At (rotateRight st x) T g (G.replace q2 (.node y cy a ky vy (.node x cx b kx vx c))) := by
  have hs' : (T.replace g G).subtree (g ++ q2) = .node x cx (.node y cy a ky vy b) kx vx c := by rw [h.sub, hs]
  have := (rotateRight_represents h.rep (g ++ q2) hs').1
  rw [ITree.replace_replace_under T g q2 G _ h.ne] at this
  exact ⟨this, h.ne⟩

theorem ITree.replace_subtree_self (T : ITree) (g : Path) : T.replace g (T.subtree g) = T := by
  induction g generalizing T with
  | nil => simp
  | cons d g ih =>
    cases T with
    | nil => simp [ITree.replace]
    | node id c l k v r => cases d <;> simp [ITree.replace, ih]

theorem At.of_represents {st : PT} {T : ITree} (h : Represents st T) (g : Path) (hne : T.subtree g ≠ .nil) :
    At st T g (T.subtree g) := ⟨by rw [ITree.replace_subtree_self]; exact h, hne⟩
end CC.PTree
