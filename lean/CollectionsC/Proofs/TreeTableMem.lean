import CollectionsC.Proofs.TreeSet
/-! Ledger-level facts about `cc_treetable` / `cc_treeset` needed by the cross-cutting properties
(C06, C08, C14): which ledger fields a call can touch — only those of the allocator triple the
container was built with —, refusals recorded iff `CC_ERR_ALLOC`, independence of everything but the
allocator schedule. -/
namespace CC.TreeTable
open CC.Spec CC.Spec.OrdMap
variable {cmp : Nat → Nat → Int}

/-! ### the two halves of the ledger -/

/-- nothing happened on the C library allocator -/
def LibcSame (m m' : Mem) : Prop :=
  m'.libc = m.libc ∧ m'.liveLibc = m.liveLibc ∧ m'.lalloc = m.lalloc ∧ m'.lfree = m.lfree
/-- nothing happened on the configured allocator (and its schedule was not consumed) -/
def ConfSame (m m' : Mem) : Prop :=
  m'.live = m.live ∧ m'.nalloc = m.nalloc ∧ m'.nfree = m.nfree ∧ m'.nrefused = m.nrefused ∧ m'.sched = m.sched

theorem LibcSame.refl (m : Mem) : LibcSame m m := ⟨rfl, rfl, rfl, rfl⟩
theorem ConfSame.refl (m : Mem) : ConfSame m m := ⟨rfl, rfl, rfl, rfl, rfl⟩
theorem LibcSame.trans {a b c : Mem} (h1 : LibcSame a b) (h2 : LibcSame b c) : LibcSame a c :=
  ⟨h2.1.trans h1.1, h2.2.1.trans h1.2.1, h2.2.2.1.trans h1.2.2.1, h2.2.2.2.trans h1.2.2.2⟩
theorem ConfSame.trans {a b c : Mem} (h1 : ConfSame a b) (h2 : ConfSame b c) : ConfSame a c :=
  ⟨h2.1.trans h1.1, h2.2.1.trans h1.2.1, h2.2.2.1.trans h1.2.2.1, h2.2.2.2.1.trans h1.2.2.2.1,
    h2.2.2.2.2.trans h1.2.2.2.2⟩

theorem alloc_conf_libcSame (m : Mem) : LibcSame m (m.allocT .conf).2 := by
  simp only [Mem.allocT_conf]; unfold Mem.alloc; split <;> exact ⟨rfl, rfl, rfl, rfl⟩
theorem free_conf_libcSame (m : Mem) : LibcSame m (m.freeT .conf) := by
  simp only [Mem.freeT_conf]; unfold Mem.free; split <;> exact ⟨rfl, rfl, rfl, rfl⟩
theorem alloc_libc_confSame (m : Mem) : ConfSame m (m.allocT .libc).2 ∧ (m.allocT .libc).1 = true :=
  ⟨⟨rfl, rfl, rfl, rfl, rfl⟩, rfl⟩
theorem free_libc_confSame (m : Mem) : ConfSame m (m.freeT .libc) := by
  unfold Mem.freeT; dsimp only; split <;> exact ⟨rfl, rfl, rfl, rfl, rfl⟩
theorem check_libcSame (m : Mem) (b : Bool) : LibcSame m (m.check b) := by cases b <;> exact ⟨rfl, rfl, rfl, rfl⟩
theorem check_confSame (m : Mem) (b : Bool) : ConfSame m (m.check b) := by cases b <;> exact ⟨rfl, rfl, rfl, rfl, rfl⟩

theorem freeN_conf_libcSame (n : Nat) (m : Mem) : LibcSame m (freeN m .conf n) := by
  induction n generalizing m with
  | zero => exact LibcSame.refl m
  | succ n ih => exact (free_conf_libcSame m).trans (ih _)
theorem freeN_libc_confSame (n : Nat) (m : Mem) : ConfSame m (freeN m .libc n) := by
  induction n generalizing m with
  | zero => exact ConfSame.refl m
  | succ n ih => exact (free_libc_confSame m).trans (ih _)

/-- releases never record a refusal -/
theorem freeT_nrefused (m : Mem) (tr : Triple) : (m.freeT tr).nrefused = m.nrefused := by
  cases tr with
  | conf => simp only [Mem.freeT_conf]; unfold Mem.free; split <;> rfl
  | libc => exact (free_libc_confSame m).2.2.2.1
theorem freeN_nrefused (n : Nat) (m : Mem) (tr : Triple) : (freeN m tr n).nrefused = m.nrefused := by
  induction n generalizing m with
  | zero => rfl
  | succ n ih => simp only [freeN]; rw [ih, freeT_nrefused]
theorem check_nrefused (m : Mem) (b : Bool) : (m.check b).nrefused = m.nrefused := by cases b <;> rfl
/-- a refusal is recorded exactly when the allocator call fails (which the C library never does) -/
theorem allocT_nrefused (m : Mem) (tr : Triple) :
    (m.allocT tr).2.nrefused = m.nrefused + (if (m.allocT tr).1 then 0 else 1) := by
  cases tr with
  | conf =>
    simp only [Mem.allocT_conf]
    rcases h : m.sched with _ | ⟨b, rest⟩
    · simp [Mem.alloc, h]
    · cases b <;> simp [Mem.alloc, h]
  | libc => rfl
/-- the answer of the allocator depends on the schedule only -/
theorem allocT_congr (m m' : Mem) (tr : Triple) (h : m.sched = m'.sched) :
    (m.allocT tr).1 = (m'.allocT tr).1 ∧ (m.allocT tr).2.sched = (m'.allocT tr).2.sched := by
  cases tr with
  | conf => simp only [Mem.allocT_conf]; unfold Mem.alloc; rw [← h]; split <;> exact ⟨rfl, rfl⟩
  | libc => exact ⟨rfl, h⟩

/-- the ledger after a call is the ledger before it, after at most one allocator call or some releases,
all on the triple `tr` -/
inductive MemStep (m : Mem) (tr : Triple) : Mem → Prop
  | same : MemStep m tr m
  | alloc : MemStep m tr (m.allocT tr).2
  | free : MemStep m tr (m.freeT tr)
  | freeN (n : Nat) : MemStep m tr (TreeTable.freeN m tr n)
  | check (b : Bool) : MemStep m tr (m.check b)

theorem MemStep.libcSame {m m' : Mem} (h : MemStep m .conf m') : LibcSame m m' := by
  cases h with
  | same => exact LibcSame.refl m
  | alloc => exact alloc_conf_libcSame m
  | free => exact free_conf_libcSame m
  | freeN n => exact freeN_conf_libcSame n m
  | check b => exact check_libcSame m b

theorem MemStep.confSame {m m' : Mem} (h : MemStep m .libc m') : ConfSame m m' := by
  cases h with
  | same => exact ConfSame.refl m
  | alloc => exact (alloc_libc_confSame m).1
  | free => exact free_libc_confSame m
  | freeN n => exact freeN_libc_confSame n m
  | check b => exact check_confSame m b

theorem step_mem (t : TreeTable) (op : Op) (m : Mem) : MemStep m t.triple (t.step cmp op m).2.2.1 := by
  cases op <;> simp only [step] <;> try exact .same
  · unfold add; dsimp only; split
    · exact .same
    · split
      · exact .alloc
      · exact .alloc
  · unfold remove; split
    · exact .same
    · exact .free
  · unfold removeFirst; split
    · exact .same
    · split
      · exact .check false
      · exact .free
  · unfold removeLast; split
    · exact .same
    · split
      · exact .check false
      · exact .free
  · exact .freeN _

/-- no call changes the allocator triple of the table -/
theorem step_triple (t : TreeTable) (op : Op) (m : Mem) : (t.step cmp op m).2.1.triple = t.triple := by
  cases op <;> simp only [step] <;> try rfl
  · unfold add; dsimp only; split
    · rfl
    · split <;> rfl
  · unfold remove; generalize t.lookup cmp _ = r; rcases r with ⟨_ | v, n⟩ <;> rfl
  · unfold removeFirst; split
    · rfl
    · cases t.root.minEntry <;> rfl
  · unfold removeLast; split
    · rfl
    · cases t.root.maxEntry <;> rfl

/-- C08: the number of recorded refusals grows (by one) exactly when the call reports `CC_ERR_ALLOC` -/
theorem step_nrefused (t : TreeTable) (op : Op) (m : Mem) :
    ((t.step cmp op m).1.st = some .errAlloc ∧ (t.step cmp op m).2.2.1.nrefused = m.nrefused + 1) ∨
    ((t.step cmp op m).1.st ≠ some .errAlloc ∧ (t.step cmp op m).2.2.1.nrefused = m.nrefused) := by
  cases op <;> simp only [step]
  · unfold add; dsimp only; split
    · simp
    · split
      · rename_i ha; simp only [Bool.not_eq_true'] at ha ⊢; simp [allocT_nrefused, ha]
      · rename_i ha; simp only [Bool.not_eq_true', Bool.not_eq_false] at ha; simp [allocT_nrefused, ha]
  · unfold get; generalize t.lookup cmp _ = r; rcases r with ⟨_ | v, n⟩ <;> simp
  · simp
  · simp
  · unfold remove; generalize t.lookup cmp _ = r; rcases r with ⟨_ | v, n⟩ <;> simp [removeNode, freeT_nrefused]
  · unfold removeFirst; by_cases h0 : t.size = 0 <;> simp only [h0, if_true, if_false]
    · simp
    · cases t.root.minEntry <;> simp [check_nrefused, freeT_nrefused]
  · unfold removeLast; by_cases h0 : t.size = 0 <;> simp only [h0, if_true, if_false]
    · simp
    · cases t.root.maxEntry <;> simp [check_nrefused, freeT_nrefused]
  · simp [removeAll, freeN_nrefused]
  · unfold firstKey; cases t.root.minEntry <;> simp
  · unfold lastKey; cases t.root.maxEntry <;> simp
  · unfold firstValue; cases t.root.minEntry <;> simp
  · unfold lastValue; cases t.root.maxEntry <;> simp
  · unfold greaterThan; generalize t.lookup cmp _ = r; rcases r with ⟨_ | v, n⟩
    · simp
    · cases Tree.succOfKey cmp t.root _ <;> simp
  · unfold lesserThan; generalize t.lookup cmp _ = r; rcases r with ⟨_ | v, n⟩
    · simp
    · cases Tree.predOfKey cmp t.root _ <;> simp
  · simp
  · simp
  · simp

/-- C14: statuses, out-values, the resulting table and the comparator count depend on the ledger only
through the allocator's schedule -/
theorem step_congr (t : TreeTable) (op : Op) (m m' : Mem) (h : m.sched = m'.sched) :
    (t.step cmp op m).1 = (t.step cmp op m').1 ∧ (t.step cmp op m).2.1 = (t.step cmp op m').2.1 ∧
    (t.step cmp op m).2.2.2 = (t.step cmp op m').2.2.2 := by
  have ha := allocT_congr m m' t.triple h
  cases op with
  | add k v =>
    simp only [step]; unfold add; dsimp only; rw [ha.1]; split
    · exact ⟨rfl, rfl, rfl⟩
    · split <;> exact ⟨rfl, rfl, rfl⟩
  | remove k =>
    simp only [step]; unfold remove
    generalize t.lookup cmp k = r; rcases r with ⟨_ | v, n⟩ <;> exact ⟨rfl, rfl, rfl⟩
  | removeFirst =>
    unfold step removeFirst; dsimp only; split
    · exact ⟨rfl, rfl, rfl⟩
    · cases t.root.minEntry <;> exact ⟨rfl, rfl, rfl⟩
  | removeLast =>
    unfold step removeLast; dsimp only; split
    · exact ⟨rfl, rfl, rfl⟩
    · cases t.root.maxEntry <;> exact ⟨rfl, rfl, rfl⟩
  | _ => exact ⟨rfl, rfl, rfl⟩

/-! ### iterator calls, constructor, destructor -/
theorem iterStep_mem (t : TreeTable) (it : TreeIter) (op : IterOp) (m : Mem) :
    MemStep m t.triple (t.iterStep cmp it op m).2.2.2 := by
  cases op with
  | next => exact .same
  | remove =>
    simp only [iterStep, iterRemove]
    cases it.cur with
    | sentinel => exact .check false
    | null => exact .same
    | «at» k => exact .free

theorem iterStep_triple (t : TreeTable) (it : TreeIter) (op : IterOp) (m : Mem) :
    (t.iterStep cmp it op m).2.1.triple = t.triple := by
  cases op with
  | next => rfl
  | remove => simp only [iterStep, iterRemove]; cases it.cur <;> rfl

/-- iterator calls never ask the allocator for anything: results do not depend on the ledger -/
theorem iterStep_congr (t : TreeTable) (it : TreeIter) (op : IterOp) (m m' : Mem) :
    (t.iterStep cmp it op m).1 = (t.iterStep cmp it op m').1 ∧
    (t.iterStep cmp it op m).2.1 = (t.iterStep cmp it op m').2.1 ∧
    (t.iterStep cmp it op m).2.2.1 = (t.iterStep cmp it op m').2.2.1 := by
  cases op with
  | next => exact ⟨rfl, rfl, rfl⟩
  | remove =>
    simp only [iterStep, iterRemove]
    cases it.cur <;> exact ⟨rfl, rfl, rfl⟩

/-- the constructor touches only the triple it is given, and hands it to the new table -/
theorem newT_conf_libcSame (m : Mem) : LibcSame m (TreeTable.newT .conf m).2.2 := by
  unfold TreeTable.newT; dsimp only
  split
  · exact alloc_conf_libcSame m
  · split
    · exact ((alloc_conf_libcSame m).trans (alloc_conf_libcSame _)).trans (free_conf_libcSame _)
    · exact (alloc_conf_libcSame m).trans (alloc_conf_libcSame _)
theorem newT_libc (m : Mem) :
    ConfSame m (TreeTable.newT .libc m).2.2 ∧ (TreeTable.newT .libc m).1 = .ok := by
  unfold TreeTable.newT; dsimp only
  simp only [(alloc_libc_confSame _).2, Bool.not_true, Bool.false_eq_true, if_false]
  exact ⟨(alloc_libc_confSame m).1.trans (alloc_libc_confSame _).1, trivial⟩
theorem newT_triple (tr : Triple) (m : Mem) (t : TreeTable) (m' : Mem)
    (h : TreeTable.newT tr m = (.ok, some t, m')) : t.triple = tr := by
  unfold TreeTable.newT at h; dsimp only at h
  split at h
  · simp at h
  · split at h
    · simp at h
    · simp only [Prod.mk.injEq, Option.some.injEq, true_and] at h; rw [← h.1]

theorem destroy_mem (t : TreeTable) (m : Mem) :
    (t.triple = .conf → LibcSame m (t.destroy m)) ∧ (t.triple = .libc → ConfSame m (t.destroy m)) := by
  unfold destroy
  constructor
  · intro h; rw [h]
    exact ((freeN_conf_libcSame _ m).trans (free_conf_libcSame _)).trans (free_conf_libcSame _)
  · intro h; rw [h]
    exact ((freeN_libc_confSame _ m).trans (free_libc_confSame _)).trans (free_libc_confSame _)

/-- the constructor fails exactly when one of its two requests is refused -/
theorem new_refused_iff (m : Mem) :
    (TreeTable.new m).1 = .errAlloc ↔ (m.alloc.1 = false ∨ m.alloc.2.alloc.1 = false) := by
  unfold TreeTable.new TreeTable.newT; dsimp only
  simp only [Mem.allocT_conf]
  rcases Bool.eq_false_or_eq_true m.alloc.1 with h1 | h1 <;>
    rcases Bool.eq_false_or_eq_true m.alloc.2.alloc.1 with h2 | h2 <;> simp [h1, h2]

theorem newT_congr (tr : Triple) (m m' : Mem) (h : m.sched = m'.sched) :
    (TreeTable.newT tr m).1 = (TreeTable.newT tr m').1 ∧ (TreeTable.newT tr m).2.1 = (TreeTable.newT tr m').2.1 := by
  have a := allocT_congr m m' tr h
  have b := allocT_congr (m.allocT tr).2 (m'.allocT tr).2 tr a.2
  unfold TreeTable.newT; dsimp only
  rw [a.1, b.1]
  split
  · exact ⟨rfl, rfl⟩
  · split <;> exact ⟨rfl, rfl⟩

/-! ### histories -/
theorem run_triple (ops : List (Op × List Bool)) (t : TreeTable) (m : Mem) :
    (t.run cmp ops m).2.2.1.triple = t.triple := by
  induction ops generalizing t m with
  | nil => rfl
  | cons x ops ih => obtain ⟨op, sched⟩ := x; simp only [run]; rw [ih, step_triple]

theorem begin_libcSame (m : Mem) (s : List Bool) :
    (m.begin s).libc = m.libc ∧ (m.begin s).liveLibc = m.liveLibc ∧ (m.begin s).live = m.live := ⟨rfl, rfl, rfl⟩

/-- a history on a table built on the configured triple never touches the C library allocator -/
theorem run_conf (ops : List (Op × List Bool)) (t : TreeTable) (m : Mem) (ht : t.triple = .conf) :
    (t.run cmp ops m).2.2.2.libc = m.libc ∧ (t.run cmp ops m).2.2.2.liveLibc = m.liveLibc := by
  induction ops generalizing t m with
  | nil => exact ⟨rfl, rfl⟩
  | cons x ops ih =>
    obtain ⟨op, sched⟩ := x
    have s := step_mem (cmp := cmp) t op (m.begin sched)
    rw [ht] at s
    have := ih (t.step cmp op (m.begin sched)).2.1 (t.step cmp op (m.begin sched)).2.2.1
      (by rw [step_triple, ht])
    simp only [run]
    rw [this.1, this.2, s.libcSame.1, s.libcSame.2.1]
    exact ⟨rfl, rfl⟩

/-- a history on a table built by the default constructor never touches the configured allocator -/
theorem run_libc (ops : List (Op × List Bool)) (t : TreeTable) (m : Mem) (ht : t.triple = .libc) :
    (t.run cmp ops m).2.2.2.live = m.live := by
  induction ops generalizing t m with
  | nil => rfl
  | cons x ops ih =>
    obtain ⟨op, sched⟩ := x
    have s := step_mem (cmp := cmp) t op (m.begin sched)
    rw [ht] at s
    have := ih (t.step cmp op (m.begin sched)).2.1 (t.step cmp op (m.begin sched)).2.2.1
      (by rw [step_triple, ht])
    simp only [run]
    rw [this, s.confSame.1]; rfl

/-- every call of a history installs its own schedule: the whole run is independent of the ledger it
starts from -/
theorem run_congr (ops : List (Op × List Bool)) (t : TreeTable) (m m' : Mem) :
    (t.run cmp ops m).1 = (t.run cmp ops m').1 ∧ (t.run cmp ops m).2.1 = (t.run cmp ops m').2.1 ∧
    (t.run cmp ops m).2.2.1 = (t.run cmp ops m').2.2.1 := by
  induction ops generalizing t m m' with
  | nil => exact ⟨rfl, rfl, rfl⟩
  | cons x ops ih =>
    obtain ⟨op, sched⟩ := x
    have s := step_congr (cmp := cmp) t op (m.begin sched) (m'.begin sched) rfl
    simp only [run]
    rw [s.1, s.2.1, s.2.2]
    have := ih (t.step cmp op (m'.begin sched)).2.1 (t.step cmp op (m.begin sched)).2.2.1
      (t.step cmp op (m'.begin sched)).2.2.1
    rw [this.1, this.2.1, this.2.2]
    exact ⟨rfl, rfl, rfl⟩

theorem run_append (a b : List (Op × List Bool)) (t : TreeTable) (m : Mem) :
    t.run cmp (a ++ b) m =
      ((t.run cmp a m).1 ++ ((t.run cmp a m).2.2.1.run cmp b (t.run cmp a m).2.2.2).1,
       (t.run cmp a m).2.1 ++ ((t.run cmp a m).2.2.1.run cmp b (t.run cmp a m).2.2.2).2.1,
       ((t.run cmp a m).2.2.1.run cmp b (t.run cmp a m).2.2.2).2.2) := by
  induction a generalizing t m with
  | nil => rfl
  | cons x a ih =>
    obtain ⟨op, sched⟩ := x
    simp only [List.cons_append, run]
    rw [ih]

theorem iterRun_triple (prog : List IterOp) (t : TreeTable) (it : TreeIter) (m : Mem) :
    (t.iterRun cmp it prog m).2.1.triple = t.triple := by
  induction prog generalizing t it m with
  | nil => rfl
  | cons op rest ih => simp only [iterRun]; rw [ih, iterStep_triple]

theorem iterRun_conf (prog : List IterOp) (t : TreeTable) (it : TreeIter) (m : Mem) (ht : t.triple = .conf) :
    LibcSame m (t.iterRun cmp it prog m).2.2.2 := by
  induction prog generalizing t it m with
  | nil => exact LibcSame.refl m
  | cons op rest ih =>
    have s := iterStep_mem (cmp := cmp) t it op m
    rw [ht] at s
    simp only [iterRun]
    exact s.libcSame.trans (ih _ _ _ (by rw [iterStep_triple, ht]))

theorem iterRun_libc_live (prog : List IterOp) (t : TreeTable) (it : TreeIter) (m : Mem) (ht : t.triple = .libc) :
    (t.iterRun cmp it prog m).2.2.2.live = m.live := by
  induction prog generalizing t it m with
  | nil => rfl
  | cons op rest ih =>
    have s := iterStep_mem (cmp := cmp) t it op m
    rw [ht] at s
    simp only [iterRun]
    rw [ih _ _ _ (by rw [iterStep_triple, ht]), s.confSame.1]

end CC.TreeTable

namespace CC.TreeSet
open CC.Spec CC.Spec.OrdMap CC.Spec.OrdSet
variable {cmp : Nat → Nat → Int}

theorem step_mem (s : TreeSet) (op : OrdSet.Op) (m : Mem) :
    TreeTable.MemStep m s.t.triple (s.step cmp op m).2.2.1 := by
  rw [step_eq_table]; exact TreeTable.step_mem s.t (toMapOp op) m

theorem step_triple (s : TreeSet) (op : OrdSet.Op) (m : Mem) :
    (s.step cmp op m).2.1.triple = s.triple ∧ (s.step cmp op m).2.1.t.triple = s.t.triple := by
  rw [step_eq_table]; exact ⟨rfl, TreeTable.step_triple s.t (toMapOp op) m⟩

theorem step_congr (s : TreeSet) (op : OrdSet.Op) (m m' : Mem) (h : m.sched = m'.sched) :
    (s.step cmp op m).1 = (s.step cmp op m').1 ∧ (s.step cmp op m).2.1 = (s.step cmp op m').2.1 ∧
    (s.step cmp op m).2.2.2 = (s.step cmp op m').2.2.2 := by
  have k := TreeTable.step_congr (cmp := cmp) s.t (toMapOp op) m m' h
  rw [step_eq_table, step_eq_table, k.1, k.2.1, k.2.2]
  exact ⟨rfl, rfl, rfl⟩

/-- the set constructor hands its triple to the table it wraps -/
theorem newT_triple (tr : Triple) (m : Mem) (s : TreeSet) (m' : Mem)
    (h : TreeSet.newT tr m = (.ok, some s, m')) : s.triple = tr ∧ s.t.triple = tr := by
  unfold TreeSet.newT at h; dsimp only at h
  split at h
  · simp at h
  · split at h
    · rename_i heq
      simp only [Prod.mk.injEq, Option.some.injEq, true_and] at h
      rw [← h.1]
      exact ⟨rfl, TreeTable.newT_triple tr _ _ _ heq⟩
    · simp at h

theorem newT_conf_libcSame (m : Mem) : TreeTable.LibcSame m (TreeSet.newT .conf m).2.2 := by
  unfold TreeSet.newT; dsimp only
  split
  · exact TreeTable.alloc_conf_libcSame m
  · have k := TreeTable.newT_conf_libcSame (m.allocT .conf).2
    split
    · rename_i heq; rw [heq] at k
      exact (TreeTable.alloc_conf_libcSame m).trans k
    · rename_i _ heq; rw [heq] at k
      exact ((TreeTable.alloc_conf_libcSame m).trans k).trans (TreeTable.free_conf_libcSame _)

theorem newT_libc (m : Mem) :
    TreeTable.ConfSame m (TreeSet.newT .libc m).2.2 ∧ (TreeSet.newT .libc m).1 = .ok := by
  have k := TreeTable.newT_libc (m.allocT .libc).2
  unfold TreeSet.newT; dsimp only
  simp only [(TreeTable.alloc_libc_confSame _).2, Bool.not_true, Bool.false_eq_true, if_false]
  generalize hr : TreeTable.newT .libc (m.allocT .libc).2 = r at k
  obtain ⟨st, o, m'⟩ := r
  simp only at k
  have hst : st = .ok := k.2
  subst hst
  cases o with
  | none =>
    -- the table constructor on the C library allocator cannot fail
    exfalso
    unfold TreeTable.newT at hr; dsimp only at hr
    simp [(TreeTable.alloc_libc_confSame _).2] at hr
  | some t => exact ⟨(TreeTable.alloc_libc_confSame m).1.trans k.1, rfl⟩

theorem destroy_mem (s : TreeSet) (m : Mem) (hs : s.t.triple = s.triple) :
    (s.triple = .conf → TreeTable.LibcSame m (s.destroy m)) ∧
    (s.triple = .libc → TreeTable.ConfSame m (s.destroy m)) := by
  have k := TreeTable.destroy_mem s.t m
  unfold destroy
  constructor
  · intro h; rw [h]; exact (k.1 (by rw [hs, h])).trans (TreeTable.free_conf_libcSame _)
  · intro h; rw [h]; exact (k.2 (by rw [hs, h])).trans (TreeTable.free_libc_confSame _)

/-- the set constructor: three requests -/
theorem new_refused_iff (m : Mem) :
    (TreeSet.new m).1 = .errAlloc ↔
      (m.alloc.1 = false ∨ m.alloc.2.alloc.1 = false ∨ m.alloc.2.alloc.2.alloc.1 = false) := by
  unfold TreeSet.new TreeSet.newT TreeTable.newT; dsimp only
  simp only [Mem.allocT_conf]
  rcases Bool.eq_false_or_eq_true m.alloc.1 with h1 | h1 <;>
    rcases Bool.eq_false_or_eq_true m.alloc.2.alloc.1 with h2 | h2 <;>
    rcases Bool.eq_false_or_eq_true m.alloc.2.alloc.2.alloc.1 with h3 | h3 <;> simp [h1, h2, h3]

theorem run_triple (ops : List (OrdSet.Op × List Bool)) (s : TreeSet) (m : Mem) :
    (s.run cmp ops m).2.2.1.triple = s.triple ∧ (s.run cmp ops m).2.2.1.t.triple = s.t.triple := by
  induction ops generalizing s m with
  | nil => exact ⟨rfl, rfl⟩
  | cons x ops ih =>
    obtain ⟨op, sched⟩ := x; simp only [run]
    have k := step_triple (cmp := cmp) s op (m.begin sched)
    have := ih (s.step cmp op (m.begin sched)).2.1 (s.step cmp op (m.begin sched)).2.2.1
    exact ⟨this.1.trans k.1, this.2.trans k.2⟩

theorem run_conf (ops : List (OrdSet.Op × List Bool)) (s : TreeSet) (m : Mem) (ht : s.t.triple = .conf) :
    (s.run cmp ops m).2.2.2.libc = m.libc ∧ (s.run cmp ops m).2.2.2.liveLibc = m.liveLibc := by
  induction ops generalizing s m with
  | nil => exact ⟨rfl, rfl⟩
  | cons x ops ih =>
    obtain ⟨op, sched⟩ := x
    have k := step_mem (cmp := cmp) s op (m.begin sched)
    rw [ht] at k
    have := ih (s.step cmp op (m.begin sched)).2.1 (s.step cmp op (m.begin sched)).2.2.1
      (by rw [(step_triple s op _).2, ht])
    simp only [run]
    rw [this.1, this.2, k.libcSame.1, k.libcSame.2.1]
    exact ⟨rfl, rfl⟩

theorem run_libc (ops : List (OrdSet.Op × List Bool)) (s : TreeSet) (m : Mem) (ht : s.t.triple = .libc) :
    (s.run cmp ops m).2.2.2.live = m.live := by
  induction ops generalizing s m with
  | nil => rfl
  | cons x ops ih =>
    obtain ⟨op, sched⟩ := x
    have k := step_mem (cmp := cmp) s op (m.begin sched)
    rw [ht] at k
    have := ih (s.step cmp op (m.begin sched)).2.1 (s.step cmp op (m.begin sched)).2.2.1
      (by rw [(step_triple s op _).2, ht])
    simp only [run]
    rw [this, k.confSame.1]; rfl

theorem run_congr (ops : List (OrdSet.Op × List Bool)) (s : TreeSet) (m m' : Mem) :
    (s.run cmp ops m).1 = (s.run cmp ops m').1 ∧ (s.run cmp ops m).2.1 = (s.run cmp ops m').2.1 ∧
    (s.run cmp ops m).2.2.1 = (s.run cmp ops m').2.2.1 := by
  induction ops generalizing s m m' with
  | nil => exact ⟨rfl, rfl, rfl⟩
  | cons x ops ih =>
    obtain ⟨op, sched⟩ := x
    have k := step_congr (cmp := cmp) s op (m.begin sched) (m'.begin sched) rfl
    simp only [run]
    rw [k.1, k.2.1, k.2.2]
    have := ih (s.step cmp op (m'.begin sched)).2.1 (s.step cmp op (m.begin sched)).2.2.1
      (s.step cmp op (m'.begin sched)).2.2.1
    rw [this.1, this.2.1, this.2.2]
    exact ⟨rfl, rfl, rfl⟩

/-- a set iterator call is the table iterator call (the set hides the value of a yielded entry) -/
theorem iterStep_eq_table (s : TreeSet) (it : TreeIter) (op : IterOp) (m : Mem) :
    s.iterStep cmp it op m =
      ({ st := (s.t.iterStep cmp it op m).1.st, val := (s.t.iterStep cmp it op m).1.val },
       { s with t := (s.t.iterStep cmp it op m).2.1 }, (s.t.iterStep cmp it op m).2.2.1,
       (s.t.iterStep cmp it op m).2.2.2) := by
  cases op <;> rfl

theorem iterRun_eq_table (prog : List IterOp) (s : TreeSet) (it : TreeIter) (m : Mem) :
    (s.iterRun cmp it prog m).1 = (s.t.iterRun cmp it prog m).1.map (fun o => { st := o.st, val := o.val }) ∧
    (s.iterRun cmp it prog m).2.1.t = (s.t.iterRun cmp it prog m).2.1 ∧
    (s.iterRun cmp it prog m).2.1.triple = s.triple ∧
    (s.iterRun cmp it prog m).2.2 = (s.t.iterRun cmp it prog m).2.2 := by
  induction prog generalizing s it m with
  | nil => exact ⟨rfl, rfl, rfl, rfl⟩
  | cons op rest ih =>
    simp only [iterRun, TreeTable.iterRun, List.map_cons]
    rw [iterStep_eq_table]
    have := ih { s with t := (s.t.iterStep cmp it op m).2.1 } (s.t.iterStep cmp it op m).2.2.1 (s.t.iterStep cmp it op m).2.2.2
    exact ⟨by rw [this.1], this.2.1, this.2.2.1, this.2.2.2⟩
end CC.TreeSet

namespace CC.TreeTable
open CC.Spec CC.Spec.OrdMap
variable {cmp : Nat → Nat → Int}

/-- C16 without any ledger hypothesis: no rejected path calls the allocator or releases anything -/
theorem step_inert {t : TreeTable} (h : t.Inv cmp) (op : Op) (m : Mem) (st : Stat)
    (hst : (t.step cmp op m).1.st = some st) (h1 : st ≠ .ok) (h2 : st ≠ .errAlloc) :
    (t.step cmp op m).2.1 = t ∧ (t.step cmp op m).2.2.1 = m := by
  have hne : t.size ≠ 0 → t.root.toList ≠ [] := by
    intro h0 hn
    have := h.size_eq; unfold abs at this; rw [hn] at this; exact h0 this
  cases op with
  | add k v =>
    simp only [step] at hst ⊢
    unfold add at hst ⊢; dsimp only at hst ⊢
    split at hst
    · simp only [Option.some.injEq] at hst; exact absurd hst.symm h1
    · split at hst
      · simp only [Option.some.injEq] at hst; exact absurd hst.symm h2
      · simp only [Option.some.injEq] at hst; exact absurd hst.symm h1
  | remove k =>
    simp only [step] at hst ⊢
    unfold remove at hst ⊢
    generalize t.lookup cmp k = r at hst ⊢
    rcases r with ⟨_ | v, n⟩
    · exact ⟨rfl, rfl⟩
    · simp only [Option.some.injEq] at hst; exact absurd hst.symm h1
  | removeFirst =>
    simp only [step] at hst ⊢
    unfold removeFirst at hst ⊢
    split at hst
    · rename_i h0; simp only [h0, if_true]; exact ⟨trivial, trivial⟩
    · rename_i h0
      have := Tree.minEntry_eq t.root
      cases hm : t.root.minEntry with
      | none =>
        rw [hm] at this
        exact absurd (List.head?_eq_none_iff.1 this.symm) (hne h0)
      | some e => rw [hm] at hst; simp only [Option.some.injEq] at hst; exact absurd hst.symm h1
  | removeLast =>
    simp only [step] at hst ⊢
    unfold removeLast at hst ⊢
    split at hst
    · rename_i h0; simp only [h0, if_true]; exact ⟨trivial, trivial⟩
    · rename_i h0
      have := Tree.maxEntry_eq t.root
      cases hm : t.root.maxEntry with
      | none =>
        rw [hm] at this
        exact absurd (List.getLast?_eq_none_iff.1 this.symm) (hne h0)
      | some e => rw [hm] at hst; simp only [Option.some.injEq] at hst; exact absurd hst.symm h1
  | removeAll => simp [step] at hst
  | _ => exact ⟨rfl, rfl⟩
end CC.TreeTable
