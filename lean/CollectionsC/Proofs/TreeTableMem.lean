import CollectionsC.Proofs.TreeSet
/-! Ledger-level facts about `cc_treetable` / `cc_treeset` needed by the cross-cutting properties
(C06, C08, C14): which ledger fields a call can touch, refusals recorded iff `CC_ERR_ALLOC`,
independence of everything but the allocator schedule. -/
namespace CC.TreeTable
open CC.Spec CC.Spec.OrdMap
variable {cmp : Nat → Nat → Int}

/-! ### what the primitive ledger operations do to the fields the cross-cutting properties talk about -/
theorem alloc_libc (m : Mem) : m.alloc.2.libc = m.libc := by unfold Mem.alloc; split <;> rfl
theorem free_libc (m : Mem) : m.free.libc = m.libc := by unfold Mem.free; split <;> rfl
theorem free_sched (m : Mem) : m.free.sched = m.sched := by unfold Mem.free; split <;> rfl
theorem free_nrefused (m : Mem) : m.free.nrefused = m.nrefused := by unfold Mem.free; split <;> rfl
theorem check_nrefused (m : Mem) (b : Bool) : (m.check b).nrefused = m.nrefused := by cases b <;> rfl
theorem freeN_fields (n : Nat) (m : Mem) :
    (freeN m n).libc = m.libc ∧ (freeN m n).sched = m.sched ∧ (freeN m n).nrefused = m.nrefused := by
  induction n generalizing m with
  | zero => exact ⟨rfl, rfl, rfl⟩
  | succ n ih =>
    have := ih m.free
    simp only [freeN]
    rw [this.1, this.2.1, this.2.2, free_libc, free_sched, free_nrefused]
    exact ⟨rfl, rfl, rfl⟩
/-- a refusal is recorded exactly when the allocator call fails -/
theorem alloc_nrefused (m : Mem) : m.alloc.2.nrefused = m.nrefused + (if m.alloc.1 then 0 else 1) := by
  unfold Mem.alloc; split <;> rfl
/-- the answer of the allocator depends on the schedule only -/
theorem alloc_congr (m m' : Mem) (h : m.sched = m'.sched) :
    m.alloc.1 = m'.alloc.1 ∧ m.alloc.2.sched = m'.alloc.2.sched := by
  unfold Mem.alloc; rw [← h]; split <;> exact ⟨rfl, rfl⟩

/-- the ledger after a call is the ledger before it, after at most one allocator call or some releases -/
inductive MemStep (m : Mem) : Mem → Prop
  | same : MemStep m m
  | alloc : MemStep m m.alloc.2
  | free : MemStep m m.free
  | freeN (n : Nat) : MemStep m (TreeTable.freeN m n)
  | check (b : Bool) : MemStep m (m.check b)

theorem step_mem (t : TreeTable) (op : Op) (m : Mem) : MemStep m (t.step cmp op m).2.2.1 := by
  cases op <;> simp only [step] <;> try exact .same
  · unfold add; dsimp only; split
    · exact .same
    · split
      · exact .alloc
      · exact .alloc
  · unfold remove; split
    · exact .same
    · exact .free
  · unfold removeFirst; split
    · exact .same
    · split
      · exact .check false
      · exact .free
  · unfold removeLast; split
    · exact .same
    · split
      · exact .check false
      · exact .free
  · exact .freeN _

theorem MemStep.libc {m m' : Mem} (h : MemStep m m') : m'.libc = m.libc := by
  cases h with
  | same => rfl
  | alloc => exact alloc_libc m
  | free => exact free_libc m
  | freeN n => exact (freeN_fields n m).1
  | check b => exact Mem.check_libc m b

/-- C14: no call touches the C library allocator -/
theorem step_libc (t : TreeTable) (op : Op) (m : Mem) : (t.step cmp op m).2.2.1.libc = m.libc :=
  (step_mem t op m).libc

/-- C08: the number of recorded refusals grows (by one) exactly when the call reports `CC_ERR_ALLOC` -/
theorem step_nrefused (t : TreeTable) (op : Op) (m : Mem) :
    ((t.step cmp op m).1.st = some .errAlloc ∧ (t.step cmp op m).2.2.1.nrefused = m.nrefused + 1) ∨
    ((t.step cmp op m).1.st ≠ some .errAlloc ∧ (t.step cmp op m).2.2.1.nrefused = m.nrefused) := by
  cases op <;> simp only [step]
  · unfold add; dsimp only; split
    · simp
    · split
      · rename_i ha; simp only [Bool.not_eq_true'] at ha ⊢; simp [alloc_nrefused, ha]
      · rename_i ha; simp only [Bool.not_eq_true', Bool.not_eq_false] at ha; simp [alloc_nrefused, ha]
  · unfold get; generalize t.lookup cmp _ = r; rcases r with ⟨_ | v, n⟩ <;> simp
  · simp
  · simp
  · unfold remove; generalize t.lookup cmp _ = r; rcases r with ⟨_ | v, n⟩ <;> simp [removeNode, free_nrefused]
  · unfold removeFirst; by_cases h0 : t.size = 0 <;> simp only [h0, if_true, if_false]
    · simp
    · cases t.root.minEntry <;> simp [check_nrefused, free_nrefused]
  · unfold removeLast; by_cases h0 : t.size = 0 <;> simp only [h0, if_true, if_false]
    · simp
    · cases t.root.maxEntry <;> simp [check_nrefused, free_nrefused]
  · simp [removeAll, (freeN_fields _ m).2.2]
  · unfold firstKey; cases t.root.minEntry <;> simp
  · unfold lastKey; cases t.root.maxEntry <;> simp
  · unfold firstValue; cases t.root.minEntry <;> simp
  · unfold lastValue; cases t.root.maxEntry <;> simp
  · unfold greaterThan; generalize t.lookup cmp _ = r; rcases r with ⟨_ | v, n⟩
    · simp
    · cases Tree.nextAfter t.root.toList _ <;> simp
  · unfold lesserThan; generalize t.lookup cmp _ = r; rcases r with ⟨_ | v, n⟩
    · simp
    · cases Tree.prevBefore t.root.toList _ <;> simp
  · simp
  · simp
  · simp

/-- C14: statuses, out-values, the resulting table and the comparator count depend on the ledger only
through the allocator's schedule -/
theorem step_congr (t : TreeTable) (op : Op) (m m' : Mem) (h : m.sched = m'.sched) :
    (t.step cmp op m).1 = (t.step cmp op m').1 ∧ (t.step cmp op m).2.1 = (t.step cmp op m').2.1 ∧
    (t.step cmp op m).2.2.2 = (t.step cmp op m').2.2.2 := by
  have ha := alloc_congr m m' h
  cases op with
  | add k v =>
    simp only [step]; unfold add; dsimp only; rw [ha.1]; split
    · exact ⟨rfl, rfl, rfl⟩
    · split <;> exact ⟨rfl, rfl, rfl⟩
  | remove k =>
    simp only [step]; unfold remove
    generalize t.lookup cmp k = r; rcases r with ⟨_ | v, n⟩ <;> exact ⟨rfl, rfl, rfl⟩
  | removeFirst =>
    unfold step removeFirst; dsimp only; split
    · exact ⟨rfl, rfl, rfl⟩
    · cases t.root.minEntry <;> exact ⟨rfl, rfl, rfl⟩
  | removeLast =>
    unfold step removeLast; dsimp only; split
    · exact ⟨rfl, rfl, rfl⟩
    · cases t.root.maxEntry <;> exact ⟨rfl, rfl, rfl⟩
  | _ => exact ⟨rfl, rfl, rfl⟩

/-! ### iterator calls, constructor, destructor -/
theorem iterStep_mem (t : TreeTable) (it : TreeIter) (op : IterOp) (m : Mem) :
    MemStep m (t.iterStep cmp it op m).2.2.2 := by
  cases op with
  | next => exact .same
  | remove =>
    simp only [iterStep, iterRemove]
    cases it.cur with
    | sentinel => exact .check false
    | null => exact .same
    | «at» k => exact .free

/-- iterator calls never ask the allocator for anything: results do not depend on the ledger -/
theorem iterStep_congr (t : TreeTable) (it : TreeIter) (op : IterOp) (m m' : Mem) :
    (t.iterStep cmp it op m).1 = (t.iterStep cmp it op m').1 ∧
    (t.iterStep cmp it op m).2.1 = (t.iterStep cmp it op m').2.1 ∧
    (t.iterStep cmp it op m).2.2.1 = (t.iterStep cmp it op m').2.2.1 := by
  cases op with
  | next => exact ⟨rfl, rfl, rfl⟩
  | remove =>
    simp only [iterStep, iterRemove]
    cases it.cur <;> exact ⟨rfl, rfl, rfl⟩

theorem new_libc (m : Mem) : (TreeTable.new m).2.2.libc = m.libc := by
  unfold TreeTable.new; dsimp only
  split
  · exact alloc_libc m
  · split
    · rw [free_libc, alloc_libc, alloc_libc]
    · rw [alloc_libc, alloc_libc]

theorem destroy_libc (t : TreeTable) (m : Mem) : (t.destroy m).libc = m.libc := by
  unfold destroy; rw [free_libc, free_libc, (freeN_fields _ m).1]

/-- the constructor fails exactly when one of its two requests is refused -/
theorem new_refused_iff (m : Mem) :
    (TreeTable.new m).1 = .errAlloc ↔ (m.alloc.1 = false ∨ m.alloc.2.alloc.1 = false) := by
  unfold TreeTable.new; dsimp only
  cases h1 : m.alloc.1 <;> cases h2 : m.alloc.2.alloc.1 <;> simp

theorem new_congr (m m' : Mem) (h : m.sched = m'.sched) :
    (TreeTable.new m).1 = (TreeTable.new m').1 ∧ (TreeTable.new m).2.1 = (TreeTable.new m').2.1 := by
  have a := alloc_congr m m' h
  have b := alloc_congr m.alloc.2 m'.alloc.2 a.2
  unfold TreeTable.new; dsimp only
  rw [a.1, b.1]
  split
  · exact ⟨rfl, rfl⟩
  · split <;> exact ⟨rfl, rfl⟩

/-! ### histories -/
theorem run_libc (ops : List (Op × List Bool)) (t : TreeTable) (m : Mem) :
    (t.run cmp ops m).2.2.2.libc = m.libc := by
  induction ops generalizing t m with
  | nil => rfl
  | cons x ops ih =>
    obtain ⟨op, sched⟩ := x
    simp only [run]
    rw [ih, step_libc]; rfl

/-- every call of a history installs its own schedule: the whole run is independent of the ledger it
starts from -/
theorem run_congr (ops : List (Op × List Bool)) (t : TreeTable) (m m' : Mem) :
    (t.run cmp ops m).1 = (t.run cmp ops m').1 ∧ (t.run cmp ops m).2.1 = (t.run cmp ops m').2.1 ∧
    (t.run cmp ops m).2.2.1 = (t.run cmp ops m').2.2.1 := by
  induction ops generalizing t m m' with
  | nil => exact ⟨rfl, rfl, rfl⟩
  | cons x ops ih =>
    obtain ⟨op, sched⟩ := x
    have s := step_congr (cmp := cmp) t op (m.begin sched) (m'.begin sched) rfl
    simp only [run]
    rw [s.1, s.2.1, s.2.2]
    have := ih (t.step cmp op (m'.begin sched)).2.1 (t.step cmp op (m.begin sched)).2.2.1
      (t.step cmp op (m'.begin sched)).2.2.1
    rw [this.1, this.2.1, this.2.2]
    exact ⟨rfl, rfl, rfl⟩

theorem run_append (a b : List (Op × List Bool)) (t : TreeTable) (m : Mem) :
    t.run cmp (a ++ b) m =
      ((t.run cmp a m).1 ++ ((t.run cmp a m).2.2.1.run cmp b (t.run cmp a m).2.2.2).1,
       (t.run cmp a m).2.1 ++ ((t.run cmp a m).2.2.1.run cmp b (t.run cmp a m).2.2.2).2.1,
       ((t.run cmp a m).2.2.1.run cmp b (t.run cmp a m).2.2.2).2.2) := by
  induction a generalizing t m with
  | nil => rfl
  | cons x a ih =>
    obtain ⟨op, sched⟩ := x
    simp only [List.cons_append, run]
    rw [ih]

theorem iterRun_libc (prog : List IterOp) (t : TreeTable) (it : TreeIter) (m : Mem) :
    (t.iterRun cmp it prog m).2.2.2.libc = m.libc := by
  induction prog generalizing t it m with
  | nil => rfl
  | cons op rest ih => simp only [iterRun]; rw [ih, (iterStep_mem t it op m).libc]

end CC.TreeTable

namespace CC.TreeSet
open CC.Spec CC.Spec.OrdMap CC.Spec.OrdSet
variable {cmp : Nat → Nat → Int}

theorem step_libc (s : TreeSet) (op : OrdSet.Op) (m : Mem) : (s.step cmp op m).2.2.1.libc = m.libc := by
  rw [step_eq_table]; exact TreeTable.step_libc s.t (toMapOp op) m

theorem step_congr (s : TreeSet) (op : OrdSet.Op) (m m' : Mem) (h : m.sched = m'.sched) :
    (s.step cmp op m).1 = (s.step cmp op m').1 ∧ (s.step cmp op m).2.1 = (s.step cmp op m').2.1 ∧
    (s.step cmp op m).2.2.2 = (s.step cmp op m').2.2.2 := by
  have k := TreeTable.step_congr (cmp := cmp) s.t (toMapOp op) m m' h
  rw [step_eq_table, step_eq_table, k.1, k.2.1, k.2.2]
  exact ⟨rfl, rfl, rfl⟩

theorem new_libc (m : Mem) : (TreeSet.new m).2.2.libc = m.libc := by
  unfold TreeSet.new; dsimp only
  split
  · exact TreeTable.alloc_libc m
  · have := TreeTable.new_libc m.alloc.2
    split
    · rename_i heq; rw [heq] at this; simp only at this; rw [this, TreeTable.alloc_libc]
    · rename_i _ heq
      rw [heq] at this; simp only at this
      rw [TreeTable.free_libc, this, TreeTable.alloc_libc]

theorem destroy_libc (s : TreeSet) (m : Mem) : (s.destroy m).libc = m.libc := by
  unfold destroy; rw [TreeTable.free_libc, TreeTable.destroy_libc]

theorem run_libc (ops : List (OrdSet.Op × List Bool)) (s : TreeSet) (m : Mem) :
    (s.run cmp ops m).2.2.2.libc = m.libc := by
  induction ops generalizing s m with
  | nil => rfl
  | cons x ops ih =>
    obtain ⟨op, sched⟩ := x
    simp only [run]
    rw [ih, step_libc]; rfl

theorem run_congr (ops : List (OrdSet.Op × List Bool)) (s : TreeSet) (m m' : Mem) :
    (s.run cmp ops m).1 = (s.run cmp ops m').1 ∧ (s.run cmp ops m).2.1 = (s.run cmp ops m').2.1 ∧
    (s.run cmp ops m).2.2.1 = (s.run cmp ops m').2.2.1 := by
  induction ops generalizing s m m' with
  | nil => exact ⟨rfl, rfl, rfl⟩
  | cons x ops ih =>
    obtain ⟨op, sched⟩ := x
    have k := step_congr (cmp := cmp) s op (m.begin sched) (m'.begin sched) rfl
    simp only [run]
    rw [k.1, k.2.1, k.2.2]
    have := ih (s.step cmp op (m'.begin sched)).2.1 (s.step cmp op (m.begin sched)).2.2.1
      (s.step cmp op (m'.begin sched)).2.2.1
    rw [this.1, this.2.1, this.2.2]
    exact ⟨rfl, rfl, rfl⟩

/-- a set iterator call is the table iterator call (the set hides the value of a yielded entry) -/
theorem iterStep_eq_table (s : TreeSet) (it : TreeIter) (op : IterOp) (m : Mem) :
    s.iterStep cmp it op m =
      ({ st := (s.t.iterStep cmp it op m).1.st, val := (s.t.iterStep cmp it op m).1.val },
       { t := (s.t.iterStep cmp it op m).2.1 }, (s.t.iterStep cmp it op m).2.2.1,
       (s.t.iterStep cmp it op m).2.2.2) := by
  cases op <;> rfl

theorem iterRun_eq_table (prog : List IterOp) (s : TreeSet) (it : TreeIter) (m : Mem) :
    (s.iterRun cmp it prog m).1 = (s.t.iterRun cmp it prog m).1.map (fun o => { st := o.st, val := o.val }) ∧
    (s.iterRun cmp it prog m).2.1.t = (s.t.iterRun cmp it prog m).2.1 ∧
    (s.iterRun cmp it prog m).2.2 = (s.t.iterRun cmp it prog m).2.2 := by
  induction prog generalizing s it m with
  | nil => exact ⟨rfl, rfl, rfl⟩
  | cons op rest ih =>
    simp only [iterRun, TreeTable.iterRun, List.map_cons]
    rw [iterStep_eq_table]
    have := ih { t := (s.t.iterStep cmp it op m).2.1 } (s.t.iterStep cmp it op m).2.2.1 (s.t.iterStep cmp it op m).2.2.2
    exact ⟨by rw [this.1], this.2.1, this.2.2⟩
end CC.TreeSet
