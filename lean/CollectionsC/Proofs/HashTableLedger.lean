import CollectionsC.Proofs.HashTable
import CollectionsC.Proofs.HashSet
/-! C14 for the hash containers: no operation of the model ever touches the C library allocator
counter — every allocation and release goes through the configured triple. -/
set_option maxHeartbeats 800000
namespace CC.HT
open CC

@[simp] theorem alloc_libc (m : Mem) : m.alloc.2.libc = m.libc := by
  unfold Mem.alloc; split <;> rfl
@[simp] theorem free_libc (m : Mem) : m.free.libc = m.libc := by
  unfold Mem.free; split <;> rfl
@[simp] theorem freeN_libc (m : Mem) (n : Nat) : (freeN m n).libc = m.libc := by
  induction n generalizing m with
  | zero => rfl
  | succ n ih => simp [freeN, ih]

end CC.HT

namespace CC.HashTable
open CC CC.HT

/-! ### C14: every allocator event of every table operation goes through the configured triple
(the `libc` counter of the ledger never moves) -/

theorem new_libc (c : HCfg) (cap : Nat) (m : Mem) : (HashTable.new c cap m).2.2.libc = m.libc := by
  unfold HashTable.new; simp only
  split
  · simp
  · split <;> simp

theorem resize_libc (c : HCfg) (t : HashTable) (n : Nat) (m : Mem) : (t.resize c n m).2.2.libc = m.libc := by
  unfold resize
  split
  · rfl
  · simp only; split <;> simp

theorem growLoop_libc (c : HCfg) (fuel : Nat) (t : HashTable) (m : Mem) : (growLoop c fuel t m).2.2.libc = m.libc := by
  induction fuel generalizing t m with
  | zero => simp [growLoop]
  | succ fuel ih =>
    unfold growLoop
    split
    · simp only
      split
      · exact resize_libc c t _ m
      · rw [ih, resize_libc]
    · rfl

theorem add_libc (c : HCfg) (t : HashTable) (k : Option Nat) (v : Nat) (m : Mem) : (t.add c k v m).2.2.libc = m.libc := by
  unfold add
  simp only
  split
  · exact growLoop_libc c 64 t m
  · split
    · simp [growLoop_libc]
    · split <;> simp [growLoop_libc]

theorem remove_libc (c : HCfg) (t : HashTable) (k : Option Nat) (m : Mem) : (t.remove c k m).2.2.2.libc = m.libc := by
  unfold remove; simp only
  split <;> simp

theorem removeAll_libc (t : HashTable) (m : Mem) : (t.removeAll m).2.libc = m.libc := by
  rw [removeAll_mem]; simp

theorem destroy_libc (t : HashTable) (m : Mem) : (t.destroy m).libc = m.libc := by
  unfold destroy; simp

end CC.HashTable
