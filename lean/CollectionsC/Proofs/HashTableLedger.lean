import CollectionsC.Proofs.HashTable
import CollectionsC.Proofs.HashSet
import CollectionsC.Proofs.HashTableDerived
/-! C14 for the hash containers: no operation of the model ever touches the C library allocator
counter — every allocation and release goes through the configured triple. -/
set_option maxHeartbeats 1600000
namespace CC.HT
open CC

@[simp] theorem alloc_libc (m : Mem) : m.alloc.2.libc = m.libc := by
  unfold Mem.alloc; split <;> rfl
@[simp] theorem free_libc (m : Mem) : m.free.libc = m.libc := by
  unfold Mem.free; split <;> rfl
@[simp] theorem freeN_libc (m : Mem) (n : Nat) : (freeN m n).libc = m.libc := by
  induction n generalizing m with
  | zero => rfl
  | succ n ih => simp [freeN, ih]

end CC.HT

namespace CC.HashTable
open CC CC.HT

/-! ### C14: every allocator event of every table operation goes through the configured triple
(the `libc` counter of the ledger never moves) -/

theorem new_libc (c : HCfg) (cap : Nat) (m : Mem) : (HashTable.new c cap m).2.2.libc = m.libc := by
  unfold HashTable.new; simp only
  split
  · simp
  · split <;> simp

theorem resize_libc (c : HCfg) (t : HashTable) (n : Nat) (m : Mem) : (t.resize c n m).2.2.libc = m.libc := by
  unfold resize
  split
  · rfl
  · simp only; split <;> simp

theorem growLoop_libc (c : HCfg) (fuel : Nat) (t : HashTable) (m : Mem) : (growLoop c fuel t m).2.2.libc = m.libc := by
  induction fuel generalizing t m with
  | zero => simp [growLoop]
  | succ fuel ih =>
    unfold growLoop
    split
    · simp only
      split
      · exact resize_libc c t _ m
      · rw [ih, resize_libc]
    · rfl

theorem add_libc (c : HCfg) (t : HashTable) (k : Option Nat) (v : Nat) (m : Mem) : (t.add c k v m).2.2.libc = m.libc := by
  unfold add
  simp only
  split
  · exact growLoop_libc c 64 t m
  · split
    · simp [growLoop_libc]
    · split <;> simp [growLoop_libc]

theorem remove_libc (c : HCfg) (t : HashTable) (k : Option Nat) (m : Mem) : (t.remove c k m).2.2.2.libc = m.libc := by
  unfold remove; simp only
  split <;> simp

theorem removeAll_libc (t : HashTable) (m : Mem) : (t.removeAll m).2.libc = m.libc := by
  rw [removeAll_mem]; simp

theorem destroy_libc (t : HashTable) (m : Mem) : (t.destroy m).libc = m.libc := by
  unfold destroy; simp

end CC.HashTable

namespace CC.HT
open CC

theorem alloc_nrefused (m : Mem) : m.alloc.2.nrefused = m.nrefused + (if m.alloc.1 then 0 else 1) := by
  unfold Mem.alloc; split <;> simp
@[simp] theorem free_nrefused (m : Mem) : m.free.nrefused = m.nrefused := by
  unfold Mem.free; split <;> rfl
@[simp] theorem check_nrefused (m : Mem) (b : Bool) : (m.check b).nrefused = m.nrefused := by
  cases b <;> simp [Mem.check]
@[simp] theorem freeN_nrefused (m : Mem) (n : Nat) : (freeN m n).nrefused = m.nrefused := by
  induction n generalizing m with
  | zero => rfl
  | succ n ih => simp [freeN, ih]
@[simp] theorem free_sched (m : Mem) : m.free.sched = m.sched := by
  unfold Mem.free; split <;> rfl
@[simp] theorem freeN_sched (m : Mem) (n : Nat) : (freeN m n).sched = m.sched := by
  induction n generalizing m with
  | zero => rfl
  | succ n ih => simp [freeN, ih]
/-- the allocator's answer and the rest of the schedule depend on the schedule only -/
theorem alloc_congr (m m' : Mem) (h : m.sched = m'.sched) :
    m.alloc.1 = m'.alloc.1 ∧ m.alloc.2.sched = m'.alloc.2.sched := by
  unfold Mem.alloc; rw [h]; split <;> simp

end CC.HT

namespace CC.DArr
open CC CC.HT

theorem new_libc (cap : Nat) (m : Mem) : (DArr.new cap m).2.2.libc = m.libc := by
  unfold DArr.new; split
  · rfl
  · simp only; split
    · simp
    · split <;> simp
theorem expand_libc (c : HCfg) (a : DArr) (m : Mem) : (a.expand c m).2.2.libc = m.libc := by
  unfold expand; split
  · rfl
  · simp only; split <;> simp
theorem add_libc (c : HCfg) (a : DArr) (x : Nat) (m : Mem) : (a.add c x m).2.2.libc = m.libc := by
  unfold add; simp only
  split
  · split
    · exact expand_libc c a m
    · simp [expand_libc]
  · split <;> simp
theorem addAll_libc (c : HCfg) (xs : List Nat) (a : DArr) (m : Mem) : (addAll c xs a m).2.2.libc = m.libc := by
  induction xs generalizing a m with
  | nil => rfl
  | cons x xs ih =>
    unfold addAll; simp only
    split
    · exact add_libc c a x m
    · rw [ih, add_libc]
theorem destroy_libc (a : DArr) (m : Mem) : (a.destroy m).libc = m.libc := by simp [destroy]

end CC.DArr

namespace CC.HashTable
open CC CC.HT CC.Spec
open CC.Spec.Map (Op Out)

theorem collect_libc (c : HCfg) (t : HashTable) (xs : List Nat) (m : Mem) : (t.collect c xs m).2.2.libc = m.libc := by
  unfold collect; simp only
  cases h : (DArr.new t.size m).2.1 with
  | none => simp only; exact DArr.new_libc t.size m
  | some a =>
    simp only
    split
    · rw [DArr.destroy_libc, DArr.addAll_libc]; simp [DArr.new_libc]
    · rw [DArr.addAll_libc]; simp [DArr.new_libc]

theorem getKeys_libc (c : HCfg) (t : HashTable) (m : Mem) : (t.getKeys c m).2.2.libc = m.libc := collect_libc c t _ m
theorem getValues_libc (c : HCfg) (t : HashTable) (m : Mem) : (t.getValues c m).2.2.libc = m.libc := collect_libc c t _ m

theorem get_libc (c : HCfg) (t : HashTable) (k : Key) (m : Mem) : (t.get c k m).2.2.libc = m.libc := by
  unfold get; simp only; split <;> simp

theorem step_libc (c : HCfg) (t : HashTable) (op : Op) (m : Mem) : (t.step c op m).2.2.libc = m.libc := by
  cases op with
  | add k v => exact add_libc c t k v m
  | get k => exact get_libc c t k m
  | containsKey k => simp only [step, containsKey]; exact get_libc c t k m
  | remove k => exact remove_libc c t k m
  | removeAll => exact removeAll_libc t m

theorem run_libc (c : HCfg) (ops : List Op) (t : HashTable) (m : Mem) : (t.run c ops m).2.2.2.libc = m.libc := by
  induction ops generalizing t m with
  | nil => rfl
  | cons op ops ih => simp only [run]; rw [ih, step_libc]

theorem iter_libc (t : HashTable) (it : HIter) (m : Mem) :
    (t.iterInit m).2.libc = m.libc ∧ (t.iterNext it m).2.2.2.libc = m.libc := by
  constructor
  · unfold iterInit; simp only; split <;> simp
  · unfold iterNext
    split
    · rfl
    · split
      · simp
      · split
        · rfl
        · simp only; split <;> simp

theorem iterRemove_libc (c : HCfg) (t : HashTable) (it : HIter) (m : Mem) : (t.iterRemove c it m).2.2.2.libc = m.libc := by
  unfold iterRemove; split
  · simp
  · exact remove_libc c t _ m

/-! ### refusals -/

theorem resize_nrefused (c : HCfg) (t : HashTable) (n : Nat) (m : Mem) :
    ((t.resize c n m).1 = .errAlloc ∧ (t.resize c n m).2.2.nrefused = m.nrefused + 1) ∨
    ((t.resize c n m).1 ≠ .errAlloc ∧ (t.resize c n m).2.2.nrefused = m.nrefused) := by
  unfold resize
  split
  · right; simp
  · simp only
    cases ha : m.alloc.1 with
    | false => left; simp [alloc_nrefused, ha]
    | true => right; simp [alloc_nrefused, ha]

theorem growLoop_nrefused (c : HCfg) (fuel : Nat) (t : HashTable) (m : Mem) :
    ((growLoop c fuel t m).1 = .errAlloc ∧ (growLoop c fuel t m).2.2.nrefused = m.nrefused + 1) ∨
    ((growLoop c fuel t m).1 ≠ .errAlloc ∧ (growLoop c fuel t m).2.2.nrefused = m.nrefused) := by
  induction fuel generalizing t m with
  | zero => right; simp [growLoop]
  | succ fuel ih =>
    unfold growLoop
    split
    · simp only
      rcases resize_nrefused c t (t.capacity <<< 1) m with ⟨a, b⟩ | ⟨a, b⟩
      · left; simp [a, b]
      · split
        · right; exact ⟨a, b⟩
        · rcases ih (t.resize c (t.capacity <<< 1) m).2.1 (t.resize c (t.capacity <<< 1) m).2.2 with ⟨x, y⟩ | ⟨x, y⟩
          · left; exact ⟨x, by rw [y, b]⟩
          · right; exact ⟨x, by rw [y, b]⟩
    · right; simp

theorem add_nrefused (c : HCfg) (t : HashTable) (k : Key) (v : Nat) (m : Mem) :
    ((t.add c k v m).1 = .errAlloc ∧ (t.add c k v m).2.2.nrefused = m.nrefused + 1) ∨
    ((t.add c k v m).1 ≠ .errAlloc ∧ (t.add c k v m).2.2.nrefused = m.nrefused) := by
  unfold add; simp only
  rcases growLoop_nrefused c 64 t m with ⟨a, b⟩ | ⟨a, b⟩
  · left; simp [a, b]
  · split
    · right; exact ⟨a, b⟩
    · split
      · right; simp [b]
      · rename_i hr
        generalize hm1 : ((growLoop c 64 t m).2.2.check (decide ((growLoop c 64 t m).2.1.index (keyHash c k) < (growLoop c 64 t m).2.1.buckets.length))) = m1
        have hm1r : m1.nrefused = m.nrefused := by rw [← hm1]; simp [b]
        cases ha : m1.alloc.1 with
        | false => left; simp [alloc_nrefused, ha, hm1r]
        | true => right; simp [alloc_nrefused, ha, hm1r]

theorem step_nrefused (c : HCfg) (t : HashTable) (op : Op) (m : Mem) :
    ((t.step c op m).1.st = some .errAlloc ∧ (t.step c op m).2.2.nrefused = m.nrefused + 1) ∨
    ((t.step c op m).1.st ≠ some .errAlloc ∧ (t.step c op m).2.2.nrefused = m.nrefused) := by
  cases op with
  | add k v =>
    rcases add_nrefused c t k v m with ⟨a, b⟩ | ⟨a, b⟩
    · left; exact ⟨by simp [step, a], b⟩
    · right; exact ⟨by simp [step, a], b⟩
  | get k => right; simp only [step, get]; split <;> simp
  | containsKey k => right; simp only [step, containsKey, get]; split <;> simp
  | remove k => right; simp only [step, remove]; split <;> simp
  | removeAll => right; simp only [step]; rw [removeAll_mem]; simp

end CC.HashTable

namespace CC.HashTable
open CC CC.HT CC.Spec
open CC.Spec.Map (Op Out)

/-! ### allocator independence: results depend on the ledger only through the schedule -/

theorem resize_congr (c : HCfg) (t : HashTable) (n : Nat) (m m' : Mem) (h : m.sched = m'.sched) :
    (t.resize c n m).1 = (t.resize c n m').1 ∧ (t.resize c n m).2.1 = (t.resize c n m').2.1 ∧
    (t.resize c n m).2.2.sched = (t.resize c n m').2.2.sched := by
  obtain ⟨a1, a2⟩ := alloc_congr m m' h
  unfold resize
  split
  · exact ⟨rfl, rfl, h⟩
  · simp only; rw [a1]
    split
    · exact ⟨rfl, rfl, a2⟩
    · exact ⟨rfl, rfl, by simp [a2]⟩

theorem growLoop_congr (c : HCfg) (fuel : Nat) (t : HashTable) (m m' : Mem) (h : m.sched = m'.sched) :
    (growLoop c fuel t m).1 = (growLoop c fuel t m').1 ∧ (growLoop c fuel t m).2.1 = (growLoop c fuel t m').2.1 ∧
    (growLoop c fuel t m).2.2.sched = (growLoop c fuel t m').2.2.sched := by
  induction fuel generalizing t m m' with
  | zero => exact ⟨rfl, rfl, by simp [growLoop, h]⟩
  | succ fuel ih =>
    obtain ⟨r1, r2, r3⟩ := resize_congr c t (t.capacity <<< 1) m m' h
    unfold growLoop
    split
    · simp only; rw [r1]
      split
      · exact ⟨r1, r2, r3⟩
      · rw [r2]; exact ih _ _ _ r3
    · exact ⟨rfl, rfl, h⟩

theorem add_congr (c : HCfg) (t : HashTable) (k : Key) (v : Nat) (m m' : Mem) (h : m.sched = m'.sched) :
    (t.add c k v m).1 = (t.add c k v m').1 ∧ (t.add c k v m).2.1 = (t.add c k v m').2.1 ∧
    (t.add c k v m).2.2.sched = (t.add c k v m').2.2.sched := by
  obtain ⟨g1, g2, g3⟩ := growLoop_congr c 64 t m m' h
  unfold add; simp only
  rw [g1, g2]
  split
  · exact ⟨g1, g2, g3⟩
  · split
    · exact ⟨rfl, rfl, by simp [g3]⟩
    · obtain ⟨a1, a2⟩ := alloc_congr
        ((growLoop c 64 t m).2.2.check (decide ((growLoop c 64 t m').2.1.index (keyHash c k) < (growLoop c 64 t m').2.1.buckets.length)))
        ((growLoop c 64 t m').2.2.check (decide ((growLoop c 64 t m').2.1.index (keyHash c k) < (growLoop c 64 t m').2.1.buckets.length)))
        (by simp [g3])
      rw [a1]
      split
      · exact ⟨rfl, rfl, a2⟩
      · exact ⟨rfl, rfl, a2⟩

theorem new_congr (c : HCfg) (cap : Nat) (m m' : Mem) (h : m.sched = m'.sched) :
    (HashTable.new c cap m).1 = (HashTable.new c cap m').1 ∧ (HashTable.new c cap m).2.1 = (HashTable.new c cap m').2.1 ∧
    (HashTable.new c cap m).2.2.sched = (HashTable.new c cap m').2.2.sched := by
  obtain ⟨a1, a2⟩ := alloc_congr m m' h
  obtain ⟨b1, b2⟩ := alloc_congr m.alloc.2 m'.alloc.2 a2
  unfold HashTable.new; simp only
  rw [a1]
  split
  · exact ⟨rfl, rfl, a2⟩
  · rw [b1]
    split
    · exact ⟨rfl, rfl, by simp [b2]⟩
    · exact ⟨rfl, rfl, b2⟩

theorem get_congr (c : HCfg) (t : HashTable) (k : Key) (m m' : Mem) (h : m.sched = m'.sched) :
    (t.get c k m).1 = (t.get c k m').1 ∧ (t.get c k m).2.1 = (t.get c k m').2.1 ∧
    (t.get c k m).2.2.sched = (t.get c k m').2.2.sched := by
  simp only [get]; cases chainFind (t.bucket (t.index (keyHash c k))) k <;> simp [h]

theorem step_congr (c : HCfg) (t : HashTable) (op : Op) (m m' : Mem) (h : m.sched = m'.sched) :
    (t.step c op m).1 = (t.step c op m').1 ∧ (t.step c op m).2.1 = (t.step c op m').2.1 ∧
    (t.step c op m).2.2.sched = (t.step c op m').2.2.sched := by
  cases op with
  | add k v =>
    obtain ⟨a1, a2, a3⟩ := add_congr c t k v m m' h
    simp only [step]; rw [a1, a2]; exact ⟨rfl, rfl, a3⟩
  | get k => simp only [step, get]; cases chainFind (t.bucket (t.index (keyHash c k))) k <;> simp [h]
  | containsKey k =>
    obtain ⟨g1, g2, g3⟩ := get_congr c t k m m' h
    simp only [step, containsKey, g1]; exact ⟨rfl, trivial, g3⟩
  | remove k => simp only [step, remove]; cases chainRemove (t.bucket (t.index (keyHash c k))) k <;> simp [h]
  | removeAll =>
    simp only [step]
    refine ⟨trivial, ?_, by rw [removeAll_mem, removeAll_mem]; simp [h]⟩
    cases hr : (t.removeAll m).1 with | mk a b c' d =>
    cases hr' : (t.removeAll m').1 with | mk a' b' c'' d' =>
    have e1 := removeAll_capacity t m; have e1' := removeAll_capacity t m'
    have e2 := removeAll_threshold t m; have e2' := removeAll_threshold t m'
    have e3 := removeAll_buckets t m; have e3' := removeAll_buckets t m'
    have e4 := removeAll_size t m; have e4' := removeAll_size t m'
    rw [hr] at e1 e2 e3 e4; rw [hr'] at e1' e2' e3' e4'
    simp only at e1 e2 e3 e4 e1' e2' e3' e4'
    rw [e1, e2, e3, e4, e1', e2', e3', e4']

theorem run_congr (c : HCfg) (ops : List Op) (t : HashTable) (m m' : Mem) (h : m.sched = m'.sched) :
    (t.run c ops m).1 = (t.run c ops m').1 ∧ (t.run c ops m).2.1 = (t.run c ops m').2.1 ∧
    (t.run c ops m).2.2.1 = (t.run c ops m').2.2.1 := by
  induction ops generalizing t m m' with
  | nil => exact ⟨rfl, rfl, rfl⟩
  | cons op ops ih =>
    obtain ⟨s1, s2, s3⟩ := step_congr c t op m m' h
    simp only [run]
    rw [s1, s2]
    obtain ⟨i1, i2, i3⟩ := ih (t.step c op m').2.1 (t.step c op m).2.2 (t.step c op m').2.2 s3
    rw [i1, i2, i3]; exact ⟨rfl, rfl, rfl⟩

end CC.HashTable
