import CollectionsC.Proofs.HashTable
import CollectionsC.Proofs.HashSet
import CollectionsC.Proofs.HashTableDerived
/-! Ledger facts for the hash table (C06/C08/C14).

A table carries its allocator triple (`t.triple`, copied from the configuration by `new_conf`); every
allocation and release of every operation goes through `Mem.allocT t.triple` / `Mem.freeT t.triple`.
`otherOf tr m` collects the ledger fields that belong to the *other* allocator (for `.conf`: the
C-library counters `libc/liveLibc/lalloc/lfree`; for `.libc`: `live/nalloc/nfree/nrefused` and the
refusal schedule).  Every operation leaves `otherOf t.triple` unchanged — for a table built by
`new_conf` no C-library event, for a table built by the default constructor no event on the configured
allocator and no consumed refusal.  Also: refusal counting (`errAlloc` iff a refusal fired) and
independence of the ledger (results depend on it only through the schedule). -/
set_option maxHeartbeats 1600000
namespace CC.HT
open CC

/-- the ledger fields an operation on a container with triple `tr` must not touch -/
def otherOf (tr : Triple) (m : Mem) : List Nat × List Bool :=
  match tr with
  | .conf => ([m.libc, m.liveLibc, m.lalloc, m.lfree], [])
  | .libc => ([m.live, m.nalloc, m.nfree, m.nrefused], m.sched)

@[simp] theorem otherOf_allocT (tr : Triple) (m : Mem) : otherOf tr (m.allocT tr).2 = otherOf tr m := by
  cases tr with
  | conf => simp only [Mem.allocT_conf, otherOf]; unfold Mem.alloc; split <;> rfl
  | libc => rfl
@[simp] theorem otherOf_freeT (tr : Triple) (m : Mem) : otherOf tr (m.freeT tr) = otherOf tr m := by
  cases tr with
  | conf => simp only [Mem.freeT_conf, otherOf]; unfold Mem.free; split <;> rfl
  | libc => simp only [Mem.freeT, otherOf]; split <;> rfl
@[simp] theorem otherOf_check (tr : Triple) (m : Mem) (b : Bool) : otherOf tr (m.check b) = otherOf tr m := by
  cases b <;> cases tr <;> rfl
@[simp] theorem otherOf_freeN (tr : Triple) (m : Mem) (n : Nat) : otherOf tr (freeN m tr n) = otherOf tr m := by
  induction n generalizing m with
  | zero => rfl
  | succ n ih => simp [freeN, ih]

/-- reading `otherOf` for a configured container: the C-library counters -/
theorem otherOf_conf {m m' : Mem} (h : otherOf .conf m' = otherOf .conf m) :
    m'.libc = m.libc ∧ m'.liveLibc = m.liveLibc ∧ m'.lalloc = m.lalloc ∧ m'.lfree = m.lfree := by
  simp only [otherOf, Prod.mk.injEq, List.cons.injEq, and_true] at h
  exact ⟨h.1, h.2.1, h.2.2.1, h.2.2.2⟩
/-- … and for a container on the C library: the configured allocator's counters and schedule -/
theorem otherOf_libc {m m' : Mem} (h : otherOf .libc m' = otherOf .libc m) :
    m'.live = m.live ∧ m'.nalloc = m.nalloc ∧ m'.nfree = m.nfree ∧ m'.nrefused = m.nrefused ∧ m'.sched = m.sched := by
  simp only [otherOf, Prod.mk.injEq, List.cons.injEq, and_true] at h
  exact ⟨h.1.1, h.1.2.1, h.1.2.2.1, h.1.2.2.2, h.2⟩

/-! refusals -/
theorem allocT_nrefused (m : Mem) (tr : Triple) :
    (m.allocT tr).2.nrefused = m.nrefused + (if (m.allocT tr).1 then 0 else 1) := by
  cases tr with
  | conf =>
    simp only [Mem.allocT_conf]
    cases hs : m.sched with
    | nil => simp [Mem.alloc, hs]
    | cons b rest => cases b <;> simp [Mem.alloc, hs]
  | libc => simp [Mem.allocT]
@[simp] theorem freeT_nrefused (m : Mem) (tr : Triple) : (m.freeT tr).nrefused = m.nrefused := by
  cases tr <;> simp only [Mem.freeT] <;> (try unfold Mem.free) <;> split <;> rfl
@[simp] theorem check_nrefused (m : Mem) (b : Bool) : (m.check b).nrefused = m.nrefused := by
  cases b <;> simp [Mem.check]
@[simp] theorem freeN_nrefused (m : Mem) (tr : Triple) (n : Nat) : (freeN m tr n).nrefused = m.nrefused := by
  induction n generalizing m with
  | zero => rfl
  | succ n ih => simp [freeN, ih]

/-! schedule -/
@[simp] theorem freeT_sched (m : Mem) (tr : Triple) : (m.freeT tr).sched = m.sched := by
  cases tr <;> simp only [Mem.freeT] <;> (try unfold Mem.free) <;> split <;> rfl
@[simp] theorem freeN_sched (m : Mem) (tr : Triple) (n : Nat) : (freeN m tr n).sched = m.sched := by
  induction n generalizing m with
  | zero => rfl
  | succ n ih => simp [freeN, ih]
/-- the allocator's answer and the rest of the schedule depend on the schedule only -/
theorem allocT_congr (m m' : Mem) (tr : Triple) (h : m.sched = m'.sched) :
    (m.allocT tr).1 = (m'.allocT tr).1 ∧ (m.allocT tr).2.sched = (m'.allocT tr).2.sched := by
  cases tr with
  | conf => simp only [Mem.allocT_conf]; unfold Mem.alloc; rw [h]; split <;> simp
  | libc => exact ⟨rfl, h⟩

end CC.HT

namespace CC.DArr
open CC CC.HT

theorem new_other (cap : Nat) (tr : Triple) (m : Mem) : otherOf tr (DArr.new cap tr m).2.2 = otherOf tr m := by
  unfold DArr.new; split
  · rfl
  · split
    · rfl
    · simp only; split
      · simp
      · split <;> simp
theorem expand_other (c : HCfg) (a : DArr) (m : Mem) : otherOf a.triple (a.expand c m).2.2 = otherOf a.triple m := by
  unfold expand
  by_cases h0 : a.cap = Gen.CC_MAX_ELEMENTS
  · simp [h0]
  · simp only [h0, if_false]
    generalize (if c.agrow a.cap ≤ a.cap then (if a.cap < Gen.CC_MAX_ELEMENTS / 2 then a.cap + 1 else Gen.CC_MAX_ELEMENTS) else c.agrow a.cap) = nc
    by_cases h1 : nc > Gen.CC_MAX_ELEMENTS / 8
    · simp [h1]
    · simp only [h1, if_false]
      cases h2 : (m.allocT a.triple).1
      · have := otherOf_allocT a.triple m; simpa using this
      · simp
theorem expand_triple (c : HCfg) (a : DArr) (m : Mem) : (a.expand c m).2.1.triple = a.triple := by
  unfold expand
  by_cases h0 : a.cap = Gen.CC_MAX_ELEMENTS
  · simp [h0]
  · simp only [h0, if_false]
    generalize (if c.agrow a.cap ≤ a.cap then (if a.cap < Gen.CC_MAX_ELEMENTS / 2 then a.cap + 1 else Gen.CC_MAX_ELEMENTS) else c.agrow a.cap) = nc
    by_cases h1 : nc > Gen.CC_MAX_ELEMENTS / 8
    · simp [h1]
    · simp only [h1, if_false]
      cases h2 : (m.allocT a.triple).1 <;> simp
theorem add_triple (c : HCfg) (a : DArr) (x : Nat) (m : Mem) : (a.add c x m).2.1.triple = a.triple := by
  unfold add; simp only
  split
  · split
    · exact expand_triple c a m
    · simp [expand_triple]
  · split <;> rfl
theorem add_other (c : HCfg) (a : DArr) (x : Nat) (m : Mem) : otherOf a.triple (a.add c x m).2.2 = otherOf a.triple m := by
  unfold add; simp only
  split
  · split
    · exact expand_other c a m
    · simp [expand_other]
  · split <;> simp
theorem addAll_triple (c : HCfg) (xs : List Nat) (a : DArr) (m : Mem) : (addAll c xs a m).2.1.triple = a.triple := by
  induction xs generalizing a m with
  | nil => rfl
  | cons x xs ih =>
    unfold addAll; simp only
    split
    · exact add_triple c a x m
    · rw [ih, add_triple]
theorem addAll_other (c : HCfg) (xs : List Nat) (a : DArr) (m : Mem) : otherOf a.triple (addAll c xs a m).2.2 = otherOf a.triple m := by
  induction xs generalizing a m with
  | nil => rfl
  | cons x xs ih =>
    unfold addAll; simp only
    split
    · exact add_other c a x m
    · have := ih (a.add c x m).2.1 (a.add c x m).2.2
      rw [add_triple] at this
      rw [this, add_other]
theorem destroy_other (a : DArr) (m : Mem) : otherOf a.triple (a.destroy m) = otherOf a.triple m := by simp [destroy]

end CC.DArr

namespace CC.HashTable
open CC CC.HT CC.Spec
open CC.Spec.Map (Op Out)

/-! ### every operation touches only the counters of the table's own triple -/

theorem new_other (c : HCfg) (cap : Nat) (tr : Triple) (m : Mem) : otherOf tr (HashTable.new c cap tr m).2.2 = otherOf tr m := by
  unfold HashTable.new; simp only
  split
  · simp
  · split <;> simp

theorem resize_triple (c : HCfg) (t : HashTable) (n : Nat) (m : Mem) : (t.resize c n m).2.1.triple = t.triple := by
  unfold resize; split
  · rfl
  · simp only; split <;> rfl
theorem resize_other (c : HCfg) (t : HashTable) (n : Nat) (m : Mem) : otherOf t.triple (t.resize c n m).2.2 = otherOf t.triple m := by
  unfold resize
  split
  · rfl
  · simp only; split <;> simp

theorem growLoop_triple (c : HCfg) (fuel : Nat) (t : HashTable) (m : Mem) : (growLoop c fuel t m).2.1.triple = t.triple := by
  induction fuel generalizing t m with
  | zero => rfl
  | succ fuel ih =>
    unfold growLoop
    split
    · simp only
      split
      · exact resize_triple c t _ m
      · rw [ih, resize_triple]
    · rfl
theorem growLoop_other (c : HCfg) (fuel : Nat) (t : HashTable) (m : Mem) :
    otherOf t.triple (growLoop c fuel t m).2.2 = otherOf t.triple m := by
  induction fuel generalizing t m with
  | zero => simp [growLoop]
  | succ fuel ih =>
    unfold growLoop
    split
    · simp only
      split
      · exact resize_other c t _ m
      · have := ih (t.resize c (t.capacity <<< 1) m).2.1 (t.resize c (t.capacity <<< 1) m).2.2
        rw [resize_triple] at this
        rw [this, resize_other]
    · rfl

theorem add_triple (c : HCfg) (t : HashTable) (k : Key) (v : Nat) (m : Mem) : (t.add c k v m).2.1.triple = t.triple := by
  unfold add; simp only
  split
  · exact growLoop_triple c 64 t m
  · split
    · simp [growLoop_triple]
    · split <;> simp [growLoop_triple]
theorem add_other (c : HCfg) (t : HashTable) (k : Key) (v : Nat) (m : Mem) : otherOf t.triple (t.add c k v m).2.2 = otherOf t.triple m := by
  have hg := growLoop_other c 64 t m
  have ht := growLoop_triple c 64 t m
  unfold add; simp only
  split
  · exact hg
  · split
    · simp [hg]
    · rw [ht]; split <;> simp [hg]

theorem remove_triple (c : HCfg) (t : HashTable) (k : Key) (m : Mem) : (t.remove c k m).2.2.1.triple = t.triple := by
  unfold remove; simp only; split <;> rfl
theorem remove_other (c : HCfg) (t : HashTable) (k : Key) (m : Mem) : otherOf t.triple (t.remove c k m).2.2.2 = otherOf t.triple m := by
  unfold remove; simp only
  split <;> simp

theorem removeAll_other (t : HashTable) (m : Mem) : otherOf t.triple (t.removeAll m).2 = otherOf t.triple m := by
  rw [removeAll_mem]; simp

theorem destroy_other (t : HashTable) (m : Mem) : otherOf t.triple (t.destroy m) = otherOf t.triple m := by
  unfold destroy; simp

theorem collect_other (c : HCfg) (t : HashTable) (xs : List Nat) (m : Mem) : otherOf t.triple (t.collect c xs m).2.2 = otherOf t.triple m := by
  have hn := DArr.new_other t.size t.triple m
  unfold collect; simp only
  cases h : (DArr.new t.size t.triple m).2.1 with
  | none => simp only; exact hn
  | some a =>
    have ha : a.triple = t.triple := by
      unfold DArr.new at h
      split at h
      · cases h
      · split at h
        · cases h
        · simp only at h; split at h
          · cases h
          · split at h
            · cases h
            · simp only [Option.some.injEq] at h; rw [← h]
    have h1 := DArr.addAll_other c xs a ((DArr.new t.size t.triple m).2.2.check (decide (t.capacity ≤ t.buckets.length)))
    have h2 := DArr.addAll_triple c xs a ((DArr.new t.size t.triple m).2.2.check (decide (t.capacity ≤ t.buckets.length)))
    rw [ha] at h1
    simp only
    split
    · have h3 := DArr.destroy_other (DArr.addAll c xs a ((DArr.new t.size t.triple m).2.2.check (decide (t.capacity ≤ t.buckets.length)))).2.1
        (DArr.addAll c xs a ((DArr.new t.size t.triple m).2.2.check (decide (t.capacity ≤ t.buckets.length)))).2.2
      rw [h2, ha] at h3
      simp only; rw [h3, h1]; simp [hn]
    · simp only; rw [h1]; simp [hn]

theorem getKeys_other (c : HCfg) (t : HashTable) (m : Mem) : otherOf t.triple (t.getKeys c m).2.2 = otherOf t.triple m := collect_other c t _ m
theorem getValues_other (c : HCfg) (t : HashTable) (m : Mem) : otherOf t.triple (t.getValues c m).2.2 = otherOf t.triple m := collect_other c t _ m

/-- the array handed out by `get_keys/get_values` carries the table's triple -/
theorem collect_triple (c : HCfg) (t : HashTable) (xs : List Nat) (m : Mem) (a : DArr)
    (h : (t.collect c xs m).2.1 = some a) : a.triple = t.triple := by
  unfold collect at h; simp only at h
  cases hn : (DArr.new t.size t.triple m).2.1 with
  | none => rw [hn] at h; cases h
  | some a0 =>
    have ha : a0.triple = t.triple := by
      unfold DArr.new at hn
      split at hn
      · cases hn
      · split at hn
        · cases hn
        · simp only at hn; split at hn
          · cases hn
          · split at hn
            · cases hn
            · simp only [Option.some.injEq] at hn; rw [← hn]
    rw [hn] at h; simp only at h
    split at h
    · cases h
    · simp only [Option.some.injEq] at h
      rw [← h, DArr.addAll_triple, ha]

theorem get_mem (c : HCfg) (t : HashTable) (k : Key) (m : Mem) :
    (t.get c k m).2.2 = m.check (decide (t.index (keyHash c k) < t.buckets.length)) := by
  unfold get; simp only; split <;> rfl

theorem step_triple (c : HCfg) (t : HashTable) (op : Op) (m : Mem) : (t.step c op m).2.1.triple = t.triple := by
  cases op with
  | add k v => exact add_triple c t k v m
  | get k => rfl
  | containsKey k => rfl
  | remove k => exact remove_triple c t k m
  | removeAll => exact removeAll_triple t m

theorem step_other (c : HCfg) (t : HashTable) (op : Op) (m : Mem) : otherOf t.triple (t.step c op m).2.2 = otherOf t.triple m := by
  cases op with
  | add k v => exact add_other c t k v m
  | get k => simp only [step]; rw [get_mem]; simp
  | containsKey k => simp only [step, containsKey]; rw [get_mem]; simp
  | remove k => exact remove_other c t k m
  | removeAll => exact removeAll_other t m

theorem run_triple (c : HCfg) (ops : List Op) (t : HashTable) (m : Mem) : (t.run c ops m).2.2.1.triple = t.triple := by
  induction ops generalizing t m with
  | nil => rfl
  | cons op ops ih => simp only [run]; rw [ih, step_triple]

theorem run_other (c : HCfg) (ops : List Op) (t : HashTable) (m : Mem) : otherOf t.triple (t.run c ops m).2.2.2 = otherOf t.triple m := by
  induction ops generalizing t m with
  | nil => rfl
  | cons op ops ih =>
    simp only [run]
    have := ih (t.step c op m).2.1 (t.step c op m).2.2
    rw [step_triple] at this
    rw [this, step_other]

theorem iter_other (tr : Triple) (t : HashTable) (it : HIter) (m : Mem) :
    otherOf tr (t.iterInit m).2 = otherOf tr m ∧ otherOf tr (t.iterNext it m).2.2.2 = otherOf tr m := by
  constructor
  · unfold iterInit; simp only; split <;> simp
  · unfold iterNext
    split
    · rfl
    · split
      · simp
      · split
        · rfl
        · simp only; split <;> simp

theorem iterRemove_other (c : HCfg) (t : HashTable) (it : HIter) (m : Mem) :
    otherOf t.triple (t.iterRemove c it m).2.2.2.2 = otherOf t.triple m := by
  unfold iterRemove; split
  · rfl
  · exact remove_other c t _ m

/-! ### refusals -/

theorem resize_nrefused (c : HCfg) (t : HashTable) (n : Nat) (m : Mem) :
    ((t.resize c n m).1 = .errAlloc ∧ (t.resize c n m).2.2.nrefused = m.nrefused + 1) ∨
    ((t.resize c n m).1 ≠ .errAlloc ∧ (t.resize c n m).2.2.nrefused = m.nrefused) := by
  unfold resize
  split
  · right; simp
  · simp only
    cases ha : (m.allocT t.triple).1 with
    | false => left; simp [allocT_nrefused, ha]
    | true => right; simp [allocT_nrefused, ha]

theorem growLoop_nrefused (c : HCfg) (fuel : Nat) (t : HashTable) (m : Mem) :
    ((growLoop c fuel t m).1 = .errAlloc ∧ (growLoop c fuel t m).2.2.nrefused = m.nrefused + 1) ∨
    ((growLoop c fuel t m).1 ≠ .errAlloc ∧ (growLoop c fuel t m).2.2.nrefused = m.nrefused) := by
  induction fuel generalizing t m with
  | zero => right; simp [growLoop]
  | succ fuel ih =>
    unfold growLoop
    split
    · simp only
      rcases resize_nrefused c t (t.capacity <<< 1) m with ⟨a, b⟩ | ⟨a, b⟩
      · left; simp [a, b]
      · split
        · right; exact ⟨a, b⟩
        · rcases ih (t.resize c (t.capacity <<< 1) m).2.1 (t.resize c (t.capacity <<< 1) m).2.2 with ⟨x, y⟩ | ⟨x, y⟩
          · left; exact ⟨x, by rw [y, b]⟩
          · right; exact ⟨x, by rw [y, b]⟩
    · right; simp

theorem add_nrefused (c : HCfg) (t : HashTable) (k : Key) (v : Nat) (m : Mem) :
    ((t.add c k v m).1 = .errAlloc ∧ (t.add c k v m).2.2.nrefused = m.nrefused + 1) ∨
    ((t.add c k v m).1 ≠ .errAlloc ∧ (t.add c k v m).2.2.nrefused = m.nrefused) := by
  unfold add; simp only
  rcases growLoop_nrefused c 64 t m with ⟨a, b⟩ | ⟨a, b⟩
  · left; simp [a, b]
  · split
    · right; exact ⟨a, b⟩
    · split
      · right; simp [b]
      · rename_i hr
        generalize hm1 : ((growLoop c 64 t m).2.2.check (decide ((growLoop c 64 t m).2.1.index (keyHash c k) < (growLoop c 64 t m).2.1.buckets.length))) = m1
        have hm1r : m1.nrefused = m.nrefused := by rw [← hm1]; simp [b]
        cases ha : (m1.allocT (growLoop c 64 t m).2.1.triple).1 with
        | false => left; simp [allocT_nrefused, ha, hm1r]
        | true => right; simp [allocT_nrefused, ha, hm1r]

theorem step_nrefused (c : HCfg) (t : HashTable) (op : Op) (m : Mem) :
    ((t.step c op m).1.st = some .errAlloc ∧ (t.step c op m).2.2.nrefused = m.nrefused + 1) ∨
    ((t.step c op m).1.st ≠ some .errAlloc ∧ (t.step c op m).2.2.nrefused = m.nrefused) := by
  cases op with
  | add k v =>
    rcases add_nrefused c t k v m with ⟨a, b⟩ | ⟨a, b⟩
    · left; exact ⟨by simp [step, a], b⟩
    · right; exact ⟨by simp [step, a], b⟩
  | get k => right; simp only [step, get]; split <;> simp
  | containsKey k => right; simp only [step, containsKey, get]; split <;> simp
  | remove k => right; simp only [step, remove]; split <;> simp
  | removeAll => right; simp only [step]; rw [removeAll_mem]; simp

/-- a table on the C library allocator is never refused anything -/
theorem libc_never_refused (c : HCfg) (t : HashTable) (op : Op) (m : Mem) (ht : t.triple = .libc) :
    (t.step c op m).1.st ≠ some .errAlloc := by
  have ho := step_other c t op m
  rw [ht] at ho
  have := (otherOf_libc ho).2.2.2.1
  rcases step_nrefused c t op m with ⟨_, b⟩ | ⟨a, _⟩
  · omega
  · exact a

/-! ### allocator independence: results depend on the ledger only through the schedule -/

theorem resize_congr (c : HCfg) (t : HashTable) (n : Nat) (m m' : Mem) (h : m.sched = m'.sched) :
    (t.resize c n m).1 = (t.resize c n m').1 ∧ (t.resize c n m).2.1 = (t.resize c n m').2.1 ∧
    (t.resize c n m).2.2.sched = (t.resize c n m').2.2.sched := by
  obtain ⟨a1, a2⟩ := allocT_congr m m' t.triple h
  unfold resize
  split
  · exact ⟨rfl, rfl, h⟩
  · simp only; rw [a1]
    split
    · exact ⟨rfl, rfl, a2⟩
    · exact ⟨rfl, rfl, by simp [a2]⟩

theorem growLoop_congr (c : HCfg) (fuel : Nat) (t : HashTable) (m m' : Mem) (h : m.sched = m'.sched) :
    (growLoop c fuel t m).1 = (growLoop c fuel t m').1 ∧ (growLoop c fuel t m).2.1 = (growLoop c fuel t m').2.1 ∧
    (growLoop c fuel t m).2.2.sched = (growLoop c fuel t m').2.2.sched := by
  induction fuel generalizing t m m' with
  | zero => exact ⟨rfl, rfl, by simp [growLoop, h]⟩
  | succ fuel ih =>
    obtain ⟨r1, r2, r3⟩ := resize_congr c t (t.capacity <<< 1) m m' h
    unfold growLoop
    split
    · simp only; rw [r1]
      split
      · exact ⟨r1, r2, r3⟩
      · rw [r2]; exact ih _ _ _ r3
    · exact ⟨rfl, rfl, h⟩

theorem add_congr (c : HCfg) (t : HashTable) (k : Key) (v : Nat) (m m' : Mem) (h : m.sched = m'.sched) :
    (t.add c k v m).1 = (t.add c k v m').1 ∧ (t.add c k v m).2.1 = (t.add c k v m').2.1 ∧
    (t.add c k v m).2.2.sched = (t.add c k v m').2.2.sched := by
  obtain ⟨g1, g2, g3⟩ := growLoop_congr c 64 t m m' h
  unfold add; simp only
  rw [g1, g2]
  split
  · exact ⟨g1, g2, g3⟩
  · split
    · exact ⟨rfl, rfl, by simp [g3]⟩
    · obtain ⟨a1, a2⟩ := allocT_congr
        ((growLoop c 64 t m).2.2.check (decide ((growLoop c 64 t m').2.1.index (keyHash c k) < (growLoop c 64 t m').2.1.buckets.length)))
        ((growLoop c 64 t m').2.2.check (decide ((growLoop c 64 t m').2.1.index (keyHash c k) < (growLoop c 64 t m').2.1.buckets.length)))
        (growLoop c 64 t m').2.1.triple (by simp [g3])
      rw [a1]
      split
      · exact ⟨rfl, rfl, a2⟩
      · exact ⟨rfl, rfl, a2⟩

theorem new_congr (c : HCfg) (cap : Nat) (tr : Triple) (m m' : Mem) (h : m.sched = m'.sched) :
    (HashTable.new c cap tr m).1 = (HashTable.new c cap tr m').1 ∧ (HashTable.new c cap tr m).2.1 = (HashTable.new c cap tr m').2.1 ∧
    (HashTable.new c cap tr m).2.2.sched = (HashTable.new c cap tr m').2.2.sched := by
  obtain ⟨a1, a2⟩ := allocT_congr m m' tr h
  obtain ⟨b1, b2⟩ := allocT_congr (m.allocT tr).2 (m'.allocT tr).2 tr a2
  unfold HashTable.new; simp only
  rw [a1]
  split
  · exact ⟨rfl, rfl, a2⟩
  · rw [b1]
    split
    · exact ⟨rfl, rfl, by simp [b2]⟩
    · exact ⟨rfl, rfl, b2⟩

theorem get_congr (c : HCfg) (t : HashTable) (k : Key) (m m' : Mem) (h : m.sched = m'.sched) :
    (t.get c k m).1 = (t.get c k m').1 ∧ (t.get c k m).2.1 = (t.get c k m').2.1 ∧
    (t.get c k m).2.2.sched = (t.get c k m').2.2.sched := by
  simp only [get]; cases chainFind (t.bucket (t.index (keyHash c k))) k <;> simp [h]

theorem step_congr (c : HCfg) (t : HashTable) (op : Op) (m m' : Mem) (h : m.sched = m'.sched) :
    (t.step c op m).1 = (t.step c op m').1 ∧ (t.step c op m).2.1 = (t.step c op m').2.1 ∧
    (t.step c op m).2.2.sched = (t.step c op m').2.2.sched := by
  cases op with
  | add k v =>
    obtain ⟨a1, a2, a3⟩ := add_congr c t k v m m' h
    simp only [step]; rw [a1, a2]; exact ⟨rfl, rfl, a3⟩
  | get k => simp only [step, get]; cases chainFind (t.bucket (t.index (keyHash c k))) k <;> simp [h]
  | containsKey k =>
    obtain ⟨g1, g2, g3⟩ := get_congr c t k m m' h
    simp only [step, containsKey, g1]; exact ⟨rfl, trivial, g3⟩
  | remove k => simp only [step, remove]; cases chainRemove (t.bucket (t.index (keyHash c k))) k <;> simp [h]
  | removeAll =>
    simp only [step]
    refine ⟨trivial, ?_, by rw [removeAll_mem, removeAll_mem]; simp [h]⟩
    cases hr : (t.removeAll m).1 with | mk a b c' d e =>
    cases hr' : (t.removeAll m').1 with | mk a' b' c'' d' e' =>
    have e0 := removeAll_triple t m; have e0' := removeAll_triple t m'
    have e1 := removeAll_capacity t m; have e1' := removeAll_capacity t m'
    have e2 := removeAll_threshold t m; have e2' := removeAll_threshold t m'
    have e3 := removeAll_buckets t m; have e3' := removeAll_buckets t m'
    have e4 := removeAll_size t m; have e4' := removeAll_size t m'
    rw [hr] at e0 e1 e2 e3 e4; rw [hr'] at e0' e1' e2' e3' e4'
    simp only at e0 e1 e2 e3 e4 e0' e1' e2' e3' e4'
    rw [e0, e1, e2, e3, e4, e0', e1', e2', e3', e4']

theorem run_congr (c : HCfg) (ops : List Op) (t : HashTable) (m m' : Mem) (h : m.sched = m'.sched) :
    (t.run c ops m).1 = (t.run c ops m').1 ∧ (t.run c ops m).2.1 = (t.run c ops m').2.1 ∧
    (t.run c ops m).2.2.1 = (t.run c ops m').2.2.1 := by
  induction ops generalizing t m m' with
  | nil => exact ⟨rfl, rfl, rfl⟩
  | cons op ops ih =>
    obtain ⟨s1, s2, s3⟩ := step_congr c t op m m' h
    simp only [run]
    rw [s1, s2]
    obtain ⟨i1, i2, i3⟩ := ih (t.step c op m').2.1 (t.step c op m).2.2 (t.step c op m').2.2 s3
    rw [i1, i2, i3]; exact ⟨rfl, rfl, rfl⟩

end CC.HashTable
