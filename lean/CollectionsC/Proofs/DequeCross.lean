import CollectionsC.Proofs.DequeIter
/-! Helper lemmas for the cross-cutting property files of the deque and the queue (C06, C08, C14, C16):
exact allocator-ledger equations of the builders, memory safety of `iter_add`/`zip_iter_add` for every
cursor position (finding D3's range included), "an error leaves everything unchanged" for every
function that can report one. -/
namespace CC.Deque
open CC CC.Spec

/-- `rfl`, or `trivial` when `simp only` already reduced the conjunct to `True` -/
local macro "tr" : term => `(by first | rfl | trivial)

/-! ## which allocator calls a successful constructor / builder made -/

theorem new_alloc_ok (confCap : Nat) (t : Triple) (m : Mem) (h : (Deque.new confCap t m).1 = .ok) :
    (Deque.new confCap t m).2.2 = ((m.allocT t).2.allocT t).2 ∧ (m.allocT t).1 = true ∧
    ((m.allocT t).2.allocT t).1 = true := by
  rcases new_spec confCap t m with ⟨_, _, _, _, _, _, _, _, n8, n9⟩ | ⟨n1, _⟩
  · exact ⟨by simp [Deque.new, n8, n9], n8, n9⟩
  · rw [n1] at h; exact absurd h (by decide)

theorem copy_alloc_ok (d : Deque) (cp : Option (Nat → Nat)) (m : Mem) (h : (d.copy cp m).1 = .ok) :
    (m.allocT d.triple).1 = true ∧ ((m.allocT d.triple).2.allocT d.triple).1 = true := by
  cases h1 : (m.allocT d.triple).1
  · have : d.copy cp m = (.errAlloc, none, (m.allocT d.triple).2) := by simp [copy, h1]
    rw [this] at h; simp at h
  · cases h2 : ((m.allocT d.triple).2.allocT d.triple).1
    · have : (d.copy cp m).1 = .errAlloc := by simp [copy, h1, h2]
      rw [this] at h; simp at h
    · exact ⟨rfl, rfl⟩

theorem filter_alloc_ok (d : Deque) (pred : Nat → Bool) (m : Mem) (hi : d.Inv) (h : (d.filter pred m).1 = .ok) :
    (m.allocT d.triple).1 = true ∧ ((m.allocT d.triple).2.allocT d.triple).1 = true := by
  rcases filter_spec d pred m hi with ⟨_, e, _⟩ | ⟨_, _, _, _, _, _, _, _, _, _, _⟩ | ⟨_, e, _, _, _⟩
  · rw [e] at h; simp at h
  · cases h1 : (m.allocT d.triple).1
    · exfalso
      have : (Deque.new d.cap d.triple m).2.1 = none := by simp [Deque.new, h1]
      have h0 : d.size ≠ 0 := by assumption
      have : (d.filter pred m).1 = .errAlloc := by
        unfold filter; rw [if_neg h0]; dsimp only; rw [this]; simp [Deque.new, h1]
      rw [this] at h; exact absurd h (by decide)
    · cases h2 : ((m.allocT d.triple).2.allocT d.triple).1
      · exfalso
        have hn : (Deque.new d.cap d.triple m).2.1 = none := by simp [Deque.new, h1, h2]
        have h0 : d.size ≠ 0 := by assumption
        have : (d.filter pred m).1 = .errAlloc := by
          unfold filter; rw [if_neg h0]; dsimp only; rw [hn]; simp [Deque.new, h1, h2]
        rw [this] at h; exact absurd h (by decide)
      · exact ⟨rfl, rfl⟩
  · rw [e] at h; exact absurd h (by decide)

theorem free_sched (m : Mem) : m.free.sched = m.sched := by unfold Mem.free; split <;> rfl
theorem freeT_sched (t : Triple) (m : Mem) : (m.freeT t).sched = m.sched := by
  cases t
  · exact free_sched m
  · simp only [Mem.freeT]; split <;> rfl

/-! ## `iter_add` / `zip_iter_add` for every cursor position (finding D3's range included) -/

/-- `cc_deque_iter_add` never breaks the invariant, never faults, keeps the ledger balanced; on any
error the deque and the cursor are unchanged -/
theorem iterAdd_safe (it : Iter) (d : Deque) (x : Nat) (m : Mem) (hi : d.Inv) :
    (iterAdd it d x m).2.2.1.Inv ∧ memSame d.triple (iterAdd it d x m).2.2.2 m ∧
    ((iterAdd it d x m).1 ≠ .ok → (iterAdd it d x m).2.2.1 = d ∧ (iterAdd it d x m).2.1 = it) ∧
    ((iterAdd it d x m).1 = .ok → (iterAdd it d x m).2.2.1.size = d.size + 1) := by
  unfold iterAdd
  by_cases hend : it.index = d.size
  · simp only [hend, if_true]
    rcases addLast_spec d x m hi with ⟨a1, a2, a3, a4, _⟩ | ⟨a1, a2, a3, _⟩
    · simp only [a1, if_true]
      refine ⟨a2, a4, fun h => absurd rfl h, fun _ => ?_⟩
      have := congrArg List.length a3; simpa using this
    · have hne : ¬ (d.addLast x m).1 = Stat.ok := by rw [a1]; decide
      simp only [hne, if_false]
      refine ⟨by rw [a2]; exact hi, a3, fun _ => ⟨a2, ?_⟩, fun h => by first | exact h.elim | exact absurd h (by rw [a1]; decide)⟩
      cases it; simp_all
  · simp only [hend, if_false]
    obtain ⟨a1, a2, a3, a4⟩ := addAt_inv d x it.index m hi
    by_cases hok : (d.addAt x it.index m).1 = .ok
    · simp only [hok, if_true]
      exact ⟨a1, a2, fun h => absurd rfl h, fun _ => (a3 hok).1⟩
    · simp only [hok, if_false]
      exact ⟨a1, a2, fun _ => ⟨(a4 hok).1, tr⟩, fun h => by first | exact h.elim | exact absurd h hok⟩

/-- `cc_deque_zip_iter_add` likewise; on any error both contents and the cursor are unchanged -/
theorem zipAdd_safe (it : Iter) (d1 d2 : Deque) (x y : Nat) (m : Mem) (h1 : d1.Inv) (h2 : d2.Inv) :
    (zipAdd it d1 d2 x y m).2.2.1.Inv ∧ (zipAdd it d1 d2 x y m).2.2.2.1.Inv ∧
    memSame2 d1.triple d2.triple (zipAdd it d1 d2 x y m).2.2.2.2 m ∧
    ((zipAdd it d1 d2 x y m).1 ≠ .ok → (zipAdd it d1 d2 x y m).2.2.1.abs = d1.abs ∧
      (zipAdd it d1 d2 x y m).2.2.2.1.abs = d2.abs ∧ (zipAdd it d1 d2 x y m).2.1 = it) ∧
    ((zipAdd it d1 d2 x y m).1 = .errOutOfRange → (zipAdd it d1 d2 x y m).2.2.1 = d1 ∧
      (zipAdd it d1 d2 x y m).2.2.2.1 = d2) := by
  unfold zipAdd
  by_cases hr : it.index ≥ d1.size ∨ it.index ≥ d2.size
  · rw [if_pos hr]
    exact ⟨h1, h2, memSame2_refl _ _ m, fun _ => ⟨rfl, rfl, rfl⟩, fun _ => ⟨rfl, rfl⟩⟩
  rw [if_neg hr]
  dsimp only
  have fold1 : (if d1.cap = d1.size then d1.expandCapacity m else (Stat.ok, d1, m)) = growIfFull d1 m := rfl
  rw [fold1]
  have fold2 : ∀ m', (if d2.cap = d2.size then d2.expandCapacity m' else (Stat.ok, d2, m')) = growIfFull d2 m' :=
    fun _ => rfl
  simp only [fold2]
  rcases growIfFull_spec d1 m h1 with ⟨a1, a2, a3, a4, a5, a6⟩ | ⟨a1, a2, a3, a4⟩
  · have hne1 : ((growIfFull d1 m).1 != Stat.ok) = false := by simp [a1]
    simp only [hne1, Bool.false_eq_true, if_false]
    rcases growIfFull_spec d2 (growIfFull d1 m).2.2 h2 with ⟨b1, b2, b3, b4, b5, b6⟩ | ⟨b1, b2, b3, b4⟩
    · have hne2 : ((growIfFull d2 (growIfFull d1 m).2.2).1 != Stat.ok) = false := by simp [b1]
      simp only [hne2, Bool.false_eq_true, if_false]
      have hok1 := addAt_ok_of_room (growIfFull d1 m).2.1 x it.index (growIfFull d2 (growIfFull d1 m).2.2).2.2 a2
        (by rw [a4]; omega) a5
      have hok2 := addAt_ok_of_room (growIfFull d2 (growIfFull d1 m).2.2).2.1 y it.index
        ((growIfFull d1 m).2.1.addAt x it.index (growIfFull d2 (growIfFull d1 m).2.2).2.2).2.2 b2
        (by rw [b4]; omega) b5
      have hb1 : (((growIfFull d1 m).2.1.addAt x it.index (growIfFull d2 (growIfFull d1 m).2.2).2.2).1 != Stat.ok) = false := by
        simp [hok1]
      have hb2 : (((growIfFull d2 (growIfFull d1 m).2.2).2.1.addAt y it.index
        ((growIfFull d1 m).2.1.addAt x it.index (growIfFull d2 (growIfFull d1 m).2.2).2.2).2.2).1 != Stat.ok) = false := by
        simp [hok2]
      simp only [hb1, hb2, Bool.false_eq_true, if_false]
      obtain ⟨p1, p2, _, _⟩ := addAt_inv (growIfFull d1 m).2.1 x it.index (growIfFull d2 (growIfFull d1 m).2.2).2.2 a2
      obtain ⟨q1, q2, _, _⟩ := addAt_inv (growIfFull d2 (growIfFull d1 m).2.2).2.1 y it.index
        ((growIfFull d1 m).2.1.addAt x it.index (growIfFull d2 (growIfFull d1 m).2.2).2.2).2.2 b2
      rw [growIfFull_triple] at p2 q2
      exact ⟨p1, q1, memSame2_trans (memSame2_right _ q2) (memSame2_trans (memSame2_left _ p2)
          (memSame2_trans (memSame2_right _ b6) (memSame2_left _ a6))),
        fun h => absurd rfl h, fun h => by simp at h⟩
    · have hne2 : ((growIfFull d2 (growIfFull d1 m).2.2).1 != Stat.ok) = true := by simp [b1]
      simp only [hne2, if_true]
      exact ⟨a2, by rw [b2]; exact h2, memSame2_trans (memSame2_right _ b3) (memSame2_left _ a6),
        fun _ => ⟨a3, by rw [b2], tr⟩, fun h => by simp at h⟩
  · have hne1 : ((growIfFull d1 m).1 != Stat.ok) = true := by simp [a1]
    simp only [hne1, if_true]
    exact ⟨by rw [a2]; exact h1, h2, memSame2_left _ a3, fun _ => ⟨by rw [a2], tr, tr⟩, fun h => by simp at h⟩

/-! ## an error status leaves the whole physical state unchanged -/

theorem replaceAt_error_inert (d : Deque) (x i : Nat) (m : Mem) (h : (d.replaceAt x i m).1 ≠ .ok) :
    d.replaceAt x i m = (.errOutOfRange, none, d, m) := by
  unfold replaceAt at h ⊢
  split
  · rfl
  · rename_i h0; rw [if_neg h0] at h; exact absurd rfl h

theorem removeFirst_error_inert (d : Deque) (m : Mem) (h : (d.removeFirst m).1 ≠ .ok) :
    d.removeFirst m = (.errOutOfRange, none, d, m) := by
  unfold removeFirst at h ⊢
  split
  · rfl
  · rename_i h0; rw [if_neg h0] at h; exact absurd rfl h

theorem removeLast_error_inert (d : Deque) (m : Mem) (h : (d.removeLast m).1 ≠ .ok) :
    d.removeLast m = (.errOutOfRange, none, d, m) := by
  unfold removeLast at h ⊢
  split
  · rfl
  · rename_i h0; rw [if_neg h0] at h; exact absurd rfl h

theorem removeAt_error_inert (d : Deque) (i : Nat) (m : Mem) (hi : d.Inv) (h : (d.removeAt i m).1 ≠ .ok) :
    d.removeAt i m = (.errOutOfRange, none, d, m) := by
  by_cases h0 : i ≥ d.size
  · unfold removeAt; rw [if_pos h0]
  · exfalso
    obtain ⟨r1, _⟩ := removeAt_spec d i m hi
    unfold DequeSpec.removeAt at r1
    rw [dif_pos (by simp; omega)] at r1
    exact h r1

theorem getters_error_inert (d : Deque) (i : Nat) (m : Mem) :
    ((d.getAt i m).1 ≠ .ok → d.getAt i m = (.errOutOfRange, none, m)) ∧
    ((d.getFirst m).1 ≠ .ok → d.getFirst m = (.errOutOfRange, none, m)) ∧
    ((d.getLast m).1 ≠ .ok → d.getLast m = (.errOutOfRange, none, m)) := by
  refine ⟨fun h => ?_, fun h => ?_, fun h => ?_⟩
  · unfold getAt at h ⊢; split
    · rfl
    · rename_i h0; rw [if_neg h0] at h; exact absurd rfl h
  · unfold getFirst at h ⊢; split
    · rfl
    · rename_i h0; rw [if_neg h0] at h; exact absurd rfl h
  · unfold getLast at h ⊢; split
    · rfl
    · rename_i h0; rw [if_neg h0] at h; exact absurd rfl h

/-- zip mutators: any error returns both deques, the cursor and the ledger as they were -/
theorem zipRemove_error_inert (it : Iter) (d1 d2 : Deque) (m : Mem) (h : (zipRemove it d1 d2 m).1 ≠ .ok) :
    (zipRemove it d1 d2 m).2.2.1 = it ∧ (zipRemove it d1 d2 m).2.2.2.1 = d1 ∧
    (zipRemove it d1 d2 m).2.2.2.2.1 = d2 ∧ (zipRemove it d1 d2 m).2.2.2.2.2 = m := by
  unfold zipRemove at h ⊢
  split
  · exact ⟨rfl, rfl, rfl, rfl⟩
  · split
    · exact ⟨rfl, rfl, rfl, rfl⟩
    · rename_i h1 h2; rw [if_neg h1, if_neg h2] at h; exact absurd rfl h

theorem zipReplace_error_inert (it : Iter) (d1 d2 : Deque) (x y : Nat) (m : Mem)
    (h : (zipReplace it d1 d2 x y m).1 ≠ .ok) :
    (zipReplace it d1 d2 x y m).2.2.1 = d1 ∧ (zipReplace it d1 d2 x y m).2.2.2.1 = d2 ∧
    (zipReplace it d1 d2 x y m).2.2.2.2 = m := by
  unfold zipReplace at h ⊢
  split
  · exact ⟨rfl, rfl, rfl⟩
  · rename_i h1; rw [if_neg h1] at h; exact absurd rfl h

theorem iterReplace_error_inert (it : Iter) (d : Deque) (x : Nat) (m : Mem) (h : (iterReplace it d x m).1 ≠ .ok) :
    iterReplace it d x m = (.errOutOfRange, none, d, m) :=
  replaceAt_error_inert d x (decIdx it.index) m h

/-! ## exactly when does an allocating operation report `CC_ERR_ALLOC` -/

theorem expand_fails_iff (d : Deque) (m : Mem) :
    (d.expandCapacity m).1 ≠ .ok ↔ (d.cap = Gen.MAX_POW_TWO ∨ (m.allocT d.triple).1 = false) := by
  by_cases hc : d.cap = Gen.MAX_POW_TWO
  · rw [expandCapacity_max d m hc]; simp [hc]
  · cases ha : (m.allocT d.triple).1
    · rw [expandCapacity_refused d m hc ha]; simp
    · rw [expandCapacity_grow d m hc ha]; simp [hc]

/-- each allocating operation reports `CC_ERR_ALLOC` exactly when it has to grow (the deque is full;
`trim`: the capacity has to change) and the allocator of the deque's triple refuses — or, for the
insertions, the capacity limit is reached -/
theorem errAlloc_iff (d : Deque) (m : Mem) (x i : Nat) (hi : d.Inv) :
    ((d.addLast x m).1 = .errAlloc ↔ d.size = d.cap ∧ (d.cap = Gen.MAX_POW_TWO ∨ (m.allocT d.triple).1 = false)) ∧
    ((d.addFirst x m).1 = .errAlloc ↔ d.size = d.cap ∧ (d.cap = Gen.MAX_POW_TWO ∨ (m.allocT d.triple).1 = false)) ∧
    ((d.addAt x i m).1 = .errAlloc ↔
      i < d.size ∧ d.size = d.cap ∧ (d.cap = Gen.MAX_POW_TWO ∨ (m.allocT d.triple).1 = false)) ∧
    ((d.trimCapacity m).1 = .errAlloc ↔
      d.cap ≠ d.size ∧ upperPow2 d.size ≠ d.cap ∧ (m.allocT d.triple).1 = false) := by
  refine ⟨?_, ?_, ?_, ?_⟩
  · constructor
    · intro h
      rcases addLast_spec d x m hi with ⟨a1, _⟩ | ⟨_, _, _, a4, a5⟩
      · rw [a1] at h; exact absurd h (by decide)
      · exact ⟨a4, a5.symm⟩
    · rintro ⟨h1, h2⟩
      rcases addLast_spec d x m hi with ⟨_, _, _, _, _, a6⟩ | ⟨a1, _⟩
      · obtain ⟨b1, b2⟩ := a6 h1
        rcases h2 with h2 | h2
        · exact absurd h2 b2
        · rw [h2] at b1; exact absurd b1 (by decide)
      · exact a1
  · constructor
    · intro h
      rcases addFirst_spec d x m hi with ⟨a1, _⟩ | ⟨_, _, _, a4, a5⟩
      · rw [a1] at h; exact absurd h (by decide)
      · exact ⟨a4, a5.symm⟩
    · rintro ⟨h1, h2⟩
      rcases addFirst_spec d x m hi with ⟨_, _, _, _, _, a6⟩ | ⟨a1, _⟩
      · obtain ⟨b1, b2⟩ := a6 h1
        rcases h2 with h2 | h2
        · exact absurd h2 b2
        · rw [h2] at b1; exact absurd b1 (by decide)
      · exact a1
  · obtain ⟨_, _, a3, a4⟩ := addAt_inv d x i m hi
    constructor
    · intro h
      have hne : (d.addAt x i m).1 ≠ .ok := by rw [h]; decide
      rcases (a4 hne).2 with ⟨e, _⟩ | ⟨_, h1, h2⟩
      · rw [e] at h; exact absurd h (by decide)
      · refine ⟨h1, h2, ?_⟩
        have hexp : (d.expandCapacity m).1 ≠ .ok := by
          intro hok
          obtain ⟨e1, _, e3, e4, _⟩ := expandCapacity_ok d m hi hok
          have hcore := (addAtCore_inv (d.expandCapacity m).2.1 x i (d.expandCapacity m).2.2 e1
            (by rw [e3]; exact h1) (by rw [e3, e4]; have := Inv.cap_pos hi; omega)).1
          have : (d.addAt x i m).1 = .ok := by
            unfold addAt
            rw [if_neg (by omega), if_pos h2.symm]
            have hb : ((d.expandCapacity m).1 != Stat.ok) = false := by simp [hok]
            simp only [hb, Bool.false_eq_true, if_false]
            exact hcore
          exact hne this
        exact (expand_fails_iff d m).mp hexp
    · rintro ⟨h1, h2, h3⟩
      have hexp := (expand_fails_iff d m).mpr h3
      unfold addAt
      rw [if_neg (by omega), if_pos h2.symm]
      have hb : ((d.expandCapacity m).1 != Stat.ok) = true := by simp [hexp]
      simp only [hb, if_true]
  · constructor
    · intro h
      rcases trimCapacity_spec d m hi with ⟨a1, _⟩ | ⟨_, _, _, a4, a5⟩
      · rw [a1] at h; exact absurd h (by decide)
      · exact ⟨fun hf => a5 (upperPow2_of_full d hi hf), a5, a4⟩
    · rintro ⟨h1, h2, h3⟩
      simp [trimCapacity, h1, h2, h3]

end CC.Deque
