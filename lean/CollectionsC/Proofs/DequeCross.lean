import CollectionsC.Proofs.DequeIter
/-! Helper lemmas for the cross-cutting property files of the deque and the queue (C06, C08, C14, C16):
exact allocator-ledger equations of the builders, memory safety of `iter_add`/`zip_iter_add` for every
cursor position (finding D3's range included), "an error leaves everything unchanged" for every
function that can report one. -/
namespace CC.Deque
open CC CC.Spec

/-- `rfl`, or `trivial` when `simp only` already reduced the conjunct to `True` -/
local macro "tr" : term => `(by first | rfl | trivial)

/-! ## ledger primitives -/
theorem alloc_libc (m : Mem) : m.alloc.2.libc = m.libc := by unfold Mem.alloc; split <;> rfl
theorem free_libc (m : Mem) : m.free.libc = m.libc := by unfold Mem.free; split <;> rfl
theorem free_sched (m : Mem) : m.free.sched = m.sched := by unfold Mem.free; split <;> rfl

/-! ## exact ledger of the constructor and the builders -/

/-- a successful constructor performed exactly two successful allocator calls -/
theorem new_mem_ok (confCap : Nat) (m : Mem) (h : (Deque.new confCap m).1 = .ok) :
    (Deque.new confCap m).2.2 = m.alloc.2.alloc.2 ∧ m.alloc.1 = true ∧ m.alloc.2.alloc.1 = true := by
  cases h1 : m.alloc.1
  · have : Deque.new confCap m = (.errAlloc, none, m.alloc.2) := by simp [Deque.new, h1]
    rw [this] at h; simp at h
  · cases h2 : m.alloc.2.alloc.1
    · have : Deque.new confCap m = (.errAlloc, none, m.alloc.2.alloc.2.free) := by simp [Deque.new, h1, h2]
      rw [this] at h; simp at h
    · refine ⟨?_, rfl, rfl⟩
      simp [Deque.new, h1, h2]

theorem new_libc (confCap : Nat) (m : Mem) : (Deque.new confCap m).2.2.libc = m.libc := by
  rcases new_spec confCap m with ⟨n1, _⟩ | ⟨_, _, n3, _⟩
  · rw [(new_mem_ok confCap m n1).1, alloc_libc, alloc_libc]
  · exact n3.2.2.1

theorem destroy_libc (d : Deque) (m : Mem) : (d.destroy m).libc = m.libc := by
  unfold destroy; rw [free_libc, free_libc]

/-- a successful copy performed exactly two successful allocator calls and nothing else -/
theorem copy_mem_ok (d : Deque) (cp : Option (Nat → Nat)) (m : Mem) (hi : d.Inv) (h : (d.copy cp m).1 = .ok) :
    (d.copy cp m).2.2 = m.alloc.2.alloc.2 ∧ m.alloc.1 = true ∧ m.alloc.2.alloc.1 = true := by
  have hsz := hi.2.2.2.2.2
  cases h1 : m.alloc.1
  · have : d.copy cp m = (.errAlloc, none, m.alloc.2) := by simp [copy, h1]
    rw [this] at h; simp at h
  · cases h2 : m.alloc.2.alloc.1
    · have : d.copy cp m = (.errAlloc, none, m.alloc.2.alloc.2.free) := by simp [copy, h1, h2]
      rw [this] at h; simp at h
    · refine ⟨?_, rfl, rfl⟩
      have : (d.copy cp m).2.2 = (d.copyBuffer (Buf.mk d.cap) cp m.alloc.2.alloc.2).2 := by simp [copy, h1, h2]
      rw [this]
      cases cp with
      | none => exact (copyBuffer_none d _ _ hi (by simpa using hsz)).2.1
      | some f => exact (copyBuffer_some d f _ _ hi (by simpa using hsz)).2.1

theorem copy_libc (d : Deque) (cp : Option (Nat → Nat)) (m : Mem) (hi : d.Inv) :
    (d.copy cp m).2.2.libc = m.libc := by
  rcases copy_spec d cp m hi with ⟨n1, _⟩ | ⟨_, _, n3, _⟩
  · rw [(copy_mem_ok d cp m hi n1).1, alloc_libc, alloc_libc]
  · exact n3.2.2.1

/-- `cc_deque_filter`: the ledger is the constructor's ledger (the result never grows while it is
filled, because it has the source's capacity) -/
theorem filter_mem_ok (d : Deque) (pred : Nat → Bool) (m : Mem) (hi : d.Inv) (h : (d.filter pred m).1 = .ok) :
    (d.filter pred m).2.2 = m.alloc.2.alloc.2 ∧ m.alloc.1 = true ∧ m.alloc.2.alloc.1 = true := by
  have h0 : d.size ≠ 0 := by
    intro h0
    have : d.filter pred m = (.errOutOfRange, none, m) := by unfold filter; rw [if_pos h0]
    rw [this] at h; simp at h
  rcases new_spec d.cap m with ⟨n1, c0, n2, n3, n4, n5, _⟩ | ⟨n1, n2, _⟩
  · obtain ⟨k1, k2, k3⟩ := new_mem_ok d.cap m n1
    refine ⟨?_, k2, k3⟩
    have hsz0 : c0.size = 0 := by have := congrArg List.length n4; simpa using this
    have hcap : c0.cap = d.cap := by rw [n5, upperPow2_of_cap d hi]
    obtain ⟨q1, _, _, q4, _⟩ := filterLoop_spec d pred (List.range d.size) c0 (Deque.new d.cap m).2.2 hi n3
      (by rw [hsz0, hcap]; simp; exact hi.2.2.2.2.2)
    unfold filter
    rw [if_neg h0]
    dsimp only
    rw [n2]
    dsimp only
    have hne : ((filterLoop d pred (List.range d.size) c0 (Deque.new d.cap m).2.2).1 != Stat.ok) = false := by
      simp [q1]
    simp only [hne, Bool.false_eq_true, if_false]
    rw [q4, k1]
  · exfalso
    have : (d.filter pred m).1 = .errAlloc := by
      unfold filter; rw [if_neg h0]; dsimp only; rw [n2]; exact n1
    rw [this] at h; exact absurd h (by decide)

theorem filter_libc (d : Deque) (pred : Nat → Bool) (m : Mem) (hi : d.Inv) :
    (d.filter pred m).2.2.libc = m.libc := by
  rcases filter_spec d pred m hi with ⟨_, h2, _⟩ | ⟨_, h2, _⟩ | ⟨_, _, _, h4, _⟩
  · rw [h2]
  · rw [(filter_mem_ok d pred m hi h2).1, alloc_libc, alloc_libc]
  · exact h4.2.2.1

/-! ## `iter_add` / `zip_iter_add` for every cursor position (finding D3's range included) -/

/-- `cc_deque_iter_add` never breaks the invariant, never faults, keeps the ledger balanced; on any
error the deque and the cursor are unchanged -/
theorem iterAdd_safe (it : Iter) (d : Deque) (x : Nat) (m : Mem) (hi : d.Inv) :
    (iterAdd it d x m).2.2.1.Inv ∧ memSame (iterAdd it d x m).2.2.2 m ∧
    ((iterAdd it d x m).1 ≠ .ok → (iterAdd it d x m).2.2.1 = d ∧ (iterAdd it d x m).2.1 = it) ∧
    ((iterAdd it d x m).1 = .ok → (iterAdd it d x m).2.2.1.size = d.size + 1) := by
  unfold iterAdd
  by_cases hend : it.index = d.size
  · simp only [hend, if_true]
    rcases addLast_spec d x m hi with ⟨a1, a2, a3, a4, _⟩ | ⟨a1, a2, a3, _⟩
    · simp only [a1, if_true]
      refine ⟨a2, a4, fun h => absurd rfl h, fun _ => ?_⟩
      have := congrArg List.length a3; simpa using this
    · have hne : ¬ (d.addLast x m).1 = Stat.ok := by rw [a1]; decide
      simp only [hne, if_false]
      refine ⟨by rw [a2]; exact hi, a3, fun _ => ⟨a2, ?_⟩, fun h => by first | exact h.elim | exact absurd h (by rw [a1]; decide)⟩
      cases it; simp_all
  · simp only [hend, if_false]
    obtain ⟨a1, a2, a3, a4⟩ := addAt_inv d x it.index m hi
    by_cases hok : (d.addAt x it.index m).1 = .ok
    · simp only [hok, if_true]
      exact ⟨a1, a2, fun h => absurd rfl h, fun _ => (a3 hok).1⟩
    · simp only [hok, if_false]
      exact ⟨a1, a2, fun _ => ⟨(a4 hok).1, tr⟩, fun h => by first | exact h.elim | exact absurd h hok⟩

/-- `cc_deque_zip_iter_add` likewise; on any error both contents and the cursor are unchanged -/
theorem zipAdd_safe (it : Iter) (d1 d2 : Deque) (x y : Nat) (m : Mem) (h1 : d1.Inv) (h2 : d2.Inv) :
    (zipAdd it d1 d2 x y m).2.2.1.Inv ∧ (zipAdd it d1 d2 x y m).2.2.2.1.Inv ∧
    memSame (zipAdd it d1 d2 x y m).2.2.2.2 m ∧
    ((zipAdd it d1 d2 x y m).1 ≠ .ok → (zipAdd it d1 d2 x y m).2.2.1.abs = d1.abs ∧
      (zipAdd it d1 d2 x y m).2.2.2.1.abs = d2.abs ∧ (zipAdd it d1 d2 x y m).2.1 = it) ∧
    ((zipAdd it d1 d2 x y m).1 = .errOutOfRange → (zipAdd it d1 d2 x y m).2.2.1 = d1 ∧
      (zipAdd it d1 d2 x y m).2.2.2.1 = d2) := by
  unfold zipAdd
  by_cases hr : it.index ≥ d1.size ∨ it.index ≥ d2.size
  · rw [if_pos hr]
    exact ⟨h1, h2, memSame_refl m, fun _ => ⟨rfl, rfl, rfl⟩, fun _ => ⟨rfl, rfl⟩⟩
  rw [if_neg hr]
  dsimp only
  have fold1 : (if d1.cap = d1.size then d1.expandCapacity m else (Stat.ok, d1, m)) = growIfFull d1 m := rfl
  rw [fold1]
  have fold2 : ∀ m', (if d2.cap = d2.size then d2.expandCapacity m' else (Stat.ok, d2, m')) = growIfFull d2 m' :=
    fun _ => rfl
  simp only [fold2]
  rcases growIfFull_spec d1 m h1 with ⟨a1, a2, a3, a4, a5, a6⟩ | ⟨a1, a2, a3, a4⟩
  · have hne1 : ((growIfFull d1 m).1 != Stat.ok) = false := by simp [a1]
    simp only [hne1, Bool.false_eq_true, if_false]
    rcases growIfFull_spec d2 (growIfFull d1 m).2.2 h2 with ⟨b1, b2, b3, b4, b5, b6⟩ | ⟨b1, b2, b3, b4⟩
    · have hne2 : ((growIfFull d2 (growIfFull d1 m).2.2).1 != Stat.ok) = false := by simp [b1]
      simp only [hne2, Bool.false_eq_true, if_false]
      obtain ⟨p1, p2, _, _⟩ := addAt_inv (growIfFull d1 m).2.1 x it.index (growIfFull d2 (growIfFull d1 m).2.2).2.2 a2
      obtain ⟨q1, q2, _, _⟩ := addAt_inv (growIfFull d2 (growIfFull d1 m).2.2).2.1 y it.index
        ((growIfFull d1 m).2.1.addAt x it.index (growIfFull d2 (growIfFull d1 m).2.2).2.2).2.2 b2
      exact ⟨p1, q1, memSame_trans q2 (memSame_trans p2 (memSame_trans b6 a6)),
        fun h => absurd rfl h, fun h => by simp at h⟩
    · have hne2 : ((growIfFull d2 (growIfFull d1 m).2.2).1 != Stat.ok) = true := by simp [b1]
      simp only [hne2, if_true]
      exact ⟨a2, by rw [b2]; exact h2, memSame_trans b3 a6, fun _ => ⟨a3, by rw [b2], tr⟩, fun h => by simp at h⟩
  · have hne1 : ((growIfFull d1 m).1 != Stat.ok) = true := by simp [a1]
    simp only [hne1, if_true]
    exact ⟨by rw [a2]; exact h1, h2, a3, fun _ => ⟨by rw [a2], tr, tr⟩, fun h => by simp at h⟩

/-! ## an error status leaves the whole physical state unchanged -/

theorem replaceAt_error_inert (d : Deque) (x i : Nat) (m : Mem) (h : (d.replaceAt x i m).1 ≠ .ok) :
    d.replaceAt x i m = (.errOutOfRange, none, d, m) := by
  unfold replaceAt at h ⊢
  split
  · rfl
  · rename_i h0; rw [if_neg h0] at h; exact absurd rfl h

theorem removeFirst_error_inert (d : Deque) (m : Mem) (h : (d.removeFirst m).1 ≠ .ok) :
    d.removeFirst m = (.errOutOfRange, none, d, m) := by
  unfold removeFirst at h ⊢
  split
  · rfl
  · rename_i h0; rw [if_neg h0] at h; exact absurd rfl h

theorem removeLast_error_inert (d : Deque) (m : Mem) (h : (d.removeLast m).1 ≠ .ok) :
    d.removeLast m = (.errOutOfRange, none, d, m) := by
  unfold removeLast at h ⊢
  split
  · rfl
  · rename_i h0; rw [if_neg h0] at h; exact absurd rfl h

theorem removeAt_error_inert (d : Deque) (i : Nat) (m : Mem) (hi : d.Inv) (h : (d.removeAt i m).1 ≠ .ok) :
    d.removeAt i m = (.errOutOfRange, none, d, m) := by
  by_cases h0 : i ≥ d.size
  · unfold removeAt; rw [if_pos h0]
  · exfalso
    obtain ⟨r1, _⟩ := removeAt_spec d i m hi
    unfold DequeSpec.removeAt at r1
    rw [dif_pos (by simp; omega)] at r1
    exact h r1

theorem getters_error_inert (d : Deque) (i : Nat) (m : Mem) :
    ((d.getAt i m).1 ≠ .ok → d.getAt i m = (.errOutOfRange, none, m)) ∧
    ((d.getFirst m).1 ≠ .ok → d.getFirst m = (.errOutOfRange, none, m)) ∧
    ((d.getLast m).1 ≠ .ok → d.getLast m = (.errOutOfRange, none, m)) := by
  refine ⟨fun h => ?_, fun h => ?_, fun h => ?_⟩
  · unfold getAt at h ⊢; split
    · rfl
    · rename_i h0; rw [if_neg h0] at h; exact absurd rfl h
  · unfold getFirst at h ⊢; split
    · rfl
    · rename_i h0; rw [if_neg h0] at h; exact absurd rfl h
  · unfold getLast at h ⊢; split
    · rfl
    · rename_i h0; rw [if_neg h0] at h; exact absurd rfl h

/-- zip mutators: any error returns both deques, the cursor and the ledger as they were -/
theorem zipRemove_error_inert (it : Iter) (d1 d2 : Deque) (m : Mem) (h : (zipRemove it d1 d2 m).1 ≠ .ok) :
    (zipRemove it d1 d2 m).2.2.1 = it ∧ (zipRemove it d1 d2 m).2.2.2.1 = d1 ∧
    (zipRemove it d1 d2 m).2.2.2.2.1 = d2 ∧ (zipRemove it d1 d2 m).2.2.2.2.2 = m := by
  unfold zipRemove at h ⊢
  split
  · exact ⟨rfl, rfl, rfl, rfl⟩
  · split
    · exact ⟨rfl, rfl, rfl, rfl⟩
    · rename_i h1 h2; rw [if_neg h1, if_neg h2] at h; exact absurd rfl h

theorem zipReplace_error_inert (it : Iter) (d1 d2 : Deque) (x y : Nat) (m : Mem)
    (h : (zipReplace it d1 d2 x y m).1 ≠ .ok) :
    (zipReplace it d1 d2 x y m).2.2.1 = d1 ∧ (zipReplace it d1 d2 x y m).2.2.2.1 = d2 ∧
    (zipReplace it d1 d2 x y m).2.2.2.2 = m := by
  unfold zipReplace at h ⊢
  split
  · exact ⟨rfl, rfl, rfl⟩
  · rename_i h1; rw [if_neg h1] at h; exact absurd rfl h

theorem iterReplace_error_inert (it : Iter) (d : Deque) (x : Nat) (m : Mem) (h : (iterReplace it d x m).1 ≠ .ok) :
    iterReplace it d x m = (.errOutOfRange, none, d, m) :=
  replaceAt_error_inert d x (decIdx it.index) m h

end CC.Deque
