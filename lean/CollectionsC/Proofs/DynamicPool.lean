import CollectionsC.Model.DynamicPool
import CollectionsC.Proofs.MemT
/-! Helper lemmas for the dynamic pool: padding arithmetic, page layouts, and the per-operation
invariant / refinement / ledger / atomicity lemmas of the concrete model. -/
namespace CC
open Spec

namespace Spec

/-! ## padding -/
theorem padOf_packed (ab n : Nat) : padOf true ab n = 0 := by simp [padOf]

/-- the reserved span is the request rounded up to the boundary: a multiple of it, and less than one
boundary larger than the request -/
theorem span_aligned (packed : Bool) (ab n : Nat) (hp : packed = false) (hab : 0 < ab) :
    (n + padOf packed ab n) % ab = 0 ∧ padOf packed ab n < ab := by
  subst hp
  unfold padOf
  by_cases h1 : ab > 1
  · simp [h1]
    by_cases h2 : n % ab = 0
    · simp only [h2, if_true]
      exact ⟨by simpa using h2, hab⟩
    · simp only [h2, if_false]
      have hlt := Nat.mod_lt n hab
      have hdm := Nat.div_add_mod n ab
      refine ⟨?_, by omega⟩
      have : n + (ab - n % ab) = ab * (n / ab) + ab := by omega
      rw [this, Nat.add_mod_right, Nat.mul_mod_right]
  · have : ab = 1 := by omega
    subst this
    simp [Nat.mod_one]

/-! ## page layouts -/
theorem playout_bound (bs : List PBlk) (h : DPool.layout bs) :
    ∀ b ∈ bs, b.off + b.span ≤ spanLen bs ∧ b.len ≤ b.span := by
  induction bs with
  | nil => intro b hb; cases hb
  | cons a as ih =>
    intro b hb
    simp only [DPool.layout] at h
    simp only [spanLen]
    cases hb with
    | head => exact ⟨by omega, h.2.1⟩
    | tail _ hb' => have := ih h.2.2 b hb'; exact ⟨by omega, this.2⟩

/-- the reservations of the live blocks of one page are pairwise disjoint -/
theorem playout_pairwise (bs : List PBlk) (h : DPool.layout bs) :
    bs.Pairwise fun a b => disjoint (a.off, a.span) (b.off, b.span) := by
  induction bs with
  | nil => exact List.Pairwise.nil
  | cons a as ih =>
    simp only [DPool.layout] at h
    refine List.Pairwise.cons ?_ (ih h.2.2)
    intro b hb
    have := (playout_bound as h.2.2 b hb).1
    right; simp only; omega

end Spec

namespace DynamicPool

theorem layoutB_iff (bs : List PBlk) : layoutB bs = true ↔ DPool.layout bs := by
  induction bs with
  | nil => simp [layoutB, DPool.layout]
  | cons a as ih => simp [layoutB, DPool.layout, ih, and_assoc]

theorem pageOkB_iff (ab : Nat) (packed : Bool) (p : PPage) :
    pageOkB ab packed p = true ↔ DPool.pageWF ab packed p := by
  unfold pageOkB DPool.pageWF
  simp only [Bool.and_eq_true, Bool.or_eq_true, decide_eq_true_eq, beq_iff_eq, layoutB_iff, List.all_eq_true,
    and_assoc]
  constructor
  · rintro ⟨h1, h2, h3, h4⟩
    refine ⟨h1, h2, h3, ?_⟩
    intro hp hab b hb
    rcases h4 with h4 | h4
    · rcases h4 with h4 | h4
      · rw [hp] at h4; cases h4
      · omega
    · exact h4 b hb
  · rintro ⟨h1, h2, h3, h4⟩
    refine ⟨h1, h2, h3, ?_⟩
    cases hp : packed
    · by_cases hab : ab = 0
      · left; right; exact hab
      · right; exact h4 hp (by omega)
    · left; left; rfl

/-- the invariant of the model implies well-formedness of its abstraction -/
theorem abs_wf (s : DynamicPool) (h : s.Inv) : s.abs.WF := by
  obtain ⟨h1, _, _, h4, h5⟩ := h
  refine ⟨?_, ?_, h5⟩
  · intro hn
    unfold topOk at h1
    simp only [abs] at hn
    rw [hn] at h1; exact h1
  · intro p hp
    rw [List.all_eq_true] at h4
    exact (pageOkB_iff _ _ _).1 (h4 p hp)

/-- under the invariant the pool has a newest page and the C fields describe it -/
theorem inv_top (s : DynamicPool) (h : s.Inv) :
    ∃ p ps, s.pages = p :: ps ∧ s.topPageSize = p.size ∧ s.free = spanLen p.blocks ∧
      DPool.pageWF s.ab s.isPacked p ∧ (s.undo = true → undoOk p.blocks s.high s.free) := by
  obtain ⟨h1, _, _, h4, _⟩ := h
  unfold topOk at h1
  cases hp : s.pages with
  | nil => rw [hp] at h1; exact h1.elim
  | cons p ps =>
    rw [hp] at h1
    rw [List.all_eq_true] at h4
    exact ⟨p, ps, rfl, h1.1, h1.2.1, (pageOkB_iff _ _ _).1 (h4 p (by rw [hp]; exact List.mem_cons_self ..)), h1.2.2⟩

theorem used_abs (s : DynamicPool) (h : s.Inv) : s.usedBytes = s.abs.used := by
  obtain ⟨p, ps, hp, _, hf, _⟩ := inv_top s h
  simp [usedBytes, DPool.used, DPool.topUsed, DPool.top, abs, hp, hf]
theorem free_abs (s : DynamicPool) (h : s.Inv) : s.freeBytes = s.abs.free := by
  obtain ⟨p, ps, hp, ht, hf, _⟩ := inv_top s h
  simp [freeBytes, DPool.free, DPool.topUsed, DPool.top, abs, hp, hf, ht]


/-- the invariant with the page check in `Prop` form -/
theorem inv_iff (s : DynamicPool) :
    s.Inv ↔ s.topOk ∧ s.high ≤ s.free ∧ (s.undo = false → s.free = s.high) ∧
      (∀ p ∈ s.pages, DPool.pageWF s.ab s.isPacked p) ∧ (s.isFixed = true → s.pages.length = 1) := by
  unfold Inv
  rw [List.all_eq_true]
  constructor
  · rintro ⟨a, b, c, d, e⟩; exact ⟨a, b, c, fun p hp => (pageOkB_iff _ _ _).1 (d p hp), e⟩
  · rintro ⟨a, b, c, d, e⟩; exact ⟨a, b, c, fun p hp => (pageOkB_iff _ _ _).2 (d p hp), e⟩

theorem spanLen_mod (ab : Nat) (bs : List PBlk) (h : ∀ b ∈ bs, b.span % ab = 0) : spanLen bs % ab = 0 := by
  induction bs with
  | nil => simp [spanLen]
  | cons a as ih =>
    simp only [spanLen]
    have h1 := h a (List.mem_cons_self ..)
    have h2 := ih (fun b hb => h b (List.mem_cons_of_mem _ hb))
    rw [Nat.add_mod, h1, h2]; simp

/-- the model computes the spec's padding -/
theorem padding_eq (s : DynamicPool) (n : Nat) :
    (if !s.isPacked && s.ab > 1 then (let rem := n % s.ab; if rem ≠ 0 then s.ab - rem else 0) else 0)
      = padOf s.isPacked s.ab n := rfl

/-- the model's page limit is the spec's -/
theorem pgLimit_eq : sizeMod - 1 - pageInfoSize = Spec.pageLimit := by decide

/-! ### malloc: the five outcomes -/
theorem malloc_cases (grow : Nat → Nat) (fresh : Nat) (s : DynamicPool) (n : Nat) (m : Mem)
    (pad : Nat) (hpad : pad = padOf s.isPacked s.ab n) :
    (s.topPageSize ≤ n ∧ malloc grow fresh s n m = (none, s, m)) ∨
    (n < s.topPageSize ∧ n + pad ≤ s.topPageSize - s.free ∧
        malloc grow fresh s n m = ((s.bump n pad).1, (s.bump n pad).2, m)) ∨
    (n < s.topPageSize ∧ ¬ n + pad ≤ s.topPageSize - s.free ∧
        (s.isFixed = true ∨ grow s.topPageSize < n + pad ∨ Spec.pageLimit < grow s.topPageSize) ∧
        malloc grow fresh s n m = (none, s, m)) ∨
    (n < s.topPageSize ∧ ¬ n + pad ≤ s.topPageSize - s.free ∧ s.isFixed = false ∧ n + pad ≤ grow s.topPageSize ∧
        grow s.topPageSize ≤ Spec.pageLimit ∧
        (m.allocT s.triple).1 = false ∧ malloc grow fresh s n m = (none, s, (m.allocT s.triple).2)) ∨
    (n < s.topPageSize ∧ ¬ n + pad ≤ s.topPageSize - s.free ∧ s.isFixed = false ∧ n + pad ≤ grow s.topPageSize ∧
        grow s.topPageSize ≤ Spec.pageLimit ∧
        (m.allocT s.triple).1 = true ∧
        malloc grow fresh s n m = (((s.expand (grow s.topPageSize) fresh).bump n pad).1,
                                   ((s.expand (grow s.topPageSize) fresh).bump n pad).2, (m.allocT s.triple).2)) := by
  unfold malloc
  rw [padding_eq, ← hpad, pgLimit_eq]
  by_cases h1 : n ≥ s.topPageSize
  · left; exact ⟨by omega, by simp [h1]⟩
  · right
    simp only [h1, if_false]
    by_cases h2 : n + pad > s.topPageSize - s.free
    · right
      simp only [h2, if_true]
      by_cases h3 : (s.isFixed || decide (n + pad > grow s.topPageSize)) = true
      · left
        simp only [h3, if_true]
        refine ⟨by omega, by omega, ?_, by first | rfl | trivial⟩
        rcases (by simpa using h3 : s.isFixed = true ∨ grow s.topPageSize < n + pad) with h | h
        · exact Or.inl h
        · exact Or.inr (Or.inl h)
      · simp only [h3]
        simp only [Bool.or_eq_true, decide_eq_true_eq, not_or, Bool.not_eq_true] at h3
        by_cases h4 : grow s.topPageSize > Spec.pageLimit
        · left
          rw [if_pos h4]
          exact ⟨by omega, by omega, Or.inr (Or.inr h4), by first | rfl | trivial⟩
        · right
          rw [if_neg h4]
          cases ha : (m.allocT s.triple).1
          · left; exact ⟨by omega, by omega, h3.1, by omega, by omega, rfl, by simp⟩
          · right; exact ⟨by omega, by omega, h3.1, by omega, by omega, rfl, by simp⟩
    · left
      simp only [h2, if_false]
      exact ⟨by omega, by omega, by first | rfl | trivial⟩

theorem bump_inv (s : DynamicPool) (n pad : Nat) (p : PPage) (ps : List PPage) (hp : s.pages = p :: ps)
    (ht : s.topPageSize = p.size) (hf : s.free = spanLen p.blocks)
    (hall : ∀ q ∈ s.pages, DPool.pageWF s.ab s.isPacked q) (hfix : s.isFixed = true → s.pages.length = 1)
    (hfit : n + pad ≤ s.topPageSize - s.free)
    (hpad : s.isPacked = false → 0 < s.ab → (n + pad) % s.ab = 0) : (s.bump n pad).2.Inv := by
  rw [inv_iff]
  have hpw := hall p (by rw [hp]; exact List.mem_cons_self ..)
  obtain ⟨hl, hs, hb, hal⟩ := hpw
  simp only [bump, hp, pushBlk]
  refine ⟨?_, by omega, by simp, ?_, by simpa [hp] using hfix⟩
  · simp only [topOk, spanLen, undoOk]
    exact ⟨ht, by omega, fun _ => by constructor <;> first | trivial | omega⟩
  · intro q hq
    cases hq with
    | head =>
      refine ⟨⟨hf, by dsimp only; omega, hl⟩, by simp only [spanLen]; omega, hb, ?_⟩
      intro hpk hab b hbm
      cases hbm with
      | head =>
        dsimp only
        have := spanLen_mod s.ab p.blocks (fun b hb => (hal hpk hab b hb).2)
        exact ⟨by rw [hf]; exact this, hpad hpk hab⟩
      | tail _ hb' => exact hal hpk hab b hb'
    | tail _ hq' => exact hall q (by rw [hp]; exact List.mem_cons_of_mem _ hq')

theorem malloc_inv (grow : Nat → Nat) (fresh : Nat) (s : DynamicPool) (n : Nat) (m : Mem) (h : s.Inv) :
    (malloc grow fresh s n m).2.1.Inv := by
  obtain ⟨p, ps, hp, ht, hf, hpw, hu⟩ := inv_top s h
  have h' := (inv_iff s).1 h
  have hpad : s.isPacked = false → 0 < s.ab → (n + padOf s.isPacked s.ab n) % s.ab = 0 :=
    fun hpk hab => (span_aligned _ _ n hpk hab).1
  rcases malloc_cases grow fresh s n m _ rfl with ⟨_, e⟩ | ⟨_, hfit, e⟩ | ⟨_, _, _, e⟩ | ⟨_, _, _, _, _, _, e⟩ | ⟨_, _, hfx, hg, _, _, e⟩
  · rw [e]; exact h
  · rw [e]; exact bump_inv s n _ p ps hp ht hf h'.2.2.2.1 h'.2.2.2.2 hfit hpad
  · rw [e]; exact h
  · rw [e]; exact h
  · rw [e]
    refine bump_inv (s.expand (grow s.topPageSize) fresh) n _ _ s.pages rfl rfl rfl ?_ ?_ ?_ hpad
    · intro q hq
      simp only [expand] at hq ⊢
      cases hq with
      | head => exact ⟨trivial, Nat.zero_le _, by simp, fun _ _ b hb => by cases hb⟩
      | tail _ hq' => exact h'.2.2.2.1 q hq'
    · intro hfx'; simp only [expand] at hfx'; rw [hfx] at hfx'; cases hfx'
    · simp only [expand]; omega


theorem abs_top (s : DynamicPool) (p : PPage) (ps : List PPage) (hp : s.pages = p :: ps) : s.abs.top = p := by
  simp [DPool.top, abs, hp]

theorem malloc_refines (grow : Nat → Nat) (fresh : Nat) (s : DynamicPool) (n : Nat) (m : Mem) (h : s.Inv) :
    (malloc grow fresh s n m).1 = (DPool.malloc grow fresh s.abs n (!(m.allocT s.triple).1)).1 ∧
    (malloc grow fresh s n m).2.1.abs = (DPool.malloc grow fresh s.abs n (!(m.allocT s.triple).1)).2 := by
  obtain ⟨p, ps, hp, ht, hf, hpw, hu⟩ := inv_top s h
  have e0 := abs_top s p ps hp
  have e1 : s.abs.top.size = s.topPageSize := by rw [e0, ht]
  have e2 : s.abs.topUsed = s.free := by rw [DPool.topUsed, e0, hf]
  have e3 : s.abs.pages = p :: ps := hp
  unfold DPool.malloc; dsimp only
  rw [e1, e2]
  rcases malloc_cases grow fresh s n m _ rfl with ⟨c1, e⟩ | ⟨c1, c2, e⟩ | ⟨c1, c2, c3, e⟩ | ⟨c1, c2, c3, c4, c6, c5, e⟩ | ⟨c1, c2, c3, c4, c6, c5, e⟩
  · rw [e]; simp [c1]
  · rw [e]
    have : ¬ n ≥ s.topPageSize := by omega
    simp only [this, if_false, show s.abs.packed = s.isPacked from rfl, show s.abs.ab = s.ab from rfl, c2, if_true]
    simp [bump, DPool.pushBlock, abs, hp, pushBlk]
  · rw [e]
    have : ¬ n ≥ s.topPageSize := by omega
    simp only [this, if_false, show s.abs.packed = s.isPacked from rfl, show s.abs.ab = s.ab from rfl, c2,
      show s.abs.fixed = s.isFixed from rfl]
    rcases c3 with c3 | c3 | c3
    · simp [c3]
    · simp [c3]
    · by_cases hh : (s.isFixed || decide (n + padOf s.isPacked s.ab n > grow s.topPageSize)) = true
      · simp [hh]
      · simp [hh, c3]
  · rw [e]
    have : ¬ n ≥ s.topPageSize := by omega
    simp only [this, if_false, show s.abs.packed = s.isPacked from rfl, show s.abs.ab = s.ab from rfl, c2,
      show s.abs.fixed = s.isFixed from rfl]
    have : ¬ (s.isFixed || decide (n + padOf s.isPacked s.ab n > grow s.topPageSize)) = true := by
      simp [c3]; omega
    have h6 : ¬ grow s.topPageSize > Spec.pageLimit := by omega
    simp [this, c5, h6]
  · rw [e]
    have : ¬ n ≥ s.topPageSize := by omega
    simp only [this, if_false, show s.abs.packed = s.isPacked from rfl, show s.abs.ab = s.ab from rfl, c2,
      show s.abs.fixed = s.isFixed from rfl]
    have : ¬ (s.isFixed || decide (n + padOf s.isPacked s.ab n > grow s.topPageSize)) = true := by
      simp [c3]; omega
    have h6 : ¬ grow s.topPageSize > Spec.pageLimit := by omega
    simp [this, c5, h6, bump, expand, abs, pushBlk]

theorem bump_triple (s : DynamicPool) (n pad : Nat) : (s.bump n pad).2.triple = s.triple := rfl
theorem expand_triple (s : DynamicPool) (a b : Nat) : (s.expand a b).triple = s.triple := rfl

/-- no operation changes the allocator triple of the pool -/
theorem malloc_triple (grow : Nat → Nat) (fresh : Nat) (s : DynamicPool) (n : Nat) (m : Mem) :
    (malloc grow fresh s n m).2.1.triple = s.triple := by
  rcases malloc_cases grow fresh s n m _ rfl with ⟨c1, e⟩ | ⟨c1, c2, e⟩ | ⟨c1, c2, c3, e⟩ | ⟨c1, c2, c3, c4, c6, c5, e⟩ | ⟨c1, c2, c3, c4, c6, c5, e⟩ <;> rw [e] <;> rfl

/-- allocator events of `malloc`: at most one page is requested, through the pool's own triple;
NULL leaves the pool (all fields) unchanged; a new page is owned iff the call succeeded in getting
one; the other triple's blocks are never touched -/
theorem malloc_ledger (grow : Nat → Nat) (fresh : Nat) (s : DynamicPool) (n : Nat) (m : Mem) :
    ((malloc grow fresh s n m).1 = none → (malloc grow fresh s n m).2.1 = s) ∧
    (malloc grow fresh s n m).2.2.liveT s.triple + s.owned = m.liveT s.triple + (malloc grow fresh s n m).2.1.owned ∧
    (malloc grow fresh s n m).2.2.fault = m.fault ∧
    (malloc grow fresh s n m).2.2.liveO s.triple = m.liveO s.triple := by
  rcases malloc_cases grow fresh s n m _ rfl with ⟨c1, e⟩ | ⟨c1, c2, e⟩ | ⟨c1, c2, c3, e⟩ | ⟨c1, c2, c3, c4, c6, c5, e⟩ | ⟨c1, c2, c3, c4, c6, c5, e⟩
  · rw [e]; simp
  · rw [e]; simp [bump, owned, pushBlk]
    cases s.pages <;> simp
  · rw [e]; simp
  · rw [e]; have := Mem.allocT_false m s.triple c5
    exact ⟨fun _ => rfl, by rw [this.1], this.2.1, this.2.2.1⟩
  · rw [e]; have := Mem.allocT_true m s.triple c5
    simp [bump, expand, owned, pushBlk, this]; omega

/-- a refused page request: NULL, every field unchanged, ledger unchanged -/
theorem malloc_atomic (grow : Nat → Nat) (fresh : Nat) (s : DynamicPool) (n : Nat) (m : Mem)
    (h : (malloc grow fresh s n m).2.2.nrefused ≠ m.nrefused) :
    (malloc grow fresh s n m).1 = none ∧ (malloc grow fresh s n m).2.1 = s ∧
    (malloc grow fresh s n m).2.2.liveT s.triple = m.liveT s.triple := by
  rcases malloc_cases grow fresh s n m _ rfl with ⟨c1, e⟩ | ⟨c1, c2, e⟩ | ⟨c1, c2, c3, e⟩ | ⟨c1, c2, c3, c4, c6, c5, e⟩ | ⟨c1, c2, c3, c4, c6, c5, e⟩
  · rw [e] at h; exact (h rfl).elim
  · rw [e] at h; exact (h rfl).elim
  · rw [e] at h; exact (h rfl).elim
  · rw [e]; exact ⟨rfl, rfl, (Mem.allocT_false m s.triple c5).1⟩
  · rw [e] at h
    exact (h (Mem.allocT_nrefused_true m s.triple c5)).elim

/-- what a non-NULL result of `malloc` is: an address in the newest page of the new state, at
`high_ptr`, with the request inside that page's payload -/
theorem malloc_some (grow : Nat → Nat) (fresh : Nat) (s : DynamicPool) (n : Nat) (m : Mem) (h : s.Inv)
    (a : Nat × Nat) (ha : (malloc grow fresh s n m).1 = some a) :
    a.1 = (malloc grow fresh s n m).2.1.pages.length - 1 ∧ a.2 = (malloc grow fresh s n m).2.1.high ∧
    a.2 + n ≤ (malloc grow fresh s n m).2.1.topBytesLen ∧ (malloc grow fresh s n m).2.1.undo = true := by
  have hi := malloc_inv grow fresh s n m h
  obtain ⟨p', ps', hp', ht', hf', hpw', _⟩ := inv_top _ hi
  have hlen : (malloc grow fresh s n m).2.1.topBytesLen = (malloc grow fresh s n m).2.1.topPageSize := by
    simp only [topBytesLen, hp', ht']; exact hpw'.2.2.1
  have hle : (malloc grow fresh s n m).2.1.free ≤ (malloc grow fresh s n m).2.1.topPageSize := by
    rw [hf', ht']; exact hpw'.2.1
  rw [hlen]
  revert ha hle
  rcases malloc_cases grow fresh s n m _ rfl with ⟨c1, e⟩ | ⟨c1, c2, e⟩ | ⟨c1, c2, c3, e⟩ | ⟨c1, c2, c3, c4, c6, c5, e⟩ | ⟨c1, c2, c3, c4, c6, c5, e⟩
  all_goals rw [e]
  · intro ha; cases ha
  · intro ha hle
    simp only [bump, Option.some.injEq] at ha hle ⊢
    subst ha
    simp only [pushBlk]
    obtain ⟨p, ps, hp, _⟩ := inv_top s h
    simp [hp]; omega
  · intro ha; cases ha
  · intro ha; cases ha
  · intro ha hle
    simp only [bump, expand, Option.some.injEq] at ha hle ⊢
    subst ha
    simp [pushBlk]; omega

/-- a refusal fires in `malloc` exactly when a page is needed, allowed, and the allocator says no -/
theorem malloc_refused_iff (grow : Nat → Nat) (fresh : Nat) (s : DynamicPool) (n : Nat) (m : Mem) :
    (malloc grow fresh s n m).2.2.nrefused ≠ m.nrefused ↔
      (n < s.topPageSize ∧ ¬ n + padOf s.isPacked s.ab n ≤ s.topPageSize - s.free ∧ s.isFixed = false ∧
        n + padOf s.isPacked s.ab n ≤ grow s.topPageSize ∧ grow s.topPageSize ≤ Spec.pageLimit ∧
        (m.allocT s.triple).1 = false) := by
  rcases malloc_cases grow fresh s n m _ rfl with ⟨c1, e⟩ | ⟨c1, c2, e⟩ | ⟨c1, c2, c3, e⟩ | ⟨c1, c2, c3, c4, c6, c5, e⟩ | ⟨c1, c2, c3, c4, c6, c5, e⟩
  · rw [e]; constructor
    · intro h; exact (h rfl).elim
    · intro h; omega
  · rw [e]; constructor
    · intro h; exact (h rfl).elim
    · intro h; exact (h.2.1 c2).elim
  · rw [e]; constructor
    · intro h; exact (h rfl).elim
    · intro h
      rcases c3 with c3 | c3 | c3
      · rw [h.2.2.1] at c3; cases c3
      · omega
      · omega
  · rw [e]; constructor
    · intro _; exact ⟨c1, c2, c3, c4, c6, c5⟩
    · intro _; rw [(Mem.allocT_false m s.triple c5).2.2.2.2]; omega
  · rw [e]; constructor
    · intro h; exact (h (Mem.allocT_nrefused_true m s.triple c5)).elim
    · intro h; rw [h.2.2.2.2.2] at c5; cases c5

/-! ### calloc -/
theorem abs_fillTop (s : DynamicPool) (off n v : Nat) :
    ({ s with pages := fillTop s.pages off n v } : DynamicPool).abs = s.abs.fillTop off n v := by
  simp only [abs, DPool.fillTop, fillTop]
  cases s.pages <;> rfl

theorem fillTop_inv (s : DynamicPool) (off n v : Nat) (h : s.Inv) :
    ({ s with pages := fillTop s.pages off n v } : DynamicPool).Inv := by
  rw [inv_iff] at h ⊢
  obtain ⟨h1, h2, h3, h4, h5⟩ := h
  unfold topOk at h1
  cases hp : s.pages with
  | nil => rw [hp] at h1; exact h1.elim
  | cons p ps =>
    rw [hp] at h1 h4 h5
    simp only [fillTop]
    refine ⟨by simpa [topOk] using h1, h2, h3, ?_, by simpa using h5⟩
    intro q hq
    cases hq with
    | head =>
      have := h4 p (List.mem_cons_self ..)
      exact ⟨this.1, this.2.1, by simpa using this.2.2.1, this.2.2.2⟩
    | tail _ hq' => exact h4 q (List.mem_cons_of_mem _ hq')

theorem calloc_overflow (grow : Nat → Nat) (fresh : Nat) (s : DynamicPool) (c k : Nat) (m : Mem)
    (h : sizeMod ≤ c * k) : calloc grow fresh s c k m = (none, s, m) := by
  have := (mulOverflows_iff c k).2 h
  simp [calloc, this]

theorem calloc_no_overflow (grow : Nat → Nat) (fresh : Nat) (s : DynamicPool) (c k : Nat) (m : Mem)
    (h : c * k < sizeMod) :
    calloc grow fresh s c k m =
      (match (malloc grow fresh s (c * k) m).1 with
       | some p => (some p, { (malloc grow fresh s (c * k) m).2.1 with
                              pages := fillTop (malloc grow fresh s (c * k) m).2.1.pages p.2 (c * k) 0 },
                    (malloc grow fresh s (c * k) m).2.2.check (p.2 + c * k ≤ (malloc grow fresh s (c * k) m).2.1.topBytesLen))
       | none => (none, (malloc grow fresh s (c * k) m).2.1, (malloc grow fresh s (c * k) m).2.2)) := by
  have hno : mulOverflows c k = false := by
    cases hm : mulOverflows c k
    · rfl
    · have := (mulOverflows_iff c k).1 hm; omega
  have hmod : c * k % sizeMod = c * k := Nat.mod_eq_of_lt h
  unfold calloc; dsimp only
  rw [hno, hmod]
  simp only [Bool.false_eq_true, if_false]
  cases (malloc grow fresh s (c * k) m).1 <;> rfl

theorem calloc_refines (grow : Nat → Nat) (fresh : Nat) (s : DynamicPool) (c k : Nat) (m : Mem) (h : s.Inv)
    (hsz : s.topPageSize < sizeMod) :
    (calloc grow fresh s c k m).1 = (DPool.calloc grow fresh s.abs c k (!(m.allocT s.triple).1)).1 ∧
    (calloc grow fresh s c k m).2.1.abs = (DPool.calloc grow fresh s.abs c k (!(m.allocT s.triple).1)).2 := by
  by_cases hov : sizeMod ≤ c * k
  · rw [calloc_overflow grow fresh s c k m hov]
    obtain ⟨p, ps, hp, ht, _⟩ := inv_top s h
    have e1 : s.abs.top.size = s.topPageSize := by rw [abs_top s p ps hp, ht]
    have : c * k ≥ s.abs.top.size := by omega
    simp [DPool.calloc, DPool.malloc, this]
  · have hr := malloc_refines grow fresh s (c * k) m h
    rw [calloc_no_overflow grow fresh s c k m (by omega)]
    unfold DPool.calloc; dsimp only
    rw [← hr.1, ← hr.2]
    cases hm : (malloc grow fresh s (c * k) m).1 with
    | none => simp
    | some a => simp [abs_fillTop]

theorem calloc_inv (grow : Nat → Nat) (fresh : Nat) (s : DynamicPool) (c k : Nat) (m : Mem) (h : s.Inv) :
    (calloc grow fresh s c k m).2.1.Inv := by
  by_cases hov : sizeMod ≤ c * k
  · rw [calloc_overflow grow fresh s c k m hov]; exact h
  · have hi := malloc_inv grow fresh s (c * k) m h
    rw [calloc_no_overflow grow fresh s c k m (by omega)]
    cases hm : (malloc grow fresh s (c * k) m).1 with
    | none => simpa using hi
    | some a => simpa using fillTop_inv _ _ _ _ hi

/-- same allocator events as `malloc`; the `memset` stays inside the newest page -/
theorem calloc_ledger (grow : Nat → Nat) (fresh : Nat) (s : DynamicPool) (c k : Nat) (m : Mem) (h : s.Inv) :
    ((calloc grow fresh s c k m).1 = none → (calloc grow fresh s c k m).2.1 = s) ∧
    (calloc grow fresh s c k m).2.2.liveT s.triple + s.owned = m.liveT s.triple + (calloc grow fresh s c k m).2.1.owned ∧
    (calloc grow fresh s c k m).2.2.fault = m.fault ∧ (calloc grow fresh s c k m).2.2.liveO s.triple = m.liveO s.triple := by
  by_cases hov : sizeMod ≤ c * k
  · rw [calloc_overflow grow fresh s c k m hov]; exact ⟨fun _ => rfl, rfl, rfl, rfl⟩
  · have hl := malloc_ledger grow fresh s (c * k) m
    rw [calloc_no_overflow grow fresh s c k m (by omega)]
    cases hm : (malloc grow fresh s (c * k) m).1 with
    | none => simp only [hm] at hl ⊢; exact ⟨fun _ => hl.1 trivial, hl.2⟩
    | some a =>
      have hs := malloc_some grow fresh s _ m h a hm
      simp only [hs.2.2.1, decide_true, Mem.check_true]
      refine ⟨fun hn => by simp at hn, ?_, hl.2.2⟩
      have : ({ (malloc grow fresh s (c * k) m).2.1 with
                pages := fillTop (malloc grow fresh s (c * k) m).2.1.pages a.2 (c * k) 0 } : DynamicPool).owned
          = (malloc grow fresh s (c * k) m).2.1.owned := by
        simp only [owned, fillTop]; cases (malloc grow fresh s (c * k) m).2.1.pages <;> rfl
      rw [this]; exact hl.2.1

theorem calloc_atomic (grow : Nat → Nat) (fresh : Nat) (s : DynamicPool) (c k : Nat) (m : Mem)
    (h : (calloc grow fresh s c k m).2.2.nrefused ≠ m.nrefused) :
    (calloc grow fresh s c k m).1 = none ∧ (calloc grow fresh s c k m).2.1 = s ∧
    (calloc grow fresh s c k m).2.2.liveT s.triple = m.liveT s.triple := by
  by_cases hov : sizeMod ≤ c * k
  · rw [calloc_overflow grow fresh s c k m hov]; exact ⟨rfl, rfl, rfl⟩
  · have ha := malloc_atomic grow fresh s (c * k) m
    rw [calloc_no_overflow grow fresh s c k m (by omega)] at h ⊢
    cases hm : (malloc grow fresh s (c * k) m).1 with
    | none =>
      simp only [hm] at h ⊢
      have := ha h
      exact ⟨by first | rfl | trivial, this.2.1, this.2.2⟩
    | some a =>
      simp only [hm] at h
      have h' : (malloc grow fresh s (c * k) m).2.2.nrefused ≠ m.nrefused := by
        intro e; apply h; rw [← e]; unfold Mem.check; split <;> rfl
      have := (ha h').1
      rw [hm] at this; cases this

/-! ### free -/
theorem release_refines (s : DynamicPool) (p : Option (Nat × Nat)) (h : s.Inv) :
    (s.release p).abs = s.abs.release p := by
  obtain ⟨pg, ps, hp, ht, hf, hpw, hu⟩ := inv_top s h
  have hfree := h.2.2.1
  unfold release DPool.release
  simp only [show s.abs.pages = s.pages from rfl, show s.abs.undo = s.undo from rfl, hp, List.length_cons,
    Nat.add_sub_cancel]
  cases hun : s.undo
  · by_cases hq : p = some (ps.length, s.high)
    · simp [hq, abs, hun, hp]
    · simp [hq]
  · have hu' := hu hun
    unfold undoOk at hu'
    cases hb : pg.blocks with
    | nil => rw [hb] at hu'; exact hu'.elim
    | cons b rest =>
      simp only [hb] at hu'
      cases p with
      | none => simp
      | some a =>
        simp only [Option.some.injEq, ← hu'.1]
        by_cases ha : a = (ps.length, b.off)
        · simp [ha, abs, hb]
        · simp [ha, hb]

theorem release_inv (s : DynamicPool) (p : Option (Nat × Nat)) (h : s.Inv) : (s.release p).Inv := by
  obtain ⟨pg, ps, hp, ht, hf, hpw, hu⟩ := inv_top s h
  have h' := (inv_iff s).1 h
  obtain ⟨_, h2, h3, h4, h5⟩ := h'
  unfold release
  by_cases hq : p = some (s.pages.length - 1, s.high)
  · simp only [hq, if_true]
    rw [inv_iff]
    cases hun : s.undo
    · have := h3 hun
      simp only [Bool.false_eq_true, if_false]
      refine ⟨?_, Nat.le_refl _, by intros; first | rfl | trivial, h4, h5⟩
      simp only [topOk, hp]
      exact ⟨ht, by omega, fun hx => by cases hx⟩
    · have hu' := hu hun
      unfold undoOk at hu'
      cases hb : pg.blocks with
      | nil => rw [hb] at hu'; exact hu'.elim
      | cons b rest =>
        simp only [hb] at hu'
        obtain ⟨hl, hs, hbl, hal⟩ := hpw
        rw [hb] at hl hs hal
        simp only [DPool.layout] at hl
        simp only [spanLen] at hs
        simp only [if_true, hp, hb, List.tail_cons]
        refine ⟨?_, Nat.le_refl _, by intros; first | rfl | trivial, ?_, by simpa [hp] using h5⟩
        · simp only [topOk]
          exact ⟨ht, by omega, fun hx => by cases hx⟩
        · intro q hq'
          cases hq' with
          | head => exact ⟨hl.2.2, by dsimp only; omega, hbl, fun a1 a2 b' hb' => hal a1 a2 b' (List.mem_cons_of_mem _ hb')⟩
          | tail _ hq'' => exact h4 q (by rw [hp]; exact List.mem_cons_of_mem _ hq'')
  · simp only [hq, if_false]; exact h

/-- `free` of anything but the newest page's `high_ptr`: every field is unchanged -/
theorem release_inert (s : DynamicPool) (p : Option (Nat × Nat)) (hp : p ≠ some (s.pages.length - 1, s.high)) :
    s.release p = s := by
  unfold release; simp [hp]

/-! ### reset, destroy -/
theorem resetLoop_spec (t : Triple) (p : PPage) (ps : List PPage) (m : Mem) :
    (resetLoop t (p :: ps) m).1 = (p :: ps).getLast? ∧
    (ps.length ≤ m.liveT t → (resetLoop t (p :: ps) m).2.liveT t + ps.length = m.liveT t ∧
      (resetLoop t (p :: ps) m).2.fault = m.fault ∧ (resetLoop t (p :: ps) m).2.liveO t = m.liveO t) := by
  induction ps generalizing p m with
  | nil => simp [resetLoop]
  | cons q rest ih =>
    simp only [resetLoop, List.getLast?_cons_cons, List.length_cons]
    refine ⟨(ih q (m.freeT t)).1, ?_⟩
    intro hl
    have hf := Mem.freeT_pos m t (by omega)
    have := (ih q (m.freeT t)).2 (by rw [hf.1]; omega)
    rw [hf.1, hf.2.1, hf.2.2.1] at this
    exact ⟨by omega, this.2⟩

theorem reset_triple (s : DynamicPool) (m : Mem) : (s.reset m).1.triple = s.triple := by
  unfold reset; dsimp only; split <;> rfl

theorem reset_refines (s : DynamicPool) (m : Mem) (h : s.Inv) : (s.reset m).1.abs = s.abs.reset := by
  obtain ⟨pg, ps, hp, _⟩ := inv_top s h
  have := (resetLoop_spec s.triple pg ps m).1
  unfold reset DPool.reset; dsimp only
  simp only [show s.abs.pages = s.pages from rfl, hp, this]
  cases hl : (pg :: ps).getLast? with
  | none => simp at hl
  | some q => simp [abs]

theorem reset_inv (s : DynamicPool) (m : Mem) (h : s.Inv) : (s.reset m).1.Inv := by
  obtain ⟨pg, ps, hp, _⟩ := inv_top s h
  have h4 := ((inv_iff s).1 h).2.2.2.1
  have := (resetLoop_spec s.triple pg ps m).1
  unfold reset; dsimp only
  simp only [hp, this]
  cases hl : (pg :: ps).getLast? with
  | none => simp at hl
  | some q =>
    have hq : q ∈ s.pages := by rw [hp]; exact List.mem_of_getLast? hl
    have hw := h4 q hq
    rw [inv_iff]
    refine ⟨by simp [topOk, spanLen], Nat.le_refl _, fun _ => rfl, ?_, fun _ => rfl⟩
    intro r hr
    simp only [List.mem_singleton] at hr
    subst hr
    exact ⟨trivial, Nat.zero_le _, hw.2.2.1, fun _ _ b hb => by cases hb⟩

/-- reset keeps exactly one page: the oldest -/
theorem reset_ledger_pages (s : DynamicPool) (m : Mem) (h : s.Inv) :
    (s.reset m).1.pages = [{ (s.pages.getLast (by obtain ⟨_, _, hp, _⟩ := inv_top s h; simp [hp])) with blocks := [] }] ∧ True := by
  obtain ⟨pg, ps, hp, _⟩ := inv_top s h
  have hs := resetLoop_spec s.triple pg ps m
  unfold reset; dsimp only
  simp only [hp, hs.1]
  cases hg : (pg :: ps).getLast? with
  | none => simp at hg
  | some q =>
    have : (pg :: ps).getLast (by simp) = q := by
      rw [List.getLast?_eq_some_getLast (by simp)] at hg; exact Option.some.inj hg
    simp only [this]
    exact ⟨by first | rfl | trivial, trivial⟩

/-- reset keeps exactly one page, the oldest, and releases the others: one `mem_free` each, through
the pool's own triple -/
theorem reset_ledger (s : DynamicPool) (m : Mem) (h : s.Inv) (hl : s.owned ≤ m.liveT s.triple) :
    (s.reset m).1.pages = [{ (s.pages.getLast (by obtain ⟨_, _, hp, _⟩ := inv_top s h; simp [hp])) with blocks := [] }] ∧
    (s.reset m).2.liveT s.triple + s.owned = m.liveT s.triple + (s.reset m).1.owned ∧ (s.reset m).2.fault = m.fault ∧
    (s.reset m).2.liveO s.triple = m.liveO s.triple := by
  obtain ⟨pg, ps, hp, _⟩ := inv_top s h
  have hs := resetLoop_spec s.triple pg ps m
  simp only [owned, hp, List.length_cons] at hl
  have hs2 := hs.2 (by omega)
  unfold reset; dsimp only
  simp only [hp, hs.1, owned, List.length_cons]
  cases hg : (pg :: ps).getLast? with
  | none => simp at hg
  | some q =>
    have : (pg :: ps).getLast (by simp) = q := by
      rw [List.getLast?_eq_some_getLast (by simp)] at hg; exact Option.some.inj hg
    simp only [this, List.length_singleton]
    exact ⟨by first | rfl | trivial, by omega, hs2.2.1, hs2.2.2⟩

theorem freePages_spec (t : Triple) (ps : List PPage) (m : Mem) (hl : ps.length ≤ m.liveT t) :
    (freePages t ps m).liveT t + ps.length = m.liveT t ∧ (freePages t ps m).fault = m.fault ∧
    (freePages t ps m).liveO t = m.liveO t := by
  induction ps generalizing m with
  | nil => simp [freePages]
  | cons p rest ih =>
    simp only [freePages, List.length_cons] at hl ⊢
    have hf := Mem.freeT_pos m t (by omega)
    have := ih (m.freeT t) (by rw [hf.1]; omega)
    rw [hf.1, hf.2.1, hf.2.2.1] at this
    exact ⟨by omega, this.2⟩

/-- destroy releases every page and the pool struct, exactly once each, through the pool's triple -/
theorem destroy_ledger (s : DynamicPool) (m : Mem) (h : s.Inv) (hl : s.owned ≤ m.liveT s.triple) :
    (s.destroy m).liveT s.triple + s.owned = m.liveT s.triple ∧ (s.destroy m).fault = m.fault ∧
    (s.destroy m).liveO s.triple = m.liveO s.triple := by
  obtain ⟨pg, ps, hp, _⟩ := inv_top s h
  simp only [owned] at hl ⊢
  unfold destroy; dsimp only
  have hne : (s.pages != []) = true := by simp [hp]
  rw [hne, Mem.check_true]
  have hf := freePages_spec s.triple s.pages m (by omega)
  have hf2 := Mem.freeT_pos (freePages s.triple s.pages m) s.triple (by omega)
  rw [hf2.1, hf2.2.1, hf2.2.2.1]
  exact ⟨by omega, hf.2.1, hf.2.2⟩

/-! ### new -/
theorem new_ok (size : Nat) (fixed packed : Bool) (ab fresh : Nat) (t : Triple) (m m' : Mem) (s : DynamicPool)
    (h : new size fixed packed ab fresh t m = (.ok, some s, m')) :
    s.Inv ∧ s.abs = DPool.init size fixed packed ab (List.replicate size fresh) ∧ s.triple = t ∧
    m'.liveT t = m.liveT t + s.owned ∧ m'.fault = m.fault ∧ m'.liveO t = m.liveO t ∧ size ≤ Spec.pageLimit := by
  unfold new at h; dsimp only at h
  rw [pgLimit_eq] at h
  by_cases h0 : size > Spec.pageLimit
  · simp [h0] at h
  simp only [h0, if_false] at h
  cases h1 : (m.allocT t).1
  · simp [h1] at h
  · cases h2 : ((m.allocT t).2.allocT t).1
    · simp [h1, h2] at h
    · simp only [h1, h2, Bool.not_true, Bool.false_eq_true, if_false, Prod.mk.injEq, Option.some.injEq, true_and] at h
      obtain ⟨hs, hm⟩ := h
      subst hs
      have e1 := Mem.allocT_true m t h1
      have e2 := Mem.allocT_true (m.allocT t).2 t h2
      refine ⟨?_, rfl, rfl, ?_, ?_, ?_, by omega⟩
      · rw [inv_iff]
        refine ⟨by simp [topOk, spanLen], Nat.le_refl _, fun _ => rfl, ?_, fun _ => rfl⟩
        intro q hq
        simp only [List.mem_singleton] at hq
        subst hq
        exact ⟨trivial, Nat.zero_le _, by simp, fun _ _ b hb => by cases hb⟩
      · rw [← hm, e2.1, e1.1]; simp [owned]
      · rw [← hm, e2.2.1, e1.2.1]
      · rw [← hm, e2.2.2, e1.2.2]

/-- the constructor's three failure modes: a size whose page would not be addressable
(`CC_ERR_INVALID_CAPACITY`, nothing allocated), a refused allocation (`CC_ERR_ALLOC`, ledger
balanced); otherwise OK -/
theorem new_atomic (size : Nat) (fixed packed : Bool) (ab fresh : Nat) (t : Triple) (m : Mem) :
    ((new size fixed packed ab fresh t m).1 = .ok ∨ (new size fixed packed ab fresh t m).1 = .errAlloc ∨
      ((new size fixed packed ab fresh t m).1 = .errInvalidCapacity ∧ Spec.pageLimit < size ∧
       (new size fixed packed ab fresh t m).2.1 = none ∧ (new size fixed packed ab fresh t m).2.2 = m)) ∧
    ((new size fixed packed ab fresh t m).1 = .errAlloc →
      (new size fixed packed ab fresh t m).2.1 = none ∧ (new size fixed packed ab fresh t m).2.2.liveT t = m.liveT t ∧
      (new size fixed packed ab fresh t m).2.2.fault = m.fault ∧ (new size fixed packed ab fresh t m).2.2.liveO t = m.liveO t ∧
      t = .conf) := by
  unfold new; dsimp only
  rw [pgLimit_eq]
  by_cases h0 : size > Spec.pageLimit
  · simp [h0]
  simp only [h0, if_false]
  cases h1 : (m.allocT t).1
  · have := Mem.allocT_false m t h1
    simp only [Bool.not_false, if_true]
    exact ⟨Or.inr (Or.inl (by first | rfl | trivial)), fun _ => ⟨by first | rfl | trivial, this.1, this.2.1, this.2.2.1, this.2.2.2.1⟩⟩
  · have e1 := Mem.allocT_true m t h1
    simp only [Bool.not_true, Bool.false_eq_true, if_false]
    cases h2 : ((m.allocT t).2.allocT t).1
    · have e2 := Mem.allocT_false (m.allocT t).2 t h2
      have e3 := Mem.freeT_pos ((m.allocT t).2.allocT t).2 t (by rw [e2.1, e1.1]; omega)
      simp only [Bool.not_false, if_true]
      exact ⟨Or.inr (Or.inl (by first | rfl | trivial)), fun _ => ⟨by first | rfl | trivial, by rw [e3.1, e2.1, e1.1]; omega, by rw [e3.2.1, e2.2.1, e1.2.1],
        by rw [e3.2.2.1, e2.2.2.1, e1.2.2], e2.2.2.2.1⟩⟩
    · simp only [Bool.not_true, Bool.false_eq_true, if_false]
      exact ⟨Or.inl (by first | rfl | trivial), fun h => by cases h⟩

/-! ### user writes -/
theorem write_refines (s : DynamicPool) (off n v : Nat) (m : Mem) :
    (s.write off n v m).1.abs = s.abs.write off n v := abs_fillTop s off n v
theorem write_inv (s : DynamicPool) (off n v : Nat) (m : Mem) (h : s.Inv) : (s.write off n v m).1.Inv :=
  fillTop_inv s off n v h
theorem write_nofault (s : DynamicPool) (off n v : Nat) (m : Mem) (h : s.Inv) (hb : off + n ≤ s.topPageSize) :
    (s.write off n v m).2 = m := by
  obtain ⟨pg, ps, hp, ht, _, hpw, _⟩ := inv_top s h
  have : s.topBytesLen = s.topPageSize := by simp only [topBytesLen, hp, ht]; exact hpw.2.2.1
  simp [write, this, hb]


/-! ### the ghost fields never influence the C-visible part

`erase` forgets the ghost fields (live-block lists, roll-back flag).  Every operation commutes with
it and returns the same pointer and the same allocator state, i.e. the control flow and all C
fields are computed from C fields only. -/
def eraseP (p : PPage) : PPage := { p with blocks := [] }
def erase (s : DynamicPool) : DynamicPool := { s with pages := s.pages.map eraseP, undo := false }

theorem map_eraseP_idem (l : List PPage) : (l.map eraseP).map eraseP = l.map eraseP := by
  rw [List.map_map]; apply List.map_congr_left; intro a _; rfl

theorem erase_erase (s : DynamicPool) : s.erase.erase = s.erase := by
  simp only [erase, map_eraseP_idem]

theorem bump_erase (s : DynamicPool) (n pad : Nat) :
    (s.bump n pad).1 = (s.erase.bump n pad).1 ∧ (s.bump n pad).2.erase = (s.erase.bump n pad).2.erase := by
  simp only [bump, erase, List.length_map, pushBlk]
  cases s.pages <;> simp [eraseP]

theorem malloc_erase (grow : Nat → Nat) (fresh : Nat) (s : DynamicPool) (n : Nat) (m : Mem) :
    (malloc grow fresh s n m).1 = (malloc grow fresh s.erase n m).1 ∧
    (malloc grow fresh s n m).2.1.erase = (malloc grow fresh s.erase n m).2.1.erase ∧
    (malloc grow fresh s n m).2.2 = (malloc grow fresh s.erase n m).2.2 := by
  have hb := bump_erase s n (padOf s.isPacked s.ab n)
  have hb2 := bump_erase (s.expand (grow s.topPageSize) fresh) n (padOf s.isPacked s.ab n)
  have he : (s.expand (grow s.topPageSize) fresh).erase = (s.erase.expand (grow s.topPageSize) fresh).erase := by
    simp [expand, erase, eraseP]
  have hee := erase_erase s
  rw [he] at hb2
  have hb3 := bump_erase (s.erase.expand (grow s.topPageSize) fresh) n (padOf s.isPacked s.ab n)
  unfold malloc
  rw [padding_eq, padding_eq]
  simp only [show s.erase.topPageSize = s.topPageSize from rfl, show s.erase.isPacked = s.isPacked from rfl,
    show s.erase.ab = s.ab from rfl, show s.erase.free = s.free from rfl, show s.erase.isFixed = s.isFixed from rfl,
    show s.erase.triple = s.triple from rfl]
  by_cases h1 : n ≥ s.topPageSize
  · simp [h1, hee]
  · simp only [h1, if_false]
    by_cases h2 : n + padOf s.isPacked s.ab n > s.topPageSize - s.free
    · simp only [h2, if_true]
      by_cases h3 : (s.isFixed || decide (n + padOf s.isPacked s.ab n > grow s.topPageSize)) = true
      · simp [h3, hee]
      · simp only [h3]
        by_cases h4 : grow s.topPageSize > sizeMod - 1 - pageInfoSize
        · simp [h4, hee]
        · simp only [h4, if_false]
          cases ha : (m.allocT s.triple).1
          · simp [hee]
          · simp only [Bool.not_true, Bool.false_eq_true, if_false]
            exact ⟨by rw [hb2.1, hb3.1], by rw [hb2.2, hb3.2], by first | rfl | trivial⟩
    · simp only [h2, if_false]
      exact ⟨hb.1, hb.2, by first | rfl | trivial⟩

theorem release_erase (s : DynamicPool) (p : Option (Nat × Nat)) : (s.release p).erase = (s.erase.release p).erase := by
  unfold release
  simp only [show s.erase.high = s.high from rfl, show s.erase.pages.length = s.pages.length by simp [erase]]
  by_cases hq : p = some (s.pages.length - 1, s.high)
  · simp only [hq, if_true]
    simp only [erase, Bool.false_eq_true, if_false, map_eraseP_idem]
    cases s.undo
    · simp
    · cases s.pages with
      | nil => rfl
      | cons pg ps => simp [eraseP]
  · simp only [hq, if_false]
    exact (erase_erase s).symm

theorem resetLoop_erase (t : Triple) (ps : List PPage) (m : Mem) :
    (resetLoop t (ps.map eraseP) m).1 = (resetLoop t ps m).1.map eraseP ∧
    (resetLoop t (ps.map eraseP) m).2 = (resetLoop t ps m).2 := by
  induction ps generalizing m with
  | nil => simp [resetLoop]
  | cons p rest ih =>
    cases rest with
    | nil => simp [resetLoop]
    | cons q r => simpa [resetLoop] using ih (m.freeT t)

theorem reset_erase (s : DynamicPool) (m : Mem) :
    (s.reset m).1.erase = (s.erase.reset m).1.erase ∧ (s.reset m).2 = (s.erase.reset m).2 := by
  have := resetLoop_erase s.triple s.pages m
  unfold reset; dsimp only
  simp only [show s.erase.pages = s.pages.map eraseP from rfl, show s.erase.triple = s.triple from rfl, this]
  cases (resetLoop s.triple s.pages m).1 with
  | none =>
    simp only [Option.map_none]
    exact ⟨(erase_erase s).symm, trivial⟩
  | some q => simp [erase, eraseP]

/-- `cc_dynamic_pool_calloc` and user writes, too, commute with forgetting the ghost fields -/
theorem calloc_erase (grow : Nat → Nat) (fresh : Nat) (s : DynamicPool) (c k : Nat) (m : Mem) :
    (calloc grow fresh s c k m).1 = (calloc grow fresh s.erase c k m).1 ∧
    (calloc grow fresh s c k m).2.1.erase = (calloc grow fresh s.erase c k m).2.1.erase ∧
    (calloc grow fresh s c k m).2.2 = (calloc grow fresh s.erase c k m).2.2 := by
  have hm := malloc_erase grow fresh s (c * k % sizeMod) m
  have hfill : ∀ (t u : DynamicPool) (off n : Nat), t.erase = u.erase →
      ({ t with pages := fillTop t.pages off n 0 } : DynamicPool).erase =
      ({ u with pages := fillTop u.pages off n 0 } : DynamicPool).erase ∧ t.topBytesLen = u.topBytesLen := by
    intro t u off n htu
    simp only [erase, DynamicPool.mk.injEq] at htu ⊢
    obtain ⟨h1, h2, h3, h4, h5, h6, h7, h8, _⟩ := htu
    have hlen : t.pages.length = u.pages.length := by
      have := congrArg List.length h6; simpa using this
    cases ht : t.pages with
    | nil =>
      cases hu : u.pages with
      | nil => simp [fillTop, topBytesLen, ht, hu, h1, h2, h3, h4, h5, h7, h8]
      | cons q qs => rw [ht, hu] at hlen; simp at hlen
    | cons p ps =>
      cases hu : u.pages with
      | nil => rw [ht, hu] at hlen; simp at hlen
      | cons q qs =>
        rw [ht, hu] at h6
        simp only [List.map_cons, List.cons.injEq, eraseP, PPage.mk.injEq] at h6
        obtain ⟨⟨a1, a2, _⟩, a3⟩ := h6
        simp [fillTop, topBytesLen, ht, hu, h1, h2, h3, h4, h5, h7, h8, eraseP, a1, a2, a3]
  unfold calloc; dsimp only
  split
  · exact ⟨rfl, (erase_erase s).symm, rfl⟩
  · rw [← hm.1, ← hm.2.2]
    cases hmm : (malloc grow fresh s (c * k % sizeMod) m).1 with
    | none => exact ⟨by first | rfl | trivial, hm.2.1, by first | rfl | trivial⟩
    | some a =>
      have := hfill _ _ a.2 (c * k % sizeMod) hm.2.1
      simp only
      rw [this.2]
      exact ⟨by first | rfl | trivial, this.1, by first | rfl | trivial⟩

theorem write_erase (s : DynamicPool) (off n v : Nat) (m : Mem) :
    (s.write off n v m).1.erase = (s.erase.write off n v m).1.erase ∧ (s.write off n v m).2 = (s.erase.write off n v m).2 := by
  cases hp : s.pages with
  | nil => simp [write, erase, fillTop, topBytesLen, hp]
  | cons p ps => simp [write, erase, fillTop, topBytesLen, hp, eraseP, map_eraseP_idem]

/-! ### the triple never changes; page sizes stay addressable -/
open Spec.DPool (Op) in
theorem step_triple (grow : Nat → Nat) (fresh : Nat) (s : DynamicPool) (op : Op) (m : Mem) :
    (step grow fresh s op m).2.1.triple = s.triple := by
  cases op with
  | malloc n r => exact malloc_triple grow fresh s n m
  | calloc c k r =>
    simp only [step, calloc]
    split
    · rfl
    · split
      · exact malloc_triple grow fresh s _ m
      · exact malloc_triple grow fresh s _ m
  | release p => simp only [step, release]; split <;> rfl
  | reset => exact reset_triple s m
  | write off n v => rfl

/-- every page payload is at most `SIZE_MAX - sizeof(PageInfo)`: established by the constructor's
size check, kept by the page-size check of `malloc` -/
def Sized (s : DynamicPool) : Prop := ∀ p ∈ s.pages, p.size ≤ Spec.pageLimit

theorem pushBlk_sizes (pages : List PPage) (b : PBlk) : (pushBlk pages b).map (·.size) = pages.map (·.size) := by
  cases pages <;> simp [pushBlk]
theorem fillTop_sizes (pages : List PPage) (off n v : Nat) : (fillTop pages off n v).map (·.size) = pages.map (·.size) := by
  cases pages <;> simp [fillTop]

theorem sized_of_sizes (s t : DynamicPool) (h : t.pages.map (·.size) = s.pages.map (·.size)) (hs : s.Sized) : t.Sized := by
  intro p hp
  have : p.size ∈ t.pages.map (·.size) := List.mem_map.2 ⟨p, hp, rfl⟩
  rw [h] at this
  obtain ⟨q, hq, e⟩ := List.mem_map.1 this
  rw [← e]; exact hs q hq

theorem malloc_sized (grow : Nat → Nat) (fresh : Nat) (s : DynamicPool) (n : Nat) (m : Mem) (hs : s.Sized) :
    (malloc grow fresh s n m).2.1.Sized := by
  rcases malloc_cases grow fresh s n m _ rfl with ⟨c1, e⟩ | ⟨c1, c2, e⟩ | ⟨c1, c2, c3, e⟩ | ⟨c1, c2, c3, c4, c6, c5, e⟩ | ⟨c1, c2, c3, c4, c6, c5, e⟩
  · rw [e]; exact hs
  · rw [e]; exact sized_of_sizes s _ (by simp [bump, pushBlk_sizes]) hs
  · rw [e]; exact hs
  · rw [e]; exact hs
  · rw [e]
    have h1 : (s.expand (grow s.topPageSize) fresh).Sized := by
      intro p hp
      simp only [expand] at hp
      cases hp with
      | head => exact c6
      | tail _ hp' => exact hs p hp'
    exact sized_of_sizes _ _ (by simp [bump, pushBlk_sizes]) h1

open Spec.DPool (Op) in
theorem step_sized (grow : Nat → Nat) (fresh : Nat) (s : DynamicPool) (op : Op) (m : Mem) (h : s.Inv) (hs : s.Sized) :
    (step grow fresh s op m).2.1.Sized := by
  cases op with
  | malloc n r => exact malloc_sized grow fresh s n m hs
  | calloc c k r =>
    simp only [step, calloc]
    split
    · exact hs
    · split
      · exact sized_of_sizes _ _ (fillTop_sizes _ _ _ _) (malloc_sized grow fresh s _ m hs)
      · exact malloc_sized grow fresh s _ m hs
  | release p =>
    simp only [step, release]
    split
    · refine sized_of_sizes s _ ?_ hs
      dsimp only
      split
      · cases s.pages <;> simp
      · rfl
    · exact hs
  | reset =>
    obtain ⟨e1, _⟩ := reset_ledger_pages s m h
    intro p hp
    simp only [step] at hp
    rw [e1] at hp
    simp only [List.mem_singleton] at hp
    subst hp
    exact hs (s.pages.getLast _) (List.getLast_mem _)
  | write off n v => exact sized_of_sizes s _ (by simp [step, write, fillTop_sizes]) hs

/-- under `Inv` and `Sized` the newest page's size is a `size_t` value -/
theorem top_lt_sizeMod (s : DynamicPool) (h : s.Inv) (hs : s.Sized) : s.topPageSize < sizeMod := by
  obtain ⟨p, ps, hp, ht, _⟩ := inv_top s h
  have := hs p (by rw [hp]; exact List.mem_cons_self ..)
  rw [ht]
  have : Spec.pageLimit < sizeMod := by decide
  omega

/-! ### only the pool's own triple is used -/
theorem malloc_other (grow : Nat → Nat) (fresh : Nat) (s : DynamicPool) (n : Nat) (m : Mem) :
    Mem.otherSame m (malloc grow fresh s n m).2.2 s.triple := by
  rcases malloc_cases grow fresh s n m _ rfl with ⟨c1, e⟩ | ⟨c1, c2, e⟩ | ⟨c1, c2, c3, e⟩ | ⟨c1, c2, c3, c4, c6, c5, e⟩ | ⟨c1, c2, c3, c4, c6, c5, e⟩ <;> rw [e]
  · exact Mem.otherSame_refl _ _
  · exact Mem.otherSame_refl _ _
  · exact Mem.otherSame_refl _ _
  · exact Mem.otherSame_allocT m s.triple
  · exact Mem.otherSame_allocT m s.triple

theorem calloc_other (grow : Nat → Nat) (fresh : Nat) (s : DynamicPool) (c k : Nat) (m : Mem) :
    Mem.otherSame m (calloc grow fresh s c k m).2.2 s.triple := by
  unfold calloc; dsimp only
  split
  · exact Mem.otherSame_refl _ _
  · split
    · exact Mem.otherSame_trans (malloc_other grow fresh s _ m) (Mem.otherSame_check _ _ _)
    · exact malloc_other grow fresh s _ m

theorem resetLoop_other (t : Triple) (ps : List PPage) (m : Mem) : Mem.otherSame m (resetLoop t ps m).2 t := by
  induction ps generalizing m with
  | nil => exact Mem.otherSame_check m _ t
  | cons p rest ih =>
    cases rest with
    | nil => exact Mem.otherSame_refl _ _
    | cons q r => simp only [resetLoop]; exact Mem.otherSame_trans (Mem.otherSame_freeT m t) (ih _)

theorem reset_other (s : DynamicPool) (m : Mem) : Mem.otherSame m (s.reset m).2 s.triple := by
  unfold reset; dsimp only; split <;> exact resetLoop_other s.triple s.pages m

theorem freePages_other (t : Triple) (ps : List PPage) (m : Mem) : Mem.otherSame m (freePages t ps m) t := by
  induction ps generalizing m with
  | nil => exact Mem.otherSame_refl _ _
  | cons p rest ih => simp only [freePages]; exact Mem.otherSame_trans (Mem.otherSame_freeT m t) (ih _)

theorem destroy_other (s : DynamicPool) (m : Mem) : Mem.otherSame m (s.destroy m) s.triple := by
  unfold destroy; dsimp only
  exact Mem.otherSame_trans (Mem.otherSame_trans (Mem.otherSame_check m _ _) (freePages_other _ _ _)) (Mem.otherSame_freeT _ _)

theorem new_other (size : Nat) (fixed packed : Bool) (ab fresh : Nat) (t : Triple) (m : Mem) :
    Mem.otherSame m (new size fixed packed ab fresh t m).2.2 t := by
  unfold new; dsimp only
  split
  · exact Mem.otherSame_refl _ _
  · split
    · exact Mem.otherSame_allocT m t
    · split
      · exact Mem.otherSame_trans (Mem.otherSame_trans (Mem.otherSame_allocT m t) (Mem.otherSame_allocT _ t)) (Mem.otherSame_freeT _ t)
      · exact Mem.otherSame_trans (Mem.otherSame_allocT m t) (Mem.otherSame_allocT _ t)

open Spec.DPool (Op) in
theorem step_other (grow : Nat → Nat) (fresh : Nat) (s : DynamicPool) (op : Op) (m : Mem) :
    Mem.otherSame m (step grow fresh s op m).2.2 s.triple := by
  cases op with
  | malloc n r => exact malloc_other grow fresh s n m
  | calloc c k r => exact calloc_other grow fresh s c k m
  | release p => exact Mem.otherSame_refl _ _
  | reset => exact reset_other s m
  | write off n v => exact Mem.otherSame_check m _ _

open Spec.DPool (Op) in
theorem run_other (grow : Nat → Nat) (fresh : Nat) (ops : List Op) (s : DynamicPool) (m : Mem) :
    Mem.otherSame m (run grow fresh s ops m).2.2.2 s.triple := by
  induction ops generalizing s m with
  | nil => exact Mem.otherSame_refl _ _
  | cons op ops ih =>
    simp only [run]
    have := ih (step grow fresh s op m).2.1 (step grow fresh s op m).2.2
    rw [step_triple] at this
    exact Mem.otherSame_trans (step_other grow fresh s op m) this

/-! ### results depend on the ledger only through the refusal schedule -/
theorem malloc_indep (grow : Nat → Nat) (fresh : Nat) (s : DynamicPool) (n : Nat) (m m' : Mem) (hs : m.sched = m'.sched) :
    (malloc grow fresh s n m).1 = (malloc grow fresh s n m').1 ∧ (malloc grow fresh s n m).2.1 = (malloc grow fresh s n m').2.1 ∧
    (malloc grow fresh s n m).2.2.sched = (malloc grow fresh s n m').2.2.sched := by
  have ha := Mem.allocT_sched_congr m m' s.triple hs
  unfold malloc
  rw [padding_eq]
  dsimp only
  split
  · exact ⟨rfl, rfl, hs⟩
  · split
    · split
      · exact ⟨rfl, rfl, hs⟩
      · split
        · exact ⟨rfl, rfl, hs⟩
        · rw [ha.1]
          split
          · exact ⟨rfl, rfl, ha.2⟩
          · exact ⟨rfl, rfl, ha.2⟩
    · exact ⟨rfl, rfl, hs⟩

theorem resetLoop_indep (t : Triple) (ps : List PPage) (m m' : Mem) (hs : m.sched = m'.sched) :
    (resetLoop t ps m).1 = (resetLoop t ps m').1 ∧ (resetLoop t ps m).2.sched = (resetLoop t ps m').2.sched := by
  induction ps generalizing m m' with
  | nil => simp [resetLoop, hs]
  | cons p rest ih =>
    cases rest with
    | nil => exact ⟨rfl, hs⟩
    | cons q r => simp only [resetLoop]; exact ih _ _ (by rw [Mem.freeT_sched, Mem.freeT_sched]; exact hs)

open Spec.DPool (Op) in
theorem step_indep (grow : Nat → Nat) (fresh : Nat) (s : DynamicPool) (op : Op) (m m' : Mem) (hs : m.sched = m'.sched) :
    (step grow fresh s op m).1 = (step grow fresh s op m').1 ∧ (step grow fresh s op m).2.1 = (step grow fresh s op m').2.1 ∧
    (step grow fresh s op m).2.2.sched = (step grow fresh s op m').2.2.sched ∧ annotate s op m = annotate s op m' := by
  have ha := Mem.allocT_sched_congr m m' s.triple hs
  cases op with
  | malloc n r =>
    have := malloc_indep grow fresh s n m m' hs
    exact ⟨this.1, this.2.1, this.2.2, by simp [annotate, ha.1]⟩
  | calloc c k r =>
    have := malloc_indep grow fresh s (c * k % sizeMod) m m' hs
    refine ⟨?_, ?_, ?_, by simp [annotate, ha.1]⟩ <;> simp only [step, calloc]
    · split
      · rfl
      · rw [this.1]; split <;> rfl
    · split
      · rfl
      · rw [this.1, this.2.1]; split <;> rfl
    · split
      · exact hs
      · rw [this.1, this.2.1]
        split
        · simp [this.2.2]
        · exact this.2.2
  | release p => exact ⟨rfl, rfl, hs, rfl⟩
  | reset =>
    have := resetLoop_indep s.triple s.pages m m' hs
    refine ⟨rfl, ?_, ?_, rfl⟩ <;> simp only [step, reset]
    · rw [this.1]; split <;> rfl
    · rw [this.1]; split <;> exact this.2
  | write off n v => exact ⟨rfl, rfl, by simp [step, write, hs], rfl⟩

open Spec.DPool (Op) in
/-- two ledgers with the same schedule give the same pointers, the same annotated history and the
same final pool, for every history -/
theorem run_indep (grow : Nat → Nat) (fresh : Nat) (ops : List Op) (s : DynamicPool) (m m' : Mem) (hs : m.sched = m'.sched) :
    (run grow fresh s ops m).1 = (run grow fresh s ops m').1 ∧ (run grow fresh s ops m).2.1 = (run grow fresh s ops m').2.1 ∧
    (run grow fresh s ops m).2.2.1 = (run grow fresh s ops m').2.2.1 := by
  induction ops generalizing s m m' with
  | nil => exact ⟨rfl, rfl, rfl⟩
  | cons op ops ih =>
    obtain ⟨h1, h2, h3, h4⟩ := step_indep grow fresh s op m m' hs
    simp only [run]
    rw [h1, h2, h4]
    have := ih (step grow fresh s op m').2.1 (step grow fresh s op m).2.2 (step grow fresh s op m').2.2 h3
    rw [this.1, this.2.1, this.2.2]
    exact ⟨rfl, rfl, rfl⟩

/-! ### preconditions of histories -/
open Spec.DPool (Op) in
/-- precondition of one operation in state `s` -/
def OpOk (s : DynamicPool) : Op → Prop
  | .write off n _ => off + n ≤ s.topPageSize
  | _ => True

open Spec.DPool (Op) in
/-- every operation of the history meets its precondition in the state it is applied to -/
def RunOk (grow : Nat → Nat) (fresh : Nat) : DynamicPool → List Op → Mem → Prop
  | _, [], _ => True
  | s, op :: ops, m =>
    OpOk s op ∧ RunOk grow fresh (step grow fresh s op m).2.1 ops (step grow fresh s op m).2.2


instance (s : DynamicPool) : Decidable s.Sized := by unfold Sized; infer_instance

open Spec.DPool (Op) in
instance (s : DynamicPool) (op : Op) : Decidable (OpOk s op) := by
  cases op <;> unfold OpOk <;> infer_instance

open Spec.DPool (Op) in
instance decRunOk (grow : Nat → Nat) (fresh : Nat) : ∀ (ops : List Op) (s : DynamicPool) (m : Mem),
    Decidable (RunOk grow fresh s ops m)
  | [], _, _ => isTrue trivial
  | op :: ops, s, m =>
    have := decRunOk grow fresh ops (step grow fresh s op m).2.1 (step grow fresh s op m).2.2
    by unfold RunOk; infer_instance

end DynamicPool
end CC

/-! ## facts about the page/block spec (`Spec.DPool`) used by `Properties/C13.lean` -/
namespace CC.Spec.DPoolFacts
open CC CC.Spec
open CC.Spec.DPool (Op)

theorem malloc_block (grow : Nat → Nat) (fresh : Nat) (s : DPool) (n : Nat) (r : Bool) (a : Nat × Nat)
    (h : s.WF) (ha : (DPool.malloc grow fresh s n r).1 = some a) :
    let s' := (DPool.malloc grow fresh s n r).2
    let span := n + padOf s.packed s.ab n
    a.1 = s'.pages.length - 1 ∧ a.2 + span ≤ s'.top.size ∧
    s'.top.blocks.head? = some ⟨a.2, n, span⟩ ∧
    (∀ b ∈ s'.top.blocks.tail, disjoint (a.2, span) (b.off, b.span)) ∧
    ((∃ p ps, s.pages = p :: ps ∧ s'.pages = { p with blocks := ⟨a.2, n, span⟩ :: p.blocks } :: ps) ∨
     (s.fixed = false ∧ r = false ∧
      s'.pages = { size := grow s.top.size, bytes := List.replicate (grow s.top.size) fresh, blocks := [⟨0, n, span⟩] } :: s.pages)) := by
  intro s' span
  obtain ⟨hne, hall, _⟩ := h
  cases hp : s.pages with
  | nil => exact (hne hp).elim
  | cons p ps =>
    have hpw := hall p (by rw [hp]; exact List.mem_cons_self ..)
    have htop : s.top = p := by simp [DPool.top, hp]
    simp only [s', span]
    unfold DPool.malloc at ha ⊢
    rw [htop] at ha ⊢
    simp only [DPool.topUsed, htop] at ha ⊢
    by_cases h1 : n ≥ p.size
    · simp [h1] at ha
    · simp only [h1, if_false] at ha ⊢
      by_cases h2 : n + padOf s.packed s.ab n ≤ p.size - spanLen p.blocks
      · simp only [h2, if_true, Option.some.injEq] at ha ⊢
        subst ha
        have hs := hpw.2.1
        simp only [DPool.pushBlock, hp, DPool.top, List.headD_cons, List.length_cons, Nat.add_sub_cancel,
          List.head?_cons, List.tail_cons, true_and]
        refine ⟨by omega, ?_, Or.inl ⟨p, ps, rfl, rfl⟩⟩
        intro b hb
        have := (playout_bound _ hpw.1 b hb).1
        right; simp only; omega
      · simp only [h2, if_false] at ha ⊢
        by_cases h3 : (s.fixed || decide (n + padOf s.packed s.ab n > grow p.size)) = true
        · simp [h3] at ha
        · simp only [h3] at ha ⊢
          by_cases h4 : grow p.size > pageLimit
          · simp [h4] at ha
          simp only [h4, if_false] at ha ⊢
          cases r with
          | true => simp at ha
          | false =>
            simp only [Bool.false_eq_true, if_false, Option.some.injEq] at ha ⊢
            subst ha
            simp only [Bool.or_eq_true, decide_eq_true_eq, not_or, Bool.not_eq_true] at h3
            simp only [DPool.top, hp, List.headD_cons, List.length_cons, Nat.add_sub_cancel, List.head?_cons,
              List.tail_cons, true_and]
            refine ⟨by omega, by simp, Or.inr ⟨h3.1, by first | rfl | trivial⟩⟩

theorem spec_wf_step (grow : Nat → Nat) (fresh : Nat) (s : DPool) (op : Op) (h : s.WF) :
    (DPool.step grow fresh s op).2.WF := by
  have hfill : ∀ (t : DPool) (off n v : Nat), t.WF → (t.fillTop off n v).WF := by
    intro t off n v ht
    obtain ⟨hne, hall, hfix⟩ := ht
    cases hp : t.pages with
    | nil => exact (hne hp).elim
    | cons p ps =>
      simp only [DPool.fillTop, hp]
      refine ⟨by simp, ?_, by simpa [hp] using hfix⟩
      intro q hq
      cases hq with
      | head =>
        have := hall p (by rw [hp]; exact List.mem_cons_self ..)
        exact ⟨this.1, this.2.1, by simpa using this.2.2.1, this.2.2.2⟩
      | tail _ hq' => exact hall q (by rw [hp]; exact List.mem_cons_of_mem _ hq')
  have hmalloc : ∀ n r, (DPool.malloc grow fresh s n r).2.WF := by
    intro n r
    obtain ⟨hne, hall, hfix⟩ := h
    cases hp : s.pages with
    | nil => exact (hne hp).elim
    | cons p ps =>
      have hpw := hall p (by rw [hp]; exact List.mem_cons_self ..)
      have htop : s.top = p := by simp [DPool.top, hp]
      unfold DPool.malloc
      rw [htop]; simp only [DPool.topUsed, htop]
      have hWF : s.WF := ⟨hne, hall, hfix⟩
      by_cases h1 : n ≥ p.size
      · simpa [h1] using hWF
      · simp only [h1, if_false]
        by_cases h2 : n + padOf s.packed s.ab n ≤ p.size - spanLen p.blocks
        · simp only [h2, if_true, DPool.pushBlock, hp]
          refine ⟨by simp, ?_, by simpa [hp] using hfix⟩
          intro q hq
          cases hq with
          | head =>
            obtain ⟨hl, hs, hb, hal⟩ := hpw
            refine ⟨⟨rfl, by dsimp only; omega, hl⟩, by simp only [spanLen]; omega, hb, ?_⟩
            intro hpk hab b hbm
            cases hbm with
            | head =>
              dsimp only
              exact ⟨DynamicPool.spanLen_mod s.ab p.blocks (fun b hb => (hal hpk hab b hb).2),
                     (span_aligned _ _ n hpk hab).1⟩
            | tail _ hb' => exact hal hpk hab b hb'
          | tail _ hq' => exact hall q (by rw [hp]; exact List.mem_cons_of_mem _ hq')
        · simp only [h2, if_false]
          by_cases h3 : (s.fixed || decide (n + padOf s.packed s.ab n > grow p.size)) = true
          · simpa [h3] using hWF
          · simp only [h3]
            by_cases h4 : grow p.size > pageLimit
            · simpa [h4] using hWF
            simp only [h4, if_false]
            cases r with
            | true => simpa using hWF
            | false =>
              simp only [Bool.or_eq_true, decide_eq_true_eq, not_or, Bool.not_eq_true] at h3
              simp only [Bool.false_eq_true, if_false]
              refine ⟨by simp, ?_, fun hf => by rw [h3.1] at hf; cases hf⟩
              intro q hq
              cases hq with
              | head =>
                refine ⟨⟨rfl, by dsimp only; omega, trivial⟩, by simp only [spanLen]; omega, by simp, ?_⟩
                intro hpk hab b hbm
                simp only [List.mem_singleton] at hbm
                subst hbm
                exact ⟨by simp, (span_aligned _ _ n hpk hab).1⟩
              | tail _ hq' => exact hall q hq'
  cases op with
  | malloc n r => exact hmalloc n r
  | calloc c k r =>
    simp only [DPool.step, DPool.calloc]
    split
    · exact hfill _ _ _ _ (hmalloc _ r)
    · exact hmalloc _ r
  | release p =>
    obtain ⟨hne, hall, hfix⟩ := h
    simp only [DPool.step, DPool.release]
    split
    · rename_i pg ps a _ hpg
      split
      · rename_i b rest hb
        split
        · refine ⟨by simp, ?_, by simpa [hpg] using hfix⟩
          intro q hq
          cases hq with
          | head =>
            obtain ⟨hl, hs, hbl, hal⟩ := hall pg (by rw [hpg]; exact List.mem_cons_self ..)
            rw [hb] at hl hs hal
            simp only [DPool.layout] at hl
            simp only [spanLen] at hs
            exact ⟨hl.2.2, by dsimp only; omega, hbl, fun a1 a2 b' hb' => hal a1 a2 b' (List.mem_cons_of_mem _ hb')⟩
          | tail _ hq' => exact hall q (by rw [hpg]; exact List.mem_cons_of_mem _ hq')
        · exact ⟨hne, hall, hfix⟩
      · exact ⟨hne, hall, hfix⟩
    · exact ⟨hne, hall, hfix⟩
  | reset =>
    obtain ⟨hne, hall, hfix⟩ := h
    simp only [DPool.step, DPool.reset]
    split
    · rename_i q hq
      refine ⟨by simp, ?_, fun _ => rfl⟩
      intro r hr
      simp only [List.mem_singleton] at hr
      subst hr
      have := hall q (List.mem_of_getLast? hq)
      exact ⟨trivial, Nat.zero_le _, this.2.2.1, fun _ _ b hb => by cases hb⟩
    · exact ⟨hne, hall, hfix⟩
  | write off n v => exact hfill s off n v h

theorem oldest_page_size (grow : Nat → Nat) (fresh : Nat) (s : DPool) (op : Op) :
    ((DPool.step grow fresh s op).2.pages.getLast?.map (·.size)) = (s.pages.getLast?.map (·.size)) := by
  have hfill : ∀ (t : DPool) (off n v : Nat),
      (t.fillTop off n v).pages.getLast?.map (·.size) = t.pages.getLast?.map (·.size) := by
    intro t off n v
    simp only [DPool.fillTop]
    cases hp : t.pages with
    | nil => simp [hp]
    | cons p ps => cases ps <;> simp [List.getLast?_cons_cons]
  have hmalloc : ∀ n r, (DPool.malloc grow fresh s n r).2.pages.getLast?.map (·.size) = s.pages.getLast?.map (·.size) := by
    intro n r
    unfold DPool.malloc
    by_cases h1 : n ≥ s.top.size
    · simp [h1]
    · by_cases h2 : n + padOf s.packed s.ab n ≤ s.top.size - s.topUsed
      · simp only [h1, h2, if_false, if_true, DPool.pushBlock]
        cases hp : s.pages with
        | nil => simp [hp]
        | cons p ps => cases ps <;> simp [List.getLast?_cons_cons]
      · by_cases h3 : (s.fixed || decide (n + padOf s.packed s.ab n > grow s.top.size)) = true
        · simp [h1, h2, h3]
        · by_cases h4 : grow s.top.size > pageLimit
          · simp [h1, h2, h3, h4]
          cases r
          · simp only [h1, h2, h3, h4, if_false, Bool.false_eq_true]
            cases hp : s.pages with
            | nil => simp [DPool.top, hp] at h1
            | cons p ps => simp [List.getLast?_cons_cons]
          · simp [h1, h2, h3, h4]
  cases op with
  | malloc n r => exact hmalloc n r
  | calloc c k r =>
    simp only [DPool.step, DPool.calloc]
    split
    · rw [hfill]; exact hmalloc _ r
    · exact hmalloc _ r
  | release p =>
    simp only [DPool.step, DPool.release]
    split
    · rename_i pg ps a _ hpg
      split
      · split
        · rw [hpg]; cases ps <;> simp [List.getLast?_cons_cons]
        · rfl
      · rfl
    · rfl
  | reset =>
    simp only [DPool.step, DPool.reset]
    split
    · rename_i q hq; simp [hq]
    · rfl
  | write off n v => exact hfill s off n v

theorem calloc_zeroed (grow : Nat → Nat) (fresh : Nat) (s : DPool) (c k : Nat) (r : Bool) (a : Nat × Nat)
    (h : s.WF) (ha : (DPool.calloc grow fresh s c k r).1 = some a) :
    (DPool.malloc grow fresh s (c * k) r).1 = some a ∧
    (∀ i, i < c * k → (DPool.calloc grow fresh s c k r).2.top.bytes.getD (a.2 + i) 0 = 0) ∧
    (∀ j, j < (DPool.malloc grow fresh s (c * k) r).2.top.size → ¬ (a.2 ≤ j ∧ j < a.2 + c * k) →
       (DPool.calloc grow fresh s c k r).2.top.bytes.getD j 0 = (DPool.malloc grow fresh s (c * k) r).2.top.bytes.getD j 0) ∧
    (DPool.calloc grow fresh s c k r).2.pages.tail = (DPool.malloc grow fresh s (c * k) r).2.pages.tail := by
  have hwf1 : (DPool.malloc grow fresh s (c * k) r).2.WF := spec_wf_step grow fresh s (.malloc (c * k) r) h
  simp only [DPool.calloc] at ha ⊢
  cases hm : (DPool.malloc grow fresh s (c * k) r).1 with
  | none => simp [hm] at ha
  | some a' =>
    simp only [hm, Option.some.injEq] at ha ⊢
    subst ha
    have hb := (malloc_block grow fresh s (c * k) r a' h hm).2.1
    obtain ⟨hne, hall, _⟩ := hwf1
    generalize (DPool.malloc grow fresh s (c * k) r).2 = s1 at *
    cases hp : s1.pages with
    | nil => exact (hne hp).elim
    | cons p ps =>
      have hpw := hall p (by rw [hp]; exact List.mem_cons_self ..)
      have htop : s1.top = p := by simp [DPool.top, hp]
      rw [htop] at hb ⊢
      have hlen := hpw.2.2.1
      simp only [DPool.fillTop, hp, DPool.top, List.headD_cons, List.tail_cons, true_and]
      refine ⟨?_, ?_, trivial⟩
      · intro i hi
        rw [getD_fillBytes _ _ _ _ _ (by omega)]
        simp; omega
      · intro j hj hout
        rw [getD_fillBytes _ _ _ _ _ (by omega)]
        simp [hout]

/-- every live block (with its padding) lies inside its page -/
theorem live_in_page (s : DPool) (h : s.WF) : ∀ p ∈ s.pages, ∀ b ∈ p.blocks, b.off + b.span ≤ p.size := by
  intro p hp b hb
  obtain ⟨hl, hs, _, _⟩ := h.2.1 p hp
  have := (playout_bound _ hl b hb).1
  omega

/-- the configuration never changes -/
theorem step_config (grow : Nat → Nat) (fresh : Nat) (s : DPool) (op : Op) :
    (DPool.step grow fresh s op).2.fixed = s.fixed ∧ (DPool.step grow fresh s op).2.packed = s.packed := by
  have hfill : ∀ (t : DPool) (off n v : Nat), (t.fillTop off n v).fixed = t.fixed ∧ (t.fillTop off n v).packed = t.packed := by
    intro t off n v; simp only [DPool.fillTop]; cases t.pages <;> exact ⟨rfl, rfl⟩
  have hmalloc : ∀ n r, (DPool.malloc grow fresh s n r).2.fixed = s.fixed ∧ (DPool.malloc grow fresh s n r).2.packed = s.packed := by
    intro n r
    unfold DPool.malloc; dsimp only
    split
    · exact ⟨rfl, rfl⟩
    · split
      · simp only [DPool.pushBlock]; cases s.pages <;> exact ⟨rfl, rfl⟩
      · split
        · exact ⟨rfl, rfl⟩
        · split
          · exact ⟨rfl, rfl⟩
          · split <;> exact ⟨rfl, rfl⟩
  cases op with
  | malloc n r => exact hmalloc n r
  | calloc c k r =>
    simp only [DPool.step, DPool.calloc]
    split
    · rw [(hfill _ _ _ _).1, (hfill _ _ _ _).2]; exact hmalloc _ r
    · exact hmalloc _ r
  | release p =>
    simp only [DPool.step, DPool.release]
    split
    · split
      · split <;> exact ⟨rfl, rfl⟩
      · exact ⟨rfl, rfl⟩
    · exact ⟨rfl, rfl⟩
  | reset => simp only [DPool.step, DPool.reset]; split <;> exact ⟨rfl, rfl⟩
  | write off n v => exact hfill s off n v

theorem run_config (grow : Nat → Nat) (fresh : Nat) (ops : List Op) (s : DPool) :
    (DPool.run grow fresh s ops).2.fixed = s.fixed ∧ (DPool.run grow fresh s ops).2.packed = s.packed := by
  induction ops generalizing s with
  | nil => exact ⟨rfl, rfl⟩
  | cons op ops ih =>
    simp only [DPool.run]
    rw [(ih _).1, (ih _).2]; exact step_config grow fresh s op

theorem step_ab (grow : Nat → Nat) (fresh : Nat) (s : DPool) (op : Op) : (DPool.step grow fresh s op).2.ab = s.ab := by
  have hfill : ∀ (t : DPool) (off n v : Nat), (t.fillTop off n v).ab = t.ab := by
    intro t off n v; simp only [DPool.fillTop]; cases t.pages <;> rfl
  have hmalloc : ∀ n r, (DPool.malloc grow fresh s n r).2.ab = s.ab := by
    intro n r
    unfold DPool.malloc; dsimp only
    split
    · rfl
    · split
      · simp only [DPool.pushBlock]; cases s.pages <;> rfl
      · split
        · rfl
        · split
          · rfl
          · split <;> rfl
  cases op with
  | malloc n r => exact hmalloc n r
  | calloc c k r =>
    simp only [DPool.step, DPool.calloc]
    split
    · rw [hfill]; exact hmalloc _ r
    · exact hmalloc _ r
  | release p =>
    simp only [DPool.step, DPool.release]
    split
    · split
      · split <;> rfl
      · rfl
    · rfl
  | reset => simp only [DPool.step, DPool.reset]; split <;> rfl
  | write off n v => exact hfill s off n v

theorem run_ab (grow : Nat → Nat) (fresh : Nat) (ops : List Op) (s : DPool) : (DPool.run grow fresh s ops).2.ab = s.ab := by
  induction ops generalizing s with
  | nil => rfl
  | cons op ops ih => simp only [DPool.run]; rw [ih, step_ab]

/-- `calloc`'s state is `malloc`'s with the bytes of the newest page filled: page count, newest page
size and block lists are those of `malloc` -/
theorem calloc_shape (grow : Nat → Nat) (fresh : Nat) (s : DPool) (c k : Nat) (r : Bool) (a : Nat × Nat)
    (h : (DPool.calloc grow fresh s c k r).1 = some a) :
    (DPool.calloc grow fresh s c k r).2.pages.length = (DPool.malloc grow fresh s (c * k) r).2.pages.length ∧
    (DPool.calloc grow fresh s c k r).2.top.size = (DPool.malloc grow fresh s (c * k) r).2.top.size ∧
    (DPool.calloc grow fresh s c k r).2.top.blocks = (DPool.malloc grow fresh s (c * k) r).2.top.blocks := by
  simp only [DPool.calloc] at h ⊢
  cases hm : (DPool.malloc grow fresh s (c * k) r).1 with
  | none => simp [hm] at h
  | some a' =>
    simp only
    generalize (DPool.malloc grow fresh s (c * k) r).2 = t
    cases hp : t.pages <;> simp [DPool.fillTop, DPool.top, hp]

theorem calloc_config (grow : Nat → Nat) (fresh : Nat) (s : DPool) (c k : Nat) (r : Bool) :
    (DPool.calloc grow fresh s c k r).2.fixed = s.fixed ∧ (DPool.calloc grow fresh s c k r).2.packed = s.packed ∧
    (DPool.calloc grow fresh s c k r).2.ab = s.ab :=
  ⟨(step_config grow fresh s (.calloc c k r)).1, (step_config grow fresh s (.calloc c k r)).2, step_ab grow fresh s (.calloc c k r)⟩

/-! ### accounting -/

/-- bytes reserved by the live blocks of all pages -/
def totalSpan : List PPage → Nat
  | [] => 0
  | p :: ps => spanLen p.blocks + totalSpan ps

theorem totalSpan_le (ab : Nat) (packed : Bool) (ps : List PPage) (h : ∀ p ∈ ps, DPool.pageWF ab packed p) :
    totalSpan ps ≤ pagesSize ps := by
  induction ps with
  | nil => exact Nat.le_refl _
  | cons p ps ih =>
    simp only [totalSpan, pagesSize]
    have h1 := (h p (List.mem_cons_self ..)).2.1
    have h2 := ih (fun q hq => h q (List.mem_cons_of_mem _ hq))
    omega

/-- `used` lies between what the live blocks reserve and the total payload: it counts the newest
page exactly and every older page in full (the library's definition) -/
theorem used_bounds (s : DPool) (h : s.WF) : totalSpan s.pages ≤ s.used ∧ s.used ≤ pagesSize s.pages := by
  obtain ⟨hne, hall, _⟩ := h
  cases hp : s.pages with
  | nil => exact (hne hp).elim
  | cons p ps =>
    have hpw := (hall p (by rw [hp]; exact List.mem_cons_self ..)).2.1
    have hrest := totalSpan_le s.ab s.packed ps (fun q hq => hall q (by rw [hp]; exact List.mem_cons_of_mem _ hq))
    simp only [DPool.used, DPool.topUsed, DPool.top, hp, List.headD_cons, List.tail_cons, totalSpan, pagesSize]
    omega

/-- a fixed pool has one page, so `used` is exactly what its live blocks reserve -/
theorem fixed_used_exact (s : DPool) (h : s.WF) (hf : s.fixed = true) :
    s.used = totalSpan s.pages ∧ s.used = spanLen s.top.blocks := by
  obtain ⟨hne, hall, hfix⟩ := h
  have hl := hfix hf
  cases hp : s.pages with
  | nil => exact (hne hp).elim
  | cons p ps =>
    rw [hp] at hl
    have : ps = [] := by cases ps with | nil => rfl | cons _ _ => simp at hl
    subst this
    simp [DPool.used, DPool.topUsed, DPool.top, hp, totalSpan, pagesSize]

/-- in packed mode every live block reserves exactly what was requested -/
def PackedExact (s : DPool) : Prop := s.packed = true → ∀ p ∈ s.pages, ∀ b ∈ p.blocks, b.span = b.len

theorem packedExact_init (size ab : Nat) (fixed packed : Bool) (bytes : List Nat) :
    PackedExact (DPool.init size fixed packed ab bytes) := by
  intro _ p hp b hb
  simp only [DPool.init, List.mem_singleton] at hp
  subst hp; cases hb

theorem packedExact_step (grow : Nat → Nat) (fresh : Nat) (s : DPool) (op : Op) (h : PackedExact s) :
    PackedExact (DPool.step grow fresh s op).2 := by
  have hfill : ∀ (t : DPool) (off n v : Nat), PackedExact t → PackedExact (t.fillTop off n v) := by
    intro t off n v ht hpk p hp b hb
    simp only [DPool.fillTop] at hp hpk
    cases hpg : t.pages with
    | nil => rw [hpg] at hp; simp only at hp; rw [hpg] at hp; cases hp
    | cons q qs =>
      rw [hpg] at hp hpk
      simp only at hp hpk
      cases hp with
      | head => exact ht hpk q (by rw [hpg]; exact List.mem_cons_self ..) b hb
      | tail _ hp' => exact ht hpk p (by rw [hpg]; exact List.mem_cons_of_mem _ hp') b hb
  have hmalloc : ∀ n r, PackedExact (DPool.malloc grow fresh s n r).2 := by
    intro n r
    unfold DPool.malloc
    by_cases h1 : n ≥ s.top.size
    · simpa [h1] using h
    · simp only [h1, if_false]
      by_cases h2 : n + padOf s.packed s.ab n ≤ s.top.size - s.topUsed
      · simp only [h2, if_true, DPool.pushBlock]
        cases hpg : s.pages with
        | nil => simpa [hpg] using h
        | cons q qs =>
          intro hpk p hp b hb
          simp only at hpk hp
          cases hp with
          | head =>
            cases hb with
            | head => simp only; rw [hpk, padOf_packed]; rfl
            | tail _ hb' => exact h hpk q (by rw [hpg]; exact List.mem_cons_self ..) b hb'
          | tail _ hp' => exact h hpk p (by rw [hpg]; exact List.mem_cons_of_mem _ hp') b hb
      · simp only [h2, if_false]
        by_cases h3 : (s.fixed || decide (n + padOf s.packed s.ab n > grow s.top.size)) = true
        · simpa [h3] using h
        · simp only [h3]
          by_cases h4 : grow s.top.size > pageLimit
          · simpa [h4] using h
          · simp only [h4, if_false]
            cases r with
            | true => simpa using h
            | false =>
              simp only [Bool.false_eq_true, if_false]
              intro hpk p hp b hb
              simp only at hpk hp
              cases hp with
              | head =>
                simp only [List.mem_singleton] at hb
                subst hb; simp only; rw [hpk, padOf_packed]; rfl
              | tail _ hp' => exact h hpk p hp' b hb
  cases op with
  | malloc n r => exact hmalloc n r
  | calloc c k r =>
    simp only [DPool.step, DPool.calloc]
    split
    · exact hfill _ _ _ _ (hmalloc _ r)
    · exact hmalloc _ r
  | release p =>
    simp only [DPool.step, DPool.release]
    split
    · rename_i pg ps a _ hpg
      split
      · rename_i b rest hb
        split
        · intro hpk p' hp' b' hb'
          simp only at hpk hp'
          cases hp' with
          | head => exact h hpk pg (by rw [hpg]; exact List.mem_cons_self ..) b' (by rw [hb]; exact List.mem_cons_of_mem _ hb')
          | tail _ hp'' => exact h hpk p' (by rw [hpg]; exact List.mem_cons_of_mem _ hp'') b' hb'
        · exact h
      · exact h
    · exact h
  | reset =>
    simp only [DPool.step, DPool.reset]
    split
    · intro _ p hp b hb
      simp only [List.mem_singleton] at hp
      subst hp; cases hb
    · exact h
  | write off n v => exact hfill s off n v h

theorem packedExact_run (grow : Nat → Nat) (fresh : Nat) (ops : List Op) (s : DPool) (h : PackedExact s) :
    PackedExact (DPool.run grow fresh s ops).2 := by
  induction ops generalizing s with
  | nil => exact h
  | cons op ops ih => exact ih _ (packedExact_step grow fresh s op h)

theorem spanLen_eq_len (bs : List PBlk) (h : ∀ b ∈ bs, b.span = b.len) : spanLen bs = (bs.map (·.len)).sum := by
  induction bs with
  | nil => rfl
  | cons b bs ih =>
    simp only [spanLen, List.map_cons, List.sum_cons]
    rw [h b (List.mem_cons_self ..), ih (fun c hc => h c (List.mem_cons_of_mem _ hc))]

/-! ### the oldest page along a run -/
theorem oldest_page_size_run (grow : Nat → Nat) (fresh : Nat) (ops : List Op) (s : DPool) :
    ((DPool.run grow fresh s ops).2.pages.getLast?.map (·.size)) = (s.pages.getLast?.map (·.size)) := by
  induction ops generalizing s with
  | nil => rfl
  | cons op ops ih =>
    simp only [DPool.run]
    rw [ih, oldest_page_size]

end CC.Spec.DPoolFacts
