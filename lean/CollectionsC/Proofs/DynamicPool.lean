import CollectionsC.Model.DynamicPool
/-! Helper lemmas for the dynamic pool: padding arithmetic, page layouts, and the per-operation
invariant / refinement / ledger / atomicity lemmas of the concrete model. -/
namespace CC
open Spec

namespace Spec

/-! ## padding -/
theorem padOf_packed (ab n : Nat) : padOf true ab n = 0 := by simp [padOf]

/-- the reserved span is the request rounded up to the boundary: a multiple of it, and less than one
boundary larger than the request -/
theorem span_aligned (packed : Bool) (ab n : Nat) (hp : packed = false) (hab : 0 < ab) :
    (n + padOf packed ab n) % ab = 0 ∧ padOf packed ab n < ab := by
  subst hp
  unfold padOf
  by_cases h1 : ab > 1
  · simp [h1]
    by_cases h2 : n % ab = 0
    · simp only [h2, if_true]
      exact ⟨by simpa using h2, hab⟩
    · simp only [h2, if_false]
      have hlt := Nat.mod_lt n hab
      have hdm := Nat.div_add_mod n ab
      refine ⟨?_, by omega⟩
      have : n + (ab - n % ab) = ab * (n / ab) + ab := by omega
      rw [this, Nat.add_mod_right, Nat.mul_mod_right]
  · have : ab = 1 := by omega
    subst this
    simp [Nat.mod_one]

/-! ## page layouts -/
theorem playout_bound (bs : List PBlk) (h : DPool.layout bs) :
    ∀ b ∈ bs, b.off + b.span ≤ spanLen bs ∧ b.len ≤ b.span := by
  induction bs with
  | nil => intro b hb; cases hb
  | cons a as ih =>
    intro b hb
    simp only [DPool.layout] at h
    simp only [spanLen]
    cases hb with
    | head => exact ⟨by omega, h.2.1⟩
    | tail _ hb' => have := ih h.2.2 b hb'; exact ⟨by omega, this.2⟩

/-- the reservations of the live blocks of one page are pairwise disjoint -/
theorem playout_pairwise (bs : List PBlk) (h : DPool.layout bs) :
    bs.Pairwise fun a b => disjoint (a.off, a.span) (b.off, b.span) := by
  induction bs with
  | nil => exact List.Pairwise.nil
  | cons a as ih =>
    simp only [DPool.layout] at h
    refine List.Pairwise.cons ?_ (ih h.2.2)
    intro b hb
    have := (playout_bound as h.2.2 b hb).1
    right; simp only; omega

end Spec

namespace DynamicPool

theorem layoutB_iff (bs : List PBlk) : layoutB bs = true ↔ DPool.layout bs := by
  induction bs with
  | nil => simp [layoutB, DPool.layout]
  | cons a as ih => simp [layoutB, DPool.layout, ih, and_assoc]

theorem pageOkB_iff (ab : Nat) (packed : Bool) (p : PPage) :
    pageOkB ab packed p = true ↔ DPool.pageWF ab packed p := by
  unfold pageOkB DPool.pageWF
  simp only [Bool.and_eq_true, Bool.or_eq_true, decide_eq_true_eq, beq_iff_eq, layoutB_iff, List.all_eq_true,
    and_assoc]
  constructor
  · rintro ⟨h1, h2, h3, h4⟩
    refine ⟨h1, h2, h3, ?_⟩
    intro hp hab b hb
    rcases h4 with h4 | h4
    · rcases h4 with h4 | h4
      · rw [hp] at h4; cases h4
      · omega
    · exact h4 b hb
  · rintro ⟨h1, h2, h3, h4⟩
    refine ⟨h1, h2, h3, ?_⟩
    cases hp : packed
    · by_cases hab : ab = 0
      · left; right; exact hab
      · right; exact h4 hp (by omega)
    · left; left; rfl

/-- the invariant of the model implies well-formedness of its abstraction -/
theorem abs_wf (s : DynamicPool) (h : s.Inv) : s.abs.WF := by
  obtain ⟨h1, _, _, h4, h5⟩ := h
  refine ⟨?_, ?_, h5⟩
  · intro hn
    unfold topOk at h1
    simp only [abs] at hn
    rw [hn] at h1; exact h1
  · intro p hp
    rw [List.all_eq_true] at h4
    exact (pageOkB_iff _ _ _).1 (h4 p hp)

/-- under the invariant the pool has a newest page and the C fields describe it -/
theorem inv_top (s : DynamicPool) (h : s.Inv) :
    ∃ p ps, s.pages = p :: ps ∧ s.topPageSize = p.size ∧ s.free = spanLen p.blocks ∧
      DPool.pageWF s.ab s.isPacked p ∧ (s.undo = true → undoOk p.blocks s.high s.free) := by
  obtain ⟨h1, _, _, h4, _⟩ := h
  unfold topOk at h1
  cases hp : s.pages with
  | nil => rw [hp] at h1; exact h1.elim
  | cons p ps =>
    rw [hp] at h1
    rw [List.all_eq_true] at h4
    exact ⟨p, ps, rfl, h1.1, h1.2.1, (pageOkB_iff _ _ _).1 (h4 p (by rw [hp]; exact List.mem_cons_self ..)), h1.2.2⟩

theorem used_abs (s : DynamicPool) (h : s.Inv) : s.usedBytes = s.abs.used := by
  obtain ⟨p, ps, hp, _, hf, _⟩ := inv_top s h
  simp [usedBytes, DPool.used, DPool.topUsed, DPool.top, abs, hp, hf]
theorem free_abs (s : DynamicPool) (h : s.Inv) : s.freeBytes = s.abs.free := by
  obtain ⟨p, ps, hp, ht, hf, _⟩ := inv_top s h
  simp [freeBytes, DPool.free, DPool.topUsed, DPool.top, abs, hp, hf, ht]

end DynamicPool
end CC
