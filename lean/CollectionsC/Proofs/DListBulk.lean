import CollectionsC.Proofs.DListMore
/-! `cc_list.c` model, part 3: the bulk operations add_all, add_all_at, splice, splice_at. -/
namespace CC.DList
open CC Chain
open CC.Spec

theorem length_ne_zero_of_ne_nil {xs : List Nat} (h : xs ≠ []) : xs.length ≠ 0 := by
  cases xs <;> simp_all

theorem addAllToEmpty_ofList (ys : List Nat) (m : Mem) (hy : ys ≠ []) :
    addAllToEmpty (ofList t []) (ofList t2 ys) m =
      if (m.allocChain t ys.length 0).1 then (.ok, ofList t ys, (m.allocChain t ys.length 0).2)
      else (.errAlloc, ofList t [], (m.allocChain t ys.length 0).2) := by
  have hyl := length_ne_zero_of_ne_nil hy
  unfold addAllToEmpty
  rw [linkAllExternally_ofList, ofList_size, if_neg hyl]
  by_cases h : (m.allocChain t ys.length 0).1 = true
  · simp [h, ofList, hyl]
  · simp [h]

/-- the three linking branches of the bulk insertions, spelled out -/
theorem insMany_fix (xs ys : List Nat) (p : Nat) (hx : xs ≠ []) (hy : ys ≠ []) (hp : p ≤ xs.length)
    (hd tl : Ptr) (k : Nat) (hk : k = ys.length)
    (hhd : hd = if p = 0 then some 0 else ((ofList t xs).insMany p ys).head)
    (htl : tl = if p = xs.length then some (p + ys.length - 1) else ((ofList t xs).insMany p ys).tail) :
    ({ triple := t, nodes := ((ofList t xs).insMany p ys).nodes, head := hd, tail := tl,
       size := ((ofList t xs).insMany p ys).size + k } : Chain) = ofList t (xs.take p ++ ys ++ xs.drop p) := by
  have hxl := length_ne_zero_of_ne_nil hx
  have hyl := length_ne_zero_of_ne_nil hy
  subst hk hhd htl
  simp only [Chain.insMany, ofList, hxl, if_false, Ptr.shiftIns, List.length_append, List.length_take,
    List.length_drop, Nat.min_eq_left hp]
  ptr_arith

theorem addAllAt_ofList_in (xs ys : List Nat) (i : Nat) (m : Mem) (hy : ys ≠ []) (hi : i ≤ xs.length) :
    addAllAt (ofList t xs) (ofList t2 ys) i m =
      if (m.allocChain t ys.length 0).1 then (.ok, ofList t (xs.take i ++ ys ++ xs.drop i), (m.allocChain t ys.length 0).2)
      else (.errAlloc, ofList t xs, (m.allocChain t ys.length 0).2) := by
  have hyl := length_ne_zero_of_ne_nil hy
  unfold addAllAt
  rw [ofList_size, if_neg hyl, ofList_size, if_neg (by omega)]
  by_cases hx : xs = []
  · subst hx
    have hi0 : i = 0 := by simpa using hi
    subst hi0
    rw [if_pos List.length_nil, addAllToEmpty_ofList ys m hy]
    simp
  have hxl := length_ne_zero_of_ne_nil hx
  rw [if_neg hxl, linkAllExternally_ofList]
  simp only [ofList_triple]
  by_cases ha : (m.allocChain t ys.length 0).1 = true
  case neg => simp [ha]
  simp only [ha, Bool.not_true, Bool.false_eq_true, if_false, if_true, getNodeAt_ofList]
  have hhp : (ofList t xs).head = some 0 := by simp [ofList, hxl]
  have htp : (ofList t xs).tail = some (xs.length - 1) := by simp [ofList, hxl]
  have hpos : ∀ j, Ptr.pos (some j) = j := fun _ => rfl
  simp only [hhp, htp, hpos]
  by_cases he : i < xs.length
  · have hne : ((some i : Ptr) != none) = true := rfl
    have hne' : ¬ ((some i : Ptr) = none) := by simp
    simp only [he, if_true, hne, hne', if_false]
    by_cases h0 : i = 0
    · subst h0
      have hb : Ptr.prev (some 0) = none := rfl
      simp only [hb, if_true]
      congr 1; congr 1
      · apply insMany_fix xs ys 0 hx hy (by omega) _ _ _ rfl
        · simp
        · rw [if_neg (by omega)]
      · simp [Ptr.valid, Nat.pos_of_ne_zero hxl]
    · have hb : ¬ (Ptr.prev (some i) = none) := by simp [Ptr.prev, h0]
      simp only [hb, if_false]
      congr 1; congr 1
      · apply insMany_fix xs ys i hx hy (by omega) _ _ _ rfl
        · rw [if_neg h0]; rfl
        · rw [if_neg (by omega)]; rfl
      · have : i - 1 < xs.length := by omega
        simp [Ptr.valid, he, Ptr.prev, h0, this]
  · have hie : i = xs.length := by omega
    subst hie
    simp only [Nat.lt_irrefl, if_false]
    have hne : ((none : Ptr) != none) = false := rfl
    simp only [hne, Bool.false_eq_true, if_false, if_true]
    congr 1; congr 1
    · have e1 : xs.length - 1 + 1 = xs.length := by omega
      simp only [e1]
      apply insMany_fix xs ys xs.length hx hy (by omega) _ _ _ rfl
      · rw [if_neg hxl]
      · simp
    · have : xs.length - 1 < xs.length := by omega
      simp [Ptr.valid, this]

/-- `cc_list_add_all_at` against the ideal list -/
theorem addAllAt_ofList (xs ys : List Nat) (i : Nat) (m : Mem) :
    addAllAt (ofList t xs) (ofList t2 ys) i m =
      if (LSeq.addAllAt true xs ys i).1 = .ok ∧ ys ≠ [] then
        (if (m.allocChain t ys.length 0).1 then (.ok, ofList t (LSeq.addAllAt true xs ys i).2.1, (m.allocChain t ys.length 0).2)
         else (.errAlloc, ofList t xs, (m.allocChain t ys.length 0).2))
      else ((LSeq.addAllAt true xs ys i).1, ofList t xs, m) := by
  by_cases hy : ys = []
  · subst hy; simp [addAllAt, LSeq.addAllAt]
  by_cases hi : i ≤ xs.length
  · rw [addAllAt_ofList_in xs ys i m hy hi]
    simp [LSeq.addAllAt, hy, hi]
  · have hyl := length_ne_zero_of_ne_nil hy
    simp [addAllAt, LSeq.addAllAt, hy, hi, hyl, Nat.lt_of_not_le hi]

/-- `cc_list_add_all` against the ideal list -/
theorem addAll_ofList (xs ys : List Nat) (m : Mem) :
    addAll (ofList t xs) (ofList t2 ys) m =
      if ys = [] then (.ok, ofList t xs, m)
      else if (m.allocChain t ys.length 0).1 then (.ok, ofList t (LSeq.addAll xs ys).2.1, (m.allocChain t ys.length 0).2)
      else (.errAlloc, ofList t xs, (m.allocChain t ys.length 0).2) := by
  unfold addAll
  by_cases hy : ys = []
  · subst hy
    by_cases hx : xs = []
    · subst hx; simp [addAllToEmpty]
    · simp [addAllAt, length_ne_zero_of_ne_nil hx]
  by_cases hx : xs = []
  · subst hx
    rw [ofList_size, if_pos List.length_nil, addAllToEmpty_ofList ys m hy]
    simp [hy, LSeq.addAll]
  · rw [ofList_size, if_neg (length_ne_zero_of_ne_nil hx), addAllAt_ofList_in xs ys xs.length m hy (Nat.le_refl _)]
    simp [hy, LSeq.addAll]

theorem spliceAt_ofList_in (xs ys : List Nat) (i : Nat) (m : Mem) (hy : ys ≠ []) (hi : i ≤ xs.length) :
    spliceAt (ofList t xs) (ofList t2 ys) i m = (.ok, ofList t (xs.take i ++ ys ++ xs.drop i), ofList t2 [], m) := by
  have hyl := length_ne_zero_of_ne_nil hy
  unfold spliceAt
  rw [ofList_size, if_neg hyl, ofList_size, if_neg (by omega)]
  by_cases hx : xs = []
  · subst hx
    have hi0 : i = 0 := by simpa using hi
    subst hi0
    rw [if_pos List.length_nil]
    simp [ofList, hyl]
  have hxl := length_ne_zero_of_ne_nil hx
  rw [if_neg hxl]
  have hhp : (ofList t xs).head = some 0 := by simp [ofList, hxl]
  have htp : (ofList t xs).tail = some (xs.length - 1) := by simp [ofList, hxl]
  have hh2 : (ofList t2 ys).head = some 0 := by simp [ofList, hyl]
  have ht2 : (ofList t2 ys).tail = some (ys.length - 1) := by simp [ofList, hyl]
  have hpos : ∀ j, Ptr.pos (some j) = j := fun _ => rfl
  have hv2 : ys.length - 1 < ys.length := by omega
  have hv1 : xs.length - 1 < xs.length := by omega
  simp only [getNodeAt_ofList, spliceBetween, hhp, htp, hh2, ht2, hpos, ofList_nodes, ofList_size]
  by_cases he : i < xs.length
  · have hne : ((some i : Ptr) != none) = true := rfl
    have hne' : ¬ ((some i : Ptr) = none) := by simp
    simp only [he, if_true, hne, hne', if_false]
    by_cases h0 : i = 0
    · subst h0
      have hb : Ptr.prev (some 0) = none := rfl
      simp only [hb, if_true]
      congr 1; congr 1
      · apply insMany_fix xs ys 0 hx hy (by omega) _ _ _ rfl
        · simp [Ptr.offset]
        · rw [if_neg (by omega)]
      · simp [ofList_nil, Ptr.valid, Nat.pos_of_ne_zero hxl, hv2]
    · have hb : ¬ (Ptr.prev (some i) = none) := by simp [Ptr.prev, h0]
      simp only [hb, if_false]
      congr 1; congr 1
      · apply insMany_fix xs ys i hx hy (by omega) _ _ _ rfl
        · rw [if_neg h0]; rfl
        · rw [if_neg (by omega)]; rfl
      · have : i - 1 < xs.length := by omega
        simp [ofList_nil, Ptr.valid, he, Ptr.prev, h0, this, hv2, Nat.pos_of_ne_zero hyl]
  · have hie : i = xs.length := by omega
    subst hie
    simp only [Nat.lt_irrefl, if_false]
    have hne : ((none : Ptr) != none) = false := rfl
    have e1 : xs.length - 1 + 1 = xs.length := by omega
    have hb : ¬ ((some (xs.length - 1) : Ptr) = none) := by simp
    simp only [hne, Bool.false_eq_true, if_false, if_true, e1, hb, hv1]
    congr 1; congr 1
    · apply insMany_fix xs ys xs.length hx hy (by omega) _ _ _ rfl
      · rw [if_neg hxl]
      · simp [Ptr.offset]; omega
    · simp [ofList_nil, Ptr.valid, hv1, Nat.pos_of_ne_zero hyl]

/-- `cc_list_splice_at` against the ideal list -/
theorem spliceAt_ofList (xs ys : List Nat) (i : Nat) (m : Mem) :
    spliceAt (ofList t xs) (ofList t2 ys) i m =
      ((LSeq.spliceAt true xs ys i).1, ofList t (LSeq.spliceAt true xs ys i).2.1, ofList t2 (LSeq.spliceAt true xs ys i).2.2, m) := by
  by_cases hy : ys = []
  · subst hy; simp [spliceAt, LSeq.spliceAt]
  by_cases hi : i ≤ xs.length
  · rw [spliceAt_ofList_in xs ys i m hy hi]
    simp [LSeq.spliceAt, hy, hi]
  · have hyl := length_ne_zero_of_ne_nil hy
    simp [spliceAt, LSeq.spliceAt, hy, hi, hyl, Nat.lt_of_not_le hi]

/-- `cc_list_splice` against the ideal list -/
theorem splice_ofList (xs ys : List Nat) (m : Mem) :
    splice (ofList t xs) (ofList t2 ys) m =
      (.ok, ofList t (LSeq.splice xs ys).2.1, ofList t2 (if ys = [] then ys else (LSeq.splice xs ys).2.2), m) := by
  unfold splice
  rw [spliceAt_ofList]
  by_cases hy : ys = []
  · subst hy; simp [LSeq.spliceAt, LSeq.splice]
  · simp [LSeq.spliceAt, LSeq.splice, hy]
end CC.DList
