import CollectionsC.Proofs.PListBulk
/-! Pointer-level model of `cc_list.c`, part 8: the zip iterator's `add` and `remove` on two lists sharing one heap. -/
namespace CC.PList
open CC

/-- the header after a node was linked in behind `a` (`tail` moves exactly when the new node has no successor) represents the
extended list -/
theorem repr_after_insert {h h' : Heap} {l : Hdr} {pre post : List Cell} {a : Cell} (new x : Nat)
    (r : Repr h l (pre ++ a :: post)) (hf : new ∉ idsOf (pre ++ a :: post))
    (lb : Seg h' none (pre ++ a :: (new, x) :: post) none) :
    Repr h' { (if nxt post none = none then { l with tail := some new } else l) with
               size := (if nxt post none = none then { l with tail := some new } else l).size + 1 }
      (pre ++ a :: (new, x) :: post) := by
  refine ⟨?_, lb, ?_, ?_, ?_⟩
  · have := r.nodup
    simp only [idsOf_append, idsOf_cons] at this hf ⊢
    rw [List.nodup_append] at this ⊢
    refine ⟨this.1, ?_, ?_⟩
    · rw [List.nodup_cons, List.nodup_cons]
      have h2 := this.2.1
      rw [List.nodup_cons] at h2
      refine ⟨?_, ⟨fun hm => hf (List.mem_append_right _ (List.mem_cons_of_mem _ hm)), h2.2⟩⟩
      intro hm
      rcases List.mem_cons.1 hm with e | e
      · exact hf (by rw [← e]; exact List.mem_append_right _ List.mem_cons_self)
      · exact h2.1 e
    · intro u hu v hv
      rcases List.mem_cons.1 hv with e | e
      · rw [e]; exact this.2.2 u hu _ List.mem_cons_self
      · rcases List.mem_cons.1 e with e | e
        · rw [e]; intro e2; exact hf (List.mem_append_left _ (e2 ▸ hu))
        · exact this.2.2 u hu v (List.mem_cons_of_mem _ e)
  · split <;> simp [r.size] <;> omega
  · have := r.head
    have e2 : nxt (pre ++ a :: (new, x) :: post) none = nxt (pre ++ a :: post) none := by
      rw [nxt_append, nxt_append]; rfl
    rw [e2]; split <;> exact this
  · have ht := r.tail
    by_cases hp : post = []
    · subst hp
      simp only [nxt, if_true]
      rw [lastOr_append]; rfl
    · have hq : nxt post none ≠ none := by
        cases post with
        | nil => exact absurd rfl hp
        | cons c r => simp [nxt]
      simp only [hq, if_false]
      rw [ht, lastOr_append, lastOr_append]
      simp only [lastOr_cons]
      rw [lastOr_of_ne' hp (some a.1), lastOr_of_ne' hp (some new)]

theorem mem_ins {pre post : List Cell} {a : Cell} {new x b : Nat} (hb : b ∈ idsOf (pre ++ a :: (new, x) :: post)) :
    b ∈ idsOf (pre ++ a :: post) ∨ b = new := by
  simp only [idsOf_append, idsOf_cons, List.mem_append, List.mem_cons] at hb ⊢
  rcases hb with h | h | h | h
  · exact Or.inl (Or.inl h)
  · exact Or.inl (Or.inr (Or.inl h))
  · exact Or.inr h
  · exact Or.inl (Or.inr (Or.inr h))

/-- **`cc_list_zip_iter_add`** with `l1_last`/`l2_last` the nodes `a1`/`a2` of two lists on one heap: refused at the first
node — nothing happened; refused at the second — the first block goes back through the first list's triple and nothing else
happened; granted — each list gets its fresh node directly behind its `last`, both stay represented and disjoint, every
other node keeps identity and place -/
theorem zipAddAt_spec (s : St) (l1 l2 : Hdr) (pre1 post1 pre2 post2 : List Cell) (a1 a2 : Cell) (x1 x2 : Nat) (m : Mem)
    (r : Repr2 s.heap l1 l2 (pre1 ++ a1 :: post1) (pre2 ++ a2 :: post2))
    (hb1 : ∀ y, y ∈ idsOf (pre1 ++ a1 :: post1) → y < s.fresh) (hb2 : ∀ y, y ∈ idsOf (pre2 ++ a2 :: post2) → y < s.fresh) :
    ((m.allocT l1.triple).1 = false → zipAddAt s l1 l2 a1.1 a2.1 x1 x2 m = (.errAlloc, s, l1, l2, (m.allocT l1.triple).2)) ∧
    ((m.allocT l1.triple).1 = true → ((m.allocT l1.triple).2.allocT l2.triple).1 = false →
      zipAddAt s l1 l2 a1.1 a2.1 x1 x2 m = (.errAlloc, s, l1, l2, ((m.allocT l1.triple).2.allocT l2.triple).2.freeT l1.triple)) ∧
    ((m.allocT l1.triple).1 = true → ((m.allocT l1.triple).2.allocT l2.triple).1 = true →
      (zipAddAt s l1 l2 a1.1 a2.1 x1 x2 m).1 = .ok ∧
      (zipAddAt s l1 l2 a1.1 a2.1 x1 x2 m).2.2.2.2 = ((m.allocT l1.triple).2.allocT l2.triple).2 ∧
      Repr2 (zipAddAt s l1 l2 a1.1 a2.1 x1 x2 m).2.1.heap (zipAddAt s l1 l2 a1.1 a2.1 x1 x2 m).2.2.1
        (zipAddAt s l1 l2 a1.1 a2.1 x1 x2 m).2.2.2.1
        (pre1 ++ a1 :: (s.fresh, x1) :: post1) (pre2 ++ a2 :: (s.fresh + 1, x2) :: post2) ∧
      (zipAddAt s l1 l2 a1.1 a2.1 x1 x2 m).2.2.1.triple = l1.triple ∧ (zipAddAt s l1 l2 a1.1 a2.1 x1 x2 m).2.2.2.1.triple = l2.triple ∧
      (zipAddAt s l1 l2 a1.1 a2.1 x1 x2 m).2.1.fresh = s.fresh + 2 ∧
      (∀ b, b ∉ idsOf (pre1 ++ a1 :: post1) → b ∉ idsOf (pre2 ++ a2 :: post2) → b < s.fresh →
        (zipAddAt s l1 l2 a1.1 a2.1 x1 x2 m).2.1.heap b = s.heap b)) := by
  unfold zipAddAt
  refine ⟨fun h1 => by simp [h1], fun h1 h2 => by simp [h1, h2], fun h1 h2 => ?_⟩
  have hl1 : (s.heap a1.1).isSome = true := Seg_live r.r1.seg a1.1 (by simp)
  have hl2 : (s.heap a2.1).isSome = true := Seg_live r.r2.seg a2.1 (by simp)
  simp only [h1, h2, Bool.not_true, Bool.false_eq_true, if_false, show s.alloc.1 = s.fresh from rfl,
    show s.alloc.2.alloc.1 = s.fresh + 1 from rfl, live_some, hl1, hl2, Bool.and_self, Mem.check_true]
  -- the heap after the two allocations and initialisations
  have hne : s.fresh ≠ s.fresh + 1 := by omega
  have h0a : (setData (setData s.alloc.2.alloc.2.heap s.fresh x1) (s.fresh + 1) x2) s.fresh = some ⟨x1, none, none⟩ := by
    rw [setData, upd_ne _ _ _ _ hne, setData, upd_eq]
    show (fun n : PNode => { n with data := x1 }) <$> (if s.fresh = s.fresh + 1 then some {} else (if s.fresh = s.fresh then some {} else s.heap s.fresh)) = _
    rw [if_neg hne, if_pos rfl]; rfl
  have h0b : (setData (setData s.alloc.2.alloc.2.heap s.fresh x1) (s.fresh + 1) x2) (s.fresh + 1) = some ⟨x2, none, none⟩ := by
    rw [setData, upd_eq, setData, upd_ne _ _ _ _ (Ne.symm hne)]
    show (fun n : PNode => { n with data := x2 }) <$> (if s.fresh + 1 = s.fresh + 1 then some {} else _) = _
    rw [if_pos rfl]; rfl
  have h0c : ∀ b, b < s.fresh → (setData (setData s.alloc.2.alloc.2.heap s.fresh x1) (s.fresh + 1) x2) b = s.heap b := by
    intro b hb
    rw [setData, upd_ne _ _ _ _ (by omega), setData, upd_ne _ _ _ _ (by omega)]
    show (if b = s.fresh + 1 then some {} else (if b = s.fresh then some {} else s.heap b)) = _
    rw [if_neg (by omega), if_neg (by omega)]
  have hf1 : s.fresh ∉ idsOf (pre1 ++ a1 :: post1) := fresh_notin hb1
  have hf2 : s.fresh + 1 ∉ idsOf (pre2 ++ a2 :: post2) := fun hm => by have := hb2 _ hm; omega
  have hf12 : s.fresh ∉ idsOf (pre2 ++ a2 :: post2) := fresh_notin hb2
  have hf21 : s.fresh + 1 ∉ idsOf (pre1 ++ a1 :: post1) := fun hm => by have := hb1 _ hm; omega
  have sg1 : Seg (setData (setData s.alloc.2.alloc.2.heap s.fresh x1) (s.fresh + 1) x2) none (pre1 ++ a1 :: post1) none :=
    Seg_frame (fun b hb => h0c b (hb1 b hb)) r.r1.seg
  have sg2 : Seg (setData (setData s.alloc.2.alloc.2.heap s.fresh x1) (s.fresh + 1) x2) none (pre2 ++ a2 :: post2) none :=
    Seg_frame (fun b hb => h0c b (hb2 b hb)) r.r2.seg
  obtain ⟨la, lfa⟩ := linkAfter_fresh s.fresh x1 sg1 r.r1.nodup hf1 h0a
  -- the second list and the second fresh node are untouched by the first insertion
  have sg2a := Seg_frame (fun b hb => lfa b (fun hm => r.disj b hm hb) (fun e => hf12 (e ▸ hb))) sg2
  have hxa := (lfa (s.fresh + 1) hf21 (Ne.symm hne)).trans h0b
  obtain ⟨lbb, lfb⟩ := linkAfter_fresh (s.fresh + 1) x2 sg2a r.r2.nodup hf2 hxa
  -- the first list after the second insertion
  have la' := Seg_frame (fun b hb => lfb b (fun hm => by
      rcases mem_ins hb with h | h
      · exact r.disj b h hm
      · exact hf12 (h ▸ hm)) (fun e => by
      rcases mem_ins hb with h | h
      · exact hf21 (e ▸ h)
      · omega)) la
  have hn1 : (nd (linkAfter (linkAfter (setData (setData s.alloc.2.alloc.2.heap s.fresh x1) (s.fresh + 1) x2) a1.1 s.fresh) a2.1 (s.fresh + 1)) s.fresh).next
      = nxt post1 none := by
    have lb' := la'
    rw [show pre1 ++ a1 :: (s.fresh, x1) :: post1 = (pre1 ++ [a1]) ++ (s.fresh, x1) :: post1 by simp] at lb'
    rw [nd_of (Seg_split lb').2.1]
  have hn2 : (nd (linkAfter (linkAfter (setData (setData s.alloc.2.alloc.2.heap s.fresh x1) (s.fresh + 1) x2) a1.1 s.fresh) a2.1 (s.fresh + 1)) (s.fresh + 1)).next
      = nxt post2 none := by
    have lb' := lbb
    rw [show pre2 ++ a2 :: (s.fresh + 1, x2) :: post2 = (pre2 ++ [a2]) ++ (s.fresh + 1, x2) :: post2 by simp] at lb'
    rw [nd_of (Seg_split lb').2.1]
  rw [hn1, hn2]
  refine ⟨by first | trivial | rfl, by first | trivial | rfl, ⟨repr_after_insert (h := s.heap) s.fresh x1 r.r1 hf1 la',
    repr_after_insert (h := s.heap) (s.fresh + 1) x2 r.r2 hf2 lbb, fun b hb hm => ?_⟩, by split <;> rfl, by split <;> rfl, rfl, fun b n1 n2 hlt => ?_⟩
  · rcases mem_ins hb with h | h <;> rcases mem_ins hm with h' | h'
    · exact r.disj b h h'
    · exact hf21 (h' ▸ h)
    · exact hf12 (h ▸ h')
    · omega
  · rw [lfb b n2 (by omega), lfa b n1 (by omega)]
    exact h0c b hlt

/-- **`cc_list_zip_iter_remove`**: `unlinkn` on `l1_last` in the first list, then on `l2_last` in the second: exactly these two
nodes leave their chains, both lists stay represented and disjoint -/
theorem zipRemove_spec (s : St) (l1 l2 : Hdr) (pre1 post1 pre2 post2 : List Cell) (a1 a2 : Cell) (m : Mem)
    (r : Repr2 s.heap l1 l2 (pre1 ++ a1 :: post1) (pre2 ++ a2 :: post2))
    (hb1 : ∀ y, y ∈ idsOf (pre1 ++ a1 :: post1) → y < s.fresh) (hb2 : ∀ y, y ∈ idsOf (pre2 ++ a2 :: post2) → y < s.fresh) :
    (unlinkn s l1 a1.1 m).1 = a1.2 ∧
    (unlinkn (unlinkn s l1 a1.1 m).2.1 l2 a2.1 (unlinkn s l1 a1.1 m).2.2.2).1 = a2.2 ∧
    (unlinkn (unlinkn s l1 a1.1 m).2.1 l2 a2.1 (unlinkn s l1 a1.1 m).2.2.2).2.2.2 = (m.freeT l1.triple).freeT l2.triple ∧
    Repr2 (unlinkn (unlinkn s l1 a1.1 m).2.1 l2 a2.1 (unlinkn s l1 a1.1 m).2.2.2).2.1.heap (unlinkn s l1 a1.1 m).2.2.1
      (unlinkn (unlinkn s l1 a1.1 m).2.1 l2 a2.1 (unlinkn s l1 a1.1 m).2.2.2).2.2.1 (pre1 ++ post1) (pre2 ++ post2) := by
  obtain ⟨u1, u2, uk⟩ := unlinkn_spec s l1 pre1 post1 a1 m r.r1 hb1
  have r2' : Repr (unlinkn s l1 a1.1 m).2.1.heap l2 (pre2 ++ a2 :: post2) :=
    ⟨r.r2.nodup, Seg_frame (fun b hb => uk.frame b (fun hm => r.disj b hm hb) (hb2 b hb)) r.r2.seg, r.r2.size, r.r2.head, r.r2.tail⟩
  obtain ⟨v1, v2, vk⟩ := unlinkn_spec (unlinkn s l1 a1.1 m).2.1 l2 pre2 post2 a2 (unlinkn s l1 a1.1 m).2.2.2 r2'
    (fun y hy => Nat.lt_of_lt_of_le (hb2 y hy) uk.mono)
  have hsub1 : ∀ b, b ∈ idsOf (pre1 ++ post1) → b ∈ idsOf (pre1 ++ a1 :: post1) := by
    intro b hb
    simp only [idsOf_append, idsOf_cons, List.mem_append, List.mem_cons] at hb ⊢
    rcases hb with h | h
    · exact Or.inl h
    · exact Or.inr (Or.inr h)
  have hsub2 : ∀ b, b ∈ idsOf (pre2 ++ post2) → b ∈ idsOf (pre2 ++ a2 :: post2) := by
    intro b hb
    simp only [idsOf_append, idsOf_cons, List.mem_append, List.mem_cons] at hb ⊢
    rcases hb with h | h
    · exact Or.inl h
    · exact Or.inr (Or.inr h)
  refine ⟨u1, v1, by rw [v2, u2], ⟨?_, vk.repr, fun b hb hm => r.disj b (hsub1 b hb) (hsub2 b hm)⟩⟩
  exact ⟨uk.repr.nodup, Seg_frame (fun b hb => vk.frame b (fun hm => r.disj b (hsub1 b hb) hm) (uk.bound b hb)) uk.repr.seg,
    uk.repr.size, uk.repr.head, uk.repr.tail⟩

end CC.PList
