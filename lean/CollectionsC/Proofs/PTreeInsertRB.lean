import CollectionsC.Proofs.PTreeInsertLoop
import CollectionsC.Proofs.TreeTableInfra
set_option linter.unusedSimpArgs false
set_option linter.unusedVariables false
namespace CC.PTree
open CC
open CC.Tree (Path Dir)

/-- **the fix-up loop restores the red-black rules**: started at a red node `z` such that the rules hold
everywhere except at the node above `z` (which may be red too — `Tree.Infra` at that position), the loop
ends in a heap representing a tree with the same nodes and in-order list in which the only possible
exception is a red root with one red child (`RBinfra`) -/
theorem rebalInsertLoop_rb (f : Nat) : ∀ (st : PT) (T : ITree) (q : Path) (z : Nat) (zl : ITree) (zk zv : Nat)
    (zr : ITree), Represents st T → T.subtree q = .node z .red zl zk zv zr → (q = [] ∨ T.col = .black) →
    Tree.Infra T.erase q.dropLast → q.length ≤ f →
    ∃ T', Represents (rebalInsertLoop f st z) T' ∧ T'.erase.toList = T.erase.toList ∧ T'.ids.Perm T.ids ∧
      Tree.RBinfra T'.erase := by
  induction f with
  | zero =>
    intro st T q z zl zk zv zr h _ _ hI hl
    have : q = [] := by cases q with
                        | nil => rfl
                        | cons a b => simp at hl
    subst this
    exact ⟨T, h, rfl, List.Perm.refl _, by simpa [Tree.Infra] using hI⟩
  | succ f ih =>
    intro st T q z zl zk zv zr h hz hroot hI hlen
    obtain ⟨rz, z0⟩ := h.get_at q hz
    by_cases hq2 : 2 ≤ q.length
    · obtain ⟨g, d1, d2, rfl⟩ := path_two q hq2
      obtain ⟨gi, cg, A, kg, vg, B, p, cp, pl, pk, pv, pr, hg, hp, hzp⟩ := ITree.subtree_two T g d1 d2 hz
      have hne : T.subtree g ≠ .nil := by rw [hg]; simp
      have hAt := At.of_represents h g hne
      rw [hg] at hAt
      have hTcol : T.col = .black := by rcases hroot with h0 | h0; · simp at h0
                                        · exact h0
      have hlen' : g.length ≤ f := by simp at hlen; omega
      have hIq : Tree.Infra T.erase (g ++ [d1]) := by
        have e : (g ++ [d1, d2]).dropLast = g ++ [d1] := by
          rw [show g ++ [d1, d2] = (g ++ [d1]) ++ [d2] by simp, List.dropLast_concat]
        rwa [e] at hI
      have hpsub : Tree.subtree T.erase (g ++ [d1]) = (ITree.node p cp pl pk pv pr).erase := by
        rw [← ITree.erase_subtree, ITree.subtree_append, hg, hp]
      -- the parent's colour
      have rp := (hAt.get [d1] hp).1
      have hzpar : (st.heap.get z).parent = p := by
        have := (hAt.get [d1, d2] (by rw [show [d1, d2] = [d1] ++ [d2] from rfl, ITree.subtree_append, hp]; exact hzp)).1
        rw [this]; simp [List.dropLast, hp]
      by_cases hcp : cp = .red
      · subst hcp
        have FS := Tree.fix_step g d1 hIq (by rw [hpsub]; rfl)
        rw [← ITree.erase_subtree, hg] at FS
        have hsibs : pl.col = .black ∨ pr.col = .black := by
          have := Tree.Infra_sub hIq
          rw [hpsub] at this
          simp only [ITree.erase, Tree.RBinfra] at this
          simpa [ITree.erase_col] using this.2.2.2
        have hzc : pl.col = .red ∨ pr.col = .red := by
          cases d2 <;> simp at hzp <;> simp [hzp]
        -- finishing a terminal case
        have fin : ∀ (st' : PT) (z' : Nat) (G' : ITree), rebalInsertLoop (f + 1) st z = rebalInsertLoop f st' z' →
            At st' T g G' → rebalInsertLoop f st' z' = st' →
            G'.erase.toList = (ITree.node gi cg A kg vg B).erase.toList →
            G'.ids.Perm (ITree.node gi cg A kg vg B).ids →
            G'.erase = Tree.fixAt d1 (ITree.node gi cg A kg vg B).erase → G'.col = .black →
            ∃ T', Represents (rebalInsertLoop (f + 1) st z) T' ∧ T'.erase.toList = T.erase.toList ∧
              T'.ids.Perm T.ids ∧ Tree.RBinfra T'.erase := by
          intro st' z' G' e1 hA e2 hl hp' he hcb
          rw [e1, e2]
          have := ITree.replace_facts T g G' hne (by rw [hg]; exact hl) (by rw [hg]; exact hp')
          refine ⟨_, hA.rep, this.1, this.2.1, ?_⟩
          rw [ITree.erase_replace, he]
          exact (FS.2.2.2.2 (by rw [← he, ITree.erase_col]; exact hcb)).infra
        -- continuing after case 1
        have cont : ∀ (st' : PT) (G' : ITree) (a b : ITree), rebalInsertLoop (f + 1) st z = rebalInsertLoop f st' gi →
            At st' T g G' → G' = .node gi .red a kg vg b →
            G'.erase.toList = (ITree.node gi cg A kg vg B).erase.toList →
            G'.ids.Perm (ITree.node gi cg A kg vg B).ids →
            G'.erase = Tree.fixAt d1 (ITree.node gi cg A kg vg B).erase →
            ∃ T', Represents (rebalInsertLoop (f + 1) st z) T' ∧ T'.erase.toList = T.erase.toList ∧
              T'.ids.Perm T.ids ∧ Tree.RBinfra T'.erase := by
          intro st' G' a b e1 hA hG' hl hp' he
          have facts := ITree.replace_facts T g G' hne (by rw [hg]; exact hl) (by rw [hg]; exact hp')
          have hsub : (T.replace g G').subtree g = .node gi .red a kg vg b := by
            rw [ITree.subtree_replace T g G' hne, hG']
          have hr' : g = [] ∨ (T.replace g G').col = .black := by
            by_cases hg0 : g = []
            · exact Or.inl hg0
            · exact Or.inr (by rw [facts.2.2 hg0]; exact hTcol)
          have hI' : Tree.Infra (T.replace g G').erase g.dropLast := by
            rw [ITree.erase_replace, he]; exact FS.1
          obtain ⟨T', r1, r2, r3, r4⟩ := ih st' (T.replace g G') g gi a kg vg b hA.rep hsub hr' hI' hlen'
          rw [e1]
          exact ⟨T', r1, r2.trans facts.1, r3.trans facts.2.1, r4⟩
        cases d1 with
        | L =>
          simp only [ITree.subtree_L, ITree.subtree_root] at hp
          subst hp
          -- the uncle
          rcases hB : B with _ | ⟨yi, _ | _, yl, yk, yv, yr⟩
          all_goals rw [hB] at hAt
          · cases d2 with
            | L =>
              simp only [ITree.subtree_L, ITree.subtree_root] at hzp; subst hzp
              obtain ⟨st', e1, hA⟩ := insert_step_L_case3 hAt rfl
              exact fin st' z _ (e1 f) hA (stop_after hA f rfl .L rfl) (by rw [hB]; tl_eq) (by rw [hB]; ids_perm)
                (by rw [hB]; exact (congrArg ITree.erase (ITree.fixInsLeft_case3 gi cg _ _ _ _ _ _ _ _ _ _ _ _ rfl)).symm.trans (ITree.erase_fixInsLeft _)) rfl
            | R =>
              simp only [ITree.subtree_R, ITree.subtree_root] at hzp; subst hzp
              obtain ⟨st', e1, hA⟩ := insert_step_L_case2 hAt rfl
              exact fin st' p _ (e1 f) hA (stop_after hA f rfl .L rfl) (by rw [hB]; tl_eq) (by rw [hB]; ids_perm)
                (by rw [hB]; exact (congrArg ITree.erase (ITree.fixInsLeft_case2 gi cg _ _ _ _ _ _ _ _ _ _ _ _ rfl (hsibs.resolve_right (by simp)))).symm.trans (ITree.erase_fixInsLeft _)) rfl
          · obtain ⟨st', e1, hA⟩ := insert_step_L_case1 hAt d2 hzp
            exact cont st' _ _ _ (e1 f) hA rfl (by rw [hB]; tl_eq) (by rw [hB]; first | exact List.Perm.refl _ | ids_perm)
              (by rw [hB]; exact (congrArg ITree.erase (ITree.fixInsLeft_case1 gi cg _ _ _ _ _ _ _ _ _ _ _ _ hzc)).symm.trans (ITree.erase_fixInsLeft _))
          · cases d2 with
            | L =>
              simp only [ITree.subtree_L, ITree.subtree_root] at hzp; subst hzp
              obtain ⟨st', e1, hA⟩ := insert_step_L_case3 hAt rfl
              exact fin st' z _ (e1 f) hA (stop_after hA f rfl .L rfl) (by rw [hB]; tl_eq) (by rw [hB]; ids_perm)
                (by rw [hB]; exact (congrArg ITree.erase (ITree.fixInsLeft_case3 gi cg _ _ _ _ _ _ _ _ _ _ _ _ rfl)).symm.trans (ITree.erase_fixInsLeft _)) rfl
            | R =>
              simp only [ITree.subtree_R, ITree.subtree_root] at hzp; subst hzp
              obtain ⟨st', e1, hA⟩ := insert_step_L_case2 hAt rfl
              exact fin st' p _ (e1 f) hA (stop_after hA f rfl .L rfl) (by rw [hB]; tl_eq) (by rw [hB]; ids_perm)
                (by rw [hB]; exact (congrArg ITree.erase (ITree.fixInsLeft_case2 gi cg _ _ _ _ _ _ _ _ _ _ _ _ rfl (hsibs.resolve_right (by simp)))).symm.trans (ITree.erase_fixInsLeft _)) rfl
        | R =>
          simp only [ITree.subtree_R, ITree.subtree_root] at hp
          subst hp
          -- the uncle
          rcases hB : A with _ | ⟨yi, _ | _, yl, yk, yv, yr⟩
          all_goals rw [hB] at hAt
          · cases d2 with
            | R =>
              simp only [ITree.subtree_R, ITree.subtree_root] at hzp; subst hzp
              obtain ⟨st', e1, hA⟩ := insert_step_R_case3 hAt rfl
              exact fin st' z _ (e1 f) hA (stop_after hA f rfl .R rfl) (by rw [hB]; tl_eq) (by rw [hB]; ids_perm)
                (by rw [hB]; exact (congrArg ITree.erase (ITree.fixInsRight_case3 gi cg _ _ _ _ _ _ _ _ _ _ _ _ rfl)).symm.trans (ITree.erase_fixInsRight _)) rfl
            | L =>
              simp only [ITree.subtree_L, ITree.subtree_root] at hzp; subst hzp
              obtain ⟨st', e1, hA⟩ := insert_step_R_case2 hAt rfl
              exact fin st' p _ (e1 f) hA (stop_after hA f rfl .R rfl) (by rw [hB]; tl_eq) (by rw [hB]; ids_perm)
                (by rw [hB]; exact (congrArg ITree.erase (ITree.fixInsRight_case2 gi cg _ _ _ _ _ _ _ _ _ _ _ _ rfl (hsibs.resolve_left (by simp)))).symm.trans (ITree.erase_fixInsRight _)) rfl
          · obtain ⟨st', e1, hA⟩ := insert_step_R_case1 hAt d2 hzp
            exact cont st' _ _ _ (e1 f) hA rfl (by rw [hB]; tl_eq) (by rw [hB]; first | exact List.Perm.refl _ | ids_perm)
              (by rw [hB]; exact (congrArg ITree.erase (ITree.fixInsRight_case1 gi cg _ _ _ _ _ _ _ _ _ _ _ _ hzc)).symm.trans (ITree.erase_fixInsRight _))
          · cases d2 with
            | R =>
              simp only [ITree.subtree_R, ITree.subtree_root] at hzp; subst hzp
              obtain ⟨st', e1, hA⟩ := insert_step_R_case3 hAt rfl
              exact fin st' z _ (e1 f) hA (stop_after hA f rfl .R rfl) (by rw [hB]; tl_eq) (by rw [hB]; ids_perm)
                (by rw [hB]; exact (congrArg ITree.erase (ITree.fixInsRight_case3 gi cg _ _ _ _ _ _ _ _ _ _ _ _ rfl)).symm.trans (ITree.erase_fixInsRight _)) rfl
            | L =>
              simp only [ITree.subtree_L, ITree.subtree_root] at hzp; subst hzp
              obtain ⟨st', e1, hA⟩ := insert_step_R_case2 hAt rfl
              exact fin st' p _ (e1 f) hA (stop_after hA f rfl .R rfl) (by rw [hB]; tl_eq) (by rw [hB]; ids_perm)
                (by rw [hB]; exact (congrArg ITree.erase (ITree.fixInsRight_case2 gi cg _ _ _ _ _ _ _ _ _ _ _ _ rfl (hsibs.resolve_left (by simp)))).symm.trans (ITree.erase_fixInsRight _)) rfl
      · -- black parent: the loop stops
        have : rebalInsertLoop (f + 1) st z = st :=
          insert_loop_stop st z (f + 1) (by rw [hzpar, rp]; exact hcp)
        rw [this]
        refine ⟨T, h, rfl, List.Perm.refl _, (Tree.Infra_black hIq ?_).infra⟩
        rw [hpsub]; show cp = .black
        cases cp with
        | red => exact absurd rfl hcp
        | black => rfl
    · -- `z` is the root or a child of the (black) root: the parent is not red
      have hstop : (st.heap.get (st.heap.get z).parent).color ≠ .red := by
        rw [rz]
        rcases path_cases q with h0 | ⟨q1, d, rfl⟩
        · subst h0; simp only [parentAt, if_true]; rw [h.black]; simp
        · have hq1 : q1 = [] := by
            cases q1 with
            | nil => rfl
            | cons e q1' => simp at hq2
          subst hq1
          have hTcol : T.col = .black := by rcases hroot with h0 | h0; · simp at h0
                                            · exact h0
          cases T with
          | nil => simp at hz
          | node r c l k v rr =>
            have := (h.get_at [] (ITree.subtree_root _)).1
            simp only [ITree.col_node] at hTcol
            simp only [parentAt, List.nil_append, List.cons_ne_nil, if_false, List.dropLast, ITree.subtree_root,
              ITree.rid_node, this, hTcol]; simp
      rw [insert_loop_stop st z (f + 1) hstop]
      refine ⟨T, h, rfl, List.Perm.refl _, ?_⟩
      rcases path_cases q with h0 | ⟨q1, d, rfl⟩
      · subst h0; simpa [Tree.Infra] using hI
      · have hq1 : q1 = [] := by
          cases q1 with
          | nil => rfl
          | cons e q1' => simp at hq2
        subst hq1
        simpa [Tree.Infra] using hI
end CC.PTree

namespace CC.PTree
open CC
open CC.Tree (Path Dir)

/-- **`rebalance_after_insert(table, z)` restores the red-black rules** (the loop and the final
`root->color = BLACK`): same nodes, same in-order list, `RB` (rules and black root) -/
theorem rebalanceAfterInsert_rb (st : PT) (T : ITree) (q : Path) (z : Nat) (zl : ITree) (zk zv : Nat) (zr : ITree)
    (h : Represents st T) (hz : T.subtree q = .node z .red zl zk zv zr) (hroot : q = [] ∨ T.col = .black)
    (hI : Tree.Infra T.erase q.dropLast) (hf : q.length ≤ st.size + 2) :
    ∃ T', Represents (rebalanceAfterInsert st z) T' ∧ T'.erase.toList = T.erase.toList ∧ T'.ids.Perm T.ids ∧
      Tree.RB T'.erase := by
  obtain ⟨T1, r1, r2, r3, r4⟩ := rebalInsertLoop_rb (st.size + 2) st T q z zl zk zv zr h hz hroot hI hf
  unfold rebalanceAfterInsert
  generalize rebalInsertLoop (st.size + 2) st z = st1 at r1
  cases T1 with
  | nil =>
    have : z ∈ ITree.ids ITree.nil := r3.symm.subset (ITree.ids_subtree_subset T q z (by rw [hz]; simp))
    simp at this
  | node r c l k v rr =>
    have hs : (ITree.node r c l k v rr).subtree [] = .node r c l k v rr := ITree.subtree_root _
    have := setColor_represents r1 [] hs .black
    have hr : st1.root = r := r1.root
    dsimp only
    rw [hr]
    rw [hr] at this
    simp only [ITree.replace_root] at this
    refine ⟨.node r .black l k v rr, this, ?_, (List.Perm.refl _).trans r3, ?_⟩
    · rw [← r2]; simp [ITree.erase, Tree.toList]
    · exact Tree.RBok_blacken r4
end CC.PTree
