import CollectionsC.Proofs.DequeRemoveAt
import CollectionsC.Proofs.DequeBits
/-! Constructor/destructor, `trim_capacity`, copies, `reverse`, searches, `filter_mut`, `filter`. -/
namespace CC.Deque
open CC

/-! ## constructor, destructor -/

/-- two successful allocator calls through `t`: two more blocks -/
theorem alloc2_ok (t : Triple) (m : Mem) (h1 : (m.allocT t).1 = true) (h2 : ((m.allocT t).2.allocT t).1 = true) :
    memRel t 2 ((m.allocT t).2.allocT t).2 m := by
  have := memRel_trans (allocT_ok t _ h2) (allocT_ok t m h1)
  simpa using this

/-- first call succeeds, second is refused, first block released again: balanced -/
theorem alloc_refused2_same (t : Triple) (m : Mem) (h1 : (m.allocT t).1 = true)
    (h2 : ((m.allocT t).2.allocT t).1 = false) : memSame t (((m.allocT t).2.allocT t).2.freeT t) m := by
  have a1 := allocT_ok t m h1
  have a2 := (allocT_refused t _ h2).1
  have a12 : memRel t 1 ((m.allocT t).2.allocT t).2 m := memRel_same a2 a1
  have f := freeT_ok t ((m.allocT t).2.allocT t).2 (by have := a12.1; omega)
  exact memD_norm (k := 0) (j := 1) (by simpa using memD_trans f a12)

/-- `cc_deque_new_conf` for **every** configured capacity (power of two or not, zero included) and either
triple: either an empty deque satisfying the invariant whose capacity is `upper_pow_two(configured)`, which
carries the triple it was built with and owns two more blocks on it — or `CC_ERR_ALLOC`, no object and a
balanced ledger -/
theorem new_spec (confCap : Nat) (t : Triple) (m : Mem) :
    ((Deque.new confCap t m).1 = .ok ∧ ∃ d, (Deque.new confCap t m).2.1 = some d ∧ d.Inv ∧ d.abs = [] ∧
      d.cap = upperPow2 confCap ∧ d.triple = t ∧ memRel t 2 (Deque.new confCap t m).2.2 m ∧
      (m.allocT t).1 = true ∧ ((m.allocT t).2.allocT t).1 = true) ∨
    ((Deque.new confCap t m).1 = .errAlloc ∧ (Deque.new confCap t m).2.1 = none ∧
      memSame t (Deque.new confCap t m).2.2 m ∧
      ((m.allocT t).1 = false ∨ ((m.allocT t).2.allocT t).1 = false)) := by
  cases h1 : (m.allocT t).1
  · right
    have : Deque.new confCap t m = (.errAlloc, none, (m.allocT t).2) := by simp [Deque.new, h1]
    rw [this]
    exact ⟨rfl, rfl, (allocT_refused t m h1).1, Or.inl rfl⟩
  · cases h2 : ((m.allocT t).2.allocT t).1
    · right
      have : Deque.new confCap t m = (.errAlloc, none, ((m.allocT t).2.allocT t).2.freeT t) := by
        simp [Deque.new, h1, h2]
      rw [this]
      exact ⟨rfl, rfl, alloc_refused2_same t m h1 h2, Or.inr rfl⟩
    · left
      have : Deque.new confCap t m = (.ok, some (Deque.mk 0 (upperPow2 confCap) 0 0 (Buf.mk (upperPow2 confCap)) t),
          ((m.allocT t).2.allocT t).2) := by simp [Deque.new, h1, h2]
      rw [this]
      refine ⟨rfl, _, rfl, ⟨(upperPow2_inv confCap).1, (upperPow2_inv confCap).2, by simp, upperPow2_pos confCap, ?_, Nat.zero_le _⟩,
        by simp [abs], rfl, rfl, alloc2_ok t m h1 h2, rfl, rfl⟩
      simp

/-- `cc_deque_destroy` releases exactly the two blocks a deque owns, through the deque's own triple -/
theorem destroy_ledger (d : Deque) (m : Mem) (h : 2 ≤ liveOf d.triple m) : memD d.triple 0 2 (d.destroy m) m := by
  unfold destroy
  have f1 := freeT_ok d.triple m (by omega)
  have f2 := freeT_ok d.triple (m.freeT d.triple) (by have := f1.1; omega)
  simpa using memD_trans f2 f1

/-! ## `trim_capacity` -/

/-- a power-of-two capacity that equals the size is already `upper_pow_two(size)` -/
theorem upperPow2_of_full (d : Deque) (hi : d.Inv) (h : d.cap = d.size) : upperPow2 d.size = d.cap := by
  have h1 := upperPow2_ge d.size (by rw [← h]; exact hi.2.1)
  have h2 := upperPow2_least d.size d.cap.log2 (by rw [← hi.1, h]; exact Nat.le_refl _)
  rw [← hi.1] at h2
  omega

/-- **`cc_deque_trim_capacity`** (C20): either OK — content unchanged, the capacity becomes
`upper_pow_two(size)` (never below the size, never above the old capacity), invariant kept, ledger
balanced — or `CC_ERR_ALLOC` with the whole state unchanged -/
theorem trimCapacity_spec (d : Deque) (m : Mem) (hi : d.Inv) :
    ((d.trimCapacity m).1 = .ok ∧ (d.trimCapacity m).2.1.Inv ∧ (d.trimCapacity m).2.1.abs = d.abs ∧
      memSame d.triple (d.trimCapacity m).2.2 m ∧ (d.trimCapacity m).2.1.cap = upperPow2 d.size ∧
      d.size ≤ (d.trimCapacity m).2.1.cap ∧ (d.trimCapacity m).2.1.cap ≤ d.cap) ∨
    ((d.trimCapacity m).1 = .errAlloc ∧ (d.trimCapacity m).2.1 = d ∧ memSame d.triple (d.trimCapacity m).2.2 m ∧
      (m.allocT d.triple).1 = false ∧ upperPow2 d.size ≠ d.cap) := by
  have hi' := hi
  obtain ⟨hpw, hmax, hl, hf, hla, hsz⟩ := hi
  have hge := upperPow2_ge d.size (by omega)
  have hle : upperPow2 d.size ≤ d.cap := by
    have := upperPow2_least d.size d.cap.log2 (by rw [← hpw]; exact hsz)
    rw [← hpw] at this; exact this
  by_cases hfull : d.cap = d.size
  · left
    have : d.trimCapacity m = (.ok, d, m) := by simp [trimCapacity, hfull]
    rw [this]
    exact ⟨rfl, hi', rfl, memSame_refl _ m, (upperPow2_of_full d hi' hfull).symm, by simp only; omega, Nat.le_refl _⟩
  by_cases hsame : upperPow2 d.size = d.cap
  · left
    have : d.trimCapacity m = (.ok, d, m) := by simp [trimCapacity, hfull, hsame]
    rw [this]
    exact ⟨rfl, hi', rfl, memSame_refl _ m, hsame.symm, hsz, Nat.le_refl _⟩
  cases ha : (m.allocT d.triple).1
  · right
    have : d.trimCapacity m = (.errAlloc, d, (m.allocT d.triple).2) := by simp [trimCapacity, hfull, hsame, ha]
    rw [this]
    exact ⟨rfl, rfl, (allocT_refused _ m ha).1, rfl, hsame⟩
  · left
    have : d.trimCapacity m = (.ok, Deque.mk d.size (upperPow2 d.size) 0 (d.size % upperPow2 d.size)
        (d.copyBuffer (Buf.mk (upperPow2 d.size)) none (m.allocT d.triple).2).1 d.triple,
        (d.copyBuffer (Buf.mk (upperPow2 d.size)) none (m.allocT d.triple).2).2.freeT d.triple) := by
      simp [trimCapacity, hfull, hsame, ha]
    rw [this]
    obtain ⟨b1, b2, b3, _⟩ := copyBuffer_none d (Buf.mk (upperPow2 d.size)) (m.allocT d.triple).2 hi' (by simpa using hge)
    have hp := upperPow2_pos d.size
    refine ⟨rfl, ⟨(upperPow2_inv d.size).1, (upperPow2_inv d.size).2, by simp [b1], hp, by simp, hge⟩, ?_, ?_,
      rfl, hge, hle⟩
    · apply abs_congr
      · rfl
      · intro i hi
        simp only [Nat.zero_add]
        rw [Nat.mod_eq_of_lt (by omega)]
        exact b3 i hi
    · simp only [b2]; exact alloc_free_same _ m ha

/-! ## copies -/

/-- **`cc_deque_copy_shallow` / `cc_deque_copy_deep`** (C15): either a new deque that satisfies the
invariant, has the source's capacity **and the source's allocator triple** (so it can be used and grown
like any deque) and holds exactly the source's elements in order (their images under the copy function for
a deep copy), two more blocks owned through that triple; or `CC_ERR_ALLOC`, no object and a balanced
ledger.  The source is not an output of the model function. -/
theorem copy_spec (d : Deque) (cp : Option (Nat → Nat)) (m : Mem) (hi : d.Inv) :
    ((d.copy cp m).1 = .ok ∧ ∃ c, (d.copy cp m).2.1 = some c ∧ c.Inv ∧
      c.abs = (match cp with | none => d.abs | some f => d.abs.map f) ∧ c.cap = d.cap ∧ c.triple = d.triple ∧
      memRel d.triple 2 (d.copy cp m).2.2 m ∧
      (d.copy cp m).2.2 = ((m.allocT d.triple).2.allocT d.triple).2) ∨
    ((d.copy cp m).1 = .errAlloc ∧ (d.copy cp m).2.1 = none ∧ memSame d.triple (d.copy cp m).2.2 m ∧
      ((m.allocT d.triple).1 = false ∨ ((m.allocT d.triple).2.allocT d.triple).1 = false)) := by
  have hi' := hi
  have hpos := Inv.cap_pos hi
  obtain ⟨hpw, hmax, hl, hf, hla, hsz⟩ := hi
  cases h1 : (m.allocT d.triple).1
  · right
    have : d.copy cp m = (.errAlloc, none, (m.allocT d.triple).2) := by simp [copy, h1]
    rw [this]
    exact ⟨rfl, rfl, (allocT_refused _ m h1).1, Or.inl rfl⟩
  · cases h2 : ((m.allocT d.triple).2.allocT d.triple).1
    · right
      have : d.copy cp m = (.errAlloc, none, ((m.allocT d.triple).2.allocT d.triple).2.freeT d.triple) := by
        simp [copy, h1, h2]
      rw [this]
      exact ⟨rfl, rfl, alloc_refused2_same _ m h1 h2, Or.inr rfl⟩
    · left
      have : d.copy cp m = (.ok, some (Deque.mk d.size d.cap 0 (d.size % d.cap)
          (d.copyBuffer (Buf.mk d.cap) cp ((m.allocT d.triple).2.allocT d.triple).2).1 d.triple),
          (d.copyBuffer (Buf.mk d.cap) cp ((m.allocT d.triple).2.allocT d.triple).2).2) := by simp [copy, h1, h2]
      rw [this]
      have hrel := alloc2_ok _ m h1 h2
      cases cp with
      | none =>
        obtain ⟨b1, b2, b3, _⟩ := copyBuffer_none d (Buf.mk d.cap) ((m.allocT d.triple).2.allocT d.triple).2 hi'
          (by simpa using hsz)
        refine ⟨rfl, _, rfl, ⟨hpw, hmax, by simp [b1], hpos, by simp, hsz⟩, ?_, rfl, rfl, ?_, ?_⟩
        · apply abs_congr
          · rfl
          · intro i hi
            simp only [Nat.zero_add]
            rw [Nat.mod_eq_of_lt (by omega)]; exact b3 i hi
        · simp only [b2]; exact hrel
        · simp only [b2]
      | some f =>
        obtain ⟨b1, b2, b3⟩ := copyBuffer_some d f (Buf.mk d.cap) ((m.allocT d.triple).2.allocT d.triple).2 hi'
          (by simpa using hsz)
        refine ⟨rfl, _, rfl, ⟨hpw, hmax, by simp [b1], hpos, by simp, hsz⟩, ?_, rfl, rfl, ?_, ?_⟩
        · apply List.ext_getElem
          · simp
          · intro i h1 h2
            have hi : i < d.size := by simpa using h1
            rw [abs_getElem, List.getElem_map, abs_getElem]
            simp only [Nat.zero_add]
            rw [Nat.mod_eq_of_lt (by omega)]
            exact b3 i hi
        · simp only [b2]; exact hrel
        · simp only [b2]

/-! ## `reverse` -/

/-- state of the buffer after `k` swaps -/
theorem revLoop (d : Deque) (m : Mem) (hi : d.Inv) (k : Nat) (hk : k ≤ d.size / 2) :
    ((List.range k).foldl (revStep d) (d.buf, m)).1.length = d.buf.length ∧
    ((List.range k).foldl (revStep d) (d.buf, m)).2 = m ∧
    ∀ i, i < d.size → ((List.range k).foldl (revStep d) (d.buf, m)).1.get ((d.first + i) % d.cap) =
      if i < k ∨ d.size - k ≤ i then d.buf.get ((d.first + (d.size - 1 - i)) % d.cap)
      else d.buf.get ((d.first + i) % d.cap) := by
  obtain ⟨hpw, hmax, hl, hf, hla, hsz⟩ := hi
  induction k with
  | zero =>
    refine ⟨rfl, rfl, ?_⟩
    intro i hi
    rw [if_neg (by omega)]; rfl
  | succ k ih =>
    obtain ⟨ih1, ih2, ih3⟩ := ih (by omega)
    rw [List.range_succ, List.foldl_append]
    simp only [List.foldl_cons, List.foldl_nil]
    have ck := mod_cases (x := d.first + k) (c := d.cap) (by omega)
    have cj := mod_cases (x := d.first + (d.size - 1 - k)) (c := d.cap) (by omega)
    refine ⟨by simp [revStep, ih1], ?_, ?_⟩
    · simp only [revStep]
      rw [wr_snd _ _ _ _ (by simp [ih1]; omega), wr_snd _ _ _ _ (by rw [ih1]; omega),
        rd_snd _ _ _ (by rw [ih1]; omega), rd_snd _ _ _ (by rw [ih1]; omega), ih2]
    · intro i hi
      have ci := mod_cases (x := d.first + i) (c := d.cap) (by omega)
      have cr := mod_cases (x := d.first + (d.size - 1 - i)) (c := d.cap) (by omega)
      simp only [revStep, wr_fst, rd_fst, Buf.get_put, Buf.length_put, ih1]
      have hk1 := ih3 k (by omega)
      have hk2 := ih3 (d.size - 1 - k) (by omega)
      rw [if_neg (by omega)] at hk1 hk2
      by_cases h1 : i = d.size - 1 - k
      · rw [if_pos ⟨by omega, by omega⟩, hk1, if_pos (by omega)]; congr 2; omega
      · rw [if_neg (by omega)]
        by_cases h2 : i = k
        · rw [if_pos ⟨by omega, by omega⟩, hk2, if_pos (by omega)]; subst h2; rfl
        · rw [if_neg (by omega), ih3 i hi]
          by_cases h3 : i < k ∨ d.size - k ≤ i
          · rw [if_pos h3, if_pos (by omega)]
          · rw [if_neg h3, if_neg (by omega)]

/-- **`cc_deque_reverse`** reverses the ideal list in every layout -/
theorem reverse_spec (d : Deque) (m : Mem) (hi : d.Inv) :
    (d.reverse m).1.abs = d.abs.reverse ∧ (d.reverse m).1.Inv ∧ (d.reverse m).2 = m ∧
    (d.reverse m).1.cap = d.cap := by
  obtain ⟨r1, r2, r3⟩ := revLoop d m hi (d.size / 2) (Nat.le_refl _)
  obtain ⟨hpw, hmax, hl, hf, hla, hsz⟩ := hi
  unfold reverse
  refine ⟨?_, ⟨hpw, hmax, by simpa [r1] using hl, hf, hla, hsz⟩, r2, rfl⟩
  apply List.ext_getElem
  · simp
  · intro i h1 h2
    have hi : i < d.size := by simpa using h1
    rw [abs_getElem, List.getElem_reverse, abs_getElem]
    simp only [abs_length]
    rw [r3 i hi]
    by_cases hmid : i < d.size / 2 ∨ d.size - d.size / 2 ≤ i
    · rw [if_pos hmid]
    · rw [if_neg hmid]; congr 2; omega

/-! ## searches and traversal -/

theorem slotsOk_of_inv (d : Deque) (hi : d.Inv) : d.slotsOk = true := by
  have hpos := Inv.cap_pos hi
  unfold slotsOk
  rw [List.all_eq_true]
  intro i _
  simp only [decide_eq_true_eq]
  exact Nat.lt_of_lt_of_le (Nat.mod_lt _ hpos) (Nat.le_of_eq hi.2.2.1.symm)

/-- a `for` loop with early exit over `0..n-1` finds the first index whose element satisfies `p` -/
theorem find_range_eq_findIdx (g : Nat → Nat) (p : Nat → Bool) (n : Nat) :
    (List.range n).find? (fun i => p (g i)) = ((List.range n).map g).findIdx? p := by
  induction n with
  | zero => rfl
  | succ n ih =>
    rw [List.range_succ, List.find?_append, List.map_append, List.findIdx?_append, ih]
    simp only [List.map_cons, List.map_nil, List.length_map, List.length_range]
    cases hq : p (g n) <;> simp [List.findIdx?_cons, hq]

open CC.Spec in
/-- **`cc_deque_index_of`**: position of the first occurrence, or rejected -/
theorem indexOf_spec (d : Deque) (x : Nat) (m : Mem) (hi : d.Inv) :
    (d.indexOf x m).1 = (DequeSpec.indexOf d.abs x).1 ∧ (d.indexOf x m).2.1 = (DequeSpec.indexOf d.abs x).2 ∧
    (d.indexOf x m).2.2 = m := by
  unfold indexOf DequeSpec.indexOf
  simp only [slotsOk_of_inv d hi, Mem.check_true]
  have := find_range_eq_findIdx (fun i => d.buf.get (d.slot i)) (· == x) d.size
  rw [this]
  change _ ∧ _ ∧ _
  unfold abs slot
  cases List.findIdx? (fun x_1 => x_1 == x) (List.map (fun i => d.buf.get ((d.first + i) % d.cap)) (List.range d.size)) <;>
    exact ⟨rfl, rfl, rfl⟩

open CC.Spec in
/-- **`cc_deque_remove`** removes the first occurrence of a value (rejected and inert when absent) -/
theorem remove_spec (d : Deque) (x : Nat) (m : Mem) (hi : d.Inv) :
    (d.remove x m).1 = (DequeSpec.remove d.abs x).1 ∧ (d.remove x m).2.1 = (DequeSpec.remove d.abs x).2.1 ∧
    (d.remove x m).2.2.1.abs = (DequeSpec.remove d.abs x).2.2 ∧ (d.remove x m).2.2.1.Inv ∧
    (d.remove x m).2.2.2 = m ∧ (d.remove x m).2.2.1.cap = d.cap ∧
    ((d.remove x m).1 ≠ .ok → (d.remove x m).2.2.1 = d) := by
  obtain ⟨i1, i2, i3⟩ := indexOf_spec d x m hi
  unfold remove
  dsimp only
  unfold DequeSpec.indexOf at i1 i2
  unfold DequeSpec.remove
  cases hfi : List.findIdx? (fun x_1 => x_1 == x) d.abs with
  | none =>
    rw [hfi] at i1 i2
    simp only at i1 i2
    rw [i2]
    exact ⟨i1, rfl, rfl, hi, i3, rfl, fun _ => rfl⟩
  | some idx =>
    rw [hfi] at i1 i2
    simp only at i1 i2
    rw [i2, i3]
    simp only
    have hlt : idx < d.abs.length := (List.findIdx?_eq_some_iff_getElem.mp hfi).1
    have hx : d.abs[idx] = x := by
      have := (List.findIdx?_eq_some_iff_getElem.mp hfi).2.1
      simpa using this
    obtain ⟨r1, r2, r3, r4, r5, r6⟩ := removeAt_spec d idx m hi
    unfold DequeSpec.removeAt at r1 r2 r3
    rw [dif_pos hlt] at r1 r2 r3
    simp only at r1 r2 r3
    refine ⟨r1, by rw [r2, hx], r3, r4, r5, r6, fun h => absurd r1 h⟩

open CC.Spec in
/-- **`cc_deque_contains`** counts the occurrences -/
theorem contains_spec (d : Deque) (x : Nat) (m : Mem) (hi : d.Inv) :
    (d.contains x m).1 = DequeSpec.contains d.abs x ∧ (d.contains x m).2 = m := by
  unfold contains DequeSpec.contains abs slot
  simp only [slotsOk_of_inv d hi, Mem.check_true, List.count, List.countP_map]
  exact ⟨rfl, trivial⟩

open CC.Spec in
/-- **`cc_deque_contains_value`** counts the elements the comparator calls equal -/
theorem containsValue_spec (d : Deque) (x : Nat) (eqv : Nat → Nat → Bool) (m : Mem) (hi : d.Inv) :
    (d.containsValue x eqv m).1 = DequeSpec.containsValue d.abs x eqv ∧ (d.containsValue x eqv m).2 = m := by
  unfold containsValue DequeSpec.containsValue abs slot
  simp only [slotsOk_of_inv d hi, Mem.check_true, ← List.countP_eq_length_filter, List.countP_map]
  exact ⟨rfl, trivial⟩

/-- **`cc_deque_foreach`** (and the callbacks of `remove_all_cb`, `destroy_cb`) visits exactly the
held elements, front to back -/
theorem foreach_spec (d : Deque) (m : Mem) (hi : d.Inv) : (d.foreach m).1 = d.abs ∧ (d.foreach m).2 = m := by
  unfold foreach
  simp only [slotsOk_of_inv d hi, Mem.check_true]
  exact ⟨rfl, trivial⟩

/-! ## `filter_mut` -/

theorem take_eraseIdx_self (l : List Nat) (i : Nat) (h : i ≤ l.length) : (l.eraseIdx i).take i = l.take i := by
  rw [List.eraseIdx_eq_take_drop_succ, List.take_append_of_le_length (by simp; omega)]
  simp [List.take_take]

theorem drop_eraseIdx_self (l : List Nat) (i : Nat) (h : i ≤ l.length) : (l.eraseIdx i).drop i = l.drop (i + 1) := by
  rw [List.eraseIdx_eq_take_drop_succ]
  have : (List.take i l).length = i := by simp; omega
  rw [List.drop_append_of_le_length (by omega), List.drop_of_length_le (by omega)]
  rfl

/-- the loop of `filter_mut`: positions `< i` are kept as they are, the rest is filtered -/
theorem filterMutLoop_spec (pred : Nat → Bool) (fuel : Nat) (d : Deque) (i : Nat) (m : Mem) (hi : d.Inv)
    (hfuel : d.size - i ≤ fuel) :
    (filterMutLoop pred fuel d i m).1.abs = d.abs.take i ++ (d.abs.drop i).filter pred ∧
    (filterMutLoop pred fuel d i m).1.Inv ∧ (filterMutLoop pred fuel d i m).2 = m ∧
    (filterMutLoop pred fuel d i m).1.cap = d.cap := by
  have hdone : d.size ≤ i → d.abs = d.abs.take i ++ (d.abs.drop i).filter pred := by
    intro h
    rw [List.take_of_length_le (by simpa using h), List.drop_of_length_le (by simpa using h)]; simp
  induction fuel generalizing d i m with
  | zero =>
    unfold filterMutLoop
    exact ⟨hdone (by omega), hi, rfl, rfl⟩
  | succ fuel ih =>
    unfold filterMutLoop
    by_cases hlt : i < d.size
    · rw [if_pos hlt]
      have hpos := Inv.cap_pos hi
      have hslot : (d.first + i) % d.cap < d.buf.length := Nat.lt_of_lt_of_le (Nat.mod_lt _ hpos) (Nat.le_of_eq hi.2.2.1.symm)
      have hrd : (rd d.buf ((d.first + i) % d.cap) m).2 = m := rd_snd _ _ _ hslot
      have hlen : i < d.abs.length := by simpa using hlt
      have hel : d.abs[i] = d.buf.get ((d.first + i) % d.cap) := abs_getElem d i hlen
      have hdrop : d.abs.drop i = d.abs[i] :: d.abs.drop (i + 1) := List.drop_eq_getElem_cons hlen
      simp only [rd_fst, hrd]
      cases hp : pred (d.buf.get ((d.first + i) % d.cap))
      · simp only [Bool.not_false, if_true]
        obtain ⟨r1, r2, r3, r4, r5, r6⟩ := removeAt_spec d i m hi
        unfold Spec.DequeSpec.removeAt at r1 r2 r3
        rw [dif_pos hlen] at r1 r2 r3
        simp only at r3
        have hsize : (d.removeAt i m).2.2.1.size = d.size - 1 := by
          have := congrArg List.length r3
          simpa [List.length_eraseIdx, hlt] using this
        obtain ⟨q1, q2, q3, q4⟩ := ih (d.removeAt i m).2.2.1 i (d.removeAt i m).2.2.2 r4
          (by rw [hsize]; omega)
          (by intro h; rw [List.take_of_length_le (by simpa using h), List.drop_of_length_le (by simpa using h)]; simp)
        refine ⟨?_, q2, by rw [q3, r5], by rw [q4, r6]⟩
        rw [q1, r3, take_eraseIdx_self _ _ (by omega), drop_eraseIdx_self _ _ (by omega), hdrop,
          List.filter_cons, hel, hp]
        simp
      · simp only [Bool.not_true, Bool.false_eq_true, if_false]
        obtain ⟨q1, q2, q3, q4⟩ := ih d (i + 1) m hi (by omega)
          (by intro h; rw [List.take_of_length_le (by simpa using h), List.drop_of_length_le (by simpa using h)]; simp)
        refine ⟨?_, q2, q3, q4⟩
        rw [q1, hdrop, List.filter_cons, hel, hp, List.take_succ_eq_append_getElem hlen, hel]
        simp
    · rw [if_neg hlt]
      exact ⟨hdone (by omega), hi, rfl, rfl⟩

open CC.Spec in
/-- **`cc_deque_filter_mut`** keeps exactly the elements satisfying the predicate, in order; an empty
deque is rejected and unchanged -/
theorem filterMut_spec (d : Deque) (pred : Nat → Bool) (m : Mem) (hi : d.Inv) :
    (d.filterMut pred m).1 = (DequeSpec.filterMut d.abs pred).1 ∧
    (d.filterMut pred m).2.1.abs = (DequeSpec.filterMut d.abs pred).2 ∧
    (d.filterMut pred m).2.1.Inv ∧ (d.filterMut pred m).2.2 = m ∧ (d.filterMut pred m).2.1.cap = d.cap ∧
    ((d.filterMut pred m).1 ≠ .ok → (d.filterMut pred m).2.1 = d) := by
  unfold filterMut DequeSpec.filterMut
  by_cases h0 : d.size = 0
  · have : d.abs = [] := List.eq_nil_of_length_eq_zero (by simp [h0])
    rw [if_pos h0, this]
    exact ⟨rfl, rfl, hi, rfl, rfl, fun _ => rfl⟩
  · have hne : d.abs.isEmpty = false := by
      cases h : d.abs with
      | nil => have := congrArg List.length h; simp at this; omega
      | cons _ _ => rfl
    rw [if_neg h0, hne]
    obtain ⟨q1, q2, q3, q4⟩ := filterMutLoop_spec pred d.size d 0 m hi (by omega)
    simp only [Bool.false_eq_true, if_false]
    refine ⟨(by first | rfl | trivial), by simpa using q1, q2, q3, q4, fun h => absurd rfl h⟩

/-! ## `filter` (a new deque) -/

theorem filterLoop_spec (d : Deque) (pred : Nat → Bool) (is : List Nat) (f : Deque) (m : Mem)
    (hd : d.Inv) (hf : f.Inv) (hroom : f.size + is.length ≤ f.cap) :
    (filterLoop d pred is f m).1 = .ok ∧
    (filterLoop d pred is f m).2.1.abs = f.abs ++ (is.map fun i => d.buf.get (d.slot i)).filter pred ∧
    (filterLoop d pred is f m).2.1.Inv ∧ (filterLoop d pred is f m).2.2 = m ∧
    (filterLoop d pred is f m).2.1.cap = f.cap := by
  have hpos := Inv.cap_pos hd
  induction is generalizing f m with
  | nil => exact ⟨rfl, by simp [filterLoop], hf, rfl, rfl⟩
  | cons i is ih =>
    unfold filterLoop
    have hslot : d.slot i < d.buf.length := Nat.lt_of_lt_of_le (Nat.mod_lt _ hpos) (Nat.le_of_eq hd.2.2.1.symm)
    have hrd : (rd d.buf (d.slot i) m).2 = m := rd_snd _ _ _ hslot
    simp only [rd_fst, hrd, List.map_cons, List.length_cons] at hroom ⊢
    cases hp : pred (d.buf.get (d.slot i))
    · simp only [Bool.false_eq_true, if_false]
      obtain ⟨q1, q2, q3, q4, q5⟩ := ih f m hf (by omega)
      refine ⟨q1, ?_, q3, q4, q5⟩
      rw [q2, List.filter_cons, hp]; simp
    · simp only [if_true]
      have hadd : f.addLast (d.buf.get (d.slot i)) m = f.addLastCore (d.buf.get (d.slot i)) m := by
        unfold addLast; rw [if_neg (by omega)]
      obtain ⟨a1, a2, a3, a4, a5⟩ := addLastCore_spec f (d.buf.get (d.slot i)) m hf (by omega)
      rw [hadd]
      have hne : ((f.addLastCore (d.buf.get (d.slot i)) m).1 != Stat.ok) = false := by simp [a1]
      simp only [hne, Bool.false_eq_true, if_false]
      have hsize : (f.addLastCore (d.buf.get (d.slot i)) m).2.1.size = f.size + 1 := by
        have := congrArg List.length a3; simpa using this
      obtain ⟨q1, q2, q3, q4, q5⟩ := ih (f.addLastCore (d.buf.get (d.slot i)) m).2.1
        (f.addLastCore (d.buf.get (d.slot i)) m).2.2 a2 (by rw [hsize, a5]; omega)
      refine ⟨q1, ?_, q3, by rw [q4, a4], by rw [q5, a5]⟩
      rw [q2, a3, List.filter_cons, hp]; simp

theorem filterLoop_triple (d : Deque) (pred : Nat → Bool) (is : List Nat) (f : Deque) (m : Mem) :
    (filterLoop d pred is f m).2.1.triple = f.triple := by
  induction is generalizing f m with
  | nil => rfl
  | cons i is ih =>
    unfold filterLoop
    dsimp only
    split
    · split
      · exact addLast_triple f _ _
      · rw [ih]; exact addLast_triple f _ _
    · exact ih _ _

theorem upperPow2_of_cap (d : Deque) (hi : d.Inv) : upperPow2 d.cap = d.cap := by
  have h1 := upperPow2_ge d.cap hi.2.1
  have h2 := upperPow2_least d.cap d.cap.log2 (by rw [← hi.1]; exact Nat.le_refl _)
  rw [← hi.1] at h2
  omega

open CC.Spec in
/-- **`cc_deque_filter`** (C15): rejected (no object) on an empty source; otherwise either a new deque
with the source's capacity and allocator triple holding exactly the elements that satisfy the predicate, in
source order, two more blocks owned (the result never grows while it is filled: its ledger is the
constructor's) — or `CC_ERR_ALLOC`, no object and a balanced ledger -/
theorem filter_spec (d : Deque) (pred : Nat → Bool) (m : Mem) (hi : d.Inv) :
    (d.size = 0 ∧ d.filter pred m = (.errOutOfRange, none, m) ∧ (DequeSpec.filter d.abs pred).1 = .errOutOfRange) ∨
    (d.size ≠ 0 ∧ (d.filter pred m).1 = .ok ∧ (DequeSpec.filter d.abs pred).1 = .ok ∧
      ∃ c, (d.filter pred m).2.1 = some c ∧ c.Inv ∧ some c.abs = (DequeSpec.filter d.abs pred).2 ∧
        c.cap = d.cap ∧ c.triple = d.triple ∧ memRel d.triple 2 (d.filter pred m).2.2 m ∧
        (d.filter pred m).2.2 = ((m.allocT d.triple).2.allocT d.triple).2) ∨
    (d.size ≠ 0 ∧ (d.filter pred m).1 = .errAlloc ∧ (d.filter pred m).2.1 = none ∧
      memSame d.triple (d.filter pred m).2.2 m ∧
      ((m.allocT d.triple).1 = false ∨ ((m.allocT d.triple).2.allocT d.triple).1 = false)) := by
  by_cases h0 : d.size = 0
  · left
    have : d.abs = [] := List.eq_nil_of_length_eq_zero (by simp [h0])
    refine ⟨h0, by unfold filter; rw [if_pos h0], by rw [this]; rfl⟩
  · right
    have hne : d.abs.isEmpty = false := by
      cases h : d.abs with
      | nil => have := congrArg List.length h; simp at this; omega
      | cons _ _ => rfl
    have hspec : DequeSpec.filter d.abs pred = (.ok, some (d.abs.filter pred)) := by
      unfold DequeSpec.filter; rw [hne]; rfl
    unfold filter
    rw [if_neg h0]
    dsimp only
    rcases new_spec d.cap d.triple m with ⟨n1, c0, n2, n3, n4, n5, n6, n7, n8, n9⟩ | ⟨n1, n2, n3, n4⟩
    · left
      rw [n2]
      dsimp only
      have hmem : (Deque.new d.cap d.triple m).2.2 = ((m.allocT d.triple).2.allocT d.triple).2 := by
        simp [Deque.new, n8, n9]
      have hsz0 : c0.size = 0 := by have := congrArg List.length n4; simpa using this
      have hcap : c0.cap = d.cap := by rw [n5, upperPow2_of_cap d hi]
      obtain ⟨q1, q2, q3, q4, q5⟩ := filterLoop_spec d pred (List.range d.size) c0 (Deque.new d.cap d.triple m).2.2 hi n3
        (by rw [hsz0, hcap]; simp; exact hi.2.2.2.2.2)
      have htr : (filterLoop d pred (List.range d.size) c0 (Deque.new d.cap d.triple m).2.2).2.1.triple = c0.triple :=
        filterLoop_triple d pred _ c0 _
      have hne' : ((filterLoop d pred (List.range d.size) c0 (Deque.new d.cap d.triple m).2.2).1 != Stat.ok) = false := by
        simp [q1]
      simp only [hne', Bool.false_eq_true, if_false]
      refine ⟨h0, trivial, by rw [hspec], _, rfl, q3, ?_, by rw [q5, hcap], by rw [htr, n6], by rw [q4]; exact n7,
        by rw [q4, hmem]⟩
      rw [hspec, q2, n4]; rfl
    · right
      rw [n2]
      exact ⟨h0, n1, rfl, n3, n4⟩

/-! ## the allocator triple never changes -/

theorem copy_triple (d : Deque) (cp : Option (Nat → Nat)) (m : Mem) (c : Deque) (h : (d.copy cp m).2.1 = some c) :
    c.triple = d.triple := by
  unfold copy at h
  dsimp only at h
  split at h
  · cases h
  · split at h
    · cases h
    · simp only [Option.some.injEq] at h
      rw [← h]

theorem trimCapacity_triple (d : Deque) (m : Mem) : (d.trimCapacity m).2.1.triple = d.triple := by
  unfold trimCapacity
  split; · rfl
  dsimp only
  split; · rfl
  split <;> rfl

theorem reverse_triple (d : Deque) (m : Mem) : (d.reverse m).1.triple = d.triple := rfl

theorem remove_triple (d : Deque) (x : Nat) (m : Mem) : (d.remove x m).2.2.1.triple = d.triple := by
  unfold remove
  dsimp only
  split
  · rfl
  · exact removeAt_triple d _ _

theorem filterMutLoop_triple (pred : Nat → Bool) (fuel : Nat) (d : Deque) (i : Nat) (m : Mem) :
    (filterMutLoop pred fuel d i m).1.triple = d.triple := by
  induction fuel generalizing d i m with
  | zero => rfl
  | succ fuel ih =>
    unfold filterMutLoop
    split
    · dsimp only
      split
      · rw [ih]; exact removeAt_triple d i _
      · exact ih _ _ _
    · rfl

theorem filterMut_triple (d : Deque) (pred : Nat → Bool) (m : Mem) : (d.filterMut pred m).2.1.triple = d.triple := by
  unfold filterMut
  split
  · rfl
  · exact filterMutLoop_triple pred _ d 0 m

end CC.Deque
