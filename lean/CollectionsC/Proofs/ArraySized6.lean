import CollectionsC.Proofs.ArraySized5
/-! Sized array, part 6: allocator independence (C14) — statuses, out-values and the resulting
physical state of every call depend on the ledger only through the schedule of allocator answers. -/
namespace CC.ArraySized
open CC CC.Gen

theorem free_sched (m : Mem) (t : Triple) : (m.freeT t).sched = m.sched := by
  cases t
  · simp only [Mem.freeT_conf]; unfold Mem.free; split <;> rfl
  · unfold Mem.freeT; dsimp only; split <;> rfl

theorem alloc_congr (m1 m2 : Mem) (t : Triple) (h : m1.sched = m2.sched) :
    (m1.allocT t).1 = (m2.allocT t).1 ∧ (m1.allocT t).2.sched = (m2.allocT t).2.sched := by
  cases t
  · simp only [Mem.allocT_conf]
    unfold Mem.alloc
    rw [h]
    cases m2.sched with
    | nil => simp
    | cons b t => cases b <;> simp
  · exact ⟨rfl, h⟩

/-! ### the loops compute their data without looking at the ledger -/
theorem swapLoop_indep (dl i1 i2 : Nat) : ∀ (f i : Nat) (b : Buf Nat) (m1 m2 : Mem),
    (swapLoop dl i1 i2 f i b m1).1 = (swapLoop dl i1 i2 f i b m2).1 := by
  intro f
  induction f with
  | zero => intro i b m1 m2; rfl
  | succ f ih => intro i b m1 m2; unfold swapLoop; exact ih _ _ _ _

theorem reverseLoop_indep (dl : Nat) : ∀ (f i j : Nat) (b : Buf Nat) (m1 m2 : Mem),
    (reverseLoop dl f i j b m1).1 = (reverseLoop dl f i j b m2).1 := by
  intro f
  induction f with
  | zero => intro i j b m1 m2; rfl
  | succ f ih => intro i j b m1 m2; unfold reverseLoop; exact ih _ _ _ _ _

theorem mapLoop_indep (fn : List Nat → List Nat) (dl : Nat) : ∀ (f i : Nat) (b : Buf Nat) (m1 m2 : Mem) (log : List (List Nat)),
    (mapLoop fn dl f i b m1 log).1 = (mapLoop fn dl f i b m2 log).1 ∧
    (mapLoop fn dl f i b m1 log).2.2 = (mapLoop fn dl f i b m2 log).2.2 := by
  intro f
  induction f with
  | zero => intro i b m1 m2 log; exact ⟨rfl, rfl⟩
  | succ f ih => intro i b m1 m2 log; unfold mapLoop; exact ih _ _ _ _ _

/-- the data part of the `filter_mut` loop state -/
def FM.data (s : FM) : Nat × Nat × Nat × Buf Nat × List (List Nat) := (s.rm, s.keep, s.size, s.buf, s.log)

theorem filterMutLoop_indep (p : List Nat → Bool) (dl : Nat) : ∀ (i : Nat) (s1 s2 : FM), s1.data = s2.data →
    (filterMutLoop p dl i s1).data = (filterMutLoop p dl i s2).data := by
  intro i
  induction i with
  | zero => intro s1 s2 h; exact h
  | succ i ih =>
    intro s1 s2 h
    simp only [FM.data, Prod.mk.injEq] at h
    obtain ⟨h1, h2, h3, h4, h5⟩ := h
    unfold filterMutLoop
    dsimp only
    rw [h1, h2, h3, h4, h5]
    split
    · exact ih _ _ rfl
    · split
      · split
        · exact ih _ _ rfl
        · exact ih _ _ rfl
      · exact ih _ _ rfl

theorem filterMut_indep (a : ArraySized) (p : List Nat → Bool) (m1 m2 : Mem) :
    (a.filterMut p m1).1 = (a.filterMut p m2).1 ∧ (a.filterMut p m1).2.1 = (a.filterMut p m2).2.1 ∧
    (a.filterMut p m1).2.2.1 = (a.filterMut p m2).2.2.1 := by
  unfold filterMut
  by_cases h0 : a.size = 0
  · rw [if_pos h0, if_pos h0]; exact ⟨rfl, rfl, rfl⟩
  · rw [if_neg h0, if_neg h0]
    have hd := filterMutLoop_indep p a.dataLen a.size
      { rm := 0, keep := 0, size := a.size, buf := a.buf, mem := m1, log := [] }
      { rm := 0, keep := 0, size := a.size, buf := a.buf, mem := m2, log := [] } rfl
    generalize filterMutLoop p a.dataLen a.size
      { rm := 0, keep := 0, size := a.size, buf := a.buf, mem := m1, log := [] } = s1 at hd ⊢
    generalize filterMutLoop p a.dataLen a.size
      { rm := 0, keep := 0, size := a.size, buf := a.buf, mem := m2, log := [] } = s2 at hd ⊢
    simp only [FM.data, Prod.mk.injEq] at hd
    obtain ⟨d1, d2, d3, d4, d5⟩ := hd
    dsimp only
    rw [d1, d2, d3, d4, d5]
    split <;> exact ⟨rfl, rfl, rfl⟩

/-! ### the allocating core -/
theorem expandCapacity_indep (a : ArraySized) (m1 m2 : Mem) (h : m1.sched = m2.sched) :
    (a.expandCapacity m1).1 = (a.expandCapacity m2).1 ∧ (a.expandCapacity m1).2.1 = (a.expandCapacity m2).2.1 ∧
    (a.expandCapacity m1).2.2.sched = (a.expandCapacity m2).2.2.sched := by
  unfold expandCapacity
  by_cases hc : a.capacity = CC_MAX_ELEMENTS
  · rw [if_pos hc, if_pos hc]; exact ⟨rfl, rfl, h⟩
  · rw [if_neg hc, if_neg hc]
    dsimp only
    by_cases hl : a.nextCapacity > CC_MAX_ELEMENTS / a.dataLen
    · rw [if_pos hl, if_pos hl]; exact ⟨rfl, rfl, by simpa using h⟩
    · rw [if_neg hl, if_neg hl]
      have hq := alloc_congr (m1.check (a.dataLen != 0)) (m2.check (a.dataLen != 0)) a.triple (by simpa using h)
      rw [hq.1]
      cases ((m2.check (a.dataLen != 0)).allocT a.triple).1
      · exact ⟨rfl, rfl, hq.2⟩
      · refine ⟨rfl, rfl, ?_⟩
        simp only [Bool.not_true, Bool.false_eq_true, if_false, free_sched, Mem.check_sched]
        exact hq.2

theorem ensureRoom_indep (a : ArraySized) (m1 m2 : Mem) (h : m1.sched = m2.sched) :
    (a.ensureRoom m1).1 = (a.ensureRoom m2).1 ∧ (a.ensureRoom m1).2.1 = (a.ensureRoom m2).2.1 ∧
    (a.ensureRoom m1).2.2.sched = (a.ensureRoom m2).2.2.sched := by
  unfold ensureRoom
  split
  · exact expandCapacity_indep a m1 m2 h
  · exact ⟨rfl, rfl, h⟩

theorem add_indep (a : ArraySized) (e : Buf Nat) (m1 m2 : Mem) (h : m1.sched = m2.sched) :
    (a.add e m1).1 = (a.add e m2).1 ∧ (a.add e m1).2.1 = (a.add e m2).2.1 ∧
    (a.add e m1).2.2.sched = (a.add e m2).2.2.sched := by
  obtain ⟨q1, q2, q3⟩ := ensureRoom_indep a m1 m2 h
  rw [add_eq, add_eq, q1, q2]
  split
  · exact ⟨q1, q2, q3⟩
  · exact ⟨rfl, rfl, by simpa using q3⟩

theorem addAt_indep (a : ArraySized) (e : Buf Nat) (i : Nat) (m1 m2 : Mem) (h : m1.sched = m2.sched) :
    (a.addAt e i m1).1 = (a.addAt e i m2).1 ∧ (a.addAt e i m1).2.1 = (a.addAt e i m2).2.1 ∧
    (a.addAt e i m1).2.2.sched = (a.addAt e i m2).2.2.sched := by
  by_cases hend : i = a.size
  · have e1 : ∀ m, a.addAt e i m = a.add e m := by intro m; unfold addAt; rw [if_pos hend]
    rw [e1, e1]; exact add_indep a e m1 m2 h
  · by_cases hlt : i < a.size
    · obtain ⟨q1, q2, q3⟩ := ensureRoom_indep a m1 m2 h
      rw [addAt_eq_mid a e i m1 hlt, addAt_eq_mid a e i m2 hlt, q1, q2]
      split
      · exact ⟨q1, q2, q3⟩
      · exact ⟨rfl, rfl, by simpa using q3⟩
    · rw [addAt_inert a e i m1 (by omega), addAt_inert a e i m2 (by omega)]; exact ⟨rfl, rfl, h⟩

theorem trimCapacity_indep (a : ArraySized) (m1 m2 : Mem) (h : m1.sched = m2.sched) :
    (a.trimCapacity m1).1 = (a.trimCapacity m2).1 ∧ (a.trimCapacity m1).2.1 = (a.trimCapacity m2).2.1 ∧
    (a.trimCapacity m1).2.2.sched = (a.trimCapacity m2).2.2.sched := by
  unfold trimCapacity
  by_cases h1 : a.size = a.capacity
  · rw [if_pos h1, if_pos h1]; exact ⟨rfl, rfl, h⟩
  · rw [if_neg h1, if_neg h1]
    dsimp only
    by_cases h2 : (if a.size < 1 then 1 else a.size) = a.capacity
    · rw [if_pos h2, if_pos h2]; exact ⟨rfl, rfl, h⟩
    · rw [if_neg h2, if_neg h2]
      have hq := alloc_congr m1 m2 a.triple h
      rw [hq.1]
      cases (m2.allocT a.triple).1
      · exact ⟨rfl, rfl, hq.2⟩
      · refine ⟨rfl, rfl, ?_⟩
        simp only [Bool.not_true, Bool.false_eq_true, if_false, free_sched, Mem.check_sched]
        exact hq.2

/-- **allocator independence, one call.**  Two ledgers that agree on the schedule of allocator
answers give the same status, out-values, callback log and the same resulting physical state, and
again agree on the schedule. -/
theorem step_indep (a : ArraySized) (op : Spec.SSeq.Op Elem) (m1 m2 : Mem) (h : a.Inv) (hw : OpWF a.dataLen op)
    (hs : m1.sched = m2.sched) :
    (a.step op m1).1 = (a.step op m2).1 ∧ (a.step op m1).2.1 = (a.step op m2).2.1 ∧
    (a.step op m1).2.2.sched = (a.step op m2).2.2.sched := by
  cases op with
  | add x =>
    obtain ⟨q1, q2, q3⟩ := add_indep a x m1 m2 hs
    simp only [step]; rw [q1, q2]; exact ⟨rfl, rfl, q3⟩
  | addAt x i =>
    obtain ⟨q1, q2, q3⟩ := addAt_indep a x i m1 m2 hs
    simp only [step]; rw [q1, q2]; exact ⟨rfl, rfl, q3⟩
  | trim =>
    obtain ⟨q1, q2, q3⟩ := trimCapacity_indep a m1 m2 hs
    simp only [step]; rw [q1, q2]; exact ⟨rfl, rfl, q3⟩
  | replaceAt x i =>
    by_cases hi : i < a.size
    · simp only [step, (replaceAt_spec a x i m1 h hw hi).1, (replaceAt_spec a x i m2 h hw hi).1]; (refine ⟨?_, ?_, hs⟩ <;> first | rfl | trivial)
    · simp only [step, replaceAt_inert a x i _ (by omega)]; (refine ⟨?_, ?_, hs⟩ <;> first | rfl | trivial)
  | swapAt i j =>
    by_cases hi : i < a.size ∧ j < a.size
    · obtain ⟨s1, s2, _⟩ := swapAt_spec a i j m1 h hi.1 hi.2
      obtain ⟨t1, t2, _⟩ := swapAt_spec a i j m2 h hi.1 hi.2
      refine ⟨by simp only [step, s1, t1], ?_, by simp only [step]; rw [s2, t2]; exact hs⟩
      simp only [step]
      unfold swapAt
      split
      · rfl
      · simp only [swapLoop_indep a.dataLen i j a.dataLen 0 a.buf m1 m2]
    · simp only [step, swapAt_inert a i j _ (by omega)]; (refine ⟨?_, ?_, hs⟩ <;> first | rfl | trivial)
  | remove x =>
    obtain ⟨_, s2, _⟩ := remove_spec a x m1 h hw
    obtain ⟨_, t2, _⟩ := remove_spec a x m2 h hw
    have e : (a.remove x m1).1 = (a.remove x m2).1 ∧ (a.remove x m1).2.1 = (a.remove x m2).2.1 := by
      unfold remove
      rw [indexOf_spec a x m1 h hw, indexOf_spec a x m2 h hw]
      dsimp only
      cases (Spec.SSeq.indexOfSt a.abs x).2 with
      | none => exact ⟨rfl, rfl⟩
      | some k => dsimp only; unfold removeShift; split <;> exact ⟨rfl, rfl⟩
    refine ⟨by simp only [step, e.1], e.2, by simp only [step]; rw [s2, t2]; exact hs⟩
  | removeAt i =>
    by_cases hi : i < a.size
    · obtain ⟨_, _, s3, _⟩ := removeAt_spec a i m1 h hi
      obtain ⟨_, _, t3, _⟩ := removeAt_spec a i m2 h hi
      have e : (a.removeAt i m1).1 = (a.removeAt i m2).1 ∧ (a.removeAt i m1).2.1 = (a.removeAt i m2).2.1 ∧
          (a.removeAt i m1).2.2.1 = (a.removeAt i m2).2.2.1 := by
        unfold removeAt; rw [if_neg (by omega), if_neg (by omega)]
        dsimp only; unfold removeShift; split <;> exact ⟨rfl, rfl, rfl⟩
      refine ⟨by simp only [step, e.1, e.2.1], e.2.2, by simp only [step]; rw [s3, t3]; exact hs⟩
    · simp only [step, removeAt_inert a i _ (by omega)]; (refine ⟨?_, ?_, hs⟩ <;> first | rfl | trivial)
  | removeLast =>
    by_cases h0 : 0 < a.size
    · obtain ⟨_, _, s3, _⟩ := removeLast_spec a m1 h h0
      obtain ⟨_, _, t3, _⟩ := removeLast_spec a m2 h h0
      have e : (a.removeLast m1).1 = (a.removeLast m2).1 ∧ (a.removeLast m1).2.1 = (a.removeLast m2).2.1 ∧
          (a.removeLast m1).2.2.1 = (a.removeLast m2).2.2.1 := by
        unfold removeLast removeAt
        split
        · exact ⟨rfl, rfl, rfl⟩
        · dsimp only; unfold removeShift; split <;> exact ⟨rfl, rfl, rfl⟩
      refine ⟨by simp only [step, e.1, e.2.1], e.2.2, by simp only [step]; rw [s3, t3]; exact hs⟩
    · simp only [step, removeLast_inert a _ h (by omega)]; (refine ⟨?_, ?_, hs⟩ <;> first | rfl | trivial)
  | removeAll => exact ⟨rfl, rfl, hs⟩
  | reverse =>
    obtain ⟨s1, _⟩ := reverse_spec a m1 h
    obtain ⟨t1, _⟩ := reverse_spec a m2 h
    refine ⟨rfl, ?_, by simp only [step]; rw [s1, t1]; exact hs⟩
    simp only [step]
    unfold reverse
    split
    · rfl
    · simp only [reverseLoop_indep a.dataLen (a.size / 2) 0 (a.size - 1) a.buf m1 m2]
  | filterMut p =>
    by_cases h0 : 0 < a.size
    · obtain ⟨s1, s2, s3, _⟩ := filterMut_spec a p m1 h h0
      obtain ⟨t1, t2, t3, _⟩ := filterMut_spec a p m2 h h0
      refine ⟨by simp only [step, s1, s2, t1, t2], (filterMut_indep a p m1 m2).2.2, by simp only [step]; rw [s3, t3]; exact hs⟩
    · simp only [step, filterMut_inert a p _ (by omega)]; (refine ⟨?_, ?_, hs⟩ <;> first | rfl | trivial)
  | getAt i => simp only [step, getAt_spec a i _ h]; split <;> (refine ⟨?_, ?_, hs⟩ <;> first | rfl | trivial)
  | getLast => simp only [step, getLast_spec a _ h]; split <;> (refine ⟨?_, ?_, hs⟩ <;> first | rfl | trivial)
  | peek i => simp only [step, peek_spec, getAt_spec a i _ h]; split <;> (refine ⟨?_, ?_, hs⟩ <;> first | rfl | trivial)
  | indexOf x => simp only [step, indexOf_spec a x _ h hw]; (refine ⟨?_, ?_, hs⟩ <;> first | rfl | trivial)
  | contains x => simp only [step, contains_spec a x _ h hw]; (refine ⟨?_, ?_, hs⟩ <;> first | rfl | trivial)
  | map f =>
    obtain ⟨s1, s2, _⟩ := map_spec a f m1 h hw
    obtain ⟨t1, t2, _⟩ := map_spec a f m2 h hw
    refine ⟨by simp only [step, s1, t1], ?_, by simp only [step]; rw [s2, t2]; exact hs⟩
    simp only [step]
    unfold map
    dsimp only
    rw [(mapLoop_indep f a.dataLen a.size 0 a.buf m1 m2 []).1]
  | reduce fn r0 => simp only [step, reduce_spec a fn r0 _ h]; (refine ⟨?_, ?_, hs⟩ <;> first | rfl | trivial)
  | sort sortFn => exact ⟨rfl, rfl, by simp only [step, sort, Mem.check_sched]; exact hs⟩

/-- allocator independence for histories -/
theorem run_indep (ops : List (Spec.SSeq.Op Elem)) :
    ∀ (a : ArraySized) (m1 m2 : Mem), a.Inv → (∀ op ∈ ops, OpWF a.dataLen op) → m1.sched = m2.sched →
      (a.run ops m1).1 = (a.run ops m2).1 ∧ (a.run ops m1).2.1 = (a.run ops m2).2.1 ∧
      (a.run ops m1).2.2.sched = (a.run ops m2).2.2.sched := by
  induction ops with
  | nil => intro a m1 m2 _ _ hs; exact ⟨rfl, rfl, hs⟩
  | cons op ops ih =>
    intro a m1 m2 h hw hs
    obtain ⟨q1, q2, q3⟩ := step_indep a op m1 m2 h (hw op (List.mem_cons_self ..)) hs
    obtain ⟨_, _, s3, _, s5, _⟩ := step_refines a op m1 h (hw op (List.mem_cons_self ..))
    have ih' := ih (a.step op m1).2.1 (a.step op m1).2.2 (a.step op m2).2.2 s3
      (by intro o ho; rw [s5]; exact hw o (List.mem_cons_of_mem _ ho)) q3
    simp only [run]
    rw [← q2, ← q1]
    exact ⟨by rw [ih'.1], ih'.2.1, ih'.2.2⟩

end CC.ArraySized
