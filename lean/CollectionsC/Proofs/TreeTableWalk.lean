import CollectionsC.Proofs.TreeTableBST
/-! The pointer walks of `cc_treetable.c` — `tree_min`, `tree_max`, `get_successor_node`,
`get_predecessor_node` — modelled structurally on node positions (paths from the root; the parent is the
path without its last step) and proved to be the in-order neighbours. -/
namespace CC.Tree
open Colour Dir

/-! ### in-order context of a position -/

/-- the entries visited before the node at `p` in the in-order walk -/
def ctxBefore : Tree → Path → List (Nat × Nat)
  | nil, _ => []
  | node _ l _ _ _, [] => toList l
  | node _ l _ _ _, L :: p => ctxBefore l p
  | node _ l k v r, R :: p => toList l ++ (k, v) :: ctxBefore r p

/-- the entries visited after the node at `p` -/
def ctxAfter : Tree → Path → List (Nat × Nat)
  | nil, _ => []
  | node _ _ _ _ r, [] => toList r
  | node _ l k v r, L :: p => ctxAfter l p ++ (k, v) :: toList r
  | node _ _ _ _ r, R :: p => ctxAfter r p

theorem toList_split (t : Tree) (p : Path) {c a k v b} (h : subtree t p = node c a k v b) :
    toList t = ctxBefore t p ++ (k, v) :: ctxAfter t p := by
  induction p generalizing t with
  | nil => simp only [subtree] at h; subst h; rfl
  | cons d q ih =>
    cases t with
    | nil => simp [subtree] at h
    | node c' l k' v' r =>
      cases d with
      | L => simp only [subtree] at h; simp [ctxBefore, ctxAfter, ih l h]
      | R => simp only [subtree] at h; simp [ctxBefore, ctxAfter, ih r h]

theorem entryAt_of_subtree {t : Tree} {p : Path} {c a k v b} (h : subtree t p = node c a k v b) :
    entryAt t p = some (k, v) := by simp [entryAt, h]

@[simp] theorem entryAt_L (c l k v r p) : entryAt (node c l k v r) (L :: p) = entryAt l p := rfl
@[simp] theorem entryAt_R (c l k v r p) : entryAt (node c l k v r) (R :: p) = entryAt r p := rfl
@[simp] theorem entryAt_root (c l k v r) : entryAt (node c l k v r) [] = some (k, v) := rfl

/-! ### `tree_min` / `tree_max` -/
theorem treeMin_spec (t : Tree) (h : t ≠ nil) :
    ∃ c k v b, subtree t (treeMinPath t) = node c nil k v b ∧ ctxBefore t (treeMinPath t) = [] := by
  induction t with
  | nil => exact absurd rfl h
  | node c l k v r ihl _ =>
    cases l with
    | nil => exact ⟨c, k, v, r, rfl, rfl⟩
    | node lc ll lk lv lr =>
      obtain ⟨c', k', v', b', h1, h2⟩ := ihl (by simp)
      exact ⟨c', k', v', b', by simpa [treeMinPath, subtree] using h1, by simpa [treeMinPath, ctxBefore] using h2⟩

theorem treeMax_spec (t : Tree) (h : t ≠ nil) :
    ∃ c a k v, subtree t (treeMaxPath t) = node c a k v nil ∧ ctxAfter t (treeMaxPath t) = [] := by
  induction t with
  | nil => exact absurd rfl h
  | node c l k v r _ ihr =>
    cases r with
    | nil => exact ⟨c, l, k, v, rfl, rfl⟩
    | node rc rl rk rv rr =>
      obtain ⟨c', a', k', v', h1, h2⟩ := ihr (by simp)
      exact ⟨c', a', k', v', by simpa [treeMaxPath, subtree] using h1, by simpa [treeMaxPath, ctxAfter] using h2⟩

/-! ### the climbing loops -/
theorem climbFromRight_snoc_L (xs : List Dir) :
    climbFromRight (xs ++ [L]) = match climbFromRight xs with | some r => some (r ++ [L]) | none => some [] := by
  induction xs with
  | nil => rfl
  | cons d xs ih => cases d <;> simp [climbFromRight, ih]
theorem climbFromRight_snoc_R (xs : List Dir) :
    climbFromRight (xs ++ [R]) = (climbFromRight xs).map (· ++ [R]) := by
  induction xs with
  | nil => rfl
  | cons d xs ih => cases d <;> simp [climbFromRight, ih]
theorem climbFromLeft_snoc_R (xs : List Dir) :
    climbFromLeft (xs ++ [R]) = match climbFromLeft xs with | some r => some (r ++ [R]) | none => some [] := by
  induction xs with
  | nil => rfl
  | cons d xs ih => cases d <;> simp [climbFromLeft, ih]
theorem climbFromLeft_snoc_L (xs : List Dir) :
    climbFromLeft (xs ++ [L]) = (climbFromLeft xs).map (· ++ [L]) := by
  induction xs with
  | nil => rfl
  | cons d xs ih => cases d <;> simp [climbFromLeft, ih]

/-! ### `get_successor_node` one level up -/
theorem succPath_L (c l k v r) (q : Path) (hq : subtree l q ≠ nil) :
    succPath (node c l k v r) (L :: q) = match succPath l q with | some s => some (L :: s) | none => some [] := by
  unfold succPath
  simp only [subtree]
  cases hs : subtree l q with
  | nil => exact absurd hs hq
  | node c' a k' v' b =>
    simp only []
    split
    · simp
    · simp only [List.reverse_cons, climbFromRight_snoc_L]
      cases climbFromRight q.reverse <;> simp

theorem succPath_R (c l k v r) (q : Path) :
    succPath (node c l k v r) (R :: q) = (succPath r q).map (R :: ·) := by
  unfold succPath
  simp only [subtree]
  cases hs : subtree r q with
  | nil => rfl
  | node c' a k' v' b =>
    simp only []
    split
    · simp
    · simp only [List.reverse_cons, climbFromRight_snoc_R]
      cases climbFromRight q.reverse <;> simp

theorem predPath_R (c l k v r) (q : Path) (hq : subtree r q ≠ nil) :
    predPath (node c l k v r) (R :: q) = match predPath r q with | some s => some (R :: s) | none => some [] := by
  unfold predPath
  simp only [subtree]
  cases hs : subtree r q with
  | nil => exact absurd hs hq
  | node c' a k' v' b =>
    simp only []
    split
    · simp
    · simp only [List.reverse_cons, climbFromLeft_snoc_R]
      cases climbFromLeft q.reverse <;> simp

theorem predPath_L (c l k v r) (q : Path) :
    predPath (node c l k v r) (L :: q) = (predPath l q).map (L :: ·) := by
  unfold predPath
  simp only [subtree]
  cases hs : subtree l q with
  | nil => rfl
  | node c' a k' v' b =>
    simp only []
    split
    · simp
    · simp only [List.reverse_cons, climbFromLeft_snoc_L]
      cases climbFromLeft q.reverse <;> simp

/-- **`get_successor_node` is the in-order successor**: from the node at `p` it arrives at the node whose
entry is the next one of the in-order walk (and everything before / after shifts by exactly that entry);
it returns the sentinel exactly when nothing follows.  No assumption on the tree. -/
theorem succPath_spec (t : Tree) (p : Path) {c a k v b} (h : subtree t p = node c a k v b) :
    match succPath t p with
    | some s => ∃ e, entryAt t s = some e ∧ ctxBefore t s = ctxBefore t p ++ [(k, v)] ∧
        ctxAfter t p = e :: ctxAfter t s
    | none => ctxAfter t p = [] := by
  induction p generalizing t with
  | nil =>
    simp only [subtree] at h; subst h
    unfold succPath; simp only [subtree]
    by_cases hb : b = nil
    · subst hb; simp [climbFromRight, ctxAfter]
    · simp only [ne_eq, hb, not_false_eq_true, if_true, List.nil_append]
      obtain ⟨c', k', v', b', h1, h2⟩ := treeMin_spec b hb
      refine ⟨(k', v'), by simpa using entryAt_of_subtree h1, by simp [ctxBefore, h2], ?_⟩
      have := toList_split b _ h1
      rw [h2] at this
      simpa [ctxAfter] using this
  | cons d q ih =>
    cases t with
    | nil => simp [subtree] at h
    | node c' l k' v' r =>
      cases d with
      | L =>
        simp only [subtree] at h
        have := ih l h
        rw [succPath_L _ _ _ _ _ _ (by rw [h]; simp)]
        cases hs : succPath l q with
        | some s =>
          rw [hs] at this
          obtain ⟨e, h1, h2, h3⟩ := this
          exact ⟨e, by simpa using h1, by simpa [ctxBefore] using h2, by simp [ctxAfter, h3]⟩
        | none =>
          rw [hs] at this
          simp only at this
          refine ⟨(k', v'), rfl, ?_, by simp [ctxAfter, this]⟩
          have hsplit := toList_split l q h
          rw [this] at hsplit
          simp [ctxBefore, hsplit]
      | R =>
        simp only [subtree] at h
        have := ih r h
        rw [succPath_R]
        cases hs : succPath r q with
        | some s =>
          rw [hs] at this
          obtain ⟨e, h1, h2, h3⟩ := this
          exact ⟨e, by simpa using h1, by simp [ctxBefore, h2], by simpa [ctxAfter] using h3⟩
        | none =>
          rw [hs] at this
          simpa [ctxAfter] using this

/-- **`get_predecessor_node` is the in-order predecessor** -/
theorem predPath_spec (t : Tree) (p : Path) {c a k v b} (h : subtree t p = node c a k v b) :
    match predPath t p with
    | some s => ∃ e, entryAt t s = some e ∧ ctxAfter t s = (k, v) :: ctxAfter t p ∧
        ctxBefore t p = ctxBefore t s ++ [e]
    | none => ctxBefore t p = [] := by
  induction p generalizing t with
  | nil =>
    simp only [subtree] at h; subst h
    unfold predPath; simp only [subtree]
    by_cases ha : a = nil
    · subst ha; simp [climbFromLeft, ctxBefore]
    · simp only [ne_eq, ha, not_false_eq_true, if_true, List.nil_append]
      obtain ⟨c', a', k', v', h1, h2⟩ := treeMax_spec a ha
      refine ⟨(k', v'), by simpa using entryAt_of_subtree h1, by simp [ctxAfter, h2], ?_⟩
      have := toList_split a _ h1
      rw [h2] at this
      simpa [ctxBefore] using this
  | cons d q ih =>
    cases t with
    | nil => simp [subtree] at h
    | node c' l k' v' r =>
      cases d with
      | R =>
        simp only [subtree] at h
        have := ih r h
        rw [predPath_R _ _ _ _ _ _ (by rw [h]; simp)]
        cases hs : predPath r q with
        | some s =>
          rw [hs] at this
          obtain ⟨e, h1, h2, h3⟩ := this
          exact ⟨e, by simpa using h1, by simpa [ctxAfter] using h2, by simp [ctxBefore, h3]⟩
        | none =>
          rw [hs] at this
          simp only at this
          refine ⟨(k', v'), rfl, ?_, by simp [ctxBefore, this]⟩
          have hsplit := toList_split r q h
          rw [this] at hsplit
          simp [ctxAfter, hsplit]
      | L =>
        simp only [subtree] at h
        have := ih l h
        rw [predPath_L]
        cases hs : predPath l q with
        | some s =>
          rw [hs] at this
          obtain ⟨e, h1, h2, h3⟩ := this
          exact ⟨e, by simpa using h1, by simp [ctxAfter, h2], by simpa [ctxBefore] using h3⟩
        | none =>
          rw [hs] at this
          simpa [ctxBefore] using this
end CC.Tree

/-! ## the walks compute the in-order neighbours of a key -/
namespace CC.Tree
open Colour Dir CC.Spec CC.Spec.OrdMap
variable {cmp : Nat → Nat → Int}

theorem succEntryAt_eq (t : Tree) (p : Path) {c a k v b} (h : subtree t p = node c a k v b) :
    succEntryAt t p = (ctxAfter t p).head? := by
  have := succPath_spec t p h
  unfold succEntryAt
  cases hs : succPath t p with
  | some s => rw [hs] at this; obtain ⟨e, h1, _, h3⟩ := this; simp [h1, h3]
  | none => rw [hs] at this; simp only at this; simp [this]

theorem predEntryAt_eq (t : Tree) (p : Path) {c a k v b} (h : subtree t p = node c a k v b) :
    predEntryAt t p = (ctxBefore t p).getLast? := by
  have := predPath_spec t p h
  unfold predEntryAt
  cases hs : predPath t p with
  | some s => rw [hs] at this; obtain ⟨e, h1, _, h3⟩ := this; simp [h1, h3]
  | none => rw [hs] at this; simp only at this; simp [this]

/-! ### the in-order neighbours on a list with pairwise different keys -/
theorem nextAfter_split (b : List (Nat × Nat)) (k v : Nat) (a : List (Nat × Nat)) (hk : ∀ e ∈ b, e.1 ≠ k) :
    nextAfter (b ++ (k, v) :: a) k = a.head? := by
  induction b with
  | nil => simp [nextAfter]
  | cons e b ih =>
    have := hk e (by simp)
    simp only [List.cons_append, nextAfter, this, if_false]
    exact ih (fun x hx => hk x (by simp [hx]))

theorem prevBefore_split (b : List (Nat × Nat)) (k v : Nat) (a : List (Nat × Nat)) (hk : ∀ e ∈ a, e.1 ≠ k) :
    prevBefore (b ++ (k, v) :: a) k = b.getLast? := by
  unfold prevBefore
  have : (b ++ (k, v) :: a).reverse = a.reverse ++ (k, v) :: b.reverse := by simp
  rw [this, nextAfter_split _ _ _ _ (fun e he => hk e (by simpa using he))]
  exact List.head?_reverse

/-! ### which node the descent and a node pointer denote -/
theorem findPath_spec (h : TotalOrder cmp) (k : Nat) (t : Tree) {p : Path} (hp : findPath cmp k t = some p) :
    ∃ c a v b, subtree t p = node c a k v b := by
  induction t generalizing p with
  | nil => simp [findPath] at hp
  | node c l key val r ihl ihr =>
    unfold findPath at hp
    split at hp
    · obtain ⟨q, hq, rfl⟩ := Option.map_eq_some_iff.1 hp
      exact ihl hq
    · split at hp
      · obtain ⟨q, hq, rfl⟩ := Option.map_eq_some_iff.1 hp
        exact ihr hq
      · rename_i h1 h2
        have := h.eq_of_not h1 h2
        simp only [Option.some.injEq] at hp
        subst hp; subst this
        exact ⟨c, l, val, r, rfl⟩

/-- the descent that counts comparator calls and the descent that returns the node agree -/
theorem find_eq_findPath (k : Nat) (t : Tree) :
    (find cmp k t).1 = ((findPath cmp k t).bind (entryAt t)).map (·.2) := by
  induction t with
  | nil => rfl
  | node c l key val r ihl ihr =>
    unfold find findPath
    split
    · rw [ihl]; cases findPath cmp k l <;> rfl
    · split
      · rw [ihr]; cases findPath cmp k r <;> rfl
      · rfl

theorem posOf_spec (k : Nat) (t : Tree) {p : Path} (hp : posOf k t = some p) :
    ∃ c a v b, subtree t p = node c a k v b := by
  induction t generalizing p with
  | nil => simp [posOf] at hp
  | node c l key val r ihl ihr =>
    unfold posOf at hp
    split at hp
    · rename_i hk; simp only [Option.some.injEq] at hp; subst hp; subst hk; exact ⟨c, l, val, r, rfl⟩
    · cases hl : posOf k l with
      | some q => rw [hl] at hp; simp only [Option.some.injEq] at hp; subst hp; exact ihl hl
      | none =>
        rw [hl] at hp
        obtain ⟨q, hq, rfl⟩ := Option.map_eq_some_iff.1 hp
        exact ihr hq

theorem posOf_none (k : Nat) (t : Tree) (hp : posOf k t = none) : ∀ e ∈ toList t, e.1 ≠ k := by
  induction t with
  | nil => intro e he; simp at he
  | node c l key val r ihl ihr =>
    unfold posOf at hp
    split at hp
    · simp at hp
    · rename_i hk
      cases hl : posOf k l with
      | some q => rw [hl] at hp; simp at hp
      | none =>
        rw [hl] at hp
        have hr : posOf k r = none := by simpa using hp
        intro e he
        simp only [toList_node, List.mem_append, List.mem_cons] at he
        rcases he with he | rfl | he
        · exact ihl hl e he
        · exact hk
        · exact ihr hr e he

/-- in a tree with pairwise different keys a position is determined by its key: the in-order context
of the node holding `k` is the unique split of the entry list at `k` -/
theorem split_unique {b1 a1 b2 a2 : List (Nat × Nat)} {k v1 v2 : Nat}
    (hnd : ((b1 ++ (k, v1) :: a1).map (·.1)).Nodup) (he : b1 ++ (k, v1) :: a1 = b2 ++ (k, v2) :: a2) :
    b1 = b2 ∧ v1 = v2 ∧ a1 = a2 := by
  induction b1 generalizing b2 with
  | nil =>
    cases b2 with
    | nil => simp only [List.nil_append, List.cons.injEq, Prod.mk.injEq, true_and] at he; exact ⟨rfl, he.1, he.2⟩
    | cons e b2 =>
      exfalso
      simp only [List.nil_append, List.cons_append, List.cons.injEq] at he
      simp only [List.nil_append, List.map_cons, List.nodup_cons] at hnd
      apply hnd.1
      rw [he.2]; simp
  | cons e b1 ih =>
    cases b2 with
    | nil =>
      exfalso
      simp only [List.nil_append, List.cons_append, List.cons.injEq] at he
      simp only [List.cons_append, List.map_cons, List.nodup_cons] at hnd
      apply hnd.1
      rw [he.1]; simp
    | cons e2 b2 =>
      simp only [List.cons_append, List.cons.injEq] at he
      simp only [List.cons_append, List.map_cons, List.nodup_cons] at hnd
      obtain ⟨x, y, z⟩ := ih hnd.2 he.2
      exact ⟨by rw [he.1, x], y, z⟩

theorem keys_ne_of_nodup_split {b a : List (Nat × Nat)} {k v : Nat}
    (hnd : ((b ++ (k, v) :: a).map (·.1)).Nodup) : (∀ e ∈ b, e.1 ≠ k) ∧ (∀ e ∈ a, e.1 ≠ k) := by
  simp only [List.map_append, List.map_cons] at hnd
  have h1 := List.nodup_append.1 hnd
  have h2 := List.nodup_cons.1 h1.2.1
  constructor
  · intro e he hk
    exact h1.2.2 e.1 (List.mem_map.2 ⟨e, he, rfl⟩) k (by simp) hk
  · intro e he hk
    exact h2.1 (hk ▸ List.mem_map.2 ⟨e, he, rfl⟩)

/-- the successor walk from the node holding `k` arrives at the in-order neighbour -/
theorem succEntryAt_eq_nextAfter (t : Tree) (hnd : (t.toList.map (·.1)).Nodup) (p : Path) {c a k v b}
    (h : subtree t p = node c a k v b) :
    succEntryAt t p = nextAfter t.toList k ∧ predEntryAt t p = prevBefore t.toList k := by
  have hs := toList_split t p h
  rw [hs] at hnd
  have hne := keys_ne_of_nodup_split hnd
  rw [succEntryAt_eq t p h, predEntryAt_eq t p h, hs, nextAfter_split _ _ _ _ hne.1, prevBefore_split _ _ _ _ hne.2]
  exact ⟨rfl, rfl⟩

theorem bst_nodup (h : TotalOrder cmp) {t : Tree} (hb : BST cmp t) : (t.toList.map (·.1)).Nodup := by
  have : (keys t.toList).Pairwise (fun a b => cmp a b < 0) := by
    unfold keys; rw [List.pairwise_map]; exact hb
  exact this.imp (fun x => h.ne_of_lt x)

/-- **`get_greater_than` / `get_lesser_than`**: descent to the node, then the pointer walk, give the
in-order neighbours of the key -/
theorem succOfKey_eq (h : TotalOrder cmp) {t : Tree} (hb : BST cmp t) (k : Nat)
    (hk : (findPath cmp k t).isSome) :
    succOfKey cmp t k = nextAfter t.toList k ∧ predOfKey cmp t k = prevBefore t.toList k := by
  obtain ⟨p, hp⟩ := Option.isSome_iff_exists.1 hk
  obtain ⟨c, a, v, b, hs⟩ := findPath_spec h k t hp
  have := succEntryAt_eq_nextAfter t (bst_nodup h hb) p hs
  simp only [succOfKey, predOfKey, hp, Option.bind_some]
  exact this

/-- the same for a node pointer held by an iterator -/
theorem succOfNode_eq {t : Tree} (hnd : (t.toList.map (·.1)).Nodup) (k : Nat) (hk : k ∈ t.toList.map (·.1)) :
    succOfNode t k = nextAfter t.toList k := by
  cases hp : posOf k t with
  | none =>
    obtain ⟨e, he, hek⟩ := List.mem_map.1 hk
    exact absurd hek (posOf_none k t hp e he)
  | some p =>
    obtain ⟨c, a, v, b, hs⟩ := posOf_spec k t hp
    simp only [succOfNode, hp, Option.bind_some]
    exact (succEntryAt_eq_nextAfter t hnd p hs).1

/-- dereferencing a node pointer gives the value the map holds for that key -/
theorem entry_posOf_eq_lookup {t : Tree} (hnd : (t.toList.map (·.1)).Nodup) (k : Nat) :
    ((posOf k t).bind (entryAt t)).map (·.2) = lookup t.toList k := by
  cases hp : posOf k t with
  | none =>
    simp only [Option.bind_none, Option.map_none]
    exact (lookup_none_of_ne (posOf_none k t hp)).symm
  | some p =>
    obtain ⟨c, a, v, b, hs⟩ := posOf_spec k t hp
    have hsp := toList_split t p hs
    rw [hsp] at hnd
    have hne := keys_ne_of_nodup_split hnd
    simp only [Option.bind_some, entryAt_of_subtree hs, Option.map_some]
    rw [hsp, lookup_append, lookup_none_of_ne hne.1]
    simp [lookup]

/-! ### the enumeration loop -/
theorem walkFrom_eq (t : Tree) (n : Nat) (p : Path) {c a k v b} (h : subtree t p = node c a k v b) :
    walkFrom t n (some p) = ((k, v) :: ctxAfter t p).take n := by
  induction n generalizing p c a k v b with
  | zero => rfl
  | succ n ih =>
    simp only [walkFrom, entryAt_of_subtree h, List.take_succ_cons, List.cons.injEq, true_and]
    have := succPath_spec t p h
    cases hs : succPath t p with
    | none =>
      rw [hs] at this; simp only at this
      rw [this]; cases n <;> rfl
    | some s =>
      rw [hs] at this
      obtain ⟨e, h1, _, h3⟩ := this
      rw [h3]
      unfold entryAt at h1
      cases hsub : subtree t s with
      | nil => rw [hsub] at h1; simp at h1
      | node c' a' k' v' b' =>
        rw [hsub] at h1; simp only [Option.some.injEq] at h1; subst h1
        exact ih s hsub

/-- **the `tree_min` + `get_successor_node` loop of `foreach_*` / `contains_value` enumerates the in-order
list**: every entry once, in in-order -/
theorem walk_eq_toList (t : Tree) : walk t = toList t := by
  unfold walk minPos
  cases t with
  | nil => rfl
  | node c l k v r =>
    simp only []
    obtain ⟨c', k', v', b', h1, h2⟩ := treeMin_spec (node c l k v r) (by simp)
    rw [walkFrom_eq _ _ _ h1]
    have := toList_split _ _ h1
    rw [h2] at this
    simp only [List.nil_append] at this
    rw [← this, size_eq_length, List.take_length]

/-! ### cost of the walk -/
theorem length_add_height_le (t : Tree) (p : Path) (h : subtree t p ≠ nil) :
    p.length + height (subtree t p) ≤ height t := by
  induction p generalizing t with
  | nil => simp [subtree]
  | cons d q ih =>
    cases t with
    | nil => simp [subtree] at h
    | node c l k v r =>
      cases d with
      | L => simp only [subtree] at h ⊢; have := ih l h; simp only [height, List.length_cons]; omega
      | R => simp only [subtree] at h ⊢; have := ih r h; simp only [height, List.length_cons]; omega

theorem treeMinPath_length (t : Tree) (h : t ≠ nil) : (treeMinPath t).length + 1 ≤ height t := by
  induction t with
  | nil => exact absurd rfl h
  | node c l k v r ihl _ =>
    cases l with
    | nil => simp [treeMinPath, height]
    | node lc ll lk lv lr =>
      have := ihl (by simp)
      simp only [treeMinPath, List.length_cons, height] at this ⊢
      omega

/-- the successor walk makes no comparator call and looks at no more nodes than the tree is high -/
theorem succVisits_le_height (t : Tree) (p : Path) : succVisits t p ≤ height t := by
  unfold succVisits
  cases hs : subtree t p with
  | nil => exact Nat.zero_le _
  | node c a k v b =>
    have hl := length_add_height_le t p (by rw [hs]; simp)
    rw [hs] at hl
    simp only []
    split
    · rename_i hb
      have := treeMinPath_length b hb
      simp only [height] at hl
      omega
    · simp only [height] at hl; omega
end CC.Tree
