import CollectionsC.Proofs.HashTable
/-! The hash-table iterator (C07): `iter_init`/`iter_next` walk the buckets in order and yield every
entry exactly once; `iter_remove` removes the entry just yielded and leaves the cursor in front of
the same pending entries. -/
set_option maxHeartbeats 1600000
namespace CC.HashTable
open CC CC.HT CC.Spec

theorem find_range' (p : Nat → Bool) (d s : Nat) :
    (∀ i, (List.range' s d).find? p = some i → s ≤ i ∧ i < s + d ∧ p i = true ∧ ∀ j, s ≤ j → j < i → p j = false) ∧
    ((List.range' s d).find? p = none → ∀ j, s ≤ j → j < s + d → p j = false) := by
  induction d generalizing s with
  | zero => simp; intro j h1 h2; omega
  | succ d ih =>
    rw [List.range'_succ, List.find?_cons]
    cases hp : p s with
    | true =>
      simp only [Option.some.injEq, reduceCtorEq, false_imp_iff, and_true]
      intro i hi; subst hi
      exact ⟨by omega, by omega, hp, fun j h1 h2 => by omega⟩
    | false =>
      simp only
      obtain ⟨ih1, ih2⟩ := ih (s + 1)
      constructor
      · intro i hi
        obtain ⟨a, b, c', d'⟩ := ih1 i hi
        refine ⟨by omega, by omega, c', ?_⟩
        intro j h1 h2
        by_cases hj : j = s
        · rw [hj]; exact hp
        · exact d' j (by omega) h2
      · intro hn j h1 h2
        by_cases hj : j = s
        · rw [hj]; exact hp
        · exact ih2 hn j (by omega) (by omega)

theorem range_drop (n s : Nat) : (List.range n).drop s = List.range' s (n - s) := by
  rw [List.range_eq_range', List.drop_range']; simp

theorem findBucketFrom_some (t : HashTable) (s i : Nat) (h : t.findBucketFrom s = some i) :
    s ≤ i ∧ i < t.capacity ∧ t.bucket i ≠ [] ∧ ∀ j, s ≤ j → j < i → t.bucket j = [] := by
  unfold findBucketFrom at h
  rw [range_drop] at h
  obtain ⟨a, b, c', d⟩ := (find_range' _ _ _).1 i h
  refine ⟨a, by omega, ?_, ?_⟩
  · intro he; rw [he] at c'; simp at c'
  · intro j h1 h2
    have := d j h1 h2
    simpa using this

theorem findBucketFrom_none (t : HashTable) (s : Nat) (h : t.findBucketFrom s = none) :
    ∀ j, s ≤ j → j < t.capacity → t.bucket j = [] := by
  unfold findBucketFrom at h
  rw [range_drop] at h
  intro j h1 h2
  have := (find_range' _ _ _).2 h j h1 (by omega)
  simpa using this

theorem drop_flatten_skip (bs : List (List Entry)) (s i : Nat) (hsi : s ≤ i) (hi : i ≤ bs.length)
    (hempty : ∀ j, s ≤ j → j < i → bs.getD j [] = []) : (bs.drop s).flatten = (bs.drop i).flatten := by
  induction hd : i - s generalizing s with
  | zero => have : s = i := by omega
            rw [this]
  | succ d ih =>
    have hs : s < bs.length := by omega
    rw [List.drop_eq_getElem_cons hs, List.flatten_cons]
    have := hempty s (Nat.le_refl _) (by omega)
    rw [getD_eq_getElem _ _ hs] at this
    rw [this, List.nil_append]
    exact ih (s + 1) (by omega) (fun j h1 h2 => hempty j (by omega) h2) (by omega)

theorem drop_flatten_cons (bs : List (List Entry)) (i : Nat) (hi : i < bs.length) :
    (bs.drop i).flatten = bs.getD i [] ++ (bs.drop (i + 1)).flatten := by
  rw [List.drop_eq_getElem_cons hi, List.flatten_cons, getD_eq_getElem _ _ hi]


/-- the cursor stands in front of the pending entries `todo`: `next_entry` points to the first of
them, inside chain `bucket_index`, and the rest of that chain followed by all later buckets is
`todo` -/
def ItInv (t : HashTable) (it : HIter) (todo : List Entry) : Prop :=
  match it.next with
  | none => todo = []
  | some k => it.bucketIndex < t.buckets.length ∧ ∃ pre e rest, t.bucket it.bucketIndex = pre ++ e :: rest ∧
      e.key = k ∧ (∀ x ∈ pre, x.key ≠ k) ∧ todo = (e :: rest) ++ (t.buckets.drop (it.bucketIndex + 1)).flatten

theorem dropWhile_pre (pre : List Entry) (e : Entry) (rest : List Entry) (k : Key)
    (hpre : ∀ x ∈ pre, x.key ≠ k) (he : e.key = k) :
    (pre ++ e :: rest).dropWhile (fun x => x.key != k) = e :: rest := by
  induction pre with
  | nil => simp [he]
  | cons a l ih =>
    have ha : (a.key != k) = true := by simpa using hpre a (by simp)
    simp only [List.cons_append, List.dropWhile_cons, ha, if_true]
    exact ih (fun x hx => hpre x (by simp [hx]))

/-- position of the cursor after the first non-empty bucket at or after `s` was looked up -/
theorem ItInv_of_find (t : HashTable) (hlen : t.buckets.length = t.capacity) (s bi : Nat) (prev : Option (Option Nat))
    (hs : s ≤ t.buckets.length) :
    (∀ i, t.findBucketFrom s = some i →
      ItInv t { bucketIndex := i, prev := prev, next := (t.bucket i).head?.map (·.key) } (t.buckets.drop s).flatten) ∧
    (t.findBucketFrom s = none → ItInv t { bucketIndex := bi, prev := prev, next := none } (t.buckets.drop s).flatten) := by
  constructor
  · intro i hf
    obtain ⟨h1, h2, h3, h4⟩ := findBucketFrom_some t s i hf
    have hi : i < t.buckets.length := by omega
    rw [drop_flatten_skip t.buckets s i h1 (by omega) h4, drop_flatten_cons _ _ hi]
    unfold ItInv
    cases hb : t.bucket i with
    | nil => exact absurd hb h3
    | cons e rest =>
      simp only [List.head?_cons, Option.map_some]
      refine ⟨hi, [], e, rest, by simp [hb], rfl, by simp, ?_⟩
      unfold bucket at hb; rw [hb]
  · intro hf
    have := findBucketFrom_none t s hf
    unfold ItInv; simp only
    rw [drop_flatten_skip t.buckets s t.buckets.length hs (Nat.le_refl _) (fun j h1 h2 => this j h1 (by omega))]
    simp

/-- `cc_hashtable_iter_init` puts the cursor in front of the whole walk -/
theorem iterInit_spec (c : HCfg) (t : HashTable) (m : Mem) (h : t.Inv c) :
    ItInv t (t.iterInit m).1 t.buckets.flatten ∧ (t.iterInit m).2 = m ∧ (t.iterInit m).1.prev = none := by
  obtain ⟨hcap, hlen, hsize, hok, hnd, hthr⟩ := h
  have hchk : decide (t.capacity ≤ t.buckets.length) = true := by simp; omega
  obtain ⟨f1, f2⟩ := ItInv_of_find t hlen 0 0 none (by omega)
  simp only [List.drop_zero] at f1 f2
  unfold iterInit
  simp only [hchk, Mem.check_true]
  cases hf : t.findBucketFrom 0 with
  | none => exact ⟨f2 hf, rfl, rfl⟩
  | some i => exact ⟨f1 i hf, rfl, rfl⟩

/-- `cc_hashtable_iter_next`: END exactly when nothing is pending; otherwise it yields the first
pending entry, remembers it as `prev_entry` and moves in front of the remaining ones; no fault,
nothing allocated -/
theorem iterNext_spec (c : HCfg) (t : HashTable) (it : HIter) (m : Mem) (todo : List Entry)
    (h : t.Inv c) (hit : ItInv t it todo) :
    (todo = [] → t.iterNext it m = (.iterEnd, none, it, m)) ∧
    (∀ e rest, todo = e :: rest →
      (t.iterNext it m).1 = .ok ∧ (t.iterNext it m).2.1 = some e ∧ (t.iterNext it m).2.2.2 = m ∧
      (t.iterNext it m).2.2.1.prev = some e.key ∧ ItInv t (t.iterNext it m).2.2.1 rest) := by
  obtain ⟨hcap, hlen, hsize, hok, hnd, hthr⟩ := h
  have hchk : decide (t.capacity ≤ t.buckets.length) = true := by simp; omega
  unfold ItInv at hit
  unfold iterNext
  cases hn : it.next with
  | none =>
    rw [hn] at hit
    simp only
    exact ⟨fun _ => trivial, fun e rest he => by rw [hit] at he; cases he⟩
  | some k =>
    rw [hn] at hit
    obtain ⟨hbi, pre, e, rest, hb, hek, hpre, htodo⟩ := hit
    simp only
    rw [hb, dropWhile_pre pre e rest k hpre hek]
    constructor
    · intro h0; rw [h0] at htodo; cases htodo
    · intro e' rest' he'
      rw [htodo] at he'
      simp only [List.cons_append, List.cons.injEq] at he'
      obtain ⟨he1, he2⟩ := he'
      subst he1
      cases rest with
      | cons e2 rest2 =>
        simp only
        refine ⟨trivial, trivial, trivial, by rw [hek], ?_⟩
        unfold ItInv; simp only
        refine ⟨hbi, pre ++ [e], e2, rest2, by simp [hb], rfl, ?_, by rw [← he2]⟩
        -- keys of one chain are pairwise distinct
        have hndX := nodup_bucket t.buckets _ hbi hnd
        rw [← getD_eq_getElem _ _ hbi] at hndX
        have hb' : t.buckets.getD it.bucketIndex [] = pre ++ e :: e2 :: rest2 := hb
        rw [hb'] at hndX
        simp only [List.map_append, List.map_cons] at hndX
        have hnd2 := List.nodup_append.mp hndX
        intro x hx hxk
        rcases List.mem_append.mp hx with hx | hx
        · exact hnd2.2.2 x.key (List.mem_map_of_mem hx) e2.key (by simp) hxk
        · simp only [List.mem_singleton] at hx
          subst hx
          have := (List.nodup_cons.mp hnd2.2.1).1
          apply this; rw [hxk]; simp
      | nil =>
        simp only [hchk, Mem.check_true]
        obtain ⟨f1, f2⟩ := ItInv_of_find t hlen (it.bucketIndex + 1) it.bucketIndex (some k) (by omega)
        simp only [List.nil_append] at he2
        cases hf : t.findBucketFrom (it.bucketIndex + 1) with
        | none =>
          simp only
          exact ⟨trivial, trivial, trivial, by rw [hek], by rw [← he2]; exact f2 hf⟩
        | some i =>
          simp only
          exact ⟨trivial, trivial, trivial, by rw [hek], by rw [← he2]; exact f1 i hf⟩



/-- the bucket array after `cc_hashtable_remove` -/
theorem remove_buckets (c : HCfg) (t : HashTable) (key : Key) (m : Mem) (h : t.Inv c) :
    (t.remove c key m).2.2.1.buckets =
      t.buckets.set (t.index (keyHash c key)) ((t.bucket (t.index (keyHash c key))).filter (fun e => e.key != key)) := by
  obtain ⟨hcap, hlen, hsize, hok, hnd, hthr⟩ := h
  have hi := index_lt t (keyHash c key) hcap
  have hi' : t.index (keyHash c key) < t.buckets.length := by omega
  have hbk : t.bucket (t.index (keyHash c key)) = t.buckets[t.index (keyHash c key)] := getD_eq_getElem _ _ hi'
  unfold remove
  simp only
  cases hr : chainRemove (t.bucket (t.index (keyHash c key))) key with
  | none =>
    have hX := (chainRemove_eq_none _ _).mp hr
    simp only
    rw [filter_of_ne key _ hX, hbk, List.set_getElem_self]
  | some r =>
    obtain ⟨v, ch'⟩ := r
    have hndX := nodup_bucket t.buckets _ hi' hnd
    rw [← hbk] at hndX
    obtain ⟨hch, _⟩ := chainRemove_eq_some _ key v ch' hndX hr
    simp only
    rw [hch]

/-- `ItInv` does not look at `prev_entry` -/
theorem ItInv_prev (t : HashTable) (it : HIter) (todo : List Entry) (p : Option (Option Nat)) :
    ItInv t { it with prev := p } todo ↔ ItInv t it todo := by
  unfold ItInv; exact Iff.rfl

/-- `cc_hashtable_iter_remove` with no yielded entry at hand (before the first `next`, or after the
yielded entry was already removed through the iterator): `CC_ERR_KEY_NOT_FOUND`, everything unchanged -/
theorem iterRemove_no_prev (c : HCfg) (t : HashTable) (it : HIter) (m : Mem) (hp : it.prev = none) :
    t.iterRemove c it m = (.errKeyNotFound, none, t, it, m) := by
  unfold iterRemove; rw [hp]

/-- `cc_hashtable_iter_remove` is `cc_hashtable_remove` of the entry just yielded, after which
`prev_entry` is NULL; the cursor still stands in front of the same pending entries (none of which has
the removed key) -/
theorem iterRemove_spec (c : HCfg) (t : HashTable) (it : HIter) (m : Mem) (todo : List Entry) (k : Key)
    (h : t.Inv c) (hit : ItInv t it todo) (hp : it.prev = some k) (hk : ∀ e ∈ todo, e.key ≠ k) :
    ((t.iterRemove c it m).1 = (t.remove c k m).1 ∧ (t.iterRemove c it m).2.1 = (t.remove c k m).2.1 ∧
     (t.iterRemove c it m).2.2.1 = (t.remove c k m).2.2.1 ∧ (t.iterRemove c it m).2.2.2.2 = (t.remove c k m).2.2.2 ∧
     (t.iterRemove c it m).2.2.2.1 = (if (t.remove c k m).1 = .ok then { it with prev := none } else it)) ∧
    ItInv (t.remove c k m).2.2.1 it todo := by
  constructor
  · unfold iterRemove; rw [hp]; exact ⟨rfl, rfl, rfl, rfl, rfl⟩
  have hb := remove_buckets c t k m h
  obtain ⟨hcap, hlen, hsize, hok, hnd, hthr⟩ := h
  have hi := index_lt t (keyHash c k) hcap
  have hi' : t.index (keyHash c k) < t.buckets.length := by omega
  have hbk : t.bucket (t.index (keyHash c k)) = t.buckets[t.index (keyHash c k)] := getD_eq_getElem _ _ hi'
  unfold ItInv at hit ⊢
  cases hn : it.next with
  | none => rw [hn] at hit; simpa using hit
  | some k2 =>
    rw [hn] at hit
    obtain ⟨hbi, pre, e, rest, hbe, hek, hpre, htodo⟩ := hit
    simp only
    by_cases hX : ∀ x ∈ t.bucket (t.index (keyHash c k)), x.key ≠ k
    · -- nothing to remove in that chain: the bucket array is unchanged
      have : (t.remove c k m).2.2.1.buckets = t.buckets := by
        rw [hb, filter_of_ne k _ hX, hbk, List.set_getElem_self]
      unfold bucket; rw [this]
      exact ⟨hbi, pre, e, rest, hbe, hek, hpre, htodo⟩
    · -- the removed entry lives in chain i; it is not pending, so i ≤ bucket_index
      have hle : t.index (keyHash c k) ≤ it.bucketIndex := by
        apply Classical.byContradiction
        intro hgt
        apply hX
        intro x hx
        apply hk x
        rw [htodo]
        apply List.mem_append_right
        obtain ⟨j, hj⟩ : ∃ j, t.index (keyHash c k) = it.bucketIndex + 1 + j := ⟨t.index (keyHash c k) - it.bucketIndex - 1, by omega⟩
        apply List.mem_flatten.mpr
        refine ⟨t.bucket (t.index (keyHash c k)), ?_, hx⟩
        rw [hbk, List.mem_drop_iff_getElem]
        exact ⟨j, by omega, by simp only [hj]⟩
      have hdrop : ((t.remove c k m).2.2.1.buckets).drop (it.bucketIndex + 1) = t.buckets.drop (it.bucketIndex + 1) := by
        rw [hb, List.drop_set_of_lt (by omega)]
      have hlen' : ((t.remove c k m).2.2.1.buckets).length = t.buckets.length := by rw [hb]; simp
      rw [hdrop, hlen']
      unfold bucket
      rw [hb, getD_set _ _ _ _ hi']
      by_cases hib : t.index (keyHash c k) = it.bucketIndex
      · rw [if_pos hib, hib]
        have hbe' : t.bucket it.bucketIndex = pre ++ e :: rest := hbe
        rw [hbe']
        refine ⟨hbi, pre.filter (fun e => e.key != k), e, rest, ?_, hek, ?_, htodo⟩
        · have he : (e.key != k) = true := by
            have := hk e (by rw [htodo]; simp)
            simpa using this
          have hrest : ∀ x ∈ rest, x.key ≠ k := fun x hx => hk x (by rw [htodo]; simp [hx])
          rw [List.filter_append, List.filter_cons, he, if_pos rfl, filter_of_ne k rest hrest]
        · intro x hx; exact hpre x (List.mem_filter.mp hx).1
      · rw [if_neg hib]
        exact ⟨hbi, pre, e, rest, hbe, hek, hpre, htodo⟩



/-- an iterator-driving program: one `iter_next` per flag, followed by `iter_remove` when the call
yielded an entry and the flag is set; stops at END.  Returns the yielded entries. -/
def drive (c : HCfg) : List Bool → HashTable → HIter → Mem → List Entry × HashTable × HIter × Mem
  | [], t, it, m => ([], t, it, m)
  | b :: bs, t, it, m =>
    let r := t.iterNext it m
    match r.2.1 with
    | none => ([], t, r.2.2.1, r.2.2.2)
    | some e =>
      let q : HashTable × HIter × Mem :=
        if b then ((t.iterRemove c r.2.2.1 r.2.2.2).2.2.1, (t.iterRemove c r.2.2.1 r.2.2.2).2.2.2.1,
                   (t.iterRemove c r.2.2.1 r.2.2.2).2.2.2.2) else (t, r.2.2.1, r.2.2.2)
      let rest := drive c bs q.1 q.2.1 q.2.2
      (e :: rest.1, rest.2)

/-- keys removed by a program: those of the yielded entries whose flag is set -/
def removedKeys : List Entry → List Bool → List Key
  | e :: es, b :: bs => if b then e.key :: removedKeys es bs else removedKeys es bs
  | _, _ => []

theorem ItInv_mem (t : HashTable) (it : HIter) (e : Entry) (rest : List Entry) (h : ItInv t it (e :: rest)) :
    e ∈ t.buckets.flatten := by
  unfold ItInv at h
  cases hn : it.next with
  | none => rw [hn] at h; cases h
  | some k =>
    rw [hn] at h
    obtain ⟨hbi, pre, e', rest', hbe, hek, hpre, htodo⟩ := h
    simp only [List.cons_append, List.cons.injEq] at htodo
    apply mem_flatten_of_getD _ _ it.bucketIndex
    have : t.buckets.getD it.bucketIndex [] = pre ++ e' :: rest' := hbe
    rw [this, htodo.1]; simp

theorem drive_spec (c : HCfg) (bs : List Bool) (t : HashTable) (it : HIter) (m : Mem) (todo : List Entry)
    (h : t.Inv c) (hit : ItInv t it todo) (hnd : (todo.map (·.key)).Nodup) (hl : t.size + 2 ≤ liveOf m t.triple) :
    (drive c bs t it m).1 = todo.take bs.length ∧
    (drive c bs t it m).2.1.Inv c ∧
    (drive c bs t it m).2.1.abs = t.abs.filter (fun p => !(removedKeys todo bs).contains p.1) ∧
    ItInv (drive c bs t it m).2.1 (drive c bs t it m).2.2.1 (todo.drop bs.length) ∧
    (drive c bs t it m).2.2.2.fault = m.fault ∧
    liveOf (drive c bs t it m).2.2.2 t.triple + (removedKeys todo bs).length = liveOf m t.triple ∧
    (drive c bs t it m).2.1.size + (removedKeys todo bs).length = t.size ∧
    (drive c bs t it m).2.1.triple = t.triple := by
  induction bs generalizing t it m todo with
  | nil =>
    refine ⟨by simp [drive], h, ?_, by simpa [drive] using hit, rfl, by simp [drive, removedKeys], by simp [drive, removedKeys], rfl⟩
    simp only [drive]
    have : removedKeys todo [] = [] := by cases todo <;> rfl
    rw [this]; simp only [List.contains_nil, Bool.not_false]; exact (List.filter_eq_self.mpr (fun _ _ => rfl)).symm
  | cons b bs ih =>
    obtain ⟨n1, n2⟩ := iterNext_spec c t it m todo h hit
    cases todo with
    | nil =>
      have := n1 rfl
      simp only [drive, this]
      refine ⟨by simp, h, ?_, by simpa using hit, trivial, by simp [removedKeys], by simp [removedKeys], trivial⟩
      simp only [removedKeys, List.contains_nil, Bool.not_false]; exact (List.filter_eq_self.mpr (fun _ _ => rfl)).symm
    | cons e rest =>
      obtain ⟨s1, s2, s3, s4, s5⟩ := n2 e rest rfl
      have hnd' : (rest.map (·.key)).Nodup := (List.nodup_cons.mp hnd).2
      have hne : ∀ x ∈ rest, x.key ≠ e.key := by
        intro x hx hxe
        apply (List.nodup_cons.mp hnd).1
        have := List.mem_map_of_mem (f := fun x : Entry => x.key) hx
        rw [hxe] at this; exact this
      simp only [drive, s2, s3]
      cases b with
      | false =>
        simp only [Bool.false_eq_true, if_false]
        obtain ⟨r1, r2, r3, r4, r5, r6, r7, r8⟩ := ih t (t.iterNext it m).2.2.1 m rest h s5 hnd' hl
        refine ⟨by simp [r1], r2, ?_, by simpa using r4, r5, ?_, ?_, r8⟩
        · rw [r3]; simp [removedKeys]
        · simpa [removedKeys] using r6
        · simpa [removedKeys] using r7
      | true =>
        simp only [if_true]
        obtain ⟨⟨_, _, q13, q14, q15⟩, q2⟩ := iterRemove_spec c t (t.iterNext it m).2.2.1 m rest e.key h s5 s4 hne
        have hcont : Map.contains t.abs e.key = true := (contains_abs_iff t e.key).mpr ⟨e, ItInv_mem t it e rest hit, rfl⟩
        obtain ⟨p1, p2, p3, p4, p5, p6, p7, p8, p9, p10⟩ := remove_spec c t e.key m h (fun _ => by omega)
        have hfound : (t.remove c e.key m).1 = .ok := by
          rw [p4]
          unfold Map.contains at hcont
          rw [if_pos hcont]
        rw [q13, q14, q15, if_pos hfound]
        obtain ⟨p6a, p6b⟩ := p6 hfound
        have q2' := (ItInv_prev (t.remove c e.key m).2.2.1 (t.iterNext it m).2.2.1 rest none).mpr q2
        obtain ⟨r1, r2, r3, r4, r5, r6, r7, r8⟩ := ih (t.remove c e.key m).2.2.1 _ (t.remove c e.key m).2.2.2 rest p1 q2' hnd' (by rw [p10]; omega)
        rw [p10] at r6 r8
        refine ⟨by simp [r1], r2, ?_, by simpa using r4, by rw [r5, p7], ?_, ?_, r8⟩
        · rw [r3, p2]
          unfold Map.erase
          rw [List.filter_filter]
          apply List.filter_congr
          intro p _
          simp only [removedKeys, if_true, List.contains_cons]
          cases hh : (p.1 == e.key) <;> simp [hh, bne, Bool.and_comm]
        · simp only [removedKeys, if_true, List.length_cons]; omega
        · simp only [removedKeys, if_true, List.length_cons]; omega

/-- **C07 for the hash table.** From any table satisfying the invariant, a fresh iterator driven by
any program of `next`/`remove` steps (at most one removal per yielded entry) yields the entries of
the walk in order — every entry exactly once when the program is long enough — the table ends up
holding exactly the entries whose removal was not requested, and the next call reports the end. -/
theorem iter_program (c : HCfg) (t : HashTable) (m : Mem) (bs : List Bool) (h : t.Inv c) (hl : t.size + 2 ≤ liveOf m t.triple) :
    let it0 := (t.iterInit m).1
    let r := drive c bs t it0 m
    r.1 = t.buckets.flatten.take bs.length ∧ r.2.1.Inv c ∧
    r.2.1.abs = t.abs.filter (fun p => !(removedKeys t.buckets.flatten bs).contains p.1) ∧
    r.2.2.2.fault = m.fault ∧
    (t.buckets.flatten.length ≤ bs.length → r.1 = t.buckets.flatten ∧
       r.2.1.iterNext r.2.2.1 r.2.2.2 = (.iterEnd, none, r.2.2.1, r.2.2.2)) := by
  intro it0 r
  obtain ⟨i1, i2, i3⟩ := iterInit_spec c t m h
  obtain ⟨d1, d2, d3, d4, d5, d6, d7⟩ := drive_spec c bs t it0 m t.buckets.flatten h i1 h.2.2.2.2.1 hl
  refine ⟨d1, d2, d3, d5, ?_⟩
  intro hlen
  refine ⟨by rw [d1, List.take_of_length_le hlen], ?_⟩
  rw [List.drop_of_length_le hlen] at d4
  exact (iterNext_spec c _ _ _ [] d2 d4).1 rfl



/-! ### arbitrary iterator programs -/

/-- iterator calls of a program -/
inductive IterOp where
  | next
  | remove
  deriving DecidableEq, Repr

/-- what an iterator call returns: status, yielded entry (`next`), removed value (`remove`) -/
abbrev IterOut := Stat × Option Entry × Option Nat

/-- one iterator call on the model -/
def iterStep (c : HCfg) (t : HashTable) (it : HIter) (op : IterOp) (m : Mem) : IterOut × HashTable × HIter × Mem :=
  match op with
  | .next => (((t.iterNext it m).1, (t.iterNext it m).2.1, none), t, (t.iterNext it m).2.2.1, (t.iterNext it m).2.2.2)
  | .remove => (((t.iterRemove c it m).1, none, (t.iterRemove c it m).2.1), (t.iterRemove c it m).2.2.1,
      (t.iterRemove c it m).2.2.2.1, (t.iterRemove c it m).2.2.2.2)

/-- an arbitrary iterator program: any sequence of `next` and `remove` calls — `remove` before the
first `next`, repeated `remove`, `remove` after END are all legal calls -/
def iterRun (c : HCfg) : List IterOp → HashTable → HIter → Mem → List IterOut × HashTable × HIter × Mem
  | [], t, it, m => ([], t, it, m)
  | op :: ops, t, it, m =>
    let s := iterStep c t it op m
    let r := iterRun c ops s.2.1 s.2.2.1 s.2.2.2
    (s.1 :: r.1, r.2)

/-- the ideal cursor over a map: the entries still to yield and the entry last yielded, as long as it
has not been removed through the cursor -/
structure Cursor where
  todo : List Entry
  last : Option Entry

/-- one call on the ideal cursor -/
def Cursor.step (cur : Cursor) (mp : Map) : IterOp → IterOut × Cursor × Map
  | .next =>
    match cur.todo with
    | [] => ((.iterEnd, none, none), cur, mp)
    | e :: rest => ((.ok, some e, none), { todo := rest, last := some e }, mp)
  | .remove =>
    match cur.last with
    | none => ((.errKeyNotFound, none, none), cur, mp)
    | some e => ((.ok, none, some e.value), { cur with last := none }, Map.erase mp e.key)

def Cursor.run (cur : Cursor) (mp : Map) : List IterOp → List IterOut × Cursor × Map
  | [] => ([], cur, mp)
  | op :: ops =>
    let s := cur.step mp op
    let r := Cursor.run s.2.1 s.2.2 ops
    (s.1 :: r.1, r.2)

/-- the C cursor stands where the ideal cursor stands -/
def CurRel (t : HashTable) (it : HIter) (cur : Cursor) : Prop :=
  ItInv t it cur.todo ∧ it.prev = cur.last.map (·.key) ∧ (cur.todo.map (·.key)).Nodup ∧
  ∀ e, cur.last = some e → e ∈ t.buckets.flatten ∧ ∀ x ∈ cur.todo, x.key ≠ e.key

theorem lookup_of_mem (c : HCfg) (t : HashTable) (h : t.Inv c) (e : Entry) (he : e ∈ t.buckets.flatten) :
    Map.lookup t.abs e.key = some e.value := by
  have wf : Map.WF t.abs := by unfold Map.WF; rw [abs_eq, keys_map_pair]; exact h.2.2.2.2.1
  rw [Map.lookup_eq_some_iff _ wf]
  exact List.mem_map.mpr ⟨e, he, rfl⟩

/-- **one iterator call refines one call of the ideal cursor**, whatever the call -/
theorem iterStep_refines (c : HCfg) (t : HashTable) (it : HIter) (op : IterOp) (m : Mem) (cur : Cursor)
    (h : t.Inv c) (hr : CurRel t it cur) (hl : t.size + 2 ≤ liveOf m t.triple) :
    (iterStep c t it op m).1 = (cur.step t.abs op).1 ∧
    (iterStep c t it op m).2.1.abs = (cur.step t.abs op).2.2 ∧
    (iterStep c t it op m).2.1.Inv c ∧
    CurRel (iterStep c t it op m).2.1 (iterStep c t it op m).2.2.1 (cur.step t.abs op).2.1 ∧
    (iterStep c t it op m).2.2.2.fault = m.fault ∧
    liveOf (iterStep c t it op m).2.2.2 t.triple + t.size = liveOf m t.triple + (iterStep c t it op m).2.1.size ∧
    (iterStep c t it op m).2.1.triple = t.triple ∧
    ((iterStep c t it op m).1.1 ≠ .ok → (iterStep c t it op m).2 = (t, it, m)) := by
  obtain ⟨r1, r2, r3, r4⟩ := hr
  obtain ⟨todo, last⟩ := cur
  simp only at r1 r2 r3 r4
  cases op with
  | next =>
    obtain ⟨n1, n2⟩ := iterNext_spec c t it m todo h r1
    cases todo with
    | nil =>
      have := n1 rfl
      simp only [iterStep, Cursor.step, this]
      exact ⟨trivial, trivial, h, ⟨r1, r2, r3, r4⟩, trivial, trivial, trivial, fun _ => trivial⟩
    | cons e rest =>
      obtain ⟨s1, s2, s3, s4, s5⟩ := n2 e rest rfl
      simp only [iterStep, Cursor.step, s1, s2, s3]
      refine ⟨trivial, trivial, h, ⟨s5, by simp [s4], (List.nodup_cons.mp r3).2, ?_⟩, trivial, trivial, trivial, fun hne => absurd rfl hne⟩
      intro e' he'
      simp only [Option.some.injEq] at he'
      subst he'
      refine ⟨ItInv_mem t it e rest r1, ?_⟩
      intro x hx hxe
      apply (List.nodup_cons.mp r3).1
      have := List.mem_map_of_mem (f := fun x : Entry => x.key) hx
      rw [hxe] at this; exact this
  | remove =>
    cases last with
    | none =>
      have hp : it.prev = none := by simpa using r2
      simp only [iterStep, Cursor.step, iterRemove_no_prev c t it m hp]
      exact ⟨trivial, trivial, h, ⟨r1, r2, r3, r4⟩, trivial, trivial, trivial, fun _ => trivial⟩
    | some e =>
      have hp : it.prev = some e.key := by simpa using r2
      obtain ⟨he, hk⟩ := r4 e rfl
      obtain ⟨⟨q11, q12, q13, q14, q15⟩, q2⟩ := iterRemove_spec c t it m todo e.key h r1 hp hk
      have hlk := lookup_of_mem c t h e he
      obtain ⟨p1, p2, p3, p4, p5, p6, p7, p8, p9, p10⟩ := remove_spec c t e.key m h (fun _ => by omega)
      have hfound : (t.remove c e.key m).1 = .ok := by rw [p4, hlk]; rfl
      obtain ⟨p6a, p6b⟩ := p6 hfound
      simp only [iterStep, Cursor.step]
      rw [q11, q12, q13, q14, q15, if_pos hfound, hfound, p3, hlk]
      refine ⟨rfl, p2, p1, ⟨(ItInv_prev _ it todo none).mpr q2, rfl, r3, fun _ h => by cases h⟩, p7, by omega, p10, fun hne => absurd rfl hne⟩

/-- **any iterator program refines the ideal cursor**: same statuses, yielded entries and removed
values; the table then holds the cursor's map; invariant, no fault, balanced ledger -/
theorem iterRun_refines (c : HCfg) (ops : List IterOp) (t : HashTable) (it : HIter) (m : Mem) (cur : Cursor)
    (h : t.Inv c) (hr : CurRel t it cur) (hl : t.size + 2 ≤ liveOf m t.triple) :
    (iterRun c ops t it m).1 = (cur.run t.abs ops).1 ∧
    (iterRun c ops t it m).2.1.abs = (cur.run t.abs ops).2.2 ∧
    (iterRun c ops t it m).2.1.Inv c ∧
    CurRel (iterRun c ops t it m).2.1 (iterRun c ops t it m).2.2.1 (cur.run t.abs ops).2.1 ∧
    (iterRun c ops t it m).2.2.2.fault = m.fault ∧
    liveOf (iterRun c ops t it m).2.2.2 t.triple + t.size = liveOf m t.triple + (iterRun c ops t it m).2.1.size ∧
    (iterRun c ops t it m).2.1.triple = t.triple := by
  induction ops generalizing t it m cur with
  | nil => exact ⟨rfl, rfl, h, hr, rfl, rfl, rfl⟩
  | cons op ops ih =>
    obtain ⟨s1, s2, s3, s4, s5, s6, s7, _⟩ := iterStep_refines c t it op m cur h hr hl
    obtain ⟨i1, i2, i3, i4, i5, i6, i7⟩ := ih (iterStep c t it op m).2.1 (iterStep c t it op m).2.2.1
      (iterStep c t it op m).2.2.2 (cur.step t.abs op).2.1 s3 s4 (by rw [s7]; omega)
    rw [s7] at i6 i7
    rw [s2] at i1 i2 i4
    simp only [iterRun, Cursor.run]
    refine ⟨by rw [s1, i1], i2, i3, i4, by rw [i5, s5], by omega, i7⟩

/-- a fresh iterator stands where the ideal cursor over the whole walk stands -/
theorem iterInit_curRel (c : HCfg) (t : HashTable) (m : Mem) (h : t.Inv c) :
    CurRel t (t.iterInit m).1 ⟨t.buckets.flatten, none⟩ := by
  obtain ⟨i1, _, i3⟩ := iterInit_spec c t m h
  exact ⟨i1, by simp [i3], h.2.2.2.2.1, fun _ h => by cases h⟩

end CC.HashTable
