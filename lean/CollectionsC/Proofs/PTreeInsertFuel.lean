import CollectionsC.Proofs.PTreeInsertLoop
set_option linter.unusedSimpArgs false
set_option linter.unusedVariables false
namespace CC.PTree
open CC
open CC.Tree (Path Dir)

/-- **the fuel of the fix-up loop is adequate**: once the fuel covers the depth of `z`, more fuel changes nothing —
the loop has reached its exit condition (`z`'s parent not red), it has not merely run out of steps -/
theorem rebalInsertLoop_fuel (f : Nat) : ∀ (st : PT) (T : ITree) (q : Path) (z : Nat) (zl : ITree) (zk zv : Nat)
    (zr : ITree), Represents st T → T.subtree q = .node z .red zl zk zv zr → (q = [] ∨ T.col = .black) →
    q.length ≤ f →
    ∀ k, rebalInsertLoop (f + k) st z = rebalInsertLoop f st z := by
  induction f with
  | zero =>
    intro st T q z zl zk zv zr h hz _ hl k
    have hq : q = [] := by cases q with
                          | nil => rfl
                          | cons a b => simp at hl
    subst hq
    have rz := (h.get_at [] hz).1
    have hstop : (st.heap.get (st.heap.get z).parent).color ≠ .red := by
      rw [rz]; simp only [parentAt, if_true]; rw [h.black]; simp
    rw [insert_loop_stop st z _ hstop, insert_loop_stop st z _ hstop]
  | succ f ih =>
    intro st T q z zl zk zv zr h hz hroot hlen k
    have hk : f + 1 + k = (f + k) + 1 := by omega
    obtain ⟨rz, z0⟩ := h.get_at q hz
    by_cases hq2 : 2 ≤ q.length
    · obtain ⟨g, d1, d2, rfl⟩ := path_two q hq2
      obtain ⟨gi, cg, A, kg, vg, B, p, cp, pl, pk, pv, pr, hg, hp, hzp⟩ := ITree.subtree_two T g d1 d2 hz
      have hne : T.subtree g ≠ .nil := by rw [hg]; simp
      have hAt := At.of_represents h g hne
      rw [hg] at hAt
      have hTcol : T.col = .black := by rcases hroot with h0 | h0; · simp at h0
                                        · exact h0
      have hlen' : g.length ≤ f := by simp at hlen; omega
      -- the parent's colour
      have rp := (hAt.get [d1] hp).1
      have hzpar : (st.heap.get z).parent = p := by
        have := (hAt.get [d1, d2] (by rw [show [d1, d2] = [d1] ++ [d2] from rfl, ITree.subtree_append, hp]; exact hzp)).1
        rw [this]; simp [List.dropLast, hp]
      by_cases hcp : cp = .red
      · subst hcp
        -- finishing a terminal case
        have fin : ∀ (st' : PT) (z' : Nat) (G' : ITree), (∀ f', rebalInsertLoop (f' + 1) st z = rebalInsertLoop f' st' z') →
            At st' T g G' → (∀ f', rebalInsertLoop f' st' z' = st') →
            G'.erase.toList = (ITree.node gi cg A kg vg B).erase.toList →
            G'.ids.Perm (ITree.node gi cg A kg vg B).ids →
            rebalInsertLoop (f + 1 + k) st z = rebalInsertLoop (f + 1) st z := by
          intro st' z' G' e1 hA e2 hl hp'
          rw [hk, e1, e1, e2, e2]
        -- continuing after case 1
        have cont : ∀ (st' : PT) (G' : ITree) (a b : ITree), (∀ f', rebalInsertLoop (f' + 1) st z = rebalInsertLoop f' st' gi) →
            At st' T g G' → G' = .node gi .red a kg vg b →
            G'.erase.toList = (ITree.node gi cg A kg vg B).erase.toList →
            G'.ids.Perm (ITree.node gi cg A kg vg B).ids →
            rebalInsertLoop (f + 1 + k) st z = rebalInsertLoop (f + 1) st z := by
          intro st' G' a b e1 hA hG' hl hp'
          have facts := ITree.replace_facts T g G' hne (by rw [hg]; exact hl) (by rw [hg]; exact hp')
          have hsub : (T.replace g G').subtree g = .node gi .red a kg vg b := by
            rw [ITree.subtree_replace T g G' hne, hG']
          have hr' : g = [] ∨ (T.replace g G').col = .black := by
            by_cases hg0 : g = []
            · exact Or.inl hg0
            · exact Or.inr (by rw [facts.2.2 hg0]; exact hTcol)
          have := ih st' (T.replace g G') g gi a kg vg b hA.rep hsub hr' hlen' k
          rw [hk, e1, e1]; exact this
        cases d1 with
        | L =>
          simp only [ITree.subtree_L, ITree.subtree_root] at hp
          subst hp
          -- the uncle
          rcases hB : B with _ | ⟨yi, _ | _, yl, yk, yv, yr⟩
          all_goals rw [hB] at hAt
          · cases d2 with
            | L =>
              simp only [ITree.subtree_L, ITree.subtree_root] at hzp; subst hzp
              obtain ⟨st', e1, hA⟩ := insert_step_L_case3 hAt rfl
              exact fin st' z _ e1 hA (fun f' => stop_after hA f' rfl .L rfl) (by rw [hB]; tl_eq) (by rw [hB]; ids_perm)
            | R =>
              simp only [ITree.subtree_R, ITree.subtree_root] at hzp; subst hzp
              obtain ⟨st', e1, hA⟩ := insert_step_L_case2 hAt rfl
              exact fin st' p _ e1 hA (fun f' => stop_after hA f' rfl .L rfl) (by rw [hB]; tl_eq) (by rw [hB]; ids_perm)
          · obtain ⟨st', e1, hA⟩ := insert_step_L_case1 hAt d2 hzp
            exact cont st' _ _ _ e1 hA rfl (by rw [hB]; tl_eq) (by rw [hB]; first | exact List.Perm.refl _ | ids_perm)
          · cases d2 with
            | L =>
              simp only [ITree.subtree_L, ITree.subtree_root] at hzp; subst hzp
              obtain ⟨st', e1, hA⟩ := insert_step_L_case3 hAt rfl
              exact fin st' z _ e1 hA (fun f' => stop_after hA f' rfl .L rfl) (by rw [hB]; tl_eq) (by rw [hB]; ids_perm)
            | R =>
              simp only [ITree.subtree_R, ITree.subtree_root] at hzp; subst hzp
              obtain ⟨st', e1, hA⟩ := insert_step_L_case2 hAt rfl
              exact fin st' p _ e1 hA (fun f' => stop_after hA f' rfl .L rfl) (by rw [hB]; tl_eq) (by rw [hB]; ids_perm)
        | R =>
          simp only [ITree.subtree_R, ITree.subtree_root] at hp
          subst hp
          -- the uncle
          rcases hB : A with _ | ⟨yi, _ | _, yl, yk, yv, yr⟩
          all_goals rw [hB] at hAt
          · cases d2 with
            | R =>
              simp only [ITree.subtree_R, ITree.subtree_root] at hzp; subst hzp
              obtain ⟨st', e1, hA⟩ := insert_step_R_case3 hAt rfl
              exact fin st' z _ e1 hA (fun f' => stop_after hA f' rfl .R rfl) (by rw [hB]; tl_eq) (by rw [hB]; ids_perm)
            | L =>
              simp only [ITree.subtree_L, ITree.subtree_root] at hzp; subst hzp
              obtain ⟨st', e1, hA⟩ := insert_step_R_case2 hAt rfl
              exact fin st' p _ e1 hA (fun f' => stop_after hA f' rfl .R rfl) (by rw [hB]; tl_eq) (by rw [hB]; ids_perm)
          · obtain ⟨st', e1, hA⟩ := insert_step_R_case1 hAt d2 hzp
            exact cont st' _ _ _ e1 hA rfl (by rw [hB]; tl_eq) (by rw [hB]; first | exact List.Perm.refl _ | ids_perm)
          · cases d2 with
            | R =>
              simp only [ITree.subtree_R, ITree.subtree_root] at hzp; subst hzp
              obtain ⟨st', e1, hA⟩ := insert_step_R_case3 hAt rfl
              exact fin st' z _ e1 hA (fun f' => stop_after hA f' rfl .R rfl) (by rw [hB]; tl_eq) (by rw [hB]; ids_perm)
            | L =>
              simp only [ITree.subtree_L, ITree.subtree_root] at hzp; subst hzp
              obtain ⟨st', e1, hA⟩ := insert_step_R_case2 hAt rfl
              exact fin st' p _ e1 hA (fun f' => stop_after hA f' rfl .R rfl) (by rw [hB]; tl_eq) (by rw [hB]; ids_perm)
      · -- black parent: the loop stops
        have hst : (st.heap.get (st.heap.get z).parent).color ≠ .red := by rw [hzpar, rp]; exact hcp
        rw [insert_loop_stop st z _ hst, insert_loop_stop st z _ hst]
    · -- `z` is the root or a child of the (black) root: the parent is not red
      have hstop : (st.heap.get (st.heap.get z).parent).color ≠ .red := by
        rw [rz]
        rcases path_cases q with h0 | ⟨q1, d, rfl⟩
        · subst h0; simp only [parentAt, if_true]; rw [h.black]; simp
        · have hq1 : q1 = [] := by
            cases q1 with
            | nil => rfl
            | cons e q1' => simp at hq2
          subst hq1
          have hTcol : T.col = .black := by rcases hroot with h0 | h0; · simp at h0
                                            · exact h0
          cases T with
          | nil => simp at hz
          | node r c l k v rr =>
            have := (h.get_at [] (ITree.subtree_root _)).1
            simp only [ITree.col_node] at hTcol
            simp only [parentAt, List.nil_append, List.cons_ne_nil, if_false, List.dropLast, ITree.subtree_root,
              ITree.rid_node, this, hTcol]; simp
      rw [insert_loop_stop st z _ hstop, insert_loop_stop st z _ hstop]
end CC.PTree
