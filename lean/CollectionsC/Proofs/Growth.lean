/-! Geometric growth: the abstract capacity process shared by array, sized array, priority queue,
stack (via array), deque, queue (via deque) and the hash table's bucket array.

An append first grows the capacity (`cap := grow cap`) when `size = cap` (the C code tests
`size >= capacity`), then stores the element.  If every growth step at least doubles the capacity
(`2 * c ≤ grow c`: the default factor 2, the deque's and hash table's `<< 1`), then `n` appends
perform at most `log2 (size + n) + 1` buffer reallocations. -/
namespace CC.Growth

structure St where
  size : Nat
  cap  : Nat
  reallocs : Nat
  deriving Repr, DecidableEq

/-- `n` appends starting from `(size, cap)` -/
def appends (grow : Nat → Nat) : Nat → Nat → Nat → St
  | size, cap, 0 => ⟨size, cap, 0⟩
  | size, cap, n + 1 =>
    if size < cap then appends grow (size + 1) cap n
    else
      let r := appends grow (size + 1) (grow cap) n
      ⟨r.size, r.cap, r.reallocs + 1⟩

theorem appends_spec (grow : Nat → Nat) (hg : ∀ c, 2 * c ≤ grow c) (n : Nat) :
    ∀ size cap, size ≤ cap → 1 ≤ cap →
      (appends grow size cap n).size = size + n ∧
      (appends grow size cap n).size ≤ (appends grow size cap n).cap ∧
      cap ≤ (appends grow size cap n).cap ∧
      (1 ≤ (appends grow size cap n).reallocs →
        2 ^ ((appends grow size cap n).reallocs - 1) * cap ≤ size + n - 1) := by
  induction n with
  | zero => intro size cap h1 h2; simp [appends]; exact h1
  | succ n ih =>
    intro size cap h1 h2
    unfold appends
    split
    · rename_i hlt
      obtain ⟨a, b, c, d⟩ := ih (size + 1) cap (by omega) h2
      refine ⟨by omega, b, c, ?_⟩
      intro hk
      have := d hk
      omega
    · rename_i hge
      have hsc : size = cap := by omega
      have hgc := hg cap
      obtain ⟨a, b, c, d⟩ := ih (size + 1) (grow cap) (by omega) (by omega)
      refine ⟨by simp only; omega, b, by simp only; omega, ?_⟩
      intro _
      simp only [Nat.add_sub_cancel]
      by_cases hk : 1 ≤ (appends grow (size + 1) (grow cap) n).reallocs
      · have h3 := d hk
        have h4 : 2 ^ ((appends grow (size + 1) (grow cap) n).reallocs - 1) * (2 * cap) ≤
            2 ^ ((appends grow (size + 1) (grow cap) n).reallocs - 1) * grow cap :=
          Nat.mul_le_mul_left _ hgc
        have h5 : 2 ^ (appends grow (size + 1) (grow cap) n).reallocs =
            2 ^ ((appends grow (size + 1) (grow cap) n).reallocs - 1) * 2 := by
          rw [← Nat.pow_succ]; congr 1; omega
        rw [h5, Nat.mul_assoc]
        omega
      · have : (appends grow (size + 1) (grow cap) n).reallocs = 0 := by omega
        rw [this]; simp; omega

/-- **Logarithmic number of reallocations.** -/
theorem reallocs_le_log (grow : Nat → Nat) (hg : ∀ c, 2 * c ≤ grow c) (size cap n : Nat)
    (h1 : size ≤ cap) (h2 : 1 ≤ cap) :
    (appends grow size cap n).reallocs ≤ Nat.log2 (size + n) + 1 := by
  obtain ⟨_, _, _, d⟩ := appends_spec grow hg n size cap h1 h2
  by_cases hk : 1 ≤ (appends grow size cap n).reallocs
  · have h3 := d hk
    have h4 : 2 ^ ((appends grow size cap n).reallocs - 1) ≤ size + n := by
      have : 2 ^ ((appends grow size cap n).reallocs - 1) * 1 ≤
          2 ^ ((appends grow size cap n).reallocs - 1) * cap := Nat.mul_le_mul_left _ h2
      omega
    have hne : size + n ≠ 0 := by
      have : 0 < 2 ^ ((appends grow size cap n).reallocs - 1) := Nat.pow_pos (by omega)
      omega
    have := (Nat.le_log2 hne).mpr h4
    omega
  · omega

end CC.Growth
