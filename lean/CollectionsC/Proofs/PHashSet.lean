import CollectionsC.Proofs.PHashWF
import CollectionsC.Proofs.HashSet
import CollectionsC.Proofs.HashSetIter
/-! Pointer-level hash set: `cc_hashset_*` as thin calls into the pointer-level table (`Model/PHash.lean`) with the
dummy value, histories and iterator programs on it, and their commutation with `Model/HashSet.lean`. -/
namespace CC.PHash
open CC CC.HT CC.Spec

/-- `struct cc_hashset_s`: the table and the allocator triple of the header -/
structure PSet where
  table  : PTable
  triple : Triple

namespace PSet

/-- `cc_hashset_add`: `cc_hashtable_add(set->table, element, set->dummy)` -/
def add (c : HCfg) (s : PSet) (e : Option Nat) (m : Mem) : Stat × PSet × Mem :=
  ((s.table.add c e HashSet.dummy m).1, { s with table := (s.table.add c e HashSet.dummy m).2.1 }, (s.table.add c e HashSet.dummy m).2.2)
/-- `cc_hashset_remove` -/
def remove (c : HCfg) (s : PSet) (e : Option Nat) (m : Mem) : Stat × Option Nat × PSet × Mem :=
  ((s.table.remove c e m).1, (s.table.remove c e m).2.1, { s with table := (s.table.remove c e m).2.2.1 }, (s.table.remove c e m).2.2.2)
/-- `cc_hashset_remove_all` -/
def removeAll (s : PSet) (m : Mem) : PSet × Mem := ({ s with table := (s.table.removeAll m).1 }, (s.table.removeAll m).2)
/-- `cc_hashset_contains` -/
def contains (c : HCfg) (s : PSet) (e : Option Nat) (m : Mem) : Bool × Mem := s.table.containsKey c e m
/-- `cc_hashset_size` -/
def size (s : PSet) : Nat := s.table.size
/-- `cc_hashset_iter_init / iter_next / iter_remove`: the table iterator -/
def iterInit (s : PSet) (m : Mem) : PIter × Mem := s.table.iterInit m
def iterNext (s : PSet) (it : PIter) (m : Mem) : Stat × Option Nat × PIter × Mem := s.table.iterNext it m
def iterRemove (c : HCfg) (s : PSet) (it : PIter) (m : Mem) : Stat × Option Nat × PSet × PIter × Mem :=
  ((s.table.iterRemove c it m).1, (s.table.iterRemove c it m).2.1, { s with table := (s.table.iterRemove c it m).2.2.1 },
   (s.table.iterRemove c it m).2.2.2.1, (s.table.iterRemove c it m).2.2.2.2)

/-- the bucket-list set read off the heap -/
def toSet (s : PSet) : HashSet := ⟨PTable.toTable s.table, s.triple⟩

/-- one call of the public API -/
def step (c : HCfg) (s : PSet) (op : Set.Op) (m : Mem) : Map.Out × PSet × Mem :=
  match op with
  | .add e => (⟨some (s.add c e m).1, none⟩, (s.add c e m).2.1, (s.add c e m).2.2)
  | .contains e => (⟨none, some (if (s.contains c e m).1 then 1 else 0)⟩, s, (s.contains c e m).2)
  | .remove e => (⟨some (s.remove c e m).1, none⟩, (s.remove c e m).2.2.1, (s.remove c e m).2.2.2)
  | .removeAll => (⟨none, none⟩, (s.removeAll m).1, (s.removeAll m).2)

def run (c : HCfg) (s : PSet) (ops : List Set.Op) (m : Mem) : List Map.Out × List (Option Stat) × PSet × Mem :=
  match ops with
  | [] => ([], [], s, m)
  | op :: ops =>
    ((s.step c op m).1 :: (run c (s.step c op m).2.1 ops (s.step c op m).2.2).1,
     HashSet.failedOf op (s.step c op m).1 :: (run c (s.step c op m).2.1 ops (s.step c op m).2.2).2.1,
     (run c (s.step c op m).2.1 ops (s.step c op m).2.2).2.2.1, (run c (s.step c op m).2.1 ops (s.step c op m).2.2).2.2.2)

/-- well-formed pointer-level set: the heap has a shape, and the set read off it satisfies the invariant of
`Model/HashSet.lean` (table invariant, every stored value is the dummy, header and table share the triple) -/
def WF (c : HCfg) (s : PSet) : Prop := (∃ idss, Shape s.table idss) ∧ s.toSet.Inv c

theorem WF.table {c : HCfg} {s : PSet} (h : s.WF c) : PHash.WF c s.table := ⟨h.1, h.2.1⟩

end PSet

theorem lset_remove_table (c : HCfg) (s : HashSet) (e : Option Nat) (m m' : Mem) :
    (s.remove c e m).2.2.1 = (s.remove c e m').2.2.1 := by
  unfold HashSet.remove
  simp only
  rw [lremove_table c s.table e m m']

theorem lset_remove_inv (c : HCfg) (s : HashSet) (e : Option Nat) (m : Mem) (h : s.Inv c) : (s.remove c e m).2.2.1.Inv c := by
  rw [lset_remove_table c s e m { live := 1, liveLibc := 1 }]
  exact (HashSet.remove_spec c s e { live := 1, liveLibc := 1 } h (fun _ => by cases s.triple <;> decide)).1

theorem lset_removeAll_inv (c : HCfg) (s : HashSet) (m : Mem) (h : s.Inv c) : (s.removeAll m).1.Inv c := by
  have : (s.removeAll m).1 = (s.removeAll { live := s.size, liveLibc := s.size }).1 := rfl
  rw [this]
  exact (HashSet.removeAll_spec c s { live := s.size, liveLibc := s.size } h (by cases s.triple <;> exact Nat.le_refl _)).1

/-- every set operation preserves `WF` and is the operation of `Model/HashSet.lean` on the set read off the heap -/
theorem PSet.step_wf (c : HCfg) {s : PSet} (h : s.WF c) (op : Set.Op) (m : Mem) :
    (s.step c op m).2.1.WF c ∧
    ((s.step c op m).1, (s.step c op m).2.1.toSet, (s.step c op m).2.2) = s.toSet.step c op m := by
  have ht := h.table
  cases op with
  | add e =>
    obtain ⟨w, eq, _⟩ := add_wf c ht e HashSet.dummy m
    have heq : ((s.step c (.add e) m).1, (s.step c (.add e) m).2.1.toSet, (s.step c (.add e) m).2.2) =
        s.toSet.step c (.add e) m := by
      unfold PSet.step HashSet.step HashSet.add PSet.add PSet.toSet
      simp only
      rw [← eq]
    refine ⟨⟨w.1, ?_⟩, heq⟩
    have hi := (HashSet.add_spec c s.toSet e m h.2).1
    have h2 : (s.step c (.add e) m).2.1.toSet = (s.toSet.step c (.add e) m).2.1 := by rw [← heq]
    rw [h2]; exact hi
  | contains e =>
    refine ⟨h, ?_⟩
    unfold PSet.step HashSet.step HashSet.contains PSet.contains
    simp only
    rw [containsKey_wf c ht]
    rfl
  | remove e =>
    obtain ⟨w, eq⟩ := remove_wf c ht e m
    have heq : ((s.step c (.remove e) m).1, (s.step c (.remove e) m).2.1.toSet, (s.step c (.remove e) m).2.2) =
        s.toSet.step c (.remove e) m := by
      unfold PSet.step HashSet.step HashSet.remove PSet.remove PSet.toSet
      simp only
      rw [← eq]
    refine ⟨⟨w.1, ?_⟩, heq⟩
    have hi := lset_remove_inv c s.toSet e m h.2
    have h2 : (s.step c (.remove e) m).2.1.toSet = (s.toSet.step c (.remove e) m).2.1 := by rw [← heq]
    rw [h2]; exact hi
  | removeAll =>
    obtain ⟨w, eq⟩ := removeAll_wf c ht m
    have heq : ((s.step c .removeAll m).1, (s.step c .removeAll m).2.1.toSet, (s.step c .removeAll m).2.2) =
        s.toSet.step c .removeAll m := by
      unfold PSet.step HashSet.step HashSet.removeAll PSet.removeAll PSet.toSet
      simp only
      rw [← eq]
    refine ⟨⟨w.1, ?_⟩, heq⟩
    have hi := lset_removeAll_inv c s.toSet m h.2
    have h2 : (s.step c .removeAll m).2.1.toSet = (s.toSet.step c .removeAll m).2.1 := by rw [← heq]
    rw [h2]; exact hi

theorem PSet.run_wf (c : HCfg) (ops : List Set.Op) : ∀ {s : PSet} (_ : s.WF c) (m : Mem),
    (s.run c ops m).2.2.1.WF c ∧
    ((s.run c ops m).1, (s.run c ops m).2.1, (s.run c ops m).2.2.1.toSet, (s.run c ops m).2.2.2) = s.toSet.run c ops m := by
  induction ops with
  | nil => intro s h m; exact ⟨h, rfl⟩
  | cons op ops ih =>
    intro s h m
    obtain ⟨w, e⟩ := PSet.step_wf c h op m
    obtain ⟨w2, e2⟩ := ih w (s.step c op m).2.2
    refine ⟨w2, ?_⟩
    have hr : s.run c (op :: ops) m = ((s.step c op m).1 :: ((s.step c op m).2.1.run c ops (s.step c op m).2.2).1,
        HashSet.failedOf op (s.step c op m).1 :: ((s.step c op m).2.1.run c ops (s.step c op m).2.2).2.1,
        ((s.step c op m).2.1.run c ops (s.step c op m).2.2).2.2.1,
        ((s.step c op m).2.1.run c ops (s.step c op m).2.2).2.2.2) := rfl
    have hl : s.toSet.run c (op :: ops) m =
        ((s.toSet.step c op m).1 :: ((s.toSet.step c op m).2.1.run c ops (s.toSet.step c op m).2.2).1,
        HashSet.failedOf op (s.toSet.step c op m).1 :: ((s.toSet.step c op m).2.1.run c ops (s.toSet.step c op m).2.2).2.1,
        ((s.toSet.step c op m).2.1.run c ops (s.toSet.step c op m).2.2).2.2.1,
        ((s.toSet.step c op m).2.1.run c ops (s.toSet.step c op m).2.2).2.2.2) := rfl
    rw [hr, hl, ← e]
    simp only
    rw [← e2]

/-! ### iterator programs on the set -/

/-- one set-iterator call on the heap (the yielded element is read through the yielded id) -/
def PSet.iterStep (c : HCfg) (s : PSet) (it : PIter) (op : HashTable.IterOp) (m : Mem) : HashSet.SIterOut × PSet × PIter × Mem :=
  match op with
  | .next => (((s.iterNext it m).1, (s.iterNext it m).2.1.map (fun id => (nd s.table.heap id).key)), s,
      (s.iterNext it m).2.2.1, (s.iterNext it m).2.2.2)
  | .remove => (((s.iterRemove c it m).1, none), (s.iterRemove c it m).2.2.1, (s.iterRemove c it m).2.2.2.1,
      (s.iterRemove c it m).2.2.2.2)

def PSet.iterRun (c : HCfg) : List HashTable.IterOp → PSet → PIter → Mem → List HashSet.SIterOut × PSet × PIter × Mem
  | [], s, it, m => ([], s, it, m)
  | op :: ops, s, it, m =>
    ((PSet.iterStep c s it op m).1 ::
      (PSet.iterRun c ops (PSet.iterStep c s it op m).2.1 (PSet.iterStep c s it op m).2.2.1 (PSet.iterStep c s it op m).2.2.2).1,
     (PSet.iterRun c ops (PSet.iterStep c s it op m).2.1 (PSet.iterStep c s it op m).2.2.1 (PSet.iterStep c s it op m).2.2.2).2)

theorem PSet.iterStep_wf (c : HCfg) {s : PSet} (h : PHash.WF c s.table) (it : PIter) (hit : ItWF s.table it)
    (op : HashTable.IterOp) (m : Mem) :
    PHash.WF c (PSet.iterStep c s it op m).2.1.table ∧
    ItWF (PSet.iterStep c s it op m).2.1.table (PSet.iterStep c s it op m).2.2.1 ∧
    (PSet.iterStep c s it op m).2.1.triple = s.triple ∧
    ((PSet.iterStep c s it op m).1, (PSet.iterStep c s it op m).2.1.toSet,
      (PSet.iterStep c s it op m).2.1.table.toIter (PSet.iterStep c s it op m).2.2.1, (PSet.iterStep c s it op m).2.2.2) =
        HashSet.iterStep c s.toSet (s.table.toIter it) op m := by
  obtain ⟨w, iw, e⟩ := piterStep_wf c h it hit op m
  cases op with
  | next =>
    simp only [piterStep, HashTable.iterStep, Prod.mk.injEq] at e w iw
    obtain ⟨⟨e1, e2, _⟩, _, e4, e5⟩ := e
    refine ⟨w, iw, rfl, ?_⟩
    simp only [PSet.iterStep, HashSet.iterStep, HashSet.iterNext, PSet.iterNext, PSet.toSet]
    rw [← e1, ← e2, ← e4, ← e5, Option.map_map]
    rfl
  | remove =>
    simp only [piterStep, HashTable.iterStep, Prod.mk.injEq] at e w iw
    obtain ⟨⟨e1, _, _⟩, e3, e4, e5⟩ := e
    refine ⟨w, iw, rfl, ?_⟩
    simp only [PSet.iterStep, HashSet.iterStep, HashSet.iterRemove, PSet.iterRemove, PSet.toSet]
    rw [← e1, ← e3, ← e4, ← e5]

theorem PSet.iterRun_wf (c : HCfg) (ops : List HashTable.IterOp) : ∀ {s : PSet} (_ : PHash.WF c s.table) (it : PIter)
    (_ : ItWF s.table it) (m : Mem),
    PHash.WF c (PSet.iterRun c ops s it m).2.1.table ∧
    ItWF (PSet.iterRun c ops s it m).2.1.table (PSet.iterRun c ops s it m).2.2.1 ∧
    (PSet.iterRun c ops s it m).2.1.triple = s.triple ∧
    ((PSet.iterRun c ops s it m).1, (PSet.iterRun c ops s it m).2.1.toSet,
      (PSet.iterRun c ops s it m).2.1.table.toIter (PSet.iterRun c ops s it m).2.2.1, (PSet.iterRun c ops s it m).2.2.2) =
        HashSet.iterRun c ops s.toSet (s.table.toIter it) m := by
  induction ops with
  | nil => intro s h it hit m; exact ⟨h, hit, rfl, rfl⟩
  | cons op ops ih =>
    intro s h it hit m
    obtain ⟨w, iw, t1, e⟩ := PSet.iterStep_wf c h it hit op m
    obtain ⟨w2, iw2, t2, e2⟩ := ih w (PSet.iterStep c s it op m).2.2.1 iw (PSet.iterStep c s it op m).2.2.2
    refine ⟨w2, iw2, by rw [← t1]; exact t2, ?_⟩
    have hr : PSet.iterRun c (op :: ops) s it m = ((PSet.iterStep c s it op m).1 ::
        (PSet.iterRun c ops (PSet.iterStep c s it op m).2.1 (PSet.iterStep c s it op m).2.2.1 (PSet.iterStep c s it op m).2.2.2).1,
        (PSet.iterRun c ops (PSet.iterStep c s it op m).2.1 (PSet.iterStep c s it op m).2.2.1 (PSet.iterStep c s it op m).2.2.2).2) := rfl
    have hl : HashSet.iterRun c (op :: ops) s.toSet (s.table.toIter it) m =
        ((HashSet.iterStep c s.toSet (s.table.toIter it) op m).1 ::
          (HashSet.iterRun c ops (HashSet.iterStep c s.toSet (s.table.toIter it) op m).2.1
            (HashSet.iterStep c s.toSet (s.table.toIter it) op m).2.2.1
            (HashSet.iterStep c s.toSet (s.table.toIter it) op m).2.2.2).1,
         (HashSet.iterRun c ops (HashSet.iterStep c s.toSet (s.table.toIter it) op m).2.1
            (HashSet.iterStep c s.toSet (s.table.toIter it) op m).2.2.1
            (HashSet.iterStep c s.toSet (s.table.toIter it) op m).2.2.2).2) := rfl
    rw [hr, hl, ← e]
    simp only
    rw [← e2]

end CC.PHash
