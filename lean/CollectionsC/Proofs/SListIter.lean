import CollectionsC.Proofs.SListMore
import CollectionsC.Proofs.DListIter
/-! `cc_slist.c` model, part 3: iterators (`CC_SListIter`, `CC_SListZipIter`) simulate the ideal
cursor of `Spec.LSeq` (with `follow = true`: an added element becomes the current one). -/
namespace CC.SList
open CC Chain
open CC.Spec
open CC.DList (shiftDel_ptrAt shiftIns_ptrAt)

/-- predecessor pointer of position `k` -/
def pred (k : Nat) : Ptr := if k = 0 then none else some (k - 1)

structure ItRel (xs : List Nat) (c : LSeq.Cursor) (it : Iter) : Prop where
  idx : it.index = c.pos
  nxt : it.next = ptrAt xs.length c.pos
  cur : it.current = c.cur
  le : c.pos ≤ xs.length
  pos : ∀ k, c.cur = some k → c.pos = k + 1
  prv : it.prev = match c.cur with | some k => pred k | none => pred c.pos

theorem iterInit_rel (xs : List Nat) : ItRel xs LSeq.itNew (iterInit (ofList t xs)) :=
  ⟨rfl, ofList_head_ptrAt (t := t) xs, rfl, Nat.zero_le _, (by intro k h; cases h), rfl⟩

theorem iterNext_ofList (xs : List Nat) (c : LSeq.Cursor) (it : Iter) (m : Mem) (h : ItRel xs c it) :
    ∃ it', iterNext (ofList t xs) it m = ((LSeq.itNext xs c).1, (LSeq.itNext xs c).2.1, it', m) ∧
      ItRel xs (LSeq.itNext xs c).2.2 it' := by
  unfold iterNext LSeq.itNext
  by_cases hp : c.pos < xs.length
  · refine ⟨{ index := it.index + 1, prev := if it.current != none then it.current else it.prev,
              current := it.next, next := it.next.next xs.length }, ?_, ?_⟩
    · rw [h.nxt, ptrAt_lt _ _ hp]
      simp only [reduceCtorEq, if_false, ofList_nodes, Ptr.valid, hp, decide_true, Mem.check_true, data_some, if_true]
    · simp only [hp, if_true]
      refine ⟨by simp only [h.idx], by rw [h.nxt, next_ptrAt _ _ hp], by rw [h.nxt, ptrAt_lt _ _ hp],
        by simp only []; omega, by intro k hk; simp only [Option.some.injEq] at hk; simp only []; omega, ?_⟩
      simp only []
      rw [h.cur, h.prv]
      cases hc : c.cur with
      | none => simp
      | some k => have := h.pos k hc; simp [pred, this]
  · refine ⟨it, ?_, ?_⟩
    · rw [h.nxt]; simp [ptrAt, hp]
    · simp only [hp, if_false]; exact h

theorem iterIndex_rel (xs : List Nat) (c : LSeq.Cursor) (it : Iter) (h : ItRel xs c it) :
    iterIndex it = LSeq.itIndex c := by simp [iterIndex, LSeq.itIndex, wdec, h.idx]

theorem iterReplace_ofList (xs : List Nat) (c : LSeq.Cursor) (it : Iter) (x : Nat) (m : Mem) (h : ItRel xs c it) :
    iterReplace (ofList t xs) it x m =
      ((LSeq.itReplace xs c x).1, (LSeq.itReplace xs c x).2.1, ofList t (LSeq.itReplace xs c x).2.2, m) ∧
    ItRel (LSeq.itReplace xs c x).2.2 c it := by
  unfold iterReplace LSeq.itReplace
  rw [h.cur]
  cases hc : c.cur with
  | none => simp; exact h
  | some k =>
    have hk : k < xs.length := by have := h.pos k hc; have := h.le; omega
    have h0 : xs.length ≠ 0 := by omega
    refine ⟨?_, ?_⟩
    · simp [Ptr.valid, hk, data_some, Chain.setData, Ptr.pos, ofList, h0]
    · simp only []
      exact ⟨h.idx, by simp [h.nxt], h.cur, by simp [h.le], h.pos, h.prv⟩

theorem iterRemove_ofList (xs : List Nat) (c : LSeq.Cursor) (it : Iter) (m : Mem) (h : ItRel xs c it) :
    ∃ it', iterRemove (ofList t xs) it m =
      ((LSeq.itRemove xs c).1, (LSeq.itRemove xs c).2.1, ofList t (LSeq.itRemove xs c).2.2.1, it',
       if (LSeq.itRemove xs c).1 = .ok then (m.freeT t) else m) ∧
    ItRel (LSeq.itRemove xs c).2.2.1 (LSeq.itRemove xs c).2.2.2 it' := by
  unfold iterRemove LSeq.itRemove
  rw [h.cur]
  cases hc : c.cur with
  | none => exact ⟨it, by simp, by simpa using h⟩
  | some k =>
    have hkp := h.pos k hc
    have hk : k < xs.length := by have := h.le; omega
    have hprev : it.prev = if k = 0 then none else some (k - 1) := by rw [h.prv, hc]; rfl
    refine ⟨{ it with index := wdec it.index, current := none, next := it.next.shiftDel k }, ?_, ?_⟩
    · simp only [reduceCtorEq, if_false, hprev, unlinkn_ofList _ _ _ hk, if_true, Ptr.pos, Option.getD_some]
    · simp only []
      refine ⟨?_, ?_, rfl, ?_, (by intro k' hk'; cases hk'), ?_⟩
      · simp only [wdec, h.idx]; rw [if_neg (by omega)]
      · rw [h.nxt, shiftDel_ptrAt _ _ _ hk (by omega) h.le]; simp [List.length_eraseIdx, hk]
      · simp only [List.length_eraseIdx, hk, if_true]; have := h.le; omega
      · simp only [hprev, hkp, pred, Nat.add_sub_cancel]

theorem iterAdd_ofList (xs : List Nat) (c : LSeq.Cursor) (it : Iter) (x k : Nat) (m : Mem) (h : ItRel xs c it)
    (hc : c.cur = some k) :
    ∃ it', iterAdd (ofList t xs) it x m =
      (if (m.allocT t).1 then (.ok, ofList t (LSeq.itAdd true xs c x).1, it', (m.allocT t).2) else (.errAlloc, ofList t xs, it, (m.allocT t).2)) ∧
    ItRel (LSeq.itAdd true xs c x).1 (LSeq.itAdd true xs c x).2 it' := by
  unfold iterAdd LSeq.itAdd
  have hpos := h.pos k hc
  have hk : k < xs.length := by have := h.le; omega
  have h0 : xs.length ≠ 0 := by omega
  rw [h.cur, hc]
  refine ⟨{ index := it.index + 1, prev := some k, current := some (k + 1), next := it.next.shiftIns (k + 1) 1 }, ?_, ?_⟩
  · (try simp only [ofList_triple])
    by_cases ha : (m.allocT t).1 = true
    · simp only [ha, Bool.not_true, Bool.false_eq_true, if_false, if_true, ofList_nodes, Ptr.valid, hk, decide_true,
        Mem.check_true, Ptr.pos, Option.getD_some, ofList_size, h.idx, hpos]
      congr 1; congr 1
      simp only [Chain.ins, ofList, h0, if_false, Ptr.shiftIns, List.length_insertIdx]
      ptr_arith
    · simp [ha]
  · simp only [if_true]
    have hle : k + 1 ≤ xs.length := by omega
    refine ⟨by simp only [h.idx], ?_, rfl, ?_, ?_, ?_⟩
    · rw [h.nxt, hpos, shiftIns_ptrAt _ _ hle]; simp [List.length_insertIdx, hle]
    · simp only [List.length_insertIdx, hle, if_true, hpos]; omega
    · intro k' hk'
      simp only [Option.some.injEq] at hk'
      simp only [hpos]; omega
    · simp [pred]

/-! ### zip iterator -/
structure ZipRel (xs ys : List Nat) (c : LSeq.Cursor) (z : ZipIter) : Prop where
  idx : z.index = c.pos
  nxt1 : z.next1 = ptrAt xs.length c.pos
  nxt2 : z.next2 = ptrAt ys.length c.pos
  cur1 : z.cur1 = c.cur
  cur2 : z.cur2 = c.cur
  le1 : c.pos ≤ xs.length
  le2 : c.pos ≤ ys.length
  pos : ∀ k, c.cur = some k → c.pos = k + 1
  prv1 : z.prev1 = match c.cur with | some k => pred k | none => pred c.pos
  prv2 : z.prev2 = match c.cur with | some k => pred k | none => pred c.pos

theorem zipInit_rel (xs ys : List Nat) : ZipRel xs ys LSeq.itNew (zipInit (ofList t xs) (ofList t2 ys)) :=
  ⟨rfl, ofList_head_ptrAt (t := t) xs, ofList_head_ptrAt (t := t2) ys, rfl, rfl, Nat.zero_le _, Nat.zero_le _, (by intro k h; cases h), rfl, rfl⟩

theorem zipNext_ofList (xs ys : List Nat) (c : LSeq.Cursor) (z : ZipIter) (m : Mem) (h : ZipRel xs ys c z) :
    ∃ z', zipNext (ofList t xs) (ofList t2 ys) z m = ((LSeq.zitNext xs ys c).1, (LSeq.zitNext xs ys c).2.1, z', m) ∧
      ZipRel xs ys (LSeq.zitNext xs ys c).2.2 z' := by
  unfold zipNext LSeq.zitNext
  by_cases hp : c.pos < xs.length ∧ c.pos < ys.length
  · obtain ⟨hp1, hp2⟩ := hp
    refine ⟨{ index := z.index + 1,
              prev1 := if z.cur1 != none then z.cur1 else z.prev1, prev2 := if z.cur2 != none then z.cur2 else z.prev2,
              cur1 := z.next1, cur2 := z.next2,
              next1 := z.next1.next xs.length, next2 := z.next2.next ys.length }, ?_, ?_⟩
    · rw [h.nxt1, h.nxt2, ptrAt_lt _ _ hp1, ptrAt_lt _ _ hp2]
      simp [Ptr.valid, hp1, hp2, data_some]
    · simp only [hp1, hp2, and_self, if_true]
      have hprev : ∀ (cur prev : Ptr), cur = c.cur → (prev = match c.cur with | some k => pred k | none => pred c.pos) →
          (if cur != none then cur else prev) = pred c.pos := by
        intro cur prev e1 e2
        rw [e1, e2]
        cases hc : c.cur with
        | none => simp
        | some k => have := h.pos k hc; simp [pred, this]
      exact ⟨by simp only [h.idx], by rw [h.nxt1, next_ptrAt _ _ hp1], by rw [h.nxt2, next_ptrAt _ _ hp2],
        by rw [h.nxt1, ptrAt_lt _ _ hp1], by rw [h.nxt2, ptrAt_lt _ _ hp2], by simp only []; omega, by simp only []; omega,
        by intro k hk; simp only [Option.some.injEq] at hk; simp only []; omega,
        by simp only []; exact hprev _ _ h.cur1 h.prv1, by simp only []; exact hprev _ _ h.cur2 h.prv2⟩
  · refine ⟨z, ?_, ?_⟩
    · rw [h.nxt1, h.nxt2]
      have : (ptrAt xs.length c.pos = none) ∨ (ptrAt ys.length c.pos = none) := by
        simp only [ptrAt]
        by_cases h1 : c.pos < xs.length
        · right; rw [if_neg (by omega)]
        · left; rw [if_neg h1]
      have hb : (decide (ptrAt xs.length c.pos = none) || decide (ptrAt ys.length c.pos = none)) = true := by
        rcases this with e | e <;> simp [e]
      simp only [hb, if_true, hp, if_false]
    · simp only [hp, if_false]; exact h

theorem zipIndex_rel (xs ys : List Nat) (c : LSeq.Cursor) (z : ZipIter) (h : ZipRel xs ys c z) :
    zipIndex z = LSeq.itIndex c := by simp [zipIndex, LSeq.itIndex, wdec, h.idx]

theorem zipReplace_ofList (xs ys : List Nat) (c : LSeq.Cursor) (z : ZipIter) (x1 x2 : Nat) (m : Mem)
    (h : ZipRel xs ys c z) :
    zipReplace (ofList t xs) (ofList t2 ys) z x1 x2 m =
      ((LSeq.zitReplace xs ys c x1 x2).1, (LSeq.zitReplace xs ys c x1 x2).2.1,
       ofList t (LSeq.zitReplace xs ys c x1 x2).2.2.1, ofList t2 (LSeq.zitReplace xs ys c x1 x2).2.2.2, m) ∧
    ZipRel (LSeq.zitReplace xs ys c x1 x2).2.2.1 (LSeq.zitReplace xs ys c x1 x2).2.2.2 c z := by
  unfold zipReplace LSeq.zitReplace
  rw [h.cur1, h.cur2]
  cases hc : c.cur with
  | none => simp; exact h
  | some k =>
    have hk1 : k < xs.length := by have := h.pos k hc; have := h.le1; omega
    have hk2 : k < ys.length := by have := h.pos k hc; have := h.le2; omega
    have h01 : xs.length ≠ 0 := by omega
    have h02 : ys.length ≠ 0 := by omega
    refine ⟨?_, ?_⟩
    · simp [Ptr.valid, hk1, hk2, data_some, Chain.setData, Ptr.pos, ofList, h01, h02]
    · simp only []
      exact ⟨h.idx, by simp [h.nxt1], by simp [h.nxt2], h.cur1, h.cur2, by simp [h.le1], by simp [h.le2], h.pos, h.prv1, h.prv2⟩

theorem zipRemove_ofList (xs ys : List Nat) (c : LSeq.Cursor) (z : ZipIter) (m : Mem) (h : ZipRel xs ys c z) :
    ∃ z', zipRemove (ofList t xs) (ofList t2 ys) z m =
      ((LSeq.zitRemove xs ys c).1, (LSeq.zitRemove xs ys c).2.1, ofList t (LSeq.zitRemove xs ys c).2.2.1,
       ofList t2 (LSeq.zitRemove xs ys c).2.2.2.1, z',
       if (LSeq.zitRemove xs ys c).1 = .ok then ((m.freeT t).freeT t2) else m) ∧
    ZipRel (LSeq.zitRemove xs ys c).2.2.1 (LSeq.zitRemove xs ys c).2.2.2.1 (LSeq.zitRemove xs ys c).2.2.2.2 z' := by
  unfold zipRemove LSeq.zitRemove
  rw [h.cur1, h.cur2]
  cases hc : c.cur with
  | none => exact ⟨z, by simp, by simpa using h⟩
  | some k =>
    have hkp := h.pos k hc
    have hk1 : k < xs.length := by have := h.le1; omega
    have hk2 : k < ys.length := by have := h.le2; omega
    have hp1 : z.prev1 = if k = 0 then none else some (k - 1) := by rw [h.prv1, hc]; rfl
    have hp2 : z.prev2 = if k = 0 then none else some (k - 1) := by rw [h.prv2, hc]; rfl
    refine ⟨{ z with index := wdec z.index, cur1 := none, cur2 := none,
                     next1 := z.next1.shiftDel k, next2 := z.next2.shiftDel k }, ?_, ?_⟩
    · simp [hp1, hp2, unlinkn_ofList _ _ _ hk1, unlinkn_ofList _ _ _ hk2, Ptr.pos]
    · simp only []
      refine ⟨?_, ?_, ?_, rfl, rfl, ?_, ?_, (by intro k' hk'; cases hk'), ?_, ?_⟩
      · simp only [wdec, h.idx]; rw [if_neg (by omega)]
      · rw [h.nxt1, shiftDel_ptrAt _ _ _ hk1 (by omega) h.le1]; simp [List.length_eraseIdx, hk1]
      · rw [h.nxt2, shiftDel_ptrAt _ _ _ hk2 (by omega) h.le2]; simp [List.length_eraseIdx, hk2]
      · simp only [List.length_eraseIdx, hk1, if_true]; have := h.le1; omega
      · simp only [List.length_eraseIdx, hk2, if_true]; have := h.le2; omega
      · simp only [hp1, hkp, pred, Nat.add_sub_cancel]
      · simp only [hp2, hkp, pred, Nat.add_sub_cancel]

theorem zipAdd_ofList (xs ys : List Nat) (c : LSeq.Cursor) (z : ZipIter) (x1 x2 k : Nat) (m : Mem)
    (h : ZipRel xs ys c z) (hc : c.cur = some k) :
    ∃ z', zipAdd (ofList t xs) (ofList t2 ys) z x1 x2 m =
      (if (m.allocT t).1 then
         (if ((m.allocT t).2.allocT t2).1 then
            (.ok, ofList t (LSeq.zitAdd true xs ys c x1 x2).1, ofList t2 (LSeq.zitAdd true xs ys c x1 x2).2.1, z', ((m.allocT t).2.allocT t2).2)
          else (.errAlloc, ofList t xs, ofList t2 ys, z, (((m.allocT t).2.allocT t2).2.freeT t)))
       else (.errAlloc, ofList t xs, ofList t2 ys, z, (m.allocT t).2)) ∧
    ZipRel (LSeq.zitAdd true xs ys c x1 x2).1 (LSeq.zitAdd true xs ys c x1 x2).2.1 (LSeq.zitAdd true xs ys c x1 x2).2.2 z' := by
  unfold zipAdd LSeq.zitAdd
  have hpos := h.pos k hc
  have hk1 : k < xs.length := by have := h.le1; omega
  have hk2 : k < ys.length := by have := h.le2; omega
  have h01 : xs.length ≠ 0 := by omega
  have h02 : ys.length ≠ 0 := by omega
  rw [h.cur1, h.cur2, hc]
  refine ⟨{ index := z.index + 1, prev1 := some k, prev2 := some k, cur1 := some (k + 1), cur2 := some (k + 1),
            next1 := z.next1.shiftIns (k + 1) 1, next2 := z.next2.shiftIns (k + 1) 1 }, ?_, ?_⟩
  · (try simp only [ofList_triple])
    by_cases ha : (m.allocT t).1 = true
    · by_cases hb : ((m.allocT t).2.allocT t2).1 = true
      · simp only [ha, hb, Bool.not_true, Bool.false_eq_true, if_false, if_true, ofList_nodes, Ptr.valid, hk1, hk2,
          decide_true, Bool.and_self, Mem.check_true, Ptr.pos, Option.getD_some, ofList_size, h.idx, hpos]
        congr 1; congr 1
        · simp only [Chain.ins, ofList, h01, if_false, Ptr.shiftIns, List.length_insertIdx]
          ptr_arith
        · congr 1
          simp only [Chain.ins, ofList, h02, if_false, Ptr.shiftIns, List.length_insertIdx]
          ptr_arith
      · simp [ha, hb]
    · simp [ha]
  · simp only [if_true]
    have hle1 : k + 1 ≤ xs.length := by omega
    have hle2 : k + 1 ≤ ys.length := by omega
    refine ⟨by simp only [h.idx], ?_, ?_, rfl, rfl, ?_, ?_, ?_, by simp [pred], by simp [pred]⟩
    · rw [h.nxt1, hpos, shiftIns_ptrAt _ _ hle1]; simp [List.length_insertIdx, hle1]
    · rw [h.nxt2, hpos, shiftIns_ptrAt _ _ hle2]; simp [List.length_insertIdx, hle2]
    · simp only [List.length_insertIdx, hle1, if_true, hpos]; omega
    · simp only [List.length_insertIdx, hle2, if_true, hpos]; omega
    · intro k' hk'
      simp only [Option.some.injEq] at hk'
      simp only [hpos]; omega

end CC.SList
