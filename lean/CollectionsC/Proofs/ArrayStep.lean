import CollectionsC.Proofs.ArrayIter
/-! One call of the public API on the concrete array refines one step of the ideal list
(`Spec.Seq.step`): the case analysis over the operations, assembled from the per-operation
lemmas.  Used by `Properties/C01.lean`. -/
namespace CC.Arr
open CC
open CC.Spec.Seq (Cfg Op Out)

theorem blocked_mk (s : Stat) : ({ st := some s } : Out).blocked =
    if s = .errAlloc ∨ s = .errMaxCapacity then some s else none := by
  simp [Out.blocked]

/-- per-step bundle: same report as the ideal list (which is told whether the call was blocked),
abstraction commutes, configuration kept, invariant preserved (for every growth function), ledger balanced, no fault, and every call that
reports an error status leaves the whole state unchanged (C16, C08) -/
theorem step_spec (cfg : Cfg) (a : Arr) (op : Op) (m : Mem) (hinv : a.Inv)
    (hsort : ∀ xs, (cfg.sortFn xs).length = xs.length) :
    (a.step cfg op m).1 = (Spec.Seq.step cfg a.abs op (a.step cfg op m).1.blocked).1 ∧
    (a.step cfg op m).2.1.abs = (Spec.Seq.step cfg a.abs op (a.step cfg op m).1.blocked).2 ∧
    (a.step cfg op m).2.1.grow = a.grow ∧
    (a.step cfg op m).2.1.Inv ∧
    (a.step cfg op m).2.2.live = m.live ∧ (a.step cfg op m).2.2.fault = m.fault ∧
    (∀ st, (a.step cfg op m).1.st = some st → st ≠ .ok → (a.step cfg op m).2.1 = a) := by
  cases op with
  | add x =>
    obtain ⟨sp, sl, sf⟩ := add_spec a x m hinv
    simp only [step, Spec.Seq.step, blocked_mk]
    rcases sp with ⟨ok, habs, hg⟩ | ⟨hb, hsame⟩
    · simp only [ok, Spec.Seq.add]
      refine ⟨by simp, by simpa using habs, hg.2.2.2.2, hg.inv hinv, sl, sf, fun st h1 h2 => ?_⟩
      simp at h1; exact absurd h1.symm h2
    · rcases hb.1 with ⟨h, _⟩ | ⟨h, _⟩ <;>
      · simp only [h, hsame]
        exact ⟨by simp, by simp, by triv, hinv, sl, sf, fun _ _ _ => by triv⟩
  | addAt x i =>
    obtain ⟨sp, sl, sf⟩ := addAt_spec a x i m hinv
    simp only [step, Spec.Seq.step, blocked_mk]
    rcases sp with ⟨hi, sp⟩ | ⟨hgt, heq⟩
    · have hi' : i ≤ a.abs.length := by simpa using hi
      rcases sp with ⟨ok, habs, hg⟩ | ⟨hb, hsame⟩
      · simp only [ok, Spec.Seq.addAt, hi', if_true]
        refine ⟨by simp, by simpa using habs, hg.2.2.2.2, hg.inv hinv, sl, sf, fun st h1 h2 => ?_⟩
        simp at h1; exact absurd h1.symm h2
      · rcases hb.1 with ⟨h, _⟩ | ⟨h, _⟩ <;>
        · simp only [h, hsame]
          exact ⟨by simp, by simp, by triv, hinv, sl, sf, fun _ _ _ => by triv⟩
    · have hi' : ¬ i ≤ a.abs.length := by simp; omega
      simp only [heq, Spec.Seq.addAt, hi', if_false]
      exact ⟨by simp, by simp, by triv, hinv, by triv, by triv, fun _ _ _ => by triv⟩
  | trimCapacity =>
    obtain ⟨sp, sl, sf⟩ := trimCapacity_spec a m hinv
    simp only [step, Spec.Seq.step, blocked_mk]
    rcases sp with ⟨ok, habs, _, _, hi, hg⟩ | ⟨h, _, hsame⟩
    · simp only [ok]
      refine ⟨by simp, by simpa using habs, hg, hi, sl, sf, fun st h1 h2 => ?_⟩
      simp at h1; exact absurd h1.symm h2
    · simp only [h, hsame]
      exact ⟨by simp, by simp, by triv, hinv, sl, sf, fun _ _ _ => by triv⟩
  | replaceAt x i =>
    obtain ⟨r1, r2, r3, r4, r5, r6, r7, r8⟩ := replaceAt_spec a x i m hinv
    simp only [step, Spec.Seq.step]
    refine ⟨by rw [r1, r2], r3, r5.2.2, r5.inv hinv (by omega), by rw [r6], by rw [r6], fun st h1 h2 => ?_⟩
    simp only [Option.some.injEq] at h1
    exact r7 (by rw [h1]; exact h2)
  | swapAt i j =>
    obtain ⟨r1, r2, r3, r4, r5, r6, r7⟩ := swapAt_spec a i j m hinv
    simp only [step, Spec.Seq.step]
    refine ⟨by rw [r1], r2, r4.2.2, r4.inv hinv (by omega), by rw [r5], by rw [r5], fun st h1 h2 => ?_⟩
    simp only [Option.some.injEq] at h1
    exact r6 (by rw [h1]; exact h2)
  | remove x =>
    obtain ⟨r1, r2, r3, r4, r5, r6, r7, r8⟩ := remove_spec a x m hinv
    simp only [step, Spec.Seq.step]
    refine ⟨by rw [r1, r2], r3, r4.2.2, r4.inv hinv r5, by rw [r6], by rw [r6], fun st h1 h2 => ?_⟩
    simp only [Option.some.injEq] at h1
    exact r7 (by rw [h1]; exact h2)
  | removeAt i =>
    obtain ⟨r1, r2, r3, r4, r5, r6, r7, r8, r9⟩ := removeAt_spec a i m hinv
    simp only [step, Spec.Seq.step]
    refine ⟨by rw [r1, r2], r3, r4.2.2, r4.inv hinv r5, by rw [r6], by rw [r6], fun st h1 h2 => ?_⟩
    simp only [Option.some.injEq] at h1
    exact r7 (by rw [h1]; exact h2)
  | removeLast =>
    obtain ⟨r1, r2, r3, r4, r5, r6, r7, r8, r9⟩ := removeLast_spec a m hinv
    simp only [step, Spec.Seq.step]
    refine ⟨by rw [r1, r2], r3, r4.2.2, r4.inv hinv r5, by rw [r6], by rw [r6], fun st h1 h2 => ?_⟩
    simp only [Option.some.injEq] at h1
    exact r7 (by rw [h1]; exact h2)
  | removeAll =>
    obtain ⟨r1, r2, r3⟩ := removeAll_spec a
    simp only [step, Spec.Seq.step]
    exact ⟨by triv, r1, r2.2.2, r2.inv hinv (by omega), by triv, by triv, fun st h1 _ => by simp at h1⟩
  | removeAllFree =>
    obtain ⟨r1, r2, r3, r4, r5⟩ := removeAllFree_spec a m hinv
    simp only [step, Spec.Seq.step]
    exact ⟨by rw [r1], r2, r3.2.2, r3.inv hinv (by omega), by rw [r5], by rw [r5], fun st h1 _ => by simp at h1⟩
  | reverse =>
    obtain ⟨r1, r2, r3, r4⟩ := reverse_spec a m hinv
    simp only [step, Spec.Seq.step]
    exact ⟨by triv, r1, r2.2.2, r2.inv hinv (by omega), by rw [r4], by rw [r4], fun st h1 _ => by simp at h1⟩
  | filterMut =>
    obtain ⟨r1, r2, r3, r4, r5, r6, r7, r8⟩ := filterMut_spec cfg.pred a m hinv
    simp only [step, Spec.Seq.step]
    refine ⟨?_, r2, r3.2.2, r3.inv hinv r4, by rw [r5], by rw [r5], fun st h1 h2 => ?_⟩
    · by_cases hok : (a.filterMut cfg.pred m).1 = .ok
      · have : (Spec.Seq.filterMut cfg.pred a.abs).1 = .ok := by rw [← r1]; exact hok
        rw [r6 hok, ← r1, hok]; simp
      · have hs : ¬ (Spec.Seq.filterMut cfg.pred a.abs).1 = .ok := by rw [← r1]; exact hok
        have h0 : ¬ 0 < a.size := fun h => hok (r8.2 h)
        have hlog : (a.filterMut cfg.pred m).2.2.1 = [] := by
          unfold filterMut; simp [show a.size = 0 by omega]
        rw [hlog, ← r1]; simp [hok]
    · simp only [Option.some.injEq] at h1
      exact r7 (by rw [h1]; exact h2)
  | sort =>
    obtain ⟨r1, r2, r3, r4⟩ := sort_spec cfg.sortFn a m hinv (hsort _)
    simp only [step, Spec.Seq.step]
    exact ⟨by triv, r1, r2.2.2, r2.inv hinv (by omega), by rw [r4], by rw [r4], fun st h1 _ => by simp at h1⟩
  | getAt i =>
    obtain ⟨r1, r2, r3, r4⟩ := getAt_spec a i m hinv
    simp only [step, Spec.Seq.step]
    exact ⟨by rw [r1, r2], by triv, by triv, hinv, by rw [r3], by rw [r3], fun _ _ _ => by triv⟩
  | getLast =>
    obtain ⟨r1, r2, r3, r4⟩ := getLast_spec a m hinv
    simp only [step, Spec.Seq.step]
    exact ⟨by rw [r1, r2], by triv, by triv, hinv, by rw [r3], by rw [r3], fun _ _ _ => by triv⟩
  | indexOf x =>
    obtain ⟨r1, r2, r3, r4, r5, r6⟩ := indexOf_spec a x m hinv
    simp only [step, Spec.Seq.step]
    exact ⟨by rw [r1, r2], by triv, by triv, hinv, by rw [r3], by rw [r3], fun _ _ _ => by triv⟩
  | contains x =>
    obtain ⟨r1, r2⟩ := contains_spec a x m hinv
    simp only [step, Spec.Seq.step]
    exact ⟨by rw [r1], by triv, by triv, hinv, by rw [r2], by rw [r2], fun _ _ _ => by triv⟩
  | containsValue x =>
    obtain ⟨r1, r2⟩ := containsValue_spec cfg.cmp a x m hinv
    simp only [step, Spec.Seq.step]
    exact ⟨by rw [r1], by triv, by triv, hinv, by rw [r2], by rw [r2], fun _ _ _ => by triv⟩
  | size =>
    simp only [step, Spec.Seq.step]
    exact ⟨by simp, by triv, by triv, hinv, by triv, by triv, fun _ _ _ => by triv⟩
  | map =>
    obtain ⟨r1, r2⟩ := map_spec a m hinv
    simp only [step, Spec.Seq.step]
    exact ⟨by rw [r1], by triv, by triv, hinv, by rw [r2], by rw [r2], fun _ _ _ => by triv⟩
  | reduce r0 =>
    obtain ⟨r1, r2, r3⟩ := reduce_spec cfg.fn a r0 m hinv
    simp only [step, Spec.Seq.step]
    exact ⟨by rw [r1, r2], by triv, by triv, hinv, by rw [r3], by rw [r3], fun _ _ _ => by triv⟩

theorem run_length (cfg : Cfg) (ops : List Op) : ∀ (a : Arr) (m : Mem), (a.run cfg ops m).1.length = ops.length := by
  induction ops with
  | nil => intro a m; rfl
  | cons op ops ih => intro a m; simp only [Arr.run, List.length_cons]; rw [ih]

open CC.Spec.Seq (IterOp Cursor) in
/-- one iterator call simulates one step of the ideal cursor; erroring calls change neither the
array nor the cursor -/
theorem iterStep_sim (a : Arr) (it : ArrIter) (c : Cursor) (op : IterOp) (m : Mem) (hinv : a.Inv)
    (hs : Sim a it c) :
    (a.iterStep it op m).1 = (c.step op (a.iterStep it op m).1.blocked).1 ∧
    Sim (a.iterStep it op m).2.1 (a.iterStep it op m).2.2.1 (c.step op (a.iterStep it op m).1.blocked).2 ∧
    (a.iterStep it op m).2.1.grow = a.grow ∧
    (a.iterStep it op m).2.1.Inv ∧
    (a.iterStep it op m).2.2.2.live = m.live ∧ (a.iterStep it op m).2.2.2.fault = m.fault ∧
    (∀ st, (a.iterStep it op m).1.st = some st → st ≠ .ok →
      (a.iterStep it op m).2.1 = a ∧ (a.iterStep it op m).2.2.1 = it) := by
  cases op with
  | next =>
    obtain ⟨r1, r2, r3, r4⟩ := iterNext_sim a it c m hinv hs
    simp only [iterStep, Cursor.step]
    refine ⟨by rw [r1, r2], r3, by triv, hinv, by rw [r4], by rw [r4], fun st h1 h2 => ⟨by triv, ?_⟩⟩
    simp only [Option.some.injEq] at h1
    have hne : (a.iterNext it m).1 ≠ .ok := by rw [h1]; exact h2
    unfold iterNext at hne ⊢
    split
    · rfl
    · rename_i hh; simp [hh] at hne
  | remove =>
    obtain ⟨r1, r2, r3, r4, r5, r6, r7⟩ := iterRemove_sim a it c m hinv hs
    simp only [iterStep, Cursor.step]
    refine ⟨by rw [r1, r2], r3, r4.2.2, r4.inv hinv r5, by rw [r6], by rw [r6], fun st h1 h2 => ?_⟩
    simp only [Option.some.injEq] at h1
    exact r7 (by rw [h1]; exact h2)
  | add x =>
    obtain ⟨sp, sl, sf⟩ := iterAdd_sim a it c x m hinv hs
    simp only [iterStep, Cursor.step, blocked_mk]
    rcases sp with ⟨ok, hsim, hg⟩ | ⟨hb, hsame, hit⟩
    · simp only [ok]
      refine ⟨by simp [Cursor.add], by simpa using hsim, hg.2.2.2.2, hg.inv hinv, sl, sf, fun st h1 h2 => ?_⟩
      simp at h1; exact absurd h1.symm h2
    · rcases hb.1 with ⟨h, _⟩ | ⟨h, _⟩ <;>
      · simp only [h, hsame, hit]
        exact ⟨by simp, by simpa using hs, by triv, hinv, sl, sf, fun _ _ _ => ⟨by triv, by triv⟩⟩
  | replace x =>
    obtain ⟨r1, r2, r3, r4, r5, r6, r7⟩ := iterReplace_sim a it c x m hinv hs
    simp only [iterStep, Cursor.step]
    refine ⟨by rw [r1, r2], r3, r4.2.2, r4.inv hinv (by omega), by rw [r6], by rw [r6], fun st h1 h2 => ⟨?_, by triv⟩⟩
    simp only [Option.some.injEq] at h1
    exact r7 (by rw [h1]; exact h2)
  | index =>
    simp only [iterStep, Cursor.step]
    exact ⟨by rw [iterIndex_sim a it c hs], hs, by triv, hinv, by triv, by triv, fun _ _ _ => ⟨by triv, by triv⟩⟩

end CC.Arr
