import CollectionsC.Proofs.HashTable
import CollectionsC.Proofs.HashTableIter
import CollectionsC.Model.HashSet
/-! The hash set (`Model/HashSet.lean`): every operation forwards to the table, the stored values
are all the dummy pointer, the held set is the key set of the table's map. -/
set_option maxHeartbeats 800000
namespace CC.HashSet
open CC CC.HT CC.Spec

theorem keys_insert (m : Map) (k : Key) (v : Nat) :
    Map.keys (Map.insert m k v) = Set.insert (Map.keys m) k := by
  unfold Set.insert
  have hc : (Map.keys m).contains k = Map.contains m k := by
    cases h : Map.contains m k with
    | true => simpa using (Map.contains_iff m k).mp h
    | false =>
      have : ¬ k ∈ Map.keys m := fun hm => by rw [(Map.contains_iff m k).mpr hm] at h; cases h
      simpa using this
  rw [hc]
  by_cases h : Map.contains m k = true
  · rw [if_pos h, Map.keys_insert_of_contains m k v h]
  · rw [if_neg h]; unfold Map.insert; rw [if_neg h]; rfl

theorem keys_erase (m : Map) (k : Key) : Map.keys (Map.erase m k) = Set.erase (Map.keys m) k := by
  unfold Map.keys Map.erase Set.erase; rw [List.filter_map]; rfl

theorem values_of_abs (t : HashTable) (h : ∀ p ∈ t.abs, p.2 = dummy) : ∀ e ∈ t.buckets.flatten, e.value = dummy := by
  intro e he
  exact h (e.key, e.value) (List.mem_map.mpr ⟨e, he, rfl⟩)

theorem abs_of_values (t : HashTable) (h : ∀ e ∈ t.buckets.flatten, e.value = dummy) : ∀ p ∈ t.abs, p.2 = dummy := by
  intro p hp
  obtain ⟨e, he, rfl⟩ := List.mem_map.mp hp
  exact h e he

theorem mem_insert_value (m : Map) (k : Key) (v : Nat) (h : ∀ p ∈ m, p.2 = v) : ∀ p ∈ Map.insert m k v, p.2 = v := by
  intro p hp
  unfold Map.insert at hp
  split at hp
  · obtain ⟨q, hq, rfl⟩ := List.mem_map.mp hp
    split
    · rfl
    · exact h q hq
  · rcases List.mem_cons.mp hp with rfl | hp
    · rfl
    · exact h p hp

/-- `HashTable.new` hands out a table exactly when it reports `CC_OK` -/
theorem table_new_none (c : HCfg) (cap : Nat) (tr : Triple) (m : Mem)
    (h : (HashTable.new c cap tr m).2.1 = none) : (HashTable.new c cap tr m).1 ≠ .ok := by
  unfold HashTable.new at h ⊢
  simp only at h ⊢
  cases h1 : (m.allocT tr).1 with
  | false => simp
  | true =>
    cases h2 : ((m.allocT tr).2.allocT tr).1 with
    | false => simp
    | true => simp [h1, h2] at h

/-- `cc_hashset_new_conf`: header + table, or nothing at all -/
theorem new_spec (c : HCfg) (cap : Nat) (tr : Triple) (m : Mem) :
    ((HashSet.new c cap tr m).1 = .ok ∨ (HashSet.new c cap tr m).1 = .errAlloc) ∧
    ((HashSet.new c cap tr m).1 ≠ .ok → (HashSet.new c cap tr m).2.1 = none ∧
        liveOf (HashSet.new c cap tr m).2.2 tr = liveOf m tr) ∧
    (∀ s, (HashSet.new c cap tr m).2.1 = some s → (HashSet.new c cap tr m).1 = .ok ∧ s.Inv c ∧ s.abs = [] ∧
        liveOf (HashSet.new c cap tr m).2.2 tr = liveOf m tr + 3 ∧ s.triple = tr) ∧
    (HashSet.new c cap tr m).2.2.fault = m.fault := by
  unfold HashSet.new
  simp only
  cases h1 : (m.allocT tr).1 with
  | false =>
    have e1 := allocT_false m tr h1
    simp only [Bool.not_false, if_true]
    exact ⟨by simp, fun _ => ⟨trivial, e1.1⟩, by simp, e1.2⟩
  | true =>
    have e1 := allocT_true m tr h1
    obtain ⟨n1, n2, n3, n4, n5⟩ := HashTable.new_spec c cap tr (m.allocT tr).2
    simp only [Bool.not_true, Bool.false_eq_true, if_false]
    cases ht : (HashTable.new c cap tr (m.allocT tr).2).2.1 with
    | none =>
      have hne := table_new_none c cap tr (m.allocT tr).2 ht
      obtain ⟨_, q2⟩ := n2 hne
      have hfr := freeT_spec (HashTable.new c cap tr (m.allocT tr).2).2.2 tr (by omega)
      simp only
      refine ⟨?_, fun _ => ⟨trivial, by rw [hfr.1]; omega⟩, by simp, by rw [hfr.2.1, n4, e1.2]⟩
      rcases n1 with h | h
      · exact absurd h hne
      · right; exact h
    | some t =>
      obtain ⟨q1, q2, q3, q4, q5, q6, q7⟩ := n3 t ht
      simp only
      refine ⟨by simp, by simp, ?_, by rw [n4, e1.2]⟩
      intro s hs
      simp only [Option.some.injEq] at hs
      subst hs
      refine ⟨trivial, ⟨q2, ?_, q7⟩, ?_, by omega, rfl⟩
      · apply values_of_abs; rw [q3]; simp
      · unfold abs; simp only; rw [q3]; rfl

/-- `cc_hashset_add`: the ideal set insertion; a refused insertion changes nothing observable -/
theorem add_spec (c : HCfg) (s : HashSet) (e : Key) (m : Mem) (h : s.Inv c) :
    (s.add c e m).2.1.Inv c ∧
    ((s.add c e m).1 = .ok → (s.add c e m).2.1.abs.Perm (Set.insert s.abs e) ∧
        (s.add c e m).2.1.size ≤ (s.add c e m).2.1.table.threshold ∧
        liveOf (s.add c e m).2.2 s.triple + s.size = liveOf m s.triple + (s.add c e m).2.1.size) ∧
    ((s.add c e m).1 ≠ .ok → ((s.add c e m).1 = .errAlloc ∨ (s.add c e m).1 = .errMaxCapacity) ∧
        (s.add c e m).2.1.abs.Perm s.abs ∧ (s.add c e m).2.1.size = s.size ∧
        liveOf (s.add c e m).2.2 s.triple = liveOf m s.triple) ∧
    (s.add c e m).2.2.fault = m.fault ∧ (s.add c e m).2.1.triple = s.triple := by
  obtain ⟨hi, hv, htr⟩ := h
  obtain ⟨a1, a2, a3, a4, a5, a6, a7⟩ := HashTable.add_spec c s.table e dummy m hi
  have hv' := abs_of_values s.table hv
  rw [htr] at a2 a3
  unfold add size abs
  simp only
  refine ⟨⟨a1, ?_, by rw [a7, htr]⟩, ?_, ?_, a4, trivial⟩
  · apply values_of_abs
    by_cases hok : (s.table.add c e dummy m).1 = .ok
    · intro p hp
      exact mem_insert_value s.table.abs e dummy hv' p ((a2 hok).1.mem_iff.mp hp)
    · intro p hp
      exact hv' p ((a3 hok).2.1.mem_iff.mp hp)
  · intro hok
    obtain ⟨b1, b2, b3⟩ := a2 hok
    refine ⟨?_, b2, b3⟩
    rw [← keys_insert _ _ dummy]
    exact b1.map _
  · intro hok
    obtain ⟨b1, b2, b3, b4⟩ := a3 hok
    exact ⟨b1, b2.map _, b3, b4⟩

theorem contains_eq_isSome (m : Map) (e : Key) : (Map.keys m).contains e = (Map.lookup m e).isSome := by
  have := Map.contains_iff m e
  unfold Map.contains at this
  cases hh : (Map.lookup m e).isSome with
  | true => simpa using this.mp hh
  | false =>
    have : ¬ e ∈ Map.keys m := fun hm => by rw [this.mpr hm] at hh; cases hh
    simpa using this

/-- `cc_hashset_remove`.  `hl`: a present element's entry block is owned through the set's triple. -/
theorem remove_spec (c : HCfg) (s : HashSet) (e : Key) (m : Mem) (h : s.Inv c)
    (hl : s.abs.contains e = true → 0 < liveOf m s.triple) :
    (s.remove c e m).2.2.1.Inv c ∧
    (s.remove c e m).2.2.1.abs = Set.erase s.abs e ∧
    (s.remove c e m).1 = (if s.abs.contains e then .ok else .errKeyNotFound) ∧
    ((s.remove c e m).1 ≠ .ok → (s.remove c e m).2.2.1 = s ∧ (s.remove c e m).2.2.2 = m) ∧
    ((s.remove c e m).1 = .ok → liveOf (s.remove c e m).2.2.2 s.triple = liveOf m s.triple - 1 ∧
        (s.remove c e m).2.2.1.size + 1 = s.size) ∧
    (s.remove c e m).2.2.2.fault = m.fault ∧ (s.remove c e m).2.2.1.triple = s.triple := by
  obtain ⟨hi, hv, htr⟩ := h
  have hc := contains_eq_isSome s.table.abs e
  obtain ⟨p1, p2, p3, p4, p5, p6, p7, p8, p9, p10⟩ := HashTable.remove_spec c s.table e m hi
    (fun hs => by rw [htr]; exact hl (by unfold abs; rw [hc]; exact hs))
  have hv' := abs_of_values s.table hv
  rw [htr] at p6
  unfold remove size abs
  simp only
  refine ⟨⟨p1, ?_, by rw [p10, htr]⟩, by rw [p2, keys_erase], ?_, ?_, p6, p7, trivial⟩
  · apply values_of_abs
    rw [p2]; intro p hp
    exact hv' p (List.mem_filter.mp hp).1
  · rw [p4, hc]
  · intro hne
    obtain ⟨q1, q2⟩ := p5 hne
    refine ⟨?_, q2⟩
    cases s; simp only at q1 ⊢; rw [q1]

/-- `cc_hashset_contains` -/
theorem contains_refines (c : HCfg) (s : HashSet) (e : Key) (m : Mem) (h : s.Inv c) :
    (s.contains c e m).1 = s.abs.contains e ∧ (s.contains c e m).2 = m := by
  obtain ⟨g1, g2⟩ := HashTable.containsKey_refines c s.table e m h.1
  unfold contains abs
  refine ⟨?_, g2⟩
  rw [g1, contains_eq_isSome]; rfl

theorem removeAll_eq (s : HashSet) (m : Mem) :
    s.removeAll m = ({ s with table := (s.table.removeAll m).1 }, (s.table.removeAll m).2) := by
  simp [removeAll]

/-- `cc_hashset_remove_all` -/
theorem removeAll_spec (c : HCfg) (s : HashSet) (m : Mem) (h : s.Inv c) (hl : s.size ≤ liveOf m s.triple) :
    (s.removeAll m).1.Inv c ∧ (s.removeAll m).1.abs = [] ∧ (s.removeAll m).1.size = 0 ∧
    liveOf (s.removeAll m).2 s.triple = liveOf m s.triple - s.size ∧ (s.removeAll m).2.fault = m.fault ∧
    (s.removeAll m).1.triple = s.triple := by
  obtain ⟨hi, hv, htr⟩ := h
  obtain ⟨r1, r2, r3, r4, r5, r6, r7, r8⟩ := HashTable.removeAll_spec c s.table m hi (by rw [htr]; exact hl)
  rw [htr] at r6 r8
  rw [removeAll_eq]
  generalize (s.table.removeAll m).1 = t' at r1 r2 r3 r4 r5 r8
  generalize (s.table.removeAll m).2 = m' at r6 r7
  refine ⟨⟨r1, ?_, r8⟩, ?_, r3, r6, r7, rfl⟩
  · apply values_of_abs; rw [r2]; simp
  · unfold abs; simp only; rw [r2]; rfl

/-- `cc_hashset_destroy` releases the entries, the bucket array, the table header and the set header -/
theorem destroy_spec (c : HCfg) (s : HashSet) (m : Mem) (h : s.Inv c) (hl : s.size + 3 ≤ liveOf m s.triple) :
    liveOf (s.destroy m) s.triple = liveOf m s.triple - (s.size + 3) ∧ (s.destroy m).fault = m.fault := by
  obtain ⟨hi, hv, htr⟩ := h
  obtain ⟨d1, d2⟩ := HashTable.destroy_spec c s.table m hi (by rw [htr]; unfold size at hl; omega)
  rw [htr] at d1
  have hfr := freeT_spec (s.table.destroy m) s.triple (by unfold size at hl; omega)
  unfold destroy size
  refine ⟨by rw [hfr.1, d1]; unfold size at hl; omega, by rw [hfr.2.1, d2]⟩

/-- `cc_hashset_foreach` visits exactly the elements -/
theorem foreach_refines (c : HCfg) (s : HashSet) (m : Mem) (h : s.Inv c) :
    (s.foreach m).1 = s.abs ∧ (s.foreach m).2 = m := by
  obtain ⟨f1, f2, _, _⟩ := HashTable.foreach_refines c s.table m h.1
  exact ⟨f1, f2⟩

end CC.HashSet

namespace CC.HashSet
open CC CC.HT CC.Spec

/-- an iterator-driving program on the set: one `cc_hashset_iter_next` per flag, followed by
`cc_hashset_iter_remove` when an element was yielded and the flag is set -/
def drive (c : HCfg) : List Bool → HashSet → HIter → Mem → List Key × HashSet × HIter × Mem
  | [], s, it, m => ([], s, it, m)
  | b :: bs, s, it, m =>
    let r := s.iterNext it m
    match r.2.1 with
    | none => ([], s, r.2.2.1, r.2.2.2)
    | some k =>
      let q : HashSet × HIter × Mem :=
        if b then ((s.iterRemove c r.2.2.1 r.2.2.2).2.2.1, (s.iterRemove c r.2.2.1 r.2.2.2).2.2.2.1,
                   (s.iterRemove c r.2.2.1 r.2.2.2).2.2.2.2) else (s, r.2.2.1, r.2.2.2)
      let rest := drive c bs q.1 q.2.1 q.2.2
      (k :: rest.1, rest.2)

/-- the set program is the table program, yielding keys -/
theorem drive_eq (c : HCfg) (bs : List Bool) (s : HashSet) (it : HIter) (m : Mem) :
    drive c bs s it m =
      ((HashTable.drive c bs s.table it m).1.map (·.key), { s with table := (HashTable.drive c bs s.table it m).2.1 },
       (HashTable.drive c bs s.table it m).2.2.1, (HashTable.drive c bs s.table it m).2.2.2) := by
  induction bs generalizing s it m with
  | nil => rfl
  | cons b bs ih =>
    simp only [drive, HashTable.drive, iterNext, iterRemove]
    cases h : (s.table.iterNext it m).2.1 with
    | none => simp
    | some e =>
      simp only [Option.map_some]
      cases b with
      | false => simp only [Bool.false_eq_true, if_false]; rw [ih]; simp
      | true => simp only [if_true]; rw [ih]; simp

/-- **C07 for the hash set**: a fresh iterator driven long enough yields exactly the elements of the
set, each once; with removals the set finally holds the elements whose removal was not requested -/
theorem iter_program (c : HCfg) (s : HashSet) (m : Mem) (bs : List Bool) (h : s.Inv c) (hl : s.size + 3 ≤ liveOf m s.triple) :
    (drive c bs s (s.iterInit m).1 m).1 = (s.abs.take bs.length) ∧
    (drive c bs s (s.iterInit m).1 m).2.1.Inv c ∧
    (drive c bs s (s.iterInit m).1 m).2.1.abs =
      s.abs.filter (fun k => !(HashTable.removedKeys s.table.buckets.flatten bs).contains k) ∧
    (s.size ≤ bs.length → (drive c bs s (s.iterInit m).1 m).1 = s.abs) := by
  have hl' : s.table.size + 2 ≤ liveOf m s.table.triple := by rw [h.2.2]; unfold size at hl; omega
  obtain ⟨p1, p2, p3, p4, p5⟩ := HashTable.iter_program c s.table m bs h.1 hl'
  have hT := (HashTable.drive_spec c bs s.table (s.table.iterInit m).1 m _ h.1 (HashTable.iterInit_spec c s.table m h.1).1
    h.1.2.2.2.2.1 hl').2.2.2.2.2.2.2
  rw [drive_eq]
  have habs : s.abs = s.table.buckets.flatten.map (·.key) := by
    unfold abs Map.keys HashTable.abs; rw [List.map_map]; rfl
  have hfilter : ∀ (l : List Entry) (p : Key → Bool),
      Map.keys ((l.map HashTable.pair).filter (fun q => p q.1)) = (l.map (·.key)).filter p := by
    intro l p
    unfold Map.keys
    rw [List.filter_map, List.map_map, List.filter_map]
    rfl
  refine ⟨?_, ⟨p2, ?_, ?_⟩, ?_, ?_⟩
  · simp only [iterInit]; rw [p1, habs, List.map_take]
  · apply values_of_abs
    simp only [iterInit]
    rw [p3]; intro q hq
    exact abs_of_values s.table h.2.1 q (List.mem_filter.mp hq).1
  · simp only [iterInit]; rw [hT]; exact h.2.2
  · simp only [iterInit, abs]
    rw [p3, HashTable.abs_eq]
    rw [hfilter s.table.buckets.flatten (fun k => !(HashTable.removedKeys s.table.buckets.flatten bs).contains k)]
    unfold Map.keys; rw [List.map_map]; rfl
  · intro hn
    have hlen : s.table.buckets.flatten.length ≤ bs.length := by rw [← h.1.2.2.1]; exact hn
    simp only [iterInit]; rw [(p5 hlen).1, habs]

end CC.HashSet

namespace CC.HashSet
open CC CC.HT CC.Spec

/-! the ideal set under permutation -/
theorem set_contains_perm {s1 s2 : Set} (h : s1.Perm s2) (e : Key) : s1.contains e = s2.contains e := by
  cases h1 : s1.contains e with
  | true =>
    have : e ∈ s1 := by simpa using h1
    have : e ∈ s2 := h.mem_iff.mp this
    exact (by simpa using this : s2.contains e = true).symm
  | false =>
    have : ¬ e ∈ s1 := by simpa using h1
    have h2 : ¬ e ∈ s2 := fun hm => this (h.mem_iff.mpr hm)
    exact (by simpa using h2 : s2.contains e = false).symm

theorem set_insert_perm {s1 s2 : Set} (h : s1.Perm s2) (e : Key) : (Set.insert s1 e).Perm (Set.insert s2 e) := by
  unfold Set.insert
  rw [← set_contains_perm h e]
  split
  · exact h
  · exact h.cons _

theorem set_erase_perm {s1 s2 : Set} (h : s1.Perm s2) (e : Key) : (Set.erase s1 e).Perm (Set.erase s2 e) := h.filter _


end CC.HashSet
