import CollectionsC.Proofs.PTreeRotL
set_option linter.unusedSimpArgs false
set_option linter.unusedVariables false
namespace CC.PTree
open CC
open CC.Tree (Path Dir)

theorem rotateRight_get_x (st : PT) (x y pn B al cr kx vx ky vy : Nat) (cx cy : Colour)
    (hxr : st.heap.get x = { key := kx, value := vx, color := cx, right := al, left := y, parent := pn })
    (hyr : st.heap.get y = { key := ky, value := vy, color := cy, right := B, left := cr, parent := x })
    (hxy : x ≠ y) (hbx : B ≠ x) (hby : B ≠ y)
    (hpar : pn = 0 ∨ (pn ≠ x ∧ pn ≠ y ∧ (B ≠ 0 → pn ≠ B))) :
    (rotateRight st x).heap.get x = { key := kx, value := vx, color := cx, right := al, left := B, parent := y } := by
  have hyx : y ≠ x := Ne.symm hxy
  have hxb' : x ≠ B := Ne.symm hbx
  have hyb' : y ≠ B := Ne.symm hby
  unfold rotateRight
  by_cases hb0 : B = 0 <;> rcases hpar with hp0 | ⟨hpx, hpy, hpb0⟩
  · simp [S, ite_get, setLeft, setRight, setParent, Heap.get_set, hxr, hyr, hxy, hyx, hb0, hp0]
    all_goals (try (split <;> simp))
  · have hpx' := Ne.symm hpx; have hpy' := Ne.symm hpy
    by_cases hp0 : pn = 0
    · simp [S, ite_get, setLeft, setRight, setParent, Heap.get_set, hxr, hyr, hxy, hyx, hb0, hp0]
    all_goals (try (split <;> simp))
    · simp [S, ite_get, setLeft, setRight, setParent, Heap.get_set, hxr, hyr, hxy, hyx, hb0, hp0, hpx, hpy, hpx', hpy']
    all_goals (try (split <;> simp))
  · simp [S, ite_get, setLeft, setRight, setParent, Heap.get_set, hxr, hyr, hxy, hyx, hb0, hp0, hbx, hby, hxb', hyb']
    all_goals (try (split <;> simp))
  · have hpx' := Ne.symm hpx; have hpy' := Ne.symm hpy
    have hpb := hpb0 hb0; have hpb' := Ne.symm hpb
    by_cases hp0 : pn = 0
    · simp [S, ite_get, setLeft, setRight, setParent, Heap.get_set, hxr, hyr, hxy, hyx, hb0, hp0, hbx, hby, hxb', hyb']
    all_goals (try (split <;> simp))
    · simp [S, ite_get, setLeft, setRight, setParent, Heap.get_set, hxr, hyr, hxy, hyx, hb0, hp0, hpx, hpy, hpx', hpy', hbx, hby, hxb', hyb', hpb, hpb']
    all_goals (try (split <;> simp))

theorem rotateRight_get_y (st : PT) (x y pn B al cr kx vx ky vy : Nat) (cx cy : Colour)
    (hxr : st.heap.get x = { key := kx, value := vx, color := cx, right := al, left := y, parent := pn })
    (hyr : st.heap.get y = { key := ky, value := vy, color := cy, right := B, left := cr, parent := x })
    (hxy : x ≠ y) (hbx : B ≠ x) (hby : B ≠ y)
    (hpar : pn = 0 ∨ (pn ≠ x ∧ pn ≠ y ∧ (B ≠ 0 → pn ≠ B))) :
    (rotateRight st x).heap.get y = { key := ky, value := vy, color := cy, right := x, left := cr, parent := pn } := by
  have hyx : y ≠ x := Ne.symm hxy
  have hxb' : x ≠ B := Ne.symm hbx
  have hyb' : y ≠ B := Ne.symm hby
  unfold rotateRight
  by_cases hb0 : B = 0 <;> rcases hpar with hp0 | ⟨hpx, hpy, hpb0⟩
  · simp [S, ite_get, setLeft, setRight, setParent, Heap.get_set, hxr, hyr, hxy, hyx, hb0, hp0]
    all_goals (try (split <;> simp))
  · have hpx' := Ne.symm hpx; have hpy' := Ne.symm hpy
    by_cases hp0 : pn = 0
    · simp [S, ite_get, setLeft, setRight, setParent, Heap.get_set, hxr, hyr, hxy, hyx, hb0, hp0]
    all_goals (try (split <;> simp))
    · simp [S, ite_get, setLeft, setRight, setParent, Heap.get_set, hxr, hyr, hxy, hyx, hb0, hp0, hpx, hpy, hpx', hpy']
    all_goals (try (split <;> simp))
  · simp [S, ite_get, setLeft, setRight, setParent, Heap.get_set, hxr, hyr, hxy, hyx, hb0, hp0, hbx, hby, hxb', hyb']
    all_goals (try (split <;> simp))
  · have hpx' := Ne.symm hpx; have hpy' := Ne.symm hpy
    have hpb := hpb0 hb0; have hpb' := Ne.symm hpb
    by_cases hp0 : pn = 0
    · simp [S, ite_get, setLeft, setRight, setParent, Heap.get_set, hxr, hyr, hxy, hyx, hb0, hp0, hbx, hby, hxb', hyb']
    all_goals (try (split <;> simp))
    · simp [S, ite_get, setLeft, setRight, setParent, Heap.get_set, hxr, hyr, hxy, hyx, hb0, hp0, hpx, hpy, hpx', hpy', hbx, hby, hxb', hyb', hpb, hpb']
    all_goals (try (split <;> simp))

theorem rotateRight_get_other (st : PT) (x y pn B al cr kx vx ky vy : Nat) (cx cy : Colour)
    (hxr : st.heap.get x = { key := kx, value := vx, color := cx, right := al, left := y, parent := pn })
    (hyr : st.heap.get y = { key := ky, value := vy, color := cy, right := B, left := cr, parent := x })
    (hxy : x ≠ y) (hbx : B ≠ x) (hby : B ≠ y)
    (hpar : pn = 0 ∨ (pn ≠ x ∧ pn ≠ y ∧ (B ≠ 0 → pn ≠ B))) (i : Nat) (h1 : i ≠ x) (h2 : i ≠ y) (h3' : B ≠ 0 → i ≠ B) (h4' : pn ≠ 0 → i ≠ pn) :
    (rotateRight st x).heap.get i = st.heap.get i := by
  have hyx : y ≠ x := Ne.symm hxy
  have hxb' : x ≠ B := Ne.symm hbx
  have hyb' : y ≠ B := Ne.symm hby
  unfold rotateRight
  by_cases hb0 : B = 0 <;> by_cases hp0 : pn = 0
  · simp [S, ite_get, setLeft, setRight, setParent, Heap.get_set, hxr, hyr, hxy, hyx, hb0, hp0, h1, h2]
  · have h4 := h4' hp0
    obtain ⟨hpx, hpy, _⟩ : pn ≠ x ∧ pn ≠ y ∧ (B ≠ 0 → pn ≠ B) := by rcases hpar with h | h; exact absurd h hp0; exact h
    have hpx' := Ne.symm hpx; have hpy' := Ne.symm hpy
    simp [S, ite_get, setLeft, setRight, setParent, Heap.get_set, hxr, hyr, hxy, hyx, hb0, hp0, hpx, hpy, hpx', hpy', h1, h2, h4]
  · have h3 := h3' hb0
    simp [S, ite_get, setLeft, setRight, setParent, Heap.get_set, hxr, hyr, hxy, hyx, hb0, hp0, hbx, hby, hxb', hyb', h1, h2, h3]
  · have h3 := h3' hb0
    have h4 := h4' hp0
    obtain ⟨hpx, hpy, hpb0⟩ : pn ≠ x ∧ pn ≠ y ∧ (B ≠ 0 → pn ≠ B) := by rcases hpar with h | h; exact absurd h hp0; exact h
    have hpx' := Ne.symm hpx; have hpy' := Ne.symm hpy
    have hpb := hpb0 hb0; have hpb' := Ne.symm hpb
    simp [S, ite_get, setLeft, setRight, setParent, Heap.get_set, hxr, hyr, hxy, hyx, hb0, hp0, hpx, hpy, hpx', hpy', hbx, hby, hxb', hyb', hpb, hpb', h1, h2, h3, h4]

theorem rotateRight_get_b (st : PT) (x y pn B al cr kx vx ky vy : Nat) (cx cy : Colour)
    (hxr : st.heap.get x = { key := kx, value := vx, color := cx, right := al, left := y, parent := pn })
    (hyr : st.heap.get y = { key := ky, value := vy, color := cy, right := B, left := cr, parent := x })
    (hxy : x ≠ y) (hbx : B ≠ x) (hby : B ≠ y)
    (hpar : pn = 0 ∨ (pn ≠ x ∧ pn ≠ y ∧ (B ≠ 0 → pn ≠ B))) (hb0 : B ≠ 0) :
    (rotateRight st x).heap.get B = { st.heap.get B with parent := x } := by
  have hyx : y ≠ x := Ne.symm hxy
  have hxb' : x ≠ B := Ne.symm hbx
  have hyb' : y ≠ B := Ne.symm hby
  unfold rotateRight
  by_cases hp0 : pn = 0
  · simp [S, ite_get, setLeft, setRight, setParent, Heap.get_set, hxr, hyr, hxy, hyx, hb0, hp0, hbx, hby, hxb', hyb']
  · obtain ⟨hpx, hpy, hpb0⟩ : pn ≠ x ∧ pn ≠ y ∧ (B ≠ 0 → pn ≠ B) := by rcases hpar with h | h; exact absurd h hp0; exact h
    have hpx' := Ne.symm hpx; have hpy' := Ne.symm hpy
    have hpb := hpb0 hb0; have hpb' := Ne.symm hpb
    simp [S, ite_get, setLeft, setRight, setParent, Heap.get_set, hxr, hyr, hxy, hyx, hb0, hp0, hpx, hpy, hpx', hpy', hbx, hby, hxb', hyb', hpb, hpb']

theorem rotateRight_get_pn (st : PT) (x y pn B al cr kx vx ky vy : Nat) (cx cy : Colour)
    (hxr : st.heap.get x = { key := kx, value := vx, color := cx, right := al, left := y, parent := pn })
    (hyr : st.heap.get y = { key := ky, value := vy, color := cy, right := B, left := cr, parent := x })
    (hxy : x ≠ y) (hbx : B ≠ x) (hby : B ≠ y)
    (hpar : pn = 0 ∨ (pn ≠ x ∧ pn ≠ y ∧ (B ≠ 0 → pn ≠ B))) (hp0 : pn ≠ 0) :
    (rotateRight st x).heap.get pn =
      (if (st.heap.get pn).right = x then { st.heap.get pn with right := y } else { st.heap.get pn with left := y }) := by
  have hyx : y ≠ x := Ne.symm hxy
  have hxb' : x ≠ B := Ne.symm hbx
  have hyb' : y ≠ B := Ne.symm hby
  unfold rotateRight
  obtain ⟨hpx, hpy, hpb0⟩ : pn ≠ x ∧ pn ≠ y ∧ (B ≠ 0 → pn ≠ B) := by rcases hpar with h | h; exact absurd h hp0; exact h
  have hpx' := Ne.symm hpx; have hpy' := Ne.symm hpy
  by_cases hb0 : B = 0
  · simp [S, ite_get, setLeft, setRight, setParent, Heap.get_set, hxr, hyr, hxy, hyx, hb0, hp0, hpx, hpy, hpx', hpy']
    by_cases e : x = (st.heap.get pn).right <;> simp [e, Eq.comm]
  · have hpb := hpb0 hb0; have hpb' := Ne.symm hpb
    simp [S, ite_get, setLeft, setRight, setParent, Heap.get_set, hxr, hyr, hxy, hyx, hb0, hp0, hpx, hpy, hpx', hpy', hbx, hby, hxb', hyb', hpb, hpb']
    by_cases e : x = (st.heap.get pn).right <;> simp [e, Eq.comm]

theorem rotateRight_root (st : PT) (x y pn B al cr kx vx ky vy : Nat) (cx cy : Colour)
    (hxr : st.heap.get x = { key := kx, value := vx, color := cx, right := al, left := y, parent := pn })
    (hyr : st.heap.get y = { key := ky, value := vy, color := cy, right := B, left := cr, parent := x })
    (hxy : x ≠ y) (hbx : B ≠ x) (hby : B ≠ y)
    (hpar : pn = 0 ∨ (pn ≠ x ∧ pn ≠ y ∧ (B ≠ 0 → pn ≠ B))) :
    (rotateRight st x).root = (if pn = 0 then y else st.root) ∧ (rotateRight st x).size = st.size ∧
    (rotateRight st x).fresh = st.fresh := by
  have hyx : y ≠ x := Ne.symm hxy
  have hxb' : x ≠ B := Ne.symm hbx
  unfold rotateRight
  by_cases hb0 : B = 0 <;>
    simp [S, ite_get, setLeft, setRight, setParent, Heap.get_set, hxr, hyr, hxy, hyx, hb0, hbx, hxb']


/-- **`rotate_right(table, x)`**, the mirror image -/
theorem rotateRight_rep {st : PT} {t : ITree} (hr : Rep st.heap t 0) (hroot : st.root = t.rid)
    (hnd : t.ids.Nodup) (q : Path) {x cx a kx vx y cy b ky vy c}
    (hs : t.subtree q = .node x cx (.node y cy a ky vy b) kx vx c) :
    Rep (rotateRight st x).heap (t.replace q (.node y cy a ky vy (.node x cx b kx vx c))) 0 ∧
    (rotateRight st x).root = (t.replace q (.node y cy a ky vy (.node x cx b kx vx c))).rid ∧
    (rotateRight st x).heap.get 0 = st.heap.get 0 ∧
    (rotateRight st x).size = st.size ∧ (rotateRight st x).fresh = st.fresh := by
  have hsub := hr.sub q
  rw [hs] at hsub
  obtain ⟨hx0, hxr, ⟨hy0, hyr, ha, hb⟩, hc⟩ := hsub
  have hndS := ITree.ids_subtree_nodup t q hnd
  rw [hs] at hndS
  simp only [ITree.ids_node, List.nodup_cons, List.mem_cons, List.mem_append, not_or, List.cons_append] at hndS
  obtain ⟨⟨hxy, ⟨hxa, hxb⟩, hxc⟩, ⟨⟨hya, hyb⟩, hyc⟩, hnd2⟩ := hndS
  obtain ⟨hndAB, hndC, hdisjABC⟩ := List.nodup_append.1 hnd2
  obtain ⟨hndA, hndB, hdab⟩ := List.nodup_append.1 hndAB
  have hdbc : ∀ i ∈ b.ids, ∀ j ∈ c.ids, i ≠ j := fun i hi j hj => hdisjABC i (by simp [hi]) j hj
  have hdac : ∀ i ∈ a.ids, ∀ j ∈ c.ids, i ≠ j := fun i hi j hj => hdisjABC i (by simp [hi]) j hj
  have hbr : b.rid = 0 ∨ (b.rid ∈ b.ids ∧ b.rid ≠ 0) := by
    cases b with
    | nil => left; rfl
    | node bi bc bl bk bv br => right; exact ⟨by simp, hb.1⟩
  have hbrid : b.rid ≠ 0 → b.rid ∈ b.ids := by
    intro h; rcases hbr with h' | ⟨h', _⟩
    · exact absurd h' h
    · exact h'
  have hbx : b.rid ≠ x := by
    rcases hbr with h | ⟨h, _⟩
    · rw [h]; exact fun e => hx0 e.symm
    · exact fun e => hxb (e ▸ h)
  have hby : b.rid ≠ y := by
    rcases hbr with h | ⟨h, _⟩
    · rw [h]; exact fun e => hy0 e.symm
    · exact fun e => hyb (e ▸ h)
  generalize hpn : parentAt t 0 q = pn at hxr
  have hpar : (q = [] ∧ pn = 0) ∨ (∃ q0 d, q = q0 ++ [d] ∧ pn ≠ 0 ∧ pn ≠ x ∧ pn ≠ y ∧ pn ∉ a.ids ∧ pn ∉ b.ids ∧
      pn ∉ c.ids ∧ ((st.heap.get pn).right = x ↔ d = .R)) := by
    rcases path_cases q with hq | ⟨q0, d, hq⟩
    · left; subst hq; exact ⟨rfl, by simpa [parentAt] using hpn.symm⟩
    · right
      subst hq
      obtain ⟨p1, p2, _, p4⟩ := hr.parent_child hnd q0 d hs
      rw [hpn] at p1 p2 p4
      rw [hs] at p2
      simp only [ITree.ids_node, List.mem_cons, List.mem_append, not_or, List.cons_append] at p2
      exact ⟨q0, d, rfl, p1, p2.1, p2.2.1, p2.2.2.1.1, p2.2.2.1.2, p2.2.2.2, p4⟩
  have hpar' : pn = 0 ∨ (pn ≠ x ∧ pn ≠ y ∧ (b.rid ≠ 0 → pn ≠ b.rid)) := by
    rcases hpar with ⟨_, h0⟩ | ⟨_, _, _, _, h1, h2, _, h3, _⟩
    · exact Or.inl h0
    · exact Or.inr ⟨h1, h2, fun hb0 e => h3 (e ▸ hbrid hb0)⟩
  have hxy' : x ≠ y := hxy
  have gx := rotateRight_get_x st x y pn b.rid c.rid a.rid kx vx ky vy cx cy hxr hyr hxy' hbx hby hpar'
  have gy := rotateRight_get_y st x y pn b.rid c.rid a.rid kx vx ky vy cx cy hxr hyr hxy' hbx hby hpar'
  have gother := rotateRight_get_other st x y pn b.rid c.rid a.rid kx vx ky vy cx cy hxr hyr hxy' hbx hby hpar'
  have gb := rotateRight_get_b st x y pn b.rid c.rid a.rid kx vx ky vy cx cy hxr hyr hxy' hbx hby hpar'
  have gp := rotateRight_get_pn st x y pn b.rid c.rid a.rid kx vx ky vy cx cy hxr hyr hxy' hbx hby hpar'
  obtain ⟨groot, gsize, gfresh⟩ :=
    rotateRight_root st x y pn b.rid c.rid a.rid kx vx ky vy cx cy hxr hyr hxy' hbx hby hpar'
  have hpn_q : pn = 0 ↔ q = [] := by
    rcases hpar with ⟨hq, hp0⟩ | ⟨q0, d, hq, hp0, _⟩
    · simp [hq, hp0]
    · simp [hq, hp0]
  have hbmem : ∀ i ∈ b.ids, i ≠ x ∧ i ≠ y := fun i hi => ⟨fun e => hxb (e ▸ hi), fun e => hyb (e ▸ hi)⟩
  have hne_pn : ∀ i, (i ∈ a.ids ∨ i ∈ b.ids ∨ i ∈ c.ids) → pn ≠ 0 → i ≠ pn := by
    intro i hi hp e
    rcases hpar with ⟨_, h⟩ | ⟨_, _, _, _, _, _, h1, h2, h3, _⟩
    · exact hp h
    · subst e; rcases hi with hi | hi | hi
      · exact h1 hi
      · exact h2 hi
      · exact h3 hi
  refine ⟨?_, ?_, ?_, gsize, gfresh⟩
  · refine hr.replace hnd q _ ?_ ?_ ?_
    · intro i _ hi hip
      rw [hs] at hi
      simp only [ITree.ids_node, List.mem_cons, List.mem_append, not_or, List.cons_append] at hi
      rw [hpn] at hip
      exact gother i hi.1 hi.2.1 (fun hb0 e => hi.2.2.1.2 (e ▸ hbrid hb0)) (fun _ => hip)
    · rw [hpn]
      refine ⟨hy0, by rw [gy]; rfl, ?_, ⟨hx0, by rw [gx], ?_, ?_⟩⟩
      · exact ha.frame (fun i hi => gother i (fun e => hxa (e ▸ hi)) (fun e => hya (e ▸ hi))
          (fun hb0 e => hdab i hi b.rid (hbrid hb0) e) (hne_pn i (Or.inl hi)))
      · cases b with
        | nil => trivial
        | node bi bc bl bk bv br =>
          obtain ⟨b1, b2, b3, b4⟩ := hb
          simp only [ITree.ids_node, List.nodup_cons, List.mem_append, not_or] at hndB
          obtain ⟨⟨hbl, hbr'⟩, hndB'⟩ := hndB
          have gb' := gb (by simpa using b1)
          simp only [ITree.rid_node] at gb' gother
          refine ⟨b1, by rw [gb', b2], ?_, ?_⟩
          · exact b3.frame (fun i hi => gother i (hbmem i (by simp [hi])).1 (hbmem i (by simp [hi])).2
              (fun _ e => hbl (e ▸ hi)) (hne_pn i (Or.inr (Or.inl (by simp [hi])))))
          · exact b4.frame (fun i hi => gother i (hbmem i (by simp [hi])).1 (hbmem i (by simp [hi])).2
              (fun _ e => hbr' (e ▸ hi)) (hne_pn i (Or.inr (Or.inl (by simp [hi])))))
      · exact hc.frame (fun i hi => gother i (fun e => hxc (e ▸ hi)) (fun e => hyc (e ▸ hi))
          (fun hb0 e => hdbc b.rid (hbrid hb0) i hi e.symm) (hne_pn i (Or.inr (Or.inr hi))))
    · intro q0 d hq
      rw [hpn]
      rcases hpar with ⟨hq', _⟩ | ⟨q0', d', hq', hp0, _, _, _, _, _, hiff⟩
      · rw [hq'] at hq; simp at hq
      · have : q0' = q0 ∧ d' = d := by
          have := hq'.symm.trans hq
          simpa using List.append_inj' this rfl
        obtain ⟨rfl, rfl⟩ := this
        rw [gp hp0]
        cases d' with
        | R => simp [hiff.2 rfl, withChild]
        | L =>
          have : ¬ (st.heap.get pn).right = x := fun e => by have := hiff.1 e; cases this
          simp [this, withChild]
  · rw [groot]
    by_cases hq : q = []
    · subst hq; simp [hpn_q.2 rfl]
    · rcases path_cases q with h | ⟨q0, d, h⟩
      · exact absurd h hq
      · have : pn ≠ 0 := fun e => hq (hpn_q.1 e)
        simp only [this, if_false, hroot]
        subst h
        cases q0 with
        | nil => cases t with
          | nil => simp at hs
          | node => cases d <;> rfl
        | cons e q1 => exact (ITree.rid_replace_cons t e _ _).symm
  · exact gother 0 (Ne.symm hx0) (Ne.symm hy0) (fun h => Ne.symm h) (fun h => Ne.symm h)
end CC.PTree
